(** C08 — concurrent writers of one blob: honest writers preserve "right size => right content" under every
    interleaving (and every crash); a misbehaving concurrent writer does not (refutation witness). *)
From Coq Require Import List NArith Bool Arith Lia.
From V Require Import Common.Bytes Blob.Model Blob.Proofs.
Import ListNotations.

(** the reader delivers exactly [rest] (any chunking, empty reads allowed, optional EOF flag on the last read) *)
Fixpoint src_honest (src : list rd) (rest : list N) : Prop :=
  match src with
  | [] => rest = []
  | (p, RMore) :: t => exists r', rest = p ++ r' /\ src_honest t r'
  | (p, REof) :: _ => rest = p
  | (p, RErr) :: _ => False
  end.

Definition agree (M : nat) (f c : list N) : Prop := forall i, i < M -> nth_error f i = nth_error c i.

Lemma skipn_split (c : list N) n p r : n <= length c -> skipn n c = p ++ r ->
  n + length p <= length c /\ firstn (n + length p) c = firstn n c ++ p /\ skipn (n + length p) c = r /\
  (forall i, n <= i -> i < n + length p -> nth_error c i = nth_error p (i - n)).
Proof.
  intros Hn Hs.
  assert (Hc : c = firstn n c ++ p ++ r) by (rewrite <- Hs; symmetry; apply firstn_skipn).
  assert (Hl : length (firstn n c) = n) by (rewrite firstn_length; lia).
  assert (Hlen : length c = n + length p + length r).
  { rewrite Hc at 1. rewrite !app_length, Hl. lia. }
  split; [lia|]. split; [|split].
  - rewrite Hc at 1. rewrite app_assoc. rewrite firstn_app.
    replace (n + length p - length (firstn n c ++ p)) with 0 by (rewrite app_length, Hl; lia).
    cbn. rewrite app_nil_r. apply firstn_all2. rewrite app_length, Hl. lia.
  - rewrite Hc at 1. rewrite app_assoc. rewrite skipn_app.
    replace (n + length p - length (firstn n c ++ p)) with 0 by (rewrite app_length, Hl; lia).
    rewrite skipn_all2 by (rewrite app_length, Hl; lia). reflexivity.
  - intros i Hi1 Hi2. rewrite Hc at 1. rewrite nth_error_app2 by lia. rewrite Hl.
    rewrite nth_error_app1 by lia. reflexivity.
Qed.

(** an honest write keeps the file a consistent partial copy of the content *)
Lemma honest_write (f c p r : list N) n M :
  n <= M -> M <= length f -> M <= length c -> agree M f c -> (length f < length c \/ f = c) ->
  skipn n c = p ++ r ->
  let f1 := write_at f n p in
  let M' := Nat.max M (n + length p) in
  M' <= length f1 /\ M' <= length c /\ agree M' f1 c /\ (length f1 < length c \/ f1 = c).
Proof.
  intros HnM HMf HMc Hag Hfc Hs f1 M'.
  destruct (skipn_split c n p r ltac:(lia) Hs) as (Hb & _ & _ & Hp).
  assert (Hnf : n <= length f) by lia.
  assert (Hlen1 : length f1 = Nat.max (length f) (n + length p)) by (apply write_at_length; exact Hnf).
  assert (Hnth : forall i, (i < M' \/ f = c) -> i < length f1 -> nth_error f1 i = nth_error c i).
  { intros i Hi Hil. unfold f1. rewrite nth_error_write_at by exact Hnf.
    destruct (i <? n) eqn:E1.
    - apply Nat.ltb_lt in E1. destruct Hi as [Hi | ->]; [apply Hag; lia | reflexivity].
    - apply Nat.ltb_ge in E1. destruct (i <? n + length p) eqn:E2.
      + apply Nat.ltb_lt in E2. symmetry. apply Hp; lia.
      + apply Nat.ltb_ge in E2. destruct Hi as [Hi | ->]; [apply Hag; unfold M' in Hi; lia | reflexivity]. }
  split; [unfold M'; lia|]. split; [unfold M'; lia|]. split.
  - intros i Hi. apply Hnth; [left; exact Hi | unfold M' in *; lia].
  - destruct Hfc as [Hfl | Hfeq].
    + destruct (Nat.eq_dec (n + length p) (length c)) as [He | Hne].
      * right. apply list_eq_nth_error; [lia|]. intros i Hi. apply Hnth; [left; unfold M'; lia | exact Hi].
      * left. lia.
    + right. subst f. apply list_eq_nth_error; [lia|]. intros i Hi. apply Hnth; [right; reflexivity | exact Hi].
Qed.

Lemma write_at_nil (f : list N) n : n <= length f -> write_at f n [] = f.
Proof.
  intros Hn. rewrite write_at_inside by exact Hn. cbn. rewrite Nat.add_0_r. apply firstn_skipn.
Qed.

Section Conc.
  Variable D : Type.
  Variable deq : D -> D -> bool.
  Variable H : list N -> D.
  Hypothesis deq_spec : forall a b, deq a b = true <-> a = b.

  Notation writer := (writer D).
  Notation w_step := (w_step D deq H).
  Notation cstep := (cstep D deq H).
  Notation crun := (crun D deq H).

  Variable c : list N.     (* the content every honest writer carries *)

  Definition HW (w : writer) : Prop :=
    w_d w = H c /\ w_size w = length c /\
    match w_stage w with
    | WNew => w_n w = 0 /\ w_acc w = [] /\ src_honest (w_src w) c
    | WCopy => w_n w <= length c /\ w_acc w = firstn (w_n w) c /\ src_honest (w_src w) (skipn (w_n w) c)
    | _ => True
    end.

  (** the file is a consistent partial copy: it agrees with c up to the high-water mark M of the running writers,
      and it has the full size only when it is c *)
  Definition FOK (fo : option (list N)) (M : nat) : Prop :=
    let f := file_of fo in
    (length f < length c \/ f = c) /\ M <= length f /\ M <= length c /\ agree M f c.

  Definition bounded (M : nat) (w : writer) : Prop := w_stage w = WCopy -> w_n w <= M.

  Lemma cw_honest (w : writer) p r :
    HW w -> w_stage w = WCopy -> skipn (w_n w) c = p ++ r -> cw_check D deq H w p = None.
  Proof.
    intros (Hd & Hs & Hst) Hstage Hsk. rewrite Hstage in Hst. destruct Hst as (Hn & Hacc & _).
    destruct (skipn_split c (w_n w) p r Hn Hsk) as (Hb & Hfn & Hrest & _).
    unfold cw_check. rewrite Hs.
    destruct (w_n w + length p =? length c) eqn:E.
    - apply Nat.eqb_eq in E. rewrite Hacc, <- Hfn, E, firstn_all, Hd.
      assert (Hx : deq (H c) (H c) = true) by (apply deq_spec; reflexivity). rewrite Hx. reflexivity.
    - apply Nat.eqb_neq in E. destruct (length c <? w_n w + length p) eqn:E2; [apply Nat.ltb_lt in E2; lia | reflexivity].
  Qed.

  (** one scheduling step of an honest writer *)
  Lemma honest_step a (w : writer) fo M :
    HW w -> FOK fo M -> bounded M w -> (fo = None -> w_stage w <> WCopy) ->
    let fo' := fst (w_step a w fo) in
    let w' := snd (w_step a w fo) in
    HW w' /\ exists M', M <= M' /\ FOK fo' M' /\ bounded M' w' /\ (fo' = None -> fo = None /\ w_stage w' <> WCopy).
  Proof.
    intros HWw HF HB HN. pose proof HWw as (Hd & Hs & Hst).
    destruct HF as (Hfc & HMf & HMc & Hag).
    unfold Model.w_step. destruct (w_stage w) eqn:Hstage.
    - (* WNew *)
      destruct a.
      + (* Stat / OpenFile *)
        destruct Hst as (Hn0 & Hacc0 & Hsrc).
        unfold w_start, set_stage. rewrite Hs.
        destruct fo as [f|]; cbn [file_of] in *.
        * destruct (length f =? length c) eqn:E1; cbn [fst snd].
          -- split; [unfold HW; cbn; auto|]. exists M. split; [lia|]. split; [unfold FOK; cbn; auto|].
             split; [unfold bounded; cbn; congruence | intros; discriminate].
          -- apply Nat.eqb_neq in E1.
             assert (Hlt : length f < length c) by (destruct Hfc as [Hx | Hx]; [exact Hx | subst f; congruence]).
             assert (Hnt : (length c <? length f) = false) by (apply Nat.ltb_ge; lia). rewrite Hnt.
             destruct (length c =? 0) eqn:E0; [apply Nat.eqb_eq in E0; lia|]. cbn [fst snd].
             split.
             ++ unfold HW; cbn. rewrite Hn0, Hacc0. cbn. repeat split; auto; lia.
             ++ exists M. split; [lia|]. split; [unfold FOK; cbn; auto|].
                split; [unfold bounded; cbn; intros; lia | intros; discriminate].
        * destruct (length c =? 0) eqn:E0; cbn [fst snd].
          -- apply Nat.eqb_eq in E0. split; [unfold HW; cbn; auto|]. exists M. split; [lia|].
             split; [unfold FOK; cbn; auto|]. split; [unfold bounded; cbn; congruence | intros; discriminate].
          -- apply Nat.eqb_neq in E0. split.
             ++ unfold HW; cbn. rewrite Hn0, Hacc0. cbn. repeat split; auto; lia.
             ++ exists M. split; [lia|]. split; [unfold FOK; cbn; cbn in HMf; repeat split; auto; lia|].
                split; [unfold bounded; cbn; intros; lia | intros; discriminate].
      + cbn [fst snd]. split; [unfold HW, set_stage; cbn; auto|]. exists M. split; [lia|].
        split; [unfold FOK; auto|]. split; [unfold bounded, set_stage; cbn; congruence|].
        intros Hx. split; [exact Hx | unfold set_stage; cbn; congruence].
    - (* WCopy *)
      destruct Hst as (Hn & Hacc & Hsrc). specialize (HB Hstage).
      assert (Hfo : fo <> None) by (intros Hx; apply (HN Hx); reflexivity).
      destruct fo as [f|]; [|congruence]. cbn [file_of] in *.
      assert (Hnf : w_n w <= length f) by lia.
      destruct a.
      + (* Read + Write *)
        unfold Model.w_read. destruct (w_src w) as [|[p st] rest] eqn:Esrc.
        * (* end of source: everything was written *)
          cbn in Hsrc. assert (Hfull : w_n w = length c).
          { assert (length (skipn (w_n w) c) = 0) by (rewrite Hsrc; reflexivity). rewrite skipn_length in *. lia. }
          unfold w_eof. rewrite Hs. assert (Hnl : (w_n w <? length c) = false) by (apply Nat.ltb_ge; lia). rewrite Hnl.
          cbn [fst snd]. split; [unfold HW, set_stage; cbn; auto|]. exists M. split; [lia|].
          split; [unfold FOK; cbn; auto|]. split; [unfold bounded, set_stage; cbn; congruence | intros; discriminate].
        * assert (Hsplit : exists r, skipn (w_n w) c = p ++ r /\
                    match st with RMore => src_honest rest r | REof => r = [] | RErr => False end).
          { cbn in Hsrc. destruct st.
            - destruct Hsrc as (r' & H1 & H2). eauto.
            - exists []. rewrite app_nil_r. auto.
            - contradiction. }
          destruct Hsplit as (r & Hsk & Hst').
          destruct (skipn_split c (w_n w) p r Hn Hsk) as (Hb & Hfn & Hrest & _).
          destruct p as [|b p'].
          -- (* empty read *)
             cbn [app] in Hsk. destruct st.
             ++ cbn [fst snd]. split.
                ** unfold HW; cbn. rewrite Hstage. repeat split; auto. rewrite Hsk. exact Hst'.
                ** exists M. split; [lia|]. split; [unfold FOK; cbn; auto|].
                   split; [unfold bounded; cbn; intros; lia | intros; discriminate].
             ++ rewrite Hst' in Hsk. assert (Hfull : w_n w = length c).
                { assert (length (skipn (w_n w) c) = 0) by (rewrite Hsk; reflexivity). rewrite skipn_length in *. lia. }
                unfold w_eof. cbn [w_n w_size]. rewrite Hs.
                assert (Hnl : (w_n w <? length c) = false) by (apply Nat.ltb_ge; lia). rewrite Hnl.
                cbn [fst snd]. split; [unfold HW, set_stage; cbn; auto|]. exists M. split; [lia|].
                split; [unfold FOK; cbn; auto|]. split; [unfold bounded, set_stage; cbn; congruence | intros; discriminate].
             ++ contradiction.
          -- (* a real write *)
             rewrite (cw_honest w (b :: p') r HWw Hstage Hsk).
             destruct (honest_write f c (b :: p') r (w_n w) M HB HMf HMc Hag Hfc Hsk) as (H1 & H2 & H3 & H4).
             set (f1 := write_at f (w_n w) (b :: p')) in *. set (M' := Nat.max M (w_n w + length (b :: p'))) in *.
             assert (HW1 : forall src', HW (mkW (w_d w) (w_size w) (w_n w + length (b :: p')) (w_acc w ++ b :: p') src' WCopy) ->
                           True) by auto.
             destruct st.
             ++ cbn [fst snd]. split.
                ** unfold HW. cbn [w_d w_size w_n w_acc w_src w_stage]. rewrite Hstage.
                   split; [exact Hd|]. split; [exact Hs|]. split; [exact Hb|].
                   split; [rewrite Hacc; symmetry; exact Hfn | rewrite Hrest; exact Hst'].
                ** exists M'. split; [unfold M'; lia|]. split; [unfold FOK; cbn; auto|].
                   split; [unfold bounded; cbn [w_n w_stage]; intros; unfold M'; lia | intros; discriminate].
             ++ rewrite Hst' in Hsk. unfold w_eof. cbn [w_n w_size]. rewrite Hs.
                assert (Hfull : w_n w + length (b :: p') = length c).
                { assert (length (skipn (w_n w) c) = length (b :: p')) by (rewrite Hsk, app_nil_r; reflexivity).
                  rewrite skipn_length in *. lia. }
                assert (Hnl : (w_n w + length (b :: p') <? length c) = false) by (apply Nat.ltb_ge; lia). rewrite Hnl.
                cbn [fst snd]. split; [unfold HW, set_stage; cbn; auto|]. exists M'. split; [unfold M'; lia|].
                split; [unfold FOK; cbn; auto|]. split; [unfold bounded, set_stage; cbn; congruence | intros; discriminate].
             ++ contradiction.
      + (* the process dies inside the next write *)
        destruct (w_src w) as [|[p st] rest] eqn:Esrc.
        * cbn [fst snd]. split; [unfold HW, set_stage; cbn; auto|]. exists M. split; [lia|].
          split; [unfold FOK; cbn; auto|]. split; [unfold bounded, set_stage; cbn; congruence | intros; discriminate].
        * destruct p as [|b p'].
          -- cbn [fst snd]. split; [unfold HW, set_stage; cbn; auto|]. exists M. split; [lia|].
             split; [unfold FOK; cbn; auto|]. split; [unfold bounded, set_stage; cbn; congruence | intros; discriminate].
          -- destruct (cw_check D deq H w (b :: p')).
             ++ cbn [fst snd]. split; [unfold HW, set_stage; cbn; auto|]. exists M. split; [lia|].
                split; [unfold FOK; cbn; auto|]. split; [unfold bounded, set_stage; cbn; congruence | intros; discriminate].
             ++ cbn [fst snd file_of].
                assert (Hsplit : exists r, skipn (w_n w) c = (b :: p') ++ r).
                { cbn in Hsrc. destruct st.
                  - destruct Hsrc as (r' & H1 & _). eauto.
                  - exists []. rewrite app_nil_r. auto.
                  - contradiction. }
                destruct Hsplit as (r & Hsk).
                assert (Hsk' : skipn (w_n w) c = firstn j (b :: p') ++ (skipn j (b :: p') ++ r)).
                { rewrite app_assoc, firstn_skipn. exact Hsk. }
                destruct (honest_write f c _ _ (w_n w) M HB HMf HMc Hag Hfc Hsk') as (H1 & H2 & H3 & H4).
                split; [unfold HW, set_stage; cbn; auto|].
                exists (Nat.max M (w_n w + length (firstn j (b :: p')))). split; [lia|].
                split; [unfold FOK; cbn [file_of]; auto|].
                split; [unfold bounded, set_stage; cbn; congruence | intros; discriminate].
    - cbn [fst snd]. split; [exact HWw|]. exists M. split; [lia|]. split; [unfold FOK; auto|].
      split; [unfold bounded; congruence|]. intros Hx. split; [exact Hx | congruence].
    - cbn [fst snd]. split; [exact HWw|]. exists M. split; [lia|]. split; [unfold FOK; auto|].
      split; [unfold bounded; congruence|]. intros Hx. split; [exact Hx | congruence].
  Qed.

  (** global invariant of the transition system *)
  Definition G (s : cstate D) : Prop :=
    let '(fo, ws) := s in
    Forall HW ws /\
    (fo = None -> Forall (fun w => w_stage w <> WCopy) ws) /\
    exists M, FOK fo M /\ Forall (bounded M) ws.

  Lemma Forall_upd_nth {A} (P : A -> Prop) i x (l : list A) :
    Forall P l -> P x -> Forall P (upd_nth i x l).
  Proof.
    revert i. induction l as [|h t IH]; intros i Hl Hx; destruct i; cbn; try constructor;
      inversion Hl; subst; auto.
  Qed.

  Lemma Forall_nth_error {A} (P : A -> Prop) (l : list A) i x : Forall P l -> nth_error l i = Some x -> P x.
  Proof. intros Hl Hn. rewrite Forall_forall in Hl. apply Hl. eapply nth_error_In; eauto. Qed.

  Lemma bounded_mono M M' w : M <= M' -> bounded M w -> bounded M' w.
  Proof. unfold bounded. intros Hle Hb Hs. specialize (Hb Hs). lia. Qed.

  Theorem G_step s l : G s -> G (cstep s l).
  Proof.
    destruct s as [fo ws]. destruct l as [i a]. intros (HWs & HNone & M & HF & HBs). unfold Model.cstep.
    destruct (nth_error ws i) as [w|] eqn:Ei; [|unfold G; eauto].
    pose proof (Forall_nth_error _ _ _ _ HWs Ei) as HWw.
    pose proof (Forall_nth_error _ _ _ _ HBs Ei) as HBw.
    assert (HNw : fo = None -> w_stage w <> WCopy).
    { intros Hx. apply (Forall_nth_error _ _ _ _ (HNone Hx) Ei). }
    pose proof (honest_step a w fo M HWw HF HBw HNw) as Hstep. cbv zeta in Hstep.
    destruct (w_step a w fo) as [fo' w'] eqn:E. cbn [fst snd] in Hstep.
    destruct Hstep as (HW' & M' & Hle & HF' & HB' & HN').
    unfold G. split; [apply Forall_upd_nth; assumption|]. split.
    - intros Hx. destruct (HN' Hx) as [Hfo Hst']. apply Forall_upd_nth; [apply HNone; exact Hfo | exact Hst'].
    - exists M'. split; [exact HF'|]. apply Forall_upd_nth; [|exact HB'].
      eapply Forall_impl; [|exact HBs]. intros w0. apply bounded_mono. exact Hle.
  Qed.

  Theorem G_run ls : forall s, G s -> G (crun s ls).
  Proof.
    unfold Model.crun. induction ls as [|l ls IH]; intros s HG; cbn; [exact HG|]. apply IH. apply G_step. exact HG.
  Qed.

  Definition honest_new (w : writer) : Prop :=
    exists src, w = new_writer D (H c) (length c) src /\ src_honest src c.

  Lemma G_init fo0 ws :
    (length (file_of fo0) < length c \/ file_of fo0 = c) -> Forall honest_new ws -> G (fo0, ws).
  Proof.
    intros Hf Hws. unfold G. split; [|split].
    - eapply Forall_impl; [|exact Hws]. intros w (src & -> & Hsrc). unfold HW, new_writer; cbn. auto.
    - intros _. eapply Forall_impl; [|exact Hws]. intros w (src & -> & _). cbn. congruence.
    - exists 0. split.
      + unfold FOK. cbn zeta. repeat split; auto; try lia. intros i Hi. lia.
      + eapply Forall_impl; [|exact Hws]. intros w (src & -> & _). unfold bounded; cbn. congruence.
  Qed.

  (** T2: any interleaving (and any crash pattern) of any number of honest writers preserves the marker *)
  Theorem honest_concurrent fo0 ws sched :
    (length (file_of fo0) < length c \/ file_of fo0 = c) -> Forall honest_new ws ->
    Inv D H (H c) (length c) (fst (crun (fo0, ws) sched)).
  Proof.
    intros Hf Hws. pose proof (G_run sched _ (G_init fo0 ws Hf Hws)) as HG.
    destruct (crun (fo0, ws) sched) as [fo ws']. destruct HG as (_ & _ & M & (Hfc & _) & _).
    cbn [fst]. intros f -> Hl _. cbn [file_of] in Hfc. destruct Hfc as [Hlt | ->]; [lia | reflexivity].
  Qed.

  (** a system with a single writer is that writer's own execution *)
  Definition acts_of (ls : list (nat * action)) : list action :=
    map snd (filter (fun l => Nat.eqb (fst l) 0) ls).

  Lemma crun_single ls : forall fo (w : writer),
    crun (fo, [w]) ls =
      (fst (w_exec D deq H (acts_of ls) w fo), [snd (w_exec D deq H (acts_of ls) w fo)]).
  Proof.
    unfold Model.crun, Proofs.w_exec, acts_of. induction ls as [|[i a] ls IH]; intros fo w; cbn [fold_left filter map fst snd].
    - reflexivity.
    - destruct i as [|i]; cbn [Nat.eqb fst snd map].
      + unfold Model.cstep at 2. cbn [nth_error]. destruct (w_step a w fo) as [fo' w'] eqn:E. cbn [upd_nth fold_left fst snd].
        rewrite E. apply IH.
      + assert (Hn : cstep (fo, [w]) (S i, a) = (fo, [w])).
        { unfold Model.cstep. cbn [nth_error]. destruct i; reflexivity. }
        rewrite Hn. apply IH.
  Qed.

  Lemma crun_nil ls : forall fo, crun (fo, []) ls = (fo, []).
  Proof.
    unfold Model.crun. induction ls as [|[i a] ls IH]; intros fo; cbn [fold_left]; [reflexivity|].
    assert (Hn : cstep (fo, []) (i, a) = (fo, [])) by (unfold Model.cstep; destruct i; reflexivity).
    rewrite Hn. apply IH.
  Qed.

  (** strongest partial of the concurrent statement: one writer at a time with arbitrary sources, or any number of
      honest writers *)
  Theorem concurrent_partial fo0 (srcs : list (list rd)) sched :
    Inv D H (H c) (length c) fo0 ->
    (length srcs <= 1 \/
     ((length (file_of fo0) < length c \/ file_of fo0 = c) /\ Forall (fun s => src_honest s c) srcs)) ->
    Inv D H (H c) (length c) (fst (crun (fo0, map (new_writer D (H c) (length c)) srcs) sched)).
  Proof.
    intros HI [Hone | [Hf Hh]].
    - destruct srcs as [|s [|s' t]]; cbn in Hone; try lia.
      + cbn [map]. rewrite crun_nil. exact HI.
      + cbn [map]. rewrite crun_single. cbn [fst]. apply single_writer_inv; assumption.
    - apply honest_concurrent; [exact Hf |].
      rewrite Forall_forall in *. intros w Hw. apply in_map_iff in Hw as (s & <- & Hin).
      exists s. split; [reflexivity | apply Hh; exact Hin].
  Qed.

End Conc.
