(** C08 — proofs about Blob/Model.v: the single-writer invariant of copyNamedFile/checkWriter. *)
From Coq Require Import List NArith Bool Arith Lia.
From V Require Import Common.Bytes Blob.Model.
Import ListNotations.

(** * pwrite *)
Lemma write_at_inside (f : list N) off p :
  off <= length f -> write_at f off p = firstn off f ++ p ++ skipn (off + length p) f.
Proof.
  intros Hle. unfold write_at. replace (off - length f) with 0 by lia. reflexivity.
Qed.

Lemma write_at_length (f : list N) off p :
  off <= length f -> length (write_at f off p) = Nat.max (length f) (off + length p).
Proof.
  intros Hle. rewrite write_at_inside by exact Hle.
  rewrite !app_length, firstn_length, skipn_length. lia.
Qed.

Lemma nth_error_firstn' {A} (l : list A) n i : i < n -> nth_error (firstn n l) i = nth_error l i.
Proof.
  revert n i. induction l as [|x l IH]; intros n i Hi.
  - rewrite firstn_nil. reflexivity.
  - destruct n; [lia|]. destruct i; cbn; [reflexivity|]. apply IH. lia.
Qed.

Lemma nth_error_skipn' {A} (l : list A) n i : nth_error (skipn n l) i = nth_error l (n + i).
Proof.
  revert l. induction n as [|n IH]; intros l; cbn; [reflexivity|].
  destruct l; cbn; [destruct i; reflexivity|]. apply IH.
Qed.

Lemma nth_error_write_at (f : list N) off p i :
  off <= length f ->
  nth_error (write_at f off p) i =
    if i <? off then nth_error f i
    else if i <? off + length p then nth_error p (i - off)
    else nth_error f i.
Proof.
  intros Hle. rewrite write_at_inside by exact Hle.
  destruct (i <? off) eqn:E1.
  - apply Nat.ltb_lt in E1. rewrite nth_error_app1 by (rewrite firstn_length; lia).
    apply nth_error_firstn'. exact E1.
  - apply Nat.ltb_ge in E1. rewrite nth_error_app2 by (rewrite firstn_length; lia).
    rewrite firstn_length. replace (Nat.min off (length f)) with off by lia.
    destruct (i <? off + length p) eqn:E2.
    + apply Nat.ltb_lt in E2. rewrite nth_error_app1 by lia. reflexivity.
    + apply Nat.ltb_ge in E2. rewrite nth_error_app2 by lia.
      rewrite nth_error_skipn'. f_equal. lia.
Qed.

Lemma firstn_eq_all {A} (l : list A) n : length l <= n -> firstn n l = l.
Proof. intros. apply firstn_all2. exact H. Qed.

Lemma list_eq_nth_error {A} (a b : list A) :
  length a = length b -> (forall i, i < length a -> nth_error a i = nth_error b i) -> a = b.
Proof.
  revert b. induction a as [|x a IH]; intros [|y b] Hl Hn; cbn in *; try discriminate; try reflexivity.
  f_equal.
  - specialize (Hn 0 ltac:(lia)). cbn in Hn. congruence.
  - apply IH; [lia|]. intros i Hi. apply (Hn (S i)). lia.
Qed.

Section Proofs.
  Variable D : Type.
  Variable deq : D -> D -> bool.
  Variable H : list N -> D.
  Hypothesis deq_spec : forall a b, deq a b = true <-> a = b.

  Notation writer := (writer D).
  Notation w_step := (w_step D deq H).
  Notation w_read := (w_read D deq H).
  Notation cw_check := (cw_check D deq H).

  Lemma cw_check_final (w : writer) p :
    cw_check w p = None -> w_n w + length p = w_size w -> H (w_acc w ++ p) = w_d w.
  Proof.
    unfold Model.cw_check. intros Hc Hn. rewrite Hn, Nat.eqb_refl in Hc.
    destruct (deq (H (w_acc w ++ p)) (w_d w)) eqn:E; [apply deq_spec; exact E | discriminate].
  Qed.

  Lemma cw_check_bound (w : writer) p :
    cw_check w p = None -> w_n w + length p <= w_size w.
  Proof.
    unfold Model.cw_check. intros Hc.
    destruct (w_n w + length p =? w_size w) eqn:E1; [apply Nat.eqb_eq in E1; lia|].
    destruct (w_size w <? w_n w + length p) eqn:E2; [discriminate|]. apply Nat.ltb_ge in E2. exact E2.
  Qed.

  (** "a file of the expected size has the expected content" — the cache's completeness marker *)
  Definition Inv (d : D) (size : nat) (fo : option (list N)) : Prop :=
    forall f, fo = Some f -> length f = size -> 0 < size -> H f = d.

  (** invariant of one writer that is alone on its file; [fo0] is the file it found *)
  Definition WI (fo0 : option (list N)) (w : writer) (fo : option (list N)) : Prop :=
    match w_stage w with
    | WNew => fo = fo0 /\ Inv (w_d w) (w_size w) fo /\ w_n w = 0 /\ w_acc w = []
    | WCopy =>
        exists f, fo = Some f /\ 0 < w_size w /\ length (w_acc w) = w_n w /\ firstn (w_n w) f = w_acc w /\
          ((w_n w < w_size w /\ length f < w_size w) \/ (w_n w = w_size w /\ f = w_acc w /\ H f = w_d w))
    | WDone r =>
        Inv (w_d w) (w_size w) fo /\
        (r = ROk -> 0 < w_size w ->
           exists f, fo = Some f /\ length f = w_size w /\ (H f = w_d w \/ fo = fo0))
    | WDead => Inv (w_d w) (w_size w) fo
    end.

  Lemma WI_Inv fo0 w fo : WI fo0 w fo -> Inv (w_d w) (w_size w) fo.
  Proof.
    unfold WI. destruct (w_stage w) eqn:E.
    - intros (_ & HI & _). exact HI.
    - intros (f & Hfo & Hpos & Hlen & Hfn & Hcase) f' Heq Hl' _. rewrite Hfo in Heq. inversion Heq; subst f'.
      destruct Hcase as [[Hn Hl] | (Hn & Hf & Hh)].
      + lia.
      + exact Hh.
    - intros [HI _]. exact HI.
    - intros HI. exact HI.
  Qed.

  Lemma Inv_nil d size : Inv d size (Some []).
  Proof. intros f Heq Hl Hpos. inversion Heq as [Hf]. rewrite <- Hf in Hl. cbn in Hl. lia. Qed.

  Lemma w_step_params a w fo :
    w_d (snd (w_step a w fo)) = w_d w /\ w_size (snd (w_step a w fo)) = w_size w.
  Proof.
    unfold Model.w_step, Model.w_start, Model.w_read, Model.w_eof, Model.w_fail, set_stage.
    destruct (w_stage w); destruct a; cbn;
      repeat (match goal with
              | |- context [match ?x with _ => _ end] => destruct x; cbn
              end); auto.
  Qed.

  (** end of the source *)
  Lemma WI_eof fo0 w f :
    w_stage w = WCopy -> WI fo0 w (Some f) ->
    WI fo0 (snd (w_eof D w f)) (fst (w_eof D w f)).
  Proof.
    intros Hst HW. unfold WI in HW. rewrite Hst in HW.
    destruct HW as (f0 & Heq & Hpos & Hlen & Hfn & Hcase). inversion Heq; subst f0.
    unfold w_eof, w_fail. destruct (w_n w <? w_size w) eqn:E.
    - unfold WI; cbn. split; [apply Inv_nil|]. intros Hr; discriminate.
    - apply Nat.ltb_ge in E. unfold WI; cbn. destruct Hcase as [[Hn Hl] | (Hn & Hf & Hh)]; [lia|].
      split.
      + intros f' Heq' _ _. inversion Heq'; subst. exact Hh.
      + intros _ _. exists f. split; [reflexivity|]. split; [|left; exact Hh].
        rewrite Hf. lia.
  Qed.

  Lemma WI_fail fo0 w e : WI fo0 (snd (w_fail D w e)) (fst (w_fail D w e)).
  Proof.
    unfold w_fail, WI; cbn. split; [apply Inv_nil|]. intros Hr; discriminate.
  Qed.

  Lemma WI_src fo0 w fo src' :
    w_stage w = WCopy -> WI fo0 w fo ->
    WI fo0 (mkW (w_d w) (w_size w) (w_n w) (w_acc w) src' (w_stage w)) fo.
  Proof. intros Hst HW. unfold WI in *. cbn. rewrite Hst in *. exact HW. Qed.

  (** the effect of an admitted write of p (or of a prefix of p when the process dies inside it) *)
  Lemma WI_write fo0 w f p :
    w_stage w = WCopy -> WI fo0 w (Some f) -> p <> [] -> cw_check w p = None ->
    forall src', WI fo0 (mkW (w_d w) (w_size w) (w_n w + length p) (w_acc w ++ p) src' WCopy)
                   (Some (write_at f (w_n w) p)).
  Proof.
    intros Hst HW Hp Hc src'. unfold WI in HW. rewrite Hst in HW.
    destruct HW as (f0 & Heq & Hpos & Hlen & Hfn & Hcase). inversion Heq; subst f0. clear Heq.
    pose proof (cw_check_bound _ _ Hc) as Hb.
    assert (Hpl : 0 < length p) by (destruct p; [congruence | cbn; lia]).
    destruct Hcase as [[Hn Hl] | (Hn & Hf & Hh)]; [|lia].
    assert (Hnf : w_n w <= length f).
    { rewrite <- Hlen, <- Hfn, firstn_length. lia. }
    unfold WI; cbn. exists (write_at f (w_n w) p). split; [reflexivity|]. split; [exact Hpos|].
    split; [rewrite app_length; lia|].
    assert (Hw : write_at f (w_n w) p = w_acc w ++ p ++ skipn (w_n w + length p) f).
    { rewrite write_at_inside by exact Hnf. rewrite Hfn. reflexivity. }
    split.
    - rewrite Hw, app_assoc. rewrite firstn_app.
      replace (w_n w + length p - length (w_acc w ++ p)) with 0 by (rewrite app_length; lia).
      cbn. rewrite app_nil_r. apply firstn_eq_all. rewrite app_length. lia.
    - destruct (Nat.eq_dec (w_n w + length p) (w_size w)) as [Heqn | Hne].
      + right. split; [exact Heqn|].
        assert (Hsk : skipn (w_n w + length p) f = []) by (apply skipn_all2; lia).
        rewrite Hw, Hsk, app_nil_r. split; [reflexivity|].
        apply cw_check_final; assumption.
      + left. split; [lia|]. rewrite write_at_length by exact Hnf. lia.
  Qed.

  Lemma WI_read fo0 w f :
    w_stage w = WCopy -> WI fo0 w (Some f) ->
    WI fo0 (snd (w_read w f)) (fst (w_read w f)).
  Proof.
    intros Hst HW. unfold Model.w_read.
    destruct (w_src w) as [|[p st] rest] eqn:Hsrc.
    - apply WI_eof; assumption.
    - destruct p as [|b p'].
      + assert (HW0 : WI fo0 (mkW (w_d w) (w_size w) (w_n w) (w_acc w) rest (w_stage w)) (Some f))
          by (apply WI_src; assumption).
        destruct st.
        * exact HW0.
        * apply WI_eof; [cbn; exact Hst | exact HW0].
        * apply WI_fail.
      + destruct (cw_check w (b :: p')) eqn:Hc.
        * apply WI_fail.
        * rewrite Hst.
          pose proof (WI_write fo0 w f (b :: p') Hst HW ltac:(discriminate) Hc rest) as HW1.
          destruct st.
          -- exact HW1.
          -- apply WI_eof; [reflexivity | exact HW1].
          -- apply WI_fail.
  Qed.

  Lemma WI_start w fo :
    w_stage w = WNew -> WI fo w fo ->
    WI fo (snd (w_start D w fo)) (fst (w_start D w fo)).
  Proof.
    intros Hst HW. unfold WI in HW. rewrite Hst in HW. destruct HW as (_ & HI & Hn & Hacc).
    unfold w_start, set_stage. destruct fo as [f|].
    - destruct (length f =? w_size w) eqn:E1.
      + apply Nat.eqb_eq in E1. unfold WI; cbn. split; [exact HI|].
        intros _ _. exists f. auto.
      + apply Nat.eqb_neq in E1.
        destruct (w_size w =? 0) eqn:E0.
        * apply Nat.eqb_eq in E0. unfold WI; cbn. split.
          -- intros f' _ _ Hpos. lia.
          -- intros _ Hpos. lia.
        * apply Nat.eqb_neq in E0.
          destruct (w_size w <? length f) eqn:E2; [|apply Nat.ltb_ge in E2]; unfold WI; cbn;
            (eexists; split; [reflexivity|]; split; [lia|]; rewrite Hn, Hacc; cbn;
             split; [reflexivity|]; split; [reflexivity|]; left; split; [lia|]; cbn; lia).
    - destruct (w_size w =? 0) eqn:E0.
      + apply Nat.eqb_eq in E0. unfold WI; cbn. split.
        * intros f' _ _ Hpos. lia.
        * intros _ Hpos. lia.
      + apply Nat.eqb_neq in E0. unfold WI; cbn.
        exists []. split; [reflexivity|]. split; [lia|]. rewrite Hn, Hacc. cbn.
        split; [reflexivity|]. split; [reflexivity|]. left. split; lia.
  Qed.

  Lemma WI_dead fo0 w fo : WI fo0 w fo -> WI fo0 (set_stage D w WDead) fo.
  Proof. intros HW. apply (WI_Inv fo0) in HW. unfold WI, set_stage; cbn. exact HW. Qed.

  (** a write that is cut short by the death of the process *)
  Lemma WI_partial fo0 w f p j :
    w_stage w = WCopy -> WI fo0 w (Some f) -> p <> [] -> cw_check w p = None ->
    Inv (w_d w) (w_size w) (Some (write_at f (w_n w) (firstn j p))).
  Proof.
    intros Hst HW Hp Hc.
    pose proof (WI_write fo0 w f p Hst HW Hp Hc []) as HW1.
    unfold WI in HW. rewrite Hst in HW.
    destruct HW as (f0 & Heq & Hpos & Hlen & Hfn & Hcase). inversion Heq; subst f0. clear Heq.
    pose proof (cw_check_bound _ _ Hc) as Hb.
    assert (Hpl : 0 < length p) by (destruct p; [congruence | cbn; lia]).
    destruct Hcase as [[Hn Hl] | (Hn & Hf & Hh)]; [|lia].
    assert (Hnf : w_n w <= length f) by (rewrite <- Hlen, <- Hfn, firstn_length; lia).
    intros f' Heq Hl' _. inversion Heq; subst f'. clear Heq.
    rewrite write_at_length in Hl' by exact Hnf.
    assert (Hj : length (firstn j p) <= length p) by (rewrite firstn_length; lia).
    assert (Hfull : length (firstn j p) = length p) by lia.
    assert (Hpp : firstn j p = p).
    { rewrite firstn_length in Hfull. apply firstn_eq_all. lia. }
    rewrite Hpp. apply (WI_Inv fo0) in HW1. cbn in HW1. apply HW1; [reflexivity| |exact Hpos].
    rewrite write_at_length by exact Hnf. rewrite Hpp in Hl'. exact Hl'.
  Qed.

  Theorem WI_step fo0 a w fo :
    WI fo0 w fo -> WI fo0 (snd (w_step a w fo)) (fst (w_step a w fo)).
  Proof.
    intros HW. unfold Model.w_step. destruct (w_stage w) eqn:Hst.
    - destruct a.
      + assert (fo = fo0) as -> by (unfold WI in HW; rewrite Hst in HW; tauto).
        apply WI_start; assumption.
      + cbn [fst snd]. apply WI_dead. exact HW.
    - assert (Hf : exists f, fo = Some f).
      { unfold WI in HW. rewrite Hst in HW. destruct HW as (f & -> & _). eauto. }
      destruct Hf as [f ->]. cbn [file_of]. destruct a.
      + apply WI_read; assumption.
      + destruct (w_src w) as [|[p st] rest]; [cbn [fst snd]; apply WI_dead; exact HW|].
        destruct p as [|b p']; [cbn [fst snd]; apply WI_dead; exact HW|].
        destruct (cw_check w (b :: p')) eqn:Hc; [cbn [fst snd]; apply WI_dead; exact HW|].
        cbn [fst snd]. unfold WI, set_stage; cbn.
        apply (WI_partial fo0 w f (b :: p') j); try assumption. discriminate.
    - cbn [fst snd]. exact HW.
    - cbn [fst snd]. exact HW.
  Qed.

  Lemma WI_new fo d size src : Inv d size fo -> WI fo (new_writer D d size src) fo.
  Proof. intros HI. unfold WI, new_writer; cbn. auto. Qed.

  (** any sequence of scheduling steps of a single writer, i.e. every crash point of every source behaviour *)
  Definition w_exec (acts : list action) (w : writer) (fo : option (list N)) : option (list N) * writer :=
    fold_left (fun s a => w_step a (snd s) (fst s)) acts (fo, w).

  Lemma WI_exec fo0 acts : forall w fo,
    WI fo0 w fo -> WI fo0 (snd (w_exec acts w fo)) (fst (w_exec acts w fo)).
  Proof.
    unfold w_exec. induction acts as [|a acts IH]; intros w fo HW; cbn; [exact HW|].
    destruct (w_step a w fo) as [fo' w'] eqn:E.
    apply IH. pose proof (WI_step fo0 a w fo HW) as Hs. rewrite E in Hs. exact Hs.
  Qed.

  Lemma w_exec_params acts : forall w fo,
    w_d (snd (w_exec acts w fo)) = w_d w /\ w_size (snd (w_exec acts w fo)) = w_size w.
  Proof.
    unfold w_exec. induction acts as [|a acts IH]; intros w fo; cbn; [auto|].
    destruct (w_step a w fo) as [fo' w'] eqn:E. cbn.
    destruct (IH w' fo') as [H1 H2]. pose proof (w_step_params a w fo) as [H3 H4]. rewrite E in H3, H4. cbn in *.
    split; congruence.
  Qed.

  Theorem single_writer_inv d size src fo acts :
    Inv d size fo -> Inv d size (fst (w_exec acts (new_writer D d size src) fo)).
  Proof.
    intros HI. pose proof (WI_exec fo acts _ _ (WI_new fo d size src HI)) as HW.
    apply (WI_Inv fo) in HW. destruct (w_exec_params acts (new_writer D d size src) fo) as [H1 H2].
    rewrite H1, H2 in HW. exact HW.
  Qed.

End Proofs.
