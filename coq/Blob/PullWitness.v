(** C09 — concrete witnesses in the instance used by the correspondence check. *)
From Coq Require Import List NArith Bool Arith Lia.
From V Require Import Common.Bytes Blob.Model Blob.Corr Blob.Pull Blob.PullProofs Blob.PullCorr.
Import ListNotations.

(** one layer "abcdef", chunking threshold 4, plan 0-2 / 3-5.  Attempt 1: chunk 0-2 -> 503, chunk 3-5 arrives.
    Attempt 2: everything would be served correctly. *)
Definition w_layer : clayer := mkL [97;98;99;100;101;102]%N 6.
Definition w_plan (r0 : cresp) : list (citem Dg * cresp) :=
  [(([97;98;99]%N, 0, 3), r0); (([100;101;102]%N, 3, 3), CBody [[100;101]%N; [102]%N] None)].
Definition w_att (r0 : cresp) : cattempt :=
  mkA (MOk [w_layer] [123;125]%N) [mkLE (CStatus PPerm) false (w_plan r0) false] [].
Definition w_np : path := [[114]%N; [110]%N; [109]%N; [116]%N].
Definition w_empty : cpcache := mkP [] [] [].

Definition w_after1 (fixed : bool) : cpcache :=
  fst (fst (cpull_attempt fixed true 4 w_np w_empty (w_att (CStatus PTemp)))).

(** the code as found: the second attempt succeeds without a single blob request and links a layer with a hole *)
Lemma unrepaired_witness :
  snd (fst (cpull_attempt false true 4 w_np w_empty (w_att (CStatus PTemp)))) = PErr [PTemp] /\
  snd (cpull_attempt false true 4 w_np (w_after1 false) (w_att (CBody [[97;98;99]%N] None))) = (0, 0) /\
  snd (fst (cpull_attempt false true 4 w_np (w_after1 false) (w_att (CBody [[97;98;99]%N] None)))) = POk /\
  blob_get Dg eqb_str (p_blobs (fst (fst (cpull_attempt false true 4 w_np (w_after1 false) (w_att (CBody [[97;98;99]%N] None))))))
           [97;98;99;100;101;102]%N = Some [0;0;0;100;101;102]%N /\
  p_links (fst (fst (cpull_attempt false true 4 w_np (w_after1 false) (w_att (CBody [[97;98;99]%N] None))))) <> [].
Proof. vm_compute. repeat split; try reflexivity. discriminate. Qed.

(** the repaired code on the same environment: the second attempt fetches the missing chunk and the layer is intact *)
Lemma repaired_witness :
  snd (fst (cpull_attempt true true 4 w_np w_empty (w_att (CStatus PTemp)))) = PErr [PTemp] /\
  snd (cpull_attempt true true 4 w_np (w_after1 true) (w_att (CBody [[97;98;99]%N] None))) = (1, 1) /\
  snd (fst (cpull_attempt true true 4 w_np (w_after1 true) (w_att (CBody [[97;98;99]%N] None)))) = POk /\
  blob_get Dg eqb_str (p_blobs (fst (fst (cpull_attempt true true 4 w_np (w_after1 true) (w_att (CBody [[97;98;99]%N] None))))))
           [97;98;99;100;101;102]%N = Some [97;98;99;100;101;102]%N.
Proof. vm_compute. repeat split; reflexivity. Qed.

Lemma unrepaired_refuted :
  ~ (forall (c0 : cpcache) (earlier : list cattempt) (a : cattempt) ls data,
       a_manifest a = MOk ls data ->
       let c := fold_left (fun c a => fst (fst (cpull_attempt false true 4 w_np c a))) earlier c0 in
       snd (fst (cpull_attempt false true 4 w_np c a)) = POk ->
       forall l, In l ls -> 0 < l_size l ->
         Good Dg eqb_str Hid l (p_blobs (fst (fst (cpull_attempt false true 4 w_np c a))))).
Proof.
  intros F. destruct unrepaired_witness as (_ & _ & Hok & Hblob & _).
  specialize (F w_empty [w_att (CStatus PTemp)] (w_att (CBody [[97;98;99]%N] None)) [w_layer] [123;125]%N eq_refl).
  cbv zeta in F. change (fold_left _ [w_att (CStatus PTemp)] w_empty) with (w_after1 false) in F.
  specialize (F Hok w_layer (or_introl eq_refl) ltac:(cbn; lia)).
  destruct F as (f & Hg & Hl & Hh). change (l_d w_layer) with [97;98;99;100;101;102]%N in *.
  rewrite Hblob in Hg. inversion Hg; subst f. discriminate.
Qed.
