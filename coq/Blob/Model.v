(** C08 — executable model of server/internal/cache/blob/cache.go (definitions only).

    Files are byte lists ([pwrite] beyond the end zero-fills, as a sparse file reads back).  A digest is an
    abstract value [D]; [H] is SHA-256 as a Section variable ("content is intact" is *defined* as [H content = d]).
    The correspondence check instantiates [D := list N], [H := id] (a digest is represented by its preimage; the
    harness uses real SHA-256 on the implementation side).

    [copyNamedFile] is a resumable *writer machine* so that the same definition serves the sequential operations,
    every crash point (a writer that is never scheduled again; [APartial j] = the process died inside one write after
    j bytes) and concurrent writers of one file (labelled transition system [cstep] over (file, writers)). *)
From Coq Require Import List NArith Bool Arith Lia.
From V Require Import Common.Bytes.
Import ListNotations.

(** [pwrite(f, p, off)] on a regular file *)
Definition write_at (f : list N) (off : nat) (p : list N) : list N :=
  firstn off f ++ repeat 0%N (off - length f) ++ p ++ skipn (off + length p) f.

(** one result of [Read]: the bytes returned and the error returned with them *)
Inductive rstat := RMore | REof | RErr.
Definition rd := (list N * rstat)%type.

Inductive err :=
| EUnderfoot        (* "file content changed underfoot": digest mismatch at the final write *)
| EExceeds          (* "content exceeds expected size" *)
| ESource           (* the source reader returned an error *)
| EUnexpectedEOF    (* source ended early *)
| ENotExist
| EInvalidName
| ESizeMismatch     (* Import: "expected %d bytes, got %d" *)
| EInvalidDigest.

Definition err_eqb (a b : err) : bool :=
  match a, b with
  | EUnderfoot, EUnderfoot | EExceeds, EExceeds | ESource, ESource | EUnexpectedEOF, EUnexpectedEOF
  | ENotExist, ENotExist | EInvalidName, EInvalidName | ESizeMismatch, ESizeMismatch
  | EInvalidDigest, EInvalidDigest => true
  | _, _ => false
  end.

Inductive res := ROk | RFail (e : err).

Inductive stage :=
| WNew                (* before Stat/OpenFile *)
| WCopy               (* inside io.Copy *)
| WDone (r : res)     (* copyNamedFile returned *)
| WDead.              (* the process died *)

Section Blob.
  Variable D : Type.
  Variable deq : D -> D -> bool.
  Variable H : list N -> D.

  (** state of one [copyNamedFile] call; [w_acc] = everything passed to the hash so far, [w_n] = bytes written *)
  Record writer := mkW {
    w_d : D; w_size : nat; w_n : nat; w_acc : list N; w_src : list rd; w_stage : stage }.

  Definition new_writer (d : D) (size : nat) (src : list rd) : writer := mkW d size 0 [] src WNew.

  Definition set_stage (w : writer) (s : stage) : writer :=
    mkW (w_d w) (w_size w) (w_n w) (w_acc w) (w_src w) s.

  (** Stat + OpenFile (+ O_TRUNC when the existing file is longer) + the [size == 0] early return *)
  Definition w_start (w : writer) (fo : option (list N)) : option (list N) * writer :=
    match fo with
    | Some f =>
        if length f =? w_size w then (fo, set_stage w (WDone ROk))
        else
          let f' := if w_size w <? length f then [] else f in
          if w_size w =? 0 then (Some f', set_stage w (WDone ROk)) else (Some f', set_stage w WCopy)
    | None =>
        if w_size w =? 0 then (Some [], set_stage w (WDone ROk)) else (Some [], set_stage w WCopy)
    end.

  (** checkWriter.Write(p) for non-empty p: None = the underlying write is issued, Some e = refused *)
  Definition cw_check (w : writer) (p : list N) : option err :=
    let next := w_n w + length p in
    if next =? w_size w then (if deq (H (w_acc w ++ p)) (w_d w) then None else Some EUnderfoot)
    else if w_size w <? next then Some EExceeds else None.

  Definition w_fail (w : writer) (e : err) : option (list N) * writer :=
    (Some [], set_stage w (WDone (RFail e))).        (* f.Truncate(0); return err *)

  Definition w_eof (w : writer) (f : list N) : option (list N) * writer :=
    if w_n w <? w_size w then w_fail w EUnexpectedEOF else (Some f, set_stage w (WDone ROk)).

  (** one iteration of io.Copy's loop: Read, then Write of what was read, then the Read error *)
  Definition w_read (w : writer) (f : list N) : option (list N) * writer :=
    match w_src w with
    | [] => w_eof w f
    | (p, st) :: rest =>
        let w0 := mkW (w_d w) (w_size w) (w_n w) (w_acc w) rest (w_stage w) in
        match p with
        | [] =>
            match st with
            | RMore => (Some f, w0)
            | REof => w_eof w0 f
            | RErr => w_fail w0 ESource
            end
        | _ :: _ =>
            match cw_check w p with
            | Some e => w_fail (mkW (w_d w) (w_size w) (w_n w) (w_acc w ++ p) rest (w_stage w)) e
            | None =>
                let f1 := write_at f (w_n w) p in
                let w1 := mkW (w_d w) (w_size w) (w_n w + length p) (w_acc w ++ p) rest (w_stage w) in
                match st with
                | RMore => (Some f1, w1)
                | REof => w_eof w1 f1
                | RErr => w_fail w1 ESource
                end
            end
        end
    end.

  Inductive action := AStep | APartial (j : nat).

  Definition file_of (fo : option (list N)) : list N := match fo with Some f => f | None => [] end.

  (** one scheduling step of one writer on the shared file *)
  Definition w_step (a : action) (w : writer) (fo : option (list N)) : option (list N) * writer :=
    match w_stage w with
    | WNew => match a with AStep => w_start w fo | APartial _ => (fo, set_stage w WDead) end
    | WCopy =>
        match a with
        | AStep => w_read w (file_of fo)
        | APartial j =>
            (* the process dies inside the next write after j of its bytes (nothing happens if no write is issued) *)
            match w_src w with
            | (p, _) :: _ =>
                match p with
                | [] => (fo, set_stage w WDead)
                | _ :: _ =>
                    match cw_check w p with
                    | Some _ => (fo, set_stage w WDead)
                    | None => (Some (write_at (file_of fo) (w_n w) (firstn j p)), set_stage w WDead)
                    end
                end
            | [] => (fo, set_stage w WDead)
            end
        end
    | WDone _ | WDead => (fo, w)
    end.

  (** * concurrent writers of one file *)
  Definition cstate := (option (list N) * list writer)%type.

  Fixpoint upd_nth {A} (i : nat) (x : A) (l : list A) : list A :=
    match l, i with
    | [], _ => []
    | _ :: t, O => x :: t
    | h :: t, S i' => h :: upd_nth i' x t
    end.

  Definition cstep (s : cstate) (l : nat * action) : cstate :=
    let '(fo, ws) := s in
    let '(i, a) := l in
    match nth_error ws i with
    | Some w => let '(fo', w') := w_step a w fo in (fo', upd_nth i w' ws)
    | None => s
    end.

  Definition crun (s : cstate) (ls : list (nat * action)) : cstate := fold_left cstep ls s.

  (** * sequential copyNamedFile, with an optional crash point *)
  Fixpoint w_run (fuel : nat) (w : writer) (fo : option (list N)) : option (list N) * writer :=
    match fuel with
    | O => (fo, w)
    | S k =>
        match w_stage w with
        | WDone _ | WDead => (fo, w)
        | _ => let '(fo', w') := w_step AStep w fo in w_run k w' fo'
        end
    end.

  (** crash = (k, part): k scheduling steps are completed, then the process dies; with [part = Some j] it dies inside
      the following write after j bytes *)
  Definition crash := option (nat * option nat).

  Fixpoint w_steps (k : nat) (w : writer) (fo : option (list N)) : option (list N) * writer :=
    match k with
    | O => (fo, w)
    | S k' => let '(fo', w') := w_step AStep w fo in w_steps k' w' fo'
    end.

  Definition copy_named_file (fo : option (list N)) (d : D) (size : nat) (src : list rd) (cr : crash)
    : option (list N) * stage :=
    let w := new_writer d size src in
    match cr with
    | None => let '(fo', w') := w_run (length src + 2) w fo in (fo', w_stage w')
    | Some (k, part) =>
        let '(fo1, w1) := w_steps k w fo in
        match w_stage w1 with
        | WDone r => (fo1, WDone r)          (* finished before the crash point *)
        | _ =>
            match part with
            | None => (fo1, WDead)
            | Some j => let '(fo2, _) := w_step (APartial j) w1 fo1 in (fo2, WDead)
            end
        end
    end.

  (** * the cache: blobs by digest, manifests by path *)
  Definition path := list str.             (* host / namespace / model / tag *)

  Definition lower (b : N) : N := if (N.leb 65 b && N.leb b 90)%bool then (b + 32)%N else b.
  Definition fold_eq_str (a b : str) : bool := eqb_str (map lower a) (map lower b).
  Fixpoint fold_eq (p q : path) : bool :=
    match p, q with
    | [], [] => true
    | a :: p', b :: q' => fold_eq_str a b && fold_eq p' q'
    | _, _ => false
    end.
  Fixpoint path_eqb (p q : path) : bool :=
    match p, q with
    | [], [] => true
    | a :: p', b :: q' => eqb_str a b && path_eqb p' q'
    | _, _ => false
    end.

  (** byte-wise string order (Go's string <), and the order in which fs.Glob("manifests/*/*/*/*") lists paths:
      directory by directory, entries sorted by name *)
  Fixpoint str_ltb (a b : str) : bool :=
    match a, b with
    | [], [] => false
    | [], _ :: _ => true
    | _ :: _, [] => false
    | x :: a', y :: b' => if N.ltb x y then true else if N.ltb y x then false else str_ltb a' b'
    end.
  Fixpoint path_ltb (p q : path) : bool :=
    match p, q with
    | [], [] => false
    | [], _ :: _ => true
    | _ :: _, [] => false
    | a :: p', b :: q' => if str_ltb a b then true else if str_ltb b a then false else path_ltb p' q'
    end.

  Record cache := mkC { blobs : list (D * list N); links : list (path * list N) }.

  Definition empty_cache : cache := mkC [] [].

  Fixpoint blob_get (bs : list (D * list N)) (d : D) : option (list N) :=
    match bs with
    | [] => None
    | (d', f) :: t => if deq d' d then Some f else blob_get t d
    end.
  (** create or replace the file of digest d (first binding, in place; new bindings go to the end) *)
  Fixpoint blob_put (bs : list (D * list N)) (d : D) (f : list N) : list (D * list N) :=
    match bs with
    | [] => [(d, f)]
    | (d', f') :: t => if deq d' d then (d', f) :: t else (d', f') :: blob_put t d f
    end.
  Definition blob_set (bs : list (D * list N)) (d : D) (fo : option (list N)) : list (D * list N) :=
    match fo with Some f => blob_put bs d f | None => bs end.     (* a writer never deletes the file *)

  Fixpoint link_get (ls : list (path * list N)) (p : path) : option (list N) :=
    match ls with
    | [] => None
    | (q, f) :: t => if path_eqb q p then Some f else link_get t p
    end.
  Fixpoint link_put (ls : list (path * list N)) (p : path) (f : list N) : list (path * list N) :=
    match ls with
    | [] => [(p, f)]
    | (q, f') :: t => if path_eqb q p then (q, f) :: t else (q, f') :: link_put t p f
    end.
  Fixpoint link_del (ls : list (path * list N)) (p : path) : list (path * list N) :=
    match ls with
    | [] => []
    | (q, f') :: t => if path_eqb q p then t else (q, f') :: link_del t p
    end.
  Definition link_set (ls : list (path * list N)) (p : path) (fo : option (list N)) : list (path * list N) :=
    match fo with Some f => link_put ls p f | None => ls end.

  (** manifestPath: the first existing path (in Glob order) that is EqualFold to the wanted one, else the wanted one *)
  Fixpoint manifest_path_aux (ls : list (path * list N)) (p : path) (best : option path) : option path :=
    match ls with
    | [] => best
    | (q, _) :: t =>
        let best' :=
          if fold_eq q p then
            match best with
            | None => Some q
            | Some b => if path_ltb q b then Some q else Some b
            end
          else best in
        manifest_path_aux t p best'
    end.
  Definition manifest_path (ls : list (path * list N)) (p : path) : path :=
    match manifest_path_aux ls p None with Some q => q | None => p end.

  (** what io.Copy reads from an *os.File of content f: buffers of [bufsz] bytes (32 KiB) *)
  Fixpoint chunks (fuel bufsz : nat) (f : list N) : list (list N) :=
    match fuel with
    | O => []
    | S k => match f with [] => [] | _ :: _ => firstn bufsz f :: chunks k bufsz (skipn bufsz f) end
    end.
  Definition file_reads (bufsz : nat) (f : list N) : list rd :=
    map (fun c => (c, RMore)) (chunks (length f) (Nat.max 1 bufsz) f).

  (** everything a reader delivers until EOF or its error (io.Copy into a plain file, Import) *)
  Fixpoint src_all (src : list rd) : list N * bool :=
    match src with
    | [] => ([], true)
    | (p, RMore) :: t => let '(r, ok) := src_all t in (p ++ r, ok)
    | (p, REof) :: _ => (p, true)
    | (p, RErr) :: _ => (p, false)
    end.

  Inductive op :=
  | OPut (d : D) (size : nat) (src : list rd) (cr : crash)
  | OImport (src : list rd) (size : nat)
  | OGet (d : D)
  | OLink (np : option path) (d : D)                    (* np = nameToPath(name); None = invalid name *)
  | OUnlink (np : option path)
  | OResolve (np : option path)
  | OResolveAt (od : option D)                           (* Resolve("name@digest"): ParseDigest of the part after '@' *)
  | ORaw (p : path) (data : list N).                     (* somebody edits/creates a manifest file by hand *)

  Inductive out :=
  | OutOk | OutErr (e : err) | OutSize (n : nat) | OutDigest (d : D) | OutBool (b : bool) | OutCrashed.

  Definition out_of_stage (s : stage) : out :=
    match s with
    | WDone ROk => OutOk
    | WDone (RFail e) => OutErr e
    | _ => OutCrashed
    end.

  Definition get (c : cache) (d : D) : option nat :=
    match blob_get (blobs c) d with
    | Some f => if length f =? 0 then None else Some (length f)
    | None => None
    end.

  Variable bufsz : nat.
  (** [fixed = true] models Link as repaired by fixes/C08-link-size-shortcut.patch:
      an existing manifest file whose content is not d is removed first *)
  Variable fixed : bool.

  Definition do_link (c : cache) (p : path) (d : D) : cache * out :=
    let mp := manifest_path (links c) p in
    match blob_get (blobs c) d with
    | None => (c, OutErr ENotExist)
    | Some bf =>
          (* the manifest file as copyNamedFile finds it: with [fixed], a file whose content is not d was removed *)
          let cur :=
            match link_get (links c) mp with
            | Some m =>
                (* readAndSum(manifest, size+1): the digest of at most size+1 bytes of the existing file *)
                if (fixed && negb (deq (H (firstn (length bf + 1) m)) d))%bool then None else Some m
            | None => None
            end in
          let '(fo, st) := copy_named_file cur d (length bf) (file_reads bufsz bf) None in
          (mkC (blobs c) (link_set (links c) mp fo), out_of_stage st)
    end.

  Definition step (c : cache) (o : op) : cache * out :=
    match o with
    | OPut d size src cr =>
        let '(fo, st) := copy_named_file (blob_get (blobs c) d) d size src cr in
        (mkC (blob_set (blobs c) d fo) (links c), out_of_stage st)
    | OImport src size =>
        let '(data, ok) := src_all src in
        if negb ok then (c, OutErr ESource)
        else if negb (length data =? size) then (c, OutErr ESizeMismatch)
        else (mkC (blob_set (blobs c) (H data) (Some data)) (links c), OutDigest (H data))
    | OGet d => match get c d with Some n => (c, OutSize n) | None => (c, OutErr ENotExist) end
    | OLink None _ => (c, OutErr EInvalidName)
    | OLink (Some p) d => do_link c p d
    | OUnlink None => (c, OutErr EInvalidName)
    | OUnlink (Some p) =>
        let mp := manifest_path (links c) p in
        match link_get (links c) mp with
        | Some _ => (mkC (blobs c) (link_del (links c) mp), OutBool true)
        | None => (c, OutBool false)
        end
    | OResolve None => (c, OutErr EInvalidName)
    | OResolve (Some p) =>
        let mp := manifest_path (links c) p in
        match link_get (links c) mp with
        | None => (c, OutErr ENotExist)
        | Some data =>
            let d := H data in
            (* PutBytes(c, d, data): a bytes.Reader writes itself with one Write (nothing when empty) *)
            let src := match data with [] => [] | _ :: _ => [(data, RMore)] end in
            let '(fo, st) := copy_named_file (blob_get (blobs c) d) d (length data) src None in
            let c' := mkC (blob_set (blobs c) d fo) (links c) in
            match st with
            | WDone ROk => (c', OutDigest d)
            | _ => (c', out_of_stage st)
            end
        end
    | OResolveAt (Some d) => (c, OutDigest d)
    | OResolveAt None => (c, OutErr EInvalidDigest)
    | ORaw p data => (mkC (blobs c) (link_put (links c) p data), OutOk)
    end.

  Fixpoint run (c : cache) (ops : list op) : cache :=
    match ops with
    | [] => c
    | o :: t => run (fst (step c o)) t
    end.

End Blob.

Arguments mkW {D}.
Arguments mkC {D}.
Arguments OPut {D}.
Arguments OImport {D}.
Arguments OGet {D}.
Arguments OLink {D}.
Arguments OUnlink {D}.
Arguments OResolve {D}.
Arguments OResolveAt {D}.
Arguments ORaw {D}.
Arguments OutOk {D}.
Arguments OutErr {D}.
Arguments OutSize {D}.
Arguments OutDigest {D}.
Arguments OutBool {D}.
Arguments OutCrashed {D}.
Arguments blobs {D}.
Arguments links {D}.
Arguments w_d {D}.
Arguments w_size {D}.
Arguments w_n {D}.
Arguments w_acc {D}.
Arguments w_src {D}.
Arguments w_stage {D}.
