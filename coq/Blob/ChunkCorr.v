(** C08 — histories that mix the chunked writer (DiskCache.Chunked / Chunker.Put / Chunker.Commit, chunked.go) with the
    operations of Blob/Model.v: executable comparison.  Chunker.Put is C09's [chunk_put] (Blob/Pull.v); Commit is the
    length + whole-file digest check followed by the rename (the code as repaired by fixes/C09-chunked-commit.patch). *)
From Coq Require Import List NArith Bool Arith.
From V Require Import Common.Bytes Blob.Model Blob.Corr Blob.Pull.
Import ListNotations.

(** one chunk handed to Chunker.Put: (chunk digest, start, length) and what its reader delivers *)
Definition xchunk := (citem Dg * cresp)%type.

Inductive xop :=
| XBase (o : cop)
| XChunked (d : Dg) (size : nat) (chunks : list xchunk) (commit : bool).

(** results: of a base operation; of a chunked one = the result of every Put and whether Commit (if called) succeeded *)
Inductive xout :=
| XOut (o : cout)
| XChunkOut (puts : list cres) (commit_ok : bool).

Definition xstate := (ccache * list (Dg * list N))%type.     (* cache, files being assembled (<blob>.chunked) *)

Definition cres_eqb (a b : cres) : bool :=
  match a, b with
  | COk, COk => true
  | CFail e, CFail e' => perr_eqb e e'
  | _, _ => false
  end.

Fixpoint put_chunks (f : list N) (chunks : list xchunk) : list N * list cres :=
  match chunks with
  | [] => (f, [])
  | (it, r) :: t =>
      let '(f1, r1) := chunk_put Dg eqb_str Hid f it r in
      let '(f2, rs) := put_chunks f1 t in
      (f2, r1 :: rs)
  end.

Definition xstep (fixed : bool) (s : xstate) (o : xop) : xstate * xout :=
  let '(c, parts) := s in
  match o with
  | XBase b => let '(c', r) := step Dg eqb_str Hid bufsz32k fixed c b in ((c', parts), XOut r)
  | XChunked d size chunks commit =>
      match blob_get Dg eqb_str (blobs c) d with
      | Some f0 =>
          if Nat.eqb (length f0) size
          then (s, XChunkOut (map (fun _ => COk) chunks) true)      (* pre-validated Chunker: nothing is read or written *)
          else
            let f := match blob_get Dg eqb_str parts d with Some f => f | None => [] end in
            let '(f', rs) := put_chunks f chunks in
            if commit && Nat.eqb (length f') size && eqb_str f' d
            then ((mkC (blob_put Dg eqb_str (blobs c) d f') (links c), filter (fun x => negb (eqb_str (fst x) d)) parts), XChunkOut rs true)
            else ((c, blob_put Dg eqb_str parts d f'), XChunkOut rs (negb commit))
      | None =>
          let f := match blob_get Dg eqb_str parts d with Some f => f | None => [] end in
          let '(f', rs) := put_chunks f chunks in
          if commit && Nat.eqb (length f') size && eqb_str f' d
          then ((mkC (blob_put Dg eqb_str (blobs c) d f') (links c), filter (fun x => negb (eqb_str (fst x) d)) parts), XChunkOut rs true)
          else ((c, blob_put Dg eqb_str parts d f'), XChunkOut rs (negb commit))
      end
  end.

Definition xout_eqb (a b : xout) : bool :=
  match a, b with
  | XOut x, XOut y => out_eqb x y
  | XChunkOut p c, XChunkOut p' c' =>
      Nat.eqb (length p) (length p') && forallb (fun '(x, y) => cres_eqb x y) (combine p p') && Bool.eqb c c'
  | _, _ => false
  end.

Definition xsnapshot := (list (Dg * list N) * list (Dg * list N) * list (path * list N))%type.

Definition xsnap_eqb (s : xstate) (o : xsnapshot) : bool :=
  let '(bl, pa, ln) := o in
  blobs_eqb (blobs (fst s)) bl && blobs_eqb (snd s) pa && links_eqb (links (fst s)) ln.

Fixpoint chk_xhist_from (fixed : bool) (s : xstate) (ops : list xop) (obs : list (xout * xsnapshot)) : bool :=
  match ops, obs with
  | [], [] => true
  | o :: ops', (r, sn) :: obs' =>
      let '(s', r') := xstep fixed s o in
      xout_eqb r' r && xsnap_eqb s' sn && chk_xhist_from fixed s' ops' obs'
  | _, _ => false
  end.
Definition chk_xhist (fixed : bool) (ops : list xop) (obs : list (xout * xsnapshot)) : bool :=
  chk_xhist_from fixed (empty_cache Dg, []) ops obs.
