(** C08 — proofs about histories of cache operations (Blob/Model.v [step]/[run]). *)
From Coq Require Import List NArith Bool Arith Lia.
From V Require Import Common.Bytes Blob.Model Blob.Proofs.
Import ListNotations.

Section Hist.
  Variable D : Type.
  Variable deq : D -> D -> bool.
  Variable H : list N -> D.
  Hypothesis deq_spec : forall a b, deq a b = true <-> a = b.

  Notation writer := (writer D).
  Notation w_step := (w_step D deq H).
  Notation w_exec := (w_exec D deq H).
  Notation copy_named_file := (copy_named_file D deq H).
  Notation Inv := (Inv D H).
  Notation WI := (WI D H).

  Lemma deq_refl d : deq d d = true.
  Proof. apply deq_spec. reflexivity. Qed.

  Lemma w_steps_exec k : forall w fo, w_steps D deq H k w fo = w_exec (repeat AStep k) w fo.
  Proof.
    unfold Proofs.w_exec. induction k as [|k IH]; intros w fo; cbn; [reflexivity|].
    destruct (w_step AStep w fo) as [fo' w'] eqn:E. cbn. apply IH.
  Qed.

  Lemma w_run_exec fuel : forall w fo, exists k, w_run D deq H fuel w fo = w_exec (repeat AStep k) w fo.
  Proof.
    induction fuel as [|fuel IH]; intros w fo; cbn.
    - exists 0. reflexivity.
    - destruct (w_stage w) eqn:Hst; try (exists 0; reflexivity).
      + destruct (w_step AStep w fo) as [fo' w'] eqn:E. destruct (IH w' fo') as [k Hk].
        exists (S k). unfold Proofs.w_exec in *. cbn. rewrite E. exact Hk.
      + destruct (w_step AStep w fo) as [fo' w'] eqn:E. destruct (IH w' fo') as [k Hk].
        exists (S k). unfold Proofs.w_exec in *. cbn. rewrite E. exact Hk.
  Qed.

  Lemma w_exec_app a b w fo :
    w_exec (a ++ b) w fo = w_exec b (snd (w_exec a w fo)) (fst (w_exec a w fo)).
  Proof.
    unfold Proofs.w_exec. rewrite fold_left_app. destruct (fold_left _ a (fo, w)); reflexivity.
  Qed.

  (** copyNamedFile, whatever the crash point, is some scheduling sequence of a single writer *)
  Lemma copy_named_file_exec fo d size src cr :
    exists acts,
      fst (copy_named_file fo d size src cr) = fst (w_exec acts (new_writer D d size src) fo) /\
      (forall r, snd (copy_named_file fo d size src cr) = WDone r ->
                 w_stage (snd (w_exec acts (new_writer D d size src) fo)) = WDone r).
  Proof.
    unfold Model.copy_named_file. destruct cr as [[k part]|].
    - rewrite w_steps_exec. destruct (w_exec (repeat AStep k) (new_writer D d size src) fo) as [fo1 w1] eqn:E1.
      destruct (w_stage w1) eqn:Hst.
      + destruct part as [j|].
        * exists (repeat AStep k ++ [APartial j]). rewrite w_exec_app, E1. cbn [fst snd].
          unfold Proofs.w_exec at 1 2. cbn [fold_left fst snd].
          destruct (w_step (APartial j) w1 fo1) as [fo2 w2]. cbn. split; [reflexivity|]. intros r Hr; discriminate.
        * exists (repeat AStep k). rewrite E1. cbn. split; [reflexivity|]. intros r Hr; discriminate.
      + destruct part as [j|].
        * exists (repeat AStep k ++ [APartial j]). rewrite w_exec_app, E1. cbn [fst snd].
          unfold Proofs.w_exec at 1 2. cbn [fold_left fst snd].
          destruct (w_step (APartial j) w1 fo1) as [fo2 w2]. cbn. split; [reflexivity|]. intros r Hr; discriminate.
        * exists (repeat AStep k). rewrite E1. cbn. split; [reflexivity|]. intros r Hr; discriminate.
      + exists (repeat AStep k). rewrite E1. cbn. split; [reflexivity|]. intros r' Hr. rewrite Hst. exact Hr.
      + destruct part as [j|].
        * exists (repeat AStep k ++ [APartial j]). rewrite w_exec_app, E1. cbn [fst snd].
          unfold Proofs.w_exec at 1 2. cbn [fold_left fst snd].
          destruct (w_step (APartial j) w1 fo1) as [fo2 w2]. cbn. split; [reflexivity|]. intros r Hr; discriminate.
        * exists (repeat AStep k). rewrite E1. cbn. split; [reflexivity|]. intros r Hr; discriminate.
    - destruct (w_run_exec (length src + 2) (new_writer D d size src) fo) as [k Hk]. rewrite Hk.
      exists (repeat AStep k). destruct (w_exec (repeat AStep k) (new_writer D d size src) fo) as [fo' w'].
      cbn. split; [reflexivity|]. intros r Hr. exact Hr.
  Qed.

  (** T1 for the operation as the cache uses it *)
  Theorem copy_named_file_inv fo d size src cr :
    Inv d size fo -> Inv d size (fst (copy_named_file fo d size src cr)).
  Proof.
    intros HI. destruct (copy_named_file_exec fo d size src cr) as (acts & Hf & _). rewrite Hf.
    apply single_writer_inv; assumption.
  Qed.

  (** a successful copy leaves a file of the expected size that is either verified or the one found *)
  Theorem copy_named_file_ok fo d size src cr :
    Inv d size fo -> snd (copy_named_file fo d size src cr) = WDone ROk -> 0 < size ->
    exists f, fst (copy_named_file fo d size src cr) = Some f /\ length f = size /\
              (H f = d \/ fst (copy_named_file fo d size src cr) = fo).
  Proof.
    intros HI Hok Hpos. destruct (copy_named_file_exec fo d size src cr) as (acts & Hf & Hst).
    specialize (Hst _ Hok). rewrite Hf.
    pose proof (WI_exec D deq H deq_spec fo acts _ _ (WI_new D H fo d size src HI)) as HW.
    destruct (w_exec_params D deq H acts (new_writer D d size src) fo) as [Hd Hs].
    unfold Proofs.WI in HW. rewrite Hst in HW. destruct HW as [_ HW].
    rewrite Hd, Hs in HW. cbn in HW. apply HW; [reflexivity | exact Hpos].
  Qed.

  (** * blobs as a finite map *)
  Lemma blob_get_put bs d f d' :
    blob_get D deq (blob_put D deq bs d f) d' = if deq d d' then Some f else blob_get D deq bs d'.
  Proof.
    induction bs as [|[k v] bs IH]; cbn.
    - reflexivity.
    - destruct (deq k d) eqn:Ekd.
      + apply deq_spec in Ekd. subst k. cbn. destruct (deq d d'); reflexivity.
      + cbn. destruct (deq k d') eqn:Ekd'.
        * apply deq_spec in Ekd'. subst k.
          destruct (deq d d') eqn:E; [|reflexivity].
          apply deq_spec in E. subst d'. rewrite deq_refl in Ekd. discriminate.
        * exact IH.
  Qed.

  Lemma blob_get_set_same bs d fo :
    (fo = None -> blob_get D deq bs d = None) ->
    blob_get D deq (blob_set D deq bs d fo) d = fo.
  Proof.
    intros Hn. destruct fo as [f|]; cbn.
    - rewrite blob_get_put, deq_refl. reflexivity.
    - apply Hn. reflexivity.
  Qed.

  Lemma blob_get_set_other bs d fo d' :
    d <> d' -> blob_get D deq (blob_set D deq bs d fo) d' = blob_get D deq bs d'.
  Proof.
    intros Hne. destruct fo as [f|]; cbn; [|reflexivity].
    rewrite blob_get_put. destruct (deq d d') eqn:E; [apply deq_spec in E; contradiction | reflexivity].
  Qed.

  (** a writer never removes the file *)
  Lemma w_step_keeps a w fo f :
    fo = Some f -> exists f', fst (w_step a w fo) = Some f'.
  Proof.
    intros ->. unfold Model.w_step, w_start, Model.w_read, w_eof, w_fail, set_stage.
    destruct (w_stage w); destruct a; cbn;
      repeat (match goal with
              | |- context [match ?x with _ => _ end] => destruct x; cbn
              end); eauto.
  Qed.

  Lemma w_exec_keeps acts : forall w fo f, fo = Some f -> exists f', fst (w_exec acts w fo) = Some f'.
  Proof.
    unfold Proofs.w_exec. induction acts as [|a acts IH]; intros w fo f Hf; cbn; [eauto|].
    destruct (w_step_keeps a w fo f Hf) as [f' Hf']. destruct (w_step a w fo) as [fo' w']. cbn in Hf'.
    eapply IH. exact Hf'.
  Qed.

  Lemma copy_named_file_keeps fo d size src cr f :
    fo = Some f -> exists f', fst (copy_named_file fo d size src cr) = Some f'.
  Proof.
    intros Hf. destruct (copy_named_file_exec fo d size src cr) as (acts & He & _). rewrite He.
    eapply w_exec_keeps. exact Hf.
  Qed.

  (** * the invariant of the whole blob store *)
  Variable bufsz : nat.
  Variable fixed : bool.
  Notation step := (step D deq H bufsz fixed).
  Notation run := (run D deq H bufsz fixed).
  Notation cache := (cache D).

  (** [sz d] = the size blob d is stored under *)
  Variable sz : D -> nat.

  Definition BInv (c : cache) : Prop :=
    forall d f, blob_get D deq (blobs c) d = Some f -> length f = sz d -> 0 < sz d -> H f = d.

  Definition op_wf (o : op D) : Prop :=
    match o with
    | OPut d size _ _ => size = sz d
    | _ => True
    end.

  Lemma copy_phase f' b t :
    let data := b :: t in
    length f' < length data ->
    w_run D deq H 2 (mkW (H data) (length data) 0 [] [(data, RMore)] WCopy) (Some f')
    = (Some data, mkW (H data) (length data) (length data) data [] (WDone ROk)).
  Proof.
    intros data Hl.
    assert (Hc : cw_check D deq H (mkW (H data) (length data) 0 [] [(data, RMore)] WCopy) data = None).
    { unfold cw_check. cbn [w_n w_size w_acc w_d app Nat.add]. rewrite Nat.eqb_refl, deq_refl. reflexivity. }
    assert (Hw : write_at f' 0 data = data).
    { rewrite write_at_inside by lia. cbn [firstn app Nat.add]. rewrite skipn_all2 by lia. apply app_nil_r. }
    unfold w_run. cbn [w_stage]. unfold Model.w_step at 1. cbn [w_stage file_of]. unfold w_read at 1. cbn [w_src].
    unfold data at 1. fold data. rewrite Hc. cbn [w_d w_size w_n w_acc w_stage Nat.add app]. rewrite Hw.
    cbn [w_stage]. unfold Model.w_step. cbn [w_stage file_of]. unfold w_read. cbn [w_src]. unfold w_eof. cbn [w_n w_size].
    rewrite Nat.ltb_irrefl. unfold set_stage. cbn [w_d w_size w_n w_acc w_src]. reflexivity.
  Qed.

  Lemma start_phase fo b t :
    let data := b :: t in
    let w0 := new_writer D (H data) (length data) [(data, RMore)] in
    w_start D w0 fo = (fo, set_stage D w0 (WDone ROk)) \/
    exists f', w_start D w0 fo = (Some f', set_stage D w0 WCopy) /\ length f' < length data.
  Proof.
    intros data w0. unfold w_start. cbn [w_size w0 new_writer].
    assert (Hne : (length data =? 0) = false) by reflexivity.
    destruct fo as [f|].
    - destruct (length f =? length data) eqn:E; [left; reflexivity|]. apply Nat.eqb_neq in E.
      rewrite Hne. right. destruct (length data <? length f) eqn:E2.
      + exists []. split; [reflexivity | cbn; lia].
      + apply Nat.ltb_ge in E2. exists f. split; [reflexivity | lia].
    - rewrite Hne. right. exists []. split; [reflexivity | cbn; lia].
  Qed.

  Lemma resolve_put_cons fo b t :
    let data := b :: t in
    (fst (copy_named_file fo (H data) (length data) [(data, RMore)] None) = fo \/
     fst (copy_named_file fo (H data) (length data) [(data, RMore)] None) = Some data) /\
    snd (copy_named_file fo (H data) (length data) [(data, RMore)] None) = WDone ROk.
  Proof.
    intros data. unfold Model.copy_named_file.
    change (length [(data, RMore)] + 2) with 3.
    change (w_run D deq H 3 (new_writer D (H data) (length data) [(data, RMore)]) fo)
      with (let '(fo', w') := w_start D (new_writer D (H data) (length data) [(data, RMore)]) fo in w_run D deq H 2 w' fo').
    destruct (start_phase fo b t) as [Hs | (f' & Hs & Hl)]; fold data in Hs; rewrite Hs.
    - cbn. split; [left; reflexivity | reflexivity].
    - unfold set_stage, new_writer. cbn [w_d w_size w_n w_acc w_src].
      pose proof (copy_phase f' b t Hl) as Hc. fold data in Hc. rewrite Hc. cbn. split; [right; reflexivity | reflexivity].
  Qed.

  (** Resolve's PutBytes(c, H data, data): the blob is left alone or becomes exactly [data] *)
  Lemma resolve_put fo data src :
    src = match data with [] => [] | _ :: _ => [(data, RMore)] end ->
    (fst (copy_named_file fo (H data) (length data) src None) = fo \/
     fst (copy_named_file fo (H data) (length data) src None) = Some data) /\
    snd (copy_named_file fo (H data) (length data) src None) = WDone ROk.
  Proof.
    intros ->. destruct data as [|b data'].
    - cbn. unfold Model.w_step, w_start, new_writer, set_stage; cbn.
      destruct fo as [f|]; cbn.
      + destruct (length f) as [|n]; cbn.
        * split; [left; reflexivity | reflexivity].
        * split; [right; reflexivity | reflexivity].
      + split; [right; reflexivity | reflexivity].
    - apply resolve_put_cons.
  Qed.

  Lemma BInv_set c d fo :
    BInv c ->
    (fo = None -> blob_get D deq (blobs c) d = None) ->
    (forall f, fo = Some f -> length f = sz d -> 0 < sz d -> H f = d) ->
    BInv (mkC (blob_set D deq (blobs c) d fo) (links c)).
  Proof.
    intros HB Hn Hd d' f Hg Hl Hpos. cbn in Hg.
    destruct (deq d d') eqn:E.
    - apply deq_spec in E. subst d'. rewrite blob_get_set_same in Hg by exact Hn. apply Hd; assumption.
    - rewrite blob_get_set_other in Hg.
      + apply (HB d' f); assumption.
      + intros ->. rewrite deq_refl in E. discriminate.
  Qed.

  Lemma copy_none_keeps fo d size src cr :
    fst (copy_named_file fo d size src cr) = None -> fo = None.
  Proof.
    intros Hn. destruct fo as [f|]; [|reflexivity].
    destruct (copy_named_file_keeps (Some f) d size src cr f eq_refl) as [f' Hf']. congruence.
  Qed.

  Theorem step_BInv c o : BInv c -> op_wf o -> BInv (fst (step c o)).
  Proof.
    intros HB Hwf. destruct o as [d size src cr | src size | d | np d | np | np | od | p data];
      unfold Model.step; cbv beta iota.
    - (* Put *)
      cbn in Hwf. subst size.
      destruct (copy_named_file (blob_get D deq (blobs c) d) d (sz d) src cr) as [fo st] eqn:E. cbn.
      apply BInv_set; [exact HB | |].
      + intros ->. apply (copy_none_keeps _ d (sz d) src cr). rewrite E. reflexivity.
      + assert (HI : Inv d (sz d) fo).
        { replace fo with (fst (copy_named_file (blob_get D deq (blobs c) d) d (sz d) src cr)) by (rewrite E; reflexivity).
          apply copy_named_file_inv. intros f Hf Hl Hpos. apply (HB d f); assumption. }
        exact HI.
    - (* Import *)
      destruct (src_all src) as [data ok]. destruct ok; cbn; [|exact HB].
      destruct (length data =? size); cbn; [|exact HB].
      apply (BInv_set c (H data) (Some data)); [exact HB | discriminate |]. intros f Hf _ _. inversion Hf; subst. reflexivity.
    - (* Get *)
      destruct (get D deq c d); exact HB.
    - (* Link: blobs untouched *)
      destruct np as [p|]; [|exact HB]. unfold do_link.
      destruct (blob_get D deq (blobs c) d) as [bf|]; [|exact HB].
      destruct (copy_named_file _ d (length bf) (file_reads bufsz bf) None) as [fo st]. cbn.
      intros d' f Hg. cbn in Hg. apply HB. exact Hg.
    - (* Unlink *)
      destruct np as [p|]; [|exact HB].
      destruct (link_get (links c) (manifest_path (links c) p)); [|exact HB].
      cbn. intros d' f Hg. cbn in Hg. apply HB. exact Hg.
    - (* Resolve *)
      destruct np as [p|]; [|exact HB].
      destruct (link_get (links c) (manifest_path (links c) p)) as [data|]; [|exact HB].
      cbv zeta.
      match goal with
      | |- context [Model.copy_named_file D deq H ?a ?b ?n ?sr None] =>
          pose proof (resolve_put a data sr eq_refl) as [Hfo Hst];
          destruct (Model.copy_named_file D deq H a b n sr None) as [fo st]
      end.
      cbn [fst snd] in Hfo, Hst. subst st. cbn [fst snd].
      apply BInv_set; [exact HB | |].
      + intros ->. destruct Hfo as [Hfo | Hfo]; [symmetry; exact Hfo | discriminate].
      + intros f Hf Hl Hpos. destruct Hfo as [Hfo | Hfo].
        * apply (HB (H data) f); [rewrite <- Hfo; exact Hf | exact Hl | exact Hpos].
        * rewrite Hf in Hfo. inversion Hfo; subst. reflexivity.
    - (* Resolve name@digest *)
      destruct od; exact HB.
    - (* hand-edited manifest *)
      intros d' f Hg. cbn in Hg. apply HB. exact Hg.
  Qed.

  Theorem run_BInv ops : forall c, BInv c -> Forall op_wf ops -> BInv (run c ops).
  Proof.
    induction ops as [|o ops IH]; intros c HB Hwf; cbn; [exact HB|].
    inversion Hwf; subst. apply IH; [apply step_BInv; assumption | assumption].
  Qed.

  Lemma BInv_empty : BInv (empty_cache D).
  Proof. intros d f Hg. cbn in Hg. discriminate. Qed.

  (** the property in its own words: a blob reported present with the size it was stored under is intact *)
  Theorem history_inv ops :
    Forall op_wf ops ->
    forall d n f,
      let c := run (empty_cache D) ops in
      get D deq c d = Some n -> n = sz d -> blob_get D deq (blobs c) d = Some f -> H f = d.
  Proof.
    intros Hwf d n f c Hg Hn Hb.
    pose proof (run_BInv ops _ BInv_empty Hwf) as HB.
    fold c in HB. unfold get in Hg. rewrite Hb in Hg.
    destruct (length f =? 0) eqn:E0; [discriminate|]. apply Nat.eqb_neq in E0. inversion Hg; subst n.
    apply (HB d f Hb); lia.
  Qed.

End Hist.
