(** C09 — executable model of the registry client's Pull (server/internal/client/ollama/registry.go), of
    Chunker (server/internal/cache/blob/chunked.go), of the retry loop of handlePull (server/internal/registry/server.go)
    and of the two push implementations as event traces.  Definitions only.

    The registry is an *environment*: for every attempt an arbitrary manifest response, for every layer an arbitrary
    chunk plan (possibly cut short by a stream error) and for every chunk request an arbitrary response (error status,
    body pieces that may be short, long or corrupted, read error after any piece); the completion order of the
    concurrent chunk downloads is an arbitrary list.  [fixed = true] models Chunker/Pull as repaired by
    fixes/C09-chunked-commit.patch (chunks are assembled in a separate file that takes the blob's name only after a
    whole-file digest check); [fixed = false] is the code as found (chunks written in place). *)
From Coq Require Import List NArith Bool Arith Lia.
From V Require Import Common.Bytes Blob.Model.
Import ListNotations.

Record layer (D : Type) := mkL { l_d : D; l_size : nat }.
Arguments mkL {D}.
Arguments l_d {D}.
Arguments l_size {D}.

(** errors of a pull, classified by what the retry loop and the caller can see *)
Inductive perr :=
| PTemp          (* registry answered >= 500, or a transport error the retry loop recognises *)
| PPerm          (* any other registry error status *)
| PNotFound      (* ErrModelNotFound *)
| PInvalid       (* ErrManifestInvalid *)
| PIncomplete    (* ErrIncomplete *)
| PChecksum      (* chunk digest mismatch ("file content changed underfoot") *)
| PShort         (* body ended early: io.ErrUnexpectedEOF *)
| PRead (retry : bool)    (* body read error; [retry] = its text is one canRetry recognises *)
| PCanceled.              (* context cancelled *)

Definition perr_eqb (a b : perr) : bool :=
  match a, b with
  | PTemp, PTemp | PPerm, PPerm | PNotFound, PNotFound | PInvalid, PInvalid | PIncomplete, PIncomplete
  | PChecksum, PChecksum | PShort, PShort | PCanceled, PCanceled => true
  | PRead x, PRead y => Bool.eqb x y
  | _, _ => false
  end.

(** canRetry *)
Definition retryable (e : perr) : bool :=
  match e with
  | PTemp => true
  | PRead r => r
  | _ => false
  end.

(** response to one chunk (or whole-blob) GET *)
Inductive cresp :=
| CStatus (e : perr)                                   (* non-2xx *)
| CBody (pieces : list (list N)) (tail : option perr). (* 2xx; body delivered in these reads, then EOF (None) or a read error *)

Section Pull.
  Variable D : Type.
  Variable deq : D -> D -> bool.
  Variable H : list N -> D.
  (** the text of the "v1 pull chunksum <layer> <chunk> <start>-<end>" cache key; its digest names the marker blob *)
  Variable mkey : D -> D -> nat -> nat -> list N.
  Variable bufsz : nat.
  Variable fixed : bool.        (* Chunker/Pull repaired (C09 patch) *)
  Variable fixed_link : bool.   (* Link repaired (C08 patch) *)

  Notation layer := (layer D).

  (** a chunk as streamed by the registry: digest, start, length (end = start + length - 1) *)
  Definition citem := (D * nat * nat)%type.

  (** ** Chunker.Put: io.CopyN(checkWriter at offset start, body, len) *)
  Inductive cres := COk | CFail (e : perr).

  (** [n] bytes written so far, [acc] everything hashed so far, [rem] = len - n *)
  Fixpoint chunk_copy (f : list N) (start : nat) (cd : D) (n : nat) (acc : list N) (rem : nat)
                      (pieces : list (list N)) (tail : option perr) : list N * cres :=
    match rem with
    | O => (f, COk)                                  (* the LimitedReader is exhausted: CopyN returns nil *)
    | S _ =>
        match pieces with
        | [] => (f, CFail match tail with Some e => e | None => PShort end)
        | p :: t =>
            let p' := firstn rem p in                 (* LimitedReader truncates the read *)
            match p' with
            | [] => chunk_copy f start cd n acc rem t tail
            | _ :: _ =>
                if (length p' =? rem) && negb (deq (H (acc ++ p')) cd)
                then (f, CFail PChecksum)             (* last write of the chunk: digest checked first *)
                else chunk_copy (write_at f (start + n) p') start cd (n + length p') (acc ++ p') (rem - length p') t tail
            end
        end
    end.

  Definition chunk_put (f : list N) (it : citem) (r : cresp) : list N * cres :=
    let '(cd, start, len) := it in
    match r with
    | CStatus e => (f, CFail e)
    | CBody pieces tail => chunk_copy f start cd 0 [] len pieces tail
    end.

  (** ** the cache as the client sees it: blobs (layers, markers, manifests), files being assembled, links *)
  Record pcache := mkP { p_blobs : list (D * list N); p_parts : list (D * list N); p_links : list (path * list N) }.

  Definition pget (c : pcache) (d : D) : option nat :=
    match blob_get D deq (p_blobs c) d with
    | Some f => if length f =? 0 then None else Some (length f)
    | None => None
    end.

  (** PutBytes(c, H data, data) *)
  Definition put_bytes (bs : list (D * list N)) (data : list N) : list (D * list N) :=
    let src := match data with [] => [] | _ :: _ => [(data, RMore)] end in
    blob_set D deq bs (H data) (fst (copy_named_file D deq H (blob_get D deq bs (H data)) (H data) (length data) src None)).

  Definition marker (ld cd : D) (start len : nat) : D := H (mkey ld cd start len).

  (** ** environment of one attempt *)
  Record lenv := mkLE {
    le_single : cresp;                     (* answer to the whole-blob GET (layer below the threshold) *)
    le_cs_fail : bool;                     (* the chunksums request itself fails *)
    le_plan : list (citem * cresp);        (* chunks streamed, each with the answer its GET will get *)
    le_stream_err : bool }.                (* the chunk list breaks off with an error after these items *)

  Inductive mresp :=
  | MFail (e : perr)
  | MOk (layers : list layer) (data : list N).     (* layers incl. a valid config layer, raw manifest bytes *)

  Record attempt := mkA {
    a_manifest : mresp;
    a_env : list lenv;                     (* one per layer, in manifest order *)
    a_order : list (nat * nat) }.          (* completion order of the downloads: (layer index, index in its chunk list) *)

  (** ** listing: what the main loop of Pull decides for one layer *)
  Record job := mkJ { j_idx : nat; j_item : citem; j_resp : cresp }.   (* j_idx = position in the chunk list *)

  Record ldec := mkLD {
    ld_cached : bool;                      (* blob present with the manifest's size: nothing to do *)
    ld_preval : bool;                      (* Chunked found a file of the right size: Put is a no-op *)
    ld_bytes : nat;                        (* bytes accounted as already there (layer or marker hits) *)
    ld_jobs : list job;                    (* downloads started *)
    ld_reqs : nat }.                       (* chunksums requests sent (0 or 1) *)

  Fixpoint plan_jobs (k : nat) (c : pcache) (ld : D) (plan : list (citem * cresp)) : nat * list job :=
    match plan with
    | [] => (0, [])
    | ((cd, start, len), r) :: t =>
        let '(b, js) := plan_jobs (S k) c ld t in
        match pget c (marker ld cd start len) with
        | Some _ => (len + b, js)
        | None => (b, mkJ k (cd, start, len) r :: js)
        end
    end.

  Definition target_get (c : pcache) (d : D) : option (list N) :=
    if fixed then blob_get D deq (p_parts c) d else blob_get D deq (p_blobs c) d.
  Definition target_set (c : pcache) (d : D) (f : list N) : pcache :=
    if fixed then mkP (p_blobs c) (blob_put D deq (p_parts c) d f) (p_links c)
    else mkP (blob_put D deq (p_blobs c) d f) (p_parts c) (p_links c).

  (** the chunks the main loop iterates over: one covering chunk for a layer below the threshold, else the stream *)
  Definition layer_plan (threshold : nat) (l : layer) (e : lenv) : nat * option (list (citem * cresp)) :=
    if l_size l <? threshold then (0, Some [((l_d l, 0, l_size l), le_single e)])
    else if le_cs_fail e then (1, None)
    else (1, Some (le_plan e)).

  Definition list_layer (threshold : nat) (c : pcache) (l : layer) (e : lenv) : pcache * ldec :=
    let cached := match pget c (l_d l) with Some n => n =? l_size l | None => false end in
    if cached then (c, mkLD true false (l_size l) [] 0) else
    (* Chunked: a file of the right size under the blob's name can only be the empty file of an empty layer
       (Get reports it absent); otherwise open (create) the file the chunks are assembled in *)
    let preval := match blob_get D deq (p_blobs c) (l_d l) with Some f => length f =? l_size l | None => false end in
    let c1 := if preval then c else
              match target_get c (l_d l) with Some _ => c | None => target_set c (l_d l) [] end in
    match layer_plan threshold l e with
    | (nreq, None) => (c1, mkLD false preval 0 [] nreq)
    | (nreq, Some plan) => let '(b, js) := plan_jobs 0 c (l_d l) plan in (c1, mkLD false preval b js nreq)
    end.

  Fixpoint list_layers (threshold : nat) (c : pcache) (ls : list layer) (es : list lenv) : pcache * list ldec :=
    match ls with
    | [] => (c, [])
    | l :: ls' =>
        let e := match es with e :: _ => e | [] => mkLE (CStatus PPerm) true [] false end in
        let '(c1, dc) := list_layer threshold c l e in
        let '(c2, dcs) := list_layers threshold c1 ls' (tl es) in
        (c2, dc :: dcs)
    end.

  (** ** one download: Chunker.Put, then the marker *)
  Definition run_job (c : pcache) (l : layer) (preval : bool) (j : job) : pcache * cres :=
    match j_resp j with
    | CStatus e => (c, CFail e)
    | CBody _ _ =>
        if preval then
          let '(cd, start, len) := j_item j in
          (mkP (put_bytes (p_blobs c) (mkey (l_d l) cd start len)) (p_parts c) (p_links c), COk)
        else
          let '(f', r) := chunk_put (match target_get c (l_d l) with Some f => f | None => [] end) (j_item j) (j_resp j) in
          let c1 := target_set c (l_d l) f' in
          match r with
          | COk =>
              let '(cd, start, len) := j_item j in
              (mkP (put_bytes (p_blobs c1) (mkey (l_d l) cd start len)) (p_parts c1) (p_links c1), COk)
          | CFail e => (c1, CFail e)
          end
    end.

  (** the jobs of all layers in completion order; jobs the order does not mention run afterwards in plan order *)
  Fixpoint all_ids (i : nat) (dcs : list ldec) : list (nat * nat) :=
    match dcs with
    | [] => []
    | dc :: t => map (fun j => (i, j_idx j)) (ld_jobs dc) ++ all_ids (S i) t
    end.

  Definition id_eqb (a b : nat * nat) : bool := Nat.eqb (fst a) (fst b) && Nat.eqb (snd a) (snd b).

  Fixpoint dedup_ids (seen : list (nat * nat)) (l : list (nat * nat)) : list (nat * nat) :=
    match l with
    | [] => []
    | x :: t => if existsb (id_eqb x) seen then dedup_ids seen t else x :: dedup_ids (x :: seen) t
    end.

  Definition schedule (order : list (nat * nat)) (dcs : list ldec) : list (nat * nat) :=
    let ids := all_ids 0 dcs in
    dedup_ids [] (filter (fun x => existsb (id_eqb x) ids) order ++ ids).

  (** state while the downloads run: cache, per layer "a chunk failed", errors in the order they happened *)
  Definition run_jobs_step (ls : list layer) (dcs : list ldec)
             (s : pcache * list nat * list perr) (id : nat * nat) : pcache * list nat * list perr :=
    let '(c, failed, errs) := s in
    match nth_error ls (fst id), nth_error dcs (fst id) with
    | Some l, Some dc =>
        match find (fun j => Nat.eqb (j_idx j) (snd id)) (ld_jobs dc) with
        | Some j =>
            let '(c', r) := run_job c l (ld_preval dc) j in
            match r with
            | COk => (c', failed, errs)
            | CFail e => (c', fst id :: failed, errs ++ [e])
            end
        | None => s
        end
    | _, _ => s
    end.

  (** ** the closer of one layer: Commit (repaired code only) *)
  Definition commit_layer (c : pcache) (l : layer) : pcache * option perr :=
    match blob_get D deq (p_parts c) (l_d l) with
    | Some f =>
        if (length f =? l_size l) && deq (H f) (l_d l)
        then (mkP (blob_put D deq (p_blobs c) (l_d l) f)
                  (filter (fun x => negb (deq (fst x) (l_d l))) (p_parts c)) (p_links c), None)
        else (c, Some PIncomplete)
    | None => (c, Some PIncomplete)
    end.

  Fixpoint commits (i : nat) (c : pcache) (ls : list layer) (dcs : list ldec) (failed : list nat)
    : pcache * list perr :=
    match ls, dcs with
    | l :: ls', dc :: dcs' =>
        let '(c1, e1) :=
          if ld_cached dc || ld_preval dc || negb fixed || existsb (Nat.eqb i) failed then (c, None)
          else commit_layer c l in
        let '(c2, es) := commits (S i) c1 ls' dcs' failed in
        (c2, match e1 with Some e => e :: es | None => es end)
    | _, _ => (c, [])
    end.

  Inductive pres := POk | PErr (possible : list perr).   (* on failure: the errors that occurred (g.Wait reports one of them) *)

  Definition sum_bytes (dcs : list ldec) : nat :=
    fold_right (fun dc a => ld_bytes dc + fold_right (fun j b => snd (j_item j) + b) 0 (ld_jobs dc) + a) 0 dcs.
  Definition sum_sizes (ls : list layer) : nat := fold_right (fun l a => l_size l + a) 0 ls.

  (** number of requests of each kind the registry sees in the attempt *)
  Definition count_reqs (dcs : list ldec) : nat * nat :=
    (fold_right (fun dc a => ld_reqs dc + a) 0 dcs, fold_right (fun dc a => length (ld_jobs dc) + a) 0 dcs).

  Definition pull_attempt (threshold : nat) (np : path) (c : pcache) (a : attempt) : pcache * pres * (nat * nat) :=
    match a_manifest a with
    | MFail e => (c, PErr [e], (0, 0))
    | MOk ls data =>
        match ls with
        | [] => (c, PErr [PInvalid], (0, 0))
        | _ :: _ =>
            let '(c1, dcs) := list_layers threshold c ls (a_env a) in
            let '(c2, failed, errs) :=
              fold_left (run_jobs_step ls dcs) (schedule (a_order a) dcs) (c1, [], []) in
            let '(c3, cerrs) := commits 0 c2 ls dcs failed in
            match errs ++ cerrs with
            | (_ :: _) as es => (c3, PErr es, count_reqs dcs)
            | [] =>
                if negb (sum_bytes dcs =? sum_sizes ls) then (c3, PErr [PIncomplete], count_reqs dcs)
                else
                  let bs := put_bytes (p_blobs c3) data in
                  let '(cl, _) := do_link D deq H bufsz fixed_link (mkC bs (p_links c3)) np (H data) in
                  (mkP (blobs cl) (p_parts c3) (links cl), POk, count_reqs dcs)
            end
        end
    end.

  (** ** handlePull: attempts are repeated while canRetry says so (the environment supplies one script per attempt) *)
  Fixpoint pull_loop (threshold : nat) (np : path) (c : pcache) (atts : list (attempt * perr))
    : pcache * list pres :=
    match atts with
    | [] => (c, [])
    | (a, seen) :: t =>
        let '(c', r, _) := pull_attempt threshold np c a in
        match r with
        | POk => (c', [POk])
        | PErr es =>
            (* [seen] = the error g.Wait reported to the loop; it must be one of those that occurred *)
            if retryable seen then let '(c'', rs) := pull_loop threshold np c' t in (c'', r :: rs)
            else (c', [r])
        end
    end.

End Pull.

Arguments mkP {D}.
Arguments p_blobs {D}.
Arguments p_parts {D}.
Arguments p_links {D}.
Arguments mkLE {_}.
Arguments MFail {D}.
Arguments MOk {D}.
Arguments mkA {D}.
Arguments mkJ {D}.
Arguments mkLD {D}.

(** * push: the two implementations as event traces *)
Inductive pev := EvBlob (i : nat) (accepted : bool) | EvManifest.

(** Registry.Push: uploads in an errgroup (any completion order), manifest PUT only after g.Wait() = nil *)
Definition push_new (results : list (nat * bool)) : list pev :=
  map (fun '(i, ok) => EvBlob i ok) results ++ (if forallb snd results then [EvManifest] else []).

(** server.PushModel: layers in order, the first failure returns; manifest PUT last *)
Fixpoint push_legacy (i : nat) (results : list bool) : list pev :=
  match results with
  | [] => [EvManifest]
  | true :: t => EvBlob i true :: push_legacy (S i) t
  | false :: _ => [EvBlob i false]
  end.
Arguments ld_cached {D}.
Arguments ld_preval {D}.
Arguments ld_bytes {D}.
Arguments ld_jobs {D}.
Arguments ld_reqs {D}.
Arguments j_idx {D}.
Arguments j_item {D}.
Arguments j_resp {D}.
Arguments a_manifest {D}.
Arguments a_env {D}.
Arguments a_order {D}.
