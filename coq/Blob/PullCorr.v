(** C09 — executable comparison of the Pull model with observations of the real registry client.
    Instance as for C08: a digest is represented by its preimage; the marker key text is encoded by [mkey_enc]
    (props/c09.py renders the real "v1 pull chunksum ..." blobs with the same encoding). *)
From Coq Require Import List NArith Bool Arith.
From V Require Import Common.Bytes Blob.Model Blob.Corr Blob.Pull.
Import ListNotations.

Definition mkey_enc (ld cd : Dg) (s len : nat) : list N :=
  [118; 49; 32]%N ++ ld ++ [255; 254]%N ++ cd ++ [255; 253]%N ++ [N.of_nat s; N.of_nat len].

Definition cpcache := pcache Dg.
Definition cattempt := attempt Dg.
Definition clayer := layer Dg.

Definition cpull_attempt (fixed fixed_link : bool) :=
  pull_attempt Dg eqb_str Hid mkey_enc bufsz32k fixed fixed_link.

(** observation of one attempt: None = success, Some e = the error Pull returned; directory; request counts *)
Definition psnap := (list (Dg * list N) * list (Dg * list N) * list (path * list N))%type.
Definition pobs := (option perr * psnap * (nat * nat))%type.

Definition psnap_eqb (c : cpcache) (s : psnap) : bool :=
  let '(bl, pa, ln) := s in
  blobs_eqb (p_blobs c) bl && blobs_eqb (p_parts c) pa && links_eqb (p_links c) ln.

Definition res_ok (r : pres) (o : option perr) : bool :=
  match r, o with
  | POk, None => true
  | PErr es, Some e => existsb (perr_eqb e) es
  | _, _ => false
  end.

(** request counts; an observation of (9999, _) means "not compared" (after a cancellation the client gives up requests
    before they reach the transport) *)
Definition cnt_eqb (a b : nat * nat) : bool := Nat.eqb (fst b) 9999 || (Nat.eqb (fst a) (fst b) && Nat.eqb (snd a) (snd b)).

(** direct mode: every attempt is one call of Registry.Pull; state, result and request counts compared after each *)
Fixpoint chk_pull (fixed fixed_link : bool) (thr : nat) (np : path) (c : cpcache) (atts : list (cattempt * pobs)) : bool :=
  match atts with
  | [] => true
  | (a, (o, s, n)) :: t =>
      let '(c', r, n') := cpull_attempt fixed fixed_link thr np c a in
      res_ok r o && psnap_eqb c' s && cnt_eqb n' n && chk_pull fixed fixed_link thr np c' t
  end.

(** handler mode (POST /api/pull through registry.Local): with "stream": true the retry loop decides how many attempts
    are made, with "stream": false Pull is called once.  [made] = snapshots after each attempt that was made;
    [final_ok] = the handler reported success to its client. *)
Fixpoint chk_loop (stream : bool) (fixed fixed_link : bool) (thr : nat) (np : path) (c : cpcache) (script : list cattempt)
                  (made : list psnap) (final_ok : bool) : bool :=
  match made with
  | [] => false
  | s :: made' =>
      let a := match script with a :: _ => a | [] => mkA (MFail PPerm) [] [] end in   (* script exhausted: 404 *)
      let '(c', r, _) := cpull_attempt fixed fixed_link thr np c a in
      psnap_eqb c' s &&
      match r with
      | POk => final_ok && match made' with [] => true | _ => false end
      | PErr es =>
          match made' with
          | [] => negb final_ok && (negb stream || existsb (fun e => negb (retryable e)) es)
          | _ :: _ => stream && existsb retryable es && chk_loop stream fixed fixed_link thr np c' (tl script) made' final_ok
          end
      end
  end.

(** push traces *)
Definition pev_eqb (a b : pev) : bool :=
  match a, b with
  | EvManifest, EvManifest => true
  | EvBlob i x, EvBlob j y => Nat.eqb i j && Bool.eqb x y
  | _, _ => false
  end.
Fixpoint trace_eqb (a b : list pev) : bool :=
  match a, b with
  | [], [] => true
  | x :: a', y :: b' => pev_eqb x y && trace_eqb a' b'
  | _, _ => false
  end.
Definition chk_push_new (results : list (nat * bool)) (obs : list pev) : bool := trace_eqb (push_new results) obs.
Definition chk_push_legacy (results : list bool) (obs : list pev) : bool := trace_eqb (push_legacy 0 results) obs.
