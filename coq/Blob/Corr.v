(** C08 — executable comparison of the model with observations of the real DiskCache.
    Instance: a digest is represented by its preimage ([D := list N], [H := id]); the harness works with real SHA-256
    and props/c08.py translates observed digests back to the contents they were computed from. *)
From Coq Require Import List NArith Bool Arith.
From V Require Import Common.Bytes Blob.Model.
Import ListNotations.

Definition Dg := list N.
Definition Hid (b : list N) : Dg := b.
Definition bufsz32k : nat := N.to_nat 32768.

Definition cwriter := writer Dg.
Definition ccache := cache Dg.
Definition cop := op Dg.
Definition cout := out Dg.

Definition stage_eqb (a b : stage) : bool :=
  match a, b with
  | WNew, WNew | WCopy, WCopy | WDead, WDead => true
  | WDone ROk, WDone ROk => true
  | WDone (RFail e), WDone (RFail e') => err_eqb e e'
  | _, _ => false
  end.

Definition out_eqb (a b : cout) : bool :=
  match a, b with
  | OutOk, OutOk | OutCrashed, OutCrashed => true
  | OutErr e, OutErr e' => err_eqb e e'
  | OutSize n, OutSize m => Nat.eqb n m
  | OutDigest d, OutDigest d' => eqb_str d d'
  | OutBool x, OutBool y => Bool.eqb x y
  | _, _ => false
  end.

Definition ofile_eqb (a b : option (list N)) : bool :=
  match a, b with
  | None, None => true
  | Some x, Some y => eqb_str x y
  | _, _ => false
  end.

(** finite maps as association lists: same bindings *)
Definition blobs_sub (m o : list (Dg * list N)) : bool :=
  forallb (fun '(d, f) => ofile_eqb (blob_get Dg eqb_str o d) (Some f)) m.
Definition blobs_eqb (m o : list (Dg * list N)) : bool :=
  blobs_sub m o && blobs_sub o m && Nat.eqb (length m) (length o).

Definition links_sub (m o : list (path * list N)) : bool :=
  forallb (fun '(p, f) => ofile_eqb (link_get o p) (Some f)) m.
Definition links_eqb (m o : list (path * list N)) : bool :=
  links_sub m o && links_sub o m && Nat.eqb (length m) (length o).

Definition snapshot := (list (Dg * list N) * list (path * list N))%type.

Definition snap_eqb (c : ccache) (s : snapshot) : bool :=
  blobs_eqb (blobs c) (fst s) && links_eqb (links c) (snd s).

(** history check: after every operation the result and the whole directory agree *)
Fixpoint chk_hist_from (fixed : bool) (c : ccache) (ops : list cop) (obs : list (cout * snapshot)) : bool :=
  match ops, obs with
  | [], [] => true
  | o :: ops', (r, s) :: obs' =>
      let '(c', r') := step Dg eqb_str Hid bufsz32k fixed c o in
      out_eqb r' r && snap_eqb c' s && chk_hist_from fixed c' ops' obs'
  | _, _ => false
  end.
Definition chk_hist (fixed : bool) (ops : list cop) (obs : list (cout * snapshot)) : bool :=
  chk_hist_from fixed (empty_cache Dg) ops obs.

(** concurrent writers of one blob: after every scheduling step the file and every writer's stage agree *)
Definition mk_writers (specs : list (Dg * nat * list rd)) : list cwriter :=
  map (fun '(d, size, src) => new_writer Dg d size src) specs.

Fixpoint chk_conc_from (s : cstate Dg) (sched : list (nat * action)) (obs : list (option (list N) * list stage)) : bool :=
  match sched, obs with
  | [], [] => true
  | l :: sched', (fo, sts) :: obs' =>
      let s' := cstep Dg eqb_str Hid s l in
      ofile_eqb (fst s') fo
      && Nat.eqb (length (snd s')) (length sts)
      && forallb (fun '(w, st) => stage_eqb (w_stage w) st) (combine (snd s') sts)
      && chk_conc_from s' sched' obs'
  | _, _ => false
  end.
Definition chk_conc (f0 : option (list N)) (specs : list (Dg * nat * list rd)) (sched : list (nat * action))
                    (obs : list (option (list N) * list stage)) : bool :=
  chk_conc_from (f0, mk_writers specs) sched obs.

(** model-side property evaluators (used when model and implementation disagree and by the refutation witnesses):
    the blob invariant "a file of the size it was stored under hashes to its digest" *)
Definition blob_ok (d : Dg) (size : nat) (fo : option (list N)) : bool :=
  match fo with
  | Some f => negb (Nat.eqb (length f) size) || Nat.eqb size 0 || eqb_str f d
  | None => true
  end.
