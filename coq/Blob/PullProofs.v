(** C09 — proofs about Blob/Pull.v *)
From Coq Require Import List NArith Bool Arith Lia.
From V Require Import Common.Bytes Blob.Model Blob.Proofs Blob.ProofsHist Blob.Pull.
Import ListNotations.

(** * push traces *)
Lemma push_new_manifest_last results :
  In EvManifest (push_new results) ->
  forallb snd results = true /\
  exists pre, push_new results = pre ++ [EvManifest] /\ ~ In EvManifest pre /\
              pre = map (fun '(i, ok) => EvBlob i ok) results.
Proof.
  unfold push_new. intros Hin.
  assert (Hno : ~ In EvManifest (map (fun '(i, ok) => EvBlob i ok) results)).
  { intros Hx. apply in_map_iff in Hx as ([i ok] & Hx & _). discriminate. }
  destruct (forallb snd results) eqn:E.
  - split; [reflexivity|]. eexists. split; [reflexivity|]. split; [exact Hno | reflexivity].
  - rewrite app_nil_r in Hin. contradiction.
Qed.

Lemma push_legacy_manifest_last results : forall i,
  In EvManifest (push_legacy i results) ->
  forallb (fun b => b) results = true /\
  exists pre, push_legacy i results = pre ++ [EvManifest] /\ ~ In EvManifest pre /\ length pre = length results.
Proof.
  induction results as [|b t IH]; intros i Hin; cbn in *.
  - split; [reflexivity|]. exists []. split; [reflexivity|]. split; [intros []| reflexivity].
  - destruct b; cbn in *.
    + destruct Hin as [Hx | Hin]; [discriminate|].
      destruct (IH (S i) Hin) as (Hall & pre & Heq & Hno & Hl). split; [exact Hall|].
      exists (EvBlob i true :: pre). rewrite Heq. split; [reflexivity|]. split.
      * intros [Hx | Hx]; [discriminate | contradiction].
      * cbn. lia.
    + destruct Hin as [Hx | []]. discriminate.
Qed.

(** * pull *)
Section PullProofs.
  Variable D : Type.
  Variable deq : D -> D -> bool.
  Variable H : list N -> D.
  Hypothesis deq_spec : forall a b, deq a b = true <-> a = b.
  Variable mkey : D -> D -> nat -> nat -> list N.
  Variable bufsz : nat.
  Variable fixed_link : bool.

  Notation layer := (layer D).
  Notation pcache := (pcache D).
  Notation blob_get := (blob_get D deq).
  Notation blob_put := (blob_put D deq).
  Notation put_bytes := (put_bytes D deq H).
  Notation pull_attempt := (pull_attempt D deq H mkey bufsz true fixed_link).

  Lemma deq_refl' d : deq d d = true.
  Proof. apply deq_spec. reflexivity. Qed.

  Lemma deq_false a b : a <> b -> deq a b = false.
  Proof. intros Hne. destruct (deq a b) eqn:E; [apply deq_spec in E; contradiction | reflexivity]. Qed.

  (** [sz d] = the size blob d is stored under; the store invariant of C08 on the blobs of the client's cache *)
  Variable sz : D -> nat.

  Definition LInv (bs : list (D * list N)) : Prop :=
    forall d f, blob_get bs d = Some f -> length f = sz d -> 0 < sz d -> H f = d.

  Lemma LInv_BInv bs ls : LInv bs <-> BInv D deq H sz (mkC bs ls).
  Proof. unfold LInv, BInv. cbn. tauto. Qed.

  Lemma put_bytes_cases bs data :
    (blob_get (put_bytes bs data) (H data) = blob_get bs (H data) \/
     blob_get (put_bytes bs data) (H data) = Some data) /\
    (forall d, d <> H data -> blob_get (put_bytes bs data) d = blob_get bs d).
  Proof.
    unfold Pull.put_bytes.
    match goal with
    | |- context [Model.copy_named_file D deq H ?a ?b ?n ?sr None] =>
        pose proof (resolve_put D deq H deq_spec a data sr eq_refl) as [Hfo _];
        destruct (Model.copy_named_file D deq H a b n sr None) as [fo st]
    end.
    cbn [fst] in *. split.
    - destruct Hfo as [-> | ->].
      + left. apply (blob_get_set_same D deq deq_spec). tauto.
      + right. apply (blob_get_set_same D deq deq_spec). discriminate.
    - intros d Hne. apply (blob_get_set_other D deq deq_spec). congruence.
  Qed.

  Lemma put_bytes_LInv bs data : LInv bs -> LInv (put_bytes bs data).
  Proof.
    intros HL d f Hg Hl Hpos. destruct (put_bytes_cases bs data) as [Hsame Hother].
    destruct (deq (H data) d) eqn:E.
    - apply deq_spec in E. subst d. destruct Hsame as [Hs | Hs]; rewrite Hs in Hg.
      + apply (HL _ f Hg Hl Hpos).
      + inversion Hg; subst. reflexivity.
    - rewrite Hother in Hg; [apply (HL d f Hg Hl Hpos)|]. intros ->. rewrite deq_refl' in E. discriminate.
  Qed.

  (** a layer is in the cache with the manifest's size and digest *)
  Definition Good (l : layer) (bs : list (D * list N)) : Prop :=
    exists f, blob_get bs (l_d l) = Some f /\ length f = l_size l /\ H f = l_d l.

  Lemma Good_put_bytes l bs data : H data <> l_d l -> Good l bs -> Good l (put_bytes bs data).
  Proof.
    intros Hne (f & Hg & Hl & Hh). exists f. destruct (put_bytes_cases bs data) as [_ Hother].
    rewrite Hother by congruence. auto.
  Qed.

  Lemma blob_get_put' bs d f d' : blob_get (blob_put bs d f) d' = if deq d d' then Some f else blob_get bs d'.
  Proof. apply (blob_get_put D deq deq_spec). Qed.

  Lemma Good_blob_put l bs d f :
    (d = l_d l -> length f = l_size l /\ H f = l_d l) -> Good l bs -> Good l (blob_put bs d f).
  Proof.
    intros Hsame (f0 & Hg & Hl & Hh). unfold Good. rewrite blob_get_put'.
    destruct (deq d (l_d l)) eqn:E.
    - apply deq_spec in E. destruct (Hsame E) as [H1 H2]. exists f. auto.
    - exists f0. auto.
  Qed.

  Lemma LInv_blob_put bs d f : H f = d -> LInv bs -> LInv (blob_put bs d f).
  Proof.
    intros Hh HL d' f' Hg Hl Hpos. rewrite blob_get_put' in Hg. destruct (deq d d') eqn:E.
    - apply deq_spec in E. subst d'. inversion Hg; subst. reflexivity.
    - apply (HL d' f' Hg Hl Hpos).
  Qed.

  (** ** the stages of one attempt (repaired code: [fixed = true]) *)
  Notation list_layer := (list_layer D deq H mkey true).
  Notation list_layers := (list_layers D deq H mkey true).
  Notation run_job := (run_job D deq H mkey true).
  Notation run_jobs_step := (run_jobs_step D deq H mkey true).
  Notation commit_layer := (commit_layer D deq H).
  Notation commits := (commits D deq H true).
  Notation schedule := (schedule D).
  Notation sum_bytes := (sum_bytes D).
  Notation sum_sizes := (sum_sizes D).

  Lemma list_layer_frame thr c l e :
    p_blobs (fst (list_layer thr c l e)) = p_blobs c /\ p_links (fst (list_layer thr c l e)) = p_links c.
  Proof.
    unfold Pull.list_layer, target_get, target_set.
    repeat (match goal with
            | |- context [match ?x with _ => _ end] => destruct x; cbn
            end); auto.
  Qed.

  Lemma list_layer_cached thr c l e :
    ld_cached (snd (list_layer thr c l e)) = true ->
    exists f, blob_get (p_blobs c) (l_d l) = Some f /\ length f = l_size l /\ 0 < length f.
  Proof.
    unfold Pull.list_layer, pget.
    destruct (blob_get (p_blobs c) (l_d l)) as [f|] eqn:Eg.
    - destruct (length f =? 0) eqn:E0.
      + cbn. repeat (match goal with
                     | |- context [match ?x with _ => _ end] => destruct x; cbn
                     end); discriminate.
      + destruct (length f =? l_size l) eqn:E1.
        * intros _. apply Nat.eqb_eq in E1. apply Nat.eqb_neq in E0. exists f. repeat split; auto; lia.
        * cbn. repeat (match goal with
                       | |- context [match ?x with _ => _ end] => destruct x; cbn
                       end); discriminate.
    - cbn. repeat (match goal with
                   | |- context [match ?x with _ => _ end] => destruct x; cbn
                   end); discriminate.
  Qed.

  Lemma list_layer_preval thr c l e :
    ld_cached (snd (list_layer thr c l e)) = false -> ld_preval (snd (list_layer thr c l e)) = true -> l_size l = 0.
  Proof.
    unfold Pull.list_layer, pget.
    destruct (blob_get (p_blobs c) (l_d l)) as [f|] eqn:Eg.
    - destruct (length f =? 0) eqn:E0.
      + apply Nat.eqb_eq in E0. destruct (length f =? l_size l) eqn:E1.
        * apply Nat.eqb_eq in E1. intros _ _. lia.
        * cbn. repeat (match goal with
                       | |- context [match ?x with _ => _ end] => destruct x; cbn
                       end); discriminate.
      + destruct (length f =? l_size l) eqn:E1.
        * cbn. discriminate.
        * cbn. repeat (match goal with
                       | |- context [match ?x with _ => _ end] => destruct x; cbn
                       end); discriminate.
    - cbn. repeat (match goal with
                   | |- context [match ?x with _ => _ end] => destruct x; cbn
                   end); discriminate.
  Qed.

  Lemma list_layers_frame thr ls : forall c es,
    p_blobs (fst (list_layers thr c ls es)) = p_blobs c /\ p_links (fst (list_layers thr c ls es)) = p_links c.
  Proof.
    induction ls as [|l ls IH]; intros c es; cbn; [auto|].
    destruct (list_layer_frame thr c l match es with e :: _ => e | [] => mkLE (CStatus PPerm) true [] false end) as [H1 H2].
    destruct (list_layer thr c l _) as [c1 dc]. cbn in H1, H2.
    destruct (IH c1 (tl es)) as [H3 H4]. destruct (list_layers thr c1 ls (tl es)) as [c2 dcs]. cbn in *.
    split; congruence.
  Qed.

  Lemma list_layers_length thr ls : forall c es, length (snd (list_layers thr c ls es)) = length ls.
  Proof.
    induction ls as [|l ls IH]; intros c es; cbn; [reflexivity|].
    destruct (list_layer thr c l _) as [c1 dc]. specialize (IH c1 (tl es)).
    destruct (list_layers thr c1 ls (tl es)) as [c2 dcs]. cbn in *. lia.
  Qed.

  (** what listing decides about layer k, in terms of the blobs before the attempt *)
  Lemma list_layers_nth thr ls : forall c es k l dc,
    nth_error ls k = Some l -> nth_error (snd (list_layers thr c ls es)) k = Some dc ->
    (ld_cached dc = true -> exists f, blob_get (p_blobs c) (l_d l) = Some f /\ length f = l_size l /\ 0 < length f) /\
    (ld_cached dc = false -> ld_preval dc = true -> l_size l = 0).
  Proof.
    induction ls as [|l0 ls IH]; intros c es k l dc Hl Hd; [destruct k; discriminate|].
    cbn in Hd.
    pose proof (list_layer_frame thr c l0 match es with e :: _ => e | [] => mkLE (CStatus PPerm) true [] false end) as [Hb _].
    pose proof (list_layer_cached thr c l0 match es with e :: _ => e | [] => mkLE (CStatus PPerm) true [] false end) as Hc.
    pose proof (list_layer_preval thr c l0 match es with e :: _ => e | [] => mkLE (CStatus PPerm) true [] false end) as Hp.
    destruct (list_layer thr c l0 _) as [c1 dc0]. cbn in Hb, Hc, Hp.
    specialize (IH c1 (tl es)). destruct (list_layers thr c1 ls (tl es)) as [c2 dcs]. cbn in *.
    destruct k as [|k]; cbn in *.
    - inversion Hl; inversion Hd; subst. split; assumption.
    - rewrite <- Hb. eapply IH; eassumption.
  Qed.

  (** a download touches the blobs only by storing its marker *)
  Lemma run_job_frame c l preval j :
    p_links (fst (run_job c l preval j)) = p_links c /\
    (p_blobs (fst (run_job c l preval j)) = p_blobs c \/
     exists ld cd s n, p_blobs (fst (run_job c l preval j)) = put_bytes (p_blobs c) (mkey ld cd s n)).
  Proof.
    unfold Pull.run_job, target_set, target_get. destruct (j_resp j); cbn; [auto|].
    destruct preval.
    - destruct (j_item j) as [[cd s] n]. cbn. split; [reflexivity|]. right. eauto.
    - destruct (chunk_put D deq H _ (j_item j) _) as [f' r]. destruct r.
      + destruct (j_item j) as [[cd s] n]. cbn. split; [reflexivity|]. right. eauto.
      + cbn. auto.
  Qed.

  Section JobsInv.
    Variable P : list (D * list N) -> Prop.
    Hypothesis P_marker : forall bs ld cd s n, P bs -> P (put_bytes bs (mkey ld cd s n)).

    Lemma run_jobs_step_inv ls dcs s id :
      P (p_blobs (fst (fst s))) -> P (p_blobs (fst (fst (run_jobs_step ls dcs s id)))).
    Proof.
      destruct s as [[c failed] errs]. unfold Pull.run_jobs_step. cbn [fst].
      destruct (nth_error ls (fst id)) as [l|]; [|auto]. destruct (nth_error dcs (fst id)) as [dc|]; [|auto].
      destruct (find _ (ld_jobs dc)) as [j|]; [|auto].
      pose proof (run_job_frame c l (ld_preval dc) j) as [_ Hb].
      destruct (run_job c l (ld_preval dc) j) as [c' r]. cbn [fst] in *.
      intros HP. assert (HP' : P (p_blobs c')).
      { destruct Hb as [-> | (ld & cd & s & n & ->)]; [exact HP | apply P_marker; exact HP]. }
      destruct r; exact HP'.
    Qed.

    Lemma run_jobs_inv ls dcs ids : forall s,
      P (p_blobs (fst (fst s))) -> P (p_blobs (fst (fst (fold_left (run_jobs_step ls dcs) ids s)))).
    Proof.
      induction ids as [|id ids IH]; intros s HP; cbn; [exact HP|]. apply IH. apply run_jobs_step_inv. exact HP.
    Qed.
  End JobsInv.

  Lemma run_jobs_step_links ls dcs s id :
    p_links (fst (fst (run_jobs_step ls dcs s id))) = p_links (fst (fst s)).
  Proof.
    destruct s as [[c failed] errs]. unfold Pull.run_jobs_step. cbn [fst].
    destruct (nth_error ls (fst id)) as [l|]; [|auto]. destruct (nth_error dcs (fst id)) as [dc|]; [|auto].
    destruct (find _ (ld_jobs dc)) as [j|]; [|auto].
    pose proof (run_job_frame c l (ld_preval dc) j) as [Hl _].
    destruct (run_job c l (ld_preval dc) j) as [c' r]. cbn [fst] in *. destruct r; exact Hl.
  Qed.

  Lemma run_jobs_links ls dcs ids : forall s,
    p_links (fst (fst (fold_left (run_jobs_step ls dcs) ids s))) = p_links (fst (fst s)).
  Proof.
    induction ids as [|id ids IH]; intros s; cbn; [reflexivity|]. rewrite IH. apply run_jobs_step_links.
  Qed.

  (** no error was recorded => no layer is marked as failed *)
  Lemma run_jobs_step_failed ls dcs s id :
    length (snd (fst s)) = length (snd s) ->
    length (snd (fst (run_jobs_step ls dcs s id))) = length (snd (run_jobs_step ls dcs s id)).
  Proof.
    destruct s as [[c failed] errs]. unfold Pull.run_jobs_step. cbn [fst snd].
    destruct (nth_error ls (fst id)) as [l|]; [|auto]. destruct (nth_error dcs (fst id)) as [dc|]; [|auto].
    destruct (find _ (ld_jobs dc)) as [j|]; [|auto].
    destruct (run_job c l (ld_preval dc) j) as [c' r]. destruct r; cbn; [auto|].
    intros Hl. rewrite app_length. cbn. lia.
  Qed.

  Lemma run_jobs_failed ls dcs ids : forall s,
    length (snd (fst s)) = length (snd s) ->
    length (snd (fst (fold_left (run_jobs_step ls dcs) ids s))) = length (snd (fold_left (run_jobs_step ls dcs) ids s)).
  Proof.
    induction ids as [|id ids IH]; intros s Hl; cbn; [exact Hl|]. apply IH. apply run_jobs_step_failed. exact Hl.
  Qed.

  (** Commit makes the blob visible only after the whole-file digest check *)
  Lemma commit_layer_ok c l c' :
    commit_layer c l = (c', None) ->
    p_links c' = p_links c /\
    exists f, p_blobs c' = blob_put (p_blobs c) (l_d l) f /\ length f = l_size l /\ H f = l_d l.
  Proof.
    unfold Pull.commit_layer. destruct (blob_get (p_parts c) (l_d l)) as [f|]; [|discriminate].
    destruct (length f =? l_size l) eqn:E1; [|discriminate]. destruct (deq (H f) (l_d l)) eqn:E2; [|discriminate].
    cbn. intros Hx. inversion Hx; subst. cbn. split; [reflexivity|]. exists f.
    apply Nat.eqb_eq in E1. apply deq_spec in E2. auto.
  Qed.

  Lemma commit_layer_err c l c' e : commit_layer c l = (c', Some e) -> c' = c.
  Proof.
    unfold Pull.commit_layer. destruct (blob_get (p_parts c) (l_d l)) as [f|]; [|intros Hx; inversion Hx; reflexivity].
    destruct ((length f =? l_size l) && deq (H f) (l_d l)); intros Hx; inversion Hx; reflexivity.
  Qed.

  Lemma commits_links ls : forall i c dcs failed, p_links (fst (commits i c ls dcs failed)) = p_links c.
  Proof.
    induction ls as [|l ls IH]; intros i c dcs failed; cbn; [reflexivity|].
    destruct dcs as [|dc dcs]; [reflexivity|].
    destruct (ld_cached dc || ld_preval dc || false || existsb (Nat.eqb i) failed) eqn:Eskip.
    - specialize (IH (S i) c dcs failed). destruct (commits (S i) c ls dcs failed) as [c2 es]. exact IH.
    - destruct (commit_layer c l) as [c1 [e|]] eqn:Ec.
      + apply commit_layer_err in Ec. subst c1. specialize (IH (S i) c dcs failed).
        destruct (commits (S i) c ls dcs failed) as [c2 es]. exact IH.
      + apply commit_layer_ok in Ec as [Hl _]. specialize (IH (S i) c1 dcs failed).
        destruct (commits (S i) c1 ls dcs failed) as [c2 es]. cbn in *. congruence.
  Qed.

  Lemma commits_LInv ls : forall i c dcs failed, LInv (p_blobs c) -> LInv (p_blobs (fst (commits i c ls dcs failed))).
  Proof.
    induction ls as [|l ls IH]; intros i c dcs failed HL; cbn; [exact HL|].
    destruct dcs as [|dc dcs]; [exact HL|].
    destruct (ld_cached dc || ld_preval dc || false || existsb (Nat.eqb i) failed) eqn:Eskip.
    - specialize (IH (S i) c dcs failed HL). destruct (commits (S i) c ls dcs failed) as [c2 es]. exact IH.
    - destruct (commit_layer c l) as [c1 [e|]] eqn:Ec.
      + apply commit_layer_err in Ec. subst c1. specialize (IH (S i) c dcs failed HL).
        destruct (commits (S i) c ls dcs failed) as [c2 es]. exact IH.
      + apply commit_layer_ok in Ec as [_ (f & Hb & Hlen & Hh)].
        assert (HL1 : LInv (p_blobs c1)) by (rewrite Hb; apply LInv_blob_put; assumption).
        specialize (IH (S i) c1 dcs failed HL1). destruct (commits (S i) c1 ls dcs failed) as [c2 es]. exact IH.
  Qed.

  (** sizes of equal digests agree within the manifest *)
  Definition consistent (ls : list layer) : Prop :=
    forall l l', In l ls -> In l' ls -> l_d l = l_d l' -> l_size l = l_size l'.

  (** if no commit failed: every layer that was to be committed is Good afterwards, and Good layers stay Good *)
  Lemma commits_good all ls : forall i c dcs failed c',
    consistent all -> (forall l, In l ls -> In l all) ->
    commits i c ls dcs failed = (c', []) ->
    (forall l, In l all -> Good l (p_blobs c) -> Good l (p_blobs c')) /\
    (forall k l dc, nth_error ls k = Some l -> nth_error dcs k = Some dc ->
        ld_cached dc = false -> ld_preval dc = false -> existsb (Nat.eqb (i + k)) failed = false ->
        Good l (p_blobs c')).
  Proof.
    induction ls as [|l0 ls IH]; intros i c dcs failed c' Hcons Hsub Hc.
    - cbn in Hc. inversion Hc; subst. split; [auto|]. intros k l dc Hl. destruct k; discriminate.
    - destruct dcs as [|dc0 dcs].
      + cbn in Hc. inversion Hc; subst. split; [auto|]. intros k l dc _ Hd. destruct k; discriminate.
      + cbn in Hc.
        destruct (ld_cached dc0 || ld_preval dc0 || false || existsb (Nat.eqb i) failed) eqn:Eskip.
        * destruct (commits (S i) c ls dcs failed) as [c2 es] eqn:E2. inversion Hc; subst.
          destruct (IH (S i) c dcs failed c' Hcons (fun l Hl => Hsub l (or_intror Hl)) E2) as [Hkeep Hnew].
          split; [exact Hkeep|]. intros k l dc Hl Hd Hnc Hnp Hnf. destruct k as [|k]; cbn in Hl, Hd.
          -- inversion Hl; inversion Hd; subst. rewrite Hnc, Hnp in Eskip. cbn in Eskip.
             rewrite Nat.add_0_r in Hnf. rewrite Hnf in Eskip. discriminate.
          -- apply (Hnew k l dc Hl Hd Hnc Hnp). rewrite <- Hnf. f_equal. f_equal. lia.
        * destruct (commit_layer c l0) as [c1 [e|]] eqn:Ec.
          -- destruct (commits (S i) c1 ls dcs failed) as [c2 es]. discriminate.
          -- destruct (commits (S i) c1 ls dcs failed) as [c2 es] eqn:E2. inversion Hc; subst.
             apply commit_layer_ok in Ec as [_ (f & Hb & Hlen & Hh)].
             destruct (IH (S i) c1 dcs failed c' Hcons (fun l Hl => Hsub l (or_intror Hl)) E2) as [Hkeep Hnew].
             assert (Hstep : forall l, In l all -> Good l (p_blobs c) -> Good l (p_blobs c1)).
             { intros l Hin HG. rewrite Hb. apply Good_blob_put; [|exact HG].
               intros Heq. split; [|congruence].
               rewrite Hlen. apply Hcons; [apply Hsub; left; reflexivity | exact Hin | exact Heq]. }
             split; [intros l Hin HG; apply Hkeep; auto|].
             intros k l dc Hl Hd Hnc Hnp Hnf. destruct k as [|k]; cbn in Hl, Hd.
             ++ inversion Hl; subst l. apply Hkeep; [apply Hsub; left; reflexivity|].
                rewrite Hb. exists f. rewrite blob_get_put', deq_refl'. auto.
             ++ apply (Hnew k l dc Hl Hd Hnc Hnp). rewrite <- Hnf. f_equal. f_equal. lia.
  Qed.

  (** ** one attempt as a whole *)
  Lemma do_link_blobs (fl : bool) (c : cache D) p d :
    blobs (fst (do_link D deq H bufsz fl c p d)) = blobs c.
  Proof.
    unfold do_link. destruct (Model.blob_get D deq (blobs c) d) as [bf|]; [|reflexivity].
    destruct (copy_named_file D deq H _ d (length bf) (file_reads bufsz bf) None) as [fo st]. reflexivity.
  Qed.

  Lemma In_nth_error' {A} (l : list A) x : In x l -> exists k, nth_error l k = Some x.
  Proof. apply In_nth_error. Qed.

  Lemma nth_error_same_length {A B} (l : list A) (m : list B) k x :
    length l = length m -> nth_error l k = Some x -> exists y, nth_error m k = Some y.
  Proof.
    intros Hlen Hn. destruct (nth_error m k) as [y|] eqn:E; [eauto|].
    apply nth_error_None in E. assert (k < length l) by (apply nth_error_Some; congruence). lia.
  Qed.

  Theorem attempt_fail_links thr np c a es :
    snd (fst (pull_attempt thr np c a)) = PErr es -> p_links (fst (fst (pull_attempt thr np c a))) = p_links c.
  Proof.
    unfold Pull.pull_attempt. destruct (a_manifest a) as [e | ls data]; [reflexivity|].
    destruct ls as [|l0 ls']; [reflexivity|]. set (ls := l0 :: ls').
    pose proof (list_layers_frame thr ls c (a_env a)) as [_ Hl1].
    destruct (list_layers thr c ls (a_env a)) as [c1 dcs]. cbn [fst] in Hl1.
    pose proof (run_jobs_links ls dcs (schedule (a_order a) dcs) (c1, [], [])) as Hl2.
    destruct (fold_left (run_jobs_step ls dcs) (schedule (a_order a) dcs) (c1, [], [])) as [[c2 failed] errs].
    cbn [fst] in Hl2.
    pose proof (commits_links ls 0 c2 dcs failed) as Hl3.
    destruct (commits 0 c2 ls dcs failed) as [c3 cerrs]. cbn [fst] in Hl3.
    destruct (errs ++ cerrs) as [|e0 es0]; [|cbn; congruence].
    destruct (negb (sum_bytes dcs =? sum_sizes ls)); [cbn; congruence|].
    destruct (do_link D deq H bufsz fixed_link _ np (H data)) as [cl o]. cbn. discriminate.
  Qed.

  Theorem attempt_LInv thr np c a :
    LInv (p_blobs c) -> LInv (p_blobs (fst (fst (pull_attempt thr np c a)))).
  Proof.
    intros HL. unfold Pull.pull_attempt. destruct (a_manifest a) as [e | ls data]; [exact HL|].
    destruct ls as [|l0 ls']; [exact HL|]. set (ls := l0 :: ls').
    pose proof (list_layers_frame thr ls c (a_env a)) as [Hb1 _].
    destruct (list_layers thr c ls (a_env a)) as [c1 dcs]. cbn [fst] in Hb1.
    assert (HL1 : LInv (p_blobs c1)) by (rewrite Hb1; exact HL).
    pose proof (run_jobs_inv LInv (fun bs ld cd s n HP => put_bytes_LInv bs _ HP) ls dcs (schedule (a_order a) dcs) (c1, [], []) HL1) as HL2.
    destruct (fold_left (run_jobs_step ls dcs) (schedule (a_order a) dcs) (c1, [], [])) as [[c2 failed] errs].
    cbn [fst] in HL2.
    pose proof (commits_LInv ls 0 c2 dcs failed HL2) as HL3.
    destruct (commits 0 c2 ls dcs failed) as [c3 cerrs]. cbn [fst] in HL3.
    destruct (errs ++ cerrs) as [|e0 es0]; [|exact HL3].
    destruct (negb (sum_bytes dcs =? sum_sizes ls)); [exact HL3|].
    pose proof (do_link_blobs fixed_link (mkC (put_bytes (p_blobs c3) data) (p_links c3)) np (H data)) as Hdl.
    destruct (do_link D deq H bufsz fixed_link _ np (H data)) as [cl o]. cbn [fst] in Hdl. cbn. rewrite Hdl. cbn.
    apply put_bytes_LInv. exact HL3.
  Qed.

  (** success => every layer of the manifest is in the cache with the manifest's size and digest *)
  Theorem attempt_success thr np c a ls data :
    a_manifest a = MOk ls data ->
    snd (fst (pull_attempt thr np c a)) = POk ->
    LInv (p_blobs c) ->
    (forall l, In l ls -> l_size l = sz (l_d l)) ->
    (forall l, In l ls -> H data <> l_d l) ->
    (forall l ld cd s n, In l ls -> H (mkey ld cd s n) <> l_d l) ->
    forall l, In l ls -> 0 < l_size l -> Good l (p_blobs (fst (fst (pull_attempt thr np c a)))).
  Proof.
    intros Hm Hok HL Hsz Hsep1 Hsep2 l Hin Hpos. unfold Pull.pull_attempt in *. rewrite Hm in *.
    destruct ls as [|l0 ls']; [destruct Hin|]. set (ls := l0 :: ls') in *.
    assert (Hcons : consistent ls).
    { intros x y Hx Hy Heq. rewrite (Hsz x Hx), (Hsz y Hy), Heq. reflexivity. }
    pose proof (list_layers_frame thr ls c (a_env a)) as [Hb1 _].
    pose proof (list_layers_length thr ls c (a_env a)) as Hlen.
    pose proof (list_layers_nth thr ls c (a_env a)) as Hnth.
    destruct (list_layers thr c ls (a_env a)) as [c1 dcs]. cbn [fst snd] in *.
    pose proof (run_jobs_inv (Good l) (fun bs ld cd s n HP => Good_put_bytes l bs _ (Hsep2 l ld cd s n Hin) HP)
                  ls dcs (schedule (a_order a) dcs) (c1, [], [])) as HG2.
    pose proof (run_jobs_failed ls dcs (schedule (a_order a) dcs) (c1, [], []) eq_refl) as Hfl.
    destruct (fold_left (run_jobs_step ls dcs) (schedule (a_order a) dcs) (c1, [], [])) as [[c2 failed] errs].
    cbn [fst snd] in *.
    pose proof (commits_good ls ls 0 c2 dcs failed) as HC.
    destruct (commits 0 c2 ls dcs failed) as [c3 cerrs].
    destruct (errs ++ cerrs) as [|e0 es0] eqn:Ees; [|discriminate].
    apply app_eq_nil in Ees as [-> ->]. destruct failed; [|discriminate].
    destruct (HC c3 Hcons (fun x Hx => Hx) eq_refl) as [Hkeep Hnew].
    destruct (negb (sum_bytes dcs =? sum_sizes ls)); [discriminate|].
    pose proof (do_link_blobs fixed_link (mkC (put_bytes (p_blobs c3) data) (p_links c3)) np (H data)) as Hdl.
    destruct (do_link D deq H bufsz fixed_link _ np (H data)) as [cl o]. cbn [fst] in Hdl. cbn [fst snd p_blobs].
    rewrite Hdl. cbn [blobs]. apply Good_put_bytes; [apply Hsep1; exact Hin|].
    destruct (In_nth_error' ls l Hin) as [k Hk].
    destruct (nth_error_same_length ls dcs k l (eq_sym Hlen) Hk) as [dc Hdc].
    destruct (Hnth k l dc Hk Hdc) as [Hcached Hpreval].
    destruct (ld_cached dc) eqn:Ec.
    - destruct (Hcached eq_refl) as (f & Hg & Hlf & Hposf).
      apply Hkeep; [exact Hin|]. apply HG2. rewrite Hb1. exists f. split; [exact Hg|]. split; [exact Hlf|].
      apply HL; [exact Hg | rewrite Hlf; apply Hsz; exact Hin | rewrite <- (Hsz l Hin); exact Hpos].
    - destruct (ld_preval dc) eqn:Ep; [specialize (Hpreval eq_refl eq_refl); lia|].
      apply (Hnew k l dc Hk Hdc Ec Ep). reflexivity.
  Qed.

  (** ** any number of earlier attempts *)
  Definition pull_seq thr np (c : pcache) (atts : list (attempt D)) : pcache :=
    fold_left (fun c a => fst (fst (pull_attempt thr np c a))) atts c.

  Lemma pull_seq_LInv thr np atts : forall c, LInv (p_blobs c) -> LInv (p_blobs (pull_seq thr np c atts)).
  Proof.
    unfold pull_seq. induction atts as [|a atts IH]; intros c HL; cbn; [exact HL|]. apply IH. apply attempt_LInv. exact HL.
  Qed.

  Theorem success_after_attempts thr np c0 earlier a ls data :
    LInv (p_blobs c0) ->
    a_manifest a = MOk ls data ->
    let c := pull_seq thr np c0 earlier in
    snd (fst (pull_attempt thr np c a)) = POk ->
    (forall l, In l ls -> l_size l = sz (l_d l)) ->
    (forall l, In l ls -> H data <> l_d l) ->
    (forall l ld cd s n, In l ls -> H (mkey ld cd s n) <> l_d l) ->
    forall l, In l ls -> 0 < l_size l -> Good l (p_blobs (fst (fst (pull_attempt thr np c a)))).
  Proof.
    intros HL Hm c Hok. apply (attempt_success thr np c a ls data Hm Hok). apply pull_seq_LInv. exact HL.
  Qed.

  Theorem attempt_link_only_ok thr np c a :
    p_links (fst (fst (pull_attempt thr np c a))) <> p_links c -> snd (fst (pull_attempt thr np c a)) = POk.
  Proof.
    intros Hne. destruct (snd (fst (pull_attempt thr np c a))) as [|es] eqn:E; [reflexivity|].
    exfalso. apply Hne. eapply attempt_fail_links. exact E.
  Qed.

  (** ** the retry loop of handlePull *)
  Notation pull_loop := (pull_loop D deq H mkey bufsz true fixed_link).

  Lemma pull_loop_LInv thr np atts : forall c, LInv (p_blobs c) -> LInv (p_blobs (fst (pull_loop thr np c atts))).
  Proof.
    induction atts as [|[a seen] atts IH]; intros c HL; cbn; [exact HL|].
    pose proof (attempt_LInv thr np c a HL) as HL1.
    destruct (pull_attempt thr np c a) as [[c' r] n]. cbn [fst] in HL1.
    destruct r; [exact HL1|]. destruct (retryable seen); [|exact HL1].
    specialize (IH c' HL1). destruct (pull_loop thr np c' atts) as [c'' rs]. exact IH.
  Qed.

  (** the links change only in an attempt that succeeds, and that attempt is the last one *)
  Lemma pull_loop_links thr np atts : forall c,
    Forall (fun r => r <> POk) (snd (pull_loop thr np c atts)) ->
    p_links (fst (pull_loop thr np c atts)) = p_links c.
  Proof.
    induction atts as [|[a seen] atts IH]; intros c Hall; cbn in *; [reflexivity|].
    pose proof (attempt_fail_links thr np c a) as Hf.
    destruct (pull_attempt thr np c a) as [[c' r] n]. cbn [fst snd] in *.
    destruct r as [|es].
    - inversion Hall; subst. congruence.
    - specialize (Hf es eq_refl). destruct (retryable seen); [|exact Hf].
      specialize (IH c'). destruct (pull_loop thr np c' atts) as [c'' rs]. cbn [fst snd] in *.
      inversion Hall; subst. rewrite IH by assumption. exact Hf.
  Qed.

End PullProofs.
