(** C08 — Put/Link/Resolve theorems over the cache model. *)
From Coq Require Import List NArith Bool Arith Lia.
From V Require Import Common.Bytes Blob.Model Blob.Proofs Blob.ProofsHist.
Import ListNotations.

(** * paths and case folding *)
Lemma path_eqb_spec p q : path_eqb p q = true <-> p = q.
Proof.
  revert q. induction p as [|a p IH]; intros [|b q]; cbn; split; intro Hx; try congruence; try reflexivity.
  - apply andb_true_iff in Hx as [H1 H2]. apply eqb_str_spec in H1. apply IH in H2. congruence.
  - inversion Hx; subst. apply andb_true_iff. split; [apply eqb_str_spec; reflexivity | apply IH; reflexivity].
Qed.

Lemma path_eqb_refl p : path_eqb p p = true.
Proof. apply path_eqb_spec. reflexivity. Qed.

Lemma fold_eq_spec p q : fold_eq p q = true <-> map (map lower) p = map (map lower) q.
Proof.
  revert q. induction p as [|a p IH]; intros [|b q]; cbn; split; intro Hx; try congruence; try reflexivity.
  - apply andb_true_iff in Hx as [H1 H2]. unfold fold_eq_str in H1. apply eqb_str_spec in H1. apply IH in H2. congruence.
  - inversion Hx as [[H1 H2]]. apply andb_true_iff. split; [unfold fold_eq_str; apply eqb_str_spec; exact H1 | apply IH; exact H2].
Qed.

Lemma fold_eq_refl p : fold_eq p p = true.
Proof. apply fold_eq_spec. reflexivity. Qed.

Lemma fold_eq_cong p p' q : fold_eq p' p = true -> fold_eq q p' = fold_eq q p.
Proof.
  intros Hpp. apply fold_eq_spec in Hpp.
  destruct (fold_eq q p') eqn:E1, (fold_eq q p) eqn:E2; try reflexivity.
  - apply fold_eq_spec in E1. assert (fold_eq q p = true) by (apply fold_eq_spec; congruence). congruence.
  - apply fold_eq_spec in E2. assert (fold_eq q p' = true) by (apply fold_eq_spec; congruence). congruence.
Qed.

(** * manifestPath *)
Lemma aux_cong ls p p' : fold_eq p' p = true ->
  forall best, manifest_path_aux ls p' best = manifest_path_aux ls p best.
Proof.
  intros Hpp. induction ls as [|[q f] ls IH]; intros best; cbn; [reflexivity|].
  rewrite (fold_eq_cong p p' q Hpp). apply IH.
Qed.

Lemma aux_best_some ls p : forall b, exists q, manifest_path_aux ls p (Some b) = Some q.
Proof.
  induction ls as [|[q f] ls IH]; intros b; cbn; [eauto|].
  destruct (fold_eq q p); [|apply IH]. destruct (path_ltb q b); apply IH.
Qed.

Lemma aux_none ls p : manifest_path_aux ls p None = None -> forall q f, In (q, f) ls -> fold_eq q p = false.
Proof.
  induction ls as [|[q0 f0] ls IH]; cbn; intros Hn q f Hin; [contradiction|].
  destruct (fold_eq q0 p) eqn:E.
  - destruct (aux_best_some ls p q0) as [x Hx]. congruence.
  - destruct Hin as [Heq | Hin]; [inversion Heq; subst; exact E | eapply IH; eauto].
Qed.

Lemma link_get_in ls k : link_get ls k <> None <-> exists f, In (k, f) ls.
Proof.
  induction ls as [|[q f] ls IH]; cbn.
  - split; [congruence | intros [f []]].
  - destruct (path_eqb q k) eqn:E.
    + apply path_eqb_spec in E. subst q. split; [intros _; eauto | congruence].
    + rewrite IH. split.
      * intros [f' Hf']. eauto.
      * intros [f' [Heq | Hin]]; [inversion Heq; subst; rewrite path_eqb_refl in E; discriminate | eauto].
Qed.

(** the result, when some candidate exists, is one of the keys *)
Lemma aux_in ls p : forall best q,
  manifest_path_aux ls p best = Some q -> best = Some q \/ (exists f, In (q, f) ls).
Proof.
  induction ls as [|[q0 f0] ls IH]; cbn; intros best q Hq; [left; exact Hq|].
  destruct (fold_eq q0 p).
  - destruct best as [b|].
    + destruct (path_ltb q0 b).
      * apply IH in Hq as [Hq | [f Hf]]; [inversion Hq; subst; right; eauto | right; eauto].
      * apply IH in Hq as [Hq | [f Hf]]; [left; exact Hq | right; eauto].
    + apply IH in Hq as [Hq | [f Hf]]; [inversion Hq; subst; right; eauto | right; eauto].
  - apply IH in Hq as [Hq | [f Hf]]; [left; exact Hq | right; eauto].
Qed.

(** replacing the content of an existing key changes neither the keys nor their order *)
Lemma aux_put_same ls k f p : link_get ls k <> None ->
  forall best, manifest_path_aux (link_put ls k f) p best = manifest_path_aux ls p best.
Proof.
  induction ls as [|[q f0] ls IH]; cbn; intros Hk best; [congruence|].
  destruct (path_eqb q k) eqn:E; cbn; [reflexivity|]. rewrite IH by exact Hk. reflexivity.
Qed.

Lemma link_put_new ls k f : link_get ls k = None -> link_put ls k f = ls ++ [(k, f)].
Proof.
  induction ls as [|[q f0] ls IH]; cbn; intros Hk; [reflexivity|].
  destruct (path_eqb q k); [discriminate|]. rewrite IH by exact Hk. reflexivity.
Qed.

Lemma aux_app ls ls' p : forall best,
  manifest_path_aux (ls ++ ls') p best = manifest_path_aux ls' p (manifest_path_aux ls p best).
Proof.
  induction ls as [|[q f] ls IH]; intros best; cbn; [reflexivity|]. apply IH.
Qed.

Lemma link_get_put_same ls k f : link_get (link_put ls k f) k = Some f.
Proof.
  induction ls as [|[q f0] ls IH]; cbn.
  - rewrite path_eqb_refl. reflexivity.
  - destruct (path_eqb q k) eqn:E; cbn; rewrite E; [reflexivity | exact IH].
Qed.

(** after writing the manifest file found by [manifest_path], every case variant of the name finds that file *)
Lemma manifest_path_after_put ls p p' f :
  fold_eq p' p = true ->
  manifest_path (link_put ls (manifest_path ls p) f) p' = manifest_path ls p.
Proof.
  intros Hpp. unfold manifest_path at 1. rewrite (aux_cong _ p p' Hpp).
  unfold manifest_path. destruct (manifest_path_aux ls p None) as [q|] eqn:E.
  - destruct (aux_in ls p None q E) as [Hx | [f0 Hin]]; [discriminate|].
    rewrite aux_put_same by (apply link_get_in; eauto). rewrite E. reflexivity.
  - assert (Hnk : link_get ls p = None).
    { destruct (link_get ls p) eqn:G; [|reflexivity].
      assert (Hk : link_get ls p <> None) by congruence. apply link_get_in in Hk as [f0 Hin].
      pose proof (aux_none ls p E p f0 Hin) as Hf. rewrite fold_eq_refl in Hf. discriminate. }
    rewrite link_put_new by exact Hnk. rewrite aux_app, E. cbn. rewrite fold_eq_refl. reflexivity.
Qed.

Section Link.
  Variable D : Type.
  Variable deq : D -> D -> bool.
  Variable H : list N -> D.
  Hypothesis deq_spec : forall a b, deq a b = true <-> a = b.
  Variable bufsz : nat.

  Notation copy_named_file := (copy_named_file D deq H).
  Notation Inv := (Inv D H).
  Notation cache := (cache D).

  Lemma out_of_stage_ok st : out_of_stage D st = OutOk -> st = WDone ROk.
  Proof. destruct st as [| |[|e]|]; cbn; congruence. Qed.

  (** "a successful store makes the blob retrievable" (with the right content, given the store invariant) *)
  Theorem put_then_get fixed sz c d size src cr c' :
    BInv D deq H sz c -> size = sz d -> 0 < size ->
    step D deq H bufsz fixed c (OPut d size src cr) = (c', OutOk) ->
    get D deq c' d = Some size /\
    exists f, blob_get D deq (blobs c') d = Some f /\ length f = size /\ H f = d.
  Proof.
    intros HB Hsz Hpos Hstep. unfold Model.step in Hstep.
    destruct (copy_named_file (blob_get D deq (blobs c) d) d size src cr) as [fo st] eqn:E.
    inversion Hstep as [[Hc Hout]]. apply out_of_stage_ok in Hout. subst st.
    assert (HI : Inv d size (blob_get D deq (blobs c) d)).
    { intros f Hf Hl _. apply (HB d f); [exact Hf | congruence | congruence]. }
    pose proof (copy_named_file_ok D deq H deq_spec _ d size src cr HI) as Hok.
    rewrite E in Hok. cbn [fst snd] in Hok. destruct (Hok eq_refl Hpos) as (f & Hfo & Hl & Hcase). subst fo.
    assert (Hg : blob_get D deq (blob_set D deq (blobs c) d (Some f)) d = Some f).
    { apply (blob_get_set_same D deq deq_spec). discriminate. }
    assert (Hh : H f = d).
    { destruct Hcase as [Hh | Heq]; [exact Hh|]. apply HI; [symmetry; exact Heq | exact Hl | exact Hpos]. }
    split.
    - unfold get. cbn [blobs]. rewrite Hg. destruct (length f =? 0) eqn:E0; [apply Nat.eqb_eq in E0; lia | congruence].
    - exists f. cbn [blobs]. auto.
  Qed.

  (** "a name is linked only to a manifest blob that exists": Link succeeds only if the blob file exists *)
  Theorem link_requires_blob fixed c p d c' :
    step D deq H bufsz fixed c (OLink (Some p) d) = (c', OutOk) ->
    exists bf, blob_get D deq (blobs c) d = Some bf.
  Proof.
    unfold Model.step, do_link. destruct (blob_get D deq (blobs c) d) as [bf|]; [eauto|].
    intros Hx. inversion Hx.
  Qed.

  (** "resolving a name returns the digest of exactly the bytes linked" (Link as repaired) *)
  Theorem link_then_resolve c p p' d c' bf :
    fold_eq p' p = true ->
    blob_get D deq (blobs c) d = Some bf -> 0 < length bf ->
    step D deq H bufsz true c (OLink (Some p) d) = (c', OutOk) ->
    snd (step D deq H bufsz true c' (OResolve (Some p'))) = OutDigest d /\
    exists m, link_get (links c') (manifest_path (links c') p') = Some m /\ H m = d /\ length m = length bf.
  Proof.
    intros Hpp Hbf Hpos Hstep. unfold Model.step, do_link in Hstep. rewrite Hbf in Hstep.
    set (mp := manifest_path (links c) p) in *.
    set (cur := match link_get (links c) mp with
                | Some m => if (true && negb (deq (H (firstn (length bf + 1) m)) d))%bool then None else Some m
                | None => None end) in *.
    destruct (copy_named_file cur d (length bf) (file_reads bufsz bf) None) as [fo st] eqn:E.
    inversion Hstep as [[Hc Hout]]. apply out_of_stage_ok in Hout. subst st.
    assert (HI : Inv d (length bf) cur).
    { intros m Hm Hl _. unfold cur in Hm. destruct (link_get (links c) mp) as [m0|]; [|discriminate].
      cbn [andb] in Hm. destruct (deq (H (firstn (length bf + 1) m0)) d) eqn:Ed; cbn in Hm; [|discriminate].
      inversion Hm; subst m0. apply deq_spec in Ed. rewrite firstn_all2 in Ed by lia. exact Ed. }
    pose proof (copy_named_file_ok D deq H deq_spec _ d (length bf) (file_reads bufsz bf) None HI) as Hok.
    rewrite E in Hok. cbn [fst snd] in Hok. destruct (Hok eq_refl Hpos) as (f & Hfo & Hl & Hcase). subst fo.
    assert (Hh : H f = d).
    { destruct Hcase as [Hh | Heq]; [exact Hh|]. apply HI; [symmetry; exact Heq | exact Hl | exact Hpos]. }
    cbn [link_set links] in *.
    assert (Hmp : manifest_path (link_put (links c) mp f) p' = mp) by (apply manifest_path_after_put; exact Hpp).
    assert (Hget : link_get (link_put (links c) mp f) mp = Some f) by apply link_get_put_same.
    split.
    - unfold Model.step. cbn [links blobs]. rewrite Hmp, Hget. cbv zeta.
      match goal with
      | |- context [Model.copy_named_file D deq H ?a ?b ?n ?sr None] =>
          pose proof (resolve_put D deq H deq_spec a f sr eq_refl) as [_ Hst];
          destruct (Model.copy_named_file D deq H a b n sr None) as [fo2 st2]
      end.
      cbn [snd] in Hst. subst st2. cbn [snd]. rewrite Hh. reflexivity.
    - exists f. cbn [links]. rewrite Hmp, Hget. auto.
  Qed.

  Theorem link_requires_present_partial fixed (c : cache) p d c' :
    step D deq H bufsz fixed c (OLink (Some p) d) = (c', OutOk) ->
    (forall bf, blob_get D deq (blobs c) d = Some bf -> 0 < length bf) ->
    get D deq c d <> None.
  Proof.
    intros Hstep Hne.
    destruct (link_requires_blob fixed c p d c' Hstep) as [bf Hbf].
    unfold get. rewrite Hbf. specialize (Hne bf Hbf).
    destruct (length bf =? 0) eqn:E; [apply Nat.eqb_eq in E; lia | discriminate].
  Qed.

End Link.

Lemma surjective_pairing_ok {A B} (x : A * B) (b : B) : snd x = b -> x = (fst x, b).
Proof. intros <-. apply surjective_pairing. Qed.
