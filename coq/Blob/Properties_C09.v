(** C09 — "registry client: success means every layer verified; manifest committed last": exported theorems.
    Reading of every statement: notes/C09.md.  Model: Blob/Pull.v (tied to the code by props/c09.py).

    The registry is universally quantified: [a : attempt D] carries an arbitrary manifest response, for every layer an
    arbitrary chunk plan (any items, any order, cut short or not) and for every request an arbitrary response (error
    status, or body pieces that may be short, long, corrupted, followed by a read error), plus an arbitrary completion
    order of the downloads.  [pull_seq] runs any list of earlier attempts.  The third argument [true] of
    [pull_attempt] selects Chunker/Pull as repaired by fixes/C09-chunked-commit.patch. *)
From Coq Require Import List NArith Bool Arith Lia.
From V Require Import Common.Bytes Blob.Model Blob.Proofs Blob.ProofsHist Blob.Corr Blob.Pull Blob.PullProofs Blob.PullCorr Blob.PullWitness.
Import ListNotations.

(** ** success => every layer is in the cache with the manifest's size and digest, after any earlier attempts *)
Theorem C09_pull_success_layers_intact :
  forall (D : Type) (deq : D -> D -> bool) (H : list N -> D),
    (forall a b, deq a b = true <-> a = b) ->
    forall (mkey : D -> D -> nat -> nat -> list N) (bufsz : nat) (fixed_link : bool) (sz : D -> nat)
           (thr : nat) (np : path) (c0 : pcache D) (earlier : list (attempt D)) (a : attempt D)
           (ls : list (layer D)) (data : list N),
      LInv D deq H sz (p_blobs c0) ->
      a_manifest a = MOk ls data ->
      let c := pull_seq D deq H mkey bufsz fixed_link thr np c0 earlier in
      snd (fst (pull_attempt D deq H mkey bufsz true fixed_link thr np c a)) = POk ->
      (forall l, In l ls -> l_size l = sz (l_d l)) ->
      (forall l, In l ls -> H data <> l_d l) ->
      (forall l ld cd s n, In l ls -> H (mkey ld cd s n) <> l_d l) ->
      forall l, In l ls -> 0 < l_size l ->
        Good D deq H l (p_blobs (fst (fst (pull_attempt D deq H mkey bufsz true fixed_link thr np c a)))).
Proof. intros D deq H Hs mkey bufsz fl sz. exact (success_after_attempts D deq H Hs mkey bufsz fl sz). Qed.
Print Assumptions C09_pull_success_layers_intact.

(** the invariant the theorem starts from is re-established by every attempt, successful or not *)
Theorem C09_attempt_preserves_store_invariant :
  forall (D : Type) (deq : D -> D -> bool) (H : list N -> D),
    (forall a b, deq a b = true <-> a = b) ->
    forall mkey bufsz fixed_link (sz : D -> nat) thr np (c : pcache D) (a : attempt D),
      LInv D deq H sz (p_blobs c) ->
      LInv D deq H sz (p_blobs (fst (fst (pull_attempt D deq H mkey bufsz true fixed_link thr np c a)))).
Proof. intros D deq H Hs mkey bufsz fl sz thr np c a. apply attempt_LInv. exact Hs. Qed.
Print Assumptions C09_attempt_preserves_store_invariant.

(** non-vacuity: the repaired model on the witness environment of the defect (attempt 1 fails after the chunk holding
    the last byte arrived; attempt 2 succeeds after fetching exactly the missing chunk) *)
Example C09_pull_success_ex :
  LInv Dg eqb_str Hid (@length N) (p_blobs w_empty) /\
  snd (fst (cpull_attempt true true 4 w_np (w_after1 true) (w_att (CBody [[97;98;99]%N] None)))) = POk /\
  snd (cpull_attempt true true 4 w_np (w_after1 true) (w_att (CBody [[97;98;99]%N] None))) = (1, 1).
Proof. split; [intros d f Hg; discriminate | vm_compute; split; reflexivity]. Qed.

(** ** a failed attempt never changes the links *)
Theorem C09_failed_pull_no_link :
  forall (D : Type) (deq : D -> D -> bool) (H : list N -> D),
    (forall a b, deq a b = true <-> a = b) ->
    forall mkey bufsz fixed_link thr np (c : pcache D) (a : attempt D) es,
    snd (fst (pull_attempt D deq H mkey bufsz true fixed_link thr np c a)) = PErr es ->
    p_links (fst (fst (pull_attempt D deq H mkey bufsz true fixed_link thr np c a))) = p_links c.
Proof. intros D deq H Hs mkey bufsz fl thr np c a es. apply attempt_fail_links. exact Hs. Qed.
Print Assumptions C09_failed_pull_no_link.

(** ** the name is linked only by an attempt that succeeds (hence, by the first theorem, only together with intact layers) *)
Theorem C09_link_after_layers :
  forall (D : Type) (deq : D -> D -> bool) (H : list N -> D),
    (forall a b, deq a b = true <-> a = b) ->
    forall mkey bufsz fixed_link thr np (c : pcache D) (a : attempt D),
    p_links (fst (fst (pull_attempt D deq H mkey bufsz true fixed_link thr np c a))) <> p_links c ->
    snd (fst (pull_attempt D deq H mkey bufsz true fixed_link thr np c a)) = POk.
Proof. intros D deq H Hs mkey bufsz fl thr np c a. apply attempt_link_only_ok. exact Hs. Qed.
Print Assumptions C09_link_after_layers.

(** ** the retry loop of handlePull: store invariant kept; links untouched unless an attempt succeeded *)
Theorem C09_retry_loop :
  forall (D : Type) (deq : D -> D -> bool) (H : list N -> D),
    (forall a b, deq a b = true <-> a = b) ->
    forall mkey bufsz fixed_link (sz : D -> nat) thr np (c : pcache D) (atts : list (attempt D * perr)),
      (LInv D deq H sz (p_blobs c) ->
       LInv D deq H sz (p_blobs (fst (pull_loop D deq H mkey bufsz true fixed_link thr np c atts)))) /\
      (Forall (fun r => r <> POk) (snd (pull_loop D deq H mkey bufsz true fixed_link thr np c atts)) ->
       p_links (fst (pull_loop D deq H mkey bufsz true fixed_link thr np c atts)) = p_links c).
Proof.
  intros D deq H Hs mkey bufsz fl sz thr np c atts.
  split; [apply pull_loop_LInv; exact Hs | apply pull_loop_links; exact Hs].
Qed.
Print Assumptions C09_retry_loop.

(** ** the code as found does not have the property: the witness the harness replays on the real client *)
Definition C09_unrepaired_full : Prop :=
  forall (c0 : cpcache) (earlier : list cattempt) (a : cattempt) ls data,
    a_manifest a = MOk ls data ->
    let c := fold_left (fun c a => fst (fst (cpull_attempt false true 4 w_np c a))) earlier c0 in
    snd (fst (cpull_attempt false true 4 w_np c a)) = POk ->
    forall l, In l ls -> 0 < l_size l ->
      Good Dg eqb_str Hid l (p_blobs (fst (fst (cpull_attempt false true 4 w_np c a)))).

Theorem C09_unrepaired_refuted : ~ C09_unrepaired_full.
Proof. exact unrepaired_refuted. Qed.
Print Assumptions C09_unrepaired_refuted.

(** ** push: the manifest PUT exists only in traces where every layer upload was accepted, and it is the last event.
    [push_new]: Registry.Push (uploads in an errgroup, any completion order); [push_legacy]: server.PushModel. *)
Theorem C09_push_manifest_last :
  (forall results : list (nat * bool),
      In EvManifest (push_new results) ->
      forallb snd results = true /\
      exists pre, push_new results = pre ++ [EvManifest] /\ ~ In EvManifest pre /\
                  pre = map (fun '(i, ok) => EvBlob i ok) results) /\
  (forall (results : list bool) (i : nat),
      In EvManifest (push_legacy i results) ->
      forallb (fun b => b) results = true /\
      exists pre, push_legacy i results = pre ++ [EvManifest] /\ ~ In EvManifest pre /\ length pre = length results).
Proof. split; [exact push_new_manifest_last | exact push_legacy_manifest_last]. Qed.
Print Assumptions C09_push_manifest_last.
