(** BPE: the merge loop preserves the text and keeps every piece in the vocabulary; Decode (Encode s) = s;
    ids lie in the vocabulary. *)
From Coq Require Import List NArith ZArith Bool Arith Lia.
From V Require Import Common.Bytes Tok.Utf8 Tok.ByteMap Tok.ByteMapProofs Tok.Heap Tok.HeapProofs Tok.Vocab
     Tok.Special Tok.SpecialProofs Tok.Bpe Tok.MergeProofs.
Import ListNotations.
Open Scope Z_scope.

(** * hypotheses on the vocabulary (all proved for [vocab_of] in VocabProofs.v) *)
(** [Values[Encode(s)] = s] *)
Definition vocab_consistent (v : vocab) : Prop := forall s, 0 <= venc v s -> vdec v (venc v s) = Some s.
(** Encode answers an index of Values or -1 *)
Definition vocab_range (v : vocab) : Prop := forall s, venc v s < vsize v.
(** every special token is in the vocabulary (it is an element of Values) *)
Definition specials_in_vocab (v : vocab) : Prop := forall sp, In sp (vspecials v) -> 0 <= venc v sp.
(** "covers every byte": the image of every byte under the byte map is a token *)
Definition bpe_complete (v : vocab) : Prop := forall b, (b < 256)%N -> 0 <= venc v (encode_rune (bmap b)).
(** the hypothesis on the pre-tokeniser (regexp2): it returns a partition of its input *)
Definition split_partition (split : str -> list str) : Prop := forall t, concat (split t) = t.

Definition is_bytes (s : str) : Prop := Forall (fun b => (b < 256)%N) s.
Definition is_ascii (s : str) : Prop := Forall (fun b => (b < 128)%N) s.
Definition small (rs : list N) : Prop := Forall (fun r => (r < 2048)%N) rs.

Lemma of_runes_app a b : of_runes (a ++ b) = of_runes a ++ of_runes b.
Proof. unfold of_runes. apply flat_map_app. Qed.

Lemma unmap_runes_app a b : unmap_runes (a ++ b) = unmap_runes a ++ unmap_runes b.
Proof. unfold unmap_runes. apply flat_map_app. Qed.

Lemma isnil_true {A} (l : list A) : isnil l = true <-> l = [].
Proof. destruct l; cbn; split; congruence. Qed.
Lemma isnil_false {A} (l : list A) : isnil l = false <-> l <> [].
Proof. destruct l; cbn; split; congruence. Qed.

Lemma Forall_upd {A} (P : A -> Prop) i x l : Forall P l -> P x -> Forall P (upd i x l).
Proof.
  intros HF Hx. revert i; induction HF as [|y l Hy HF IH]; intros [|i]; cbn; constructor; auto.
Qed.

Lemma Forall_getc (P : cell -> Prop) cells k : P dcell -> Forall P cells -> P (getc cells k).
Proof.
  intros Hd HF. unfold getc. destruct (Nat.lt_ge_cases (Z.to_nat k) (length cells)) as [H|H].
  - rewrite Forall_forall in HF. apply HF, nth_In, H.
  - rewrite nth_overflow by exact H. exact Hd.
Qed.

(** a predicate on the rune content of cells that holds of the merged content survives a merge *)
Lemma mc_Forall (P : list N -> Prop) cells a b :
  P [] -> Forall (fun c => P (cr c)) cells -> P (cr (getc cells a) ++ cr (getc cells b)) ->
  Forall (fun c => P (cr c)) (merge_cells cells a b).
Proof.
  intros Hnil HF Hab. unfold merge_cells.
  assert (H2 : Forall (fun c => P (cr c))
                 (setc (setc cells a {| cp := cp (getc cells a); cn := cn (getc cells b); cr := cr (getc cells a) ++ cr (getc cells b) |})
                       b {| cp := cp (getc cells b); cn := cn (getc cells b); cr := [] |})).
  { unfold setc. apply Forall_upd; [apply Forall_upd; [exact HF|exact Hab]|exact Hnil]. }
  destruct (_ <? _); [|exact H2].
  unfold setc at 1. apply Forall_upd; [exact H2|]. cbn [cr].
  apply (Forall_getc (fun c => P (cr c))); [exact Hnil|exact H2].
Qed.

Section BpeLoop.
  Variable v : vocab.

  Definition VInv (cells : list cell) : Prop :=
    Forall (fun c => cr c = [] \/ 0 <= venc v (of_runes (cr c))) cells.
  Definition HInv (cells : list cell) (h : list bpair) : Prop := Forall (fun p => PV cells (pa p) (pb p)) h.

  Record BInv (rs : list N) (cells : list cell) (h : list bpair) : Prop := {
    bi_len : length cells = length rs;
    bi_cinv : CInv cells;
    bi_text : text cells = rs;
    bi_vinv : Forall (fun r => 0 <= venc v (encode_rune r)) rs -> VInv cells;
    bi_hinv : HInv cells h }.

  Lemma bpairwise_some len cells x y q :
    bpairwise v len cells x y = Some q -> pa q = x /\ pb q = y /\ 0 <= x /\ y < len.
  Proof.
    unfold bpairwise. destruct ((x <? 0) || (len <=? y)) eqn:E; [discriminate|]. cbv zeta.
    match goal with |- context [if ?c then None else _] => destruct c end; [discriminate|]. intros [= <-]. cbn. lia.
  Qed.

  Lemma HInv_push cells h o :
    HInv cells h -> (forall q, o = Some q -> PV cells (pa q) (pb q)) -> HInv cells (push_opt h o).
  Proof.
    intros Hh Ho. destruct o as [q|]; cbn [push_opt]; [|exact Hh].
    apply Forall_forall. intros y Hy. apply hpush_In in Hy as [->|Hy]; [apply Ho; reflexivity|].
    unfold HInv in Hh. rewrite Forall_forall in Hh. apply Hh, Hy.
  Qed.

  Lemma bpe_step_inv rs cells p h :
    BInv rs cells h -> PV cells (pa p) (pb p) ->
    let '(cells', h') := bpe_step v (zlen cells) cells p h in BInv rs cells' h'.
  Proof.
    intros [Hlen HC Ht HV HH] Hp. unfold bpe_step.
    destruct (isnil (cr (getc cells (pa p)))) eqn:E1; cbn [orb]; [constructor; assumption|].
    destruct (isnil (cr (getc cells (pb p)))) eqn:E2; cbn [orb]; [constructor; assumption|].
    destruct (eqb_str _ (pval p)) eqn:E3; cbn [negb]; [|constructor; assumption].
    destruct (venc v (pval p) <? 0) eqn:E4; [constructor; assumption|].
    apply isnil_false in E1, E2. apply eqb_str_spec in E3.
    assert (Ha : ~ emp cells (pa p)) by exact E1.
    assert (Hb : ~ emp cells (pb p)) by exact E2.
    set (cells' := merge_cells cells (pa p) (pb p)).
    assert (HC' : CInv cells') by (apply mc_CInv; assumption).
    assert (Hz : zlen cells' = zlen cells) by (apply mc_zlen; assumption).
    constructor.
    - unfold cells'. rewrite mc_length by assumption. exact Hlen.
    - exact HC'.
    - unfold cells'. rewrite mc_text by assumption. exact Ht.
    - intros H0. specialize (HV H0).
      unfold VInv, cells'. apply (mc_Forall (fun r => r = [] \/ 0 <= venc v (of_runes r))); [left; reflexivity|exact HV|].
      right. rewrite of_runes_app, E3. lia.
    - apply HInv_push; [apply HInv_push|].
      + unfold HInv in *. eapply Forall_impl; [|exact HH]. intros q Hq. apply mc_PV; assumption.
      + intros q Hq. apply bpairwise_some in Hq as [-> [-> [H0 H1]]].
        apply mc_PV_left; assumption.
      + intros q Hq. apply bpairwise_some in Hq as [-> [-> [H0 H1]]].
        apply mc_PV_right; assumption.
  Qed.

  Lemma bpe_loop_inv rs fuel len cells h :
    len = zlen cells -> BInv rs cells h ->
    let '(cells', h') := bpe_loop v fuel len cells h in BInv rs cells' h'.
  Proof.
    intros ->. revert cells h. induction fuel as [|f IH]; intros cells h HB; cbn [bpe_loop]; [exact HB|].
    destruct (hpop bless dpair h) as [[p h1]|] eqn:E; [|exact HB].
    apply hpop_spec in E as [Hin [Hincl _]].
    assert (Hp : PV cells (pa p) (pb p)).
    { destruct HB as [_ _ _ _ HH]. unfold HInv in HH. rewrite Forall_forall in HH. apply HH, Hin. }
    assert (HB1 : BInv rs cells h1).
    { destruct HB as [H1 H2 H3 H4 HH]. constructor; try assumption.
      unfold HInv in *. rewrite Forall_forall in *. intros q Hq. apply HH, Hincl, Hq. }
    pose proof (bpe_step_inv rs cells p h1 HB1 Hp) as Hs.
    destruct (bpe_step v (zlen cells) cells p h1) as [cells' h'] eqn:Es.
    assert (Hz : zlen cells' = zlen cells).
    { unfold zlen. destruct Hs as [L1 _ _ _ _]. destruct HB as [L2 _ _ _ _]. rewrite L1, L2. reflexivity. }
    rewrite <- Hz. apply IH. exact Hs.
  Qed.

  Lemma init_heap_inv rs cells n i h :
    cells = init_cells 0 rs -> 0 <= i -> HInv cells h -> HInv cells (init_heap v n (Z.of_nat (length rs)) cells i h).
  Proof.
    intros -> . revert i h. induction n as [|n IH]; intros i h Hi Hh; cbn [init_heap]; [exact Hh|].
    apply IH; [lia|]. apply HInv_push; [exact Hh|].
    intros q Hq. apply bpairwise_some in Hq as [-> [-> [H0 H1]]]. apply init_PV; lia.
  Qed.

  Lemma init_VInv rs i :
    Forall (fun r => 0 <= venc v (encode_rune r)) rs -> VInv (init_cells i rs).
  Proof.
    intros Hs. revert i. induction Hs as [|r rs Hr Hs IH]; intros i; cbn [init_cells]; constructor.
    - right. cbn. rewrite app_nil_r. exact Hr.
    - apply IH.
  Qed.

  (** the state after the loop, for ANY merge ranks: same text, every non-empty cell in the vocabulary
      provided every single rune is *)
  Lemma bpe_cells_inv rs :
    let '(cells, h) := bpe_cells v rs in BInv rs cells h.
  Proof.
    unfold bpe_cells.
    apply bpe_loop_inv; [unfold zlen; rewrite init_cells_length; reflexivity|]. constructor.
    - apply init_cells_length.
    - apply init_CInv.
    - apply init_cells_text.
    - intros Hs. apply init_VInv, Hs.
    - apply init_heap_inv; [reflexivity|lia|constructor].
  Qed.
End BpeLoop.

(** * Decode of the ids of a cell array *)
Section BpeDecode.
  Variable v : vocab.
  Hypothesis Hcons : vocab_consistent v.

  Lemma bpe_decode_app a b x y :
    bpe_decode v a = Some x -> bpe_decode v b = Some y -> bpe_decode v (a ++ b) = Some (x ++ y).
  Proof.
    revert x. induction a as [|id a IH]; intros x Ha Hb; cbn [app bpe_decode] in *.
    - injection Ha as <-. exact Hb.
    - destruct (vdec v id) as [tok|]; [|discriminate]. destruct (bpe_decode v a) as [r|]; [|discriminate].
      injection Ha as <-. rewrite (IH r eq_refl Hb). rewrite app_assoc. reflexivity.
  Qed.

  Lemma unmap_of_runes_small rs : small rs -> unmap_string (of_runes rs) = unmap_runes rs.
  Proof. intros H. unfold unmap_string. rewrite to_runes_of_runes_small by exact H. reflexivity. Qed.

  Lemma cell_ids_decode cells :
    VInv v cells -> small (text cells) ->
    bpe_decode v (cell_ids v cells) = Some (unmap_runes (text cells)).
  Proof.
    intros HV. induction HV as [|c cells Hc HV IH]; intros Hs; [reflexivity|].
    unfold text, texts in Hs |- *. cbn [map concat] in Hs |- *. apply Forall_app in Hs as [Hs1 Hs2].
    unfold cell_ids. cbn [flat_map]. fold (cell_ids v cells).
    rewrite unmap_runes_app.
    destruct (isnil (cr c)) eqn:En.
    - apply isnil_true in En. rewrite En. cbn [app unmap_runes flat_map]. apply IH. exact Hs2.
    - apply isnil_false in En. destruct Hc as [Hc|Hc]; [contradiction|].
      replace (venc v (of_runes (cr c)) <? 0) with false by lia.
      apply bpe_decode_app; [|apply IH; exact Hs2].
      cbn [bpe_decode]. rewrite Hcons by exact Hc. rewrite unmap_of_runes_small by exact Hs1.
      rewrite app_nil_r. reflexivity.
  Qed.
End BpeDecode.

Lemma unmap_runes_bmap s : is_bytes s -> no_nul s = true -> unmap_runes (map bmap s) = s.
Proof.
  intros HF Hn. induction s as [|b s IH]; [reflexivity|].
  inversion HF; subst. cbn in Hn. apply andb_true_iff in Hn as [Hb Hn].
  cbn [map unmap_runes flat_map]. rewrite bytemap_inverse by lia. cbn [app]. f_equal.
  apply IH; assumption.
Qed.

Lemma small_map_bmap s : is_bytes s -> small (map bmap s).
Proof.
  intros HF. apply Forall_forall. intros r Hr. apply in_map_iff in Hr as [b [<- Hb]].
  unfold is_bytes in HF. rewrite Forall_forall in HF. apply bmap_range, HF, Hb.
Qed.

(** ASCII strings are their own runes and are unmapped to themselves *)
Lemma to_runes_f_ascii fuel s : is_ascii s -> (length s <= fuel)%nat -> to_runes_f fuel s = s.
Proof.
  revert s; induction fuel as [|f IH]; intros s Ha Hl.
  - destruct s; [reflexivity|cbn in Hl; lia].
  - destruct s as [|b s]; [reflexivity|]. inversion Ha as [|? ? Hb Ha']; subst.
    cbn [to_runes_f decode_rune]. replace (b <? 128)%N with true by lia. cbn [skipn].
    f_equal. apply IH; [exact Ha'|cbn in Hl; lia].
Qed.

Lemma unmap_string_ascii s : is_ascii s -> unmap_string s = s.
Proof.
  intros Ha. unfold unmap_string, to_runes. rewrite to_runes_f_ascii by (auto; lia).
  induction Ha as [|b s Hb Ha IH]; [reflexivity|].
  cbn [unmap_runes flat_map]. fold (unmap_runes s). rewrite IH.
  unfold bunmap.
  replace (b =? 256)%N with false by lia. replace (b =? 323)%N with false by lia.
  replace ((256 <? b) && (b <=? 288))%N with false by lia. replace ((288 <? b) && (b <=? 322))%N with false by lia.
  cbn [app]. f_equal. apply N.mod_small. lia.
Qed.

(** * round trip *)
Section BpeRoundtrip.
  Variable v : vocab.
  Variable split : str -> list str.
  Hypothesis Hcons : vocab_consistent v.
  Hypothesis Hcomplete : bpe_complete v.
  Hypothesis Hspec : specials_in_vocab v.

  Lemma bpe_piece_roundtrip piece :
    is_bytes piece -> no_nul piece = true -> bpe_decode v (bpe_piece v piece) = Some piece.
  Proof.
    intros Hb Hn. unfold bpe_piece.
    destruct (0 <=? venc v (map_bytes piece)) eqn:E.
    - cbn [bpe_decode]. rewrite Hcons by lia. rewrite unmap_map_bytes by assumption. rewrite app_nil_r. reflexivity.
    - rewrite to_runes_map_bytes by exact Hb.
      pose proof (bpe_cells_inv v (map bmap piece)) as HI.
      destruct (bpe_cells v (map bmap piece)) as [cells h]. cbn [fst].
      destruct HI as [_ _ Ht HV _].
      assert (HV' : VInv v cells).
      { apply HV. apply Forall_forall. intros r Hr. apply in_map_iff in Hr as [b [<- Hin]].
        unfold is_bytes in Hb. rewrite Forall_forall in Hb. apply Hcomplete, Hb, Hin. }
      rewrite cell_ids_decode; [|exact Hcons|exact HV'|rewrite Ht; apply small_map_bmap, Hb].
      rewrite Ht. rewrite unmap_runes_bmap by assumption. reflexivity.
  Qed.

  Lemma is_bytes_app a b : is_bytes (a ++ b) <-> is_bytes a /\ is_bytes b.
  Proof. apply Forall_app. Qed.

  Lemma no_nul_app a b : no_nul (a ++ b) = no_nul a && no_nul b.
  Proof. apply forallb_app. Qed.

  Lemma bpe_pieces_roundtrip ps :
    is_bytes (concat ps) -> no_nul (concat ps) = true ->
    bpe_decode v (flat_map (bpe_piece v) ps) = Some (concat ps).
  Proof.
    induction ps as [|p ps IH]; intros Hb Hn; [reflexivity|].
    cbn [concat flat_map] in *. apply is_bytes_app in Hb as [Hb1 Hb2].
    rewrite no_nul_app in Hn. apply andb_true_iff in Hn as [Hn1 Hn2].
    apply bpe_decode_app; [apply bpe_piece_roundtrip; assumption|apply IH; assumption].
  Qed.

  Lemma Infix_is_bytes t s : Infix t s -> is_bytes s -> is_bytes t.
  Proof. intros [a [b ->]] H. apply is_bytes_app in H as [_ H]. apply is_bytes_app in H as [H _]. exact H. Qed.

  Lemma Infix_no_nul t s : Infix t s -> no_nul s = true -> no_nul t = true.
  Proof.
    intros [a [b ->]] H. rewrite !no_nul_app in H. apply andb_true_iff in H as [_ H].
    apply andb_true_iff in H as [H _]. exact H.
  Qed.

  (** the guard that excludes the known finding C20-special-105-106-nonascii: every special token whose
      literal occurs in the text is plain ASCII *)
  Definition specials_plain (s : str) : Prop :=
    forall sp, In sp (vspecials v) -> Infix sp s -> is_ascii sp.

  (** the pre-tokeniser only has to be a partition on the text fragments of this input *)
  Definition split_ok_on (s : str) : Prop := forall t, In (FText t) (fragments v s) -> concat (split t) = t.

  Lemma bpe_frag_roundtrip s f :
    is_bytes s -> no_nul s = true -> specials_plain s -> split_ok_on s ->
    In f (fragments v s) -> bpe_decode v (bpe_frag v split f) = Some (frag_value f).
  Proof.
    intros Hb Hn Hg Hso Hin. pose proof (fun t (H : f = FText t) => Hso t (eq_ind _ (fun x => In x (fragments v s)) Hin _ H)) as Hsplit'.
    pose proof (fragments_infix v s f Hin) as Hinf.
    pose proof (fragments_ok v s) as Hok. rewrite Forall_forall in Hok. specialize (Hok f Hin).
    destruct f as [t|sp id]; cbn [bpe_frag frag_value] in *.
    - rewrite <- (Hsplit' t eq_refl) at 2. apply bpe_pieces_roundtrip; rewrite (Hsplit' t eq_refl).
      + eapply Infix_is_bytes; eassumption.
      + eapply Infix_no_nul; eassumption.
    - destruct Hok as [Hsp ->]. cbn [bpe_decode]. rewrite Hcons by (apply Hspec, Hsp).
      rewrite unmap_string_ascii by (apply Hg; assumption). rewrite app_nil_r. reflexivity.
  Qed.

  Lemma bpe_frags_roundtrip s fs :
    is_bytes s -> no_nul s = true -> specials_plain s -> split_ok_on s ->
    incl fs (fragments v s) -> bpe_decode v (flat_map (bpe_frag v split) fs) = Some (frags_text fs).
  Proof.
    intros Hb Hn Hg Hso. induction fs as [|f fs IH]; intros Hi; [reflexivity|].
    cbn [flat_map]. unfold frags_text. cbn [map concat].
    apply bpe_decode_app.
    - apply (bpe_frag_roundtrip s); try assumption. apply Hi. left. reflexivity.
    - apply IH. intros x Hx. apply Hi. right. exact Hx.
  Qed.

  (** what Decode (Encode s) is in general: the concatenation of the PIECES the pre-tokeniser returned for the text
      fragments (and of the special literals) - so the round trip holds exactly when the pieces are a partition *)
  Definition frag_out (f : frag) : str := match f with FText t => concat (split t) | FSpec sp _ => sp end.
  Definition pieces_ok (s : str) : Prop :=
    forall t, In (FText t) (fragments v s) -> is_bytes (concat (split t)) /\ no_nul (concat (split t)) = true.

  Lemma bpe_frags_decode_pieces s fs :
    specials_plain s -> pieces_ok s -> incl fs (fragments v s) ->
    bpe_decode v (flat_map (bpe_frag v split) fs) = Some (concat (map frag_out fs)).
  Proof.
    intros Hg Hp. induction fs as [|f fs IH]; intros Hi; [reflexivity|].
    cbn [flat_map map concat]. apply bpe_decode_app; [|apply IH; intros x Hx; apply Hi; right; exact Hx].
    assert (Hin : In f (fragments v s)) by (apply Hi; left; reflexivity).
    pose proof (fragments_infix v s f Hin) as Hinf.
    pose proof (fragments_ok v s) as Hok. rewrite Forall_forall in Hok. specialize (Hok f Hin).
    destruct f as [t|sp id]; cbn [bpe_frag frag_out frag_value] in *.
    - destruct (Hp t Hin) as [H1 H2]. apply bpe_pieces_roundtrip; assumption.
    - destruct Hok as [Hsp ->]. cbn [bpe_decode]. rewrite Hcons by (apply Hspec, Hsp).
      rewrite unmap_string_ascii by (apply Hg; assumption). rewrite app_nil_r. reflexivity.
  Qed.

  Theorem bpe_decode_is_pieces s :
    specials_plain s -> pieces_ok s ->
    bpe_decode v (bpe_encode v split s false) = Some (concat (map frag_out (fragments v s))).
  Proof.
    intros Hg Hp. unfold bpe_encode, add_special. cbn [andb]. unfold bpe_encode_ids.
    apply (bpe_frags_decode_pieces s); [exact Hg|exact Hp|apply incl_refl].
  Qed.

  Theorem bpe_roundtrip_on s :
    is_bytes s -> no_nul s = true -> specials_plain s -> split_ok_on s ->
    bpe_decode v (bpe_encode v split s false) = Some s.
  Proof.
    intros Hb Hn Hg Hso. unfold bpe_encode, add_special. cbn [andb]. unfold bpe_encode_ids.
    rewrite (bpe_frags_roundtrip s) by (try assumption; apply incl_refl).
    rewrite fragments_text. reflexivity.
  Qed.

  Theorem bpe_roundtrip s :
    split_partition split -> is_bytes s -> no_nul s = true -> specials_plain s ->
    bpe_decode v (bpe_encode v split s false) = Some s.
  Proof. intros Hsplit Hb Hn Hg. apply bpe_roundtrip_on; try assumption. intros t _. apply Hsplit. Qed.
End BpeRoundtrip.

(** * ids in the vocabulary *)
Section BpeIds.
  Variable v : vocab.
  Variable split : str -> list str.
  Hypothesis Hrange : vocab_range v.
  Hypothesis Hspec : specials_in_vocab v.

  Definition id_ok (id : Z) : Prop := 0 <= id < vsize v.

  Lemma cell_ids_ok cells : Forall id_ok (cell_ids v cells).
  Proof.
    unfold cell_ids. induction cells as [|c cells IH]; [constructor|]. cbn [flat_map].
    apply Forall_app. split; [|exact IH].
    destruct (isnil (cr c)); [constructor|]. destruct (venc v (of_runes (cr c)) <? 0) eqn:E; [constructor|].
    constructor; [|constructor]. split; [lia|apply Hrange].
  Qed.

  Lemma bpe_piece_ok p : Forall id_ok (bpe_piece v p).
  Proof.
    unfold bpe_piece. destruct (0 <=? venc v (map_bytes p)) eqn:E; [|apply cell_ids_ok].
    constructor; [|constructor]. split; [lia|apply Hrange].
  Qed.

  Lemma Forall_flat_map {A B} (P : B -> Prop) (f : A -> list B) l :
    (forall x, In x l -> Forall P (f x)) -> Forall P (flat_map f l).
  Proof.
    induction l as [|x l IH]; intros H; [constructor|]. cbn [flat_map]. apply Forall_app. split.
    - apply H. left. reflexivity.
    - apply IH. intros y Hy. apply H. right. exact Hy.
  Qed.

  Lemma bpe_encode_ids_ok s : Forall id_ok (bpe_encode_ids v split s).
  Proof.
    unfold bpe_encode_ids. apply Forall_flat_map. intros f Hf.
    pose proof (fragments_ok v s) as Hok. rewrite Forall_forall in Hok. specialize (Hok f Hf).
    destruct f as [t|sp id]; cbn [bpe_frag].
    - apply Forall_flat_map. intros p _. apply bpe_piece_ok.
    - destruct Hok as [Hsp ->]. constructor; [|constructor]. split; [apply Hspec, Hsp|apply Hrange].
  Qed.

  Lemma add_special_ok addsp ids :
    (vaddbos v = true -> id_ok (vbos v)) -> (vaddeos v = true -> id_ok (veos v)) ->
    Forall id_ok ids -> Forall id_ok (add_special v addsp ids).
  Proof.
    intros Hb He Hi. unfold add_special. destruct (addsp && negb (isnil ids)); [|exact Hi].
    apply Forall_app. split; [destruct (vaddbos v); [constructor; auto|constructor]|].
    apply Forall_app. split; [exact Hi|]. destruct (vaddeos v); [constructor; auto|constructor].
  Qed.

  Theorem bpe_ids_in_vocab s addsp :
    (vaddbos v = true -> id_ok (vbos v)) -> (vaddeos v = true -> id_ok (veos v)) ->
    Forall id_ok (bpe_encode v split s addsp).
  Proof. intros Hb He. apply add_special_ok; [exact Hb|exact He|apply bpe_encode_ids_ok]. Qed.
End BpeIds.
