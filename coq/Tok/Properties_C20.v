(** Property C20 - tokenizing then detokenizing returns the original text.
    Theorems only; every proof is a reference to a lemma of Tok/*Proofs.v. *)
From Coq Require Import List NArith ZArith Bool.
From V Require Import Common.Bytes Tok.Utf8 Tok.ByteMap Tok.ByteMapProofs.
Import ListNotations.
Open Scope N_scope.

(** Decode's rune -> byte map inverts Encode's byte -> rune map on every byte value except NUL (the bound 256 is
    the domain; proof by exhaustive computation) *)
Theorem C20_bytemap_inverse : forall b, b < 256 -> b <> 0 -> bunmap (bmap b) = Some b.
Proof. exact bytemap_inverse. Qed.
Print Assumptions C20_bytemap_inverse.

Theorem C20_bytemap_injective : forall b c, b < 256 -> c < 256 -> bmap b = bmap c -> b = c.
Proof. exact bytemap_injective. Qed.
Print Assumptions C20_bytemap_injective.

(** lifted to strings: unmapping the mapped form of any NUL-free byte string gives it back *)
Theorem C20_bytemap_string_inverse : forall s,
  Forall (fun b => b < 256) s -> no_nul s = true -> unmap_string (map_bytes s) = s.
Proof. exact unmap_map_bytes. Qed.
Print Assumptions C20_bytemap_string_inverse.

Example C20_bytemap_string_inverse_nonvacuous :
  unmap_string (map_bytes [126; 32; 127; 173; 195; 169]) = [126; 32; 127; 173; 195; 169].
Proof. vm_compute. reflexivity. Qed.
