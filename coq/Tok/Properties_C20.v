(** Property C20 - tokenizing then detokenizing returns the original text.
    Theorems only; every proof is a reference to a lemma of Tok/*Proofs.v.

    Model: Tok/Utf8.v (Go's string<->[]rune), ByteMap.v, Heap.v (container/heap = gods binaryheap), Vocab.v
    (model.Vocabulary), Special.v, Bpe.v, Spm.v.  A vocabulary is the abstract interface [vocab]; [vocab_of] is
    the Go struct.  "Valid UTF-8 text" = [of_runes rs] for a list [rs] of Unicode scalar values.  The
    pre-tokeniser (regexp2) is the variable [split] with hypothesis [split_partition]. *)
From Coq Require Import List NArith ZArith Bool.
From V Require Import Common.Bytes Tok.Utf8 Tok.ByteMap Tok.ByteMapProofs Tok.Utf8Proofs Tok.Heap Tok.Vocab Tok.VocabProofs
     Tok.Special Tok.SpecialProofs Tok.Bpe Tok.Spm Tok.MergeProofs Tok.BpeProofs Tok.SpmProofs Tok.LiteralProofs Tok.FuelProofs Tok.Pretok Tok.PretokProofs Tok.SizeCheck Tok.Witness.
Import ListNotations.

(** * the byte <-> rune map *)

(** Decode's rune -> byte map inverts Encode's byte -> rune map on every byte value except NUL (the bound 256 is
    the domain; proof by exhaustive computation).  This is the REPAIRED map (fixes/C20-bytemap-tilde.patch). *)
Theorem C20_bytemap_inverse : forall b, (b < 256)%N -> b <> 0%N -> bunmap (bmap b) = Some b.
Proof. exact bytemap_inverse. Qed.
Print Assumptions C20_bytemap_inverse.

Theorem C20_bytemap_injective : forall b c, (b < 256)%N -> (c < 256)%N -> bmap b = bmap c -> b = c.
Proof. exact bytemap_injective. Qed.
Print Assumptions C20_bytemap_injective.

(** the map as it was before the repair identified '~' with the space *)
Theorem C20_bytemap_unrepaired_refuted :
  ~ (forall b, (b < 256)%N -> b <> 0%N -> bunmap (bmap_unrepaired b) = Some b).
Proof. intros H. specialize (H 126%N eq_refl ltac:(discriminate)). discriminate. Qed.
Print Assumptions C20_bytemap_unrepaired_refuted.

(** lifted to strings *)
Theorem C20_bytemap_string_inverse : forall s, is_bytes s -> no_nul s = true -> unmap_string (map_bytes s) = s.
Proof. exact unmap_map_bytes. Qed.
Print Assumptions C20_bytemap_string_inverse.

Example C20_bytemap_string_inverse_nonvacuous :
  unmap_string (map_bytes [126; 32; 127; 173; 195; 169]%N) = [126; 32; 127; 173; 195; 169]%N.
Proof. vm_compute. reflexivity. Qed.

(** * Go's conversions on valid UTF-8 *)
Theorem C20_utf8_runes_roundtrip : forall rs, scalars rs -> to_runes (of_runes rs) = rs /\ utf8_valid (of_runes rs) = true.
Proof. intros rs H. split; [apply to_runes_of_runes, H | apply utf8_valid_of_runes, H]. Qed.
Print Assumptions C20_utf8_runes_roundtrip.

(** * the special-token split *)

(** the fragments are a partition of the input, for every vocabulary and text *)
Theorem C20_special_split_partition : forall v s, concat (map frag_value (fragments v s)) = s.
Proof. exact fragments_text. Qed.
Print Assumptions C20_special_split_partition.

(** every special fragment is a special token of the vocabulary with its own id *)
Theorem C20_special_split_ids : forall v s sp id,
  In (FSpec sp id) (fragments v s) -> In sp (vspecials v) /\ id = venc v sp.
Proof.
  intros v s sp id H. pose proof (fragments_ok v s) as Hok. rewrite Forall_forall in Hok. exact (Hok _ H).
Qed.
Print Assumptions C20_special_split_ids.

(** the bounded recursion of the model is the unbounded loop of the code (non-empty special tokens) *)
Theorem C20_special_split_fuel : forall sp id f1 f2 t,
  sp <> [] -> (length t <= f1)%nat -> (length t <= f2)%nat -> split_one f1 sp id t = split_one f2 sp id t.
Proof. exact split_one_fuel. Qed.
Print Assumptions C20_special_split_fuel.

(** * the merge loops *)

(** BPE: whatever the merge ranks and the vocabulary, the concatenation of the pieces left by the loop is the
    input rune list; and every piece is in the vocabulary when every single rune is *)
Theorem C20_merge_preserves_text : forall v rs,
  text (fst (bpe_cells v rs)) = rs /\
  (Forall (fun r => (0 <= venc v (encode_rune r))%Z) rs ->
   Forall (fun c => cr c = [] \/ (0 <= venc v (of_runes (cr c)))%Z) (fst (bpe_cells v rs))).
Proof.
  intros v rs. pose proof (bpe_cells_inv v rs) as H. destruct (bpe_cells v rs) as [cells h].
  destruct H as [_ _ Ht HV _]. split; [exact Ht|exact HV].
Qed.
Print Assumptions C20_merge_preserves_text.

(** SentencePiece: whatever the scores, same text; every piece is a single rune or a token *)
Theorem C20_spm_merge_preserves_text : forall v rs,
  text (fst (spm_cells v rs)) = rs /\
  Forall (fun c => cr c = [] \/ (exists r, cr c = [r]) \/ (0 <= venc v (of_runes (cr c)))%Z) (fst (spm_cells v rs)).
Proof.
  intros v rs. pose proof (spm_cells_inv v rs) as H. destruct (spm_cells v rs) as [cells h].
  destruct H as [_ _ Ht HV _]. split; [exact Ht|exact HV].
Qed.
Print Assumptions C20_spm_merge_preserves_text.

(** the piece clause depends on the loop's stale-candidate test [len(left)+len(right) != pair.size]: for the same
    loop WITHOUT it ([spm_cells_nosize], Tok/SizeCheck.v - not the model of the code) the clause is false.  Witness:
    pieces U+2581 q (score -5) and qz (score -1), no U+2581 qz, text " qz": the stale pair (U+2581, q) is merged after q
    absorbed z, the non-piece U+2581 qz goes through the byte fallback and decodes to a literal U+2581 *)
Definition C20_spm_pieces_without_size_check : Prop := forall v rs,
  Forall (fun c => cr c = [] \/ (exists r, cr c = [r]) \/ (0 <= venc v (of_runes (cr c)))%Z) (fst (spm_cells_nosize v rs)).

Theorem C20_spm_pieces_without_size_check_refuted : ~ C20_spm_pieces_without_size_check.
Proof.
  intros H. specialize (H sz_vocab sz_runes).
  destruct sz_without_check as [Hc [Hv _]].
  destruct (fst (spm_cells_nosize sz_vocab sz_runes)) as [|c0 rest]; [discriminate|].
  cbn [map] in Hc. injection Hc as Hc0 _. inversion H as [|? ? H0 _]; subst.
  rewrite Hc0 in H0. destruct H0 as [H0|[[r H0]|H0]]; [discriminate|discriminate|].
  rewrite Hv in H0. apply H0. reflexivity.
Qed.
Print Assumptions C20_spm_pieces_without_size_check_refuted.

Example C20_spm_size_check_witness :
  map cr (fst (spm_cells sz_vocab sz_runes)) = [[9601]; [113; 122]; []]%N /\
  spm_decode sz_vocab (spm_cell_ids sz_vocab (fst (spm_cells_nosize sz_vocab sz_runes))) = DOk (sep ++ [113; 122]%N).
Proof. split; [exact sz_with_check|exact (proj2 (proj2 sz_without_check))]. Qed.

(** the fuel of the model's loops is never exhausted: they stop because the heap is empty, as the code's do *)
Theorem C20_merge_loops_terminate : forall v rs, snd (bpe_cells v rs) = [] /\ snd (spm_cells v rs) = [].
Proof. intros v rs. split; [apply bpe_cells_heap_empty|apply spm_cells_heap_empty]. Qed.
Print Assumptions C20_merge_loops_terminate.

(** * round trip, BPE *)

(** full statement: every byte-covering vocabulary, every valid NUL-free text *)
Definition C20_bpe_roundtrip_full : Prop := forall v split s,
  vocab_consistent v -> bpe_complete v -> specials_in_vocab v -> split_partition split ->
  valid_text s -> no_nul s = true ->
  bpe_decode v (bpe_encode v split s false) = Some s.

(** false of the faithful model: ids 105/106 are special whatever their type (known finding
    C20-special-105-106-nonascii) *)
Theorem C20_bpe_roundtrip_refuted : ~ C20_bpe_roundtrip_full.
Proof.
  intros H.
  specialize (H wv_bpe wsplit [195; 141]%N wv_bpe_consistent wv_bpe_complete wv_bpe_specials wsplit_partition).
  rewrite wv_bpe_counterexample in H.
  assert (Hv : valid_text [195; 141]%N) by (exists [205%N]; split; [repeat constructor|reflexivity]).
  specialize (H Hv eq_refl). discriminate.
Qed.
Print Assumptions C20_bpe_roundtrip_refuted.

(** partial: guarded by "every special token whose literal occurs in the text is plain ASCII" (decidable);
    validity of the UTF-8 is not even needed here - it is what makes the real pre-tokeniser a partition *)
Theorem C20_bpe_roundtrip : forall v split s,
  vocab_consistent v -> bpe_complete v -> specials_in_vocab v -> split_partition split ->
  is_bytes s -> no_nul s = true -> specials_plain_b v s = true ->
  bpe_decode v (bpe_encode v split s false) = Some s.
Proof.
  intros v split s H1 H2 H3 H4 H5 H6 H7. apply bpe_roundtrip; try assumption. apply specials_plain_b_spec, H7.
Qed.
Print Assumptions C20_bpe_roundtrip.

Example C20_bpe_roundtrip_nonvacuous :
  vocab_consistent wv_bpe /\ bpe_complete wv_bpe /\ specials_in_vocab wv_bpe /\ split_partition wsplit /\
  specials_plain_b wv_bpe [97; 98; 126; 32; 127; 97]%N = true /\
  bpe_encode wv_bpe wsplit [97; 98; 126; 32; 127; 97]%N false = [256; 26; 188; 27; 253]%Z.
Proof.
  split; [exact wv_bpe_consistent|]. split; [exact wv_bpe_complete|]. split; [exact wv_bpe_specials|].
  split; [exact wsplit_partition|]. destruct wv_bpe_example as [H1 H2]. split; assumption.
Qed.

(** * the pre-tokeniser (Tok/Pretok.v: backtracking matcher + the FindStringMatch/FindNextMatch loop) *)

(** the llama 3 pattern of model/models/llama and mllama splits every valid text into a partition of non-empty
    pieces - whatever the Unicode class tables are (no hypothesis on \p{L}, \p{N}, \s) *)
Theorem C20_pretokenize_partition : forall cls rs, scalars rs ->
  concat (pretok (llama3 cls) (of_runes rs)) = of_runes rs /\ Forall (fun p => p <> []) (pretok (llama3 cls) (of_runes rs)).
Proof.
  intros cls rs Hs. apply pretok_partition; [rewrite llama3_minlen; constructor|apply llama3_matches|exact Hs].
Qed.
Print Assumptions C20_pretokenize_partition.

(** the tekken pattern of model/models/mistral3: same, for class tables in which every \p{L} rune is in one of
    \p{Lu} \p{Lt} \p{Lm} \p{Lo} \p{Ll} \p{M} (tested on every class the real engine reports) *)
Theorem C20_pretokenize_partition_tekken : forall cls rs,
  (forall c, cls UL c = true -> upperish cls c || lowerish cls c = true) -> scalars rs ->
  concat (pretok (tekken cls) (of_runes rs)) = of_runes rs /\ Forall (fun p => p <> []) (pretok (tekken cls) (of_runes rs)).
Proof.
  intros cls rs HL Hs. apply pretok_partition; [rewrite tekken_minlen; constructor|apply tekken_matches, HL|exact Hs].
Qed.
Print Assumptions C20_pretokenize_partition_tekken.

(** the loop drops runes at which no alternative matches: with a pattern that is not gapless the pieces are not
    a partition (this is what the code does with regexp2 matches; the repo's patterns are gapless by the theorems
    above) *)
Example C20_split_drops_gaps :
  let cls := cls_of_table [(97, 1); (98, 1); (32, 4)]%N in
  pretok (rplus (cls UL)) [97; 32; 98]%N = [[97]; [98]]%N.
Proof. vm_compute. reflexivity. Qed.

(** the round trip NEEDS a partition: for a byte-covering vocabulary Decode (Encode s) is the concatenation of the
    pieces the pre-tokeniser returned (and of the special literals), so it equals s exactly when the pieces of the
    fragments concatenate to s.  A model constructor that chooses a pattern which does not match all text loses the
    unmatched text (BytePairEncoding.split yields only the matches); the check builds the tokenizer through every model
    constructor and metadata variant and tests this on whitespace-rich texts. *)
Theorem C20_bpe_decode_is_pieces : forall v split s,
  vocab_consistent v -> bpe_complete v -> specials_in_vocab v ->
  specials_plain_b v s = true -> pieces_ok v split s ->
  bpe_decode v (bpe_encode v split s false) = Some (concat (map (frag_out split) (fragments v s))) /\
  (bpe_decode v (bpe_encode v split s false) = Some s <-> concat (map (frag_out split) (fragments v s)) = s).
Proof.
  intros v split s H1 H2 H3 H4 H5.
  assert (E : bpe_decode v (bpe_encode v split s false) = Some (concat (map (frag_out split) (fragments v s)))).
  { apply bpe_decode_is_pieces; try assumption. apply specials_plain_b_spec, H4. }
  split; [exact E|]. rewrite E. split; [intros [= ->]; reflexivity|intros ->; reflexivity].
Qed.
Print Assumptions C20_bpe_decode_is_pieces.

(** llama.cpp's GPT-2 pattern WITHOUT its trailing [|\s+] ('s|'t|'re|'ve|'m|'ll|'d| ?\p{L}+| ?\p{N}+| ?[^\s\p{L}\p{N}]+|\s+(?!\S))
    is not gapless: a lone newline directly before a non-space rune is matched by no alternative and dropped *)
Example C20_gpt2_without_tail_drops_newline :
  let cls := cls_of_table [(97, 129); (98, 129); (10, 4)]%N in
  let gpt2_no_tail :=
    alts [contractions; Seq (ropt (eqc 32)) (rplus (cls UL)); Seq (ropt (eqc 32)) (rplus (cls UN));
          Seq (ropt (eqc 32)) (rplus (not_S_L_N cls))] (Seq (rplus (cls US)) (NegLook (pnot (cls US)))) in
  pretok gpt2_no_tail [97; 10; 98]%N = [[97]; [98]]%N.
Proof. vm_compute. reflexivity. Qed.

(** BPE round trip with the modelled pre-tokeniser: NO hypothesis about the pre-tokeniser is left; in exchange the
    text must be valid UTF-8 and the special tokens valid UTF-8 (fragments of a valid text are then valid) *)
Theorem C20_bpe_roundtrip_llama3 : forall v cls rs,
  vocab_consistent v -> bpe_complete v -> specials_in_vocab v -> specials_valid v ->
  scalars rs -> no_nul (of_runes rs) = true -> specials_plain_b v (of_runes rs) = true ->
  bpe_decode v (bpe_encode v (pretok (llama3 cls)) (of_runes rs) false) = Some (of_runes rs).
Proof.
  intros v cls rs H1 H2 H3 H4 H5 H6 H7.
  apply bpe_roundtrip_pattern; try assumption; [rewrite llama3_minlen; constructor|apply llama3_matches|apply specials_plain_b_spec, H7].
Qed.
Print Assumptions C20_bpe_roundtrip_llama3.

Theorem C20_bpe_roundtrip_tekken : forall v cls rs,
  (forall c, cls UL c = true -> upperish cls c || lowerish cls c = true) ->
  vocab_consistent v -> bpe_complete v -> specials_in_vocab v -> specials_valid v ->
  scalars rs -> no_nul (of_runes rs) = true -> specials_plain_b v (of_runes rs) = true ->
  bpe_decode v (bpe_encode v (pretok (tekken cls)) (of_runes rs) false) = Some (of_runes rs).
Proof.
  intros v cls rs HL H1 H2 H3 H4 H5 H6 H7.
  apply bpe_roundtrip_pattern; try assumption; [rewrite tekken_minlen; constructor|apply tekken_matches, HL|apply specials_plain_b_spec, H7].
Qed.
Print Assumptions C20_bpe_roundtrip_tekken.

Example C20_bpe_roundtrip_llama3_nonvacuous :
  let cls := cls_of_table [(97, 129); (98, 129); (32, 4); (49, 2)]%N in
  specials_valid wv_bpe /\
  pretok (llama3 cls) [97; 98; 32; 97; 39; 115; 49; 49; 49; 49; 32; 32; 126]%N =
    [[97; 98]; [32; 97]; [39; 115]; [49; 49; 49]; [49]; [32]; [32; 126]]%N /\
  bpe_encode wv_bpe (pretok (llama3 cls)) [97; 98; 32; 97]%N false = [256; 188; 253]%Z.
Proof. split; [exact wv_bpe_specials_valid|]. vm_compute. split; reflexivity. Qed.

(** * round trip, SentencePiece *)

Definition C20_spm_roundtrip_full : Prop := forall v rs,
  vocab_consistent v -> spm_complete v -> specials_in_vocab v -> specials_valid v -> scalars rs ->
  spm_decode v (spm_encode v (of_runes rs) false) = DOk (of_runes rs).

(** false: U+2581 (known finding C20-spm-u2581) ... *)
Theorem C20_spm_roundtrip_refuted : ~ C20_spm_roundtrip_full.
Proof.
  intros H.
  specialize (H wv_spm [9601%N] wv_spm_consistent wv_spm_complete wv_spm_specials wv_spm_specials_valid ltac:(repeat constructor)).
  rewrite wv_spm_counterexample_u2581 in H. discriminate.
Qed.
Print Assumptions C20_spm_roundtrip_refuted.

(** ... and, independently, the literal form of a byte token (known finding C20-spm-byte-token-literal):
    even restricted to texts without U+2581 the statement is false *)
Theorem C20_spm_roundtrip_refuted_byte_literal :
  ~ (forall v rs, vocab_consistent v -> spm_complete v -> specials_in_vocab v -> specials_valid v -> scalars rs ->
       containsb (of_runes rs) sep = false ->
       spm_decode v (spm_encode v (of_runes rs) false) = DOk (of_runes rs)).
Proof.
  intros H.
  specialize (H wv_spm [60; 48; 120; 52; 49; 62]%N wv_spm_consistent wv_spm_complete wv_spm_specials wv_spm_specials_valid
                ltac:(repeat constructor) eq_refl).
  rewrite wv_spm_counterexample_byte_literal in H. discriminate.
Qed.
Print Assumptions C20_spm_roundtrip_refuted_byte_literal.

(** partial: the text contains neither U+2581 nor a six-byte window of the form "<0x??>" (both decidable) *)
Theorem C20_spm_roundtrip : forall v rs,
  vocab_consistent v -> spm_complete v -> specials_in_vocab v -> specials_valid v -> scalars rs ->
  containsb (of_runes rs) sep = false -> no_shape_b (of_runes rs) = true ->
  spm_decode v (spm_encode v (of_runes rs) false) = DOk (of_runes rs).
Proof.
  intros v rs H1 H2 H3 H4 H5 H6 H7. apply spm_roundtrip; try assumption.
  - apply no_sep_b_spec, H6.
  - apply no_shape_b_spec, H7.
Qed.
Print Assumptions C20_spm_roundtrip.

Example C20_spm_roundtrip_nonvacuous :
  vocab_consistent wv_spm /\ spm_complete wv_spm /\ specials_in_vocab wv_spm /\ specials_valid wv_spm /\
  spm_encode wv_spm (of_runes [97; 98; 32; 98; 233]%N) false = [257; 0; 259; 196; 170]%Z /\
  containsb (of_runes [97; 98; 32; 98; 233]%N) sep = false /\ no_shape_b (of_runes [97; 98; 32; 98; 233]%N) = true.
Proof.
  split; [exact wv_spm_consistent|]. split; [exact wv_spm_complete|]. split; [exact wv_spm_specials|].
  split; [exact wv_spm_specials_valid|]. exact wv_spm_example.
Qed.

(** * ids inside the vocabulary: every vocabulary, every text (any bytes), with or without BOS/EOS *)
Theorem C20_ids_in_vocab : forall v split s addsp,
  vocab_range v -> specials_in_vocab v ->
  (vaddbos v = true -> id_ok v (vbos v)) -> (vaddeos v = true -> id_ok v (veos v)) ->
  Forall (id_ok v) (bpe_encode v split s addsp) /\ Forall (id_ok v) (spm_encode v s addsp).
Proof.
  intros v split s addsp H1 H2 H3 H4. split; [apply bpe_ids_in_vocab|apply spm_ids_in_vocab]; assumption.
Qed.
Print Assumptions C20_ids_in_vocab.

(** * special-token literals: the leftmost occurrence of the first special token (in SpecialVocabulary order) that
    occurs in the text is encoded as exactly that token's id, between the encodings of the fragments of the text
    before and after it *)
Theorem C20_special_literal : forall v split s pre sp post i,
  vspecials v = pre ++ sp :: post -> (forall x, In x pre -> ~ Infix x s) -> index_of s sp = Some i ->
  exists fa fb, frags_text fa = firstn i s /\ frags_text fb = skipn (i + length sp) s /\
    bpe_encode v split s false = flat_map (bpe_frag v split) fa ++ venc v sp :: flat_map (bpe_frag v split) fb /\
    spm_encode v s false = flat_map (spm_frag v) fa ++ venc v sp :: flat_map (spm_frag v) fb.
Proof.
  intros v split s pre sp post i H1 H2 H3.
  destruct (special_literal_fragment v s pre sp post i H1 H2 H3) as [fa [fb [E [Ha Hb]]]].
  exists fa, fb. split; [exact Ha|]. split; [exact Hb|].
  unfold bpe_encode, spm_encode, add_special, bpe_encode_ids, spm_encode_ids. cbn [andb].
  rewrite E, !flat_map_app. split; reflexivity.
Qed.
Print Assumptions C20_special_literal.

Example C20_special_literal_nonvacuous :
  vspecials wv_spm = [] ++ byte_token 104 :: [byte_token 105] /\ index_of [97; 60; 48; 120; 54; 56; 62; 98]%N (byte_token 104) = Some 1%nat.
Proof. split; reflexivity. Qed.

(** the order "split on special literals first, then escape spaces": a control token whose literal contains a space
    is found in text with spaces around it (SentencePiece) *)
Example C20_special_literal_with_space :
  spm_encode wv_spm2 [97; 32; 60; 101; 32; 116; 62; 32; 98]%N false = [258; 0; 260; 0; 259]%Z /\
  spm_decode wv_spm2 [258; 0; 260; 0; 259]%Z = DOk [97; 32; 60; 101; 32; 116; 62; 32; 98]%N.
Proof. exact wv_spm2_spaced_special. Qed.

(** * the Go struct satisfies the hypotheses put on abstract vocabularies *)
Theorem C20_vocab_of_ok : forall values types scores merges bos eos ab ae,
  let v := vocab_of values types scores merges bos eos ab ae in
  vocab_consistent v /\ vocab_range v /\ specials_in_vocab v.
Proof.
  intros. split; [apply vocab_of_consistent|]. split; [apply vocab_of_range|apply vocab_of_specials].
Qed.
Print Assumptions C20_vocab_of_ok.
