(** Array-backed binary heap, the algorithm shared by Go's container/heap (used by the SentencePiece encoder)
    and github.com/emirpasic/gods/v2/trees/binaryheap (used by the BPE encoder):
      push: append, then sift up while [less child parent];
      pop : swap first/last, sift the first down over the shortened array (choose the right child iff
            [less right left]; swap iff [less child node]), remove the last.
    gods phrases the tests with a comparator ([cmp parent child <= 0 -> stop], [cmp left right > 0 -> right],
    [cmp node child > 0 -> swap]); with [less x y := cmp x y < 0] for an antisymmetric comparator these are the
    same tests.  Definitions only. *)
From Coq Require Import List Arith Bool.
Import ListNotations.

Section Heap.
  Context {A : Type} (less : A -> A -> bool) (d : A).

  Fixpoint upd (i : nat) (x : A) (l : list A) : list A :=
    match l with
    | [] => []
    | y :: t => match i with O => x :: t | S i' => y :: upd i' x t end
    end.

  Definition swap (i j : nat) (l : list A) : list A :=
    upd i (nth j l d) (upd j (nth i l d) l).

  (** container/heap.up *)
  Fixpoint up (fuel : nat) (l : list A) (j : nat) : list A :=
    match fuel with
    | O => l
    | S f =>
      match j with
      | O => l
      | _ => let i := Nat.div2 (j - 1) in
             if less (nth j l d) (nth i l d) then up f (swap i j l) i else l
      end
    end.

  (** container/heap.down over the first [n] elements *)
  Fixpoint down (fuel : nat) (l : list A) (i n : nat) : list A :=
    match fuel with
    | O => l
    | S f =>
      let j1 := 2 * i + 1 in
      if n <=? j1 then l
      else
        let j2 := j1 + 1 in
        let j := if (j2 <? n) && less (nth j2 l d) (nth j1 l d) then j2 else j1 in
        if less (nth j l d) (nth i l d) then down f (swap i j l) j n else l
    end.

  Definition hpush (h : list A) (x : A) : list A :=
    let l := h ++ [x] in up (length l) l (length l - 1).

  Definition hpop (h : list A) : option (A * list A) :=
    match h with
    | [] => None
    | _ =>
      let n := length h - 1 in
      let l := swap 0 n h in
      let l' := down (length h) l 0 n in
      Some (nth n l' d, firstn n l')
    end.
End Heap.
