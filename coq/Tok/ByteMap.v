(** The byte <-> rune remapping of model/process_text.go (BytePairEncoding.Encode inner loop / Decode).
    Definitions only. *)
From Coq Require Import List NArith Bool Arith.
From V Require Import Common.Bytes Tok.Utf8.
Import ListNotations.
Open Scope N_scope.

(** Encode: [switch { case r == 0x00ad: r = 0x0143; case r <= 0x0020: r += 0x0100;
                      case r >= 0x007f && r <= 0x00a0: r += 0x00a2 }]
    This is the REPAIRED code (fixes/C20-bytemap-tilde.patch).  *)
Definition bmap (b : N) : N :=
  if b =? 173 then 323
  else if b <=? 32 then b + 256
  else if (127 <=? b) && (b <=? 160) then b + 162
  else b.

(** the code as it was before the repair: the third range started at 0x7e *)
Definition bmap_unrepaired (b : N) : N :=
  if b =? 173 then 323
  else if b <=? 32 then b + 256
  else if (126 <=? b) && (b <=? 160) then b + 162
  else b.

(** Decode: [case r == 0x0100: continue; case r == 0x0143: r = 0x00ad;
             case r > 0x0100 && r <= 0x0120: r -= 0x0100; case r > 0x0120 && r <= 0x0142: r -= 0x00a2]
    then [WriteByte(byte(r))].  [None] = the rune is skipped. *)
Definition bunmap (r : N) : option N :=
  if r =? 256 then None
  else if r =? 323 then Some 173
  else if (256 <? r) && (r <=? 288) then Some (r - 256)
  else if (288 <? r) && (r <=? 322) then Some (r - 162)
  else Some (r mod 256).

(** the string that Encode builds for one pre-token: WriteRune of every mapped byte *)
Definition map_bytes (s : str) : str := of_runes (map bmap s).

(** Decode of one token string *)
Definition unmap_runes (rs : list N) : str :=
  flat_map (fun r => match bunmap r with Some b => [b] | None => [] end) rs.
Definition unmap_string (t : str) : str := unmap_runes (to_runes t).

Definition all_bytes : list N := map N.of_nat (seq 0 256).
