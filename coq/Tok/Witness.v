(** Concrete vocabularies: non-vacuity of the hypotheses of the round-trip theorems, and the witnesses that refute
    the unguarded statements (the three known findings). *)
From Coq Require Import List NArith ZArith Bool Arith Lia.
From V Require Import Common.Bytes Tok.Utf8 Tok.ByteMap Tok.ByteMapProofs Tok.Utf8Proofs Tok.Vocab Tok.VocabProofs
     Tok.Special Tok.Bpe Tok.Spm Tok.BpeProofs Tok.SpmProofs Tok.LiteralProofs.
Import ListNotations.

(** the trivial pre-tokeniser: one piece *)
Definition wsplit (t : str) : list str := [t].
Lemma wsplit_partition : split_partition wsplit.
Proof. intros t. cbn. apply app_nil_r. Qed.

(** * BPE: the 256 single-rune tokens, ordered so that ids 105 and 106 are U+00CD, U+00CE (non-ASCII), as
    they are U+00AC, U+00AE in GPT-2 ordered vocabularies such as llama 3.2 *)
Definition rot_bytes : list N := map N.of_nat (seq 100 156 ++ seq 0 100).
Definition wv_bpe : vocab :=
  vocab_of (map (fun b => encode_rune (bmap b)) rot_bytes ++ [[97; 98]%N]) (repeat 1%N 257) [] [[97; 32; 98]%N] 0 0 false false.

Lemma wv_bpe_consistent : vocab_consistent wv_bpe.
Proof. apply vocab_of_consistent. Qed.
Lemma wv_bpe_range : vocab_range wv_bpe.
Proof. apply vocab_of_range. Qed.
Lemma wv_bpe_specials : specials_in_vocab wv_bpe.
Proof. apply vocab_of_specials. Qed.
Lemma wv_bpe_complete : bpe_complete wv_bpe.
Proof.
  intros b Hb.
  assert (H := forall_bytes (fun b => (0 <=? venc wv_bpe (encode_rune (bmap b)))%Z) ltac:(vm_compute; reflexivity) b Hb).
  cbv beta in H. lia.
Qed.

Lemma wv_bpe_specials_valid : specials_valid wv_bpe.
Proof.
  intros sp Hsp. change (vspecials wv_bpe) with [encode_rune (bmap 205); encode_rune (bmap 206)] in Hsp.
  destruct Hsp as [<-|[<-|[]]]; [exists [205%N]|exists [206%N]]; (split; [repeat constructor|split; [discriminate|reflexivity]]).
Qed.

(** the text U+00CD (bytes c3 8d) is taken for the "special" token 105 and decodes to the single byte cd *)
Lemma wv_bpe_counterexample :
  bpe_decode wv_bpe (bpe_encode wv_bpe wsplit [195; 141]%N false) = Some [205%N].
Proof. vm_compute. reflexivity. Qed.

(** a text inside the guard, with a merge *)
Lemma wv_bpe_example :
  bpe_encode wv_bpe wsplit [97; 98; 126; 32; 127; 97]%N false = [256; 26; 188; 27; 253]%Z /\
  specials_plain_b wv_bpe [97; 98; 126; 32; 127; 97]%N = true.
Proof. vm_compute. split; reflexivity. Qed.

(** * SentencePiece: the whitespace marker and the 256 byte tokens (ids 105/106 are "<0x68>", "<0x69>") *)
Definition wv_spm : vocab :=
  vocab_of (sep :: map byte_token all_bytes ++ [[97; 98]%N; [97]%N; [98]%N]) (repeat 1%N 260) (repeat 0%Z 260) [] 0 0 false false.

Lemma wv_spm_consistent : vocab_consistent wv_spm.
Proof. apply vocab_of_consistent. Qed.
Lemma wv_spm_range : vocab_range wv_spm.
Proof. apply vocab_of_range. Qed.
Lemma wv_spm_specials : specials_in_vocab wv_spm.
Proof. apply vocab_of_specials. Qed.
Lemma wv_spm_complete : spm_complete wv_spm.
Proof.
  split; [|vm_compute; discriminate].
  intros b Hb.
  assert (H := forall_bytes (fun b => (0 <=? venc wv_spm (byte_token b))%Z) ltac:(vm_compute; reflexivity) b Hb).
  cbv beta in H. lia.
Qed.

Lemma ascii_scalars s : is_ascii s -> scalars s /\ of_runes s = s.
Proof.
  induction 1 as [|b s Hb Hs [IH1 IH2]]; [split; [constructor|reflexivity]|]. split.
  - constructor; [|exact IH1]. unfold is_scalar. lia.
  - rewrite of_runes_cons, IH2, encode_low by exact Hb. reflexivity.
Qed.

Lemma wv_spm_specials_valid : specials_valid wv_spm.
Proof.
  intros sp Hsp. change (vspecials wv_spm) with [byte_token 104; byte_token 105] in Hsp.
  assert (Ha : is_ascii sp /\ sp <> []).
  { destruct Hsp as [<-|[<-|[]]]; (split; [repeat constructor|discriminate]). }
  destruct Ha as [Ha Hne]. destruct (ascii_scalars sp Ha) as [H1 H2]. exists sp. auto.
Qed.

(** U+2581 decodes to a space; the literal "<0x41>" decodes to "A" *)
Lemma wv_spm_counterexample_u2581 :
  spm_decode wv_spm (spm_encode wv_spm (of_runes [9601%N]) false) = DOk [32%N].
Proof. vm_compute. reflexivity. Qed.

Lemma wv_spm_counterexample_byte_literal :
  spm_decode wv_spm (spm_encode wv_spm (of_runes [60; 48; 120; 52; 49; 62]%N) false) = DOk [65%N].
Proof. vm_compute. reflexivity. Qed.

(** a text inside both guards: "ab b" + U+00E9 (merge, whitespace marker, byte fallback) *)
Lemma wv_spm_example :
  spm_encode wv_spm (of_runes [97; 98; 32; 98; 233]%N) false = [257; 0; 259; 196; 170]%Z /\
  containsb (of_runes [97; 98; 32; 98; 233]%N) sep = false /\ no_shape_b (of_runes [97; 98; 32; 98; 233]%N) = true.
Proof. vm_compute. repeat split; reflexivity. Qed.

(** a control token whose literal contains a space ("<e t>", id 260): Encode splits on special literals FIRST, on the raw
    text, and escapes spaces to U+2581 only inside the remaining text fragments - so the literal is found although it
    contains a space, and the spaces around it become U+2581 tokens *)
Definition wv_spm2 : vocab :=
  vocab_of (sep :: map byte_token all_bytes ++ [[97; 98]%N; [97]%N; [98]%N; [60; 101; 32; 116; 62]%N])
           (repeat 1%N 260 ++ [3%N]) (repeat 0%Z 261) [] 0 0 false false.
Lemma wv_spm2_spaced_special :
  spm_encode wv_spm2 [97; 32; 60; 101; 32; 116; 62; 32; 98]%N false = [258; 0; 260; 0; 259]%Z /\
  spm_decode wv_spm2 [258; 0; 260; 0; 259]%Z = DOk [97; 32; 60; 101; 32; 116; 62; 32; 98]%N.
Proof. vm_compute. split; reflexivity. Qed.
