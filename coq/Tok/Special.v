(** Splitting the input on special-token literals: the first loop of BytePairEncoding.Encode and of
    SentencePieceModel.Encode (identical text in both files).  Definitions only. *)
From Coq Require Import List NArith ZArith Bool Arith.
From V Require Import Common.Bytes Tok.Vocab.
Import ListNotations.

(** [fragment{value, ids}]: ids is non-empty exactly for an extracted special token *)
Inductive frag :=
| FText (v : str)
| FSpec (v : str) (id : Z).

Definition frag_value (f : frag) : str := match f with FText v => v | FSpec v _ => v end.

(** what the inner [for i := 0; i < len(fragments); i++] loop does to ONE text fragment for one special token
    [sp] (non-empty): [strings.Index]; nothing found -> unchanged; otherwise the part before (if any), the
    special fragment, and the rest (if non-empty) which the same loop visits next.  Fuel: length of the value. *)
Fixpoint split_one (fuel : nat) (sp : str) (id : Z) (v : str) : list frag :=
  match index_of v sp with
  | None => [FText v]
  | Some i =>
    let pre := match i with O => [] | _ => [FText (firstn i v)] end in
    let rest := skipn (i + length sp) v in
    pre ++ FSpec sp id ::
      match rest with
      | [] => []
      | _ => match fuel with O => [FText rest] | S f => split_one f sp id rest end
      end
  end.

Definition split_frag (sp : str) (id : Z) (f : frag) : list frag :=
  match f with
  | FText v => split_one (length v) sp id v
  | FSpec _ _ => [f]
  end.

Definition split_special (sp : str) (id : Z) (fs : list frag) : list frag := flat_map (split_frag sp id) fs.

(** the outer loop over SpecialVocabulary() *)
Definition fragments (v : vocab) (s : str) : list frag :=
  fold_left (fun fs sp => split_special sp (venc v sp) fs) (vspecials v) [FText s].
