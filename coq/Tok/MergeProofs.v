(** The bookkeeping shared by both merge loops ([merge_cells]): the doubly linked list over the array of cells.
    Invariant (one-sided, all that is needed): for every NON-EMPTY cell i, the cells strictly between p(i) and i
    and strictly between i and n(i) are empty.  A queued pair (a, b) is only required to have a < b and nothing
    but empty cells in between ([PV]); cells only ever become empty, so [PV] is stable, and merging a pair whose
    two ends are non-empty keeps the concatenation of all cells unchanged - whatever the order of pops. *)
From Coq Require Import List NArith ZArith Bool Arith Lia.
From V Require Import Common.Bytes Tok.Heap Tok.HeapProofs Tok.Bpe.
Import ListNotations.
Open Scope Z_scope.

(** * lists *)
Lemma nth_upd_eq {A} i (x d : A) l : (i < length l)%nat -> nth i (upd i x l) d = x.
Proof. revert i; induction l as [|y l IH]; intros [|i] H; cbn in *; try lia; auto. apply IH. lia. Qed.

Lemma nth_upd_neq {A} i j (x d : A) l : i <> j -> nth j (upd i x l) d = nth j l d.
Proof.
  revert i j; induction l as [|y l IH]; intros [|i] [|j] H; cbn; try reflexivity; try congruence.
  apply IH. congruence.
Qed.

Lemma map_upd {A B} (f : A -> B) i x l : map f (upd i x l) = upd i (f x) (map f l).
Proof. revert i; induction l as [|y l IH]; intros [|i]; cbn; try reflexivity. f_equal. apply IH. Qed.

Lemma upd_nth_same {A} i (d : A) l : upd i (nth i l d) l = l.
Proof. revert i; induction l as [|y l IH]; intros [|i]; cbn; try reflexivity. f_equal. apply IH. Qed.

(** emptying position b of a list whose first b entries are empty moves nothing *)
Lemma concat_upd_prefix_empty {A} (L : list (list A)) b :
  (b < length L)%nat -> (forall k, (k < b)%nat -> nth k L [] = []) ->
  nth b L [] ++ concat (upd b [] L) = concat L.
Proof.
  revert b; induction L as [|x L IH]; intros [|b] Hb He; cbn in *; try lia.
  - reflexivity.
  - assert (x = []) by (apply (He 0%nat); lia). subst x. cbn.
    apply IH; [lia|]. intros k Hk. apply (He (S k)). lia.
Qed.

(** the text lemma: moving the content of b to the end of a, with only empty entries in between *)
Lemma concat_merge {A} (L : list (list A)) a b :
  (a < b)%nat -> (b < length L)%nat -> (forall k, (a < k)%nat -> (k < b)%nat -> nth k L [] = []) ->
  concat (upd b [] (upd a (nth a L [] ++ nth b L []) L)) = concat L.
Proof.
  revert a b; induction L as [|x L IH]; intros a b Hab Hb He; [cbn in Hb; lia|].
  destruct b as [|b]; [lia|]. destruct a as [|a]; cbn [upd nth concat].
  - rewrite <- app_assoc. f_equal. apply concat_upd_prefix_empty; [cbn in Hb; lia|].
    intros k Hk. apply (He (S k)); lia.
  - f_equal. apply IH; [lia|cbn in Hb; lia|]. intros k H1 H2. apply (He (S k)); lia.
Qed.

(** * cells *)
Definition zlen (cells : list cell) : Z := Z.of_nat (length cells).
Definition emp (cells : list cell) (k : Z) : Prop := cr (getc cells k) = [].

Lemma setc_length l i c : length (setc l i c) = length l.
Proof. apply (upd_length). Qed.

Lemma getc_setc_eq l i c : 0 <= i < zlen l -> getc (setc l i c) i = c.
Proof. unfold zlen, getc, setc. intros H. apply nth_upd_eq. lia. Qed.

Lemma getc_setc_neq l i j c : 0 <= i -> 0 <= j -> i <> j -> getc (setc l i c) j = getc l j.
Proof. unfold getc, setc. intros Hi Hj H. apply nth_upd_neq. lia. Qed.

Lemma getc_out l k : zlen l <= k -> getc l k = dcell.
Proof. unfold zlen, getc. intros H. apply nth_overflow. lia. Qed.

Definition texts (cells : list cell) : list (list N) := map cr cells.
Definition text (cells : list cell) : list N := concat (texts cells).

Lemma texts_nth cells k : 0 <= k -> nth (Z.to_nat k) (texts cells) [] = cr (getc cells k).
Proof. intros _. unfold texts, getc. change (@nil N) with (cr dcell). apply map_nth. Qed.

Definition CInv (cells : list cell) : Prop :=
  forall i, 0 <= i < zlen cells -> ~ emp cells i ->
    -1 <= cp (getc cells i) < i /\ i < cn (getc cells i) /\
    (forall k, cp (getc cells i) < k < i -> emp cells k) /\
    (forall k, i < k < cn (getc cells i) -> emp cells k).

Definition PV (cells : list cell) (a b : Z) : Prop :=
  0 <= a < b /\ b < zlen cells /\ forall k, a < k < b -> emp cells k.

Section Merge.
  Variables (cells : list cell) (a b : Z).
  Hypothesis HI : CInv cells.
  Hypothesis HP : PV cells a b.
  Hypothesis Ha : ~ emp cells a.
  Hypothesis Hb : ~ emp cells b.

  Let L := getc cells a.
  Let R := getc cells b.
  Let c := cn R.
  Let cells' := merge_cells cells a b.

  Lemma mc_c_gt : b < c.
  Proof. destruct HP as [Hab [Hbl _]]. destruct (HI b) as [_ [Hx _]]; [lia|exact Hb|exact Hx]. Qed.

  Lemma mc_length : length cells' = length cells.
  Proof.
    unfold cells', merge_cells. destruct (_ <? _); rewrite ?setc_length; reflexivity.
  Qed.

  Lemma mc_zlen : zlen cells' = zlen cells.
  Proof. unfold zlen. rewrite mc_length. reflexivity. Qed.

  Lemma mc_get_a : getc cells' a = {| cp := cp L; cn := c; cr := cr L ++ cr R |}.
  Proof.
    pose proof mc_c_gt as Hcgt. destruct HP as [Hab [Hbl Hbt]].
    unfold cells', merge_cells. fold L R c.
    destruct (c <? Z.of_nat (length cells)) eqn:E.
    - rewrite getc_setc_neq by lia. rewrite getc_setc_neq by lia. apply getc_setc_eq. unfold zlen in *; lia.
    - rewrite getc_setc_neq by lia. apply getc_setc_eq. unfold zlen in *; lia.
  Qed.

  Lemma mc_get_b : cr (getc cells' b) = [].
  Proof.
    pose proof mc_c_gt as Hcgt. destruct HP as [Hab [Hbl Hbt]].
    unfold cells', merge_cells. fold L R c.
    destruct (c <? Z.of_nat (length cells)) eqn:E.
    - rewrite getc_setc_neq by lia. rewrite getc_setc_eq; [reflexivity|]. unfold zlen in *. rewrite setc_length. lia.
    - rewrite getc_setc_eq; [reflexivity|]. unfold zlen in *. rewrite setc_length. lia.
  Qed.

  Lemma mc_get_c : c < zlen cells ->
    getc cells' c = {| cp := a; cn := cn (getc cells c); cr := cr (getc cells c) |}.
  Proof.
    intros Hc. pose proof mc_c_gt as Hcgt. destruct HP as [Hab [Hbl Hbt]].
    unfold cells', merge_cells. fold L R c. unfold zlen in Hc.
    replace (c <? Z.of_nat (length cells)) with true by lia.
    rewrite getc_setc_eq by (unfold zlen; rewrite !setc_length; lia).
    rewrite !getc_setc_neq by lia. reflexivity.
  Qed.

  Lemma mc_get_other k : 0 <= k -> k <> a -> k <> b -> k <> c -> getc cells' k = getc cells k.
  Proof.
    intros Hk H1 H2 H3. pose proof mc_c_gt as Hcgt. destruct HP as [Hab [Hbl Hbt]].
    unfold cells', merge_cells. fold L R c.
    destruct (c <? Z.of_nat (length cells)); rewrite !getc_setc_neq by lia; reflexivity.
  Qed.

  (** cells only ever become empty *)
  Lemma mc_emp_mono k : 0 <= k -> emp cells k -> emp cells' k.
  Proof.
    intros Hk He. unfold emp in *.
    destruct (Z.eq_dec k a) as [->|Hka]; [contradiction|].
    destruct (Z.eq_dec k b) as [->|Hkb]; [apply mc_get_b|].
    destruct (Z.eq_dec k c) as [->|Hkc].
    - destruct (Z_lt_dec c (zlen cells)) as [Hc|Hc].
      + rewrite mc_get_c by exact Hc. exact He.
      + rewrite getc_out; [reflexivity|]. rewrite mc_zlen. lia.
    - rewrite mc_get_other by assumption. exact He.
  Qed.

  Lemma mc_nonemp_inv k : 0 <= k -> k <> a -> ~ emp cells' k -> ~ emp cells k /\ k <> b.
  Proof.
    intros Hk Hka He. split.
    - intro H. apply He. apply mc_emp_mono; assumption.
    - intros ->. apply He. apply mc_get_b.
  Qed.

  (** everything strictly between a and c is empty afterwards *)
  Lemma mc_between k : a < k < c -> emp cells' k.
  Proof.
    intros Hk. destruct HP as [Hab [Hbl Hbt]].
    destruct (Z_lt_dec k b) as [H1|H1]; [apply mc_emp_mono; [lia|apply Hbt; lia]|].
    destruct (Z.eq_dec k b) as [->|H2]; [apply mc_get_b|].
    apply mc_emp_mono; [lia|]. destruct (HI b) as [_ [_ [_ Hx]]]; [lia|exact Hb|]. apply Hx. fold R c. lia.
  Qed.

  Lemma mc_CInv : CInv cells'.
  Proof.
    pose proof mc_c_gt as Hcgt. destruct HP as [Hab [Hbl Hbt]].
    intros i Hi Hne. rewrite mc_zlen in Hi.
    destruct (Z.eq_dec i a) as [->|Hia].
    - rewrite mc_get_a. cbn [cp cn].
      destruct (HI a) as [H1 [H2 [H3 H4]]]; [lia|exact Ha|]. fold L in H1, H2, H3, H4.
      split; [exact H1|]. split; [lia|]. split.
      + intros k Hk. apply mc_emp_mono; [lia|]. apply H3. exact Hk.
      + intros k Hk. apply mc_between. exact Hk.
    - destruct (mc_nonemp_inv i) as [Hne0 Hib]; [lia|exact Hia|exact Hne|].
      destruct (HI i) as [H1 [H2 [H3 H4]]]; [lia|exact Hne0|].
      destruct (Z.eq_dec i c) as [->|Hic].
      + rewrite mc_get_c by lia. cbn [cp cn].
        split; [lia|]. split; [exact H2|]. split.
        * intros k Hk. apply mc_between. exact Hk.
        * intros k Hk. apply mc_emp_mono; [lia|]. apply H4. exact Hk.
      + rewrite mc_get_other by (try assumption; lia).
        split; [exact H1|]. split; [exact H2|]. split.
        * intros k Hk. apply mc_emp_mono; [lia|]. apply H3. exact Hk.
        * intros k Hk. apply mc_emp_mono; [lia|]. apply H4. exact Hk.
  Qed.

  (** queued pairs stay well-formed *)
  Lemma mc_PV x y : PV cells x y -> PV cells' x y.
  Proof.
    intros [H1 [H2 H3]]. split; [exact H1|]. split; [rewrite mc_zlen; exact H2|].
    intros k Hk. apply mc_emp_mono; [lia|]. apply H3. exact Hk.
  Qed.

  (** the two pairs pushed after a merge are well-formed (when [pairwise] does not reject them) *)
  Lemma mc_PV_left : 0 <= cp (getc cells' a) -> PV cells' (cp (getc cells' a)) a.
  Proof.
    intros H0. destruct HP as [Hab [Hbl _]].
    assert (Hne : ~ emp cells' a).
    { unfold emp. rewrite mc_get_a. cbn [cr]. intro H. apply app_eq_nil in H as [H _]. apply Ha. exact H. }
    destruct (mc_CInv a) as [H1 [H2 [H3 H4]]]; [rewrite mc_zlen; lia|exact Hne|].
    split; [lia|]. split; [rewrite mc_zlen; lia|]. exact H3.
  Qed.

  Lemma mc_PV_right : cn (getc cells' a) < zlen cells -> PV cells' a (cn (getc cells' a)).
  Proof.
    intros H0. destruct HP as [Hab [Hbl _]].
    assert (Hne : ~ emp cells' a).
    { unfold emp. rewrite mc_get_a. cbn [cr]. intro H. apply app_eq_nil in H as [H _]. apply Ha. exact H. }
    destruct (mc_CInv a) as [H1 [H2 [H3 H4]]]; [rewrite mc_zlen; lia|exact Hne|].
    split; [lia|]. split; [rewrite mc_zlen; lia|]. exact H4.
  Qed.

  (** the concatenation of all cells is unchanged *)
  Lemma mc_texts :
    texts cells' = upd (Z.to_nat b) [] (upd (Z.to_nat a) (cr L ++ cr R) (texts cells)).
  Proof.
    pose proof mc_c_gt as Hcgt. destruct HP as [Hab [Hbl Hbt]].
    unfold cells', merge_cells, texts. fold L R c.
    destruct (c <? Z.of_nat (length cells)) eqn:E; unfold setc.
    - rewrite map_upd. cbn [cr]. unfold getc. change (@nil N) with (cr dcell).
      rewrite <- map_nth. rewrite upd_nth_same. rewrite !map_upd. reflexivity.
    - rewrite !map_upd. reflexivity.
  Qed.

  Lemma mc_text : text cells' = text cells.
  Proof.
    destruct HP as [Hab [Hbl Hbt]]. unfold text. rewrite mc_texts.
    unfold L, R. rewrite <- !texts_nth by lia.
    apply concat_merge.
    - lia.
    - unfold texts. rewrite map_length. unfold zlen in Hbl. lia.
    - intros k H1 H2. specialize (Hbt (Z.of_nat k)). unfold emp in Hbt.
      rewrite <- texts_nth in Hbt by lia. rewrite Nat2Z.id in Hbt. apply Hbt. lia.
  Qed.
End Merge.

(** * the initial array *)
Lemma init_cells_length i rs : length (init_cells i rs) = length rs.
Proof. revert i; induction rs as [|r rs IH]; intros i; cbn; [reflexivity|]. f_equal. apply IH. Qed.

Lemma init_cells_nth i rs k :
  (k < length rs)%nat ->
  nth k (init_cells i rs) dcell = {| cp := i + Z.of_nat k - 1; cn := i + Z.of_nat k + 1; cr := [nth k rs 0%N] |}.
Proof.
  revert i k; induction rs as [|r rs IH]; intros i k Hk; [cbn in Hk; lia|].
  destruct k as [|k]; cbn [init_cells nth].
  - f_equal; lia.
  - rewrite IH by (cbn in Hk; lia). f_equal; lia.
Qed.

Lemma init_cells_text i rs : text (init_cells i rs) = rs.
Proof. revert i; induction rs as [|r rs IH]; intros i; cbn; [reflexivity|]. f_equal. apply IH. Qed.

Lemma init_cells_getc rs k :
  0 <= k < Z.of_nat (length rs) ->
  getc (init_cells 0 rs) k = {| cp := k - 1; cn := k + 1; cr := [nth (Z.to_nat k) rs 0%N] |}.
Proof. intros Hk. unfold getc. rewrite init_cells_nth by lia. f_equal; lia. Qed.

Lemma init_CInv rs : CInv (init_cells 0 rs).
Proof.
  intros i Hi _. unfold zlen in Hi. rewrite init_cells_length in Hi.
  rewrite init_cells_getc by lia. cbn [cp cn]. repeat split; try lia; intros k Hk; lia.
Qed.

Lemma init_PV rs i : 0 <= i -> i + 1 < Z.of_nat (length rs) -> PV (init_cells 0 rs) i (i + 1).
Proof.
  intros H1 H2. split; [lia|]. split; [unfold zlen; rewrite init_cells_length; lia|]. intros k Hk; lia.
Qed.
