(** The list-based vocabulary [vocab_of] (= model.Vocabulary) satisfies the hypotheses the theorems put on an
    abstract vocabulary. *)
From Coq Require Import List NArith ZArith Bool Arith Lia.
From V Require Import Common.Bytes Tok.Vocab Tok.BpeProofs.
Import ListNotations.
Open Scope Z_scope.

Lemma last_index_from_spec i l s acc :
  0 <= i ->
  let r := last_index_from i l s acc in
  r = acc \/ (i <= r < i + Z.of_nat (length l) /\ nth_error l (Z.to_nat (r - i)) = Some s).
Proof.
  revert i acc. induction l as [|x l IH]; intros i acc Hi; cbn [last_index_from]; [left; reflexivity|].
  destruct (IH (i + 1) (if eqb_str x s then i else acc)) as [H|[H1 H2]]; [lia| |].
  - rewrite H. destruct (eqb_str x s) eqn:E; [|left; reflexivity].
    right. apply eqb_str_spec in E. subst x. split; [cbn [length]; lia|].
    rewrite Z.sub_diag. reflexivity.
  - right. split; [cbn [length]; lia|].
    replace (Z.to_nat (last_index_from (i + 1) l s (if eqb_str x s then i else acc) - i))
      with (S (Z.to_nat (last_index_from (i + 1) l s (if eqb_str x s then i else acc) - (i + 1)))) by lia.
    exact H2.
Qed.

Lemma last_index_range l s : -1 <= last_index l s < Z.of_nat (length l).
Proof. unfold last_index. destruct (last_index_from_spec 0 l s (-1)) as [H|[H _]]; lia. Qed.

Lemma last_index_nth l s : 0 <= last_index l s -> nth_error l (Z.to_nat (last_index l s)) = Some s.
Proof.
  unfold last_index. intros H. destruct (last_index_from_spec 0 l s (-1)) as [E|[_ E]]; [lia|lia|].
  rewrite Z.sub_0_r in E. exact E.
Qed.

Lemma last_index_from_mono i l s acc : 0 <= acc -> 0 <= i -> 0 <= last_index_from i l s acc.
Proof.
  revert i acc. induction l as [|x l IH]; intros i acc Ha Hi; cbn [last_index_from]; [exact Ha|].
  apply IH; [destruct (eqb_str x s); lia|lia].
Qed.

Lemma last_index_from_In i l s acc : 0 <= i -> In s l -> 0 <= last_index_from i l s acc.
Proof.
  revert i acc. induction l as [|x l IH]; intros i acc Hi Hin; [destruct Hin|].
  cbn [last_index_from]. destruct Hin as [->|Hin].
  - replace (eqb_str s s) with true by (symmetry; apply eqb_str_spec; reflexivity).
    apply last_index_from_mono; lia.
  - apply IH; [lia|exact Hin].
Qed.

Lemma last_index_In l s : In s l -> 0 <= last_index l s.
Proof. apply last_index_from_In. lia. Qed.

Lemma specials_from_incl i values types : incl (specials_from i values types) values.
Proof.
  revert i types. induction values as [|x values IH]; intros i types y Hy; [destruct Hy|].
  cbn [specials_from] in Hy. destruct (_ || _) in Hy.
  - destruct Hy as [->|Hy]; [left; reflexivity|right; eapply IH; exact Hy].
  - right. eapply IH; exact Hy.
Qed.

Section VocabOf.
  Variables (values : list str) (types : list N) (scores : list Z) (merges : list str) (bos eos : Z) (ab ae : bool).
  Let v := vocab_of values types scores merges bos eos ab ae.

  Lemma vocab_of_consistent : vocab_consistent v.
  Proof.
    intros s H. cbn in *. unfold nth_str. replace (last_index values s <? 0) with false by lia.
    apply last_index_nth, H.
  Qed.

  Lemma vocab_of_range : vocab_range v.
  Proof. intros s. cbn. apply last_index_range. Qed.

  Lemma vocab_of_specials : specials_in_vocab v.
  Proof. intros sp H. cbn in *. apply last_index_In. eapply specials_from_incl. exact H. Qed.
End VocabOf.
