(** BytePairEncoding.Encode / Decode of model/process_text.go.  The pre-tokeniser (regexp2) is the parameter
    [split].  Definitions only. *)
From Coq Require Import List NArith ZArith Bool Arith.
From V Require Import Common.Bytes Tok.Utf8 Tok.ByteMap Tok.Heap Tok.Vocab Tok.Special.
Import ListNotations.

(** [merge{p, n, runes}] *)
Record cell := { cp : Z; cn : Z; cr : list N }.
Definition dcell : cell := {| cp := -1; cn := 0; cr := [] |}.

(** [pair{a, b, rank, value}] *)
Record bpair := { pa : Z; pb : Z; prank : Z; pval : str }.
Definition dpair : bpair := {| pa := 0; pb := 0; prank := 0; pval := [] |}.

(** heap order: [cmp.Compare(i.rank, j.rank)] *)
Definition bless (x y : bpair) : bool := (prank x <? prank y)%Z.

Definition getc (cells : list cell) (i : Z) : cell := nth (Z.to_nat i) cells dcell.
Definition setc (cells : list cell) (i : Z) (c : cell) : list cell := upd (Z.to_nat i) c cells.
Definition isnil {A} (l : list A) : bool := match l with [] => true | _ => false end.

(** the four assignments of a merge, shared by both encoders:
    [merges[a].runes = append(left.runes, right.runes...); merges[b].runes = nil; merges[a].n = right.n;
     if right.n < len(merges) { merges[right.n].p = a }] *)
Definition merge_cells (cells : list cell) (a b : Z) : list cell :=
  let left := getc cells a in
  let right := getc cells b in
  let c1 := setc cells a {| cp := cp left; cn := cn right; cr := cr left ++ cr right |} in
  let c2 := setc c1 b {| cp := cp right; cn := cn right; cr := [] |} in
  if (cn right <? Z.of_nat (length cells))%Z
  then setc c2 (cn right) {| cp := a; cn := cn (getc c2 (cn right)); cr := cr (getc c2 (cn right)) |}
  else c2.

Section Bpe.
  Variable v : vocab.

  (** [merges[r] = merge{p: r-1, n: r+1, runes: []rune{runes[r]}}] *)
  Fixpoint init_cells (i : Z) (rs : list N) : list cell :=
    match rs with
    | [] => []
    | r :: t => {| cp := i - 1; cn := i + 1; cr := [r] |} :: init_cells (i + 1) t
    end.

  (** the closure [pairwise]; [len] is [len(runes)] *)
  Definition bpairwise (len : Z) (cells : list cell) (a b : Z) : option bpair :=
    if ((a <? 0) || (len <=? b))%Z then None
    else
      let left := of_runes (cr (getc cells a)) in
      let right := of_runes (cr (getc cells b)) in
      let rank := vmerge v left right in
      if (rank <? 0)%Z then None
      else Some {| pa := a; pb := b; prank := rank; pval := left ++ right |}.

  Definition push_opt (h : list bpair) (o : option bpair) : list bpair :=
    match o with Some p => hpush bless dpair h p | None => h end.

  (** [for i := range len(runes) - 1 { if pair := pairwise(i, i+1); pair != nil { pairs.Push(pair) } }] *)
  Fixpoint init_heap (n : nat) (len : Z) (cells : list cell) (i : Z) (h : list bpair) : list bpair :=
    match n with
    | O => h
    | S n' => init_heap n' len cells (i + 1) (push_opt h (bpairwise len cells i (i + 1)))
    end.

  (** one iteration of [for !pairs.Empty()] *)
  Definition bpe_step (len : Z) (cells : list cell) (p : bpair) (h : list bpair) : list cell * list bpair :=
    let left := getc cells (pa p) in
    let right := getc cells (pb p) in
    if isnil (cr left) || isnil (cr right) || negb (eqb_str (of_runes (cr left) ++ of_runes (cr right)) (pval p))
    then (cells, h)
    else if (venc v (pval p) <? 0)%Z then (cells, h)
    else
      let c4 := merge_cells cells (pa p) (pb p) in
      let h1 := push_opt h (bpairwise len c4 (cp (getc c4 (pa p))) (pa p)) in
      let h2 := push_opt h1 (bpairwise len c4 (pa p) (cn (getc c4 (pa p)))) in
      (c4, h2).

  Fixpoint bpe_loop (fuel : nat) (len : Z) (cells : list cell) (h : list bpair) : list cell * list bpair :=
    match fuel with
    | O => (cells, h)
    | S f =>
      match hpop bless dpair h with
      | None => (cells, h)
      | Some (p, h') => let '(cells', h'') := bpe_step len cells p h' in bpe_loop f len cells' h''
      end
    end.

  (** final scan: every non-empty cell becomes its id if it has one (a piece without id is dropped) *)
  Definition cell_ids (cells : list cell) : list Z :=
    flat_map (fun c => if isnil (cr c) then []
                       else let id := venc v (of_runes (cr c)) in if (id <? 0)%Z then [] else [id]) cells.

  (** every push is preceded by a pop or is one of at most [len - 1] initial pushes; every merge pushes at
      most two and there are at most [len - 1] merges: 3 * len bounds the number of iterations *)
  Definition bpe_fuel (n : nat) : nat := 3 * n + 1.

  Definition bpe_cells (rs : list N) : list cell * list bpair :=
    let len := Z.of_nat (length rs) in
    let cells := init_cells 0 rs in
    let h := init_heap (length rs - 1) len cells 0 [] in
    bpe_loop (bpe_fuel (length rs)) len cells h.

  (** one pre-token [split] *)
  Definition bpe_piece (piece : str) : list Z :=
    let sb := map_bytes piece in
    let id := venc v sb in
    if (0 <=? id)%Z then [id]
    else cell_ids (fst (bpe_cells (to_runes sb))).

  Definition add_special (addSpecial : bool) (ids : list Z) : list Z :=
    if addSpecial && negb (isnil ids)
    then (if vaddbos v then [vbos v] else []) ++ ids ++ (if vaddeos v then [veos v] else [])
    else ids.

  Section WithSplit.
    Variable split : str -> list str.

    Definition bpe_frag (f : frag) : list Z :=
      match f with
      | FSpec _ id => [id]
      | FText t => flat_map bpe_piece (split t)
      end.

    Definition bpe_encode_ids (s : str) : list Z := flat_map bpe_frag (fragments v s).
    Definition bpe_encode (s : str) (addSpecial : bool) : list Z := add_special addSpecial (bpe_encode_ids s).
  End WithSplit.

  (** Decode: every rune of every token string is unmapped and written as ONE byte; [None] = Go panics
      (id out of range) *)
  Fixpoint bpe_decode (ids : list Z) : option str :=
    match ids with
    | [] => Some []
    | id :: t =>
      match vdec v id, bpe_decode t with
      | Some tok, Some rest => Some (unmap_string tok ++ rest)
      | _, _ => None
      end
    end.
End Bpe.
