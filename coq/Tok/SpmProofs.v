(** SentencePiece: ReplaceAll at the rune level, the merge loop preserves the text (whatever the scores), byte
    fallback, Decode (Encode s) = s under the guards that exclude the two known findings, ids in the vocabulary. *)
From Coq Require Import List NArith ZArith Bool Arith Lia.
From V Require Import Common.Bytes Tok.Utf8 Tok.ByteMapProofs Tok.Utf8Proofs Tok.Heap Tok.HeapProofs Tok.Vocab
     Tok.Special Tok.SpecialProofs Tok.Bpe Tok.MergeProofs Tok.BpeProofs Tok.Spm.
Import ListNotations.

(** * strings.ReplaceAll *)
Section Replace.
  Variables old new : str.

  Lemma replace_go_skip k a rest : length a = k -> replace_go old new k (a ++ rest) = replace_go old new 0 rest.
  Proof.
    revert k. induction a as [|c a IH]; intros k Hk; cbn in Hk; subst k; [reflexivity|].
    cbn [app replace_go]. apply IH. reflexivity.
  Qed.

  Lemma replace_match rest : old <> [] -> replace_all old new (old ++ rest) = new ++ replace_all old new rest.
  Proof.
    intros Hne. unfold replace_all.
    assert (Hp : prefixb old (old ++ rest) = true) by (apply prefixb_spec, Prefix_app_r).
    remember (old ++ rest) as s eqn:Es. destruct s as [|c t].
    { destruct old; [congruence|discriminate]. }
    cbn [replace_go]. rewrite Hp. f_equal.
    destruct old as [|c' o'] eqn:Eo; [congruence|]. cbn [app] in Es. injection Es as -> ->.
    rewrite <- Eo. apply replace_go_skip. rewrite Eo. cbn. lia.
  Qed.

  Lemma replace_nomatch_run a rest :
    (forall i, (i < length a)%nat -> prefixb old (skipn i a ++ rest) = false) ->
    replace_all old new (a ++ rest) = a ++ replace_all old new rest.
  Proof.
    unfold replace_all. induction a as [|c a IH]; intros H; [reflexivity|].
    cbn [app replace_go]. pose proof (H 0%nat) as H0. cbn [skipn app length] in H0. rewrite H0 by lia.
    f_equal. apply IH. intros i Hi. apply (H (S i)). cbn. lia.
  Qed.

  Lemma replace_no_infix x : ~ Infix old x -> replace_all old new x = x.
  Proof.
    intros Hn. rewrite <- (app_nil_r x) at 1. rewrite replace_nomatch_run; [cbn; apply app_nil_r|].
    intros i Hi. rewrite app_nil_r. apply prefixb_false. intros [r Hr]. apply Hn.
    exists (firstn i x), r. rewrite <- Hr. symmetry. apply firstn_skipn.
  Qed.
End Replace.

(** * the two replacements at the rune level *)
Open Scope N_scope.
Definition usep : N := 9601.
Definition sp2sep (r : N) : N := if r =? 32 then usep else r.
Definition sep2sp (r : N) : N := if r =? usep then 32 else r.

Lemma encode_usep : encode_rune usep = sep.
Proof. reflexivity. Qed.
Lemma encode_space : encode_rune 32 = [32].
Proof. reflexivity. Qed.
Lemma scalar_usep : is_scalar usep = true.
Proof. reflexivity. Qed.
Lemma scalar_space : is_scalar 32 = true.
Proof. reflexivity. Qed.

Lemma encode_low r : r < 128 -> encode_rune r = [r].
Proof. intros H. unfold encode_rune. replace (r <? 128) with true by lia. reflexivity. Qed.

Lemma encode_high r : 128 <= r -> Forall (fun b => 128 <= b) (encode_rune r).
Proof.
  intros H. unfold encode_rune. replace (r <? 128) with false by lia.
  destruct (r <? 2048); [repeat constructor; lia|].
  destruct (_ || _); [repeat constructor; lia|].
  destruct (r <? 65536); repeat constructor; lia.
Qed.

Lemma skipn_head_in {A} i (a : list A) rest :
  (i < length a)%nat -> exists c t, skipn i a ++ rest = c :: t /\ In c (skipn i a) /\ (i = 0%nat -> Some c = hd_error a).
Proof.
  revert i. induction a as [|x a IH]; intros i Hi; [cbn in Hi; lia|].
  destruct i as [|i].
  - exists x, (a ++ rest). cbn. auto.
  - cbn [skipn]. destruct (IH i) as [c [t [H1 [H2 _]]]]; [cbn in Hi; lia|]. exists c, t. split; [exact H1|]. split; [exact H2|lia].
Qed.

Lemma replace_space_rune r rest :
  is_scalar r = true ->
  replace_all [32] sep (encode_rune r ++ rest) = encode_rune (sp2sep r) ++ replace_all [32] sep rest.
Proof.
  intros Hs. unfold sp2sep. destruct (r =? 32) eqn:E.
  - apply N.eqb_eq in E. subst r. rewrite encode_space, encode_usep. apply replace_match. discriminate.
  - apply replace_nomatch_run. intros i Hi.
    destruct (skipn_head_in i (encode_rune r) rest Hi) as [c [t [-> [Hin _]]]].
    assert (Hc : c <> 32).
    { assert (Hin' : In c (encode_rune r)).
      { rewrite <- (firstn_skipn i (encode_rune r)). apply in_or_app. right. exact Hin. }
      destruct (N.lt_ge_cases r 128) as [Hl|Hl].
      - rewrite encode_low in Hin' by exact Hl. destruct Hin' as [<-|[]]. lia.
      - pose proof (encode_high r Hl) as Hh. rewrite Forall_forall in Hh. specialize (Hh c Hin'). lia. }
    cbn [prefixb]. replace (32 =? c) with false by lia. reflexivity.
Qed.

Lemma replace_space_runes rs :
  scalars rs -> replace_all [32] sep (of_runes rs) = of_runes (map sp2sep rs).
Proof.
  induction 1 as [|r rs Hr Hs IH]; [reflexivity|].
  cbn [map]. rewrite !of_runes_cons. rewrite replace_space_rune by exact Hr. rewrite IH. reflexivity.
Qed.

Lemma replace_sep_rune r rest :
  is_scalar r = true ->
  replace_all sep [32] (encode_rune r ++ rest) = encode_rune (sep2sp r) ++ replace_all sep [32] rest.
Proof.
  intros Hs. unfold sep2sp. destruct (r =? usep) eqn:E.
  - apply N.eqb_eq in E. subst r. rewrite encode_space, encode_usep. apply replace_match. discriminate.
  - apply replace_nomatch_run. intros i Hi. apply prefixb_false. intros [y Hy].
    destruct i as [|i].
    + cbn [skipn] in Hy. rewrite <- encode_usep in Hy.
      apply encode_head_inj in Hy as [Hy _]; [|exact Hs|exact scalar_usep]. lia.
    + destruct (encode_shape r) as [b0 [t [Er [_ [Hct _]]]]]. rewrite Er in Hy, Hi. cbn [skipn] in Hy.
      destruct (skipn_head_in i t rest) as [c [t' [Hc [Hin _]]]]; [cbn in Hi; lia|].
      rewrite Hc in Hy. unfold sep in Hy. cbn [app] in Hy. injection Hy as Hy _. subst c.
      assert (Hin' : In 226 t) by (rewrite <- (firstn_skipn i t); apply in_or_app; right; exact Hin).
      rewrite forallb_forall in Hct. specialize (Hct 226 Hin'). discriminate.
Qed.

Lemma replace_sep_runes rs :
  scalars rs -> replace_all sep [32] (of_runes rs) = of_runes (map sep2sp rs).
Proof.
  induction 1 as [|r rs Hr Hs IH]; [reflexivity|].
  cbn [map]. rewrite !of_runes_cons. rewrite replace_sep_rune by exact Hr. rewrite IH. reflexivity.
Qed.

Lemma scalars_sp2sep rs : scalars rs -> scalars (map sp2sep rs).
Proof.
  induction 1 as [|r rs Hr Hs IH]; constructor; [|exact IH].
  unfold sp2sep. destruct (r =? 32); [reflexivity|exact Hr].
Qed.

Lemma sep2sp_sp2sep rs : ~ In usep rs -> map sep2sp (map sp2sep rs) = rs.
Proof.
  induction rs as [|r rs IH]; intros Hn; [reflexivity|]. cbn [map]. rewrite IH by (intro; apply Hn; right; assumption).
  f_equal. unfold sep2sp, sp2sep. destruct (r =? 32) eqn:E.
  - apply N.eqb_eq in E. subst r. reflexivity.
  - replace (r =? usep) with false; [reflexivity|]. symmetry. apply N.eqb_neq. intros ->. apply Hn. left. reflexivity.
Qed.

Lemma In_usep_infix rs : In usep rs -> Infix sep (of_runes rs).
Proof.
  intros H. apply in_split in H as [a [b ->]]. rewrite of_runes_app', of_runes_cons, encode_usep.
  exists (of_runes a), (of_runes b). reflexivity.
Qed.

Open Scope Z_scope.

(** * hypotheses on the vocabulary *)
(** "covers every byte": every byte token is present - and the whitespace marker itself is a token (without it a
    space falls back to the three bytes of U+2581 and decodes as U+2581) *)
Definition spm_complete (v : vocab) : Prop :=
  (forall b, (b < 256)%N -> 0 <= venc v (byte_token b)) /\ 0 <= venc v sep.
Definition valid_text (t : str) : Prop := exists rt, scalars rt /\ t = of_runes rt.
(** special tokens are non-empty valid UTF-8 *)
Definition specials_valid (v : vocab) : Prop :=
  forall sp, In sp (vspecials v) -> exists rsp, scalars rsp /\ rsp <> [] /\ sp = of_runes rsp.

(** * the merge loop *)
Section SpmLoop.
  Variable v : vocab.

  Definition P3 (x : list N) : Prop := x = [] \/ (exists r, x = [r]) \/ 0 <= venc v (of_runes x).
  Definition VInvS (cells : list cell) : Prop := Forall (fun c => P3 (cr c)) cells.

  Definition cand_ok (cells : list cell) (q : cand) : Prop :=
    PV cells (ca q) (cb q) /\
    exists L0 R0, csize q = (length (of_runes L0) + length (of_runes R0))%nat /\
                  0 <= venc v (of_runes L0 ++ of_runes R0) /\
                  (~ emp cells (ca q) -> Prefix L0 (cr (getc cells (ca q)))) /\
                  (~ emp cells (cb q) -> Prefix R0 (cr (getc cells (cb q)))).
  Definition HInvS (cells : list cell) (h : list cand) : Prop := Forall (cand_ok cells) h.

  Record SInv (rs : list N) (cells : list cell) (h : list cand) : Prop := {
    si_len : length cells = length rs;
    si_cinv : CInv cells;
    si_text : text cells = rs;
    si_vinv : VInvS cells;
    si_hinv : HInvS cells h }.

  Lemma spairwise_some len cells x y q :
    spairwise v len cells x y = Some q ->
    ca q = x /\ cb q = y /\ 0 <= x /\ y < len /\
    csize q = (length (of_runes (cr (getc cells x))) + length (of_runes (cr (getc cells y))))%nat /\
    0 <= venc v (of_runes (cr (getc cells x)) ++ of_runes (cr (getc cells y))).
  Proof.
    unfold spairwise. destruct ((x <? 0) || (len <=? y)) eqn:E; [discriminate|]. cbv zeta.
    match goal with |- context [if ?c then _ else None] => destruct c eqn:E2 end; [|discriminate].
    intros [= <-]. cbn. repeat split; lia.
  Qed.

  Lemma HInvS_push cells h o :
    HInvS cells h -> (forall q, o = Some q -> cand_ok cells q) -> HInvS cells (spush_opt h o).
  Proof.
    intros Hh Ho. destruct o as [q|]; cbn [spush_opt]; [|exact Hh].
    apply Forall_forall. intros y Hy. apply hpush_In in Hy as [->|Hy]; [apply Ho; reflexivity|].
    unfold HInvS in Hh. rewrite Forall_forall in Hh. apply Hh, Hy.
  Qed.

  Lemma new_cand_ok len cells x y q :
    spairwise v len cells x y = Some q -> PV cells x y -> cand_ok cells q.
  Proof.
    intros Hq Hpv. apply spairwise_some in Hq as [E1 [E2 [H0 [H1 [H2 H3]]]]].
    unfold cand_ok. rewrite E1, E2.
    split; [exact Hpv|]. exists (cr (getc cells x)), (cr (getc cells y)).
    split; [exact H2|]. split; [exact H3|]. split; intros _; apply Prefix_refl.
  Qed.

  (** contents only grow while a cell is non-empty *)
  Lemma mc_grow cells a b k :
    CInv cells -> PV cells a b -> ~ emp cells a -> ~ emp cells b -> 0 <= k ->
    ~ emp (merge_cells cells a b) k ->
    ~ emp cells k /\ Prefix (cr (getc cells k)) (cr (getc (merge_cells cells a b) k)).
  Proof.
    intros HI HP Ha Hb Hk Hne.
    destruct (Z.eq_dec k a) as [->|Hka].
    - split; [exact Ha|]. rewrite mc_get_a by assumption. cbn [cr]. apply Prefix_app_r.
    - destruct (mc_nonemp_inv cells a b HI HP Ha Hb k Hk Hka Hne) as [H1 H2]. split; [exact H1|].
      destruct (Z.eq_dec k (cn (getc cells b))) as [->|Hkc].
      + destruct (Z_lt_dec (cn (getc cells b)) (zlen cells)) as [Hc|Hc].
        * rewrite mc_get_c by assumption. cbn [cr]. apply Prefix_refl.
        * exfalso. apply H1. unfold emp. rewrite getc_out by lia. reflexivity.
      + rewrite mc_get_other by assumption. apply Prefix_refl.
  Qed.

  Lemma cand_ok_mono cells a b q :
    CInv cells -> PV cells a b -> ~ emp cells a -> ~ emp cells b ->
    cand_ok cells q -> cand_ok (merge_cells cells a b) q.
  Proof.
    intros HI HP Ha Hb [Hpv [L0 [R0 [H1 [H2 [H3 H4]]]]]].
    split; [apply mc_PV; assumption|]. exists L0, R0. split; [exact H1|]. split; [exact H2|].
    destruct Hpv as [Hx [Hy _]]. split; intros Hne.
    - destruct (mc_grow cells a b (ca q) HI HP Ha Hb ltac:(lia) Hne) as [G1 G2].
      eapply Prefix_trans; [apply H3, G1|exact G2].
    - destruct (mc_grow cells a b (cb q) HI HP Ha Hb ltac:(lia) Hne) as [G1 G2].
      eapply Prefix_trans; [apply H4, G1|exact G2].
  Qed.

  Lemma of_runes_length_app x y : length (of_runes (x ++ y)) = (length (of_runes x) + length (of_runes y))%nat.
  Proof. rewrite of_runes_app', app_length. reflexivity. Qed.

  Lemma of_runes_len0 x : length (of_runes x) = 0%nat -> x = [].
  Proof. intros H. apply of_runes_nil_inv. destruct (of_runes x); [reflexivity|discriminate]. Qed.

  Lemma spm_step_inv rs cells p h :
    SInv rs cells h -> cand_ok cells p ->
    let '(cells', h') := spm_step v (zlen cells) cells p h in SInv rs cells' h'.
  Proof.
    intros [Hlen HC Ht HV HH] [Hp [L0 [R0 [Hsz [Hv0 [HpL HpR]]]]]]. unfold spm_step.
    destruct (isnil (cr (getc cells (ca p)))) eqn:E1; cbn [orb]; [constructor; assumption|].
    destruct (isnil (cr (getc cells (cb p)))) eqn:E2; cbn [orb]; [constructor; assumption|].
    destruct (Nat.eqb _ (csize p)) eqn:E3; cbn [negb]; [|constructor; assumption].
    apply isnil_false in E1, E2. apply Nat.eqb_eq in E3.
    assert (Ha : ~ emp cells (ca p)) by exact E1.
    assert (Hb : ~ emp cells (cb p)) by exact E2.
    destruct (HpL Ha) as [x Hx]. destruct (HpR Hb) as [y Hy].
    rewrite Hx, Hy, !of_runes_length_app in E3.
    assert (x = []) by (apply of_runes_len0; lia). assert (y = []) by (apply of_runes_len0; lia). subst x y.
    rewrite app_nil_r in Hx, Hy.
    set (cells' := merge_cells cells (ca p) (cb p)).
    assert (HC' : CInv cells') by (apply mc_CInv; assumption).
    constructor.
    - unfold cells'. rewrite mc_length by assumption. exact Hlen.
    - exact HC'.
    - unfold cells'. rewrite mc_text by assumption. exact Ht.
    - unfold VInvS, cells'. apply (mc_Forall P3); [left; reflexivity|exact HV|].
      right. right. rewrite Hx, Hy, of_runes_app'. exact Hv0.
    - apply HInvS_push; [apply HInvS_push|].
      + unfold HInvS in *. eapply Forall_impl; [|exact HH]. intros q Hq. apply cand_ok_mono; assumption.
      + intros q Hq. eapply new_cand_ok; [exact Hq|].
        apply spairwise_some in Hq as [_ [_ [H0 _]]]. apply mc_PV_left; assumption.
      + intros q Hq. eapply new_cand_ok; [exact Hq|].
        apply spairwise_some in Hq as [_ [_ [_ [H1 _]]]]. apply mc_PV_right; assumption.
  Qed.

  Lemma spm_loop_inv rs fuel len cells h :
    len = zlen cells -> SInv rs cells h ->
    let '(cells', h') := spm_loop v fuel len cells h in SInv rs cells' h'.
  Proof.
    intros ->. revert cells h. induction fuel as [|f IH]; intros cells h HB; cbn [spm_loop]; [exact HB|].
    destruct (hpop sless dcand h) as [[p h1]|] eqn:E; [|exact HB].
    apply hpop_spec in E as [Hin [Hincl _]].
    assert (Hp : cand_ok cells p).
    { destruct HB as [_ _ _ _ HH]. unfold HInvS in HH. rewrite Forall_forall in HH. apply HH, Hin. }
    assert (HB1 : SInv rs cells h1).
    { destruct HB as [H1 H2 H3 H4 HH]. constructor; try assumption.
      unfold HInvS in *. rewrite Forall_forall in *. intros q Hq. apply HH, Hincl, Hq. }
    pose proof (spm_step_inv rs cells p h1 HB1 Hp) as Hs.
    destruct (spm_step v (zlen cells) cells p h1) as [cells' h'] eqn:Es.
    assert (Hz : zlen cells' = zlen cells).
    { unfold zlen. destruct Hs as [L1 _ _ _ _]. destruct HB as [L2 _ _ _ _]. rewrite L1, L2. reflexivity. }
    rewrite <- Hz. apply IH. exact Hs.
  Qed.

  Lemma sinit_heap_inv rs n i h :
    0 <= i -> HInvS (init_cells 0 rs) h ->
    HInvS (init_cells 0 rs) (sinit_heap v n (Z.of_nat (length rs)) (init_cells 0 rs) i h).
  Proof.
    revert i h. induction n as [|n IH]; intros i h Hi Hh; cbn [sinit_heap]; [exact Hh|].
    apply IH; [lia|]. apply HInvS_push; [exact Hh|].
    intros q Hq. eapply new_cand_ok; [exact Hq|].
    apply spairwise_some in Hq as [_ [_ [H0 [H1 _]]]]. apply init_PV; lia.
  Qed.

  Lemma init_VInvS rs i : VInvS (init_cells i rs).
  Proof.
    revert i. induction rs as [|r rs IH]; intros i; cbn [init_cells]; constructor; [|apply IH].
    right. left. exists r. reflexivity.
  Qed.

  (** the state after the loop, for ANY scores: same text; every cell is empty, a single rune, or a token *)
  Lemma spm_cells_inv rs : let '(cells, h) := spm_cells v rs in SInv rs cells h.
  Proof.
    unfold spm_cells. apply spm_loop_inv; [unfold zlen; rewrite init_cells_length; reflexivity|]. constructor.
    - apply init_cells_length.
    - apply init_CInv.
    - apply init_cells_text.
    - apply init_VInvS.
    - apply sinit_heap_inv; [lia|constructor].
  Qed.
End SpmLoop.

(** * Decode *)
Definition no_shape (s : str) : Prop := forall w, Infix w s -> is_byte_shape w = false.

Lemma Infix_trans (a b c : str) : Infix a b -> Infix b c -> Infix a c.
Proof. intros [x [y ->]] [x' [y' ->]]. exists (x' ++ x), (y ++ y'). rewrite <- !app_assoc. reflexivity. Qed.

Lemma Infix_refl (a : str) : Infix a a.
Proof. exists [], []. cbn. symmetry. apply app_nil_r. Qed.

Section SpmDecode.
  Variable v : vocab.
  Hypothesis Hcons : vocab_consistent v.
  Hypothesis Hcomplete : spm_complete v.

  Lemma spm_decode_app a b x y :
    spm_decode v a = DOk x -> spm_decode v b = DOk y -> spm_decode v (a ++ b) = DOk (x ++ y).
  Proof.
    revert x. induction a as [|id a IH]; intros x Ha Hb; cbn [app spm_decode] in *.
    - injection Ha as <-. exact Hb.
    - destruct (vdec v id) as [tok|]; [|discriminate]. destruct (spm_dec_token tok) as [bs|]; [|discriminate].
      destruct (spm_decode v a) as [r| |]; try discriminate.
      injection Ha as <-. rewrite (IH r eq_refl Hb). rewrite app_assoc. reflexivity.
  Qed.

  Definition byte_tok_ok (b : N) : bool :=
    match spm_dec_token (byte_token b) with Some [x] => (x =? b)%N | _ => false end.

  Lemma byte_token_decode b : (b < 256)%N -> spm_dec_token (byte_token b) = Some [b].
  Proof.
    intros Hb. assert (H := forall_bytes byte_tok_ok eq_refl b Hb). unfold byte_tok_ok in H.
    destruct (spm_dec_token (byte_token b)) as [[|x [|? ?]]|]; try discriminate.
    apply N.eqb_eq in H. subst x. reflexivity.
  Qed.

  Lemma fallback_decode tok : is_bytes tok -> spm_decode v (byte_fallback v tok) = DOk tok.
  Proof.
    destruct Hcomplete as [Hbt _]. induction 1 as [|b tok Hb Ht IH]; [reflexivity|].
    unfold byte_fallback. cbn [flat_map]. fold (byte_fallback v tok).
    replace (0 <=? venc v (byte_token b)) with true by (specialize (Hbt b Hb); lia).
    cbn [app spm_decode]. rewrite Hcons by (apply Hbt, Hb). rewrite byte_token_decode by exact Hb.
    rewrite IH. reflexivity.
  Qed.

  (** a token whose text (U+2581 back to space) has not the shape of a byte token decodes to that text *)
  Lemma token_decode rs :
    scalars rs -> 0 <= venc v (of_runes rs) -> is_byte_shape (of_runes (map sep2sp rs)) = false ->
    spm_decode v [venc v (of_runes rs)] = DOk (of_runes (map sep2sp rs)).
  Proof.
    intros Hs Hv Hsh. cbn [spm_decode]. rewrite Hcons by exact Hv.
    unfold spm_dec_token. rewrite replace_sep_runes by exact Hs. rewrite Hsh. rewrite app_nil_r. reflexivity.
  Qed.

  Lemma scalars_app a b : scalars (a ++ b) <-> scalars a /\ scalars b.
  Proof. apply Forall_app. Qed.

  Lemma spm_cell_ids_decode cells :
    VInvS v cells -> scalars (text cells) ->
    (forall c, In c cells -> is_byte_shape (of_runes (map sep2sp (cr c))) = false) ->
    spm_decode v (spm_cell_ids v cells) = DOk (of_runes (map sep2sp (text cells))).
  Proof.
    intros HV. induction HV as [|c cells Hc HV IH]; intros Hs Hsh; [reflexivity|].
    unfold text, texts in Hs |- *. cbn [map concat] in Hs |- *. apply scalars_app in Hs as [Hs1 Hs2].
    unfold spm_cell_ids. cbn [flat_map]. fold (spm_cell_ids v cells).
    rewrite map_app, of_runes_app'.
    assert (IH' : spm_decode v (spm_cell_ids v cells) = DOk (of_runes (map sep2sp (concat (map cr cells))))).
    { apply IH; [exact Hs2|]. intros c' Hc'. apply Hsh. right. exact Hc'. }
    destruct (isnil (cr c)) eqn:En.
    - apply isnil_true in En. rewrite En. cbn [app map of_runes flat_map]. exact IH'.
    - apply isnil_false in En.
      destruct (0 <=? venc v (of_runes (cr c))) eqn:Ev.
      + apply spm_decode_app; [|exact IH'].
        apply token_decode; [exact Hs1|lia|apply Hsh; left; reflexivity].
      + apply spm_decode_app; [|exact IH'].
        destruct Hc as [Hc|[[r Hr]|Hc]]; [contradiction| |lia].
        rewrite Hr in *. cbn [map]. unfold sep2sp.
        destruct (r =? usep)%N eqn:Er.
        { apply N.eqb_eq in Er. subst r. cbn [of_runes flat_map] in Ev. rewrite app_nil_r, encode_usep in Ev.
          destruct Hcomplete as [_ Hsep]. lia. }
        apply fallback_decode. apply of_runes_bytes.
  Qed.
End SpmDecode.

(** * round trip *)
Section SpmRoundtrip.
  Variable v : vocab.
  Hypothesis Hcons : vocab_consistent v.
  Hypothesis Hcomplete : spm_complete v.
  Hypothesis Hspec : specials_in_vocab v.
  Hypothesis Hsv : specials_valid v.

  Lemma In_cells_infix cells c : In c cells -> exists x y, text cells = x ++ cr c ++ y.
  Proof.
    intros H. apply in_split in H as [a [b ->]]. unfold text, texts. rewrite map_app, concat_app. cbn [map concat].
    eexists _, _. reflexivity.
  Qed.

  (** one text fragment *)
  Lemma spm_text_roundtrip rt :
    scalars rt -> ~ In usep rt -> no_shape (of_runes rt) ->
    spm_decode v (spm_text v (of_runes rt)) = DOk (of_runes rt).
  Proof.
    intros Hs Hn Hsh. unfold spm_text. change [space] with [32%N].
    rewrite replace_space_runes by exact Hs.
    pose proof (scalars_sp2sep rt Hs) as Hs'.
    destruct (0 <=? venc v (of_runes (map sp2sep rt))) eqn:E.
    - rewrite token_decode; [|exact Hcons|exact Hs'|lia|].
      + rewrite sep2sp_sp2sep by exact Hn. reflexivity.
      + rewrite sep2sp_sp2sep by exact Hn. apply Hsh, Infix_refl.
    - rewrite to_runes_of_runes by exact Hs'.
      pose proof (spm_cells_inv v (map sp2sep rt)) as HI.
      destruct (spm_cells v (map sp2sep rt)) as [cells h]. cbn [fst].
      destruct HI as [_ _ Ht HV _].
      rewrite spm_cell_ids_decode; try assumption.
      + rewrite Ht, sep2sp_sp2sep by exact Hn. reflexivity.
      + rewrite Ht. exact Hs'.
      + intros c Hc. apply Hsh. destruct (In_cells_infix cells c Hc) as [x [y Hxy]].
        rewrite Ht in Hxy. apply (f_equal (map sep2sp)) in Hxy.
        rewrite sep2sp_sp2sep in Hxy by exact Hn. rewrite Hxy, !map_app, !of_runes_app'.
        eexists _, _. reflexivity.
  Qed.

  (** fragments of a valid text are valid (special tokens are valid and non-empty: UTF-8 self-synchronisation) *)
  Definition frag_valid (f : frag) : Prop := match f with FText t => valid_text t | FSpec _ _ => True end.

  Lemma split_one_valid fuel sp id t :
    (exists rsp, scalars rsp /\ rsp <> [] /\ sp = of_runes rsp) -> valid_text t ->
    Forall frag_valid (split_one fuel sp id t).
  Proof.
    intros [rsp [Hsp [Hne ->]]]. revert t. induction fuel as [|f IH]; intros t [rt [Hrt ->]]; cbn [split_one].
    - destruct (index_of (of_runes rt) (of_runes rsp)) as [i|] eqn:E.
      2:{ constructor; [|constructor]. exists rt. auto. }
      apply index_of_split in E as [Hv _].
      destruct (utf8_sync rt rsp _ _ Hrt Hsp Hne Hv) as [ra [rb [Ha [Hb [Ea [Eb _]]]]]].
      apply Forall_app. split.
      + destruct i; [constructor|]. constructor; [|constructor]. exists ra. auto.
      + constructor; [exact I|]. destruct (skipn _ _) eqn:Er; [constructor|].
        constructor; [|constructor]. exists rb. auto.
    - destruct (index_of (of_runes rt) (of_runes rsp)) as [i|] eqn:E.
      2:{ constructor; [|constructor]. exists rt. auto. }
      apply index_of_split in E as [Hv _].
      destruct (utf8_sync rt rsp _ _ Hrt Hsp Hne Hv) as [ra [rb [Ha [Hb [Ea [Eb _]]]]]].
      apply Forall_app. split.
      + destruct i; [constructor|]. constructor; [|constructor]. exists ra. auto.
      + constructor; [exact I|]. destruct (skipn _ _) eqn:Er; [constructor|]. rewrite <- Er. apply IH. exists rb. split; [exact Hb|rewrite Er; exact Eb].
  Qed.

  Lemma fold_split_valid sps fs :
    (forall sp, In sp sps -> exists rsp, scalars rsp /\ rsp <> [] /\ sp = of_runes rsp) ->
    Forall frag_valid fs ->
    Forall frag_valid (fold_left (fun fs sp => split_special sp (venc v sp) fs) sps fs).
  Proof.
    revert fs. induction sps as [|sp sps IH]; intros fs Hsp HF; cbn [fold_left]; [exact HF|].
    apply IH; [intros x Hx; apply Hsp; right; exact Hx|].
    unfold split_special. induction HF as [|f fs Hf HF IHf]; [constructor|]. cbn [flat_map].
    apply Forall_app. split; [|exact IHf].
    destruct f as [t|t i]; cbn [split_frag]; [|constructor; [exact I|constructor]].
    apply split_one_valid; [apply Hsp; left; reflexivity|exact Hf].
  Qed.

  Lemma fragments_valid s : valid_text s -> Forall frag_valid (fragments v s).
  Proof. intros Hs. unfold fragments. apply fold_split_valid; [exact Hsv|constructor; [exact Hs|constructor]]. Qed.

  Lemma Infix_not (a b c : str) : Infix b c -> ~ Infix a c -> ~ Infix a b.
  Proof. intros H1 H2 H3. apply H2. eapply Infix_trans; eassumption. Qed.

  Lemma spm_frag_roundtrip s f :
    valid_text s -> ~ Infix sep s -> no_shape s ->
    In f (fragments v s) -> spm_decode v (spm_frag v f) = DOk (frag_value f).
  Proof.
    intros Hs Hn Hsh Hin.
    pose proof (fragments_infix v s f Hin) as Hinf.
    pose proof (fragments_ok v s) as Hok. rewrite Forall_forall in Hok. specialize (Hok f Hin).
    pose proof (fragments_valid s Hs) as Hval. rewrite Forall_forall in Hval. specialize (Hval f Hin).
    destruct f as [t|sp id]; cbn [spm_frag frag_value frag_valid] in *.
    - destruct Hval as [rt [Hrt ->]]. apply spm_text_roundtrip; [exact Hrt| |].
      + intros Hu. apply In_usep_infix in Hu. apply Hn. eapply Infix_trans; eassumption.
      + intros w Hw. apply Hsh. eapply Infix_trans; eassumption.
    - destruct Hok as [Hsp ->]. cbn [spm_decode]. rewrite Hcons by (apply Hspec, Hsp).
      unfold spm_dec_token. rewrite replace_no_infix by (eapply Infix_not; eassumption).
      rewrite (Hsh sp Hinf). rewrite app_nil_r. reflexivity.
  Qed.

  Lemma spm_frags_roundtrip s fs :
    valid_text s -> ~ Infix sep s -> no_shape s ->
    incl fs (fragments v s) -> spm_decode v (flat_map (spm_frag v) fs) = DOk (frags_text fs).
  Proof.
    intros Hs Hn Hsh. induction fs as [|f fs IH]; intros Hi; [reflexivity|].
    cbn [flat_map]. unfold frags_text. cbn [map concat].
    apply spm_decode_app.
    - apply (spm_frag_roundtrip s); try assumption. apply Hi. left. reflexivity.
    - apply IH. intros x Hx. apply Hi. right. exact Hx.
  Qed.

  Theorem spm_roundtrip rs :
    scalars rs -> ~ Infix sep (of_runes rs) -> no_shape (of_runes rs) ->
    spm_decode v (spm_encode v (of_runes rs) false) = DOk (of_runes rs).
  Proof.
    intros Hs Hn Hsh. unfold spm_encode, add_special. cbn [andb]. unfold spm_encode_ids.
    rewrite (spm_frags_roundtrip (of_runes rs)); try assumption; [|exists rs; auto|apply incl_refl].
    rewrite fragments_text. reflexivity.
  Qed.
End SpmRoundtrip.

(** * ids in the vocabulary *)
Section SpmIds.
  Variable v : vocab.
  Hypothesis Hrange : vocab_range v.
  Hypothesis Hspec : specials_in_vocab v.

  Lemma byte_fallback_ok tok : Forall (id_ok v) (byte_fallback v tok).
  Proof.
    unfold byte_fallback. apply Forall_flat_map. intros b _.
    destruct (0 <=? venc v (byte_token b)) eqn:E; [|constructor].
    constructor; [|constructor]. split; [lia|apply Hrange].
  Qed.

  Lemma spm_cell_ids_ok cells : Forall (id_ok v) (spm_cell_ids v cells).
  Proof.
    unfold spm_cell_ids. apply Forall_flat_map. intros c _.
    destruct (isnil (cr c)); [constructor|].
    destruct (0 <=? venc v (of_runes (cr c))) eqn:E; [|apply byte_fallback_ok].
    constructor; [|constructor]. split; [lia|apply Hrange].
  Qed.

  Lemma spm_text_ok t : Forall (id_ok v) (spm_text v t).
  Proof.
    unfold spm_text. destruct (0 <=? venc v _) eqn:E; [|apply spm_cell_ids_ok].
    constructor; [|constructor]. split; [lia|apply Hrange].
  Qed.

  Theorem spm_ids_in_vocab s addsp :
    (vaddbos v = true -> id_ok v (vbos v)) -> (vaddeos v = true -> id_ok v (veos v)) ->
    Forall (id_ok v) (spm_encode v s addsp).
  Proof.
    intros Hb He. apply add_special_ok; [exact Hb|exact He|].
    unfold spm_encode_ids. apply Forall_flat_map. intros f Hf.
    pose proof (fragments_ok v s) as Hok. rewrite Forall_forall in Hok. specialize (Hok f Hf).
    destruct f as [t|sp id]; cbn [spm_frag]; [apply spm_text_ok|].
    destruct Hok as [Hsp ->]. constructor; [|constructor]. split; [apply Hspec, Hsp|apply Hrange].
  Qed.
End SpmIds.
