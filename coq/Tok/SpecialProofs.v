(** The special-token split is a partition of the input, and every special fragment is a special token with
    its own id. *)
From Coq Require Import List NArith ZArith Bool Arith Lia.
From V Require Import Common.Bytes Tok.Vocab Tok.Special.
Import ListNotations.

Definition frags_text (fs : list frag) : str := concat (map frag_value fs).

Lemma frags_text_app a b : frags_text (a ++ b) = frags_text a ++ frags_text b.
Proof. unfold frags_text. rewrite map_app, concat_app. reflexivity. Qed.

Lemma index_of_split v sp i :
  index_of v sp = Some i -> v = firstn i v ++ sp ++ skipn (i + length sp) v /\ (i <= length v)%nat.
Proof.
  intros H. apply index_of_some in H as [a [b [Hv [Hi _]]]]. subst i.
  assert (E1 : firstn (length a) v = a).
  { rewrite Hv. rewrite firstn_app, firstn_all, Nat.sub_diag. cbn. apply app_nil_r. }
  assert (E2 : skipn (length a + length sp) v = b).
  { rewrite Hv at 1. rewrite app_assoc. rewrite skipn_app, skipn_all2 by (rewrite app_length; lia).
    rewrite app_length, Nat.sub_diag. reflexivity. }
  rewrite E1, E2. split; [exact Hv|]. rewrite Hv, app_length. lia.
Qed.

Lemma split_one_text fuel sp id v : frags_text (split_one fuel sp id v) = v.
Proof.
  revert v. induction fuel as [|f IH]; intros v; cbn [split_one].
  - destruct (index_of v sp) as [i|] eqn:E; [|cbn; apply app_nil_r].
    apply index_of_split in E as [Hv _]. transitivity (firstn i v ++ sp ++ skipn (i + length sp) v); [|symmetry; exact Hv].
    rewrite frags_text_app. f_equal.
    + destruct i; cbn; [reflexivity|]. apply app_nil_r.
    + unfold frags_text. cbn [map concat frag_value]. f_equal.
      destruct (skipn (i + length sp) v); cbn; [reflexivity|]. rewrite app_nil_r. reflexivity.
  - destruct (index_of v sp) as [i|] eqn:E; [|cbn; apply app_nil_r].
    apply index_of_split in E as [Hv _]. transitivity (firstn i v ++ sp ++ skipn (i + length sp) v); [|symmetry; exact Hv].
    rewrite frags_text_app. f_equal.
    + destruct i; cbn; [reflexivity|]. apply app_nil_r.
    + unfold frags_text at 1. cbn [map concat frag_value]. f_equal.
      destruct (skipn (i + length sp) v) eqn:Er; [reflexivity|]. rewrite <- Er. apply IH.
Qed.

Lemma split_frag_text sp id f : frags_text (split_frag sp id f) = frag_value f.
Proof.
  destruct f as [t|t i]; cbn [split_frag frag_value].
  - apply split_one_text.
  - cbn. apply app_nil_r.
Qed.

Lemma split_special_text sp id fs : frags_text (split_special sp id fs) = frags_text fs.
Proof.
  unfold split_special. induction fs as [|f fs IH]; [reflexivity|].
  cbn [flat_map]. rewrite frags_text_app, IH, split_frag_text. reflexivity.
Qed.

Lemma fold_split_text v sps fs :
  frags_text (fold_left (fun fs sp => split_special sp (venc v sp) fs) sps fs) = frags_text fs.
Proof.
  revert fs. induction sps as [|sp sps IH]; intros fs; cbn [fold_left]; [reflexivity|].
  rewrite IH. apply split_special_text.
Qed.

(** the fragments are a partition of the input *)
Lemma fragments_text v s : frags_text (fragments v s) = s.
Proof. unfold fragments. rewrite fold_split_text. cbn. apply app_nil_r. Qed.

(** every special fragment carries a special token of the vocabulary and that token's id *)
Definition spec_ok (v : vocab) (sps : list str) (f : frag) : Prop :=
  match f with FText _ => True | FSpec sp id => In sp sps /\ id = venc v sp end.

Lemma split_one_ok v sps fuel sp t :
  In sp sps -> Forall (spec_ok v sps) (split_one fuel sp (venc v sp) t).
Proof.
  intros Hin. revert t. induction fuel as [|f IH]; intros t; cbn [split_one];
    (destruct (index_of t sp) as [i|]; [|repeat constructor]).
  - apply Forall_app. split; [destruct i; repeat constructor|].
    constructor; [split; [exact Hin|reflexivity]|]. destruct (skipn (i + length sp) t); repeat constructor.
  - apply Forall_app. split; [destruct i; repeat constructor|].
    constructor; [split; [exact Hin|reflexivity]|]. destruct (skipn (i + length sp) t); [constructor|apply IH].
Qed.

Lemma split_special_ok v sps sp fs :
  In sp sps -> Forall (spec_ok v sps) fs -> Forall (spec_ok v sps) (split_special sp (venc v sp) fs).
Proof.
  intros Hin HF. unfold split_special. induction HF as [|f fs Hf HF IH]; [constructor|].
  cbn [flat_map]. apply Forall_app. split; [|exact IH].
  destruct f as [t|t i]; cbn [split_frag]; [apply split_one_ok, Hin | constructor; [exact Hf|constructor]].
Qed.

Lemma fold_split_ok v all sps fs :
  incl sps all -> Forall (spec_ok v all) fs ->
  Forall (spec_ok v all) (fold_left (fun fs sp => split_special sp (venc v sp) fs) sps fs).
Proof.
  revert fs. induction sps as [|sp sps IH]; intros fs Hi HF; cbn [fold_left]; [exact HF|].
  apply IH; [intros x Hx; apply Hi; right; exact Hx|].
  apply split_special_ok; [apply Hi; left; reflexivity | exact HF].
Qed.

Lemma fragments_ok v s : Forall (spec_ok v (vspecials v)) (fragments v s).
Proof. unfold fragments. apply fold_split_ok; [apply incl_refl | repeat constructor]. Qed.

(** every fragment value is an infix of the input *)
Lemma In_frags_infix fs f : In f fs -> Infix (frag_value f) (frags_text fs).
Proof.
  intros H. apply in_split in H as [a [b ->]]. rewrite frags_text_app.
  exists (frags_text a), (frags_text b). unfold frags_text at 3. cbn [map concat]. reflexivity.
Qed.

Lemma fragments_infix v s f : In f (fragments v s) -> Infix (frag_value f) s.
Proof. intros H. apply In_frags_infix in H. rewrite fragments_text in H. exact H. Qed.
