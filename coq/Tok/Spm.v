(** SentencePieceModel.Encode / Decode of model/process_text_spm.go.  Definitions only. *)
From Coq Require Import List NArith ZArith Bool Arith.
From V Require Import Common.Bytes Tok.Utf8 Tok.Heap Tok.Vocab Tok.Special Tok.Bpe.
Import ListNotations.

(** [spmWhitespaceSep] = U+2581 *)
Definition sep : str := [226; 150; 129]%N.

(** [strings.ReplaceAll(s, old, new)] for non-empty [old]: scan left to right; at a match emit [new] and skip
    the rest of the matched bytes ([skip] counts them), otherwise copy one byte. *)
Fixpoint replace_go (old new : str) (skip : nat) (s : str) : str :=
  match s with
  | [] => []
  | c :: t =>
    match skip with
    | S k => replace_go old new k t
    | O => if prefixb old s then new ++ replace_go old new (length old - 1) t
           else c :: replace_go old new 0 t
    end
  end.
Definition replace_all (old new s : str) : str := replace_go old new 0 s.

(** [fmt.Sprintf("<0x%02X>", b)] *)
Definition hexdig (d : N) : N := (if d <? 10 then 48 + d else 55 + d)%N.
Definition byte_token (b : N) : str := [60; 48; 120; hexdig (b / 16); hexdig (b mod 16); 62]%N.

(** [candidate{a, b, score, size}] *)
Record cand := { ca : Z; cb : Z; cscore : Z; csize : nat }.
Definition dcand : cand := {| ca := 0; cb := 0; cscore := 0; csize := 0 |}.

(** [queue.Less] *)
Definition sless (x y : cand) : bool :=
  ((cscore y <? cscore x) || ((cscore x =? cscore y) && (ca x <? ca y)))%Z.

Section Spm.
  Variable v : vocab.

  Definition spairwise (len : Z) (cells : list cell) (a b : Z) : option cand :=
    if ((a <? 0) || (len <=? b))%Z then None
    else
      let left := of_runes (cr (getc cells a)) in
      let right := of_runes (cr (getc cells b)) in
      let id := venc v (left ++ right) in
      if (0 <=? id)%Z
      then Some {| ca := a; cb := b; cscore := vscore v id; csize := length left + length right |}
      else None.

  Definition spush_opt (h : list cand) (o : option cand) : list cand :=
    match o with Some p => hpush sless dcand h p | None => h end.

  Fixpoint sinit_heap (n : nat) (len : Z) (cells : list cell) (i : Z) (h : list cand) : list cand :=
    match n with
    | O => h
    | S n' => sinit_heap n' len cells (i + 1) (spush_opt h (spairwise len cells i (i + 1)))
    end.

  Definition spm_step (len : Z) (cells : list cell) (p : cand) (h : list cand) : list cell * list cand :=
    let left := getc cells (ca p) in
    let right := getc cells (cb p) in
    if isnil (cr left) || isnil (cr right)
       || negb (Nat.eqb (length (of_runes (cr left)) + length (of_runes (cr right))) (csize p))
    then (cells, h)
    else
      let c4 := merge_cells cells (ca p) (cb p) in
      let h1 := spush_opt h (spairwise len c4 (cp (getc c4 (ca p))) (ca p)) in
      let h2 := spush_opt h1 (spairwise len c4 (ca p) (cn (getc c4 (ca p)))) in
      (c4, h2).

  Fixpoint spm_loop (fuel : nat) (len : Z) (cells : list cell) (h : list cand) : list cell * list cand :=
    match fuel with
    | O => (cells, h)
    | S f =>
      match hpop sless dcand h with
      | None => (cells, h)
      | Some (p, h') => let '(cells', h'') := spm_step len cells p h' in spm_loop f len cells' h''
      end
    end.

  (** "Fallback to byte tokenization" *)
  Definition byte_fallback (tok : str) : list Z :=
    flat_map (fun b => let id := venc v (byte_token b) in if (0 <=? id)%Z then [id] else []) tok.

  Definition spm_cell_ids (cells : list cell) : list Z :=
    flat_map (fun c => if isnil (cr c) then []
                       else let tok := of_runes (cr c) in
                            let id := venc v tok in
                            if (0 <=? id)%Z then [id] else byte_fallback tok) cells.

  Definition spm_cells (rs : list N) : list cell * list cand :=
    let len := Z.of_nat (length rs) in
    let cells := init_cells 0 rs in
    let h := sinit_heap (length rs - 1) len cells 0 [] in
    spm_loop (bpe_fuel (length rs)) len cells h.

  Definition spm_text (t : str) : list Z :=
    let text := replace_all [space] sep t in
    let id := venc v text in
    if (0 <=? id)%Z then [id]
    else spm_cell_ids (fst (spm_cells (to_runes text))).

  Definition spm_frag (f : frag) : list Z :=
    match f with
    | FSpec _ id => [id]
    | FText t => spm_text t
    end.

  Definition spm_encode_ids (s : str) : list Z := flat_map spm_frag (fragments v s).
  Definition spm_encode (s : str) (addSpecial : bool) : list Z := add_special v addSpecial (spm_encode_ids s).

  (** Decode *)
  Definition hexval (c : N) : option N :=
    (if (48 <=? c) && (c <=? 57) then Some (c - 48)
     else if (97 <=? c) && (c <=? 102) then Some (c - 87)
     else if (65 <=? c) && (c <=? 70) then Some (c - 55)
     else None)%N.

  (** [strconv.ParseUint("0x" + c1 c2, 0, 8)]: two hex digits, or (base-0 syntax) an underscore and one *)
  Definition parse_byte (c1 c2 : N) : option N :=
    match hexval c1, hexval c2 with
    | Some h1, Some h2 => Some (16 * h1 + h2)%N
    | None, Some h2 => if (c1 =? 95)%N then Some h2 else None
    | _, _ => None
    end.

  Inductive dres := DOk (s : str) | DErr | DPanic.

  (** [len(data) == 6 && strings.HasPrefix(data, "<0x") && strings.HasSuffix(data, ">")] *)
  Definition is_byte_shape (d : str) : bool :=
    Nat.eqb (length d) 6 && prefixb [60; 48; 120]%N d && suffixb [62]%N d.

  (** one token: [Some bytes], or [None] = "failed to parse hex byte" *)
  Definition spm_dec_token (tok : str) : option str :=
    let data := replace_all sep [space] tok in
    if is_byte_shape data
    then match parse_byte (nth 3 data 0%N) (nth 4 data 0%N) with Some b => Some [b] | None => None end
    else Some data.

  Fixpoint spm_decode (ids : list Z) : dres :=
    match ids with
    | [] => DOk []
    | id :: t =>
      match vdec v id with
      | None => DPanic
      | Some tok =>
        match spm_dec_token tok with
        | None => DErr
        | Some b => match spm_decode t with DOk rest => DOk (b ++ rest) | r => r end
        end
      end
    end.
End Spm.
