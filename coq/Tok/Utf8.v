(** Go's string <-> []rune conversions (unicode/utf8 semantics), used by both tokenizers:
    [[]rune(s)], [for _, r := range s], [string(runes)], [strings.Builder.WriteRune].
    Definitions only.  Bytes and runes are [N]. *)
From Coq Require Import List NArith Bool Arith.
From V Require Import Common.Bytes.
Import ListNotations.
Open Scope N_scope.

Definition RuneError : N := 65533. (* U+FFFD *)

Definition is_cont (b : N) : bool := (128 <=? b) && (b <=? 191).
Definition in_rng (lo hi b : N) : bool := (lo <=? b) && (b <=? hi).

(** [utf8.DecodeRuneInString]: rune and width of the first encoded rune; (RuneError, 1) for an invalid or
    truncated encoding; (RuneError, 0) for the empty string. *)
Definition decode_rune (s : str) : N * nat :=
  match s with
  | [] => (RuneError, 0%nat)
  | b0 :: t =>
    if b0 <? 128 then (b0, 1%nat)
    else if in_rng 194 223 b0 then
      match t with
      | b1 :: _ => if is_cont b1 then ((b0 - 192) * 64 + (b1 - 128), 2%nat) else (RuneError, 1%nat)
      | _ => (RuneError, 1%nat)
      end
    else if in_rng 224 239 b0 then
      match t with
      | b1 :: b2 :: _ =>
        let lo := if b0 =? 224 then 160 else 128 in
        let hi := if b0 =? 237 then 159 else 191 in
        if in_rng lo hi b1 && is_cont b2
        then ((b0 - 224) * 4096 + (b1 - 128) * 64 + (b2 - 128), 3%nat) else (RuneError, 1%nat)
      | _ => (RuneError, 1%nat)
      end
    else if in_rng 240 244 b0 then
      match t with
      | b1 :: b2 :: b3 :: _ =>
        let lo := if b0 =? 240 then 144 else 128 in
        let hi := if b0 =? 244 then 143 else 191 in
        if in_rng lo hi b1 && is_cont b2 && is_cont b3
        then ((b0 - 240) * 262144 + (b1 - 128) * 4096 + (b2 - 128) * 64 + (b3 - 128), 4%nat)
        else (RuneError, 1%nat)
      | _ => (RuneError, 1%nat)
      end
    else (RuneError, 1%nat)
  end.

(** [[]rune(s)] / [range s] *)
Fixpoint to_runes_f (fuel : nat) (s : str) : list N :=
  match fuel with
  | O => []
  | S f => match s with
           | [] => []
           | _ => let '(r, w) := decode_rune s in r :: to_runes_f f (skipn w s)
           end
  end.
Definition to_runes (s : str) : list N := to_runes_f (length s) s.

(** [utf8.AppendRune] (also [string(rune)], [WriteRune]) *)
Definition encode_rune (r : N) : str :=
  if r <? 128 then [r]
  else if r <? 2048 then [192 + r / 64; 128 + r mod 64]
  else if (1114111 <? r) || in_rng 55296 57343 r then [239; 191; 189]
  else if r <? 65536 then [224 + r / 4096; 128 + (r / 64) mod 64; 128 + r mod 64]
  else [240 + r / 262144; 128 + (r / 4096) mod 64; 128 + (r / 64) mod 64; 128 + r mod 64].

(** [string(runes)] *)
Definition of_runes (rs : list N) : str := flat_map encode_rune rs.

(** one decoding step is not an error: the only way to get width 1 with RuneError is an invalid byte *)
Definition step_ok (s : str) : bool :=
  let '(r, w) := decode_rune s in negb ((r =? RuneError) && (Nat.eqb w 1)).

(** [utf8.ValidString] *)
Fixpoint utf8_valid_f (fuel : nat) (s : str) : bool :=
  match fuel with
  | O => match s with [] => true | _ => false end
  | S f => match s with
           | [] => true
           | _ => step_ok s && utf8_valid_f f (skipn (snd (decode_rune s)) s)
           end
  end.
Definition utf8_valid (s : str) : bool := utf8_valid_f (length s) s.

Definition no_nul (s : str) : bool := forallb (fun b => negb (b =? 0)) s.
