(** The pre-tokeniser: the regular expressions passed to NewBytePairEncoding (model/models/llama, mllama:
    the llama 3 pattern; model/models/mistral3: the tekken pattern) and BytePairEncoding.split's iteration
    [for m := FindStringMatch(s); m != nil; m = FindNextMatch(m) { yield(m.String()) }].

    A small backtracking matcher with regexp2's (Perl) semantics for exactly the constructs these patterns use:
    ordered alternation, sequencing, greedy bounded repetition of ONE character class with backtracking, negative
    lookahead of one character class.  Character classes are predicates on runes; the Unicode classes
    (\p{L}, \p{N}, \s, ...) are parameters [cls], so everything proved holds for ANY class tables (the check hands
    the model the classes that the real engine assigns to the runes of each case).  Definitions only. *)
From Coq Require Import List NArith Bool Arith.
From V Require Import Common.Bytes Tok.Utf8.
Import ListNotations.

(** the Unicode classes the patterns mention *)
Inductive ucls := UL | UN | US | ULu | ULt | ULm | ULo | ULl | UM.

Definition pred := N -> bool.

Inductive re :=
| Chr (p : pred)                                  (* one rune of a class *)
| Seq (a b : re)
| Alt (a b : re)                                  (* ordered: a first *)
| Rep (p : pred) (min : nat) (max : option nat)   (* greedy p{min,max}; None = unbounded *)
| NegLook (p : pred).                             (* (?!p) : fails iff the next rune exists and is in p *)

(** number of leading runes in p, at most [cap] *)
Fixpoint count_lead (p : pred) (cap : option nat) (s : list N) : nat :=
  match s with
  | [] => O
  | c :: t =>
    match cap with
    | Some O => O
    | _ => if p c then S (count_lead p (match cap with Some (S k) => Some k | _ => None end) t) else O
    end
  end.

(** try j = n, n-1, ..., min runes (greedy, backtracking) *)
Fixpoint try_down (n min : nat) (s : list N) (k : list N -> option (list N)) : option (list N) :=
  match k (skipn n s) with
  | Some r => if Nat.leb min n then Some r else None
  | None => match n with
            | O => None
            | S n' => if Nat.leb min n' then try_down n' min s k else None
            end
  end.

(** [mt r s k]: match r at the start of s, then the continuation k on the rest; the result is the rest after the
    WHOLE match (first success in backtracking order) *)
Fixpoint mt (r : re) (s : list N) (k : list N -> option (list N)) : option (list N) :=
  match r with
  | Chr p => match s with c :: t => if p c then k t else None | [] => None end
  | Seq a b => mt a s (fun s' => mt b s' k)
  | Alt a b => match mt a s k with Some x => Some x | None => mt b s k end
  | Rep p min max =>
    let n := count_lead p max s in
    if Nat.leb min n then try_down n min s k else None
  | NegLook p => match s with c :: _ => if p c then None else k s | [] => k s end
  end.

Definition match_at (r : re) (s : list N) : option (list N) := mt r s (fun x => Some x).

(** the FindStringMatch / FindNextMatch loop: leftmost match from the current position (runes that start no match
    are skipped and belong to no piece); after an EMPTY match the search restarts one rune further (regexp2) *)
Fixpoint split_runes (fuel : nat) (r : re) (s : list N) : list (list N) :=
  match fuel with
  | O => []
  | S f =>
    match s with
    | [] => match match_at r [] with Some _ => [[]] | None => [] end
    | c :: t =>
      match match_at r s with
      | None => split_runes f r t
      | Some rest =>
        let piece := firstn (length s - length rest) s in
        match piece with
        | [] => [] :: split_runes f r t
        | _ => piece :: split_runes f r rest
        end
      end
    end
  end.

(** BytePairEncoding.split on a Go string: regexp2 works on []rune(s), m.String() is string(runes) *)
Definition pretok (r : re) (t : str) : list str :=
  let rs := to_runes t in map of_runes (split_runes (S (length rs)) r rs).

Section Patterns.
  Variable cls : ucls -> pred.

  Definition eqc (x : N) : pred := fun c => N.eqb c x.
  Definition por (p q : pred) : pred := fun c => p c || q c.
  Definition pnot (p : pred) : pred := fun c => negb (p c).
  Definition pcr : pred := eqc 13%N.
  Definition plf : pred := eqc 10%N.
  Definition crlf : pred := por pcr plf.
  (** (?i) literal letter: regexp2 compares unicode.ToLower of the input rune; for s,t,r,e,v,m,l,d only the
      ASCII capital maps to it *)
  Definition ci (x : N) : pred := fun c => N.eqb c x || N.eqb c (x - 32).
  Definition apos : re := Chr (eqc 39).
  Definition rplus (p : pred) : re := Rep p 1%nat None.
  Definition rstar (p : pred) : re := Rep p 0%nat None.
  Definition ropt (p : pred) : re := Rep p 0%nat (Some 1%nat).

  (** [^\r\n\p{L}\p{N}] *)
  Definition not_crlf_L_N : pred := pnot (por crlf (por (cls UL) (cls UN))).
  (** [^\s\p{L}\p{N}] *)
  Definition not_S_L_N : pred := pnot (por (cls US) (por (cls UL) (cls UN))).

  Fixpoint alts (l : list re) (last : re) : re :=
    match l with [] => last | a :: t => Alt a (alts t last) end.

  (** (?i:'s|'t|'re|'ve|'m|'ll|'d)|[^\r\n\p{L}\p{N}]?\p{L}+|\p{N}{1,3}| ?[^\s\p{L}\p{N}]+[\r\n]*|\s*[\r\n]+|\s+(?!\S)|\s+ *)
  Definition contractions : re :=
    alts [Seq apos (Chr (ci 115)); Seq apos (Chr (ci 116)); Seq apos (Seq (Chr (ci 114)) (Chr (ci 101)));
          Seq apos (Seq (Chr (ci 118)) (Chr (ci 101))); Seq apos (Chr (ci 109));
          Seq apos (Seq (Chr (ci 108)) (Chr (ci 108)))]
         (Seq apos (Chr (ci 100))).

  Definition tail_alts : list re :=
    [Seq (rstar (cls US)) (rplus crlf);
     Seq (rplus (cls US)) (NegLook (pnot (cls US)))].

  Definition llama3 : re :=
    alts ([contractions;
           Seq (ropt not_crlf_L_N) (rplus (cls UL));
           Rep (cls UN) 1%nat (Some 3%nat);
           Seq (ropt (eqc 32)) (Seq (rplus not_S_L_N) (rstar crlf))] ++ tail_alts)
         (rplus (cls US)).

  (** [^\r\n\p{L}\p{N}]?[\p{Lu}\p{Lt}\p{Lm}\p{Lo}\p{M}]*[\p{Ll}\p{Lm}\p{Lo}\p{M}]+
      |[^\r\n\p{L}\p{N}]?[\p{Lu}\p{Lt}\p{Lm}\p{Lo}\p{M}]+[\p{Ll}\p{Lm}\p{Lo}\p{M}]*
      |\p{N}| ?[^\s\p{L}\p{N}]+[\r\n/]*|\s*[\r\n]+|\s+(?!\S)|\s+ *)
  Definition upperish : pred := por (cls ULu) (por (cls ULt) (por (cls ULm) (por (cls ULo) (cls UM)))).
  Definition lowerish : pred := por (cls ULl) (por (cls ULm) (por (cls ULo) (cls UM))).
  Definition tekken : re :=
    alts ([Seq (ropt not_crlf_L_N) (Seq (rstar upperish) (rplus lowerish));
           Seq (ropt not_crlf_L_N) (Seq (rplus upperish) (rstar lowerish));
           Chr (cls UN);
           Seq (ropt (eqc 32)) (Seq (rplus not_S_L_N) (rstar (por crlf (eqc 47))))] ++ tail_alts)
         (rplus (cls US)).
End Patterns.

(** class tables: the classes observed for the runes of one case, as (rune, bit mask) with bit i = class i in the
    order UL UN US ULu ULt ULm ULo ULl UM; a rune not in the table is in no class *)
Definition cls_index (u : ucls) : N :=
  match u with UL => 0 | UN => 1 | US => 2 | ULu => 3 | ULt => 4 | ULm => 5 | ULo => 6 | ULl => 7 | UM => 8 end%N.
Fixpoint tbl_mask (tbl : list (N * N)) (c : N) : N :=
  match tbl with [] => 0%N | (x, m) :: t => if N.eqb x c then m else tbl_mask t c end.
Definition cls_of_table (tbl : list (N * N)) : ucls -> pred := fun u c => N.testbit (tbl_mask tbl c) (cls_index u).
