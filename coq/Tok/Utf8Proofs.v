(** UTF-8 facts for arbitrary Unicode scalar values: decoding inverts encoding, [[]rune(string(rs))] = rs,
    encodings are self-synchronising (an occurrence of a valid string inside a valid string starts and ends at
    rune boundaries).  "Valid UTF-8 text" in the C20 theorems means [of_runes rs] for a list [rs] of scalar
    values - the definition of well-formed UTF-8. *)
From Coq Require Import List NArith ZArith Bool Arith Lia ZifyBool ZifyNat ZifyN.
From V Require Import Common.Bytes Tok.Utf8 Tok.ByteMapProofs.
Import ListNotations.
Open Scope N_scope.
Ltac Zify.zify_post_hook ::= Z.div_mod_to_equations.

Definition is_scalar (r : N) : bool := (r <? 55296) || ((57343 <? r) && (r <=? 1114111)).
Definition scalars (rs : list N) : Prop := Forall (fun r => is_scalar r = true) rs.

Lemma decode_encode r rest :
  is_scalar r = true -> decode_rune (encode_rune r ++ rest) = (r, length (encode_rune r)).
Proof.
  intros Hs. unfold is_scalar in Hs. unfold encode_rune.
  destruct (r <? 128) eqn:E1.
  { cbn [app decode_rune]. rewrite E1. reflexivity. }
  destruct (r <? 2048) eqn:E2.
  { cbn [app decode_rune length]. unfold in_rng, is_cont.
    replace (192 + r / 64 <? 128) with false by lia.
    replace ((194 <=? 192 + r / 64) && (192 + r / 64 <=? 223)) with true by lia.
    replace ((128 <=? 128 + r mod 64) && (128 + r mod 64 <=? 191)) with true by lia.
    f_equal. lia. }
  replace ((1114111 <? r) || in_rng 55296 57343 r) with false by (unfold in_rng; lia).
  destruct (r <? 65536) eqn:E3.
  { cbn [app decode_rune length]. unfold in_rng, is_cont.
    replace (224 + r / 4096 <? 128) with false by lia.
    replace ((194 <=? 224 + r / 4096) && (224 + r / 4096 <=? 223)) with false by lia.
    replace ((224 <=? 224 + r / 4096) && (224 + r / 4096 <=? 239)) with true by lia.
    assert (Hd : r / 4096 = r / 64 / 64) by (rewrite N.div_div by lia; reflexivity).
    replace (((if 224 + r / 4096 =? 224 then 160 else 128) <=? 128 + (r / 64) mod 64) &&
     (128 + (r / 64) mod 64 <=? (if 224 + r / 4096 =? 237 then 159 else 191)) &&
     ((128 <=? 128 + r mod 64) && (128 + r mod 64 <=? 191))) with true.
    2:{ rewrite Hd. destruct (224 + r / 64 / 64 =? 224) eqn:A; destruct (224 + r / 64 / 64 =? 237) eqn:B; lia. }
    f_equal. rewrite Hd. lia. }
  cbn [app decode_rune length]. unfold in_rng, is_cont.
  assert (Hd : r / 4096 = r / 64 / 64) by (rewrite N.div_div by lia; reflexivity).
  assert (Hd2 : r / 262144 = r / 64 / 64 / 64) by (rewrite !N.div_div by lia; reflexivity).
  rewrite Hd, Hd2.
  replace (240 + r / 64 / 64 / 64 <? 128) with false by lia.
  replace ((194 <=? 240 + r / 64 / 64 / 64) && (240 + r / 64 / 64 / 64 <=? 223)) with false by lia.
  replace ((224 <=? 240 + r / 64 / 64 / 64) && (240 + r / 64 / 64 / 64 <=? 239)) with false by lia.
  replace ((240 <=? 240 + r / 64 / 64 / 64) && (240 + r / 64 / 64 / 64 <=? 244)) with true by lia.
  match goal with |- (if ?c then _ else _) = _ => replace c with true end.
  2:{ destruct (240 + r / 64 / 64 / 64 =? 240) eqn:A; destruct (240 + r / 64 / 64 / 64 =? 244) eqn:B; lia. }
  f_equal. lia.
Qed.

(** every encoding is a non-continuation byte followed by continuation bytes; all are bytes *)
Lemma encode_shape r :
  exists b0 t, encode_rune r = b0 :: t /\ is_cont b0 = false /\ forallb is_cont t = true /\
               Forall (fun b => b < 256) (b0 :: t).
Proof.
  unfold encode_rune, is_cont.
  destruct (r <? 128) eqn:E1.
  { exists r, []. repeat split; [lia|repeat constructor; lia]. }
  destruct (r <? 2048) eqn:E2.
  { eexists _, _. split; [reflexivity|]. cbn [forallb]. repeat split; [lia|lia|repeat constructor; lia]. }
  destruct ((1114111 <? r) || in_rng 55296 57343 r) eqn:E3.
  { eexists _, _. split; [reflexivity|]. cbn. repeat split; repeat constructor; lia. }
  unfold in_rng in E3.
  destruct (r <? 65536) eqn:E4.
  { eexists _, _. split; [reflexivity|]. cbn [forallb]. repeat split; [lia|lia|repeat constructor; lia]. }
  eexists _, _. split; [reflexivity|]. cbn [forallb].
  assert (Hd2 : r / 262144 = r / 64 / 64 / 64) by (rewrite !N.div_div by lia; reflexivity).
  repeat split; [lia|lia|repeat constructor; lia].
Qed.

Lemma encode_bytes r : Forall (fun b => b < 256) (encode_rune r).
Proof. destruct (encode_shape r) as [b0 [t [-> [_ [_ H]]]]]. exact H. Qed.

Lemma of_runes_bytes rs : Forall (fun b => b < 256) (of_runes rs).
Proof.
  induction rs as [|r rs IH]; [constructor|]. cbn [of_runes flat_map]. apply Forall_app. split; [apply encode_bytes|exact IH].
Qed.

Lemma of_runes_cons r rs : of_runes (r :: rs) = encode_rune r ++ of_runes rs.
Proof. reflexivity. Qed.

Lemma of_runes_app' a b : of_runes (a ++ b) = of_runes a ++ of_runes b.
Proof. unfold of_runes. apply flat_map_app. Qed.

Lemma of_runes_nil_inv rs : of_runes rs = [] -> rs = [].
Proof.
  destruct rs as [|r rs]; [reflexivity|]. rewrite of_runes_cons. intros H. apply app_eq_nil in H as [H _].
  exfalso. exact (encode_rune_nonempty r H).
Qed.

(** [[]rune(string(rs))] = rs *)
Lemma to_runes_f_of_runes rs fuel :
  scalars rs -> (length (of_runes rs) <= fuel)%nat -> to_runes_f fuel (of_runes rs) = rs.
Proof.
  revert fuel. induction rs as [|r rs IH]; intros fuel HF Hlen.
  - destruct fuel; reflexivity.
  - inversion HF as [|? ? Hr HF']; subst. rewrite of_runes_cons in *.
    pose proof (encode_rune_len r) as Hl. rewrite app_length in Hlen.
    destruct fuel as [|fuel]; [lia|].
    rewrite to_runes_f_step.
    2:{ pose proof (encode_rune_nonempty r). destruct (encode_rune r); [congruence|discriminate]. }
    rewrite decode_encode by exact Hr. cbn [fst snd].
    rewrite skipn_app, skipn_all, Nat.sub_diag. cbn [skipn app].
    rewrite IH; [reflexivity|exact HF'|lia].
Qed.

Lemma to_runes_of_runes rs : scalars rs -> to_runes (of_runes rs) = rs.
Proof. intros H. apply to_runes_f_of_runes; [exact H|lia]. Qed.

(** hence [string([]rune(s))] = s for valid s *)
Lemma of_runes_to_runes rs : scalars rs -> of_runes (to_runes (of_runes rs)) = of_runes rs.
Proof. intros H. rewrite to_runes_of_runes by exact H. reflexivity. Qed.

(** the executable validity test accepts exactly... at least every encoded scalar sequence *)
Lemma utf8_valid_f_of_runes rs fuel :
  scalars rs -> (length (of_runes rs) <= fuel)%nat -> utf8_valid_f fuel (of_runes rs) = true.
Proof.
  revert fuel. induction rs as [|r rs IH]; intros fuel HF Hlen.
  - destruct fuel; reflexivity.
  - inversion HF as [|? ? Hr HF']; subst. rewrite of_runes_cons in *.
    pose proof (encode_rune_len r) as Hl. rewrite app_length in Hlen.
    destruct fuel as [|fuel]; [lia|]. cbn [utf8_valid_f].
    destruct (encode_rune r ++ of_runes rs) eqn:E.
    { exfalso. apply app_eq_nil in E as [E _]. exact (encode_rune_nonempty r E). }
    rewrite <- E. unfold step_ok. rewrite decode_encode by exact Hr. cbn [snd].
    rewrite skipn_app, skipn_all, Nat.sub_diag. cbn [skipn app].
    rewrite IH by (auto; lia). rewrite andb_true_r.
    unfold is_scalar in Hr. unfold encode_rune, RuneError.
    destruct (r <? 128) eqn:E1; [cbn [length Nat.eqb]; lia|].
    destruct (r <? 2048); [cbn [length Nat.eqb]; apply negb_true_iff, andb_false_r|].
    destruct ((1114111 <? r) || in_rng 55296 57343 r); [cbn [length Nat.eqb]; apply negb_true_iff, andb_false_r|].
    destruct (r <? 65536); cbn [length Nat.eqb]; apply negb_true_iff, andb_false_r.
Qed.

Lemma utf8_valid_of_runes rs : scalars rs -> utf8_valid (of_runes rs) = true.
Proof. intros H. apply utf8_valid_f_of_runes; [exact H|lia]. Qed.

(** prefix-freeness: the first rune of an encoded sequence is determined *)
Lemma encode_head_inj r1 r2 x y :
  is_scalar r1 = true -> is_scalar r2 = true ->
  encode_rune r1 ++ x = encode_rune r2 ++ y -> r1 = r2 /\ x = y.
Proof.
  intros H1 H2 E. assert (D := f_equal decode_rune E).
  rewrite !decode_encode in D by assumption. injection D as -> _.
  split; [reflexivity|]. apply app_inv_head in E. exact E.
Qed.

(** if an encoded sequence starts with another encoded sequence, the remainder is an encoded sequence *)
Lemma of_runes_prefix_rest rm rs b :
  scalars rm -> scalars rs -> of_runes rs = of_runes rm ++ b ->
  exists rb, scalars rb /\ b = of_runes rb /\ rs = rm ++ rb.
Proof.
  revert rs. induction rm as [|r rm IH]; intros rs Hm Hs E.
  - exists rs. cbn in E. auto.
  - inversion Hm as [|? ? Hr Hm']; subst. rewrite of_runes_cons, <- app_assoc in E.
    destruct rs as [|r' rs].
    { cbn in E. symmetry in E. apply app_eq_nil in E as [E _]. exfalso. exact (encode_rune_nonempty r E). }
    inversion Hs as [|? ? Hr' Hs']; subst. rewrite of_runes_cons in E.
    apply encode_head_inj in E as [-> E]; [|assumption|assumption].
    destruct (IH rs Hm' Hs' E) as [rb [H1 [H2 H3]]]. exists rb. subst. auto.
Qed.

(** self-synchronisation: a non-empty valid string occurring inside a valid string splits it into valid parts *)
Lemma utf8_sync rs rm a b :
  scalars rs -> scalars rm -> rm <> [] -> of_runes rs = a ++ of_runes rm ++ b ->
  exists ra rb, scalars ra /\ scalars rb /\ a = of_runes ra /\ b = of_runes rb /\ rs = ra ++ rm ++ rb.
Proof.
  revert a. induction rs as [|r rs IH]; intros a Hs Hm Hne E.
  - cbn in E. symmetry in E. apply app_eq_nil in E as [_ E]. apply app_eq_nil in E as [E _].
    apply of_runes_nil_inv in E. contradiction.
  - inversion Hs as [|? ? Hr Hs']; subst.
    destruct a as [|c a].
    + cbn [app] in E. destruct (of_runes_prefix_rest rm (r :: rs) b Hm Hs E) as [rb [H1 [H2 H3]]].
      exists [], rb. cbn [app]. repeat split; auto. constructor.
    + rewrite of_runes_cons in E.
      apply app_eq_app in E as [l [[E1 E2]|[E1 E2]]].
      * (* encode_rune r = (c :: a) ++ l : the occurrence would start inside r's encoding unless l = [] *)
        destruct l as [|c' l].
        -- rewrite app_nil_r in E1. cbn [app] in E2. symmetry in E2.
           destruct (of_runes_prefix_rest rm rs b Hm Hs' E2) as [rb [H1 [H2 H3]]].
           exists [r], rb. repeat split; auto.
           ++ constructor; [exact Hr|constructor].
           ++ cbn. rewrite app_nil_r. symmetry. exact E1.
           ++ cbn. f_equal. exact H3.
        -- exfalso. destruct rm as [|m rm]; [contradiction|].
           rewrite of_runes_cons, <- app_assoc in E2.
           destruct (encode_shape m) as [m0 [mt [Em [Hm0 _]]]].
           destruct (encode_shape r) as [r0 [rt [Er [_ [Hrt _]]]]].
           rewrite Em in E2. cbn [app] in E2. injection E2 as E2 _. subst m0.
           rewrite Er in E1. cbn [app] in E1. injection E1 as _ E1.
           assert (Hin : In c' rt) by (rewrite E1; apply in_or_app; right; left; reflexivity).
           rewrite forallb_forall in Hrt. rewrite (Hrt c' Hin) in Hm0. discriminate.
      * (* c :: a = encode_rune r ++ l *)
        destruct (IH l Hs' Hm Hne E2) as [ra [rb [H1 [H2 [H3 [H4 H5]]]]]].
        exists (r :: ra), rb. repeat split; auto.
        -- constructor; assumption.
        -- rewrite of_runes_cons, <- H3. exact E1.
        -- cbn [app]. f_equal. exact H5.
Qed.
