(** The byte <-> rune map: exhaustive facts over the 256 byte values, lifted to quantified statements. *)
From Coq Require Import List NArith ZArith Bool Arith Lia ZifyBool ZifyNat ZifyN.
From V Require Import Common.Bytes Tok.Utf8 Tok.ByteMap.
Import ListNotations.
Open Scope N_scope.

Lemma in_all_bytes b : b < 256 -> In b all_bytes.
Proof.
  intros H. unfold all_bytes. apply in_map_iff. exists (N.to_nat b). split; [lia|].
  apply in_seq. lia.
Qed.

Lemma all_bytes_lt b : In b all_bytes -> b < 256.
Proof.
  unfold all_bytes. intros H. apply in_map_iff in H as [n [<- Hn]]. apply in_seq in Hn. lia.
Qed.

Lemma forall_bytes (P : N -> bool) : forallb P all_bytes = true -> forall b, b < 256 -> P b = true.
Proof. intros H b Hb. rewrite forallb_forall in H. apply H, in_all_bytes, Hb. Qed.

(** Decode inverts Encode's map on every byte except NUL *)
Definition inv_ok (b : N) : bool :=
  (b =? 0) || match bunmap (bmap b) with Some b' => b' =? b | None => false end.

Lemma bytemap_inverse b : b < 256 -> b <> 0 -> bunmap (bmap b) = Some b.
Proof.
  intros Hb Hz. assert (H := forall_bytes inv_ok eq_refl b Hb). unfold inv_ok in H.
  destruct (bunmap (bmap b)) as [b'|]; [|lia]. f_equal. lia.
Qed.

(** NUL is the one byte Decode does not give back: its image 0x100 is skipped *)
Lemma bytemap_nul : bunmap (bmap 0) = None.
Proof. reflexivity. Qed.

(** the map is injective on bytes *)
Definition inj_ok (b : N) : bool := forallb (fun c => negb (bmap b =? bmap c) || (b =? c)) all_bytes.

Lemma bytemap_injective b c : b < 256 -> c < 256 -> bmap b = bmap c -> b = c.
Proof.
  intros Hb Hc E. assert (H := forall_bytes inj_ok eq_refl b Hb). unfold inj_ok in H.
  rewrite forallb_forall in H. specialize (H c (in_all_bytes c Hc)). lia.
Qed.

(** the unrepaired map (range starting at 0x7e) sent '~' and ' ' to the same rune *)
Lemma bytemap_unrepaired_collision : bmap_unrepaired 126 = bmap_unrepaired 32 /\ bunmap (bmap_unrepaired 126) = Some 32.
Proof. split; reflexivity. Qed.

(** images are below 0x800 (two-byte UTF-8 at most), never the ASCII space, never 0 *)
Definition img_ok (b : N) : bool := (32 <? bmap b) && (bmap b <? 2048).
Lemma bmap_range b : b < 256 -> 32 < bmap b < 2048.
Proof. intros Hb. assert (H := forall_bytes img_ok eq_refl b Hb). unfold img_ok in H. lia. Qed.

(** WriteRune then []rune gives the rune back, whatever follows *)
Lemma decode_encode_small r rest : r < 2048 -> decode_rune (encode_rune r ++ rest) = (r, length (encode_rune r)).
Proof.
  intros Hr. unfold encode_rune. destruct (r <? 128) eqn:E1.
  - cbn [app decode_rune]. rewrite E1. reflexivity.
  - assert (E2 : (r <? 2048) = true) by lia. rewrite E2. cbn [app decode_rune length].
    assert (Hq : 2 <= r / 64 < 32).
    { split; [apply N.div_le_lower_bound; lia | apply N.div_lt_upper_bound; lia]. }
    assert (Hm : r mod 64 < 64) by (apply N.mod_lt; lia).
    assert (Hd : r = 64 * (r / 64) + r mod 64) by (apply N.div_mod; lia).
    replace (192 + r / 64 <? 128) with false by lia.
    unfold in_rng, is_cont.
    replace ((194 <=? 192 + r / 64) && (192 + r / 64 <=? 223)) with true by lia.
    replace ((128 <=? 128 + r mod 64) && (128 + r mod 64 <=? 191)) with true by lia.
    f_equal. lia.
Qed.

Lemma encode_rune_nonempty r : encode_rune r <> [].
Proof.
  unfold encode_rune. repeat match goal with |- context [if ?c then _ else _] => destruct c end; discriminate.
Qed.

Lemma to_runes_f_step f s :
  s <> [] -> to_runes_f (S f) s = fst (decode_rune s) :: to_runes_f f (skipn (snd (decode_rune s)) s).
Proof. destruct s; [congruence|]. intros _. cbn [to_runes_f]. destruct (decode_rune (n :: s)); reflexivity. Qed.

Lemma encode_rune_len r : (length (encode_rune r) >= 1)%nat.
Proof. pose proof (encode_rune_nonempty r). destruct (encode_rune r); [congruence|cbn; lia]. Qed.

Lemma to_runes_f_of_runes_small rs fuel :
  Forall (fun r => r < 2048) rs ->
  (length (of_runes rs) <= fuel)%nat ->
  to_runes_f fuel (of_runes rs) = rs.
Proof.
  revert fuel. induction rs as [|r rs IH]; intros fuel HF Hlen.
  - destruct fuel; reflexivity.
  - inversion HF as [|? ? Hr HF']; subst. cbn [of_runes flat_map] in *.
    fold (of_runes rs) in *.
    pose proof (encode_rune_len r) as Hl.
    rewrite app_length in Hlen.
    destruct fuel as [|fuel]; [lia|].
    rewrite to_runes_f_step.
    2:{ pose proof (encode_rune_nonempty r). destruct (encode_rune r); [congruence|discriminate]. }
    rewrite decode_encode_small by exact Hr. cbn [fst snd].
    rewrite skipn_app, skipn_all, Nat.sub_diag. cbn [skipn app].
    rewrite IH; [reflexivity|exact HF'|lia].
Qed.

(** [[]rune(sb.String())] of the mapped bytes is the list of mapped bytes *)
Lemma to_runes_of_runes_small rs : Forall (fun r => r < 2048) rs -> to_runes (of_runes rs) = rs.
Proof. intros HF. apply to_runes_f_of_runes_small; [exact HF|lia]. Qed.

Lemma to_runes_map_bytes s : Forall (fun b => b < 256) s -> to_runes (map_bytes s) = map bmap s.
Proof.
  intros HF. apply to_runes_of_runes_small. apply Forall_forall. intros r Hr.
  apply in_map_iff in Hr as [b [<- Hb]]. rewrite Forall_forall in HF. apply bmap_range, HF, Hb.
Qed.

(** Decode's unmapping inverts the map on every NUL-free byte string *)
Lemma unmap_map_bytes s :
  Forall (fun b => b < 256) s -> no_nul s = true -> unmap_string (map_bytes s) = s.
Proof.
  intros HF Hn. unfold unmap_string. rewrite to_runes_map_bytes by exact HF.
  induction s as [|b s IH]; [reflexivity|].
  inversion HF; subst. cbn in Hn. apply andb_true_iff in Hn as [Hb Hn].
  cbn [map unmap_runes flat_map]. rewrite bytemap_inverse by lia. cbn [app]. f_equal.
  apply IH; assumption.
Qed.
