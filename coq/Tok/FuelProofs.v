(** The model's merge loops are fuel-bounded; the code's loops run until the heap is empty.  Here: the fuel
    [3 * len + 1] is never exhausted - the model's loops also stop because the heap is empty.  Measure:
    heap size + 2 * number of non-empty cells; every iteration pops one pair; a merge empties one cell and
    pushes at most two pairs. *)
From Coq Require Import List NArith ZArith Bool Arith Lia.
From V Require Import Common.Bytes Tok.Utf8 Tok.Heap Tok.HeapProofs Tok.Vocab Tok.Bpe Tok.Spm Tok.MergeProofs Tok.BpeProofs Tok.SpmProofs.
Import ListNotations.

Definition cntL (L : list (list N)) : nat := length (filter (fun x => negb (isnil x)) L).
Definition ne1 (x : list N) : nat := if isnil x then 0 else 1.

Lemma cntL_upd L i x : (i < length L)%nat -> (cntL (upd i x L) + ne1 (nth i L []) = cntL L + ne1 x)%nat.
Proof.
  revert i. induction L as [|y L IH]; intros i Hi; [cbn in Hi; lia|].
  destruct i as [|i]; unfold cntL, ne1 in *; cbn [upd nth filter].
  - destruct (isnil x), (isnil y); cbn [negb length]; lia.
  - specialize (IH i ltac:(cbn in Hi; lia)). destruct (isnil y); cbn [negb length]; lia.
Qed.

Lemma upd_len {A} i (x : A) l : length (upd i x l) = length l.
Proof. revert i; induction l as [|y l IH]; intros [|i]; cbn; auto. Qed.

Lemma mc_count cells a b :
  CInv cells -> PV cells a b -> ~ emp cells a -> ~ emp cells b ->
  (cntL (texts (merge_cells cells a b)) + 1 = cntL (texts cells))%nat.
Proof.
  intros HI HP Ha Hb. rewrite mc_texts by assumption.
  destruct HP as [Hab [Hbl _]]. unfold zlen in Hbl.
  assert (Hla : (Z.to_nat a < length (texts cells))%nat) by (unfold texts; rewrite map_length; lia).
  assert (Hlb : (Z.to_nat b < length (texts cells))%nat) by (unfold texts; rewrite map_length; lia).
  pose proof (cntL_upd (texts cells) (Z.to_nat a) (cr (getc cells a) ++ cr (getc cells b)) Hla) as H1.
  pose proof (cntL_upd (upd (Z.to_nat a) (cr (getc cells a) ++ cr (getc cells b)) (texts cells)) (Z.to_nat b) [] ltac:(rewrite upd_len; exact Hlb)) as H2.
  rewrite nth_upd_neq in H2 by lia. rewrite !texts_nth in * by lia.
  unfold emp in Ha, Hb. unfold ne1 in *.
  destruct (cr (getc cells a)) eqn:Ea; [contradiction|]. destruct (cr (getc cells b)) eqn:Eb; [contradiction|].
  cbn [isnil app] in *. lia.
Qed.

Lemma cntL_init i rs : cntL (texts (init_cells i rs)) = length rs.
Proof. revert i. induction rs as [|r rs IH]; intros i; [reflexivity|]. unfold cntL, texts in *. cbn. f_equal. apply IH. Qed.

Section BpeFuel.
  Variable v : vocab.

  Lemma push_opt_len h o : (length (push_opt h o) <= S (length h))%nat.
  Proof. destruct o; cbn [push_opt]; [rewrite hpush_length|]; lia. Qed.

  Lemma bpe_step_measure rs cells p h :
    BInv v rs cells h -> PV cells (pa p) (pb p) ->
    (length (snd (bpe_step v (zlen cells) cells p h)) + 2 * cntL (texts (fst (bpe_step v (zlen cells) cells p h)))
     <= length h + 2 * cntL (texts cells))%nat.
  Proof.
    intros [Hlen HC Ht HV HH] Hp. unfold bpe_step.
    destruct (isnil (cr (getc cells (pa p)))) eqn:E1; cbn [orb fst snd]; [lia|].
    destruct (isnil (cr (getc cells (pb p)))) eqn:E2; cbn [orb fst snd]; [lia|].
    destruct (eqb_str _ (pval p)) eqn:E3; cbn [negb fst snd]; [|lia].
    destruct (venc v (pval p) <? 0)%Z eqn:E4; cbn [fst snd]; [lia|].
    apply isnil_false in E1, E2.
    pose proof (mc_count cells (pa p) (pb p) HC Hp E1 E2) as Hc.
    match goal with |- (length (push_opt (push_opt h ?o1) ?o2) + _ <= _)%nat =>
      pose proof (push_opt_len (push_opt h o1) o2); pose proof (push_opt_len h o1) end.
    lia.
  Qed.

  Lemma bpe_loop_empty rs fuel len cells h :
    len = zlen cells -> BInv v rs cells h -> (length h + 2 * cntL (texts cells) <= fuel)%nat ->
    snd (bpe_loop v fuel len cells h) = [].
  Proof.
    intros ->. revert cells h. induction fuel as [|f IH]; intros cells h HB Hm; cbn [bpe_loop].
    - cbn [snd]. destruct h; [reflexivity|cbn in Hm; lia].
    - destruct (hpop bless dpair h) as [[p h1]|] eqn:E; [|cbn [snd]; apply hpop_none in E; exact E].
      apply hpop_spec in E as [Hin [Hincl Hl]].
      assert (Hp : PV cells (pa p) (pb p)).
      { destruct HB as [_ _ _ _ HH]. unfold HInv in HH. rewrite Forall_forall in HH. apply HH, Hin. }
      assert (HB1 : BInv v rs cells h1).
      { destruct HB as [H1 H2 H3 H4 HH]. constructor; try assumption.
        unfold HInv in *. rewrite Forall_forall in *. intros q Hq. apply HH, Hincl, Hq. }
      pose proof (bpe_step_inv v rs cells p h1 HB1 Hp) as Hs.
      pose proof (bpe_step_measure rs cells p h1 HB1 Hp) as Hmm.
      destruct (bpe_step v (zlen cells) cells p h1) as [cells' h'] eqn:Es. cbn [fst snd] in Hmm.
      assert (Hz : zlen cells' = zlen cells).
      { unfold zlen. destruct Hs as [L1 _ _ _ _]. destruct HB as [L2 _ _ _ _]. rewrite L1, L2. reflexivity. }
      rewrite <- Hz. apply IH; [exact Hs|lia].
  Qed.

  Lemma init_heap_len n len cells i h : (length (init_heap v n len cells i h) <= n + length h)%nat.
  Proof.
    revert i h. induction n as [|n IH]; intros i h; cbn [init_heap]; [lia|].
    specialize (IH (i + 1)%Z (push_opt h (bpairwise v len cells i (i + 1)))).
    pose proof (push_opt_len h (bpairwise v len cells i (i + 1))). lia.
  Qed.

  Lemma bpe_cells_heap_empty rs : snd (bpe_cells v rs) = [].
  Proof.
    unfold bpe_cells. apply (bpe_loop_empty rs).
    - unfold zlen. rewrite init_cells_length. reflexivity.
    - constructor.
      + apply init_cells_length.
      + apply init_CInv.
      + apply init_cells_text.
      + intros Hs. apply init_VInv, Hs.
      + apply init_heap_inv; [reflexivity|lia|constructor].
    - rewrite cntL_init. pose proof (init_heap_len (length rs - 1) (Z.of_nat (length rs)) (init_cells 0 rs) 0 []).
      unfold bpe_fuel. cbn [length] in *. lia.
  Qed.
End BpeFuel.

Section SpmFuel.
  Variable v : vocab.

  Lemma spush_opt_len h o : (length (spush_opt h o) <= S (length h))%nat.
  Proof. destruct o; cbn [spush_opt]; [rewrite hpush_length|]; lia. Qed.

  Lemma spm_step_measure rs cells p h :
    SInv v rs cells h -> PV cells (ca p) (cb p) ->
    (length (snd (spm_step v (zlen cells) cells p h)) + 2 * cntL (texts (fst (spm_step v (zlen cells) cells p h)))
     <= length h + 2 * cntL (texts cells))%nat.
  Proof.
    intros [Hlen HC Ht HV HH] Hp. unfold spm_step.
    destruct (isnil (cr (getc cells (ca p)))) eqn:E1; cbn [orb fst snd]; [lia|].
    destruct (isnil (cr (getc cells (cb p)))) eqn:E2; cbn [orb fst snd]; [lia|].
    destruct (Nat.eqb _ (csize p)) eqn:E3; cbn [negb fst snd]; [|lia].
    apply isnil_false in E1, E2.
    pose proof (mc_count cells (ca p) (cb p) HC Hp E1 E2) as Hc.
    match goal with |- (length (spush_opt (spush_opt h ?o1) ?o2) + _ <= _)%nat =>
      pose proof (spush_opt_len (spush_opt h o1) o2); pose proof (spush_opt_len h o1) end.
    lia.
  Qed.

  Lemma spm_loop_empty rs fuel len cells h :
    len = zlen cells -> SInv v rs cells h -> (length h + 2 * cntL (texts cells) <= fuel)%nat ->
    snd (spm_loop v fuel len cells h) = [].
  Proof.
    intros ->. revert cells h. induction fuel as [|f IH]; intros cells h HB Hm; cbn [spm_loop].
    - cbn [snd]. destruct h; [reflexivity|cbn in Hm; lia].
    - destruct (hpop sless dcand h) as [[p h1]|] eqn:E; [|cbn [snd]; apply hpop_none in E; exact E].
      apply hpop_spec in E as [Hin [Hincl Hl]].
      assert (Hp : cand_ok v cells p).
      { destruct HB as [_ _ _ _ HH]. unfold HInvS in HH. rewrite Forall_forall in HH. apply HH, Hin. }
      assert (HB1 : SInv v rs cells h1).
      { destruct HB as [H1 H2 H3 H4 HH]. constructor; try assumption.
        unfold HInvS in *. rewrite Forall_forall in *. intros q Hq. apply HH, Hincl, Hq. }
      pose proof (spm_step_inv v rs cells p h1 HB1 Hp) as Hs.
      pose proof (spm_step_measure rs cells p h1 HB1 (proj1 Hp)) as Hmm.
      destruct (spm_step v (zlen cells) cells p h1) as [cells' h'] eqn:Es. cbn [fst snd] in Hmm.
      assert (Hz : zlen cells' = zlen cells).
      { unfold zlen. destruct Hs as [L1 _ _ _ _]. destruct HB as [L2 _ _ _ _]. rewrite L1, L2. reflexivity. }
      rewrite <- Hz. apply IH; [exact Hs|lia].
  Qed.

  Lemma sinit_heap_len n len cells i h : (length (sinit_heap v n len cells i h) <= n + length h)%nat.
  Proof.
    revert i h. induction n as [|n IH]; intros i h; cbn [sinit_heap]; [lia|].
    specialize (IH (i + 1)%Z (spush_opt h (spairwise v len cells i (i + 1)))).
    pose proof (spush_opt_len h (spairwise v len cells i (i + 1))). lia.
  Qed.

  Lemma spm_cells_heap_empty rs : snd (spm_cells v rs) = [].
  Proof.
    unfold spm_cells. apply (spm_loop_empty rs).
    - unfold zlen. rewrite init_cells_length. reflexivity.
    - constructor.
      + apply init_cells_length.
      + apply init_CInv.
      + apply init_cells_text.
      + apply init_VInvS.
      + apply sinit_heap_inv; [lia|constructor].
    - rewrite cntL_init. pose proof (sinit_heap_len (length rs - 1) (Z.of_nat (length rs)) (init_cells 0 rs) 0 []).
      unfold bpe_fuel. cbn [length] in *. lia.
  Qed.
End SpmFuel.
