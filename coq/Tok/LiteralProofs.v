(** Special-token literals: the leftmost occurrence of the first special token (in SpecialVocabulary order) that
    occurs in the text becomes a fragment carrying that token's id, between the fragments of the text before and
    after it.  Also: the split does not depend on its fuel (the model's bounded recursion is the unbounded loop),
    and boolean forms of the guards used by the round-trip theorems. *)
From Coq Require Import List NArith ZArith Bool Arith Lia.
From V Require Import Common.Bytes Tok.Utf8 Tok.Vocab Tok.Special Tok.SpecialProofs Tok.Bpe Tok.Spm Tok.BpeProofs Tok.SpmProofs.
Import ListNotations.

Lemma split_one_none fuel sp id t : ~ Infix sp t -> split_one fuel sp id t = [FText t].
Proof.
  intros H. apply index_of_none in H. destruct fuel; cbn [split_one]; rewrite H; reflexivity.
Qed.

Lemma split_special_single_none sp id t : ~ Infix sp t -> split_special sp id [FText t] = [FText t].
Proof. intros H. unfold split_special. cbn [flat_map split_frag]. rewrite split_one_none by exact H. reflexivity. Qed.

Lemma fold_split_none v sps t :
  (forall x, In x sps -> ~ Infix x t) ->
  fold_left (fun fs sp => split_special sp (venc v sp) fs) sps [FText t] = [FText t].
Proof.
  induction sps as [|sp sps IH]; intros H; cbn [fold_left]; [reflexivity|].
  rewrite split_special_single_none by (apply H; left; reflexivity).
  apply IH. intros x Hx. apply H. right. exact Hx.
Qed.

Lemma split_special_app sp id a b : split_special sp id (a ++ b) = split_special sp id a ++ split_special sp id b.
Proof. unfold split_special. apply flat_map_app. Qed.

Lemma fold_split_around v sps fa sp id fb :
  exists fa' fb',
    fold_left (fun fs x => split_special x (venc v x) fs) sps (fa ++ FSpec sp id :: fb) = fa' ++ FSpec sp id :: fb' /\
    frags_text fa' = frags_text fa /\ frags_text fb' = frags_text fb.
Proof.
  revert fa fb. induction sps as [|x sps IH]; intros fa fb; cbn [fold_left].
  - exists fa, fb. auto.
  - change (FSpec sp id :: fb) with ([FSpec sp id] ++ fb). rewrite !split_special_app.
    change (split_special x (venc v x) [FSpec sp id]) with [FSpec sp id]. cbn [app].
    destruct (IH (split_special x (venc v x) fa) (split_special x (venc v x) fb)) as [fa' [fb' [H1 [H2 H3]]]].
    exists fa', fb'. rewrite H1, H2, H3, !split_special_text. auto.
Qed.

Lemma split_one_first fuel sp id t i :
  index_of t sp = Some i ->
  exists fa fb, split_one fuel sp id t = fa ++ FSpec sp id :: fb /\
                frags_text fa = firstn i t /\ frags_text fb = skipn (i + length sp) t.
Proof.
  intros E. destruct fuel; cbn [split_one]; rewrite E.
  - exists (match i with O => [] | _ => [FText (firstn i t)] end),
           (match skipn (i + length sp) t with [] => [] | _ => [FText (skipn (i + length sp) t)] end).
    split; [reflexivity|]. split.
    + destruct i; [reflexivity|]. cbn. apply app_nil_r.
    + destruct (skipn (i + length sp) t); [reflexivity|]. cbn. rewrite app_nil_r. reflexivity.
  - exists (match i with O => [] | _ => [FText (firstn i t)] end),
           (match skipn (i + length sp) t with [] => [] | _ => split_one fuel sp id (skipn (i + length sp) t) end).
    split; [reflexivity|]. split.
    + destruct i; [reflexivity|]. cbn. apply app_nil_r.
    + destruct (skipn (i + length sp) t) eqn:Er; [reflexivity|]. rewrite <- Er. apply split_one_text.
Qed.

(** the leftmost occurrence of the first special token that occurs at all *)
Theorem special_literal_fragment v s pre sp post i :
  vspecials v = pre ++ sp :: post -> (forall x, In x pre -> ~ Infix x s) -> index_of s sp = Some i ->
  exists fa fb, fragments v s = fa ++ FSpec sp (venc v sp) :: fb /\
                frags_text fa = firstn i s /\ frags_text fb = skipn (i + length sp) s.
Proof.
  intros Hv Hpre Hi. unfold fragments. rewrite Hv, fold_left_app. rewrite fold_split_none by exact Hpre.
  cbn [fold_left]. unfold split_special at 2. cbn [flat_map split_frag]. rewrite app_nil_r.
  destruct (split_one_first (length s) sp (venc v sp) s i Hi) as [fa [fb [H1 [H2 H3]]]]. rewrite H1.
  destruct (fold_split_around v post fa sp (venc v sp) fb) as [fa' [fb' [G1 [G2 G3]]]].
  exists fa', fb'. rewrite G1, G2, G3. auto.
Qed.

(** the result of the split does not depend on the fuel once it covers the text (non-empty special token) *)
Lemma index_of_nil sp : sp <> [] -> index_of [] sp = None.
Proof. intros H. destruct sp; [congruence|reflexivity]. Qed.

Lemma split_one_fuel sp id f1 f2 t :
  sp <> [] -> (length t <= f1)%nat -> (length t <= f2)%nat -> split_one f1 sp id t = split_one f2 sp id t.
Proof.
  intros Hne. revert f2 t. induction f1 as [|f1 IH]; intros f2 t H1 H2.
  - destruct t; [|cbn in H1; lia]. destruct f2; cbn [split_one]; rewrite index_of_nil by exact Hne; reflexivity.
  - destruct f2 as [|f2].
    + destruct t; [|cbn in H2; lia]. cbn [split_one]. rewrite index_of_nil by exact Hne. reflexivity.
    + cbn [split_one]. destruct (index_of t sp) as [i|] eqn:E; [|reflexivity]. f_equal. f_equal.
      destruct (skipn (i + length sp) t) eqn:Er; [reflexivity|]. rewrite <- Er.
      assert (Hl : (length (skipn (i + length sp) t) < length t)%nat).
      { rewrite skipn_length. apply index_of_split in E as [_ E]. destruct sp; [congruence|]. cbn [length].
        destruct t; [cbn in Er; destruct (i + _)%nat; discriminate|cbn [length]; lia]. }
      apply IH; lia.
Qed.

(** * boolean guards *)
Definition ascii_b (s : str) : bool := forallb (fun b => (b <? 128)%N) s.
Definition specials_plain_b (v : vocab) (s : str) : bool :=
  forallb (fun sp => negb (containsb s sp) || ascii_b sp) (vspecials v).

Lemma ascii_b_spec s : ascii_b s = true <-> is_ascii s.
Proof.
  unfold ascii_b, is_ascii. rewrite forallb_forall, Forall_forall. split; intros H x Hx; specialize (H x Hx); lia.
Qed.

Lemma specials_plain_b_spec v s : specials_plain_b v s = true <-> specials_plain v s.
Proof.
  unfold specials_plain_b, specials_plain. rewrite forallb_forall. split.
  - intros H sp Hsp Hinf. specialize (H sp Hsp). apply containsb_spec in Hinf. rewrite Hinf in H. cbn in H.
    apply ascii_b_spec, H.
  - intros H sp Hsp. destruct (containsb s sp) eqn:E; [|reflexivity]. cbn. apply ascii_b_spec, H; [exact Hsp|].
    apply containsb_spec, E.
Qed.

Definition no_shape_b (s : str) : bool :=
  forallb (fun i => negb (is_byte_shape (firstn 6 (skipn i s)))) (seq 0 (S (length s))).

Lemma no_shape_b_spec s : no_shape_b s = true <-> no_shape s.
Proof.
  unfold no_shape_b, no_shape. rewrite forallb_forall. split.
  - intros H w [a [b Hs]]. destruct (is_byte_shape w) eqn:E; [|reflexivity]. exfalso.
    assert (Hl : length w = 6%nat).
    { unfold is_byte_shape in E. apply andb_true_iff in E as [E _]. apply andb_true_iff in E as [E _]. apply Nat.eqb_eq, E. }
    specialize (H (length a)). rewrite Hs in H.
    rewrite skipn_app, skipn_all, Nat.sub_diag in H. cbn [skipn app] in H.
    rewrite firstn_app, <- Hl, firstn_all, Nat.sub_diag in H. cbn [firstn] in H. rewrite app_nil_r, E in H.
    assert (Hin : In (length a) (seq 0 (S (length (a ++ w ++ b))))) by (apply in_seq; rewrite app_length; lia).
    specialize (H Hin). discriminate.
  - intros H i _. rewrite (H (firstn 6 (skipn i s))); [reflexivity|].
    exists (firstn i s), (skipn 6 (skipn i s)). rewrite firstn_skipn. symmetry. apply firstn_skipn.
Qed.

Lemma no_sep_b_spec s : containsb s sep = false <-> ~ Infix sep s.
Proof. apply containsb_false. Qed.
