(** The modelled pre-tokeniser patterns split every valid text into a partition of non-empty pieces - for ANY class
    tables (llama 3) / for any class tables in which every \p{L} rune is in one of the letter subclasses (tekken).
    Generic facts about the matcher: a match consumes a prefix, of at least [minlen] runes; repetition with a
    succeeding continuation succeeds.  Then: round trip of the BPE encoder with the modelled pre-tokeniser, without
    any hypothesis on the pre-tokeniser. *)
From Coq Require Import List NArith ZArith Bool Arith Lia.
From V Require Import Common.Bytes Tok.Utf8 Tok.ByteMapProofs Tok.Utf8Proofs Tok.Vocab Tok.Special Tok.SpecialProofs Tok.Bpe
     Tok.BpeProofs Tok.SpmProofs Tok.LiteralProofs Tok.Pretok.
Import ListNotations.

Definition Suf (a s : list N) : Prop := exists pre, s = pre ++ a.

Lemma Suf_refl s : Suf s s.
Proof. exists []. reflexivity. Qed.
Lemma Suf_trans a b c : Suf a b -> Suf b c -> Suf a c.
Proof. intros [x ->] [y ->]. exists (y ++ x). apply app_assoc. Qed.
Lemma Suf_cons c t : Suf t (c :: t).
Proof. exists [c]. reflexivity. Qed.
Lemma Suf_skipn n s : Suf (skipn n s) s.
Proof. exists (firstn n s). symmetry. apply firstn_skipn. Qed.
Lemma Suf_length a s : Suf a s -> (length a <= length s)%nat.
Proof. intros [x ->]. rewrite app_length. lia. Qed.

Fixpoint minlen (r : re) : nat :=
  match r with
  | Chr _ => 1
  | Seq a b => minlen a + minlen b
  | Alt a b => Nat.min (minlen a) (minlen b)
  | Rep _ mn _ => mn
  | NegLook _ => 0
  end.

Lemma try_down_spec n mn s k x :
  try_down n mn s k = Some x -> exists j, (mn <= j <= n)%nat /\ k (skipn j s) = Some x.
Proof.
  induction n as [|n IH]; cbn [try_down].
  - destruct (k (skipn 0 s)) eqn:E; [|discriminate]. destruct (Nat.leb mn 0) eqn:L; [|discriminate].
    intros [= <-]. apply Nat.leb_le in L. exists 0%nat. split; [lia|exact E].
  - destruct (k (skipn (S n) s)) eqn:E.
    + destruct (Nat.leb mn (S n)) eqn:L; [|discriminate]. intros [= <-]. apply Nat.leb_le in L.
      exists (S n). split; [lia|exact E].
    + destruct (Nat.leb mn n) eqn:L; [|discriminate]. intros H. destruct (IH H) as [j [Hj Hk]].
      exists j. split; [lia|exact Hk].
Qed.

Lemma count_lead_le p cap s : (count_lead p cap s <= length s)%nat.
Proof.
  revert cap. induction s as [|c t IH]; intros cap; cbn [count_lead length]; [lia|].
  destruct cap as [[|m]|]; [lia| |]; destruct (p c); try lia; match goal with |- (S (count_lead _ ?c _) <= _)%nat => specialize (IH c); lia end.
Qed.

(** a successful match consumed a prefix of at least [minlen r] runes before handing over to the continuation *)
Lemma mt_spec r : forall s k x,
  mt r s k = Some x -> exists s', Suf s' s /\ (length s' + minlen r <= length s)%nat /\ k s' = Some x.
Proof.
  induction r as [p|a IHa b IHb|a IHa b IHb|p mn mx|p]; intros s k x H; cbn [mt minlen] in *.
  - destruct s as [|c t]; [discriminate|]. destruct (p c); [|discriminate].
    exists t. split; [apply Suf_cons|]. split; [cbn; lia|exact H].
  - apply IHa in H as [s1 [S1 [L1 H]]]. apply IHb in H as [s2 [S2 [L2 H]]].
    exists s2. split; [eapply Suf_trans; eassumption|]. split; [lia|exact H].
  - destruct (mt a s k) eqn:E.
    + injection H as <-. apply IHa in E as [s1 [S1 [L1 E]]]. exists s1. split; [exact S1|]. split; [lia|exact E].
    + apply IHb in H as [s1 [S1 [L1 H]]]. exists s1. split; [exact S1|]. split; [lia|exact H].
  - destruct (Nat.leb mn (count_lead p mx s)) eqn:L; [|discriminate].
    apply try_down_spec in H as [j [Hj Hk]]. exists (skipn j s). split; [apply Suf_skipn|]. split; [|exact Hk].
    pose proof (count_lead_le p mx s). rewrite skipn_length. lia.
  - exists s. split; [apply Suf_refl|]. split; [lia|].
    destruct s as [|c t]; [exact H|]. destruct (p c); [discriminate|exact H].
Qed.

Lemma match_at_spec r s rest :
  match_at r s = Some rest -> Suf rest s /\ (length rest + minlen r <= length s)%nat.
Proof.
  unfold match_at. intros H. apply mt_spec in H as [s' [S1 [L1 H]]]. injection H as <-. auto.
Qed.

(** * success lemmas *)
Definition total (k : list N -> option (list N)) : Prop := forall s, k s <> None.

Lemma try_down_some n mn s k j :
  (mn <= j <= n)%nat -> k (skipn j s) <> None -> try_down n mn s k <> None.
Proof.
  induction n as [|n IH]; intros Hj Hk; cbn [try_down].
  - assert (j = 0)%nat by lia. subst j. destruct (k (skipn 0 s)); [|congruence].
    replace (Nat.leb mn 0) with true by (symmetry; apply Nat.leb_le; lia). discriminate.
  - destruct (k (skipn (S n) s)) eqn:E.
    + replace (Nat.leb mn (S n)) with true by (symmetry; apply Nat.leb_le; lia). discriminate.
    + assert (j <> S n) by (intros ->; congruence).
      replace (Nat.leb mn n) with true by (symmetry; apply Nat.leb_le; lia). apply IH; [lia|exact Hk].
Qed.

Lemma rep_some p mn mx s k j :
  (mn <= j <= count_lead p mx s)%nat -> k (skipn j s) <> None -> mt (Rep p mn mx) s k <> None.
Proof.
  intros Hj Hk. cbn [mt]. replace (Nat.leb mn (count_lead p mx s)) with true by (symmetry; apply Nat.leb_le; lia).
  eapply try_down_some; eassumption.
Qed.

Lemma rep0_total p mx k : total k -> total (fun s => mt (Rep p 0 mx) s k).
Proof. intros Hk s. apply (rep_some p 0 mx s k 0); [lia|apply Hk]. Qed.

Lemma count_lead_pos p mx c t : p c = true -> mx <> Some 0%nat -> (1 <= count_lead p mx (c :: t))%nat.
Proof. intros Hp Hm. cbn [count_lead]. destruct mx as [[|m]|]; [congruence| |]; rewrite Hp; lia. Qed.

(** one or more of a class, first rune in the class, succeeding continuation *)
Lemma rep1_some p mx c t k : p c = true -> mx <> Some 0%nat -> total k -> mt (Rep p 1 mx) (c :: t) k <> None.
Proof.
  intros Hp Hm Hk. pose proof (count_lead_pos p mx c t Hp Hm).
  apply (rep_some p 1 mx (c :: t) k (count_lead p mx (c :: t))); [lia|apply Hk].
Qed.

Lemma alt_l a b s k : mt a s k <> None -> mt (Alt a b) s k <> None.
Proof. cbn [mt]. destruct (mt a s k); congruence. Qed.
Lemma alt_r a b s k : mt b s k <> None -> mt (Alt a b) s k <> None.
Proof. cbn [mt]. destruct (mt a s k); congruence. Qed.

Lemma alts_in l last x s k : In x (l ++ [last]) -> mt x s k <> None -> mt (alts l last) s k <> None.
Proof.
  induction l as [|a l IH]; cbn [alts app]; intros Hin Hx.
  - destruct Hin as [<-|[]]. exact Hx.
  - destruct Hin as [<-|Hin]; [apply alt_l, Hx|apply alt_r, IH; assumption].
Qed.

Lemma total_some : total (fun x => Some x).
Proof. intros s. discriminate. Qed.

(** an optional class followed by r: it is enough that r succeeds without the optional rune *)
Lemma opt_skip p r s k : mt r s k <> None -> mt (Seq (ropt p) r) s k <> None.
Proof. intros H. cbn [mt ropt]. apply (try_down_some _ 0 s _ 0); [lia|exact H]. Qed.

Section Gapless.
  Variable cls : ucls -> pred.

  (** the fourth alternative of both patterns: [ ?[^\s\p{L}\p{N}]+tail*] *)
  Lemma other_alt c t q k :
    not_S_L_N cls c = true -> total k ->
    mt (Seq (ropt (eqc 32)) (Seq (rplus (not_S_L_N cls)) (rstar q))) (c :: t) k <> None.
  Proof.
    intros Hc Hk. apply opt_skip. cbn [mt rplus]. fold (mt (Rep (not_S_L_N cls) 1 None) (c :: t) (fun s' => mt (rstar q) s' k)).
    apply rep1_some; [exact Hc|discriminate|]. apply rep0_total, Hk.
  Qed.

  Lemma space_alt c t k : cls US c = true -> total k -> mt (rplus (cls US)) (c :: t) k <> None.
  Proof. intros Hc Hk. apply rep1_some; [exact Hc|discriminate|exact Hk]. Qed.

  Lemma llama3_matches c t : match_at (llama3 cls) (c :: t) <> None.
  Proof.
    unfold match_at, llama3.
    destruct (cls US c) eqn:ES.
    { eapply alts_in; [apply in_or_app; right; left; reflexivity|]. apply space_alt; [exact ES|apply total_some]. }
    destruct (cls UL c) eqn:EL.
    { eapply alts_in; [right; left; reflexivity|]. apply opt_skip. apply rep1_some; [exact EL|discriminate|apply total_some]. }
    destruct (cls UN c) eqn:EN.
    { eapply alts_in; [right; right; left; reflexivity|]. apply rep1_some; [exact EN|discriminate|apply total_some]. }
    eapply alts_in; [right; right; right; left; reflexivity|].
    apply other_alt; [|apply total_some]. unfold not_S_L_N, pnot, por. rewrite ES, EL, EN. reflexivity.
  Qed.

  Lemma llama3_minlen : minlen (llama3 cls) = 1%nat.
  Proof. reflexivity. Qed.

  (** tekken needs: a \p{L} rune is in one of the letter subclasses *)
  Hypothesis HL : forall c, cls UL c = true -> upperish cls c || lowerish cls c = true.

  Lemma tekken_matches c t : match_at (tekken cls) (c :: t) <> None.
  Proof.
    unfold match_at, tekken.
    destruct (cls US c) eqn:ES.
    { eapply alts_in; [apply in_or_app; right; left; reflexivity|]. apply space_alt; [exact ES|apply total_some]. }
    destruct (cls UL c) eqn:EL.
    { specialize (HL c EL). destruct (lowerish cls c) eqn:Elo.
      - eapply alts_in; [left; reflexivity|]. apply opt_skip. cbn [mt rstar].
        apply (try_down_some _ 0 (c :: t) _ 0); [lia|]. cbn [skipn].
        apply rep1_some; [exact Elo|discriminate|apply total_some].
      - rewrite orb_false_r in HL.
        eapply alts_in; [right; left; reflexivity|]. apply opt_skip. cbn [mt rplus].
        fold (mt (Rep (upperish cls) 1 None) (c :: t) (fun s' => mt (rstar (lowerish cls)) s' (fun x => Some x))).
        apply rep1_some; [exact HL|discriminate|]. apply rep0_total, total_some. }
    destruct (cls UN c) eqn:EN.
    { eapply alts_in; [right; right; left; reflexivity|]. cbn [mt]. rewrite EN. discriminate. }
    eapply alts_in; [right; right; right; left; reflexivity|].
    apply other_alt; [|apply total_some]. unfold not_S_L_N, pnot, por. rewrite ES, EL, EN. reflexivity.
  Qed.

  Lemma tekken_minlen : minlen (tekken cls) = 1%nat.
  Proof. reflexivity. Qed.
End Gapless.

(** * the match loop over a gapless pattern without empty matches is a partition *)
Section Split.
  Variable r : re.
  Hypothesis Hmin : (1 <= minlen r)%nat.
  Hypothesis Hgap : forall c t, match_at r (c :: t) <> None.

  Lemma split_runes_partition fuel s :
    (length s < fuel)%nat ->
    concat (split_runes fuel r s) = s /\ Forall (fun p => p <> []) (split_runes fuel r s).
  Proof.
    revert s. induction fuel as [|f IH]; intros s Hf; [lia|]. cbn [split_runes].
    destruct s as [|c t].
    - destruct (match_at r []) eqn:E.
      + apply match_at_spec in E as [_ E]. cbn in E. lia.
      + split; [reflexivity|constructor].
    - destruct (match_at r (c :: t)) as [rest|] eqn:E; [|exfalso; exact (Hgap c t E)].
      apply match_at_spec in E as [[pre Hpre] Hl].
      assert (Hp : firstn (length (c :: t) - length rest) (c :: t) = pre).
      { rewrite Hpre. rewrite app_length, Nat.add_sub. rewrite firstn_app, firstn_all, Nat.sub_diag. cbn. apply app_nil_r. }
      rewrite Hp. destruct pre as [|p0 pre'].
      + exfalso. cbn in Hpre. rewrite <- Hpre in Hl. lia.
      + destruct (IH rest) as [IH1 IH2].
        { apply (f_equal (@length N)) in Hpre. rewrite app_length in Hpre. cbn [length] in *. lia. }
        split; [cbn [concat]; rewrite IH1; symmetry; exact Hpre|constructor; [discriminate|exact IH2]].
  Qed.

  Lemma of_runes_concat ps : of_runes (concat ps) = concat (map of_runes ps).
  Proof. induction ps as [|p ps IH]; [reflexivity|]. cbn [concat map]. rewrite of_runes_app', IH. reflexivity. Qed.

  Theorem pretok_partition rt :
    scalars rt ->
    concat (pretok r (of_runes rt)) = of_runes rt /\ Forall (fun p => p <> []) (pretok r (of_runes rt)).
  Proof.
    intros Hs. unfold pretok. rewrite to_runes_of_runes by exact Hs.
    destruct (split_runes_partition (S (length rt)) rt ltac:(lia)) as [H1 H2]. split.
    - rewrite <- of_runes_concat, H1. reflexivity.
    - apply Forall_forall. intros p Hp. apply in_map_iff in Hp as [q [<- Hq]].
      rewrite Forall_forall in H2. specialize (H2 q Hq). intros E. apply of_runes_nil_inv in E. contradiction.
  Qed.
End Split.

(** * BPE round trip with the modelled pre-tokeniser: no hypothesis about the pre-tokeniser is left *)
Section BpeWithPattern.
  Variable v : vocab.
  Variable r : re.
  Hypothesis Hmin : (1 <= minlen r)%nat.
  Hypothesis Hgap : forall c t, match_at r (c :: t) <> None.
  Hypothesis Hcons : vocab_consistent v.
  Hypothesis Hcomplete : bpe_complete v.
  Hypothesis Hspec : specials_in_vocab v.
  Hypothesis Hsv : specials_valid v.

  Theorem bpe_roundtrip_pattern rs :
    scalars rs -> no_nul (of_runes rs) = true -> specials_plain v (of_runes rs) ->
    bpe_decode v (bpe_encode v (pretok r) (of_runes rs) false) = Some (of_runes rs).
  Proof.
    intros Hs Hn Hg. apply bpe_roundtrip_on; try assumption.
    - apply of_runes_bytes.
    - intros t Hin. pose proof (fragments_valid v Hsv (of_runes rs) (ex_intro _ rs (conj Hs eq_refl))) as Hv.
      rewrite Forall_forall in Hv. specialize (Hv _ Hin). cbn in Hv. destruct Hv as [rt [Hrt ->]].
      apply pretok_partition; assumption.
  Qed.
End BpeWithPattern.
