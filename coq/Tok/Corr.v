(** Executable comparison functions of the C20 correspondence check (cases are written by props/c20.py). *)
From Coq Require Import List NArith ZArith Bool Arith.
From V Require Import Common.Bytes Tok.Utf8 Tok.ByteMap Tok.Heap Tok.Vocab Tok.Special Tok.Bpe Tok.Spm Tok.Pretok.
Import ListNotations.

Fixpoint eqb_ids (a b : list Z) : bool :=
  match a, b with
  | [], [] => true
  | x :: a', y :: b' => (x =? y)%Z && eqb_ids a' b'
  | _, _ => false
  end.

Fixpoint eqb_Ns (a b : list N) : bool :=
  match a, b with
  | [], [] => true
  | x :: a', y :: b' => (x =? y)%N && eqb_Ns a' b'
  | _, _ => false
  end.

(** the observed answers of the real pre-tokeniser, as a table fragment -> pieces *)
Definition split_table := list (str * list str).
Fixpoint table_find (tbl : split_table) (t : str) : option (list str) :=
  match tbl with
  | [] => None
  | (k, ps) :: r => if eqb_str k t then Some ps else table_find r t
  end.
Definition table_split (tbl : split_table) (t : str) : list str :=
  match table_find tbl t with Some ps => ps | None => [] end.

(** the hypothesis of the round-trip theorems, evaluated on the observed answers *)
Definition chk_partition (tbl : split_table) : bool :=
  forallb (fun e => eqb_str (concat (snd e)) (fst e) && forallb (fun p => negb (isnil p)) (snd e)) tbl.

Definition frags_known (v : vocab) (tbl : split_table) (text : str) : bool :=
  forallb (fun f => match f with
                    | FText t => match table_find tbl t with Some _ => true | None => false end
                    | FSpec _ _ => true
                    end) (fragments v text).

(** BPE: ids of Encode, and Decode of those ids ([dec_ok] = Decode returned without panic) *)
Definition chk_bpe (v : vocab) (tbl : split_table) (text : str) (addsp : bool) (ids : list Z)
           (dec_ok : bool) (dec : str) : bool :=
  frags_known v tbl text &&
  eqb_ids (bpe_encode v (table_split tbl) text addsp) ids &&
  match bpe_decode v ids with
  | Some d => dec_ok && eqb_str d dec
  | None => negb dec_ok
  end.

Definition chk_bpe_dec (v : vocab) (ids : list Z) (dec_ok : bool) (dec : str) : bool :=
  match bpe_decode v ids with
  | Some d => dec_ok && eqb_str d dec
  | None => negb dec_ok
  end.

(** SPM: [code] 0 = Decode ok, 1 = error returned, 2 = panic *)
Definition chk_spm_dec (v : vocab) (ids : list Z) (code : N) (dec : str) : bool :=
  match spm_decode v ids with
  | DOk d => (code =? 0)%N && eqb_str d dec
  | DErr => (code =? 1)%N
  | DPanic => (code =? 2)%N
  end.

Definition chk_spm (v : vocab) (text : str) (addsp : bool) (ids : list Z) (code : N) (dec : str) : bool :=
  eqb_ids (spm_encode v text addsp) ids && chk_spm_dec v ids code dec.

(** the special-token fragmentation alone: values and ids (-1 for text) *)
Definition frag_id (f : frag) : Z := match f with FText _ => (-1)%Z | FSpec _ id => id end.

(** direct observation of the byte map: the runes the implementation produced for the bytes *)
Definition chk_bmap (bytes runes : list N) : bool := eqb_Ns (map bmap bytes) runes.
(** direct observation of Decode's inverse map on single runes: observed bytes of decoding the rune string *)
Definition chk_unmap (runes : list N) (bytes : str) : bool := eqb_str (unmap_runes runes) bytes.

(** Go's conversions *)
Definition chk_runes (s : str) (rs : list N) : bool := eqb_Ns (to_runes s) rs.

(** the pre-tokeniser: the modelled pattern ([which] 0 = llama 3, 1 = tekken) with the class table observed for the
    runes of the text, against the pieces the real regexp2 split returned *)
Fixpoint eqb_strs (a b : list str) : bool :=
  match a, b with
  | [], [] => true
  | x :: a', y :: b' => eqb_str x y && eqb_strs a' b'
  | _, _ => false
  end.
(** 2 and 3 are not patterns of the repo: they exercise the match loop itself against the real engine - unmatched
    runes are dropped ([\p{L}+|\p{N}{1,3}]), empty matches are yielded and the search restarts one rune further
    ([\p{L}*]) *)
Definition pattern_of (which : N) (tbl : list (N * N)) : re :=
  let cls := cls_of_table tbl in
  if (which =? 0)%N then llama3 cls
  else if (which =? 1)%N then tekken cls
  else if (which =? 2)%N then Alt (rplus (cls UL)) (Rep (cls UN) 1%nat (Some 3%nat))
  else rstar (cls UL).
Definition chk_pretok (which : N) (tbl : list (N * N)) (text : str) (pieces : list str) : bool :=
  eqb_strs (pretok (pattern_of which tbl) text) pieces.

(** every observed (fragment, pieces) answer of a BPE case against the modelled pattern *)
Definition chk_pretok_tbl (which : N) (tbl : list (N * N)) (obs : split_table) : bool :=
  forallb (fun e => eqb_strs (pretok (pattern_of which tbl) (fst e)) (snd e)) obs.
