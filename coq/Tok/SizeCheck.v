(** The stale-candidate test of the SentencePiece merge loop ([len(left)+len(right) != pair.size]) is what keeps
    "every piece is a single rune or a token" true.  [spm_cells_nosize] is the same loop WITHOUT that test (a popped
    candidate is rejected only when one of its slots is empty): the text is still preserved, but a queued pair
    (X, Y) whose right slot has absorbed Z is merged into XYZ although only XY was looked up; a non-piece that
    contains U+2581 then goes through the byte fallback and decodes to a literal U+2581.  This is NOT the model
    of the code; it exists to show that the proof of C20_spm_merge_preserves_text depends on the test. *)
From Coq Require Import List NArith ZArith Bool Arith.
From V Require Import Common.Bytes Tok.Utf8 Tok.Heap Tok.Vocab Tok.Bpe Tok.Spm.
Import ListNotations.

Section NoSize.
  Variable v : vocab.

  Definition spm_step_nosize (len : Z) (cells : list cell) (p : cand) (h : list cand) : list cell * list cand :=
    let left := getc cells (ca p) in
    let right := getc cells (cb p) in
    if isnil (cr left) || isnil (cr right) then (cells, h)
    else
      let c4 := merge_cells cells (ca p) (cb p) in
      let h1 := spush_opt h (spairwise v len c4 (cp (getc c4 (ca p))) (ca p)) in
      let h2 := spush_opt h1 (spairwise v len c4 (ca p) (cn (getc c4 (ca p)))) in
      (c4, h2).

  Fixpoint spm_loop_nosize (fuel : nat) (len : Z) (cells : list cell) (h : list cand) : list cell * list cand :=
    match fuel with
    | O => (cells, h)
    | S f =>
      match hpop sless dcand h with
      | None => (cells, h)
      | Some (p, h') => let '(cells', h'') := spm_step_nosize len cells p h' in spm_loop_nosize f len cells' h''
      end
    end.

  Definition spm_cells_nosize (rs : list N) : list cell * list cand :=
    let len := Z.of_nat (length rs) in
    let cells := init_cells 0 rs in
    spm_loop_nosize (bpe_fuel (length rs)) len cells (sinit_heap v (length rs - 1) len cells 0 []).
End NoSize.

(** pieces U+2581, q, z, "U+2581 q" (score -5), "qz" (score -1), the byte tokens; no "U+2581 qz" *)
Definition sz_values : list str :=
  [sep; [113]; [122]; sep ++ [113]; [113; 122]]%N ++ map byte_token (map N.of_nat (seq 0 256)).
Definition sz_vocab : vocab :=
  vocab_of sz_values (repeat 1%N 261) ([0; 0; 0; -5; -1]%Z ++ repeat 0%Z 256) [] 0 0 false false.
(** the runes of " qz" after the space -> U+2581 replacement *)
Definition sz_runes : list N := [9601; 113; 122]%N.

(** the real loop: pieces U+2581 and "qz" (the stale candidate is rejected) *)
Lemma sz_with_check : map cr (fst (spm_cells sz_vocab sz_runes)) = [[9601]; [113; 122]; []]%N.
Proof. vm_compute. reflexivity. Qed.

(** without the test: one piece "U+2581 qz", which is neither a single rune nor a token; its ids are the byte
    fallback and they decode to a literal U+2581 *)
Lemma sz_without_check :
  map cr (fst (spm_cells_nosize sz_vocab sz_runes)) = [[9601; 113; 122]; []; []]%N /\
  venc sz_vocab (of_runes [9601; 113; 122]%N) = (-1)%Z /\
  spm_decode sz_vocab (spm_cell_ids sz_vocab (fst (spm_cells_nosize sz_vocab sz_runes))) = DOk (sep ++ [113; 122]%N).
Proof. vm_compute. repeat split; reflexivity. Qed.
