(** model.Vocabulary (model/process_text.go): the lookups the encoders use.  The encoders are written over the
    abstract interface [vocab] (functions); [vocab_of] builds it from the lists of the Go struct exactly as
    Vocabulary.Encode / Decode / Merge / SpecialVocabulary do; [vocab_sparse] builds it from association lists
    (used to evaluate the model with the 128k-token llama 3.2 vocabulary restricted to the strings that can be
    looked up for one input).  Definitions only. *)
From Coq Require Import List NArith ZArith Bool Arith.
From V Require Import Common.Bytes.
Import ListNotations.

Record vocab := {
  venc : str -> Z;              (* Vocabulary.Encode: id or -1 *)
  vdec : Z -> option str;       (* Vocabulary.Decode: None = index out of range (Go panics) *)
  vmerge : str -> str -> Z;     (* Vocabulary.Merge: rank or -1 *)
  vscore : Z -> Z;              (* Scores[id]; only compared, so any order embedding of float32 is faithful *)
  vspecials : list str;         (* SpecialVocabulary() in order *)
  vsize : Z;                    (* len(Values) *)
  vbos : Z; veos : Z; vaddbos : bool; vaddeos : bool
}.

(** map built by [for i, v := range l { m[v] = i }] then looked up: the LAST index holding the key *)
Fixpoint last_index_from (i : Z) (l : list str) (s : str) (acc : Z) : Z :=
  match l with
  | [] => acc
  | x :: t => last_index_from (i + 1) t s (if eqb_str x s then i else acc)
  end.
Definition last_index (l : list str) (s : str) : Z := last_index_from 0 l s (-1).

Definition nth_str (l : list str) (i : Z) : option str :=
  if (i <? 0)%Z then None else nth_error l (Z.to_nat i).

(** SpecialVocabulary: [if slices.Contains([]int{105, 106}, i) || Types[i] == TOKEN_TYPE_CONTROL] *)
Fixpoint specials_from (i : nat) (values : list str) (types : list N) : list str :=
  match values with
  | [] => []
  | v :: vt =>
    let ty := match types with t :: _ => t | [] => 0%N end in
    let rest := specials_from (S i) vt (tl types) in
    if Nat.eqb i 105 || Nat.eqb i 106 || N.eqb ty 3 then v :: rest else rest
  end.

Definition space : N := 32%N.

Definition vocab_of (values : list str) (types : list N) (scores : list Z) (merges : list str)
           (bos eos : Z) (addbos addeos : bool) : vocab :=
  {| venc := last_index values;
     vdec := nth_str values;
     vmerge := fun l r => last_index merges (l ++ space :: r);
     vscore := fun id => nth (Z.to_nat id) scores 0%Z;
     vspecials := specials_from 0 values types;
     vsize := Z.of_nat (length values);
     vbos := bos; veos := eos; vaddbos := addbos; vaddeos := addeos |}.

(** association-list form: [ents] = (token string, id), [mrg] = (left, right, rank), [scs] = (id, score) *)
Fixpoint assoc_str (l : list (str * Z)) (s : str) : Z :=
  match l with
  | [] => (-1)%Z
  | (k, v) :: t => if eqb_str k s then v else assoc_str t s
  end.
Fixpoint rassoc_str (l : list (str * Z)) (id : Z) : option str :=
  match l with
  | [] => None
  | (k, v) :: t => if (v =? id)%Z then Some k else rassoc_str t id
  end.
Fixpoint assoc_merge (l : list (str * str * Z)) (a b : str) : Z :=
  match l with
  | [] => (-1)%Z
  | (x, y, v) :: t => if eqb_str x a && eqb_str y b then v else assoc_merge t a b
  end.
Fixpoint assoc_Z (l : list (Z * Z)) (k : Z) : Z :=
  match l with
  | [] => 0%Z
  | (x, v) :: t => if (x =? k)%Z then v else assoc_Z t k
  end.

Definition vocab_sparse (ents : list (str * Z)) (mrg : list (str * str * Z)) (scs : list (Z * Z))
           (specials : list str) (size : Z) (bos eos : Z) (addbos addeos : bool) : vocab :=
  {| venc := assoc_str ents;
     vdec := fun id => if ((id <? 0) || (size <=? id))%Z then None else rassoc_str ents id;
     vmerge := assoc_merge mrg;
     vscore := assoc_Z scs;
     vspecials := specials;
     vsize := size;
     vbos := bos; veos := eos; vaddbos := addbos; vaddeos := addeos |}.
