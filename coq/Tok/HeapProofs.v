(** What the merge-loop proofs need from the heap: it never invents elements (everything popped or left over
    was pushed) and its size changes by exactly one per push/pop.  Nothing about the order is needed: the
    round-trip theorems hold whatever order pairs are popped in. *)
From Coq Require Import List Arith Bool Lia.
From V Require Import Tok.Heap.
Import ListNotations.

Section HeapProofs.
  Context {A : Type} (less : A -> A -> bool) (d : A).

  Lemma upd_length i x (l : list A) : length (upd i x l) = length l.
  Proof. revert i; induction l as [|y l IH]; intros [|i]; cbn; auto. Qed.

  Lemma upd_In i x (l : list A) y : In y (upd i x l) -> y = x \/ In y l.
  Proof.
    revert i; induction l as [|z l IH]; intros [|i]; cbn; try tauto.
    - intros [H|H]; auto.
    - intros [H|H]; auto. apply IH in H. tauto.
  Qed.

  Lemma swap_length i j (l : list A) : length (swap d i j l) = length l.
  Proof. unfold swap. rewrite !upd_length. reflexivity. Qed.

  Lemma swap_In i j (l : list A) y :
    i < length l -> j < length l -> In y (swap d i j l) -> In y l.
  Proof.
    intros Hi Hj H. unfold swap in H. apply upd_In in H as [->|H]; [apply nth_In, Hj|].
    apply upd_In in H as [->|H]; [apply nth_In, Hi|exact H].
  Qed.

  Lemma up_length fuel (l : list A) j : length (up less d fuel l j) = length l.
  Proof.
    revert l j; induction fuel as [|f IH]; intros l j; cbn [up]; [reflexivity|].
    destruct j; [reflexivity|]. destruct (less _ _); [|reflexivity]. rewrite IH. apply swap_length.
  Qed.

  Lemma div2_lt j : Nat.div2 (S j - 1) < S j.
  Proof. rewrite Nat.sub_succ, Nat.sub_0_r. pose proof (Nat.div2_decr j j). lia. Qed.

  Lemma up_In fuel (l : list A) j y : j < length l -> In y (up less d fuel l j) -> In y l.
  Proof.
    revert l j; induction fuel as [|f IH]; intros l j Hj H; cbn [up] in H; [exact H|].
    destruct j; [exact H|]. destruct (less _ _); [|exact H].
    pose proof (div2_lt j) as Hlt.
    apply IH in H; [|rewrite swap_length; lia].
    apply swap_In in H; [exact H|lia|exact Hj].
  Qed.

  Lemma down_length fuel (l : list A) i n : length (down less d fuel l i n) = length l.
  Proof.
    revert l i; induction fuel as [|f IH]; intros l i; cbn [down]; [reflexivity|].
    destruct (n <=? 2 * i + 1); [reflexivity|]. destruct (less _ _); [|reflexivity].
    rewrite IH. apply swap_length.
  Qed.

  Lemma down_In fuel (l : list A) i n y : n <= length l -> In y (down less d fuel l i n) -> In y l.
  Proof.
    revert l i; induction fuel as [|f IH]; intros l i Hn H; cbn [down] in H; [exact H|].
    destruct (n <=? 2 * i + 1) eqn:E; [exact H|]. apply Nat.leb_gt in E.
    set (j := if (2 * i + 1 + 1 <? n) && less (nth (2 * i + 1 + 1) l d) (nth (2 * i + 1) l d)
              then 2 * i + 1 + 1 else 2 * i + 1) in *.
    assert (Hj : j < n).
    { subst j. destruct (2 * i + 1 + 1 <? n) eqn:E2; cbn [andb].
      - apply Nat.ltb_lt in E2. match goal with |- context [if ?c then _ else _] => destruct c end; lia.
      - lia. }
    destruct (less (nth j l d) (nth i l d)); [|exact H].
    apply IH in H; [|rewrite swap_length; exact Hn].
    apply swap_In in H; [exact H|lia|lia].
  Qed.

  Lemma hpush_length (h : list A) x : length (hpush less d h x) = S (length h).
  Proof. unfold hpush. rewrite up_length, app_length. cbn. lia. Qed.

  Lemma hpush_In (h : list A) x y : In y (hpush less d h x) -> y = x \/ In y h.
  Proof.
    unfold hpush. intros H. apply up_In in H; [|rewrite app_length; cbn; lia].
    apply in_app_or in H as [H|[H|[]]]; auto.
  Qed.

  Lemma hpop_spec (h : list A) x h' :
    hpop less d h = Some (x, h') -> In x h /\ incl h' h /\ S (length h') = length h.
  Proof.
    unfold hpop. destruct h as [|a h0] eqn:Eh; [discriminate|]. rewrite <- Eh.
    assert (Hlen : length h >= 1) by (subst h; cbn; lia).
    clear Eh. intros [= <- <-].
    set (n := length h - 1).
    set (l := swap d 0 n h).
    set (l' := down less d (length h) l 0 n).
    assert (Hl : length l = length h) by apply swap_length.
    assert (Hl' : length l' = length h) by (unfold l'; rewrite down_length; exact Hl).
    assert (Hin : forall y, In y l' -> In y h).
    { intros y Hy. unfold l' in Hy. apply down_In in Hy; [|unfold n; lia].
      unfold l in Hy. apply swap_In in Hy; [exact Hy|lia|unfold n; lia]. }
    split; [apply Hin, nth_In; unfold n; lia|]. split.
    - intros y Hy. apply Hin. rewrite <- (firstn_skipn n l'). apply in_or_app. left. exact Hy.
    - rewrite firstn_length, Hl'. unfold n. lia.
  Qed.

  Lemma hpop_none (h : list A) : hpop less d h = None -> h = [].
  Proof. unfold hpop. destruct h; [reflexivity|discriminate]. Qed.
End HeapProofs.
