(** The retry clause: against a fault-free registry + CDN, attempts eventually succeed, provided the part records on
    disk stay within the published blobs (which is what a truthful Content-Length at HEAD produces). *)
From Coq Require Import List NArith ZArith Bool Lia.
From V Require Import Common.Bytes Pull.Challenge Pull.Download Pull.StoreProofs Pull.LayoutProofs.
Import ListNotations.
Open Scope Z_scope.

(** ** files *)
Lemma resize_length n d : length (resize n d) = n.
Proof. unfold resize. rewrite app_length, firstn_length, repeat_length. lia. Qed.

Lemma write_at_inside d off b : (off + length b <= length d)%nat ->
  write_at d off b = firstn off d ++ b ++ skipn (off + length b) d.
Proof.
  intros Hle. unfold write_at. replace (off - length d)%nat with 0%nat by lia. cbn [repeat]. rewrite app_nil_r. reflexivity.
Qed.

Lemma write_at_length_inside d off b : (off + length b <= length d)%nat -> length (write_at d off b) = length d.
Proof.
  intros Hle. rewrite write_at_inside by exact Hle. rewrite !app_length, firstn_length, skipn_length. lia.
Qed.

Lemma firstn_plus {A} (l : list A) a n : firstn (a + n) l = firstn a l ++ firstn n (skipn a l).
Proof.
  revert l. induction a as [|a IH]; intros l; cbn; [reflexivity|].
  destruct l as [|x l]; cbn; [rewrite firstn_nil; reflexivity|]. rewrite IH. reflexivity.
Qed.

(** writing the right bytes at [off] extends the prefix on which the file agrees with the blob *)
Lemma write_at_prefix d off b c :
  (off + length b <= length d)%nat -> firstn off d = firstn off c -> b = firstn (length b) (skipn off c) ->
  firstn (off + length b) (write_at d off b) = firstn (off + length b) c.
Proof.
  intros Hle Hpre Hb. rewrite write_at_inside by exact Hle.
  rewrite firstn_plus with (l := c). rewrite <- Hb, <- Hpre.
  assert (Hlen : length (firstn off d) = off) by (rewrite firstn_length; lia).
  rewrite app_assoc. rewrite firstn_app.
  replace (off + length b - length (firstn off d ++ b))%nat with 0%nat by (rewrite app_length; lia).
  cbn [firstn]. rewrite app_nil_r. apply firstn_all2. rewrite app_length. lia.
Qed.

Section Retry.
  Variable H : bytes -> digest.
  Variable k : consts.
  Variable content : digest -> bytes.
  Hypothesis Hk : 0 < c_min k <= c_max k.
  Hypothesis Hretries : c_retries k <> O.

  (** a part record that stays within the blob *)
  Definition part_sane (c : bytes) (p : part) : Prop :=
    0 <= poff p /\ 0 <= pdone p <= psize p /\ poff p + psize p <= zlen c.

  Definition cleanf (c : bytes) : creq -> cresp := fun rq => CBody (slice c rq) EClean.
  Definition clean_chunks (c : bytes) : Z -> list (creq -> cresp) := fun _ => repeat (cleanf c) (c_retries k).

  Lemma slice_length c a b : 0 <= a -> a <= b + 1 -> b + 1 <= zlen c -> zlen (slice c (a, b)) = b + 1 - a.
  Proof.
    intros Ha Hab Hb. unfold slice, zlen in *. cbn [fst snd]. rewrite firstn_length, skipn_length. lia.
  Qed.

  Lemma chunk_clean c p d : part_sane c p ->
    chunk p d (cleanf c (poff p + pdone p, poff p + psize p - 1))
    = (mkPart (poff p) (psize p) (psize p), write_at d (Z.to_nat (poff p + pdone p)) (slice c (poff p + pdone p, poff p + psize p - 1)), COk).
  Proof.
    intros [Ho [Hd Hs]]. unfold chunk, cleanf.
    set (b := slice c (poff p + pdone p, poff p + psize p - 1)).
    assert (Hlen : zlen b = psize p - pdone p) by (unfold b; rewrite slice_length; lia).
    rewrite Hlen. rewrite Z.leb_refl.
    rewrite Z.max_l by lia. replace (pdone p + (psize p - pdone p)) with (psize p) by lia.
    rewrite firstn_all2; [reflexivity|]. unfold zlen in Hlen. lia.
  Qed.

  Lemma run_part_clean c p d : part_sane c p ->
    run_part (c_retries k) p d (clean_chunks c (poff p + psize p - 1))
    = (mkPart (poff p) (psize p) (psize p), write_at d (Z.to_nat (poff p + pdone p)) (slice c (poff p + pdone p, poff p + psize p - 1)), POk,
       [(poff p + pdone p, poff p + psize p - 1)]).
  Proof.
    intros Hs. unfold clean_chunks.
    assert (Ht : exists t, c_retries k = S t) by (destruct (c_retries k) as [|t] eqn:E; [contradiction|eauto]).
    destruct Ht as [t Ht]. rewrite Ht.
    cbn [repeat run_part]. rewrite (chunk_clean c p d Hs). reflexivity.
  Qed.

  (** with records that stay within the blob, every part completes at its first try *)
  Lemma run_parts_clean_ok c ps : forall d, Forall (part_sane c) ps ->
    exists ps' d' rq, run_parts k ps d (clean_chunks c) = (ps', d', true, rq).
  Proof.
    induction ps as [|p ps IH]; intros d Hf; cbn [run_parts].
    - eauto.
    - inversion Hf as [|? ? Hp Hps]; subst.
      destruct (pdone p =? psize p).
      + destruct (IH d Hps) as [ps' [d' [rq Hr]]]. rewrite Hr. eauto.
      + rewrite (run_part_clean c p d Hp).
        destruct (IH (write_at d (Z.to_nat (poff p + pdone p)) (slice c (poff p + pdone p, poff p + psize p - 1))) Hps) as [ps' [d' [rq Hr]]].
        rewrite Hr. eauto.
  Qed.

  (** a fresh layout over a file of the right length is filled with exactly the blob *)
  Lemma run_parts_fresh c mx ps : forall from d,
    tiles mx from (zlen c) ps -> 0 <= from -> length d = length c ->
    firstn (Z.to_nat from) d = firstn (Z.to_nat from) c ->
    exists ps' rq, run_parts k ps d (clean_chunks c) = (ps', c, true, rq).
  Proof.
    induction ps as [|p ps IH]; intros from d Ht Hfrom Hlen Hpre; cbn [run_parts tiles] in *.
    - exists [], []. f_equal. f_equal. f_equal.
      subst from. unfold zlen in Hpre. rewrite Nat2Z.id in Hpre.
      rewrite <- (firstn_all d), <- (firstn_all c), Hlen. exact Hpre.
    - destruct Ht as [Hoff [Hsz [Hdone [Hle Ht]]]].
      assert (Hs : part_sane c p) by (unfold part_sane; lia).
      destruct (Z.eqb_spec (pdone p) (psize p)) as [E|_]; [lia|].
      rewrite (run_part_clean c p d Hs). rewrite Hdone, Z.add_0_r, Hoff.
      set (b := slice c (from, from + psize p - 1)).
      assert (Hbl : length b = Z.to_nat (psize p)).
      { assert (Hzl : zlen b = psize p) by (unfold b; rewrite slice_length; lia). unfold zlen in Hzl. lia. }
      assert (Hin : (Z.to_nat from + length b <= length d)%nat) by (rewrite Hbl, Hlen; unfold zlen in Hle; lia).
      destruct (IH (from + psize p) (write_at d (Z.to_nat from) b)) as [ps' [rq Hr]].
      + exact Ht.
      + lia.
      + rewrite write_at_length_inside by exact Hin. exact Hlen.
      + replace (Z.to_nat (from + psize p)) with (Z.to_nat from + length b)%nat by lia.
        apply write_at_prefix; [exact Hin|exact Hpre|].
        rewrite Hbl. unfold b, slice. cbn [fst snd].
        replace (from + psize p - 1 + 1 - from) with (psize p) by lia. reflexivity.
      + rewrite Hr. eauto.
  Qed.

  (** ** one blob against the fault-free environment *)
  Definition dl_sane (st : store) (d : digest) : Prop :=
    match lookup N.eqb d (s_dl st) with
    | Some x => Forall (part_sane (content d)) (d_parts x)
    | None => True
    end.
  (** resume state that a download would pick up *)
  Definition staleb (st : store) (d : digest) : bool :=
    match lookup N.eqb d (s_blobs st) with
    | Some _ => false
    | None => match lookup N.eqb d (s_dl st) with
              | Some x => match d_parts x with [] => false | _ => true end
              | None => false
              end
    end.

  Lemma clean_benv_chunks c : be_chunks (clean_benv k c) = clean_chunks c.
  Proof. reflexivity. Qed.

  Lemma remove_key_idem {V} d (l : list (N * V)) : remove_key N.eqb d (remove_key N.eqb d l) = remove_key N.eqb d l.
  Proof.
    unfold remove_key. induction l as [|[d' v] l IH]; cbn [filter fst]; [reflexivity|].
    destruct (negb (N.eqb d d')) eqn:E; cbn [filter fst]; [rewrite E, IH; reflexivity|exact IH].
  Qed.
  Lemma remove_key_set_key {V} d (x : V) l : remove_key N.eqb d (set_key N.eqb d x l) = remove_key N.eqb d l.
  Proof.
    unfold set_key. unfold remove_key at 1. cbn [filter fst]. rewrite N.eqb_refl. cbn [negb].
    apply remove_key_idem.
  Qed.
  Lemma put_dl_remove d x st : remove_key N.eqb d (s_dl (put_dl d x st)) = remove_key N.eqb d (s_dl st).
  Proof.
    unfold put_dl. destruct (d_file x), (d_parts x); cbn [s_dl set_dl drop_dl]; auto using remove_key_set_key, remove_key_idem.
  Qed.

  Lemma download_from_clean st d old :
    H (content d) = d -> Forall (part_sane (content d)) (d_parts old) ->
    exists st' r tr, download_from H true k st d (clean_benv k (content d)) old = (st', r, tr) /\
      match r with
      | DHit => False
      | DOk => s_dl st' = remove_key N.eqb d (s_dl st) /\ exists c, s_blobs st' = set_key N.eqb d c (s_blobs st) /\ H c = d
      | DErr => s_dl st' = remove_key N.eqb d (s_dl st) /\ s_blobs st' = s_blobs st /\ d_parts old <> []
      end /\ s_man st' = s_man st.
  Proof.
    intros Hd Hsane. unfold download_from.
    set (c := content d) in *.
    destruct (d_parts old) as [|p ps] eqn:Hps.
    - (* no records: HEAD, fresh layout *)
      cbn [be_head clean_benv be_direct negb].
      pose proof (layout_tiles k (zlen c) Hk ltac:(unfold zlen; lia)) as Ht.
      destruct (run_parts_fresh c _ (layout k (zlen c)) 0 (resize (Z.to_nat (zlen c)) match d_file old with Some f => f | None => [] end) Ht) as [ps' [rq Hr]];
        [lia|rewrite resize_length; unfold zlen; lia|reflexivity|].
      rewrite clean_benv_chunks, Hr. cbn [negb andb].
      rewrite Hd, N.eqb_refl. cbn [negb].
      eexists _, DOk, _. split; [reflexivity|]. split; [|reflexivity]. split; [reflexivity|].
      exists c. split; [reflexivity|exact Hd].
    - (* resume from the records *)
      cbn [be_direct clean_benv negb].
      destruct (run_parts_clean_ok c (p :: ps) (resize (Z.to_nat (sum_sizes (p :: ps))) match d_file old with Some f => f | None => [] end) Hsane) as [ps' [d' [rq Hr]]].
      rewrite clean_benv_chunks, Hr. cbn [negb andb].
      destruct (N.eqb (H d') d) eqn:Hv; cbn [negb].
      + eexists _, DOk, _. split; [reflexivity|]. split; [|reflexivity]. split; [reflexivity|].
        exists d'. split; [reflexivity|]. apply N.eqb_eq, Hv.
      + eexists _, DErr, _. split; [reflexivity|]. split; [|reflexivity]. repeat split. discriminate.
  Qed.

  Lemma download_blob_clean st d :
    blobs_ok H st -> H (content d) = d -> dl_sane st d ->
    exists st' r tr, download_blob H true k st d (clean_benv k (content d)) = (st', r, tr) /\
      match r with
      | DHit => st' = st
      | DOk => s_dl st' = remove_key N.eqb d (s_dl st) /\ exists c, s_blobs st' = set_key N.eqb d c (s_blobs st) /\ H c = d
      | DErr => s_dl st' = remove_key N.eqb d (s_dl st) /\ s_blobs st' = s_blobs st /\ staleb st d = true
      end /\ s_man st' = s_man st.
  Proof.
    intros Hok Hd Hsane. unfold download_blob, dl_sane, staleb in *.
    destruct (lookup N.eqb d (s_blobs st)) as [c0|] eqn:Hb.
    { exists st, DHit, no_trace. repeat split. }
    set (old := match lookup N.eqb d (s_dl st) with Some x => x | None => mkDl None [] end).
    assert (Hold : Forall (part_sane (content d)) (d_parts old)).
    { unfold old. destruct (lookup N.eqb d (s_dl st)); [exact Hsane|constructor]. }
    destruct (usable old).
    - destruct (download_from_clean st d old Hd Hold) as [st' [r [tr [Hf [Hr Hm]]]]].
      exists st', r, tr. split; [exact Hf|]. split; [|exact Hm].
      destruct r; [contradiction|exact Hr|].
      destruct Hr as [H1 [H2 H3]]. repeat split; auto.
      unfold old in H3. destruct (lookup N.eqb d (s_dl st)) as [x|]; [|exfalso; apply H3; reflexivity].
      destruct (d_parts x); [exfalso; apply H3; reflexivity|reflexivity].
    - destruct (download_from_clean (put_dl d (mkDl (d_file old) []) st) d (mkDl (d_file old) []) Hd ltac:(constructor)) as [st' [r [tr [Hf [Hr Hm]]]]].
      destruct (put_dl_blobs d (mkDl (d_file old) []) st) as [Eb Em].
      exists st', r, tr. split; [exact Hf|]. split; [|congruence].
      destruct r; [contradiction| |].
      + destruct Hr as [H1 [c [H2 H3]]]. rewrite put_dl_remove in H1. rewrite Eb in H2. split; [exact H1|]. exists c. split; assumption.
      + destruct Hr as [_ [_ H3]]. exfalso. apply H3. reflexivity.
  Qed.

  (** ** the measure: layers whose download would resume from records *)
  Definition mu (st : store) (ls : list layer) : nat := length (filter (fun l => staleb st (l_digest l)) ls).

  (** [st'] has no more resume state than [st] *)
  Definition less_stale (st st' : store) : Prop := forall d, staleb st' d = true -> staleb st d = true.

  Lemma less_stale_refl st : less_stale st st.
  Proof. intros d Hd. exact Hd. Qed.
  Lemma less_stale_trans a b c : less_stale a b -> less_stale b c -> less_stale a c.
  Proof. intros H1 H2 d Hd. apply H1, H2, Hd. Qed.

  Lemma mu_mono st st' ls : less_stale st st' -> (mu st' ls <= mu st ls)%nat.
  Proof.
    intros Hl. unfold mu. induction ls as [|l ls IH]; cbn [filter]; [lia|].
    destruct (staleb st' (l_digest l)) eqn:E.
    - rewrite (Hl _ E). cbn [length]. lia.
    - destruct (staleb st (l_digest l)); cbn [length]; lia.
  Qed.

  Lemma staleb_after st st' d :
    s_dl st' = remove_key N.eqb d (s_dl st) ->
    (forall d' c, lookup N.eqb d' (s_blobs st) = Some c -> exists c', lookup N.eqb d' (s_blobs st') = Some c') ->
    less_stale st st' /\ staleb st' d = false.
  Proof.
    intros Hdl Hbl. split.
    - intros d' Hs. unfold staleb in *. rewrite Hdl in Hs.
      destruct (lookup N.eqb d' (s_blobs st)) as [c|] eqn:Hb.
      + destruct (Hbl _ _ Hb) as [c' Hc']. rewrite Hc' in Hs. discriminate.
      + destruct (lookup N.eqb d' (s_blobs st')); [discriminate|].
        destruct (N.eq_dec d' d) as [->|Hne].
        * rewrite lookup_remove_same in Hs. discriminate.
        * rewrite lookup_remove_other in Hs by exact Hne. exact Hs.
    - unfold staleb. rewrite Hdl, lookup_remove_same. destruct (lookup N.eqb d (s_blobs st')); reflexivity.
  Qed.

  Definition all_sane (st : store) (ls : list layer) : Prop := forall l, In l ls -> dl_sane st (l_digest l).
  Definition published (ls : list layer) : Prop := forall l, In l ls -> l_valid l = true /\ H (content (l_digest l)) = l_digest l.

  Lemma dl_sane_after st st' d d' : s_dl st' = remove_key N.eqb d (s_dl st) -> dl_sane st d' -> dl_sane st' d'.
  Proof.
    intros Hdl Hs. unfold dl_sane in *. rewrite Hdl. destruct (N.eq_dec d' d) as [->|Hne].
    - rewrite lookup_remove_same. exact I.
    - rewrite lookup_remove_other by exact Hne. exact Hs.
  Qed.

  Lemma lookup_set_some d d' c (bl : list (digest * bytes)) c0 :
    lookup N.eqb d' bl = Some c0 -> exists c', lookup N.eqb d' (set_key N.eqb d c bl) = Some c'.
  Proof.
    intros Hl. destruct (N.eq_dec d' d) as [->|Hne].
    - rewrite lookup_set_same. eauto.
    - rewrite lookup_set_other by exact Hne. eauto.
  Qed.

  (** the download loop against the fault-free environment: either every layer ends up present, or one stale resume
      state was consumed (and removed) *)
  Lemma download_all_clean ls : forall st skip all,
    published ls -> blobs_ok H st -> all_sane st all -> (forall l, In l ls -> In l all) ->
    exists st' sk trs,
      download_all H true k st ls (map (fun l => clean_benv k (content (l_digest l))) ls) skip = (st', sk, trs) /\
      blobs_ok H st' /\ all_sane st' all /\ less_stale st st' /\ s_man st' = s_man st /\
      match sk with
      | Some _ => forall l, In l ls -> layer_ok H st' l
      | None => (mu st' ls < mu st ls)%nat
      end.
  Proof.
    induction ls as [|l ls IH]; intros st skip all Hpub Hok Hsane Hsub; cbn [download_all map].
    - exists st, (Some skip), []. repeat split; auto using less_stale_refl. intros l [].
    - destruct (Hpub l (or_introl eq_refl)) as [Hval Hd]. rewrite Hval. cbn [negb tl].
      destruct (download_blob_clean st (l_digest l) Hok Hd (Hsane l (Hsub l (or_introl eq_refl)))) as [st1 [r [tr [Hb [Hr Hm1]]]]].
      rewrite Hb.
      pose proof (download_blob_spec H k _ _ _ _ _ _ Hb Hok) as [Hok1 [Hg1 [_ Hpres]]].
      assert (Hpub' : published ls) by (intros l' Hin; apply Hpub; right; exact Hin).
      assert (Hsub' : forall l', In l' ls -> In l' all) by (intros l' Hin; apply Hsub; right; exact Hin).
      destruct r.
      + (* cache hit *)
        subst st1.
        destruct (IH st (set_key N.eqb (l_digest l) true skip) all Hpub' Hok Hsane Hsub') as [st2 [sk [trs [Ha [Hok2 [Hs2 [Hl2 [Hm2 Hres]]]]]]]].
        rewrite Ha. eexists _, _, _. split; [reflexivity|]. repeat split; auto.
        destruct sk.
        * intros l' [<-|Hin]; [|apply Hres, Hin].
          destruct (Hpres ltac:(discriminate)) as [c [Hc1 Hc2]]. exists c. split; [|exact Hc2].
          pose proof (download_all_spec H k _ _ _ _ _ _ _ Ha Hok) as [_ [Hg2 _]]. apply Hg2, Hc1.
        * unfold mu in *. cbn [filter].
          assert (Hns : staleb st (l_digest l) = false).
          { destruct (Hpres ltac:(discriminate)) as [c [Hc1 _]]. unfold staleb. rewrite Hc1. reflexivity. }
          rewrite Hns. destruct (staleb st2 (l_digest l)) eqn:E; [rewrite (Hl2 _ E) in Hns; discriminate|]. exact Hres.
      + (* downloaded *)
        assert (Hdl : s_dl st1 = remove_key N.eqb (l_digest l) (s_dl st)) by (destruct Hr as [? _]; assumption).
        assert (Hbl : forall d' c, lookup N.eqb d' (s_blobs st) = Some c -> exists c', lookup N.eqb d' (s_blobs st1) = Some c').
        { intros d' c Hc. exists c. apply Hg1, Hc. }
        destruct (staleb_after st st1 (l_digest l) Hdl Hbl) as [Hls1 Hns1].
        assert (Hsane1 : all_sane st1 all) by (intros l' Hin; eapply dl_sane_after; [exact Hdl|apply Hsane, Hin]).
        destruct (IH st1 (set_key N.eqb (l_digest l) false skip) all Hpub' Hok1 Hsane1 Hsub') as [st2 [sk [trs [Ha [Hok2 [Hs2 [Hl2 [Hm2 Hres]]]]]]]].
        rewrite Ha. eexists _, _, _. split; [reflexivity|]. repeat split; auto.
        * eapply less_stale_trans; eassumption.
        * congruence.
        * destruct sk.
          -- intros l' [<-|Hin]; [|apply Hres, Hin].
             destruct (Hpres ltac:(discriminate)) as [c [Hc1 Hc2]]. exists c. split; [|exact Hc2].
             pose proof (download_all_spec H k _ _ _ _ _ _ _ Ha Hok1) as [_ [Hg2 _]]. apply Hg2, Hc1.
          -- unfold mu in *. cbn [filter].
             destruct (staleb st2 (l_digest l)) eqn:E; [rewrite (Hl2 _ E) in Hns1; discriminate|].
             pose proof (mu_mono st st1 ls Hls1) as Hmm. unfold mu in Hmm.
             destruct (staleb st (l_digest l)); cbn [length]; lia.
      + (* the resumed file did not have the digest: records and file removed, the pull fails *)
        destruct Hr as [Hdl [Hbl Hst]].
        assert (Hbl' : forall d' c, lookup N.eqb d' (s_blobs st) = Some c -> exists c', lookup N.eqb d' (s_blobs st1) = Some c').
        { intros d' c Hc. exists c. rewrite Hbl. exact Hc. }
        destruct (staleb_after st st1 (l_digest l) Hdl Hbl') as [Hls1 Hns1].
        eexists _, _, _. split; [reflexivity|]. repeat split; auto.
        * intros l' Hin. eapply dl_sane_after; [exact Hdl|apply Hsane, Hin].
        * unfold mu. cbn [filter]. rewrite Hst, Hns1. cbn [length].
          pose proof (mu_mono st st1 ls Hls1) as Hmm. unfold mu in Hmm. lia.
  Qed.

  Lemma verify_all_present ls : forall st skip, blobs_ok H st -> (forall l, In l ls -> layer_ok H st l) ->
    verify_all H st ls skip = (st, true).
  Proof.
    induction ls as [|l ls IH]; intros st skip Hok Hl; cbn [verify_all]; [reflexivity|].
    destruct (match lookup N.eqb (l_digest l) skip with Some true => true | _ => false end).
    - apply IH; [exact Hok|]. intros l' Hin. apply Hl. right. exact Hin.
    - destruct (Hl l (or_introl eq_refl)) as [c [Hc1 Hc2]]. rewrite Hc1, Hc2, N.eqb_refl.
      apply IH; [exact Hok|]. intros l' Hin. apply Hl. right. exact Hin.
  Qed.

  (** ** one fault-free attempt: success, or strictly less resume state *)
  Lemma pull_clean st name m :
    published (all_layers m) -> blobs_ok H st -> all_sane st (all_layers m) ->
    exists st' r trs, pull H true k st name (clean_penv k content m) = (st', r, trs) /\
      match r with
      | PSuccess => True
      | PFail => blobs_ok H st' /\ all_sane st' (all_layers m) /\ (mu st' (all_layers m) < mu st (all_layers m))%nat
      end.
  Proof.
    intros Hpub Hok Hsane. unfold pull, clean_penv. cbn [pe_manifest pe_blobs].
    destruct (download_all_clean (all_layers m) st [] (all_layers m) Hpub Hok Hsane ltac:(auto)) as [st1 [sk [trs [Ha [Hok1 [Hs1 [Hl1 [Hm1 Hres]]]]]]]].
    rewrite Ha. destruct sk as [skip|].
    - rewrite (verify_all_present _ st1 skip Hok1 Hres). cbn [negb]. eexists _, PSuccess, _. split; [reflexivity|exact I].
    - eexists _, PFail, _. split; [reflexivity|]. repeat split; assumption.
  Qed.

  Lemma iter_n_succ_r' {A} n (f : A -> A) x : iter_n (S n) f x = iter_n n f (f x).
  Proof. induction n as [|n IH]; [reflexivity|]. cbn [iter_n] in *. rewrite IH. reflexivity. Qed.

  Theorem retry_succeeds name m : forall n st,
    published (all_layers m) -> blobs_ok H st -> all_sane st (all_layers m) -> (mu st (all_layers m) <= n)%nat ->
    exists j, (j <= n)%nat /\
      pull_result (pull H true k (iter_n j (fun s => pull_store (pull H true k s name (clean_penv k content m))) st)
                        name (clean_penv k content m)) = PSuccess.
  Proof.
    induction n as [|n IH]; intros st Hpub Hok Hsane Hmu.
    - destruct (pull_clean st name m Hpub Hok Hsane) as [st' [r [trs [Hp Hr]]]].
      destruct r; [exists O; split; [lia|]; cbn [iter_n]; rewrite Hp; reflexivity|].
      destruct Hr as [_ [_ Hlt]]. lia.
    - destruct (pull_clean st name m Hpub Hok Hsane) as [st' [r [trs [Hp Hr]]]].
      destruct r; [exists O; split; [lia|]; cbn [iter_n]; rewrite Hp; reflexivity|].
      destruct Hr as [Hok' [Hsane' Hlt]].
      destruct (IH st' Hpub Hok' Hsane' ltac:(lia)) as [j [Hj Hs]].
      exists (S j). split; [lia|]. rewrite iter_n_succ_r'. rewrite Hp. exact Hs.
  Qed.

  (** ** the guard is an invariant of histories in which HEAD never reports a wrong Content-Length *)
  Lemma chunk_sane c p d r : part_sane c p -> part_sane c (fst (fst (chunk p d r))).
  Proof.
    intros [Ho [Hd Hs]]. unfold chunk.
    destruct r as [|b e|b|b]; cbn [fst].
    - unfold part_sane; lia.
    - destruct (Z.leb_spec (psize p - pdone p) (zlen b)); cbn [fst].
      + unfold part_sane; cbn [poff psize pdone]; lia.
      + destruct e; cbn [fst]; unfold part_sane; cbn [poff psize pdone]; unfold zlen in *; lia.
    - destruct (Z.leb_spec (psize p - pdone p) (zlen b)); cbn [fst]; unfold part_sane; cbn [poff psize pdone]; unfold zlen in *; lia.
    - destruct (Z.leb_spec (psize p - pdone p) (zlen b)); cbn [fst]; unfold part_sane; cbn [poff psize pdone]; unfold zlen in *; lia.
  Qed.

  Lemma run_part_sane c rs : forall tries p d, part_sane c p -> part_sane c (fst (fst (fst (run_part tries p d rs)))).
  Proof.
    induction rs as [|r rs IH]; intros tries p d Hs; destruct tries as [|t]; cbn [run_part fst]; try exact Hs.
    pose proof (chunk_sane c p d (r (poff p + pdone p, poff p + psize p - 1)) Hs) as Hc.
    destruct (chunk p d (r (poff p + pdone p, poff p + psize p - 1))) as [[p' d'] cr]. cbn [fst] in Hc.
    destruct cr; cbn [fst]; try exact Hc.
    - specialize (IH t p' d' Hc). destruct (run_part t p' d' rs) as [[[p2 d2] o] q]. exact IH.
    - specialize (IH (S t) p' d' Hc). destruct (run_part (S t) p' d' rs) as [[[p2 d2] o] q]. exact IH.
  Qed.

  Lemma run_parts_sane c env ps : forall d, Forall (part_sane c) ps ->
    Forall (part_sane c) (fst (fst (fst (run_parts k ps d env)))).
  Proof.
    induction ps as [|p ps IH]; intros d Hf; cbn [run_parts fst]; [constructor|].
    inversion Hf as [|? ? Hp Hps]; subst.
    destruct (pdone p =? psize p).
    - specialize (IH d Hps). destruct (run_parts k ps d env) as [[[ps2 d2] ok] q]. cbn [fst] in *. constructor; assumption.
    - pose proof (run_part_sane c (env (poff p + psize p - 1)) (c_retries k) p d Hp) as H1.
      destruct (run_part (c_retries k) p d (env (poff p + psize p - 1))) as [[[p1 d1] o] rq]. cbn [fst] in H1.
      specialize (IH d1 Hps). destruct (run_parts k ps d1 env) as [[[ps2 d2] ok] q]. cbn [fst] in *. constructor; assumption.
  Qed.

  Lemma tiles_sane c mx ps : forall from, tiles mx from (zlen c) ps -> 0 <= from -> Forall (part_sane c) ps.
  Proof.
    induction ps as [|p ps IH]; intros from Ht Hfrom; [constructor|].
    cbn [tiles] in Ht. destruct Ht as [H1 [H2 [H3 [H4 H5]]]]. constructor.
    - unfold part_sane. pose proof (tiles_sum _ _ _ _ H5). lia.
    - apply (IH (from + psize p)); [exact H5|lia].
  Qed.

  Definition sane (st : store) : Prop := forall d, dl_sane st d.

  Lemma sane_set_dl st d x : sane st -> Forall (part_sane (content d)) (d_parts x) -> sane (set_dl d x st).
  Proof.
    intros Hs Hx d'. unfold dl_sane, set_dl. cbn [s_dl]. destruct (N.eq_dec d' d) as [->|Hne].
    - rewrite lookup_set_same. exact Hx.
    - rewrite lookup_set_other by exact Hne. apply Hs.
  Qed.
  Lemma sane_same_dl st st' : s_dl st' = s_dl st -> sane st -> sane st'.
  Proof. intros He Hs d. unfold dl_sane. rewrite He. apply Hs. Qed.
  Lemma sane_drop_dl st d : sane st -> sane (drop_dl d st).
  Proof. intros Hs d'. eapply dl_sane_after; [reflexivity|apply Hs]. Qed.

  Definition truthful_head (d : digest) (e : benv) : Prop := forall t, be_head e = Some t -> t = zlen (content d).

  Lemma download_from_sane fx st d e old :
    sane st -> truthful_head d e -> Forall (part_sane (content d)) (d_parts old) ->
    sane (fst (fst (download_from H fx k st d e old))).
  Proof.
    intros Hs Ht Hold. unfold download_from.
    assert (Hprep : forall ps total headed,
              match d_parts old with
              | [] => match be_head e with None => None | Some total => Some (layout k total, total, true) end
              | p :: ps0 => Some (p :: ps0, sum_sizes (p :: ps0), false)
              end = Some (ps, total, headed) -> Forall (part_sane (content d)) ps).
    { intros ps total headed. destruct (d_parts old) as [|p ps0] eqn:E.
      - destruct (be_head e) as [t|] eqn:Eh; [|discriminate]. intros [= <- <- <-].
        rewrite (Ht t Eh). eapply tiles_sane; [apply layout_tiles; [exact Hk|unfold zlen; lia]|lia].
      - intros [= <- <- <-]. exact Hold. }
    destruct (match d_parts old with [] => _ | _ :: _ => _ end) as [[[ps total] headed]|] eqn:Hp; [|exact Hs].
    specialize (Hprep _ _ _ eq_refl).
    destruct (negb (be_direct e)); cbn [fst].
    { apply sane_set_dl; assumption. }
    pose proof (run_parts_sane (content d) (be_chunks e) ps (resize (Z.to_nat total) match d_file old with Some f => f | None => [] end) Hprep) as Hrun.
    destruct (run_parts k ps _ (be_chunks e)) as [[[ps1 f1] ok] rq]. cbn [fst] in Hrun.
    destruct (negb ok); cbn [fst]; [apply sane_set_dl; assumption|].
    destruct (fx && negb (N.eqb (H f1) d)); cbn [fst].
    - apply sane_drop_dl, Hs.
    - eapply sane_same_dl; [|apply (sane_drop_dl st d Hs)]. reflexivity.
  Qed.

  Lemma sane_put_dl st d x : sane st -> Forall (part_sane (content d)) (d_parts x) -> sane (put_dl d x st).
  Proof.
    intros Hs Hx. unfold put_dl. destruct (d_file x); [apply sane_set_dl; assumption|].
    destruct (d_parts x) eqn:E; [apply sane_drop_dl, Hs|apply sane_set_dl; [exact Hs|rewrite E; exact Hx]].
  Qed.

  Lemma download_blob_sane fx st d e : sane st -> truthful_head d e -> sane (fst (fst (download_blob H fx k st d e))).
  Proof.
    intros Hs Ht. unfold download_blob.
    destruct (lookup N.eqb d (s_blobs st)); [exact Hs|].
    pose proof (Hs d) as Hd. unfold dl_sane in Hd.
    set (old := match lookup N.eqb d (s_dl st) with Some x => x | None => mkDl None [] end).
    assert (Hold : Forall (part_sane (content d)) (d_parts old)).
    { unfold old. destruct (lookup N.eqb d (s_dl st)); [exact Hd|constructor]. }
    destruct (usable old).
    - apply download_from_sane; assumption.
    - apply download_from_sane; [apply sane_put_dl; [exact Hs|constructor]|exact Ht|constructor].
  Qed.

  Fixpoint truthful (ls : list layer) (es : list benv) : Prop :=
    match ls with
    | [] => True
    | l :: ls' => truthful_head (l_digest l) (match es with e :: _ => e | [] => mkBenv None false (fun _ => []) end) /\ truthful ls' (tl es)
    end.

  Lemma download_all_sane fx ls : forall st es skip, sane st -> truthful ls es ->
    sane (fst (fst (download_all H fx k st ls es skip))).
  Proof.
    induction ls as [|l ls IH]; intros st es skip Hs Ht; cbn [download_all fst]; [exact Hs|].
    destruct Ht as [Ht1 Ht2].
    destruct (negb (l_valid l)); [exact Hs|].
    pose proof (download_blob_sane fx st (l_digest l) _ Hs Ht1) as Hb.
    destruct (download_blob H fx k st (l_digest l) _) as [[st1 r] tr]. cbn [fst] in Hb.
    destruct r; cbn [fst]; try exact Hb.
    - specialize (IH st1 (tl es) (set_key N.eqb (l_digest l) true skip) Hb Ht2).
      destruct (download_all H fx k st1 ls (tl es) _) as [[st2 sk] trs]. exact IH.
    - specialize (IH st1 (tl es) (set_key N.eqb (l_digest l) false skip) Hb Ht2).
      destruct (download_all H fx k st1 ls (tl es) _) as [[st2 sk] trs]. exact IH.
  Qed.

  Lemma verify_all_dl ls : forall st skip, s_dl (fst (verify_all H st ls skip)) = s_dl st.
  Proof.
    induction ls as [|l ls IH]; intros st skip; cbn [verify_all fst]; [reflexivity|].
    destruct (match lookup N.eqb (l_digest l) skip with Some true => true | _ => false end); [apply IH|].
    destruct (lookup N.eqb (l_digest l) (s_blobs st)); [|reflexivity].
    destruct (N.eqb (H b) (l_digest l)); [apply IH|reflexivity].
  Qed.

  Lemma prune_dl del st : s_dl (prune del st) = s_dl st.
  Proof.
    unfold prune. generalize (flat_map (fun nm : N * manifest => digests_of (snd nm)) (s_man st)) as used. intros used.
    revert st. induction del as [|x del IH]; intros st; cbn [fold_left]; [reflexivity|].
    rewrite IH. destruct (memb x used); reflexivity.
  Qed.

  Definition truthful_attempt (a : N * penv) : Prop :=
    match pe_manifest (snd a) with Some m => truthful (all_layers m) (pe_blobs (snd a)) | None => True end.

  Lemma pull_sane fx st a : sane st -> truthful_attempt a -> sane (pull_store (pull H fx k st (fst a) (snd a))).
  Proof.
    intros Hs Ht. unfold pull, truthful_attempt, pull_store in *.
    destruct (pe_manifest (snd a)) as [m|]; [|exact Hs].
    pose proof (download_all_sane fx (all_layers m) st (pe_blobs (snd a)) [] Hs Ht) as Ha.
    destruct (download_all H fx k st (all_layers m) (pe_blobs (snd a)) []) as [[st1 sk] trs]. cbn [fst] in Ha.
    destruct sk as [skip|]; [|exact Ha].
    pose proof (verify_all_dl (all_layers m) st1 skip) as Hv.
    destruct (verify_all H st1 (all_layers m) skip) as [st2 ok]. cbn [fst] in Hv.
    destruct (negb ok); cbn [fst].
    - eapply sane_same_dl; [exact Hv|exact Ha].
    - eapply sane_same_dl; [|exact Ha]. rewrite prune_dl. cbn [s_dl]. exact Hv.
  Qed.

  Lemma history_sane h : forall st, sane st -> Forall truthful_attempt h -> sane (run_history H k st h).
  Proof.
    induction h as [|a h IH]; intros st Hs Hf; [exact Hs|].
    inversion Hf as [|? ? Ha Hh]; subst. cbn [run_history fold_left]. fold (run_history H k (step H k st a) h).
    apply IH; [|exact Hh]. unfold step. apply (pull_sane true st a Hs Ha).
  Qed.

  Lemma sane_empty : sane empty_store.
  Proof. intros d. exact I. Qed.

  Lemma mu_le_length st ls : (mu st ls <= length ls)%nat.
  Proof.
    unfold mu. induction ls as [|l ls IH]; cbn [filter length]; [lia|].
    destruct (staleb st (l_digest l)); cbn [length]; lia.
  Qed.

  (** the retry clause over histories *)
  Theorem retry_after_history h name m :
    Forall truthful_attempt h -> published (all_layers m) ->
    exists j, (j <= length (all_layers m))%nat /\
      pull_result (pull H true k (iter_n j (fun s => pull_store (pull H true k s name (clean_penv k content m))) (run_history H k empty_store h))
                        name (clean_penv k content m)) = PSuccess.
  Proof.
    intros Hf Hpub.
    destruct (history_inv H k h empty_store (blobs_ok_empty H) (names_sound_empty H)) as [Hok _].
    pose proof (history_sane h empty_store sane_empty Hf) as Hs.
    apply retry_succeeds; auto.
    - intros l _. apply Hs.
    - apply mu_le_length.
  Qed.

  (** ** after a restart (startup prune) no guard is needed: the first fault-free attempt succeeds *)
  Lemma lookup_filter_key {V} (P : N -> bool) (l : list (N * V)) d :
    lookup N.eqb d (filter (fun kv => P (fst kv)) l) = if P d then lookup N.eqb d l else None.
  Proof.
    induction l as [|[d' v] l IH]; cbn [filter lookup fst]; [destruct (P d); reflexivity|].
    destruct (N.eqb_spec d d') as [E0|Hne].
    - subst d'. destruct (P d) eqn:E; cbn [lookup].
      + rewrite N.eqb_refl. reflexivity.
      + rewrite IH. destruct (P d); [discriminate E|reflexivity].
    - destruct (P d') eqn:E; cbn [lookup]; [|exact IH].
      destruct (N.eqb_spec d d'); [contradiction|exact IH].
  Qed.

  Lemma startup_prune_blobs_ok st : blobs_ok H st -> blobs_ok H (startup_prune st).
  Proof.
    intros Hok d c. unfold startup_prune. cbn [s_blobs].
    rewrite (lookup_filter_key (fun x => memb x (flat_map (fun nm : N * manifest => digests_of (snd nm)) (s_man st)))).
    destruct (memb d _); [apply Hok|discriminate].
  Qed.

  Lemma startup_prune_names st : names_sound H st -> names_sound H (startup_prune st).
  Proof.
    intros Hns n m Hl l Hin. cbn [startup_prune s_man] in Hl.
    destruct (Hns n m Hl l Hin) as [c [Hc1 Hc2]]. exists c. split; [|exact Hc2].
    unfold startup_prune. cbn [s_blobs].
    rewrite (lookup_filter_key (fun x => memb x (flat_map (fun nm : N * manifest => digests_of (snd nm)) (s_man st)))).
    rewrite (used_digest st n m l Hl Hin). exact Hc1.
  Qed.

  Lemma mu_no_dl st ls : s_dl st = [] -> mu st ls = O.
  Proof.
    intros He. unfold mu. induction ls as [|l ls IH]; [reflexivity|]. cbn [filter].
    unfold staleb at 1. rewrite He. cbn [lookup]. destruct (lookup N.eqb (l_digest l) (s_blobs st)); exact IH.
  Qed.

  Theorem retry_after_restart st name m :
    published (all_layers m) -> blobs_ok H st ->
    pull_result (pull H true k (startup_prune st) name (clean_penv k content m)) = PSuccess.
  Proof.
    intros Hpub Hok.
    destruct (retry_succeeds name m 0 (startup_prune st) Hpub (startup_prune_blobs_ok st Hok)) as [j [Hj Hs]].
    - intros l _. unfold dl_sane. cbn. exact I.
    - rewrite mu_no_dl by reflexivity. lia.
    - assert (j = O) by lia. subst j. exact Hs.
  Qed.
End Retry.
