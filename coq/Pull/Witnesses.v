(** Concrete witnesses (vm_compute): the defects of the code at the pinned commit, and the two clauses that stay
    false on the model of the repaired code (known findings). *)
From Coq Require Import List NArith ZArith Bool Lia.
From V Require Import Common.Bytes Pull.Challenge Pull.Download.
Import ListNotations.
Open Scope Z_scope.

(** a toy hash: blob 1 is the byte string [1;1;1], blob 2 is [2;2] *)
Definition toyH (b : bytes) : digest :=
  match b with
  | [1; 1; 1]%N => 1%N
  | [2; 2]%N => 2%N
  | _ => 0%N
  end.
Definition toy_content (d : digest) : bytes :=
  if N.eqb d 1%N then [1; 1; 1]%N else if N.eqb d 2%N then [2; 2]%N else [].
Definition toyM : manifest := mkManifest [mkLayer 1%N 3 true; mkLayer 2%N 2 true] None.

Definition const_chunks (l : list (Z * list cresp)) := chunks_of l.

(** attempt 1: layer 1 arrives with a flipped byte, the HEAD request of layer 2 fails; attempt 2: fault-free *)
Definition corrupt_then_fail : penv :=
  mkPenv (Some toyM)
         [mkBenv (Some 3) true (const_chunks [(2, [CBody [1; 0; 1]%N EClean])]);
          mkBenv None true (const_chunks [])].
Definition witness_history : list attempt := [(7%N, corrupt_then_fail)].

(** the code at the pinned commit: the second, fault-free attempt reports success with a corrupt layer 1 *)
Definition after_unrepaired := pull toyH false go_consts (history_fx toyH false go_consts witness_history) 7 (clean_penv go_consts toy_content toyM).
Lemma unrepaired_accepts_corrupt_layer :
  pull_result after_unrepaired = PSuccess /\
  lookup N.eqb 1%N (s_blobs (pull_store after_unrepaired)) = Some [1; 0; 1]%N /\
  toyH [1; 0; 1]%N <> 1%N.
Proof. vm_compute. repeat split; discriminate. Qed.

(** same history, repaired code: attempt 1 leaves nothing under the digest name, attempt 2 fetches the layer again *)
Definition after_repaired := pull toyH true go_consts (history_fx toyH true go_consts witness_history) 7 (clean_penv go_consts toy_content toyM).
Lemma repaired_refetches :
  s_blobs (history_fx toyH true go_consts witness_history) = [] /\
  pull_result after_repaired = PSuccess /\
  lookup N.eqb 1%N (s_blobs (pull_store after_repaired)) = Some [1; 1; 1]%N.
Proof. vm_compute. repeat split. Qed.

(** a manifest that names the same digest twice: one attempt is enough for the code at the pinned commit *)
Definition dupM : manifest := mkManifest [mkLayer 1%N 3 true; mkLayer 1%N 3 true] None.
Definition dup_env : penv :=
  mkPenv (Some dupM) [mkBenv (Some 3) true (const_chunks [(2, [CBody [1; 0; 1]%N EClean])]); mkBenv None false (const_chunks [])].
Lemma unrepaired_duplicate_digest :
  pull_result (pull toyH false go_consts empty_store 7 dup_env) = PSuccess /\
  lookup N.eqb 1%N (s_blobs (pull_store (pull toyH false go_consts empty_store 7 dup_env))) = Some [1; 0; 1]%N.
Proof. vm_compute. split; reflexivity. Qed.
Lemma repaired_duplicate_digest : pull_result (pull toyH true go_consts empty_store 7 dup_env) = PFail.
Proof. vm_compute. reflexivity. Qed.

(** *** known finding: the size recorded in the manifest is never compared with anything *)
Definition lieM : manifest := mkManifest [mkLayer 1%N 5 true] None.
Lemma size_never_checked :
  let r := pull toyH true go_consts empty_store 7 (clean_penv go_consts toy_content lieM) in
  pull_result r = PSuccess /\ lookup N.eqb 1%N (s_blobs (pull_store r)) = Some [1; 1; 1]%N /\ l_size (mkLayer 1%N 5 true) <> 3.
Proof. vm_compute. repeat split; discriminate. Qed.

(** *** known finding: a Content-Length that is too large, seen once at HEAD, is written into the part record; if that
    attempt then fails, every later attempt resumes from the record, asks for bytes that do not exist, and fails after
    maxRetries without touching the record *)
Definition oversize_head : penv :=
  mkPenv (Some toyM) [mkBenv (Some 1000) false (const_chunks [])].
Definition poisoned : store := history_fx toyH true go_consts [(7%N, oversize_head)].
Lemma poisoned_record : lookup N.eqb 1%N (s_dl poisoned) = Some (mkDl (Some (repeat 0%N 1000)) [mkPart 0 1000 0]).
Proof. vm_compute. reflexivity. Qed.
Lemma poisoned_retry_fails_and_changes_nothing :
  let r := pull toyH true go_consts poisoned 7 (clean_penv go_consts toy_content toyM) in
  pull_result r = PFail /\
  option_map d_parts (lookup N.eqb 1%N (s_dl (pull_store r))) = option_map d_parts (lookup N.eqb 1%N (s_dl poisoned)) /\
  s_blobs (pull_store r) = s_blobs poisoned /\ s_man (pull_store r) = s_man poisoned.
Proof. vm_compute. repeat split. Qed.

(** ... and for ever: the state after one failed clean retry is a fixed point of failing clean retries *)
Definition clean_retry (st : store) := pull toyH true go_consts st 7 (clean_penv go_consts toy_content toyM).
Definition retry_store (st : store) : store := pull_store (clean_retry st).
Lemma poisoned_fixed_point :
  retry_store (retry_store poisoned) = retry_store poisoned /\ pull_result (clean_retry (retry_store poisoned)) = PFail.
Proof. vm_compute. split; reflexivity. Qed.
Lemma iter_n_succ_r {A} n (f : A -> A) x : iter_n (S n) f x = iter_n n f (f x).
Proof. induction n as [|n IH]; [reflexivity|]. cbn [iter_n] in *. rewrite IH. reflexivity. Qed.
Lemma poisoned_iter n : iter_n n retry_store (retry_store poisoned) = retry_store poisoned.
Proof.
  induction n as [|n IH]; [reflexivity|]. cbn [iter_n]. rewrite IH. exact (proj1 poisoned_fixed_point).
Qed.
Lemma poisoned_for_ever n : pull_result (clean_retry (iter_n n retry_store (retry_store poisoned))) = PFail.
Proof. rewrite poisoned_iter. exact (proj2 poisoned_fixed_point). Qed.
Lemma poisoned_first : pull_result (clean_retry poisoned) = PFail.
Proof. vm_compute. reflexivity. Qed.

(** *** the retry clause is not vacuous: a truthful history that leaves resume state with a corrupt byte; the first
    fault-free attempt resumes, finds the digest wrong, removes everything and fails; the second one succeeds *)
Definition interrupted_corrupt : penv :=
  mkPenv (Some toyM) [mkBenv (Some 3) true (const_chunks [(2, [CBody [1; 0]%N EUnexp])])].
Definition stale_store : store := history_fx toyH true go_consts [(7%N, interrupted_corrupt)].
Lemma stale_state : lookup N.eqb 1%N (s_dl stale_store) = Some (mkDl (Some [1; 0; 0]%N) [mkPart 0 3 2]).
Proof. vm_compute. reflexivity. Qed.
Lemma stale_first_retry_fails_second_succeeds :
  pull_result (clean_retry stale_store) = PFail /\ pull_result (clean_retry (retry_store stale_store)) = PSuccess.
Proof. vm_compute. split; reflexivity. Qed.
