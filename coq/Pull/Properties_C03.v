(** C03 — theorems (statements only; proofs are in Pull/*Proofs.v, witnesses in Pull/Witnesses.v).

    Model: Pull/Challenge.v (getValue / parseRegistryChallenge, byte-exact), Pull/Download.v (Prepare / run /
    downloadChunk / downloadBlob / PullModel / makeRequestWithRetry / redirect policy).  [H] is SHA-256 as an arbitrary
    function, [k] the constants of download.go (the theorems hold for every value of them), the registry and the CDN
    are universally quantified response lists ([penv]); [pull H true k] is the code after the C03 fix patches. *)
From Coq Require Import List NArith ZArith Bool Lia.
From V Require Import Common.Bytes Pull.Challenge Pull.ChallengeProofs Pull.Download Pull.StoreProofs Pull.LayoutProofs Pull.RetryProofs Pull.Witnesses.
Import ListNotations.
Open Scope Z_scope.

(** ** no registry response crashes the server: the challenge parser *)
Theorem C03_challenge_total : forall header key, getValue header key <> Panic.
Proof. exact get_value_guarded_total. Qed.
Print Assumptions C03_challenge_total.

Theorem C03_parse_challenge_total : forall auth, parseRegistryChallenge auth <> Panic.
Proof. exact parse_challenge_total. Qed.
Print Assumptions C03_parse_challenge_total.

(** ... and neither does makeRequestWithRetry around it (401 -> challenge -> token -> one replay), whatever the registry
    and the token service answer, for either redirect policy *)
Theorem C03_requests_never_panic : forall closure ac fuel tok (rs : list hresp),
  fst (fst (fst (mrwr true closure ac fuel tok rs))) <> RPanic.
Proof. exact mrwr_no_panic. Qed.
Print Assumptions C03_requests_never_panic.

(** the function as it stood at the pinned commit panics exactly when the first occurrence of [key=] ends the header *)
Theorem C03_getvalue_unrepaired_panics_iff : forall header key,
  getValue_orig header key = Panic <-> ends_at_key header key = true.
Proof. exact get_value_orig_panic_iff. Qed.
Print Assumptions C03_getvalue_unrepaired_panics_iff.

(** witness: [WWW-Authenticate: realm=] *)
Example C03_getvalue_unrepaired_witness : getValue_orig [114; 101; 97; 108; 109; 61]%N [114; 101; 97; 108; 109]%N = Panic.
Proof. vm_compute. reflexivity. Qed.

(** a well-formed challenge is parsed as intended (non-vacuity of the parser model) *)
Example C03_challenge_example :
  getValue [114; 61; 34; 97; 98; 34; 44; 120]%N [114]%N = Ok [97; 98]%N.   (* r="ab",x  with key r  gives ab *)
Proof. vm_compute. reflexivity. Qed.

(** ** success: for every history of attempts against arbitrary registries/CDNs, starting from the empty store, a pull
    that reports success has stored the served manifest, and every layer of it is present with content whose SHA-256 is
    the layer's digest; its size is the manifest's size provided the publication is self-consistent (any content with
    that digest has the recorded size: what the registry recorded, plus collision freedom). *)
Theorem C03_success_verified : forall (H : bytes -> digest) (k : consts) (h : list (N * penv)) name e st' trs,
  pull H true k (run_history H k empty_store h) name e = (st', PSuccess, trs) ->
  exists m, pe_manifest e = Some m /\ lookup N.eqb name (s_man st') = Some m /\
    forall l, In l (all_layers m) ->
      exists c, lookup N.eqb (l_digest l) (s_blobs st') = Some c /\ H c = l_digest l
                /\ ((forall c', H c' = l_digest l -> zlen c' = l_size l) -> zlen c = l_size l).
Proof.
  intros H k h name e st' trs Hp.
  destruct (history_inv H k h empty_store (blobs_ok_empty H) (names_sound_empty H)) as [Hok Hns].
  destruct (pull_spec H k _ _ _ _ _ _ Hp Hok Hns) as [_ [_ [_ Hs]]].
  destruct (Hs eq_refl) as [m [Hm [Hl [_ Hlay]]]]. exists m. repeat split; auto.
  intros l Hin. destruct (Hlay l Hin) as [c [Hc1 Hc2]]. exists c. repeat split; auto.
Qed.
Print Assumptions C03_success_verified.

(** non-vacuity: a two-layer pull against the fault-free registry succeeds in the model *)
Example C03_success_example :
  pull_result (pull toyH true go_consts empty_store 7 (clean_penv go_consts toy_content toyM)) = PSuccess.
Proof. vm_compute. reflexivity. Qed.

(** ** failure: after any history, every name resolves to a manifest whose layers are all present and intact, and an
    attempt that fails (for whatever reason, cancellation included) leaves every name resolving to what it resolved to
    before and removes no blob. *)
Theorem C03_names_always_sound : forall (H : bytes -> digest) (k : consts) (h : list (N * penv)),
  names_sound H (run_history H k empty_store h) /\ blobs_ok H (run_history H k empty_store h).
Proof.
  intros H k h. destruct (history_inv H k h empty_store (blobs_ok_empty H) (names_sound_empty H)). split; assumption.
Qed.
Print Assumptions C03_names_always_sound.

Theorem C03_failure_keeps_name_sound : forall (H : bytes -> digest) (k : consts) (h : list (N * penv)) name e st' trs,
  let st := run_history H k empty_store h in
  pull H true k st name e = (st', PFail, trs) ->
  s_man st' = s_man st /\ blobs_grow st st' /\ names_sound H st' /\ blobs_ok H st'.
Proof.
  intros H k h name e st' trs st Hp.
  destruct (history_inv H k h empty_store (blobs_ok_empty H) (names_sound_empty H)) as [Hok Hns].
  destruct (pull_spec H k _ _ _ _ _ _ Hp Hok Hns) as [Hok' [Hns' [Hf _]]].
  destruct (Hf eq_refl). repeat split; assumption.
Qed.
Print Assumptions C03_failure_keeps_name_sound.

(** a successful attempt changes no other name *)
Theorem C03_success_other_names : forall (H : bytes -> digest) (k : consts) (h : list (N * penv)) name e st' trs,
  let st := run_history H k empty_store h in
  pull H true k st name e = (st', PSuccess, trs) ->
  forall n, n <> name -> lookup N.eqb n (s_man st') = lookup N.eqb n (s_man st).
Proof.
  intros H k h name e st' trs st Hp.
  destruct (history_inv H k h empty_store (blobs_ok_empty H) (names_sound_empty H)) as [Hok Hns].
  destruct (pull_spec H k _ _ _ _ _ _ Hp Hok Hns) as [_ [_ [_ Hs]]].
  destruct (Hs eq_refl) as [m [_ [_ [Hoth _]]]]. exact Hoth.
Qed.
Print Assumptions C03_success_other_names.

(** the same statement is false of the code at the pinned commit (blob renamed before it is hashed, cache hit trusted):
    a corrupt layer left by a failed attempt is accepted by the next, fault-free one *)
Theorem C03_success_verified_unrepaired_refuted :
  exists (H : bytes -> digest) (h : list (N * penv)) name e st' trs m l c,
    pull H false go_consts (history_fx H false go_consts h) name e = (st', PSuccess, trs) /\
    pe_manifest e = Some m /\ In l (all_layers m) /\ lookup N.eqb (l_digest l) (s_blobs st') = Some c /\ H c <> l_digest l.
Proof.
  exists toyH, witness_history, 7%N, (clean_penv go_consts toy_content toyM).
  destruct (pull toyH false go_consts (history_fx toyH false go_consts witness_history) 7 (clean_penv go_consts toy_content toyM)) as [[st' r] trs] eqn:Hp.
  pose proof unrepaired_accepts_corrupt_layer as [H1 [H2 H3]]. unfold after_unrepaired in *. rewrite Hp in *. cbn in H1, H2. subst r.
  exists st', trs, toyM, (mkLayer 1%N 3 true), [1; 0; 1]%N. repeat split; auto. cbn. left. reflexivity.
Qed.
Print Assumptions C03_success_verified_unrepaired_refuted.

(** ** part layout: Prepare's parts tile [0, Total) with non-empty parts of at most the clamped part size *)
Theorem C03_layout_tiles : forall k total,
  0 < c_min k <= c_max k -> 0 <= total -> tiles (part_size k total) 0 total (layout k total).
Proof. exact layout_tiles. Qed.
Print Assumptions C03_layout_tiles.

Example C03_layout_example : map psize (layout go_consts 250000000) = [100000000; 100000000; 50000000].
Proof. vm_compute. reflexivity. Qed.

(** ** known finding 1: layer sizes.  Full statement (no self-consistency hypothesis) is false: the pull never looks at
    the size a manifest records. *)
Definition C03_size_full : Prop :=
  forall (H : bytes -> digest) (k : consts) name e st' trs,
    pull H true k empty_store name e = (st', PSuccess, trs) ->
    forall m l c, pe_manifest e = Some m -> In l (all_layers m) -> lookup N.eqb (l_digest l) (s_blobs st') = Some c -> zlen c = l_size l.
Theorem C03_size_refuted : ~ C03_size_full.
Proof.
  intros Hf. pose proof size_never_checked as Hw. cbn zeta in Hw.
  destruct (pull toyH true go_consts empty_store 7 (clean_penv go_consts toy_content lieM)) as [[st' r] trs] eqn:Hp.
  cbn in Hw. destruct Hw as [Hr [Hl Hne]]. subst r.
  specialize (Hf toyH go_consts 7%N _ st' trs Hp lieM (mkLayer 1%N 5 true) [1; 1; 1]%N eq_refl (or_introl eq_refl) Hl).
  apply Hne. cbn in Hf. cbn. lia.
Qed.
Print Assumptions C03_size_refuted.
(** C03_size_partial is the last conjunct of C03_success_verified (size under the self-consistency hypothesis). *)

(** ** known finding 2: retry.  Full statement: after any history, some number of fault-free attempts succeeds.  False:
    an oversized Content-Length seen once at HEAD stays in the part record. *)
Definition C03_retry_full : Prop :=
  forall (H : bytes -> digest) (content : digest -> bytes) (h : list (N * penv)) name m,
    (forall l, In l (all_layers m) -> l_valid l = true /\ H (content (l_digest l)) = l_digest l) ->
    exists n, pull_result (pull H true go_consts
                                (iter_n n (fun st => pull_store (pull H true go_consts st name (clean_penv go_consts content m)))
                                          (run_history H go_consts empty_store h))
                                name (clean_penv go_consts content m)) = PSuccess.
Theorem C03_retry_refuted : ~ C03_retry_full.
Proof.
  intros Hf.
  destruct (Hf toyH toy_content [(7%N, oversize_head)] 7%N toyM) as [n Hn].
  - intros l [<-|[<-|[]]]; split; reflexivity.
  - change (run_history toyH go_consts empty_store [(7%N, oversize_head)]) with poisoned in Hn.
    change (fun st : store => pull_store (pull toyH true go_consts st 7 (clean_penv go_consts toy_content toyM))) with retry_store in Hn.
    change (pull toyH true go_consts ?s 7 (clean_penv go_consts toy_content toyM)) with (clean_retry s) in Hn.
    destruct n as [|n].
    + cbn [iter_n] in Hn. rewrite poisoned_first in Hn. discriminate.
    + rewrite iter_n_succ_r, poisoned_for_ever in Hn. discriminate.
Qed.
Print Assumptions C03_retry_refuted.

(** partial: the retry clause holds when HEAD never reported a wrong Content-Length in the history (then every part
    record on disk stays within its blob).  After any such history of attempts against otherwise arbitrary
    registries/CDNs (any failures, truncations, corrupt bytes, cancellations), at most [number of layers] failing
    fault-free attempts are followed by a successful one; each failing one consumes (and removes) the corrupt resume
    state of one layer.  [content] is what the registry publishes: [published] says every layer of the manifest is valid
    and [content] of its digest has that digest. *)
Theorem C03_retry_possible_partial :
  forall (H : bytes -> digest) (k : consts) (content : digest -> bytes) (h : list (N * penv)) name m,
    0 < c_min k <= c_max k -> c_retries k <> O ->
    Forall (truthful_attempt content) h -> published H content (all_layers m) ->
    exists j, (j <= length (all_layers m))%nat /\
      pull_result (pull H true k (iter_n j (fun s => pull_store (pull H true k s name (clean_penv k content m))) (run_history H k empty_store h))
                        name (clean_penv k content m)) = PSuccess.
Proof. intros H k content h name m Hk Hr Ht Hp. exact (retry_after_history H k content Hk Hr h name m Ht Hp). Qed.
Print Assumptions C03_retry_possible_partial.

(** non-vacuity: a truthful history after which the first fault-free attempt fails and the second succeeds *)
Example C03_retry_example :
  Forall (truthful_attempt toy_content) [(7%N, interrupted_corrupt)] /\ published toyH toy_content (all_layers toyM) /\
  pull_result (clean_retry stale_store) = PFail /\ pull_result (clean_retry (retry_store stale_store)) = PSuccess.
Proof.
  split; [|split; [|exact stale_first_retry_fails_second_succeeds]].
  - constructor; [|constructor]. cbn. split; [intros t [= <-]; reflexivity|]. split; [intros t; discriminate|exact I].
  - intros l [<-|[<-|[]]]; split; reflexivity.
Qed.

(** ... and without any guard once the server has been restarted (PruneLayers at start removes all resume state): after
    any history whatsoever, a restart followed by one fault-free attempt succeeds; the restart keeps every name sound. *)
Theorem C03_retry_after_restart :
  forall (H : bytes -> digest) (k : consts) (content : digest -> bytes) (h : list (N * penv)) name m,
    0 < c_min k <= c_max k -> c_retries k <> O -> published H content (all_layers m) ->
    let st := startup_prune (run_history H k empty_store h) in
    names_sound H st /\ pull_result (pull H true k st name (clean_penv k content m)) = PSuccess.
Proof.
  intros H k content h name m Hk Hr Hp.
  destruct (history_inv H k h empty_store (blobs_ok_empty H) (names_sound_empty H)) as [Hok Hns].
  split; [apply startup_prune_names, Hns|].
  exact (retry_after_restart H k content Hk Hr _ name m Hp Hok).
Qed.
Print Assumptions C03_retry_after_restart.

Example C03_retry_after_restart_example :
  pull_result (clean_retry poisoned) = PFail /\ pull_result (clean_retry (startup_prune poisoned)) = PSuccess.
Proof. vm_compute. split; reflexivity. Qed.
