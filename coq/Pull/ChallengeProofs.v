(** Lemmas about the challenge parser model (Pull/Challenge.v). *)
From Coq Require Import List NArith Bool Arith Lia.
From V Require Import Common.Bytes Pull.Challenge.
Import ListNotations.

Lemma scan_end_bounds rest : forall i, i <= scan_end rest i <= i + length rest.
Proof.
  induction rest as [|c rest IH]; intros i; cbn [scan_end length]; [lia|].
  destruct (N.eqb c 34).
  - destruct rest as [|c2 rest']; [lia|].
    destruct (negb (N.eqb c2 44)); [|lia].
    specialize (IH (S i)). cbn [length] in *. lia.
  - specialize (IH (S i)). lia.
Qed.

Lemma slice_ok s a b : a <= b -> b <= length s -> slice s a b = Ok (firstn (b - a) (skipn a s)).
Proof.
  intros H1 H2. unfold slice.
  destruct (Nat.leb_spec a b); [|lia]. destruct (Nat.leb_spec b (length s)); [|lia]. reflexivity.
Qed.

Lemma slice_panic s a b : length s < a -> slice s a b = Panic.
Proof.
  intros H1. unfold slice.
  destruct (Nat.leb_spec a b); cbn [andb]; [|reflexivity].
  destruct (Nat.leb_spec b (length s)); [lia|reflexivity].
Qed.

(** the index found by strings.Index(header, key+[=]) leaves room for the key and the equals sign *)
Lemma index_key_room header key i :
  index_of header (key ++ [61%N]) = Some i -> i + length key + 1 <= length header.
Proof.
  intros Hi. apply index_of_some in Hi as [a [b [-> [-> _]]]].
  rewrite !app_length. cbn [length]. lia.
Qed.

Lemma scan_slice_ok header st :
  st <= length header ->
  exists v, slice header st (scan_end (skipn st header) st) = Ok v.
Proof.
  intros Hst. pose proof (scan_end_bounds (skipn st header) st) as [Hlo Hhi].
  rewrite skipn_length in Hhi.
  eexists. apply slice_ok; lia.
Qed.

Lemma get_value_guarded_total header key : getValue header key <> Panic.
Proof.
  unfold getValue, get_value_gen.
  destruct (index_of header (key ++ [61%N])) as [i|] eqn:Hi; [|discriminate].
  cbn [andb]. destruct (Nat.ltb_spec (length header) (i + length key + 2)); [discriminate|].
  destruct (scan_slice_ok header (i + length key + 2)) as [v Hv]; [lia|].
  rewrite Hv. discriminate.
Qed.

Lemma get_value_orig_panic_iff header key :
  getValue_orig header key = Panic <-> ends_at_key header key = true.
Proof.
  unfold getValue_orig, get_value_gen, ends_at_key.
  destruct (index_of header (key ++ [61%N])) as [i|] eqn:Hi; [|split; discriminate].
  pose proof (index_key_room _ _ _ Hi) as Hroom. cbn [andb].
  rewrite Nat.eqb_eq. split.
  - intros Hp. destruct (Nat.eq_dec (i + length key + 1) (length header)) as [E|NE]; [exact E|].
    destruct (scan_slice_ok header (i + length key + 2)) as [v Hv]; [lia|]. congruence.
  - intros E. apply slice_panic. lia.
Qed.

Lemma get_value_orig_agrees header key :
  getValue_orig header key <> Panic -> getValue_orig header key = getValue header key.
Proof.
  intros Hnp. unfold getValue_orig, getValue, get_value_gen in *.
  destruct (index_of header (key ++ [61%N])) as [i|] eqn:Hi; [|reflexivity].
  cbn [andb] in *. destruct (Nat.ltb_spec (length header) (i + length key + 2)); [|reflexivity].
  exfalso. apply Hnp. apply slice_panic. lia.
Qed.

Lemma parse_challenge_total auth : parseRegistryChallenge auth <> Panic.
Proof.
  unfold parseRegistryChallenge, parse_challenge_gen.
  set (a := trim_prefix s_bearer auth).
  destruct (get_value_gen true a s_realm) eqn:E1; [|exfalso; exact (get_value_guarded_total _ _ E1)].
  destruct (get_value_gen true a s_service) eqn:E2; [|exfalso; exact (get_value_guarded_total _ _ E2)].
  destruct (get_value_gen true a s_scope) eqn:E3; [|exfalso; exact (get_value_guarded_total _ _ E3)].
  cbn. discriminate.
Qed.

(** functional reading on a well-formed challenge: key=QvQ,... (Q the double quote) with no quote inside v yields v *)
Lemma scan_end_value v post : forall i,
  (forall c, In c v -> c <> 34%N) ->
  scan_end (v ++ 34%N :: 44%N :: post) i = i + length v.
Proof.
  induction v as [|c v IH]; intros i Hv; cbn [scan_end app length].
  - rewrite N.eqb_refl. cbn. lia.
  - destruct (N.eqb_spec c 34) as [E|NE]; [exfalso; apply (Hv c); [left; reflexivity|exact E]|].
    rewrite IH; [lia|]. intros c' Hc'. apply Hv. right. exact Hc'.
Qed.

Lemma get_value_wellformed pre key v post :
  ~ Infix (key ++ [61%N]) (pre ++ removelast (key ++ [61%N])) ->
  (forall c, In c v -> c <> 34%N) ->
  getValue (pre ++ (key ++ [61%N]) ++ 34%N :: v ++ 34%N :: 44%N :: post) key = Ok v.
Proof.
  intros Hfirst Hv. unfold getValue, get_value_gen.
  set (t := key ++ [61%N]) in *.
  set (hd := pre ++ t ++ 34%N :: v ++ 34%N :: 44%N :: post).
  destruct (index_of hd t) as [i|] eqn:Hi.
  2:{ apply index_of_none in Hi. exfalso. apply Hi. exists pre, (34%N :: v ++ 34%N :: 44%N :: post). reflexivity. }
  apply index_of_some in Hi as [a [b [Hab [-> Hmin]]]].
  assert (Hle : length a <= length pre) by (apply (Hmin pre (34%N :: v ++ 34%N :: 44%N :: post)); reflexivity).
  assert (Ha : a = pre).
  { destruct (Nat.eq_dec (length a) (length pre)) as [E|NE].
    - unfold hd in Hab. apply (f_equal (firstn (length pre))) in Hab.
      rewrite firstn_app, firstn_all, Nat.sub_diag in Hab. cbn [firstn] in Hab. rewrite app_nil_r in Hab.
      rewrite <- E, firstn_app, firstn_all, Nat.sub_diag in Hab. cbn [firstn] in Hab. rewrite app_nil_r in Hab.
      congruence.
    - exfalso. apply Hfirst.
      (* the occurrence at [a] starts strictly before [pre] ends, so it lies inside pre ++ removelast t *)
      assert (Hlt : length a < length pre) by lia.
      assert (Htn : t <> []) by (unfold t; destruct key; discriminate).
      exists a, (skipn (length a + length t) (pre ++ removelast t)).
      assert (Hlen : length a + length t <= length (pre ++ removelast t)).
      { rewrite app_length. assert (length (removelast t) = length t - 1).
        { unfold t. rewrite removelast_last. rewrite app_length. cbn. lia. }
        assert (length t >= 1) by (unfold t; rewrite app_length; cbn; lia). lia. }
      rewrite app_assoc.
      rewrite <- (firstn_skipn (length a + length t) (pre ++ removelast t)) at 1.
      f_equal.
      assert (Hpre : firstn (length a + length t) hd = a ++ t).
      { rewrite Hab, app_assoc, firstn_app, <- app_length, firstn_all, Nat.sub_diag. cbn. apply app_nil_r. }
      rewrite <- Hpre. unfold hd.
      replace (pre ++ t ++ 34%N :: v ++ 34%N :: 44%N :: post)
        with ((pre ++ removelast t) ++ [last t 0%N] ++ 34%N :: v ++ 34%N :: 44%N :: post).
      2:{ rewrite <- !app_assoc. f_equal. rewrite app_assoc. f_equal. symmetry. apply app_removelast_last. exact Htn. }
      symmetry. rewrite firstn_app. replace (length a + length t - length (pre ++ removelast t)) with 0 by lia.
      cbn [firstn]. rewrite app_nil_r. reflexivity. }
  subst a.
  assert (Hlen : length hd = length pre + length t + 1 + length v + 2 + length post).
  { unfold hd. rewrite !app_length. cbn [length]. rewrite app_length. cbn [length]. lia. }
  assert (Hkt : length t = length key + 1) by (unfold t; rewrite app_length; cbn; lia).
  cbn [andb]. destruct (Nat.ltb_spec (length hd) (length pre + length key + 2)); [lia|].
  assert (Hskip : skipn (length pre + length key + 2) hd = v ++ 34%N :: 44%N :: post).
  { unfold hd. replace (length pre + length key + 2) with (length pre + (length t + 1)) by lia.
    rewrite skipn_app, skipn_all2 by lia. cbn [app].
    replace (length pre + (length t + 1) - length pre) with (length t + 1) by lia.
    rewrite skipn_app, skipn_all2 by lia. cbn [app].
    replace (length t + 1 - length t) with 1 by lia. reflexivity. }
  rewrite Hskip, scan_end_value by exact Hv.
  rewrite slice_ok by lia. rewrite Hskip.
  replace (length pre + length key + 2 + length v - (length pre + length key + 2)) with (length v) by lia.
  rewrite firstn_app, firstn_all, Nat.sub_diag. cbn. rewrite app_nil_r. reflexivity.
Qed.
