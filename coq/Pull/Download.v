(** Part-level model of server/download.go (blobDownload.Prepare / run / downloadChunk, downloadBlob) and of
    PullModel (server/images.go).  Definitions only; executable.

    - file contents are byte lists; the SHA-256 of a file is an abstract function [H : bytes -> digest]
      (a Section variable: every theorem holds for every hash function);
    - the registry and the CDN are not modelled: every request of the code consumes one element of a list of
      responses supplied by the environment (arbitrary bytes, arbitrary ways for a body to end);
    - [fx] selects the code: [false] = blobDownload.run as it stood at the pinned commit (rename to the digest name
      without looking at the bytes), [true] = after fixes/C03-verify-before-rename.patch (hash the -partial file and
      rename only on a match, remove it otherwise).
    - the retry back-off sleeps, the stall timer and the concurrency of the part goroutines are not modelled: parts
      write disjoint regions of the file and consume disjoint response lists, so the model runs them one after
      the other; a stalled or cancelled transfer is a response kind of the environment. *)
From Coq Require Import List NArith ZArith Bool Lia.
From V Require Import Common.Bytes Pull.Challenge.
Import ListNotations.
Open Scope Z_scope.

Definition bytes := list N.
Definition digest := N.

(** ** association lists *)
Section Assoc.
  Context {K V : Type} (keq : K -> K -> bool).
  Fixpoint lookup (k : K) (l : list (K * V)) : option V :=
    match l with
    | [] => None
    | (k', v) :: t => if keq k k' then Some v else lookup k t
    end.
  Definition remove_key (k : K) (l : list (K * V)) : list (K * V) := filter (fun kv => negb (keq k (fst kv))) l.
  Definition set_key (k : K) (v : V) (l : list (K * V)) : list (K * V) := (k, v) :: remove_key k l.
End Assoc.

(** ** files *)
(** ftruncate: cut, or extend with zero bytes *)
Definition resize (n : nat) (d : bytes) : bytes := firstn n d ++ repeat 0%N (n - length d).
(** pwrite at an offset (extends the file with zeros when the offset is beyond its end) *)
Definition write_at (d : bytes) (off : nat) (b : bytes) : bytes :=
  let d' := d ++ repeat 0%N (off - length d) in
  firstn off d' ++ b ++ skipn (off + length b) d'.

(** ** part records ([<blob>-partial-N] files); N is the position in the list *)
Record part := mkPart { poff : Z; psize : Z; pdone : Z }.

(** constants of download.go: numDownloadParts, minDownloadPartSize, maxDownloadPartSize, maxRetries *)
Record consts := mkConsts { c_num : Z; c_min : Z; c_max : Z; c_retries : nat }.
Definition go_consts : consts := mkConsts 16 100000000 1000000000 6.

Definition part_size (k : consts) (total : Z) : Z :=
  let s := total / c_num k in
  if s <? c_min k then c_min k else if s >? c_max k then c_max k else s.

(** the [for offset < b.Total] loop of Prepare *)
Fixpoint layout_loop (fuel : nat) (total size offset : Z) : list part :=
  match fuel with
  | O => []
  | S f =>
      if offset <? total then
        let sz := if offset + size >? total then total - offset else size in
        mkPart offset sz 0 :: layout_loop f total sz (offset + sz)
      else []
  end.
Definition layout (k : consts) (total : Z) : list part :=
  layout_loop (Z.to_nat (total / part_size k total) + 1) total (part_size k total) 0.

Definition sum_sizes (ps : list part) : Z := fold_right (fun p a => psize p + a) 0 ps.

(** ** one ranged GET of a part: downloadChunk *)
Inductive ending := EClean | EUnexp | EOther.
Inductive cresp :=
| CFail                          (* http.Client.Do returned an error *)
| CBody (b : bytes) (e : ending) (* the body bytes that arrive and how the body then ends: EOF at the declared length,
                                    io.ErrUnexpectedEOF, any other read error *)
| CStall (b : bytes)             (* these bytes arrive, then nothing for 30 s: errPartStalled *)
| CCancel (b : bytes).           (* the context is cancelled after these bytes *)

Inductive cres := COk | CRetry | CStalled | CCancelled.

Definition zlen (b : bytes) : Z := Z.of_nat (length b).

Definition chunk (p : part) (d : bytes) (r : cresp) : part * bytes * cres :=
  let need := psize p - pdone p in
  let at_ := Z.to_nat (poff p + pdone p) in
  let take b := firstn (Z.to_nat need) b in
  let adv n := mkPart (poff p) (psize p) (pdone p + n) in
  match r with
  | CFail => (p, d, CRetry)
  | CBody b e =>
      if need <=? zlen b then (adv (Z.max need 0), write_at d at_ (take b), COk)
      else match e with
           | EUnexp => (adv (zlen b), write_at d at_ b, CRetry)       (* progress kept and persisted *)
           | _ => (p, write_at d at_ b, CRetry)                        (* progress rolled back *)
           end
  | CStall b =>
      if need <=? zlen b then (adv (Z.max need 0), write_at d at_ (take b), COk)
      else (p, write_at d at_ b, CStalled)        (* the errgroup cancels the request with cause errPartStalled, which is what
                                                     the body read then returns: not context.Canceled, so progress is rolled back *)
  | CCancel b =>
      if need <=? zlen b then (adv (Z.max need 0), write_at d at_ (take b), COk)
      else (adv (zlen b), write_at d at_ b, CCancelled)
  end.

Inductive pres := POk | PMaxRetries | PCancelled | PExhausted.

(** the retry loop of one part goroutine ([for try := 0; try < maxRetries; try++]); a stall does not consume a
    try ([try--; continue]).  Also returns the byte ranges it requested.  [PExhausted]: the environment's list of
    responses ended (the attempt was cut short from outside).  A response may depend on the requested range
    (a server that honours Range), so the environment supplies functions of the request. *)
Definition creq := (Z * Z)%type.   (* the requested byte range: first and last byte *)

Fixpoint run_part (tries : nat) (p : part) (d : bytes) (rs : list (creq -> cresp)) {struct rs} : part * bytes * pres * list (Z * Z) :=
  match tries, rs with
  | O, _ => (p, d, PMaxRetries, [])
  | _, [] => (p, d, PExhausted, [])
  | S t, r :: rs' =>
      let rq := (poff p + pdone p, poff p + psize p - 1) in
      let '(p', d', c) := chunk p d (r rq) in
      match c with
      | COk => (p', d', POk, [rq])
      | CCancelled => (p', d', PCancelled, [rq])
      | CRetry => let '(p2, d2, o, q) := run_part t p' d' rs' in (p2, d2, o, rq :: q)
      | CStalled => let '(p2, d2, o, q) := run_part (S t) p' d' rs' in (p2, d2, o, rq :: q)
      end
  end.

(** ** one blob: downloadBlob = cache-hit test, Prepare, run *)
Record dl := mkDl { d_file : option bytes;      (* <blob>-partial *)
                    d_parts : list part }.      (* <blob>-partial-0 .. -partial-(n-1) *)

Record layer := mkLayer { l_digest : digest; l_size : Z; l_valid : bool (* digest string has the sha256 format *) }.
Record manifest := mkManifest { m_layers : list layer; m_config : option layer }.
Definition all_layers (m : manifest) : list layer :=
  m_layers m ++ match m_config m with Some c => [c] | None => [] end.

Record store := mkStore { s_blobs : list (digest * bytes);   (* files under their digest names *)
                          s_dl : list (digest * dl);          (* resume state *)
                          s_man : list (N * manifest) }.      (* manifest files, by name *)
Definition empty_store : store := mkStore [] [] [].

(** what the environment answers to the requests of one downloadBlob call *)
Record benv := mkBenv { be_head : option Z;                    (* HEAD through makeRequestWithRetry: None = error, Some Content-Length *)
                        be_direct : bool;                      (* the direct URL could be resolved *)
                        be_chunks : Z -> list (creq -> cresp) }.   (* ranged GETs, keyed by the last byte of the range *)

Inductive dres := DHit | DOk | DErr.
(** requests made: HEAD?, GET for the direct URL?, ranges per part *)
Record dtrace := mkTrace { t_head : bool; t_get : bool; t_ranges : list (list (Z * Z)) }.
Definition no_trace := mkTrace false false [].

Definition set_dl (d : digest) (x : dl) (st : store) : store :=
  mkStore (s_blobs st) (set_key N.eqb d x (s_dl st)) (s_man st).
Definition drop_dl (d : digest) (st : store) : store :=
  mkStore (s_blobs st) (remove_key N.eqb d (s_dl st)) (s_man st).
Definition add_blob (d : digest) (c : bytes) (st : store) : store :=
  mkStore (set_key N.eqb d c (s_blobs st)) (s_dl st) (s_man st).
Definition drop_blob (d : digest) (st : store) : store :=
  mkStore (remove_key N.eqb d (s_blobs st)) (s_dl st) (s_man st).

(** the part goroutines, one after the other *)
Fixpoint run_parts (k : consts) (ps : list part) (d : bytes) (env : Z -> list (creq -> cresp))
  : list part * bytes * bool * list (list (Z * Z)) :=
  match ps with
  | [] => ([], d, true, [])
  | p :: ps' =>
      if pdone p =? psize p then
        let '(ps2, d2, ok, q) := run_parts k ps' d env in (p :: ps2, d2, ok, [] :: q)
      else
        let rs := env (poff p + psize p - 1) in
        let '(p1, d1, o, rq) := run_part (c_retries k) p d rs in
        let '(ps2, d2, ok, q) := run_parts k ps' d1 env in
        (p1 :: ps2, d2, match o with POk => ok | _ => false end, rq :: q)
  end.

Section Pull.
  Variable H : bytes -> digest.   (* SHA-256 *)
  Variable fx : bool.             (* verify before rename *)
  Variable k : consts.

  (** (Since fix f3cb3ce5d the blobDownload is published to other requests with its channels and cancel function
      already created, Wait is gated on [prepared], and a failing Prepare hands its error to the requests that were
      already waiting.  For one request this is the same function; what a second, concurrent request gets is compared by
      [Corr.chk_par]: the result of the download it joined.) *)
  (** Prepare from the state [old] + run, on a store in which [d] has no blob *)
  Definition download_from (st : store) (d : digest) (e : benv) (old : dl) : store * dres * dtrace :=
    (* Prepare: resume from the part records, or HEAD and a fresh layout *)
    let prep :=
      match d_parts old with
      | [] => match be_head e with
              | None => None
              | Some total => Some (layout k total, total, true)
              end
      | ps => Some (ps, sum_sizes ps, false)
      end in
    match prep with
    | None => (st, DErr, mkTrace true false [])
    | Some (ps, total, headed) =>
        (* run: open/create the -partial file, Truncate(Total) *)
        let f0 := resize (Z.to_nat total) (match d_file old with Some f => f | None => [] end) in
        if negb (be_direct e) then (set_dl d (mkDl (Some f0) ps) st, DErr, mkTrace headed true [])
        else
          let '(ps1, f1, ok, rq) := run_parts k ps f0 (be_chunks e) in
          let tr := mkTrace headed true rq in
          if negb ok then (set_dl d (mkDl (Some f1) ps1) st, DErr, tr)
          else
            (* every part complete: the part records are removed, then the file gets its digest name *)
            if fx && negb (N.eqb (H f1) d) then (drop_dl d st, DErr, tr)
            else (add_blob d f1 (drop_dl d st), DOk, tr)
    end.

  (** Prepare (since fix b3cba3788): the part records are resumed only if they add up to the size of the -partial
      file (every record readable is implicit: the model's store holds readable records only); otherwise they are
      all removed and the download starts over, the -partial file staying until run truncates it *)
  Definition usable (x : dl) : bool :=
    match d_parts x with
    | [] => true
    | ps => match d_file x with Some f => zlen f =? sum_sizes ps | None => false end
    end.
  Definition put_dl (d : digest) (x : dl) (st : store) : store :=
    match d_file x, d_parts x with None, [] => drop_dl d st | _, _ => set_dl d x st end.

  Definition download_blob (st : store) (d : digest) (e : benv) : store * dres * dtrace :=
    match lookup N.eqb d (s_blobs st) with
    | Some _ => (st, DHit, no_trace)                       (* os.Stat succeeds: cache hit, nothing is read *)
    | None =>
        let old := match lookup N.eqb d (s_dl st) with Some x => x | None => mkDl None [] end in
        if usable old then download_from st d e old
        else let old' := mkDl (d_file old) [] in download_from (put_dl d old' st) d e old'
    end.

  (** ** PullModel *)
  Record penv := mkPenv { pe_manifest : option manifest;     (* pullModelManifest: None = any failure *)
                          pe_blobs : list benv }.            (* one per downloadBlob call *)
  Inductive pres_pull := PSuccess | PFail.

  Fixpoint download_all (st : store) (ls : list layer) (es : list benv) (skip : list (digest * bool))
    : store * option (list (digest * bool)) * list dtrace :=
    match ls with
    | [] => (st, Some skip, [])
    | l :: ls' =>
        if negb (l_valid l) then (st, None, [])           (* GetBlobsPath: invalid digest format *)
        else
          let e := match es with e :: _ => e | [] => mkBenv None false (fun _ => []) end in
          let '(st1, r, tr) := download_blob st (l_digest l) e in
          match r with
          | DErr => (st1, None, [tr])
          | _ =>
              let '(st2, sk, trs) := download_all st1 ls' (tl es) (set_key N.eqb (l_digest l) (match r with DHit => true | _ => false end) skip) in
              (st2, sk, tr :: trs)
          end
    end.

  (** the [verifying sha256 digest] loop; None = the pull fails *)
  Fixpoint verify_all (st : store) (ls : list layer) (skip : list (digest * bool)) : store * bool :=
    match ls with
    | [] => (st, true)
    | l :: ls' =>
        if match lookup N.eqb (l_digest l) skip with Some true => true | _ => false end then verify_all st ls' skip
        else match lookup N.eqb (l_digest l) (s_blobs st) with
             | None => (st, false)                                                  (* os.Open fails *)
             | Some c => if N.eqb (H c) (l_digest l) then verify_all st ls' skip
                         else (drop_blob (l_digest l) st, false)                    (* errDigestMismatch: blob removed *)
             end
    end.

  Definition digests_of (m : manifest) : list digest := map l_digest (all_layers m).
  Definition memb (d : digest) (l : list digest) : bool := existsb (N.eqb d) l.

  (** deleteUnusedLayers: blobs of the replaced manifest that no manifest references any more *)
  Definition prune (del : list digest) (st : store) : store :=
    let used := flat_map (fun nm => digests_of (snd nm)) (s_man st) in
    fold_left (fun s d => if memb d used then s else drop_blob d s) del st.

  Definition pull (st : store) (name : N) (e : penv) : store * pres_pull * list dtrace :=
    let del0 := match lookup N.eqb name (s_man st) with Some m => digests_of m | None => [] end in
    match pe_manifest e with
    | None => (st, PFail, [])
    | Some m =>
        let '(st1, sk, trs) := download_all st (all_layers m) (pe_blobs e) [] in
        match sk with
        | None => (st1, PFail, trs)
        | Some skip =>
            let '(st2, ok) := verify_all st1 (all_layers m) skip in
            if negb ok then (st2, PFail, trs)
            else
              let st3 := mkStore (s_blobs st2) (s_dl st2) (set_key N.eqb name m (s_man st2)) in
              let del := filter (fun d => negb (memb d (digests_of m))) del0 in
              (prune del st3, PSuccess, trs)
        end
    end.
End Pull.

(** ** the HTTP layer: makeRequest (redirect policy), makeRequestWithRetry (401 -> challenge -> token -> one replay),
    getAuthorizationToken (server/auth.go) and the resolution of the direct URL in blobDownload.run.
    A response is reduced to what the code looks at; an element of the list also records what was observed about the
    *request* it answered (the bearer token it carried, the token exchange that followed it), so that running the model
    on a log also says whether the requests were the ones the model makes ([conf]). *)
Record tokobs := mkTok { to_service : str;            (* query parameter service of the token request *)
                         to_scope : str;              (* its scope parameters, joined by spaces *)
                         to_token : option str }.     (* Some t: status < 400 and the body decodes to {"token": t};
                                                         None: transport error, status >= 400, or undecodable body *)
Record hresp := mkH { h_fail : bool;                (* transport error: no response *)
                      h_status : Z;
                      h_auth : str;                 (* the WWW-Authenticate header *)
                      h_req_tok : str;              (* observed: the bearer token on the request (empty: none) *)
                      h_tokreq : option tokobs;     (* observed: the token request that followed this response *)
                      h_redir : option bool;        (* Location header present: Some (same host as the original request) *)
                      h_cl : Z;                     (* Content-Length *)
                      h_man : option manifest }.    (* the body decodes as a manifest *)
(** where a usable token service lives (a realm that is anything else cannot be contacted in the runs: the request
    fails without reaching any server), and whether $HOME/.ollama/id_ed25519 exists (auth.Sign fails otherwise) *)
Record authcfg := mkAuth { a_tokurl : str; a_haskey : bool }.

Definition is_redirect (s : Z) : bool := (s =? 301) || (s =? 302) || (s =? 303) || (s =? 307) || (s =? 308).

(** http.Client.Do: follows redirects, asking CheckRedirect before each hop.  [closure = true] is the policy
    installed by blobDownload.run (more than 10 hops: error; same host: follow; other host: stop and return the
    redirect response itself); [false] is the default policy of net/http (stop with an error after 10 requests). *)
Fixpoint do_request (closure : bool) (via : nat) (rs : list hresp) : option hresp * list hresp :=
  match rs with
  | [] => (None, [])
  | r :: rest =>
      if h_fail r then (None, rest)
      else if is_redirect (h_status r) then
        match h_redir r with
        | None => (Some r, rest)
        | Some same =>
            if closure then
              if Nat.ltb 10 (S via) then (None, rest)
              else if same then do_request closure (S via) rest
              else (Some r, rest)
            else if Nat.leb 10 (S via) then (None, rest)
            else do_request closure (S via) rest
        end
      else (Some r, rest)
  end.

Inductive rout := ROk (r : hresp) | RErr | RPanic.

(** getAuthorizationToken: challenge.URL() (service, every space-separated scope), auth.Sign, GET, status, JSON.
    Returns the new token (None: error) and whether the observed token exchange is the one the code makes. *)
Definition get_token (ac : authcfg) (c : challenge) (obs : option tokobs) : option str * bool :=
  if a_haskey ac && eqb_str (c_realm c) (a_tokurl ac) then
    match obs with
    | None => (None, false)                                   (* the code asks the token service here *)
    | Some t => (to_token t, eqb_str (to_service t) (c_service c) && eqb_str (to_scope t) (c_scope c))
    end
  else (None, match obs with None => true | Some _ => false end).   (* no key, or a realm that is not the token service *)

(** makeRequestWithRetry: [for range 2]; [g] = the bounds guard in getValue; [tok] = regOpts.Token.
    Result, regOpts.Token afterwards, the unconsumed responses, conformance of the observed requests. *)
Fixpoint mrwr (g closure : bool) (ac : authcfg) (fuel : nat) (tok : str) (rs : list hresp) : rout * str * list hresp * bool :=
  match fuel with
  | O => (RErr, tok, rs, true)                                (* errUnauthorized *)
  | S f =>
      match do_request closure 0 rs with
      | (None, rest) => (RErr, tok, rest, true)
      | (Some r, rest) =>
          let cf := eqb_str (h_req_tok r) tok in              (* the request carried [Authorization: Bearer tok] iff tok is set *)
          if h_status r =? 401 then
            match parse_challenge_gen g (h_auth r) with
            | Panic => (RPanic, tok, rest, cf)
            | Ok c =>
                match get_token ac c (h_tokreq r) with
                | (None, ct) => (RErr, tok, rest, cf && ct)
                | (Some t, ct) => let '(o, tok', rest', c') := mrwr g closure ac f t rest in (o, tok', rest', cf && ct && c')
                end
            end
          else if h_status r =? 404 then (RErr, tok, rest, cf)
          else if 400 <=? h_status r then (RErr, tok, rest, cf)
          else (ROk r, tok, rest, cf)
      end
  end.

(** the [directURL] closure of run: retried with back-off until the 30 s context expires (= the list ends); every try
    starts from a copy of the options (the token a failed try obtained is not kept).  None = panic *)
Fixpoint direct_url (g : bool) (ac : authcfg) (fuel : nat) (tok : str) (rs : list hresp) : option bool * bool :=
  match fuel with
  | O => (Some false, true)
  | S f =>
      match rs with
      | [] => (Some false, true)
      | _ =>
          match mrwr g true ac 2 tok rs with
          | (RPanic, _, _, c) => (None, c)
          | (RErr, _, rest, c) => let '(o, c') := direct_url g ac f tok rest in (o, c && c')
          | (ROk r, _, _, c) =>
              (Some (((h_status r =? 307) || (h_status r =? 200)) && match h_redir r with Some _ => true | None => false end), c)
          end
      end
  end.

(** what was served to the requests of one pull, per kind of request *)
Record blog := mkBlog { bl_head : list hresp; bl_get : list hresp; bl_chunks : list (Z * list cresp) }.
Record plog := mkPlog { pl_manifest : list hresp; pl_blobs : list (digest * blog) }.

Definition chunks_of (l : list (Z * list cresp)) : Z -> list (creq -> cresp) :=
  fun e => match lookup Z.eqb e l with Some rs => map (fun r _ => r) rs | None => [] end.

(** the requests of one downloadBlob call: HEAD in Prepare (shares regOpts with the rest of the pull), then the direct
    URL in run.  None = a request panics.  Also: regOpts.Token afterwards, conformance. *)
Definition benv_of (g : bool) (ac : authcfg) (tok : str) (b : blog) : option (benv * str * bool) :=
  match mrwr g false ac 2 tok (bl_head b) with
  | (RPanic, _, _, _) => None
  | (ho, tok1, _, c1) =>
      match direct_url g ac (S (length (bl_get b))) tok1 (bl_get b) with
      | (None, _) => None
      | (Some dir, c2) =>
          Some (mkBenv (match ho with ROk r => Some (h_cl r) | _ => None end) dir (chunks_of (bl_chunks b)), tok1, c1 && c2)
      end
  end.

(** None = some request of the pull panics (the pull goroutine is outside gin's recovery: the server dies) *)
Definition manifest_of (g : bool) (ac : authcfg) (rs : list hresp) : option (option manifest * str * bool) :=
  match mrwr g false ac 2 [] rs with
  | (RPanic, _, _, _) => None
  | (RErr, tok, _, c) => Some (None, tok, c)
  | (ROk r, tok, _, c) => Some (h_man r, tok, c)
  end.

(** the environments of the layers of a pull, in order, with regOpts.Token threaded through; a digest that occurs a
    second time has no requests of its own (cache hit, or the pull ended at its first occurrence) *)
Fixpoint benvs_of (g : bool) (ac : authcfg) (tok : str) (ls : list layer) (seen : list digest) (bl : list (digest * blog))
  : list benv * bool :=
  match ls with
  | [] => ([], true)
  | l :: ls' =>
      let none := mkBenv None false (fun _ => []) in
      if existsb (N.eqb (l_digest l)) seen then
        let '(es, c) := benvs_of g ac tok ls' seen bl in (none :: es, c)
      else
        match lookup N.eqb (l_digest l) bl with
        | None => let '(es, c) := benvs_of g ac tok ls' (l_digest l :: seen) bl in (none :: es, c)
        | Some b =>
            match benv_of g ac tok b with
            | None => let '(es, c) := benvs_of g ac tok ls' (l_digest l :: seen) bl in (none :: es, false)
            | Some (e, tok1, c1) => let '(es, c) := benvs_of g ac tok1 ls' (l_digest l :: seen) bl in (e :: es, c1 && c)
            end
        end
  end.

(** ** a fault-free registry + CDN publishing [content d] for digest [d] *)
Definition slice (c : bytes) (rq : creq) : bytes :=
  firstn (Z.to_nat (snd rq + 1 - fst rq)) (skipn (Z.to_nat (fst rq)) c).
Definition clean_benv (k : consts) (c : bytes) : benv :=
  mkBenv (Some (zlen c)) true (fun _ => repeat (fun rq => CBody (slice c rq) EClean) (c_retries k)).
Definition clean_penv (k : consts) (content : digest -> bytes) (m : manifest) : penv :=
  mkPenv (Some m) (map (fun l => clean_benv k (content (l_digest l))) (all_layers m)).

(** histories for either version of the code *)
Definition attempt := (N * penv)%type.
Definition step_fx (H : bytes -> digest) (fx : bool) (k : consts) (st : store) (a : attempt) : store :=
  fst (fst (pull H fx k st (fst a) (snd a))).
Definition history_fx (H : bytes -> digest) (fx : bool) (k : consts) (h : list attempt) : store :=
  fold_left (step_fx H fx k) h empty_store.
Definition pull_result (x : store * pres_pull * list dtrace) : pres_pull := snd (fst x).
Definition pull_store (x : store * pres_pull * list dtrace) : store := fst (fst x).

Fixpoint iter_n {A : Type} (n : nat) (f : A -> A) (x : A) : A :=
  match n with O => x | S n' => f (iter_n n' f x) end.

(** ** server start: PruneLayers removes every file of the blobs directory whose name is not a digest (the -partial
    files and part records) and every blob no manifest references *)
Definition startup_prune (st : store) : store :=
  let used := flat_map (fun nm => digests_of (snd nm)) (s_man st) in
  mkStore (filter (fun kv => memb (fst kv) used) (s_blobs st)) [] (s_man st).
