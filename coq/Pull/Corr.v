(** Executable comparison functions of the C03 correspondence check (terms written by props/c03.py). *)
From Coq Require Import List NArith ZArith Bool Lia.
From V Require Import Common.Bytes Pull.Challenge Pull.Download.
Import ListNotations.
Open Scope Z_scope.

(** *** the challenge parser *)
Definition chk_getvalue (header key v : str) : bool :=
  match getValue header key with Ok r => eqb_str r v | Panic => false end.
Definition chk_challenge (auth realm service scope : str) : bool :=
  match parseRegistryChallenge auth with
  | Ok c => eqb_str (c_realm c) realm && eqb_str (c_service c) service && eqb_str (c_scope c) scope
  | Panic => false
  end.
(** the unrepaired function panics exactly on the headers the characterisation says *)
Definition chk_getvalue_orig_panics (header key : str) (panicked : bool) : bool :=
  Bool.eqb (match getValue_orig header key with Panic => true | Ok _ => false end) panicked
  && Bool.eqb (ends_at_key header key) panicked.

(** *** part layout *)
Definition part_eqb (a b : part) : bool := (poff a =? poff b) && (psize a =? psize b) && (pdone a =? pdone b).
Fixpoint list_eqb {A} (eqb : A -> A -> bool) (a b : list A) : bool :=
  match a, b with
  | [], [] => true
  | x :: a', y :: b' => eqb x y && list_eqb eqb a' b'
  | _, _ => false
  end.
Definition chk_layout (total : Z) (obs : list part) : bool := list_eqb part_eqb (layout go_consts total) obs.

(** the constants of download.go the model was written for *)
Definition chk_consts (num mn mx : Z) (retries : nat) : bool :=
  (c_num go_consts =? num) && (c_min go_consts =? mn) && (c_max go_consts =? mx) && Nat.eqb (c_retries go_consts) retries.

(** *** SHA-256 for evaluation: the digests of the published blobs are known; every other content hashes to 0,
    which is no layer's digest (collision freedom of SHA-256 is what makes this table a faithful stand-in) *)
Definition H_of (tab : list (bytes * digest)) (b : bytes) : digest :=
  match find (fun x => eqb_str (fst x) b) tab with Some x => snd x | None => 0%N end.

(** *** stores *)
Definition opt_eqb {A} (eqb : A -> A -> bool) (a b : option A) : bool :=
  match a, b with Some x, Some y => eqb x y | None, None => true | _, _ => false end.
Definition layer_eqb (a b : layer) : bool :=
  N.eqb (l_digest a) (l_digest b) && (l_size a =? l_size b) && Bool.eqb (l_valid a) (l_valid b).
Definition manifest_eqb (a b : manifest) : bool :=
  list_eqb layer_eqb (m_layers a) (m_layers b) && opt_eqb layer_eqb (m_config a) (m_config b).

(** two association lists denote the same finite map *)
Definition assoc_eqb {V} (veq : V -> V -> bool) (a b : list (N * V)) : bool :=
  forallb (fun kv => match lookup N.eqb (fst kv) b with Some v => veq (snd kv) v | None => false end) a
  && forallb (fun kv => match lookup N.eqb (fst kv) a with Some _ => true | None => false end) b.

(** the -partial files are compared on the byte ranges the part records declare complete (bytes of a transfer that
    was rolled back may or may not have reached the file) and on their length *)
Definition range_of (d : bytes) (p : part) : bytes := firstn (Z.to_nat (pdone p)) (skipn (Z.to_nat (poff p)) d).
Definition file_agree (ps : list part) (a b : bytes) : bool :=
  Nat.eqb (length a) (length b) && forallb (fun p => eqb_str (range_of a p) (range_of b p)) ps.
Definition dl_eqb (a b : dl) : bool :=
  list_eqb part_eqb (d_parts a) (d_parts b)
  && match d_file a, d_file b with
     | Some x, Some y => file_agree (d_parts a) x y
     | None, None => true
     | _, _ => false
     end.
Definition store_eqb (a b : store) : bool :=
  assoc_eqb eqb_str (s_blobs a) (s_blobs b) && assoc_eqb dl_eqb (s_dl a) (s_dl b) && assoc_eqb manifest_eqb (s_man a) (s_man b).

(** *** one pull attempt: model on the responses that were served vs what the implementation did *)
Definition range_eqb (a b : Z * Z) : bool := (fst a =? fst b) && (snd a =? snd b).

(** requests the model makes for one blob vs the requests seen by the fake registry/CDN:
    observed = (HEAD seen, GET seen, ranges by last byte) *)
Definition trace_eqb (t : dtrace) (oh og : bool) (orq : list (Z * list (Z * Z))) : bool :=
  Bool.eqb (t_head t) oh && Bool.eqb (t_get t) og
  && forallb (fun rq => match rq with
                        | [] => true
                        | (a, b) :: _ => match lookup Z.eqb b orq with Some l => list_eqb range_eqb rq l | None => false end
                        end) (t_ranges t)
  && Nat.eqb (length (filter (fun rq => match rq with [] => false | _ => true end) (t_ranges t)))
             (length (filter (fun x => match snd x with [] => false | _ => true end) orq)).

Definition obs_trace := (digest * (bool * bool * list (Z * list (Z * Z))))%type.

Fixpoint traces_by_digest (ls : list layer) (trs : list dtrace) : list (digest * dtrace) :=
  match ls, trs with
  | l :: ls', t :: trs' =>
      (* a second call for the same digest in one pull is a cache hit and makes no request *)
      let rest := traces_by_digest ls' trs' in
      match lookup N.eqb (l_digest l) rest with
      | Some _ => if t_get t || t_head t then (l_digest l, t) :: rest else rest
      | None => (l_digest l, t) :: rest
      end
  | _, _ => []
  end.

Definition chk_pull (tab : list (bytes * digest)) (fx : bool) (ac : authcfg) (pre : store) (name : N) (lg : plog)
           (success : bool) (post : store) (obs : list obs_trace) : bool :=
  match manifest_of true ac (pl_manifest lg) with
  | None => false
  | Some (mo, tok, c0) =>
      let ls := match mo with Some m => all_layers m | None => [] end in
      let '(envs, c1) := benvs_of true ac tok ls [] (pl_blobs lg) in
      let '(st, r, trs) := pull (H_of tab) fx go_consts pre name (mkPenv mo envs) in
      let byd := traces_by_digest ls trs in
      c0 && c1   (* bearer tokens on the requests and the token exchanges are the ones the model makes *)
      && Bool.eqb (match r with PSuccess => true | PFail => false end) success
      && store_eqb st post
      && forallb (fun o => match lookup N.eqb (fst o) byd with
                           | Some t => let '(oh, og, orq) := snd o in trace_eqb t oh og orq
                           | None => let '(oh, og, orq) := snd o in negb oh && negb og && match orq with [] => true | _ => false end
                           end) obs
      && forallb (fun dt => match lookup N.eqb (fst dt) obs with
                            | Some _ => true
                            | None => negb (t_head (snd dt)) && negb (t_get (snd dt))
                            end) byd
  end.

(** server start between attempts *)
Definition chk_prune (pre post : store) : bool := store_eqb (startup_prune pre) post.

(** *** two pulls at the same time.  The second one joins the first one's download of a shared layer
    (blobDownloadManager) and gets that download's result.  Reference: the two attempts one after the other, each
    verifying what it did not find under its digest name, against the same served responses; the stores after both and
    both results must agree (requests are not compared: the joiner makes none for the shared layer). *)
Definition run_logged (tab : list (bytes * digest)) (fx : bool) (pre : store) (name : N) (lg : plog) : option (store * bool) :=
  match manifest_of true (mkAuth [] false) (pl_manifest lg) with
  | None => None
  | Some (mo, tok, _) =>
      let ls := match mo with Some m => all_layers m | None => [] end in
      let envs := fst (benvs_of true (mkAuth [] false) tok ls [] (pl_blobs lg)) in
      let '(st, r, _) := pull (H_of tab) fx go_consts pre name (mkPenv mo envs) in
      Some (st, match r with PSuccess => true | PFail => false end)
  end.

Definition chk_par (tab : list (bytes * digest)) (fx : bool) (pre : store)
           (nameA : N) (lgA : plog) (succA : bool) (nameB : N) (lgB : plog) (succB : bool) (post : store) : bool :=
  match run_logged tab fx pre nameA lgA with
  | None => false
  | Some (st1, rA) =>
      match run_logged tab fx st1 nameB lgB with
      | None => false
      | Some (st2, rB) => Bool.eqb rA succA && Bool.eqb rB succB && store_eqb st2 post
      end
  end.
