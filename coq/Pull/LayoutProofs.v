(** The part layout computed by blobDownload.Prepare tiles the blob: contiguous, non-empty parts from 0 to Total,
    none larger than the clamped part size. *)
From Coq Require Import List NArith ZArith Bool Lia.
From V Require Import Common.Bytes Pull.Challenge Pull.Download.
Import ListNotations.
Open Scope Z_scope.

(** [ps] are fresh parts that cover exactly [from, to), each of size in (0, mx] *)
Fixpoint tiles (mx from to : Z) (ps : list part) : Prop :=
  match ps with
  | [] => from = to
  | p :: ps' => poff p = from /\ 0 < psize p <= mx /\ pdone p = 0 /\ from + psize p <= to /\ tiles mx (from + psize p) to ps'
  end.

Lemma tiles_mono mx mx' from to ps : mx <= mx' -> tiles mx from to ps -> tiles mx' from to ps.
Proof.
  intros Hle. revert from. induction ps as [|p ps IH]; intros from; cbn; [auto|].
  intros [H1 [H2 [H3 [H4 H5]]]]. repeat split; try lia. apply IH, H5.
Qed.

Lemma layout_loop_tiles fuel : forall total size offset,
  0 < size -> 0 <= offset <= total -> (total - offset) / size < Z.of_nat fuel ->
  tiles size offset total (layout_loop fuel total size offset).
Proof.
  induction fuel as [|f IH]; intros total size offset Hs Ho Hf.
  - exfalso. assert (0 <= (total - offset) / size) by (apply Z.div_pos; lia). cbn in Hf. lia.
  - cbn [layout_loop]. destruct (Z.ltb_spec offset total) as [Hlt|Hge]; [|cbn; lia].
    destruct (Z.gtb_spec (offset + size) total) as [Hgt|Hle].
    + (* the last part: shortened *)
      cbn [tiles poff psize pdone]. repeat split; try lia.
      replace (offset + (total - offset)) with total by lia.
      destruct f as [|f']; cbn [layout_loop].
      * reflexivity.
      * destruct (Z.ltb_spec total total); [lia|reflexivity].
    + cbn [tiles poff psize pdone]. repeat split; try lia.
      apply IH; try lia.
      replace (total - (offset + size)) with ((total - offset) + (-1) * size) by lia.
      rewrite Z.div_add by lia. lia.
Qed.

Lemma part_size_bounds k total :
  0 < c_min k <= c_max k -> c_min k <= part_size k total <= c_max k.
Proof.
  intros Hk. unfold part_size.
  destruct (Z.ltb_spec (total / c_num k) (c_min k)); [lia|].
  destruct (Z.gtb_spec (total / c_num k) (c_max k)); lia.
Qed.

Theorem layout_tiles k total :
  0 < c_min k <= c_max k -> 0 <= total ->
  tiles (part_size k total) 0 total (layout k total).
Proof.
  intros Hk Ht. pose proof (part_size_bounds k total Hk) as Hb.
  unfold layout. apply layout_loop_tiles; try lia.
  rewrite Nat2Z.inj_add, Z2Nat.id; [rewrite Z.sub_0_r; cbn; lia|].
  apply Z.div_pos; lia.
Qed.

(** consequences used elsewhere *)
Lemma tiles_sum mx from to ps : tiles mx from to ps -> sum_sizes ps = to - from.
Proof.
  revert from. induction ps as [|p ps IH]; intros from; cbn [tiles sum_sizes fold_right]; [lia|].
  intros [H1 [H2 [H3 [H4 H5]]]]. fold (sum_sizes ps). rewrite (IH _ H5). lia.
Qed.

(** the number of parts: at most numDownloadParts + 1 unless the maximum part size forces more *)
Lemma tiles_count mx from to ps : 0 < mx -> tiles mx from to ps -> (to - from) <= Z.of_nat (length ps) * mx.
Proof.
  intros Hmx. revert from. induction ps as [|p ps IH]; intros from; cbn [tiles length]; [lia|].
  intros [H1 [H2 [H3 [H4 H5]]]]. specialize (IH _ H5). rewrite Nat2Z.inj_succ. nia.
Qed.
