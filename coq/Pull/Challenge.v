(** Model of the registry auth-challenge parser: server/images.go [getValue], [parseRegistryChallenge].
    Byte-exact, with Go's slice-bounds panic as an outcome.  Definitions only.

    [getValue_orig] is the function as it stood at the pinned commit; [getValue] is the function after
    fixes/C03-getValue.patch (one bounds guard).  The correspondence check compares the implementation with
    [getValue]; a panic of the implementation is reported by the monitor. *)
From Coq Require Import List NArith Bool Arith.
From V Require Import Common.Bytes.
Import ListNotations.

Inductive res (A : Type) : Type :=
| Ok (a : A)
| Panic.
Arguments Ok {A} a.
Arguments Panic {A}.

(** Go [s[a:b]] on a string: panics unless [a <= b <= len s] *)
Definition slice (s : str) (a b : nat) : res str :=
  if (a <=? b) && (b <=? length s) then Ok (firstn (b - a) (skipn a s)) else Panic.

(** the [for endIdx < len(header)] loop; [rest] is [header[endIdx:]], the result is the final [endIdx].
    if header[endIdx] is a double quote (34):
        if endIdx+1 < len(header) and header[endIdx+1] is not a comma (44) then endIdx++, continue
        else break
    else endIdx++ *)
Fixpoint scan_end (rest : str) (i : nat) : nat :=
  match rest with
  | [] => i
  | c :: rest' =>
      if N.eqb c 34
      then match rest' with
           | c2 :: _ => if negb (N.eqb c2 44) then scan_end rest' (S i) else i
           | [] => i
           end
      else scan_end rest' (S i)
  end.

Definition get_value_gen (guard : bool) (header key : str) : res str :=
  match index_of header (key ++ [61%N]) with        (* strings.Index(header, key+[=]) *)
  | None => Ok []
  | Some i =>
      let st := i + length key + 2 in                (* startIdx += len(key) + 2 *)
      if guard && (length header <? st) then Ok []   (* the repair: if startIdx > len(header), return the empty string *)
      else slice header st (scan_end (skipn st header) st)
  end.

Definition getValue_orig : str -> str -> res str := get_value_gen false.
Definition getValue : str -> str -> res str := get_value_gen true.

(** strings.TrimPrefix *)
Definition trim_prefix (p s : str) : str := if prefixb p s then skipn (length p) s else s.

Definition s_bearer : str := [66; 101; 97; 114; 101; 114; 32]%N.   (* Bearer + space *)
Definition s_realm : str := [114; 101; 97; 108; 109]%N.
Definition s_service : str := [115; 101; 114; 118; 105; 99; 101]%N.
Definition s_scope : str := [115; 99; 111; 112; 101]%N.

Record challenge := { c_realm : str; c_service : str; c_scope : str }.

Definition bind {A B} (r : res A) (f : A -> res B) : res B :=
  match r with Ok a => f a | Panic => Panic end.

Definition parse_challenge_gen (guard : bool) (auth : str) : res challenge :=
  let a := trim_prefix s_bearer auth in
  bind (get_value_gen guard a s_realm) (fun r =>
  bind (get_value_gen guard a s_service) (fun sv =>
  bind (get_value_gen guard a s_scope) (fun sc =>
  Ok {| c_realm := r; c_service := sv; c_scope := sc |}))).

Definition parseRegistryChallenge_orig := parse_challenge_gen false.
Definition parseRegistryChallenge := parse_challenge_gen true.

(** decidable description of the headers on which the unrepaired function panics: the first occurrence of
    [key=] ends exactly at the end of the header *)
Definition ends_at_key (header key : str) : bool :=
  match index_of header (key ++ [61%N]) with
  | None => false
  | Some i => Nat.eqb (i + length key + 1) (length header)
  end.
