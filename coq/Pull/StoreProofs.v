(** Invariants of the store under downloadBlob / PullModel (model: Pull/Download.v), for every environment. *)
From Coq Require Import List NArith ZArith Bool Lia.
From V Require Import Common.Bytes Pull.Challenge Pull.ChallengeProofs Pull.Download.
Import ListNotations.
Open Scope Z_scope.

(** ** association lists keyed by N *)
Section AssocN.
  Context {V : Type}.
  Implicit Types (l : list (N * V)) (k : N).

  Lemma lookup_remove_same k l : lookup N.eqb k (remove_key N.eqb k l) = None.
  Proof.
    induction l as [|[k' v] l IH]; cbn; [reflexivity|].
    destruct (N.eqb k k') eqn:E; cbn; [exact IH|]. rewrite E. exact IH.
  Qed.

  Lemma lookup_remove_other k k' l : k <> k' -> lookup N.eqb k (remove_key N.eqb k' l) = lookup N.eqb k l.
  Proof.
    intros Hne. induction l as [|[k2 v] l IH]; cbn; [reflexivity|].
    destruct (N.eqb k' k2) eqn:E; cbn.
    - apply N.eqb_eq in E. subst k2. destruct (N.eqb k k') eqn:E2; [apply N.eqb_eq in E2; contradiction|exact IH].
    - destruct (N.eqb k k2); [reflexivity|exact IH].
  Qed.

  Lemma lookup_set_same k v l : lookup N.eqb k (set_key N.eqb k v l) = Some v.
  Proof. unfold set_key. cbn. rewrite N.eqb_refl. reflexivity. Qed.

  Lemma lookup_set_other k k' v l : k <> k' -> lookup N.eqb k (set_key N.eqb k' v l) = lookup N.eqb k l.
  Proof.
    intros Hne. unfold set_key. cbn. destruct (N.eqb k k') eqn:E; [apply N.eqb_eq in E; contradiction|].
    apply lookup_remove_other. exact Hne.
  Qed.

  Lemma lookup_In k v l : lookup N.eqb k l = Some v -> In (k, v) l.
  Proof.
    induction l as [|[k' v'] l IH]; cbn; [discriminate|].
    destruct (N.eqb k k') eqn:E.
    - intros [= ->]. apply N.eqb_eq in E. subst. left. reflexivity.
    - intros Hl. right. exact (IH Hl).
  Qed.
End AssocN.

Lemma memb_In d l : memb d l = true <-> In d l.
Proof.
  unfold memb. rewrite existsb_exists. split.
  - intros [x [Hin Hx]]. apply N.eqb_eq in Hx. subst. exact Hin.
  - intros Hin. exists d. split; [exact Hin|apply N.eqb_refl].
Qed.

Section Inv.
  Variable H : bytes -> digest.
  Variable k : consts.

  (** every file under a digest name has that digest *)
  Definition blobs_ok (st : store) : Prop :=
    forall d c, lookup N.eqb d (s_blobs st) = Some c -> H c = d.
  (** the blob of a layer is present and intact *)
  Definition layer_ok (st : store) (l : layer) : Prop :=
    exists c, lookup N.eqb (l_digest l) (s_blobs st) = Some c /\ H c = l_digest l.
  (** every name resolves to a manifest whose layers are all present and intact *)
  Definition names_sound (st : store) : Prop :=
    forall n m, lookup N.eqb n (s_man st) = Some m -> forall l, In l (all_layers m) -> layer_ok st l.
  (** blobs are only added *)
  Definition blobs_grow (st st' : store) : Prop :=
    forall d c, lookup N.eqb d (s_blobs st) = Some c -> lookup N.eqb d (s_blobs st') = Some c.

  Lemma blobs_grow_refl st : blobs_grow st st.
  Proof. intros d c Hl. exact Hl. Qed.
  Lemma blobs_grow_trans a b c : blobs_grow a b -> blobs_grow b c -> blobs_grow a c.
  Proof. intros H1 H2 d x Hl. apply H2, H1, Hl. Qed.
  Lemma layer_ok_grow st st' l : blobs_grow st st' -> layer_ok st l -> layer_ok st' l.
  Proof. intros Hg [c [Hl Hc]]. exists c. split; [apply Hg, Hl|exact Hc]. Qed.

  Lemma blobs_ok_empty : blobs_ok empty_store.
  Proof. intros d c. cbn. discriminate. Qed.
  Lemma names_sound_empty : names_sound empty_store.
  Proof. intros n m. cbn. discriminate. Qed.

  Ltac derr_case Hok :=
    split; [intros ? ?; cbn; apply Hok
           |split; [intros ? ? ?; cbn; assumption
                   |split; [reflexivity|intros Hne; exfalso; apply Hne; reflexivity]]].

  (** *** downloadBlob (repaired: verify before rename) *)
  Lemma download_from_spec st d e old st' r tr :
    download_from H true k st d e old = (st', r, tr) ->
    lookup N.eqb d (s_blobs st) = None ->
    blobs_ok st ->
    blobs_ok st' /\ blobs_grow st st' /\ s_man st' = s_man st
    /\ (r <> DErr -> exists c, lookup N.eqb d (s_blobs st') = Some c /\ H c = d).
  Proof.
    unfold download_from. intros Hd Hl Hok.
    destruct (match d_parts old with
              | [] => match be_head e with None => None | Some total => Some (layout k total, total, true) end
              | p :: ps0 => Some (p :: ps0, sum_sizes (p :: ps0), false)
              end) as [[[ps total] headed]|] eqn:Hprep.
    2:{ injection Hd as <- <- <-. derr_case Hok. }
    destruct (negb (be_direct e)).
    { injection Hd as <- <- <-. derr_case Hok. }
    destruct (run_parts k ps _ (be_chunks e)) as [[[ps1 f1] ok] rq] eqn:Hrun.
    destruct (negb ok).
    { injection Hd as <- <- <-. derr_case Hok. }
    cbn [andb] in Hd. destruct (negb (N.eqb (H f1) d)) eqn:Hv.
    { injection Hd as <- <- <-. derr_case Hok. }
    apply negb_false_iff, N.eqb_eq in Hv.
    injection Hd as <- <- <-. unfold add_blob, drop_dl. cbn [s_blobs s_man s_dl].
    split; [|split; [|split; [reflexivity|]]].
    + intros d' c'. cbn [s_blobs]. destruct (N.eq_dec d' d) as [->|Hne].
      * rewrite lookup_set_same. intros [= <-]. exact Hv.
      * rewrite lookup_set_other by exact Hne. apply Hok.
    + intros d' c' Hl'. cbn [s_blobs]. destruct (N.eq_dec d' d) as [->|Hne]; [congruence|].
      rewrite lookup_set_other by exact Hne. exact Hl'.
    + intros _. exists f1. rewrite lookup_set_same. split; [reflexivity|exact Hv].
  Qed.

  Lemma put_dl_blobs d x st : s_blobs (put_dl d x st) = s_blobs st /\ s_man (put_dl d x st) = s_man st.
  Proof. unfold put_dl. destruct (d_file x), (d_parts x); split; reflexivity. Qed.

  Lemma download_blob_spec st d e st' r tr :
    download_blob H true k st d e = (st', r, tr) ->
    blobs_ok st ->
    blobs_ok st' /\ blobs_grow st st' /\ s_man st' = s_man st
    /\ (r <> DErr -> exists c, lookup N.eqb d (s_blobs st') = Some c /\ H c = d).
  Proof.
    unfold download_blob. intros Hd Hok.
    destruct (lookup N.eqb d (s_blobs st)) as [c|] eqn:Hl.
    - injection Hd as <- <- <-. repeat split; auto using blobs_grow_refl.
      intros _. exists c. split; [exact Hl|]. apply Hok. exact Hl.
    - set (old := match lookup N.eqb d (s_dl st) with Some x => x | None => mkDl None [] end) in *.
      destruct (usable old).
      + exact (download_from_spec _ _ _ _ _ _ _ Hd Hl Hok).
      + destruct (put_dl_blobs d (mkDl (d_file old) []) st) as [Eb Em].
        destruct (download_from_spec _ _ _ _ _ _ _ Hd) as [H1 [H2 [H3 H4]]].
        * rewrite Eb. exact Hl.
        * intros d' c'. rewrite Eb. apply Hok.
        * split; [exact H1|]. split; [|split; [congruence|exact H4]].
          intros d' c' Hc. apply H2. rewrite Eb. exact Hc.
  Qed.

  (** *** the download loop of PullModel *)
  Lemma download_all_spec ls : forall st es skip st' sk trs,
    download_all H true k st ls es skip = (st', sk, trs) ->
    blobs_ok st ->
    blobs_ok st' /\ blobs_grow st st' /\ s_man st' = s_man st
    /\ (sk <> None -> forall l, In l ls -> layer_ok st' l).
  Proof.
    induction ls as [|l ls IH]; intros st es skip st' sk trs Hd Hok; cbn in Hd.
    - injection Hd as <- <- <-. repeat split; auto using blobs_grow_refl. intros _ l [].
    - destruct (negb (l_valid l)).
      { injection Hd as <- <- <-. derr_case Hok. }
      destruct (download_blob H true k st (l_digest l) _) as [[st1 r] tr] eqn:Hb.
      destruct (download_blob_spec _ _ _ _ _ _ Hb Hok) as [Hok1 [Hg1 [Hm1 Hr1]]].
      destruct r.
      + destruct (download_all H true k st1 ls (tl es) _) as [[st2 sk2] trs2] eqn:Ha.
        injection Hd as <- <- <-.
        destruct (IH _ _ _ _ _ _ Ha Hok1) as [Hok2 [Hg2 [Hm2 Hl2]]].
        repeat split; [exact Hok2|eapply blobs_grow_trans; eassumption|congruence|].
        intros Hne l' [<-|Hin]; [|apply Hl2; assumption].
        eapply layer_ok_grow; [exact Hg2|]. apply Hr1. discriminate.
      + destruct (download_all H true k st1 ls (tl es) _) as [[st2 sk2] trs2] eqn:Ha.
        injection Hd as <- <- <-.
        destruct (IH _ _ _ _ _ _ Ha Hok1) as [Hok2 [Hg2 [Hm2 Hl2]]].
        repeat split; [exact Hok2|eapply blobs_grow_trans; eassumption|congruence|].
        intros Hne l' [<-|Hin]; [|apply Hl2; assumption].
        eapply layer_ok_grow; [exact Hg2|]. apply Hr1. discriminate.
      + injection Hd as <- <- <-. split; [exact Hok1|split; [exact Hg1|split; [exact Hm1|intros Hne; exfalso; apply Hne; reflexivity]]].
  Qed.

  (** *** the verification loop: on a store whose blobs are all intact it changes nothing *)
  Lemma verify_all_ok_state ls : forall st skip, blobs_ok st -> fst (verify_all H st ls skip) = st.
  Proof.
    induction ls as [|l ls IH]; intros st skip Hok; cbn; [reflexivity|].
    destruct (match lookup N.eqb (l_digest l) skip with Some true => true | _ => false end); [apply IH, Hok|].
    destruct (lookup N.eqb (l_digest l) (s_blobs st)) as [c|] eqn:Hl; [|reflexivity].
    rewrite (Hok _ _ Hl), N.eqb_refl. apply IH, Hok.
  Qed.

  (** *** prune *)
  Lemma drop_blob_lookup d d' st :
    lookup N.eqb d' (s_blobs (drop_blob d st)) = if N.eqb d' d then None else lookup N.eqb d' (s_blobs st).
  Proof.
    cbn. destruct (N.eqb d' d) eqn:E.
    - apply N.eqb_eq in E. subst. apply lookup_remove_same.
    - apply lookup_remove_other. intros ->. rewrite N.eqb_refl in E. discriminate.
  Qed.

  Lemma memb_cons d x l : memb d (x :: l) = N.eqb d x || memb d l.
  Proof. reflexivity. Qed.

  Definition prune_step (used : list digest) (s : store) (d : digest) : store := if memb d used then s else drop_blob d s.

  Lemma prune_step_man used s d : s_man (prune_step used s d) = s_man s.
  Proof. unfold prune_step. destruct (memb d used); reflexivity. Qed.

  Lemma prune_fold used del : forall st,
    s_man (fold_left (prune_step used) del st) = s_man st /\
    forall d, lookup N.eqb d (s_blobs (fold_left (prune_step used) del st))
              = if memb d del && negb (memb d used) then None else lookup N.eqb d (s_blobs st).
  Proof.
    induction del as [|x del IH]; intros st; cbn [fold_left].
    - split; [reflexivity|]. intros d. reflexivity.
    - destruct (IH (prune_step used st x)) as [Hm Hl]. split.
      + rewrite Hm. apply prune_step_man.
      + intros d. rewrite Hl, memb_cons. destruct (N.eqb_spec d x) as [->|Hne]; cbn [orb].
        * unfold prune_step. destruct (memb x used) eqn:Eu; cbn [negb].
          -- rewrite andb_false_r. reflexivity.
          -- rewrite andb_true_r. destruct (memb x del); [reflexivity|].
             rewrite drop_blob_lookup, N.eqb_refl. reflexivity.
        * destruct (memb d del && negb (memb d used)); [reflexivity|].
          unfold prune_step. destruct (memb x used); [reflexivity|].
          rewrite drop_blob_lookup. destruct (N.eqb_spec d x); [contradiction|reflexivity].
  Qed.

  Lemma prune_spec del st :
    s_man (prune del st) = s_man st /\
    forall d, lookup N.eqb d (s_blobs (prune del st))
              = if memb d del && negb (memb d (flat_map (fun nm => digests_of (snd nm)) (s_man st))) then None
                else lookup N.eqb d (s_blobs st).
  Proof. exact (prune_fold (flat_map (fun nm => digests_of (snd nm)) (s_man st)) del st). Qed.

  Lemma used_digest st n m l :
    lookup N.eqb n (s_man st) = Some m -> In l (all_layers m) ->
    memb (l_digest l) (flat_map (fun nm => digests_of (snd nm)) (s_man st)) = true.
  Proof.
    intros Hl Hin. apply memb_In, in_flat_map. exists (n, m). split; [apply lookup_In, Hl|].
    cbn. unfold digests_of. apply in_map, Hin.
  Qed.

  (** *** PullModel (repaired code), one attempt, any environment *)
  Theorem pull_spec st name e st' r trs :
    pull H true k st name e = (st', r, trs) ->
    blobs_ok st -> names_sound st ->
    blobs_ok st' /\ names_sound st'
    /\ (r = PFail -> s_man st' = s_man st /\ blobs_grow st st')
    /\ (r = PSuccess -> exists m, pe_manifest e = Some m /\ lookup N.eqb name (s_man st') = Some m
                                  /\ (forall n, n <> name -> lookup N.eqb n (s_man st') = lookup N.eqb n (s_man st))
                                  /\ forall l, In l (all_layers m) -> layer_ok st' l).
  Proof.
    unfold pull. intros Hp Hok Hns.
    destruct (pe_manifest e) as [m|].
    2:{ injection Hp as <- <- <-. repeat split; auto using blobs_grow_refl. discriminate. }
    destruct (download_all H true k st (all_layers m) (pe_blobs e) []) as [[st1 sk] trs1] eqn:Ha.
    destruct (download_all_spec _ _ _ _ _ _ _ Ha Hok) as [Hok1 [Hg1 [Hm1 Hl1]]].
    assert (Hns1 : names_sound st1).
    { intros n m' Hl l Hin. rewrite Hm1 in Hl. eapply layer_ok_grow; [exact Hg1|]. eapply Hns; eassumption. }
    destruct sk as [skip|].
    2:{ injection Hp as <- <- <-. repeat split; auto. discriminate. }
    pose proof (verify_all_ok_state (all_layers m) st1 skip Hok1) as Hv.
    destruct (verify_all H st1 (all_layers m) skip) as [st2 ok] eqn:Hve. cbn in Hv. subst st2.
    destruct ok; cbn [negb] in Hp.
    2:{ injection Hp as <- <- <-. repeat split; auto. discriminate. }
    injection Hp as <- <- <-.
    set (st3 := mkStore (s_blobs st1) (s_dl st1) (set_key N.eqb name m (s_man st1))).
    set (del := filter _ _).
    destruct (prune_spec del st3) as [Hpm Hpl].
    assert (Hlay : forall l, In l (all_layers m) -> layer_ok st1 l) by (apply Hl1; discriminate).
    assert (Hkeep : forall n' m' l, lookup N.eqb n' (s_man st3) = Some m' -> In l (all_layers m') -> layer_ok st3 l ->
                                   layer_ok (prune del st3) l).
    { intros n' m' l Hl Hin [c [Hc1 Hc2]]. exists c. split; [|exact Hc2].
      rewrite Hpl, (used_digest st3 n' m' l Hl Hin). cbn [negb]. rewrite andb_false_r. exact Hc1. }
    assert (Hname : lookup N.eqb name (s_man st3) = Some m) by (unfold st3; cbn [s_man]; apply lookup_set_same).
    repeat split.
    - intros d c. rewrite Hpl. destruct (_ && _); [discriminate|]. apply Hok1.
    - intros n' m' Hl l Hin. rewrite Hpm in Hl. eapply Hkeep; [exact Hl|exact Hin|].
      unfold st3 in Hl. cbn [s_man] in Hl. destruct (N.eq_dec n' name) as [->|Hne].
      + rewrite lookup_set_same in Hl. injection Hl as <-. apply Hlay, Hin.
      + rewrite lookup_set_other in Hl by exact Hne. eapply Hns1; eassumption.
    - discriminate.
    - discriminate.
    - intros _. exists m. repeat split.
      + rewrite Hpm. exact Hname.
      + intros n Hne. rewrite Hpm. unfold st3. cbn [s_man]. rewrite lookup_set_other by exact Hne. rewrite Hm1. reflexivity.
      + intros l Hin. eapply Hkeep; [exact Hname|exact Hin|apply Hlay, Hin].
  Qed.

  (** *** histories: any number of attempts, each against an arbitrary environment *)
  Definition attempt := (N * penv)%type.
  Definition step (st : store) (a : attempt) : store := fst (fst (pull H true k st (fst a) (snd a))).
  Definition run_history (st : store) (h : list attempt) : store := fold_left step h st.

  Lemma history_inv h : forall st, blobs_ok st -> names_sound st ->
    blobs_ok (run_history st h) /\ names_sound (run_history st h).
  Proof.
    induction h as [|a h IH]; intros st Hok Hns; cbn [run_history fold_left]; [split; assumption|].
    fold (run_history (step st a) h). apply IH.
    - unfold step. destruct (pull H true k st (fst a) (snd a)) as [[st' r] trs] eqn:Hp. cbn [fst].
      exact (proj1 (pull_spec _ _ _ _ _ _ Hp Hok Hns)).
    - unfold step. destruct (pull H true k st (fst a) (snd a)) as [[st' r] trs] eqn:Hp. cbn [fst].
      exact (proj1 (proj2 (pull_spec _ _ _ _ _ _ Hp Hok Hns))).
  Qed.
End Inv.

(** no sequence of responses makes makeRequestWithRetry (with the guarded getValue) panic *)
Lemma mrwr_no_panic closure ac fuel : forall tok rs, fst (fst (fst (mrwr true closure ac fuel tok rs))) <> RPanic.
Proof.
  induction fuel as [|f IH]; intros tok rs; cbn [mrwr]; [cbn; discriminate|].
  destruct (do_request closure 0 rs) as [[r|] rest]; [|cbn; discriminate].
  destruct (h_status r =? 401).
  - destruct (parse_challenge_gen true (h_auth r)) as [c|] eqn:E.
    + destruct (get_token ac c (h_tokreq r)) as [[t|] ct]; [|cbn; discriminate].
      specialize (IH t rest). destruct (mrwr true closure ac f t rest) as [[[o tk] rs'] c']. exact IH.
    + exfalso. exact (parse_challenge_total _ E).
  - destruct (h_status r =? 404); [cbn; discriminate|].
    destruct (400 <=? h_status r); cbn; discriminate.
Qed.
