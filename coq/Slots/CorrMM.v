(** C07 — comparison of the multimodal / SameBatch model (Slots/ModelMM.v) with an observed run; same projection and
    same per-operation comparison as Slots/Corr.v. *)
From Coq Require Import List ZArith NArith Bool Arith.
From V Require Import Common.Bytes Slots.StopFns Slots.Model Slots.ModelMM Slots.Corr.
Import ListNotations.
Open Scope Z_scope.

Fixpoint chk_from_mm (F : list (Z * tok) -> tok) (cfg : config) (st : state) (tr : list (op * obs)) (i : nat) : option nat :=
  match tr with
  | [] => None
  | (o, ob) :: r =>
      let '(st', res) := step_op_mm F cfg st o in
      if negb (res_eqb res (o_res ob)) then Some i
      else if terminal res then None
      else if state_eqb st' ob then chk_from_mm F cfg st' r (S i) else Some i
  end.

Definition chk_trace_mm (vocab : Z) (cfg : config) (parallel : nat) (tr : list (op * obs)) : bool :=
  match chk_from_mm (hash_vis vocab) cfg (init parallel) tr O with None => true | Some _ => false end.

Definition model_trace_mm (vocab : Z) (cfg : config) (parallel : nat) (ops : list op)
  : list (ores * list (list tok * bool) * list (option (list tok * list tok * nat * Z * list str)) * list (list (Z * tok))) :=
  snd (fold_left (fun acc o =>
                    let '(st, out) := acc in
                    let '(st', r) := step_op_mm (hash_vis vocab) cfg st o in
                    (st', out ++ [(r, map (fun s => (s_inputs s, s_inuse s)) (slots st'), map (option_map seq_proj) (seqs st'),
                                   map (fun i => sort_vis (view (kv st') i)) (seq O (length (slots st'))))]))
                 ops (init parallel, [])).

(** on text inputs the two models are the same function (checked here on the model side by evaluation, see props) *)
Definition chk_text_agree (vocab : Z) (cfg : config) (parallel : nat) (ops : list op) : bool :=
  let a := fold_left (fun s o => fst (step_op (hash_vis vocab) cfg s o)) ops (init parallel) in
  let b := fold_left (fun s o => fst (step_op_mm (hash_vis vocab) cfg s o)) ops (init parallel) in
  list_eqb (pair_eqb (list_eqb Z.eqb) Bool.eqb) (map (fun s => (s_inputs s, s_inuse s)) (slots a)) (map (fun s => (s_inputs s, s_inuse s)) (slots b))
  && list_eqb (opt_eqb seq_proj_eqb) (map (option_map seq_proj) (seqs a)) (map (option_map seq_proj) (seqs b))
  && list_eqb (list_eqb (pair_eqb Z.eqb Z.eqb)) (map (fun i => sort_vis (view (kv a) i)) (seq O (length (slots a))))
                                                 (map (fun i => sort_vis (view (kv b) i)) (seq O (length (slots b)))).
