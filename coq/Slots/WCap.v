(** C07 — capacity: with an allocation of at least slots x context cells, Forward never finds the cache full.
    A counting invariant on top of the structural one: every cell belongs to slot sequences only, and no sequence
    holds more cells than the context. *)
From Coq Require Import List ZArith NArith Bool Arith Lia ZifyBool ZifyNat.
From V Require Import Common.Bytes Slots.StopFns Slots.Model Slots.ProofsKv Slots.ProofsWin Slots.WSlots Slots.WBatch.
Import ListNotations.
Open Scope Z_scope.

Definition cells_lt (n : nat) (kv0 : kvcache) : Prop := forall c s, In c kv0 -> In s (cseqs c) -> (s < n)%nat.
Definition entries_lt (n : nat) (b : list entry) : Prop := forall e, In e b -> (e_seq e < n)%nat.

Definition cap_ok (cfg : config) (sl : list slot) (kv0 : kvcache) (b : list entry) : Prop :=
  cells_lt (length sl) kv0 /\ entries_lt (length sl) b /\
  forall i, (i < length sl)%nat -> s_inuse (nth_slot sl i) = false -> zlen (view kv0 i) <= numCtx cfg.

(** ** cells stay within the slots *)
Lemma cells_lt_map n kv0 f :
  cells_lt n kv0 -> (forall c s, In s (cseqs (f c)) -> In s (cseqs c) \/ (s < n)%nat) -> cells_lt n (map f kv0).
Proof.
  intros H Hf c s Hc Hs. apply in_map_iff in Hc as (c0 & <- & Hc0). destruct (Hf c0 s Hs); [eapply H; eauto|auto].
Qed.
Lemma del_seq_in s0 c s : In s (cseqs (del_seq s0 c)) -> In s (cseqs c).
Proof. unfold del_seq. cbn [cseqs]. intro H. apply filter_In in H. apply H. Qed.

Lemma cells_lt_trunc n kv0 s b : cells_lt n kv0 -> cells_lt n (kv_trunc kv0 s b).
Proof.
  intro H. apply cells_lt_map; auto. intros c x Hx. left. destruct (has s c && (b <=? cpos c)); [eapply del_seq_in; eauto|auto].
Qed.
Lemma cells_lt_range n kv0 s b e : cells_lt n kv0 -> cells_lt n (kv_range kv0 s b e).
Proof.
  intro H. apply cells_lt_map; auto. intros c x Hx. left.
  destruct (has s c); [|auto]. destruct ((b <=? cpos c) && (cpos c <? e)); [eapply del_seq_in; eauto|].
  destruct (e <=? cpos c); auto.
Qed.
Lemma cells_lt_copy n kv0 src dst len : (dst < n)%nat -> cells_lt n kv0 -> cells_lt n (kv_copy_prefix kv0 src dst len).
Proof.
  intros Hd H. apply cells_lt_map; auto. intros c x Hx. cbn beta zeta in Hx.
  destruct (has src (del_seq dst c) && (cpos (del_seq dst c) <? len)).
  - cbn [cseqs] in Hx. apply in_app_or in Hx as [Hx|[<-|[]]]; [left; eapply del_seq_in; eauto|right; auto].
  - left. eapply del_seq_in; eauto.
Qed.
Lemma cells_lt_evict cfg n kv0 b : cells_lt n kv0 -> cells_lt n (kv_evict cfg kv0 b).
Proof.
  intro H. unfold kv_evict. destruct (window cfg); [|auto]. apply cells_lt_map; auto.
  intros c x Hx. left. cbn [cseqs] in Hx. apply filter_In in Hx. apply Hx.
Qed.
Lemma cells_lt_forward n kv0 b : cells_lt n kv0 -> entries_lt n b -> cells_lt n (kv_forward kv0 b).
Proof.
  intros H Hb c s Hc Hs. unfold kv_forward in Hc. apply in_app_or in Hc as [Hc|Hc]; [eapply H; eauto|].
  apply in_map_iff in Hc as (e & <- & He). cbn in Hs. destruct Hs as [<-|[]]. apply Hb. auto.
Qed.

Lemma zlen_wenum_le lo l : zlen (wenum lo l) <= zlen l.
Proof.
  assert (H : forall (v : list (Z * tok)), (length (filter (fun e : Z * tok => (lo <=? fst e)%Z) v) <= length v)%nat).
  { intro v. induction v as [|x v IH]; cbn; [lia|]. destruct (lo <=? fst x)%Z; cbn; lia. }
  unfold wenum, zlen. specialize (H (enumerate 0 l)). rewrite enumerate_length in H. lia.
Qed.

(** ** counting: the cells referenced by some sequence are at most the sum of what the slot sequences hold *)
Fixpoint sum_views (kv0 : kvcache) (n : nat) : Z :=
  match n with O => 0 | S k => sum_views kv0 k + zlen (view kv0 k) end.

Fixpoint count_has (c : cell) (n : nat) : Z :=
  match n with O => 0 | S k => count_has c k + (if has k c then 1 else 0) end.

Lemma sum_views_cons c kv0 n : sum_views (c :: kv0) n = count_has c n + sum_views kv0 n.
Proof.
  induction n as [|n IH]; [reflexivity|]. cbn [sum_views count_has]. rewrite IH, view_cons, zlen_app.
  destruct (has n c); [change (zlen [(cpos c, ctok c)]) with 1|change (zlen (@nil (Z * tok))) with 0]; lia.
Qed.
Lemma count_has_nonneg c n : 0 <= count_has c n.
Proof. induction n; cbn [count_has]; [lia|]. destruct (has n c); lia. Qed.
Lemma count_has_pos c n s : (s < n)%nat -> In s (cseqs c) -> 1 <= count_has c n.
Proof.
  induction n as [|n IH]; intros Hs Hin; [lia|]. cbn [count_has]. pose proof (count_has_nonneg c n).
  destruct (Nat.eq_dec s n) as [->|Hne].
  - replace (has n c) with true; [lia|]. symmetry. unfold has. apply existsb_exists. exists n. split; [auto|apply Nat.eqb_refl].
  - specialize (IH ltac:(lia) Hin). destruct (has n c); lia.
Qed.

Lemma live_cells_le_sum n kv0 : cells_lt n kv0 -> live_cells kv0 <= sum_views kv0 n.
Proof.
  induction kv0 as [|c kv0 IH]; intro H.
  - unfold live_cells. cbn. clear. induction n; cbn [sum_views]; [lia|]. rewrite view_nil. change (zlen (@nil (Z*tok))) with 0. lia.
  - assert (H' : cells_lt n kv0) by (intros c0 s Hc Hs; eapply H; eauto; right; auto).
    specialize (IH H'). rewrite sum_views_cons. unfold live_cells in *. cbn [filter].
    destruct (cseqs c) as [|s l] eqn:Ec.
    + pose proof (count_has_nonneg c n). lia.
    + rewrite zlen_cons. assert (1 <= count_has c n).
      { apply (count_has_pos c n s); [eapply H; [left; reflexivity|rewrite Ec; left; reflexivity]|rewrite Ec; left; reflexivity]. }
      lia.
Qed.

Lemma sum_views_bound kv0 n m : (forall i, (i < n)%nat -> zlen (view kv0 i) <= m) -> sum_views kv0 n <= Z.of_nat n * m.
Proof.
  induction n as [|n IH]; intro H; cbn [sum_views]; [lia|].
  specialize (IH ltac:(intros; apply H; lia)). specialize (H n ltac:(lia)). lia.
Qed.

Lemma live_cells_forward kv0 b : live_cells (kv_forward kv0 b) = live_cells kv0 + zlen b.
Proof.
  unfold live_cells, kv_forward. rewrite filter_app, zlen_app. f_equal.
  rewrite filter_all; [unfold zlen; rewrite map_length; reflexivity|].
  intros c Hc. apply in_map_iff in Hc as (e & <- & _). reflexivity.
Qed.

(** ** the inner loop keeps cells and entries within the slots *)
Lemma build_seq_cells cfg n seqIdx slotId keep rng : forall i b b',
  (slotId < n)%nat -> cells_lt n (b_kv b) -> entries_lt n (b_batch b) ->
  build_seq cfg seqIdx slotId keep rng i b = BOk b' -> cells_lt n (b_kv b') /\ entries_lt n (b_batch b').
Proof.
  induction rng as [|inp rest IH]; intros i b b' Hs Hc He H; cbn [build_seq] in H.
  - injection H as <-. auto.
  - assert (Hadd : forall b0, cells_lt n (b_kv b0) -> entries_lt n (b_batch b0) ->
                     cells_lt n (b_kv (add_input slotId i inp b0)) /\ entries_lt n (b_batch (add_input slotId i inp b0))).
    { intros b0 Hc0 He0. unfold add_input. cbn [b_kv b_batch]. split; [auto|].
      intros e Hin. apply in_app_or in Hin as [Hin|[<-|[]]]; [auto|cbn; auto]. }
    destruct (batchSize cfg <? zlen (b_batch b) + 1).
    { injection H as <-. destruct (set_resume_same seqIdx b) as (_ & E2 & _ & _ & E5 & _). rewrite E2, E5. auto. }
    destruct (numCtx cfg <? zlen (b_C b) + zlen (b_pending b) + 1).
    + destruct (b_pending b).
      * unfold shift_cache_slot in H. destruct (numCtx cfg <=? keep); [discriminate|].
        destruct (shift_discard cfg (zlen (b_C b)) keep <=? 0).
        -- destruct (Hadd b Hc He). eapply IH; eauto.
        -- destruct (kv_remove_range cfg (b_kv b) slotId keep _) as [kv'|] eqn:ER.
           ++ assert (Hc' : cells_lt n kv').
              { unfold kv_remove_range in ER. destruct (negb (canPartial cfg)); [discriminate|].
                destruct (kv_range_blocked _ _ _); [discriminate|]. destruct (_ && _); [discriminate|]. injection ER as <-.
                apply cells_lt_range. auto. }
              match type of H with build_seq _ _ _ _ _ _ (add_input _ _ _ ?b1) = _ => destruct (Hadd b1 Hc' He) end. eapply IH; eauto.
           ++ eapply IH; [| | |exact H]; cbn [b_kv b_batch]; auto. apply cells_lt_trunc. auto.
      * injection H as <-. auto.
    + destruct (Hadd b Hc He). eapply IH; eauto.
Qed.

(** ** one sequence of the outer loop, the whole loop *)
Lemma build_one_cap cfg p idx p' :
  win_ok cfg -> mid_ok cfg (p_slots p) (p_kv p) (p_seqs p) (p_batch p) -> unprocessed (p_seqs p) idx ->
  cap_ok cfg (p_slots p) (p_kv p) (p_batch p) -> build_one cfg p idx = POk p' ->
  cap_ok cfg (p_slots p') (p_kv p') (p_batch p').
Proof.
  intros Hwin Hm Hun (C1 & C2 & C3) H. unfold build_one in H. fold (get_seq (p_seqs p) idx) in H.
  destruct (get_seq (p_seqs p) idx) as [q|] eqn:Eq; [|injection H as <-; repeat split; auto].
  pose proof (mo_live _ _ _ _ _ Hm idx q Eq) as Hq. pose proof (lo_slot _ _ _ _ _ Hq) as Hslot.
  destruct (at_limit q).
  - injection H as <-. cbn [p_slots p_kv p_batch]. unfold cap_ok. rewrite release_length. split; [auto|]. split; [auto|].
    intros i Hi Hu. destruct (Nat.eq_dec (q_slot q) i) as [<-|Hne].
    + destruct (lo_view _ _ _ _ _ Hq) as (lo & _ & Hv). rewrite Hv.
      pose proof (zlen_wenum_le lo (s_inputs (nth_slot (p_slots p) (q_slot q)))). pose proof (lo_fit _ _ _ _ _ Hq).
      pose proof (zlen_nonneg (q_pending q)). lia.
    + rewrite release_other in Hu by auto. auto.
  - destruct (Hun q Eq) as [Hpend Hinp].
    set (b0 := mkB (s_inputs (nth_slot (p_slots p) (q_slot q))) (p_kv p) (q_pending q) (q_inputs q) (p_batch p) (p_nout p) (q_ibatch q) (p_resume p)) in *.
    assert (Hb0 : b_ok cfg (q_slot q) b0).
    { unfold b_ok, b0. cbn [b_kv b_C b_batch b_pending b_inputs]. destruct Hq as [A1 A2 A3 A4 A5 A6 A6' A7]. auto. }
    destruct (build_seq_ok cfg idx (q_slot q) (q_keep q) (q_inputs q) 0 b0 Hwin (lo_guard _ _ _ _ _ Hq) (lo_keep _ _ _ _ _ Hq) Hb0) as (b' & E & _ & Hf).
    rewrite E in H. injection H as <-. cbn [p_slots p_kv p_batch]. unfold cap_ok. rewrite set_slot_inputs_length.
    destruct (build_seq_cells cfg (length (p_slots p)) idx (q_slot q) (q_keep q) (q_inputs q) 0%nat b0 b' Hslot C1 C2 E) as [D1 D2].
    split; [auto|]. split; [auto|].
    intros i Hi Hu. destruct (Nat.eq_dec (q_slot q) i) as [<-|Hne].
    + rewrite set_slot_inputs_same in Hu by auto. cbn [s_inuse] in Hu. rewrite (lo_inuse _ _ _ _ _ Hq) in Hu. discriminate.
    + rewrite set_slot_inputs_other in Hu by auto. destruct (Hf i ltac:(auto)) as [F1 _]. rewrite F1. auto.
Qed.

Lemma build_all_cap cfg order : forall p p',
  win_ok cfg -> NoDup order -> mid_ok cfg (p_slots p) (p_kv p) (p_seqs p) (p_batch p) ->
  (forall idx, In idx order -> unprocessed (p_seqs p) idx) ->
  cap_ok cfg (p_slots p) (p_kv p) (p_batch p) -> build_all cfg p order = POk p' ->
  cap_ok cfg (p_slots p') (p_kv p') (p_batch p').
Proof.
  induction order as [|idx order IH]; intros p p' Hwin Hnd Hm Hun Hc H; cbn [build_all] in H.
  - injection H as <-. auto.
  - inversion Hnd as [|x l Hnotin Hnd']; subst.
    destruct (build_one_ok cfg p idx Hwin Hm (Hun idx (or_introl eq_refl))) as (p1 & E & Hm1 & Hsame & Hlen).
    rewrite E in H. apply (IH p1 p' Hwin Hnd' Hm1); [| |exact H].
    + intros j Hj q Hq. rewrite Hsame in Hq by (intros ->; auto). apply (Hun j (or_intror Hj) q Hq).
    + apply (build_one_cap cfg p idx p1 Hwin Hm (Hun idx (or_introl eq_refl)) Hc E).
Qed.

(** ** at Forward time the batch fits *)
Lemma forward_fits cfg sl kv0 qs b :
  win_ok cfg -> mid_ok cfg sl kv0 qs b -> cap_ok cfg sl kv0 b ->
  live_cells (kv_evict cfg kv0 b) + zlen b <= Z.of_nat (length sl) * numCtx cfg /\
  cap_ok cfg sl (kv_forward (kv_evict cfg kv0 b) b) [] /\
  forall i, (i < length sl)%nat -> zlen (view (kv_forward (kv_evict cfg kv0 b) b) i) <= numCtx cfg.
Proof.
  intros Hwin Hm (C1 & C2 & C3).
  set (kv' := kv_forward (kv_evict cfg kv0 b) b).
  assert (Hcells : cells_lt (length sl) kv') by (apply cells_lt_forward; [apply cells_lt_evict|]; auto).
  assert (Hall : forall i, (i < length sl)%nat -> zlen (view kv' i) <= numCtx cfg).
  { intros i Hi. destruct (s_inuse (nth_slot sl i)) eqn:Hu.
    - destruct (mo_used _ _ _ _ _ Hm i Hi Hu) as (k & q & Eq & <-). pose proof (mo_live _ _ _ _ _ Hm k q Eq) as Hl.
      destruct (forward_view_live cfg _ _ _ q Hwin Hl) as (lo & _ & _ & Hv). fold kv' in Hv. rewrite Hv.
      pose proof (zlen_wenum_le lo (s_inputs (nth_slot sl (q_slot q)) ++ q_pending q)). rewrite zlen_app in *.
      pose proof (lo_fit _ _ _ _ _ Hl). lia.
    - destruct (mo_idle _ _ _ _ _ Hm i Hi Hu) as [_ I2]. unfold kv'. rewrite (forward_view_idle cfg kv0 b i I2). auto. }
  split; [|split; [|exact Hall]].
  - rewrite <- live_cells_forward. fold kv'. etransitivity; [apply (live_cells_le_sum (length sl)); auto|].
    apply sum_views_bound. exact Hall.
  - split; [exact Hcells|]. split; [intros e []|]. intros i Hi _. auto.
Qed.

(** ** LoadCacheSlot keeps the cells within the slots *)
Lemma load_cache_slot_cells cfg clk sl kv0 prompt sl' kv' i rest :
  cells_lt (length sl) kv0 -> load_cache_slot cfg clk sl kv0 prompt = Ok (sl', kv', i, rest) -> cells_lt (length sl) kv'.
Proof.
  intros Hc H. unfold load_cache_slot in H.
  assert (HF : forall sl1 kv1 i1 n, (if multiUser cfg then find_best sl kv0 prompt
                else match find_longest sl prompt with Ok (i, n) => Ok (sl, kv0, i, n) | Err => Err | Panic => Panic end) = Ok (sl1, kv1, i1, n) ->
               cells_lt (length sl) kv1).
  { intros sl1 kv1 i1 n E. destruct (multiUser cfg).
    - unfold find_best in E. destruct (best_longest_aux sl 0 prompt None) as [[li longest]|]; [|discriminate].
      destruct (_ && negb (s_inuse (nth_slot sl li))); [injection E as _ <- _ _; auto|].
      destruct (best_oldest_aux sl 0 None) as [[oi olast]|] eqn:EO; [|discriminate].
      apply best_oldest_aux_spec in EO. destruct EO as [EO|(O1 & _)]; [discriminate|].
      destruct ((0 <? longest)%nat && negb (li =? oi)%nat); injection E as _ <- _ _; [apply cells_lt_copy; [lia|auto]|auto].
    - destruct (find_longest sl prompt) as [[i2 n2]| |]; try discriminate. injection E as _ <- _ _. auto. }
  destruct (if multiUser cfg then find_best sl kv0 prompt else _) as [[[[sl1 kv1] i1] n]| |] eqn:EF; try discriminate.
  specialize (HF _ _ _ _ eq_refl).
  destruct (kv_remove_tail cfg kv1 i1 _) as [kv2|] eqn:ER.
  - unfold kv_remove_tail in ER. destruct (_ && _); [discriminate|]. injection ER as <-. injection H as _ <- _ _. apply cells_lt_trunc. auto.
  - injection H as _ <- _ _. apply cells_lt_trunc. auto.
Qed.

(** * the capacity invariant at operation boundaries *)
Definition capst (cfg : config) (st : state) : Prop := cap_ok cfg (slots st) (kv st) [].

Section Cap.
  Variable F : list (Z * tok) -> tok.

  Lemma process_batch_cap cfg st :
    win_ok cfg -> inv cfg st -> capst cfg st -> capst cfg (fst (process_batch F cfg st)).
  Proof.
    intros Hwin [Hm Hin] Hc. unfold process_batch.
    destruct (all_nil (seqs st)); [auto|].
    set (p0 := mkP (slots st) (kv st) (seqs st) [] 0 None (log st)).
    assert (Hun : forall idx, In idx (visit_order (length (seqs st)) (nextSeq st)) -> unprocessed (p_seqs p0) idx).
    { intros i0 _ q Hq. split; [eapply live_pending_nil; eapply (mo_live _ _ _ _ _ Hm); eauto|eapply Hin; eauto]. }
    destruct (build_all_ok cfg (visit_order (length (seqs st)) (nextSeq st)) p0 Hwin (visit_order_nodup _ _) Hm Hun) as (p & E & Hmp & Hlen).
    pose proof (build_all_cap cfg _ p0 p Hwin (visit_order_nodup _ _) Hm Hun Hc E) as Hcp.
    rewrite E. destruct (p_batch p) as [|e0 b0] eqn:Eb.
    - cbn [fst]. unfold capst. cbn [slots kv]. exact Hcp.
    - rewrite <- Eb in Hmp, Hcp |- *. destruct (kv_full cfg _ _); [auto|].
      destruct (forward_fits cfg _ _ _ _ Hwin Hmp Hcp) as (_ & _ & Hall). destruct Hcp as (C1 & C2 & _).
      destruct (post_all F cfg _ (p_batch p) (p_slots p) (p_seqs p)) as [[[sl' qs'] ev]|] eqn:EP; [|auto].
      cbn [fst]. unfold capst. cbn [slots kv]. destruct (post_all_spec F _ _ _ _ _ _ _ _ EP) as (_ & L2 & _).
      unfold cap_ok. rewrite L2. split; [apply cells_lt_forward; [apply cells_lt_evict|]; auto|]. split; [intros e []|].
      intros i Hi _. auto.
  Qed.

  Lemma process_batch_not_full cfg st :
    win_ok cfg -> inv cfg st -> capst cfg st ->
    (cacheCells cfg < 0 \/ Z.of_nat (length (slots st)) * numCtx cfg <= cacheCells cfg) ->
    snd (process_batch F cfg st) <> RCacheFull.
  Proof.
    intros Hwin [Hm Hin] Hc Hcap. unfold process_batch.
    destruct (all_nil (seqs st)); [discriminate|].
    set (p0 := mkP (slots st) (kv st) (seqs st) [] 0 None (log st)).
    assert (Hun : forall idx, In idx (visit_order (length (seqs st)) (nextSeq st)) -> unprocessed (p_seqs p0) idx).
    { intros i0 _ q Hq. split; [eapply live_pending_nil; eapply (mo_live _ _ _ _ _ Hm); eauto|eapply Hin; eauto]. }
    destruct (build_all_ok cfg (visit_order (length (seqs st)) (nextSeq st)) p0 Hwin (visit_order_nodup _ _) Hm Hun) as (p & E & Hmp & Hlen).
    pose proof (build_all_cap cfg _ p0 p Hwin (visit_order_nodup _ _) Hm Hun Hc E) as Hcp.
    rewrite E. destruct (p_batch p) as [|e0 b0] eqn:Eb; [discriminate|].
    rewrite <- Eb in Hmp, Hcp |- *.
    destruct (forward_fits cfg _ _ _ _ Hwin Hmp Hcp) as (Hfit & _ & _).
    assert (Hls : length (p_slots p) = length (slots st)).
    { rewrite (mo_len _ _ _ _ _ Hmp), Hlen. cbn [p_seqs p0]. symmetry. apply (mo_len _ _ _ _ _ Hm). }
    rewrite Hls in Hfit.
    assert (Hnf : kv_full cfg (kv_evict cfg (p_kv p) (p_batch p)) (p_batch p) = false).
    { unfold kv_full. destruct Hcap; lia. }
    rewrite Hnf. destruct (post_all F cfg _ _ _ _) as [[[sl' qs'] ev]|]; discriminate.
  Qed.
End Cap.

Lemma submit_cap cfg st prompt np keep stops :
  1 <= numCtx cfg -> win_ok cfg -> inv cfg st -> capst cfg st -> capst cfg (fst (submit cfg st prompt np keep stops)).
Proof.
  intros Hc Hwin [Hm Hin] (C1 & C2 & C3). pose proof (conj C1 (conj C2 C3)) as Hall. unfold submit.
  destruct (new_sequence cfg prompt keep) as [[inputs keep']| |] eqn:EN; try exact Hall.
  destruct (new_sequence_ok _ _ _ _ _ Hc EN) as (N1 & N2 & N3).
  destruct (first_free (seqs st) 0) as [idx|]; [|exact Hall].
  destruct (load_cache_slot cfg (clock st) (slots st) (kv st) inputs) as [[[[sl kv'] si] rest]| |] eqn:EL; try exact Hall.
  destruct (load_cache_slot_ok _ _ _ _ _ _ _ _ _ Hwin N1 (inv_slots_ok _ _ _ _ _ Hm) EL) as (L1 & L2 & L3 & L4 & L5 & L6 & L7 & L8 & L9).
  cbn [fst]. unfold capst, cap_ok. cbn [slots kv]. rewrite L1.
  split; [eapply load_cache_slot_cells; eauto|]. split; [intros e []|].
  intros i Hi Hu. destruct (Nat.eq_dec i si) as [->|Hne]; [congruence|].
  rewrite L5 in Hu by auto. rewrite L8 by auto. auto.
Qed.

Lemma init_cap cfg parallel : 0 <= numCtx cfg -> capst cfg (init parallel).
Proof.
  intro Hc. unfold capst, cap_ok, init. cbn [slots kv]. split; [intros c s []|]. split; [intros e []|].
  intros i _ _. rewrite view_nil. change (zlen (@nil (Z * tok))) with 0. lia.
Qed.

Lemma submit_len cfg st prompt np keep stops :
  1 <= numCtx cfg -> win_ok cfg -> inv cfg st -> length (slots (fst (submit cfg st prompt np keep stops))) = length (slots st).
Proof.
  intros Hc Hwin [Hm Hin]. unfold submit.
  destruct (new_sequence cfg prompt keep) as [[inputs keep']| |] eqn:EN; try reflexivity.
  destruct (new_sequence_ok _ _ _ _ _ Hc EN) as (N1 & N2 & N3).
  destruct (first_free (seqs st) 0) as [idx|]; [|reflexivity].
  destruct (load_cache_slot cfg (clock st) (slots st) (kv st) inputs) as [[[[sl kv'] si] rest]| |] eqn:EL; try reflexivity.
  destruct (load_cache_slot_ok _ _ _ _ _ _ _ _ _ Hwin N1 (inv_slots_ok _ _ _ _ _ Hm) EL) as (L1 & _). exact L1.
Qed.

Section CapLen.
  Variable F : list (Z * tok) -> tok.
  Lemma process_batch_len cfg st :
    win_ok cfg -> inv cfg st -> length (slots (fst (process_batch F cfg st))) = length (slots st).
  Proof.
    intros Hwin [Hm Hin]. unfold process_batch.
    destruct (all_nil (seqs st)); [reflexivity|].
    set (p0 := mkP (slots st) (kv st) (seqs st) [] 0 None (log st)).
    assert (Hun : forall idx, In idx (visit_order (length (seqs st)) (nextSeq st)) -> unprocessed (p_seqs p0) idx).
    { intros i0 _ q Hq. split; [eapply live_pending_nil; eapply (mo_live _ _ _ _ _ Hm); eauto|eapply Hin; eauto]. }
    destruct (build_all_ok cfg (visit_order (length (seqs st)) (nextSeq st)) p0 Hwin (visit_order_nodup _ _) Hm Hun) as (p & E & Hmp & Hlen).
    assert (Hls : length (p_slots p) = length (slots st)).
    { rewrite (mo_len _ _ _ _ _ Hmp), Hlen. cbn [p_seqs p0]. symmetry. apply (mo_len _ _ _ _ _ Hm). }
    rewrite E. destruct (p_batch p); [exact Hls|].
    destruct (kv_full cfg _ _); [reflexivity|].
    destruct (post_all F cfg _ _ (p_slots p) (p_seqs p)) as [[[sl' qs'] ev]|] eqn:EP; [|reflexivity].
    cbn [fst slots]. destruct (post_all_spec F _ _ _ _ _ _ _ _ EP) as (_ & L2 & _). congruence.
  Qed.
End CapLen.

Section CapReach.
  Variable F : list (Z * tok) -> tok.
  Lemma run_cap cfg st ops :
    1 <= numCtx cfg -> win_ok cfg -> Forall (op_guard cfg) ops -> inv cfg st -> capst cfg st ->
    inv cfg (run F cfg st ops) /\ capst cfg (run F cfg st ops) /\ length (slots (run F cfg st ops)) = length (slots st).
  Proof.
    intros Hc Hwin. revert st. induction ops as [|o ops IH]; intros st Hg Hi Hcap; cbn [run fold_left]; [auto|].
    inversion Hg; subst.
    assert (Hl : length (slots (fst (step_op F cfg st o))) = length (slots st)).
    { destruct o; cbn [step_op]; [apply submit_len; auto|apply process_batch_len; auto]. }
    rewrite <- Hl. apply IH; auto.
    - apply step_op_inv; auto.
    - destruct o; cbn [step_op]; [apply submit_cap; auto|apply process_batch_cap; auto].
  Qed.

  Lemma step_not_full cfg parallel ops o :
    1 <= numCtx cfg -> win_ok cfg -> Forall (op_guard cfg) ops ->
    (cacheCells cfg < 0 \/ Z.of_nat parallel * numCtx cfg <= cacheCells cfg) ->
    snd (step_op F cfg (run F cfg (init parallel) ops) o) <> RCacheFull.
  Proof.
    intros Hc Hwin Hg Hcap.
    destruct (run_cap cfg (init parallel) ops Hc Hwin Hg (init_inv cfg parallel) (init_cap cfg parallel ltac:(lia))) as (Hi & Hcs & Hl).
    destruct o as [prompt np keep stops|]; cbn [step_op].
    - unfold submit. destruct (new_sequence cfg prompt keep) as [[inputs keep']| |]; try discriminate.
      destruct (first_free _ 0); [|discriminate]. destruct (load_cache_slot _ _ _ _ _) as [[[[sl kv'] si] rest]| |]; discriminate.
    - apply process_batch_not_full; auto. rewrite Hl. unfold init. cbn [slots]. rewrite repeat_length. exact Hcap.
  Qed.
End CapReach.
