(** C07 — when a request ends is a function of the request alone: the number of tokens sampled for a finished
    request and its done reason are the reference's, in every history. *)
From Coq Require Import List ZArith NArith Bool Arith Lia ZifyBool ZifyNat.
From V Require Import Common.Bytes Slots.StopFns Slots.Model Slots.ProofsKv Slots.ProofsWin Slots.WSlots Slots.WBatch Slots.WRef.
Import ListNotations.
Open Scope Z_scope.

Section Term.
  Variable F : list (Z * tok) -> tok.
  Variable cfg : config.
  Hypothesis Hwin : win_ok cfg.

  (** * the reference's account of pendingResponses and of termination *)
  Definition held (stops : list str) (pend' : list str) : bool :=
    contains_stop_suffix (concat pend') stops || incomplete_unicode (concat pend').
  Definition pend_next (stops : list str) (pend : list str) (t : tok) : list str :=
    let pend' := pend ++ [piece_of t] in if held stops pend' then pend' else [].
  Definition stops_at (stops : list str) (pend : list str) (t : tok) : bool :=
    ((0 <=? eosTok cfg) && (t =? eosTok cfg)) ||
    match find_stop (concat (pend ++ [piece_of t])) stops with Some _ => true | None => false end.

  Fixpoint ref_pend (keep : Z) (W0 : list tok) (stops : list str) (n : nat) : list str :=
    match n with
    | O => []
    | S k => pend_next stops (ref_pend keep W0 stops k) (ref_tok F cfg keep W0 k)
    end.
  (** the n-th sample (n = 0, 1, ...) is an EOS or completes a stop sequence *)
  Definition ends_stop (keep : Z) (W0 : list tok) (stops : list str) (n : nat) : bool :=
    stops_at stops (ref_pend keep W0 stops n) (ref_tok F cfg keep W0 n).
  (** after the n-th sample numPredicted = n+1 has reached numPredict (seen at the start of the next batch) *)
  Definition ends_length (np : Z) (n : nat) : bool := (0 <? np) && (np <=? Z.of_nat (S n)).

  (** no termination before sample index [n] *)
  Definition runs_to (keep : Z) (W0 : list tok) (np : Z) (stops : list str) (n : nat) : Prop :=
    forall j, (S j < n)%nat -> ends_stop keep W0 stops j = false /\ ends_length np j = false.

  (** * the third invariant layer *)
  Definition is_live (qs : list (option seqst)) (r : nat) : Prop := exists k q, get_seq qs k = Some q /\ q_req q = r.

  Definition live3 (l : list event) (q : seqst) : Prop :=
    exists W0, In (EvSubmit (q_req q) W0 (q_keep q) (q_npredict q) (q_stops q)) l /\
      let n := nsamples (q_req q) l in
      q_npredicted q = Z.of_nat n /\ q_pend q = ref_pend (q_keep q) W0 (q_stops q) n /\
      runs_to (q_keep q) W0 (q_npredict q) (q_stops q) n /\
      (forall j, (j < n)%nat -> ends_stop (q_keep q) W0 (q_stops q) j = false).

  Definition done3 (l : list event) (r : nat) (rs : reason) : Prop :=
    forall W0 keep np stops, In (EvSubmit r W0 keep np stops) l ->
      let n := nsamples r l in
      (1 <= n)%nat /\ runs_to keep W0 np stops n /\
      match rs with
      | DoneStop => ends_stop keep W0 stops (n - 1) = true
      | DoneLength => ends_stop keep W0 stops (n - 1) = false /\ ends_length np (n - 1) = true
      end.

  Definition inv3 (st : state) : Prop :=
    (forall k q, get_seq (seqs st) k = Some q -> live3 (log st) q) /\
    (forall r rs, In (EvDone r rs) (log st) -> done3 (log st) r rs /\ ~ is_live (seqs st) r) /\
    (forall r W0 keep np stops, In (EvSubmit r W0 keep np stops) (log st) ->
       is_live (seqs st) r \/ exists rs, In (EvDone r rs) (log st)).

  Lemma at_limit_ends q n : q_npredicted q = Z.of_nat n -> (1 <= n)%nat -> at_limit q = ends_length (q_npredict q) (n - 1).
  Proof. intros H Hn. unfold at_limit, ends_length. rewrite H. replace (S (n - 1)) with n by lia. reflexivity. Qed.
  Lemma at_limit_zero q : q_npredicted q = 0 -> at_limit q = false.
  Proof. intro H. unfold at_limit. rewrite H. lia. Qed.

  (** * what build_one does to a sequence's counters: nothing *)
  Definition same_params (q q' : seqst) : Prop :=
    q_req q' = q_req q /\ q_keep q' = q_keep q /\ q_npredict q' = q_npredict q /\ q_npredicted q' = q_npredicted q /\
    q_pend q' = q_pend q /\ q_stops q' = q_stops q.

  Lemma build_one_params p idx p' :
    build_one cfg p idx = POk p' ->
    (forall k q', get_seq (p_seqs p') k = Some q' -> exists q, get_seq (p_seqs p) k = Some q /\ same_params q q' /\ (k = idx -> at_limit q = false)) /\
    (forall k q, get_seq (p_seqs p) k = Some q -> get_seq (p_seqs p') k = None -> k = idx /\ at_limit q = true /\ p_log p' = p_log p ++ [EvDone (q_req q) DoneLength]) /\
    (p_log p' = p_log p \/ exists q, get_seq (p_seqs p) idx = Some q /\ at_limit q = true /\ get_seq (p_seqs p') idx = None /\
                                   p_log p' = p_log p ++ [EvDone (q_req q) DoneLength]).
  Proof.
    unfold build_one. fold (get_seq (p_seqs p) idx).
    destruct (get_seq (p_seqs p) idx) as [q|] eqn:Eq.
    2:{ intro H. injection H as <-. split; [|split; [|left; reflexivity]].
        - intros k q' E. exists q'. split; [auto|]. split; [repeat split; reflexivity|]. intros ->. congruence.
        - intros k q E1 E2. congruence. }
    pose proof (get_seq_lt _ _ _ Eq) as Hidx.
    destruct (at_limit q) eqn:El.
    - intro H. injection H as <-. cbn [p_seqs p_log]. split; [|split].
      + intros k q' E. destruct (Nat.eq_dec idx k) as [->|Hk]; [rewrite get_seq_set_same in E by auto; discriminate|].
        rewrite get_seq_set_other in E by auto. exists q'. split; [auto|]. split; [repeat split; reflexivity|]. intros ->. congruence.
      + intros k q0 E1 E2. destruct (Nat.eq_dec idx k) as [->|Hk].
        * rewrite Eq in E1. injection E1 as <-. auto.
        * rewrite get_seq_set_other in E2 by auto. congruence.
      + right. exists q. split; [auto|]. split; [auto|]. split; [apply get_seq_set_same; auto|reflexivity].
    - destruct (build_seq cfg idx (q_slot q) (q_keep q) (q_inputs q) 0 _) as [b'|]; [|discriminate].
      intro H. injection H as <-. cbn [p_seqs p_log]. split; [|split; [|left; reflexivity]].
      + intros k q' E. destruct (Nat.eq_dec idx k) as [<-|Hk].
        * rewrite get_seq_set_same in E by auto. injection E as <-. exists q. split; [auto|]. split; [repeat split; reflexivity|auto].
        * rewrite get_seq_set_other in E by auto. exists q'. split; [auto|]. split; [repeat split; reflexivity|]. intros ->. congruence.
      + intros k q0 E1 E2. destruct (Nat.eq_dec idx k) as [<-|Hk].
        * rewrite get_seq_set_same in E2 by auto. discriminate.
        * rewrite get_seq_set_other in E2 by auto. congruence.
  Qed.

  Lemma same_params_limit q q' : same_params q q' -> at_limit q' = at_limit q.
  Proof. intros (_ & _ & A & B & _). unfold at_limit. rewrite A, B. reflexivity. Qed.
  Lemma same_params_trans a b c : same_params a b -> same_params b c -> same_params a c.
  Proof. unfold same_params. intros (A1 & A2 & A3 & A4 & A5 & A6) (B1 & B2 & B3 & B4 & B5 & B6). repeat split; congruence. Qed.

  Definition limit_events (qs qs' : list (option seqst)) (ext : list event) : Prop :=
    forall e, In e ext -> exists k q, get_seq qs k = Some q /\ get_seq qs' k = None /\ at_limit q = true /\ e = EvDone (q_req q) DoneLength.

  Lemma build_all_params order : forall p p',
    build_all cfg p order = POk p' ->
    (forall k q', get_seq (p_seqs p') k = Some q' ->
       exists q, get_seq (p_seqs p) k = Some q /\ same_params q q' /\ (In k order -> at_limit q = false)) /\
    (exists ext, p_log p' = p_log p ++ ext /\ limit_events (p_seqs p) (p_seqs p') ext) /\
    (forall k q, get_seq (p_seqs p) k = Some q -> get_seq (p_seqs p') k = None ->
       at_limit q = true /\ In (EvDone (q_req q) DoneLength) (p_log p')).
  Proof.
    induction order as [|idx order IH]; intros p p' H; cbn [build_all] in H.
    - injection H as <-. split; [|split].
      + intros k q' E. exists q'. split; [auto|]. split; [repeat split; reflexivity|intros []].
      + exists []. rewrite app_nil_r. split; [reflexivity|intros e []].
      + intros k q E1 E2. congruence.
    - destruct (build_one cfg p idx) as [p1|] eqn:E1; [|discriminate].
      destruct (build_one_params p idx p1 E1) as (A1 & A2 & A3).
      destruct (IH p1 p' H) as (B1 & (ext2 & L2 & D2) & B3).
      assert (Hmono : forall k, get_seq (p_seqs p) k = None -> get_seq (p_seqs p1) k = None).
      { intros k Hn. destruct (get_seq (p_seqs p1) k) as [q1|] eqn:E; [|auto]. destruct (A1 k q1 E) as (q0 & E0 & _). congruence. }
      assert (Hmono2 : forall k, get_seq (p_seqs p1) k = None -> get_seq (p_seqs p') k = None).
      { intros k Hn. destruct (get_seq (p_seqs p') k) as [q1|] eqn:E; [|auto]. destruct (B1 k q1 E) as (q0 & E0 & _). congruence. }
      split; [|split].
      + intros k q' E. destruct (B1 k q' E) as (q1 & G1 & S1 & L1). destruct (A1 k q1 G1) as (q0 & G0 & S0 & L0).
        exists q0. split; [auto|]. split; [eapply same_params_trans; eauto|].
        intros [<-|Hin]; [auto|]. rewrite <- (same_params_limit _ _ S0). auto.
      + destruct A3 as [A3|(q & G & Lq & Gn & A3)].
        * exists ext2. rewrite L2, A3. split; [reflexivity|].
          intros e He. destruct (D2 e He) as (k & q1 & G1 & Gn & Lq & ->). destruct (A1 k q1 G1) as (q0 & G0 & S0 & _).
          exists k, q0. split; [auto|]. split; [auto|]. split; [rewrite <- (same_params_limit _ _ S0); auto|]. destruct S0 as (-> & _). reflexivity.
        * exists ([EvDone (q_req q) DoneLength] ++ ext2). rewrite L2, A3, <- app_assoc. split; [reflexivity|].
          intros e He. apply in_app_or in He as [[<-|[]]|He].
          -- exists idx, q. auto.
          -- destruct (D2 e He) as (k & q1 & G1 & Gn' & Lq' & ->). destruct (A1 k q1 G1) as (q0 & G0 & S0 & _).
             exists k, q0. split; [auto|]. split; [auto|]. split; [rewrite <- (same_params_limit _ _ S0); auto|]. destruct S0 as (-> & _). reflexivity.
      + intros k q G Gn. destruct (get_seq (p_seqs p1) k) as [q1|] eqn:G1.
        * destruct (A1 k q1 G1) as (q0 & G0 & S0 & _). rewrite G in G0. injection G0 as <-.
          destruct (B3 k q1 G1 Gn) as [Lq Hin]. split; [rewrite <- (same_params_limit _ _ S0); auto|]. destruct S0 as (<- & _). auto.
        * destruct (A2 k q G G1) as (-> & Lq & Lg). split; [auto|]. rewrite L2, Lg. apply in_or_app. left. apply in_or_app. right. left. reflexivity.
  Qed.

  Lemma visit_order_complete n next k : (k < n)%nat -> In k (visit_order n next).
  Proof.
    intro Hk.
    assert (Hincl : incl (visit_order n next) (seq 0 n)).
    { intros x Hx. unfold visit_order in Hx. apply in_map_iff in Hx as (y & <- & Hy). apply in_seq in Hy. apply in_seq.
      split; [lia|]. cbn. apply Nat.mod_upper_bound. lia. }
    assert (Hlen : (length (seq 0 n) <= length (visit_order n next))%nat).
    { unfold visit_order. rewrite map_length. lia. }
    apply (NoDup_length_incl (visit_order_nodup n next) Hlen Hincl). apply in_seq. lia.
  Qed.

  (** * the shape of what post_one does, in terms of the reference *)
  Lemma sample_at_ref kv' b s q l W0 :
    fwd_view cfg kv' q (s_inputs s) -> q_pending q <> [] ->
    seq_ref_w F cfg l (s_inputs s) q W0 -> out_entry b (s_inputs s) q -> q_inputs q = [] ->
    let n := nsamples (q_req q) l in
    sample_at F cfg kv' b (q_ibatch q) = (ref_tok F cfg (q_keep q) W0 n, ref_vis cfg (ref_win F cfg (q_keep q) W0 n)).
  Proof.
    intros (lo & Hlo & Hlo1 & Hv) Hne (Hsub & HW0 & Hw) Hout Ei n.
    assert (HCW : s_inputs s ++ q_pending q = ref_win F cfg (q_keep q) W0 n).
    { destruct Hw as [Hw|(_ & t & Ht & _)]; [|congruence]. rewrite Ei, app_nil_r in Hw. exact Hw. }
    destruct (Hout Ei) as (e & E1 & E2 & E3).
    unfold sample_at. rewrite E1, E2, E3.
    replace (zlen (s_inputs s) + zlen (q_pending q) - 1) with (zlen (s_inputs s ++ q_pending q) - 1) by (rewrite zlen_app; lia).
    rewrite (visible_c_wenum cfg kv' (q_slot q) lo _ Hv (Hlo1 Hne)), sort_vis_ref_vis, HCW. reflexivity.
  Qed.

  Lemma post_one3 kv' b s q l W0 :
    fwd_view cfg kv' q (s_inputs s) -> (q_inputs q = [] -> q_pending q <> []) ->
    seq_ref_w F cfg l (s_inputs s) q W0 -> out_entry b (s_inputs s) q ->
    let r := q_req q in let n := nsamples r l in
    q_npredicted q = Z.of_nat n -> q_pend q = ref_pend (q_keep q) W0 (q_stops q) n ->
    match post_one F cfg kv' b s q with
    | QPanic => True
    | QOk s' q' ev =>
        match q_inputs q with
        | _ :: _ => ev = [] /\ exists q1, q' = Some q1 /\ same_params q q1
        | [] =>
            let t := ref_tok F cfg (q_keep q) W0 n in
            let vis := ref_vis cfg (ref_win F cfg (q_keep q) W0 n) in
            if ends_stop (q_keep q) W0 (q_stops q) n
            then q' = None /\ ev = [EvSample r t vis; EvDone r DoneStop]
            else ev = [EvSample r t vis] /\
                 exists q1, q' = Some q1 /\ q_req q1 = r /\ q_keep q1 = q_keep q /\ q_npredict q1 = q_npredict q /\
                            q_stops q1 = q_stops q /\ q_npredicted q1 = Z.of_nat (S n) /\
                            q_pend q1 = ref_pend (q_keep q) W0 (q_stops q) (S n)
        end
    end.
  Proof.
    intros Hv Hne Hw Hout r n Hnp Hpend.
    assert (Hsam : q_inputs q = [] -> sample_at F cfg kv' b (q_ibatch q) = (ref_tok F cfg (q_keep q) W0 n, ref_vis cfg (ref_win F cfg (q_keep q) W0 n))).
    { intro Ei. exact (sample_at_ref kv' b s q l W0 Hv (Hne Ei) Hw Hout Ei). }
    unfold post_one. destruct (q_inputs q) as [|x rest] eqn:Ei.
    2:{ split; [reflexivity|]. eexists. split; [reflexivity|]. repeat split; reflexivity. }
    rewrite (Hsam eq_refl). set (t := ref_tok F cfg (q_keep q) W0 n).
    unfold ends_stop, stops_at. fold t. rewrite <- Hpend.
    destruct ((0 <=? eosTok cfg) && (t =? eosTok cfg)); cbn [orb]; [auto|].
    destruct (find_stop (concat (q_pend q ++ [piece_of t])) (q_stops q)).
    - destruct (truncate_stop (q_pend q ++ [piece_of t]) s0) as [pend' trunc]. auto.
    - split; [reflexivity|]. eexists. split; [reflexivity|]. cbn [q_req q_keep q_npredict q_stops q_npredicted q_pend].
      repeat split; auto; try lia.
      cbn [ref_pend]. fold t. rewrite <- Hpend. unfold pend_next, held. reflexivity.
  Qed.

  (** * which events a batch appends *)
  Lemma post_all_events_in kv' b qs : forall sl sl' qs' ev,
    post_all F cfg kv' b sl qs = Some (sl', qs', ev) ->
    (forall k1 k2 q1 q2, get_seq qs k1 = Some q1 -> get_seq qs k2 = Some q2 -> q_slot q1 = q_slot q2 -> k1 = k2) ->
    (forall k q, get_seq qs k = Some q -> (q_slot q < length sl)%nat) ->
    forall e, In e ev <->
      exists k q s' ev1, get_seq qs k = Some q /\ post_one F cfg kv' b (nth_slot sl (q_slot q)) q = QOk s' (get_seq qs' k) ev1 /\ In e ev1.
  Proof.
    induction qs as [|o r IH]; intros sl sl' qs' ev H Huniq Hlt e; cbn [post_all] in H.
    - injection H as <- <- <-. split; [intros []|]. intros (k & q & _ & _ & E & _). destruct k; discriminate.
    - assert (Huniq' : forall k1 k2 q1 q2, get_seq r k1 = Some q1 -> get_seq r k2 = Some q2 -> q_slot q1 = q_slot q2 -> k1 = k2).
      { intros k1 k2 q1 q2 E1 E2 Hs. specialize (Huniq (S k1) (S k2) q1 q2 E1 E2 Hs). lia. }
      destruct o as [q0|].
      + destruct (post_one F cfg kv' b (nth_slot sl (q_slot q0)) q0) as [s1 q0' ev1|] eqn:E1; [|discriminate].
        destruct (post_all F cfg kv' b (set_nth sl (q_slot q0) s1) r) as [[[sl2 r'] ev2]|] eqn:E2; [|discriminate].
        injection H as <- <- <-.
        assert (Hne : forall k q, get_seq r k = Some q -> q_slot q0 <> q_slot q).
        { intros k q E Hs. specialize (Huniq 0%nat (S k) q0 q eq_refl E Hs). discriminate. }
        pose proof (IH _ _ _ _ E2 Huniq' ltac:(intros k q E; rewrite set_nth_length; apply (Hlt (S k) q E)) e) as IHe.
        split.
        * intro He. apply in_app_or in He as [He|He].
          -- exists 0%nat, q0, s1, ev1. auto.
          -- apply IHe in He as (k & q & s' & ev' & G & P & Hin). exists (S k), q, s', ev'. split; [auto|]. split; [|auto].
             rewrite nth_slot_set_other in P by (eapply Hne; eauto). exact P.
        * intros ([|k] & q & s' & ev' & G & P & Hin).
          -- cbn in G. injection G as <-. cbn [get_seq nth] in P. rewrite E1 in P. injection P as <- <-. apply in_or_app. auto.
          -- apply in_or_app. right. apply IHe. exists k, q, s', ev'. split; [exact G|]. split; [|auto].
             rewrite nth_slot_set_other by (eapply Hne; eauto). exact P.
      + destruct (post_all F cfg kv' b sl r) as [[[sl2 r'] ev2]|] eqn:E2; [|discriminate].
        injection H as <- <- <-.
        pose proof (IH _ _ _ _ E2 Huniq' ltac:(intros k q E; apply (Hlt (S k) q E)) e) as IHe.
        split.
        * intro He. apply IHe in He as (k & q & s' & ev' & G & P & Hin). exists (S k), q, s', ev'. auto.
        * intros ([|k] & q & s' & ev' & G & P & Hin); [discriminate|]. apply IHe. exists k, q, s', ev'. auto.
  Qed.

  (** * log extension lemmas for the third layer *)
  Lemma nsamples_ext l ext r : samples_of r ext = [] -> nsamples r (l ++ ext) = nsamples r l.
  Proof. intro H. unfold nsamples. rewrite samples_of_app, H, app_nil_r. reflexivity. Qed.

  Lemma live3_ext l ext q q' :
    same_params q q' -> samples_of (q_req q) ext = [] -> live3 l q -> live3 (l ++ ext) q'.
  Proof.
    intros (S1 & S2 & S3 & S4 & S5 & S6) Hs (W0 & Hin & Hn & Hp & Hr & He).
    exists W0. rewrite S1, S2, S3, S4, S5, S6. split; [apply in_or_app; auto|]. cbn zeta in *.
    rewrite (nsamples_ext l ext (q_req q) Hs). auto.
  Qed.

  Lemma done3_ext l ext r rs : samples_of r ext = [] -> no_submit ext -> done3 l r rs -> done3 (l ++ ext) r rs.
  Proof.
    intros Hs Hn Hd W0 keep np stops Hin. apply in_app_or in Hin as [Hin|Hin]; [|exfalso; apply (Hn _ Hin)].
    cbn zeta. rewrite (nsamples_ext l ext r Hs). apply (Hd W0 keep np stops Hin).
  Qed.

  (** * processBatch preserves the third layer *)
  Lemma process_batch_inv3 st : inv cfg st -> inv2 F cfg st -> inv3 st -> inv3 (fst (process_batch F cfg st)).
  Proof.
    intros [Hm Hin] (H2 & Hlok & Hlid & Hrlt) (T1 & T2 & T3). unfold process_batch.
    destruct (all_nil (seqs st)); [exact (conj T1 (conj T2 T3))|].
    set (p0 := mkP (slots st) (kv st) (seqs st) [] 0 None (log st)).
    destruct (build_all2 F cfg Hwin (visit_order (length (seqs st)) (nextSeq st)) p0) as (p & E & Hmp & H2p & (ext & Lext & Dext) & Qreq).
    { apply visit_order_nodup. }
    { exact Hm. }
    { intros i0 _ q Hq. split; [eapply live_pending_nil; eapply (mo_live _ _ _ _ _ Hm); eauto|eapply Hin; eauto]. }
    { exact H2. }
    destruct (build_all_params _ _ _ E) as (A1 & (ext' & Lext' & Dlim) & A3).
    cbn [p_log p_seqs p0] in Lext, Dext, Qreq, A1, Lext', Dlim, A3.
    assert (ext' = ext) by (rewrite Lext in Lext'; apply app_inv_head in Lext'; auto). subst ext'. clear Lext'.
    assert (Hext_s : forall r, samples_of r ext = []) by (intro r; eapply only_done_samples; eauto).
    assert (Hext_n : no_submit ext) by (eapply only_done_no_submit; eauto).
    assert (Hlidp : log_ids (p_log p) (nreq st)).
    { rewrite Lext. apply log_ids_ext; auto. intros e He. destruct (Dext e He) as (k & q & rs & G & ->). cbn. eapply Hrlt; eauto. }
    (* the mid state satisfies the third layer, and no live sequence is at its limit *)
    assert (M1 : forall k q', get_seq (p_seqs p) k = Some q' -> live3 (p_log p) q' /\ at_limit q' = false).
    { intros k q' G'. destruct (A1 k q' G') as (q & G & Sp & Lim). split.
      - rewrite Lext. eapply live3_ext; eauto.
      - rewrite (same_params_limit _ _ Sp). apply Lim. apply visit_order_complete. apply get_seq_lt in G. exact G. }
    assert (Hlive_back : forall r, is_live (p_seqs p) r -> is_live (seqs st) r).
    { intros r (k & q' & G' & Hr). destruct (A1 k q' G') as (q & G & (Sr & _) & _). exists k, q. split; [auto|congruence]. }
    assert (M2 : forall r rs, In (EvDone r rs) (p_log p) -> done3 (p_log p) r rs /\ ~ is_live (p_seqs p) r).
    { intros r rs Hd. rewrite Lext in Hd. apply in_app_or in Hd as [Hd|Hd].
      - destruct (T2 r rs Hd) as [D1 D2]. split; [rewrite Lext; apply done3_ext; auto|]. intro Hl. apply D2. auto.
      - destruct (Dlim _ Hd) as (k & q & G & Gn & Lq & Heq). injection Heq as -> ->.
        destruct (T1 k q G) as (W0 & Hsub & Hn & Hp & Hr & He). cbn zeta in *. split.
        + intros W0' keep' np' stops' Hsub'. rewrite Lext in Hsub'. apply in_app_or in Hsub' as [Hsub'|Hsub']; [|exfalso; apply (Hext_n _ Hsub')].
          destruct Hlid as [_ Huniq]. destruct (Huniq _ _ _ _ _ _ _ _ _ Hsub' Hsub) as (-> & -> & -> & ->).
          cbn zeta. rewrite Lext, (nsamples_ext _ _ _ (Hext_s _)).
          set (n := nsamples (q_req q) (log st)) in *.
          assert (Hn1 : (1 <= n)%nat). { unfold at_limit in Lq. rewrite Hn in Lq. lia. }
          split; [auto|]. split; [auto|]. split; [apply He; lia|]. rewrite <- (at_limit_ends q n Hn Hn1). exact Lq.
        + intros (k2 & q2 & G2 & Hr2). destruct (A1 k2 q2 G2) as (q20 & G20 & (Sr & _) & _).
          assert (k2 = k) by (eapply (m2_req _ _ _ _ _ _ _ H2); eauto; congruence). subst k2. congruence. }
    assert (M3 : forall r W0 keep np stops, In (EvSubmit r W0 keep np stops) (p_log p) ->
                   is_live (p_seqs p) r \/ exists rs, In (EvDone r rs) (p_log p)).
    { intros r W0 keep np stops Hsub. rewrite Lext in Hsub. apply in_app_or in Hsub as [Hsub|Hsub]; [|exfalso; apply (Hext_n _ Hsub)].
      destruct (T3 _ _ _ _ _ Hsub) as [(k & q & G & Hr)|(rs & Hd)].
      - destruct (get_seq (p_seqs p) k) as [q'|] eqn:G'.
        + left. destruct (A1 k q' G') as (q0 & G0 & (Sr & _) & _). rewrite G in G0. injection G0 as <-. exists k, q'. split; [auto|congruence].
        + right. destruct (A3 k q G G') as [_ Hd]. exists DoneLength. rewrite <- Hr. exact Hd.
      - right. exists rs. rewrite Lext. apply in_or_app. auto. }
    rewrite E. destruct (p_batch p) as [|e0 b0] eqn:Eb.
    { cbn [fst]. unfold inv3. cbn [seqs log]. split; [intros k q G; apply (M1 k q G)|split; [exact M2|exact M3]]. }
    rewrite <- Eb in Hmp, H2p |- *.
    destruct (kv_full cfg (kv_evict cfg (p_kv p) (p_batch p)) (p_batch p)); [exact (conj T1 (conj T2 T3))|].
    set (kv' := kv_forward (kv_evict cfg (p_kv p) (p_batch p)) (p_batch p)).
    destruct (post_all F cfg kv' (p_batch p) (p_slots p) (p_seqs p)) as [[[sl' qs'] ev]|] eqn:EP; [|exact (conj T1 (conj T2 T3))].
    cbn [fst]. destruct (post_all_spec F _ _ _ _ _ _ _ _ EP) as (L1 & L2 & Hfr & Hown & Hnone).
    destruct (post_all_events F cfg _ _ _ _ _ _ _ EP) as (Hevreq & Hevns & Hevown).
    assert (Huslot : forall k1 k2 q1 q2, get_seq (p_seqs p) k1 = Some q1 -> get_seq (p_seqs p) k2 = Some q2 -> q_slot q1 = q_slot q2 -> k1 = k2).
    { apply (mo_inj _ _ _ _ _ Hmp). }
    assert (Hslt : forall k q, get_seq (p_seqs p) k = Some q -> (q_slot q < length (p_slots p))%nat).
    { intros k q G. apply (lo_slot _ _ _ _ _ (mo_live _ _ _ _ _ Hmp k q G)). }
    pose proof (post_all_events_in _ _ _ _ _ _ _ EP Huslot Hslt) as Hevin.
    assert (Hview : forall k q, get_seq (p_seqs p) k = Some q -> fwd_view cfg kv' q (s_inputs (nth_slot (p_slots p) (q_slot q)))).
    { intros k q G. exact (forward_view_live cfg _ _ _ q Hwin (mo_live _ _ _ _ _ Hmp k q G)). }
    assert (Hne : forall k q, get_seq (p_seqs p) k = Some q -> q_inputs q = [] -> q_pending q <> []).
    { intros k q G. apply (lo_nonempty _ _ _ _ _ (mo_live _ _ _ _ _ Hmp k q G)). }
    (* per live sequence: what post_one returned, in the reference's terms *)
    assert (Hpo : forall k q, get_seq (p_seqs p) k = Some q ->
              exists W0 s' ev1,
                In (EvSubmit (q_req q) W0 (q_keep q) (q_npredict q) (q_stops q)) (p_log p) /\
                post_one F cfg kv' (p_batch p) (nth_slot (p_slots p) (q_slot q)) q = QOk s' (get_seq qs' k) ev1 /\
                samples_of (q_req q) ev = samples_of (q_req q) ev1 /\
                let n := nsamples (q_req q) (p_log p) in
                q_npredicted q = Z.of_nat n /\ q_pend q = ref_pend (q_keep q) W0 (q_stops q) n /\
                runs_to (q_keep q) W0 (q_npredict q) (q_stops q) n /\
                (forall j, (j < n)%nat -> ends_stop (q_keep q) W0 (q_stops q) j = false) /\
                match q_inputs q with
                | _ :: _ => ev1 = [] /\ exists q1, get_seq qs' k = Some q1 /\ same_params q q1
                | [] =>
                    let t := ref_tok F cfg (q_keep q) W0 n in
                    let vis := ref_vis cfg (ref_win F cfg (q_keep q) W0 n) in
                    if ends_stop (q_keep q) W0 (q_stops q) n
                    then get_seq qs' k = None /\ ev1 = [EvSample (q_req q) t vis; EvDone (q_req q) DoneStop]
                    else ev1 = [EvSample (q_req q) t vis] /\
                         exists q1, get_seq qs' k = Some q1 /\ q_req q1 = q_req q /\ q_keep q1 = q_keep q /\ q_npredict q1 = q_npredict q /\
                                    q_stops q1 = q_stops q /\ q_npredicted q1 = Z.of_nat (S n) /\
                                    q_pend q1 = ref_pend (q_keep q) W0 (q_stops q) (S n)
                end).
    { intros k q G. destruct (M1 k q G) as [(W0 & Hsub & Hn & Hp & Hr & He) _]. cbn zeta in *.
      destruct (m2_live _ _ _ _ _ _ _ H2p k q G) as [(W0' & Hw) Ho].
      assert (W0' = W0).
      { destruct Hw as (Hsub' & _). destruct Hlidp as [_ Huniq]. destruct (Huniq _ _ _ _ _ _ _ _ _ Hsub' Hsub) as (-> & _). reflexivity. }
      subst W0'.
      destruct (Hown k q G ltac:(intros k2 q2 G2 Hs; eapply Huslot; eauto) (Hslt k q G)) as (s' & ev1 & P1 & P2).
      destruct (Hevown k q G ltac:(intros k2 q2 G2 Hs; eapply Huslot; eauto)
                       ltac:(intros k2 q2 G2 Hs; eapply (m2_req _ _ _ _ _ _ _ H2p); eauto) (Hslt k q G)) as (s'' & ev1' & P1' & P3).
      rewrite P1 in P1'. injection P1' as <- <-.
      exists W0, s', ev1. split; [exact Hsub|]. split; [exact P1|]. split; [exact P3|]. split; [exact Hn|]. split; [exact Hp|]. split; [exact Hr|]. split; [exact He|].
      pose proof (post_one3 kv' (p_batch p) _ q (p_log p) W0 (Hview k q G) (Hne k q G) Hw Ho Hn Hp) as X. rewrite P1 in X.
      destruct (q_inputs q).
      - cbn zeta in X. destruct (ends_stop (q_keep q) W0 (q_stops q) (nsamples (q_req q) (p_log p))).
        + destruct X as [X1 X2]. auto.
        + destruct X as (X1 & q1 & X2 & X3). split; [exact X1|]. exists q1. auto.
      - destruct X as (X1 & q1 & X2 & X3). split; [exact X1|]. exists q1. auto. }
    assert (Hback : forall k q1, get_seq qs' k = Some q1 -> exists q, get_seq (p_seqs p) k = Some q).
    { intros k q1 E1. destruct (get_seq (p_seqs p) k) as [q|] eqn:Eq; [eauto|]. rewrite (Hnone k Eq) in E1. discriminate. }
    assert (Hnl : forall k q n, get_seq (p_seqs p) k = Some q -> q_npredicted q = Z.of_nat n -> (1 <= n)%nat -> ends_length (q_npredict q) (n - 1) = false).
    { intros k q n G Hn Hn1. rewrite <- (at_limit_ends q n Hn Hn1). apply (M1 k q G). }
    assert (Hruns : forall k q W0 n, get_seq (p_seqs p) k = Some q -> q_npredicted q = Z.of_nat n ->
                runs_to (q_keep q) W0 (q_npredict q) (q_stops q) n ->
                (forall j, (j < n)%nat -> ends_stop (q_keep q) W0 (q_stops q) j = false) ->
                runs_to (q_keep q) W0 (q_npredict q) (q_stops q) (S n)).
    { intros k q W0 n G Hn Hr He j Hj. split; [apply He; lia|].
      destruct (Nat.eq_dec (S j) n) as [Hjn|Hjn]; [|apply Hr; lia].
      replace j with (n - 1)%nat by lia. eapply Hnl; eauto. lia. }
    assert (Hlive_back2 : forall r, is_live qs' r -> is_live (p_seqs p) r).
    { intros r (k & q1 & G1 & Hr). destruct (Hback k q1 G1) as (q & G).
      destruct (Hpo k q G) as (W0 & s' & ev1 & _ & _ & _ & _ & _ & _ & _ & X). exists k, q. split; [auto|].
      destruct (q_inputs q).
      - cbn zeta in X. destruct (ends_stop _ _ _ _); [destruct X as [X _]; congruence|].
        destruct X as (_ & q1' & X1 & X2 & _). rewrite G1 in X1. injection X1 as <-. congruence.
      - destruct X as (_ & q1' & X1 & (X2 & _)). rewrite G1 in X1. injection X1 as <-. congruence. }
    assert (Hev_other : forall r, ~ is_live (p_seqs p) r -> samples_of r ev = []).
    { intros r Hnl'. apply samples_of_other. intros e He Hr. apply Hnl'. destruct (Hevreq e He) as (k & q & G & Hrq). exists k, q. split; [auto|congruence]. }
    unfold inv3. cbn [seqs log]. split; [|split].
    - (* live sequences *)
      intros k q1 G1. destruct (Hback k q1 G1) as (q & G).
      destruct (Hpo k q G) as (W0 & s' & ev1 & Hsub & P1 & P3 & Hn & Hp & Hr & He & X). cbn zeta in *.
      set (n := nsamples (q_req q) (p_log p)) in *.
      destruct (q_inputs q).
      + destruct (ends_stop (q_keep q) W0 (q_stops q) n) eqn:Ees; [destruct X as [X _]; congruence|].
        destruct X as (Xe & q1' & X1 & X2 & X3 & X4 & X5 & X6 & X7). rewrite G1 in X1. injection X1 as <-.
        exists W0. rewrite X2, X3, X4, X5. split; [apply in_or_app; auto|]. cbn zeta.
        assert (Hns : nsamples (q_req q) (p_log p ++ ev) = S n).
        { unfold nsamples. rewrite samples_of_app, P3, Xe. cbn [samples_of]. rewrite Nat.eqb_refl, app_length. cbn [length]. fold (nsamples (q_req q) (p_log p)). fold n. lia. }
        rewrite Hns. split; [exact X6|]. split; [exact X7|]. split; [eapply Hruns; eauto|].
        intros j Hj. destruct (Nat.eq_dec j n) as [->|]; [exact Ees|apply He; lia].
      + destruct X as (Xe & q1' & X1 & Sp). rewrite G1 in X1. injection X1 as <-.
        eapply live3_ext; [exact Sp| |exists W0; cbn zeta; fold n; split; [exact Hsub|]; split; [exact Hn|]; split; [exact Hp|]; split; [exact Hr|exact He]]. rewrite P3, Xe. reflexivity.
    - (* finished requests *)
      intros r rs Hd. apply in_app_or in Hd as [Hd|Hd].
      + destruct (M2 r rs Hd) as [D1 D2]. split; [apply done3_ext; auto|]. intro Hl. apply D2. auto.
      + apply Hevin in Hd as (k & q & s' & ev1 & G & P & Hine).
        destruct (Hpo k q G) as (W0 & s'' & ev1' & Hsub & P1 & P3 & Hn & _ & Hr & He & X). cbn zeta in *.
        rewrite P in P1. injection P1 as <- <-.
        set (n := nsamples (q_req q) (p_log p)) in *.
        destruct (q_inputs q).
        2:{ destruct X as (-> & _). destruct Hine. }
        destruct (ends_stop (q_keep q) W0 (q_stops q) n) eqn:Ees.
        2:{ destruct X as (-> & _). destruct Hine as [Hine|[]]. discriminate. }
        destruct X as [Xn ->]. destruct Hine as [Hine|[Hine|[]]]; [discriminate|]. injection Hine as <- <-. split.
        * intros W0' keep' np' stops' Hsub'. apply in_app_or in Hsub' as [Hsub'|Hsub']; [|exfalso; apply (Hevns _ Hsub')].
          destruct Hlidp as [_ Huniq]. destruct (Huniq _ _ _ _ _ _ _ _ _ Hsub' Hsub) as (-> & -> & -> & ->). cbn zeta.
          assert (Hns : nsamples (q_req q) (p_log p ++ ev) = S n).
          { unfold nsamples. rewrite samples_of_app, P3. cbn [samples_of]. rewrite Nat.eqb_refl, app_length. cbn [length]. fold (nsamples (q_req q) (p_log p)). fold n. lia. }
          rewrite Hns. split; [lia|]. split; [eapply Hruns; eauto|]. replace (S n - 1)%nat with n by lia. exact Ees.
        * intros (k2 & q2 & G2 & Hr2). destruct (Hback k2 q2 G2) as (q20 & G20).
          assert (Hr20 : q_req q20 = q_req q).
          { destruct (Hlive_back2 (q_req q2) ltac:(exists k2, q2; auto)) as (k3 & q3 & G3 & Hr3).
            destruct (Hpo k2 q20 G20) as (W2 & s2 & ev2 & _ & _ & _ & _ & _ & _ & _ & X2).
            destruct (q_inputs q20).
            - cbn zeta in X2. destruct (ends_stop (q_keep q20) W2 (q_stops q20) (nsamples (q_req q20) (p_log p))); [destruct X2 as [X2 _]; congruence|].
              destruct X2 as (_ & q1' & Y1 & Y2 & _). rewrite G2 in Y1. injection Y1 as <-. congruence.
            - destruct X2 as (_ & q1' & Y1 & (Y2 & _)). rewrite G2 in Y1. injection Y1 as <-. congruence. }
          assert (k2 = k) by (eapply (m2_req _ _ _ _ _ _ _ H2p); eauto). subst k2. congruence.
    - (* every accepted request is live or finished *)
      intros r W0 keep np stops Hsub. apply in_app_or in Hsub as [Hsub|Hsub]; [|exfalso; apply (Hevns _ Hsub)].
      destruct (M3 _ _ _ _ _ Hsub) as [(k & q & G & Hr)|(rs & Hd)].
      + destruct (Hpo k q G) as (W0q & s' & ev1 & Hsubq & P1 & P3 & Hn & _ & Hrn & He & X). cbn zeta in *.
        destruct (get_seq qs' k) as [q1|] eqn:G1.
        * left. exists k, q1. split; [auto|]. rewrite <- Hr.
          destruct (q_inputs q).
          -- destruct (ends_stop _ _ _ _); [destruct X as [X _]; discriminate|]. destruct X as (_ & q1' & Y1 & Y2 & _). injection Y1 as <-. auto.
          -- destruct X as (_ & q1' & Y1 & (Y2 & _)). injection Y1 as <-. auto.
        * right. exists DoneStop. apply in_or_app. right. apply Hevin. exists k, q, s', ev1. rewrite G1. split; [auto|]. split; [exact P1|].
          destruct (q_inputs q).
          -- destruct (ends_stop _ _ _ _); [destruct X as [_ ->]; rewrite Hr; right; left; reflexivity|].
             destruct X as (_ & q1' & Y1 & _). discriminate.
          -- destruct X as (_ & q1' & Y1 & _). discriminate.
      + right. exists rs. apply in_or_app. auto.
  Qed.

  (** * accepting a request preserves the third layer *)
  Lemma submit_inv3 st prompt np keep stops :
    1 <= numCtx cfg -> inv cfg st -> inv2 F cfg st -> inv3 st -> inv3 (fst (submit cfg st prompt np keep stops)).
  Proof.
    intros Hc [Hm Hin] (H2 & Hlok & Hlid & Hrlt) (T1 & T2 & T3). pose proof (conj T1 (conj T2 T3)) as Hall. unfold submit.
    destruct (new_sequence cfg prompt keep) as [[inputs keep']| |] eqn:EN; try exact Hall.
    destruct (first_free (seqs st) 0) as [idx|] eqn:EF; [|exact Hall].
    apply first_free_spec in EF. rewrite Nat.sub_0_r in EF. destruct EF as [Hidx Hfree]. fold (get_seq (seqs st) idx) in Hfree.
    destruct (load_cache_slot cfg (clock st) (slots st) (kv st) inputs) as [[[[sl kv'] si] rest]| |] eqn:EL; try exact Hall.
    unfold inv3. cbn [fst seqs log].
    set (qn := mkSeq rest [] si np 0 keep' [] stops 0 (nreq st)).
    set (ext := [EvSubmit (nreq st) inputs keep' np stops]).
    destruct Hlid as [Hlt Huniq].
    assert (Hext : forall r, samples_of r ext = []) by (intro r; reflexivity).
    assert (Hfresh : samples_of (nreq st) (log st) = []) by (apply (samples_of_fresh (log st) (nreq st)); auto).
    assert (Hlive_old : forall r, is_live (seqs st) r -> is_live (set_nth (seqs st) idx (Some qn)) r).
    { intros r (k & q & G & Hr). exists k, q. split; [|auto]. rewrite get_seq_set_other; auto. intros ->. congruence. }
    split; [|split].
    - intros k q G. destruct (Nat.eq_dec idx k) as [<-|Hk].
      + rewrite get_seq_set_same in G by lia. injection G as <-. exists inputs. unfold qn. cbn [q_req q_keep q_npredict q_stops q_npredicted q_pend].
        split; [apply in_or_app; right; left; reflexivity|]. cbn zeta.
        assert (Hn0 : nsamples (nreq st) (log st ++ ext) = 0%nat) by (unfold nsamples; rewrite samples_of_app, Hfresh; reflexivity).
        rewrite Hn0. split; [reflexivity|]. split; [reflexivity|]. split; [intros j Hj; lia|intros j Hj; lia].
      + rewrite get_seq_set_other in G by auto. eapply live3_ext; [repeat split; reflexivity|apply Hext|apply (T1 k q G)].
    - intros r rs Hd. apply in_app_or in Hd as [Hd|[Hd|[]]]; [|discriminate].
      destruct (T2 r rs Hd) as [D1 D2]. pose proof (Hlt _ Hd) as Hrlt'. cbn in Hrlt'. split.
      + intros W0 kp np0 sp0 Hsub. apply in_app_or in Hsub as [Hsub|[Hsub|[]]].
        * cbn zeta. rewrite (nsamples_ext _ _ _ (Hext r)). apply (D1 _ _ _ _ Hsub).
        * injection Hsub as Hr0 _ _ _ _. lia.
      + intros (k & q & G & Hr). destruct (Nat.eq_dec idx k) as [<-|Hk].
        * rewrite get_seq_set_same in G by lia. injection G as <-. unfold qn in Hr. cbn in Hr. lia.
        * rewrite get_seq_set_other in G by auto. apply D2. exists k, q. auto.
    - intros r W0 kp np0 sp0 Hsub. apply in_app_or in Hsub as [Hsub|[Hsub|[]]].
      + destruct (T3 _ _ _ _ _ Hsub) as [Hl|(rs & Hd)]; [left; auto|right; exists rs; apply in_or_app; auto].
      + injection Hsub as Hr0 _ _ _ _. subst r. left. exists idx, qn. split; [apply get_seq_set_same; lia|reflexivity].
  Qed.

  Lemma init_inv3 parallel : inv3 (init parallel).
  Proof.
    assert (Hnone : forall idx q, get_seq (repeat None parallel) idx = Some q -> False).
    { intros idx q H. unfold get_seq in H. destruct (Nat.lt_ge_cases idx parallel).
      - rewrite nth_repeat_any in H by auto. discriminate.
      - rewrite nth_overflow in H by (rewrite repeat_length; lia). discriminate. }
    unfold inv3, init. cbn [seqs log]. split; [|split].
    - intros k q G. exfalso. eapply Hnone; eauto.
    - intros r rs [].
    - intros r W0 keep np stops [].
  Qed.

  Lemma run_inv3 st ops :
    1 <= numCtx cfg -> Forall (op_guard cfg) ops -> inv cfg st -> inv2 F cfg st -> inv3 st -> inv3 (run F cfg st ops).
  Proof.
    intro Hc. revert st. induction ops as [|o ops IH]; intros st Hg Hi H2 H3; cbn [run fold_left]; [auto|].
    inversion Hg; subst. apply IH; [auto|apply step_op_inv; auto| |].
    - destruct o; cbn [step_op]; [apply submit_inv2; auto|apply process_batch_inv2; auto].
    - destruct o; cbn [step_op]; [apply submit_inv3; auto|apply process_batch_inv3; auto].
  Qed.

  Lemma reachable_inv3 parallel ops : 1 <= numCtx cfg -> Forall (op_guard cfg) ops -> inv3 (run F cfg (init parallel) ops).
  Proof. intros Hc Hg. apply run_inv3; auto; [apply init_inv|apply init_inv2|apply init_inv3]. Qed.

  (** * two runs of the same request end at the same point *)
  Lemma same_end st1 st2 m1 m2 r1 r2 W0 keep np stops rs1 :
    inv3 st1 -> inv3 st2 -> log_ids (log st1) m1 -> log_ids (log st2) m2 ->
    In (EvSubmit r1 W0 keep np stops) (log st1) -> In (EvSubmit r2 W0 keep np stops) (log st2) ->
    In (EvDone r1 rs1) (log st1) ->
    (nsamples r2 (log st2) <= nsamples r1 (log st1))%nat /\
    (forall rs2, In (EvDone r2 rs2) (log st2) -> nsamples r2 (log st2) = nsamples r1 (log st1) /\ rs2 = rs1).
  Proof.
    intros (A1 & A2 & A3) (B1 & B2 & B3) [_ U1] [_ U2] Hs1 Hs2 Hd1.
    destruct (A2 r1 rs1 Hd1) as [D1 _]. destruct (D1 _ _ _ _ Hs1) as (N1 & R1 & E1). cbn zeta in *.
    set (n1 := nsamples r1 (log st1)) in *. set (n2 := nsamples r2 (log st2)) in *.
    assert (Hterm1 : ends_stop keep W0 stops (n1 - 1) = true \/ ends_length np (n1 - 1) = true).
    { destruct rs1; [left; auto|right; apply E1]. }
    (* whatever the second run has done so far, it has not run past the first run's end *)
    assert (Hrun2 : runs_to keep W0 np stops n2).
    { destruct (B3 _ _ _ _ _ Hs2) as [(k & q & G & Hr)|(rs2 & Hd2)].
      - destruct (B1 k q G) as (W0' & Hsub & Hn & Hp & Hrun & He). cbn zeta in *. rewrite Hr in *.
        destruct (U2 _ _ _ _ _ _ _ _ _ Hsub Hs2) as (E1' & E2' & E3' & E4'). rewrite E1', E2', E3', E4' in Hrun. exact Hrun.
      - destruct (B2 r2 rs2 Hd2) as [D2 _]. destruct (D2 _ _ _ _ Hs2) as (_ & R2 & _). exact R2. }
    assert (Hle : (n2 <= n1)%nat).
    { destruct (Nat.le_gt_cases n2 n1) as [|Hgt]; [auto|exfalso].
      destruct (Hrun2 (n1 - 1)%nat ltac:(lia)) as [X1 X2]. destruct Hterm1; congruence. }
    split; [exact Hle|]. intros rs2 Hd2.
    destruct (B2 r2 rs2 Hd2) as [D2 _]. destruct (D2 _ _ _ _ Hs2) as (N2 & R2 & E2). cbn zeta in *. fold n2 in N2, R2, E2.
    assert (Hterm2 : ends_stop keep W0 stops (n2 - 1) = true \/ ends_length np (n2 - 1) = true).
    { destruct rs2; [left; auto|right; apply E2]. }
    assert (Heq : n2 = n1).
    { destruct (Nat.eq_dec n2 n1) as [|Hne]; [auto|exfalso].
      destruct (R1 (n2 - 1)%nat ltac:(lia)) as [X1 X2]. destruct Hterm2; congruence. }
    split; [exact Heq|]. rewrite Heq in E2.
    destruct rs1, rs2; auto.
    - destruct E2 as [E2 _]. congruence.
    - destruct E1 as [E1 _]. congruence.
  Qed.
End Term.
