(** C07 — exported theorems (statements only; proofs in Proofs*.v).

    Model: Slots/Model.v (runner/ollamarunner/cache.go + the text path of runner.go over the kvcache.Cache
    interface), with fixes/C07-shift-reset.patch applied.  [run F cfg (init parallel) ops] is the state after an
    arbitrary history [ops] of accepted/rejected completion requests ([Submit]) and batches ([Step]); [F] is an
    arbitrary network+sampler (a function of the history the cache exposes); [cfg] carries context size, batch size,
    slot policy, whether the model can shift, whether the cache can erase partially / resume, and the EOS token;
    [parallel] is the number of slots.  All of these are universally quantified. *)
From Coq Require Import List ZArith Bool Arith Lia.
From V Require Import Slots.Model Slots.ProofsKv Slots.ProofsSlots Slots.ProofsBatch.
Import ListNotations.
Open Scope Z_scope.

(** After any history, for every slot: a slot in use holds in the cache exactly its recorded inputs, at positions
    0..n-1, nothing else; an idle slot holds exactly its recorded inputs below position n (it may keep entries at
    positions >= n after a stop sequence shortened the record: LoadCacheSlot erases from numPast <= n on reuse). *)
Theorem C07_slot_matches_cache :
  forall (F : list (Z * tok) -> tok) cfg parallel ops,
    1 <= numCtx cfg ->
    let st := run F cfg (init parallel) ops in
    forall i, (i < length (slots st))%nat ->
      let s := nth_slot (slots st) i in
      filter (fun e => fst e <? zlen (s_inputs s)) (view (kv st) i) = enumerate 0 (s_inputs s) /\
      (s_inuse s = true -> view (kv st) i = enumerate 0 (s_inputs s)).
Proof.
  intros F cfg parallel ops Hc st i Hi. destruct (reachable_inv F cfg parallel ops Hc) as [Hm _].
  exact (inv_slots_ok _ _ _ _ _ Hm i Hi).
Qed.
Print Assumptions C07_slot_matches_cache.

(** LoadCacheSlot never returns a slot whose InUse flag is set — whatever the slots, cache and prompt. *)
Theorem C07_no_double_use :
  forall cfg clk sl kv0 prompt sl' kv' i rest,
    load_cache_slot cfg clk sl kv0 prompt = Ok (sl', kv', i, rest) ->
    (i < length sl)%nat /\ s_inuse (nth_slot sl i) = false.
Proof. exact load_cache_slot_not_inuse. Qed.
Print Assumptions C07_no_double_use.

(** ... and the flag is truthful: after any history, live sequences hold pairwise different slots, each marked in
    use, and a request accepted next gets a slot that no live sequence holds. *)
Theorem C07_no_double_use_reachable :
  forall (F : list (Z * tok) -> tok) cfg parallel ops,
    1 <= numCtx cfg ->
    let st := run F cfg (init parallel) ops in
    (forall i1 i2 q1 q2, nth i1 (seqs st) None = Some q1 -> nth i2 (seqs st) None = Some q2 -> q_slot q1 = q_slot q2 -> i1 = i2) /\
    (forall i q, nth i (seqs st) None = Some q -> s_inuse (nth_slot (slots st) (q_slot q)) = true) /\
    (forall prompt np keep stops idx,
        snd (submit cfg st prompt np keep stops) = RSubmitted idx ->
        exists q, nth idx (seqs (fst (submit cfg st prompt np keep stops))) None = Some q /\
                  forall j q2, nth j (seqs st) None = Some q2 -> q_slot q2 <> q_slot q).
Proof.
  intros F cfg parallel ops Hc st. pose proof (reachable_inv F cfg parallel ops Hc) as Hinv. fold st in Hinv.
  destruct Hinv as [Hm Hin]. split; [|split].
  - exact (mo_inj _ _ _ _ _ Hm).
  - intros i q E. exact (lo_inuse _ _ _ _ _ (mo_live _ _ _ _ _ Hm i q E)).
  - intros prompt np keep stops idx H.
    destruct (submit_fresh_slot cfg st prompt np keep stops idx (conj Hm Hin) H) as (q & E & _ & Hfresh). eauto.
Qed.
Print Assumptions C07_no_double_use_reachable.

(** a full context always frees at least one entry, and never more than what is not kept *)
Theorem C07_shift_discard_bounds :
  forall cfg inputLen numKeep,
    0 <= numKeep < numCtx cfg -> numCtx cfg <= inputLen ->
    1 <= shift_discard cfg inputLen numKeep /\ numKeep + shift_discard cfg inputLen numKeep <= inputLen.
Proof. exact shift_discard_bounds. Qed.
Print Assumptions C07_shift_discard_bounds.
