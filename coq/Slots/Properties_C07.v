(** C07 — exported theorems (statements only; proofs in Proofs*.v). *)
From Coq Require Import List ZArith Bool Arith Lia.
From V Require Import Slots.Model.
Import ListNotations.
Open Scope Z_scope.

(** a full context always frees at least one entry, and never more than what is not kept *)
Theorem C07_shift_discard_bounds :
  forall cfg inputLen numKeep,
    0 <= numKeep < numCtx cfg -> numCtx cfg <= inputLen ->
    1 <= shift_discard cfg inputLen numKeep /\ numKeep + shift_discard cfg inputLen numKeep <= inputLen.
Proof.
  intros cfg inputLen numKeep Hk Hl. unfold shift_discard.
  assert (H: (numCtx cfg - numKeep) / 2 <= numCtx cfg - numKeep) by (apply Z.div_le_upper_bound; lia).
  lia.
Qed.
Print Assumptions C07_shift_discard_bounds.
