(** C07 — exported theorems (statements only; proofs in Proofs*.v).

    Model: Slots/Model.v (runner/ollamarunner/cache.go + the text path of runner.go over the kvcache.Cache
    interface), with fixes/C07-shift-reset.patch applied.  [run F cfg (init parallel) ops] is the state after an
    arbitrary history [ops] of accepted/rejected completion requests ([Submit]) and batches ([Step]); [F] is an
    arbitrary network+sampler (a function of the history the cache exposes); [cfg] carries context size, batch size,
    slot policy, whether the model can shift, whether the cache can erase partially / resume, and the EOS token;
    [parallel] is the number of slots.  All of these are universally quantified.  The theorems over histories carry
    the hypothesis [window cfg = None] (no sliding-window cache); [C07_no_double_use] holds for every cache. *)
From Coq Require Import List ZArith Bool Arith Lia.
From V Require Import Slots.Model Slots.ProofsKv Slots.ProofsSlots Slots.ProofsBatch Slots.ProofsRef Slots.ProofsNoFail Slots.ProofsTerm.
Import ListNotations.
Open Scope Z_scope.

(** After any history, for every slot: a slot in use holds in the cache exactly its recorded inputs, at positions
    0..n-1, nothing else; an idle slot holds exactly its recorded inputs below position n (it may keep entries at
    positions >= n after a stop sequence shortened the record: LoadCacheSlot erases from numPast <= n on reuse). *)
Theorem C07_slot_matches_cache :
  forall (F : list (Z * tok) -> tok) cfg parallel ops,
    1 <= numCtx cfg -> window cfg = None ->
    let st := run F cfg (init parallel) ops in
    forall i, (i < length (slots st))%nat ->
      let s := nth_slot (slots st) i in
      filter (fun e => fst e <? zlen (s_inputs s)) (view (kv st) i) = enumerate 0 (s_inputs s) /\
      (s_inuse s = true -> view (kv st) i = enumerate 0 (s_inputs s)).
Proof.
  intros F cfg parallel ops Hc Hw st i Hi. destruct (reachable_inv F cfg parallel ops Hc Hw) as [Hm _].
  exact (inv_slots_ok _ _ _ _ _ Hm i Hi).
Qed.
Print Assumptions C07_slot_matches_cache.

(** LoadCacheSlot never returns a slot whose InUse flag is set — whatever the slots, cache and prompt. *)
Theorem C07_no_double_use :
  forall cfg clk sl kv0 prompt sl' kv' i rest,
    load_cache_slot cfg clk sl kv0 prompt = Ok (sl', kv', i, rest) ->
    (i < length sl)%nat /\ s_inuse (nth_slot sl i) = false.
Proof. exact load_cache_slot_not_inuse. Qed.
Print Assumptions C07_no_double_use.

(** ... and the flag is truthful: after any history, live sequences hold pairwise different slots, each marked in
    use, and a request accepted next gets a slot that no live sequence holds. *)
Theorem C07_no_double_use_reachable :
  forall (F : list (Z * tok) -> tok) cfg parallel ops,
    1 <= numCtx cfg -> window cfg = None ->
    let st := run F cfg (init parallel) ops in
    (forall i1 i2 q1 q2, nth i1 (seqs st) None = Some q1 -> nth i2 (seqs st) None = Some q2 -> q_slot q1 = q_slot q2 -> i1 = i2) /\
    (forall i q, nth i (seqs st) None = Some q -> s_inuse (nth_slot (slots st) (q_slot q)) = true) /\
    (forall prompt np keep stops idx,
        snd (submit cfg st prompt np keep stops) = RSubmitted idx ->
        exists q, nth idx (seqs (fst (submit cfg st prompt np keep stops))) None = Some q /\
                  forall j q2, nth j (seqs st) None = Some q2 -> q_slot q2 <> q_slot q).
Proof.
  intros F cfg parallel ops Hc Hw st. pose proof (reachable_inv F cfg parallel ops Hc Hw) as Hinv. fold st in Hinv.
  destruct Hinv as [Hm Hin]. split; [|split].
  - exact (mo_inj _ _ _ _ _ Hm).
  - intros i q E. exact (lo_inuse _ _ _ _ _ (mo_live _ _ _ _ _ Hm i q E)).
  - intros prompt np keep stops idx H.
    destruct (submit_fresh_slot cfg st prompt np keep stops idx (conj Hm Hin) H) as (q & E & _ & Hfresh). eauto.
Qed.
Print Assumptions C07_no_double_use_reachable.

(** The effective input of a request is a function of the request alone: [ref_win F cfg keep W0 j] is the window
    from which its j-th token is sampled, where W0 = prompt after truncation, keep = normalised keep count (both
    computed by NewSequence from prompt, keep and the context size: [C07_submit_records_request]); feeding a token
    into a full window first discards [shift_discard] inputs after the first [keep].
    After any history, for every token sampled for any request, the history the cache exposed to the batch entry
    that produced the logits is exactly the enumeration of that window - nothing foreign, nothing missing, every
    position right - and the token is the network's answer to it. *)
Theorem C07_model_sees_effective_input :
  forall (F : list (Z * tok) -> tok) cfg parallel ops,
    1 <= numCtx cfg -> window cfg = None ->
    let st := run F cfg (init parallel) ops in
    forall r W0 keep np stops, In (EvSubmit r W0 keep np stops) (log st) ->
      forall j t vis, nth_error (samples_of r (log st)) j = Some (t, vis) ->
        vis = enumerate 0 (ref_win F cfg keep W0 j) /\ t = F vis.
Proof.
  intros F cfg parallel ops Hc Hw st. destruct (reachable_inv2 F cfg Hw parallel ops Hc) as (_ & Hlok & _). exact Hlok.
Qed.
Print Assumptions C07_model_sees_effective_input.

Theorem C07_submit_records_request :
  forall cfg st prompt np keep stops idx,
    snd (submit cfg st prompt np keep stops) = RSubmitted idx ->
    exists inputs keep', new_sequence cfg prompt keep = Ok (inputs, keep') /\
      log (fst (submit cfg st prompt np keep stops)) = log st ++ [EvSubmit (nreq st) inputs keep' np stops].
Proof. exact submit_logs. Qed.
Print Assumptions C07_submit_records_request.

(** Same as a fresh runner: two requests with the same effective input (same prompt after truncation, same keep), in
    ANY two histories - in particular one of them alone on a fresh server with an empty cache, with any number of
    slots - are given the same tokens, position by position, from the same visible histories. *)
Theorem C07_same_as_fresh :
  forall (F : list (Z * tok) -> tok) cfg, 1 <= numCtx cfg -> window cfg = None ->
    forall parallel ops parallel' ops' r r' W0 keep np stops np' stops',
      let st := run F cfg (init parallel) ops in
      let st' := run F cfg (init parallel') ops' in
      In (EvSubmit r W0 keep np stops) (log st) -> In (EvSubmit r' W0 keep np' stops') (log st') ->
      forall j t vis t' vis',
        nth_error (samples_of r (log st)) j = Some (t, vis) ->
        nth_error (samples_of r' (log st')) j = Some (t', vis') ->
        t = t' /\ vis = vis'.
Proof.
  intros F cfg Hc Hw parallel ops parallel' ops' r r' W0 keep np stops np' stops' st st' H1 H2 j t vis t' vis' E1 E2.
  destruct (C07_model_sees_effective_input F cfg parallel ops Hc Hw r W0 keep np stops H1 j t vis E1) as [A1 A2].
  destruct (C07_model_sees_effective_input F cfg parallel' ops' Hc Hw r' W0 keep np' stops' H2 j t' vis' E2) as [B1 B2].
  subst. auto.
Qed.
Print Assumptions C07_same_as_fresh.

(** ... and they end at the same point: if a request has finished in one history (EOS, stop sequence or numPredict)
    after n tokens, the same request (same effective input, numPredict and stop sequences) in any other history -
    e.g. alone on a fresh runner - never gets more than n tokens, and if it has finished there too it got exactly n
    and finished for the same reason.  ([nsamples r l] = number of tokens sampled for request r in log l.) *)
Theorem C07_same_length_as_fresh :
  forall (F : list (Z * tok) -> tok) cfg, 1 <= numCtx cfg -> window cfg = None ->
    forall parallel ops parallel' ops' r r' W0 keep np stops rs,
      let st := run F cfg (init parallel) ops in
      let st' := run F cfg (init parallel') ops' in
      In (EvSubmit r W0 keep np stops) (log st) -> In (EvSubmit r' W0 keep np stops) (log st') ->
      In (EvDone r rs) (log st) ->
      (nsamples r' (log st') <= nsamples r (log st))%nat /\
      (forall rs', In (EvDone r' rs') (log st') -> nsamples r' (log st') = nsamples r (log st) /\ rs' = rs).
Proof.
  intros F cfg Hc Hw parallel ops parallel' ops' r r' W0 keep np stops rs st st' H1 H2 Hd.
  destruct (reachable_inv2 F cfg Hw parallel ops Hc) as (_ & _ & I1 & _).
  destruct (reachable_inv2 F cfg Hw parallel' ops' Hc) as (_ & _ & I2 & _).
  eapply (same_end F cfg st st'); eauto; apply reachable_inv3; auto.
Qed.
Print Assumptions C07_same_length_as_fresh.

(** non-vacuity: the history that exposes the pinned defect (fork a prefix into the second slot, overflow the fork so
    that the shift fails on shared cells and the inputs are reprocessed), with the harness's network: request 1 is
    accepted, six tokens are sampled for it, and alone on a fresh one-slot server it is given the same six. *)
Definition ex_cfg : config := mkCfg 8 8 true true true true (-1) None.
Definition ex_ops : list op :=
  [Submit [1;2;3;4;5;0] 1 0 []; Step; Step; Submit [1;2;3;4;5;1] 6 0 []] ++ repeat Step 9.
Definition ex_fresh : list op := Submit [1;2;3;4;5;1] 6 0 [] :: repeat Step 9.
Example C07_example_fork_overflow :
  In (EvSubmit 1 [1;2;3;4;5;1] 0 6 []) (log (run (hash_vis 6) ex_cfg (init 2) ex_ops)) /\
  In (EvSubmit 0 [1;2;3;4;5;1] 0 6 []) (log (run (hash_vis 6) ex_cfg (init 1) ex_fresh)) /\
  map fst (samples_of 1 (log (run (hash_vis 6) ex_cfg (init 2) ex_ops))) = [3;1;3;5;4;1] /\
  map fst (samples_of 0 (log (run (hash_vis 6) ex_cfg (init 1) ex_fresh))) = [3;1;3;5;4;1] /\
  In (EvDone 1 DoneLength) (log (run (hash_vis 6) ex_cfg (init 2) ex_ops)) /\
  In (EvDone 0 DoneLength) (log (run (hash_vis 6) ex_cfg (init 1) ex_fresh)) /\
  (* the fork's shift failed: its inputs were emptied and reprocessed *)
  s_inputs (nth_slot (slots (run (hash_vis 6) ex_cfg (init 2) (firstn 8 ex_ops))) 1) = [].
Proof. vm_compute. repeat split; auto; repeat (try (left; reflexivity); right). Qed.

(** non-vacuity of the two slot theorems: with slot 0 in use, the multi-user policy forks its prefix into slot 1; and
    in the middle of the history above (request 0 finished, its slot idle) a second request is accepted. *)
Example C07_example_load :
  exists sl' kv', load_cache_slot ex_cfg 1 [mkSlot [1;2;3] true 1; mkSlot [] false 0]
                                  [mkCell 0 1 [0%nat]; mkCell 1 2 [0%nat]; mkCell 2 3 [0%nat]] [1;2;9]
                  = Ok (sl', kv', 1%nat, [9]) /\ view kv' 1 = [(0,1);(1,2)].
Proof. eexists. eexists. vm_compute. split; reflexivity. Qed.
Example C07_example_submit :
  snd (submit ex_cfg (run (hash_vis 6) ex_cfg (init 2) (firstn 3 ex_ops)) [1;2;3;4;5;1] 6 0 []) = RSubmitted 0.
Proof. vm_compute. reflexivity. Qed.

(** Sliding-window caches (cfg with [window = Some w]) are part of the executable model (eviction in StartForward,
    the window in the mask, CanResume as the window predicate) and are compared with kvcache.NewSWACache on every
    run, but the theorems above are proved for [window = None] only.  This example pins what the model says about
    the position LoadCacheSlot asks CanResume about: window 5, a 7-token prompt evaluated in batches of 2, two
    tokens generated, the same prompt again.  The slot records 8 inputs, the cache still holds positions 2..7;
    resuming at 7 (= len(prompt)) would be possible, but one input must be left to sample, so the slot is resumed at
    6, whose window needs position 1: the model (as the code) asks about 6, gets "no" and reloads from scratch. *)
Definition swa_cfg : config := mkCfg 11 2 false true true true (-1) (Some 5).
Definition swa_ops : list op := Submit [2;0;0;1;0;1;0] 2 0 [] :: repeat Step 6.
Example C07_example_swa_resume_position :
  let st := run (hash_vis 3) swa_cfg (init 2) swa_ops in
  map fst (view (kv st) 0) = [2;3;4;5;6;7] /\
  can_resume swa_cfg (kv st) 0 7 = true /\ can_resume swa_cfg (kv st) 0 6 = false /\
  s_inputs (nth_slot (slots (fst (submit swa_cfg st [2;0;0;1;0;1;0] 1 0 []))) 0) = [].
Proof. vm_compute. repeat split; reflexivity. Qed.

(** what the repair changed: on the same cache state the pinned reset Remove(seq, 0, -1) leaves the fork's sequence
    populated (its first cell is shared, so the scan stops at once) while slot.Inputs is emptied; the repaired reset
    Remove(seq, 0, math.MaxInt32) empties it. *)
Example C07_pinned_reset_leaves_cells :
  let st := run (hash_vis 6) ex_cfg (init 2) (firstn 7 ex_ops) in
  kv_remove_range ex_cfg (kv st) 1 0 4 = None /\
  view (kv_reset_pinned (kv st) 1) 1 = [(0,1);(1,2);(2,3);(3,4);(4,5);(5,1);(6,3);(7,1)] /\
  view (kv_trunc (kv st) 1 0) 1 = [].
Proof. vm_compute. repeat split; auto. Qed.

(** After any history, neither accepting a request nor a batch fails: LoadCacheSlot finds a slot whenever a sequence
    entry is free (no "no available cache slots", no nil dereference in findBestCacheSlot), ShiftCacheSlot's
    "keep exceeds context" is unreachable, and the stop handling never slices with a negative bound (this last part
    is what fixes/C07-stop-trim-negative.patch repairs; a panic in processBatch kills every in-flight request). *)
Theorem C07_no_runner_failure :
  forall (F : list (Z * tok) -> tok) cfg parallel ops o,
    1 <= numCtx cfg -> window cfg = None ->
    match snd (step_op F cfg (run F cfg (init parallel) ops) o) with
    | RPanic | RFatal | RLoadErr => False
    | _ => True
    end.
Proof. intros F cfg parallel ops o Hc Hw. apply step_op_no_failure; auto. apply reachable_inv; auto. Qed.
Print Assumptions C07_no_runner_failure.

(** a full context always frees at least one entry, and never more than what is not kept *)
Theorem C07_shift_discard_bounds :
  forall cfg inputLen numKeep,
    0 <= numKeep < numCtx cfg -> numCtx cfg <= inputLen ->
    1 <= shift_discard cfg inputLen numKeep /\ numKeep + shift_discard cfg inputLen numKeep <= inputLen.
Proof. exact shift_discard_bounds. Qed.
Print Assumptions C07_shift_discard_bounds.
