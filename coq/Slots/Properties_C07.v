(** C07 — exported theorems (statements only; proofs in W*.v / Proofs*.v).

    Model: Slots/Model.v (runner/ollamarunner/cache.go + the text path of runner.go over the kvcache.Cache
    interface), with fixes/C07-shift-reset.patch and fixes/C07-stop-trim-negative.patch applied.
    [run F cfg (init parallel) ops] is the state after an arbitrary history [ops] of accepted/rejected completion
    requests ([Submit]) and batches ([Step]); [F] is an arbitrary network+sampler (a function of the history the cache
    exposes); [cfg] carries context size, batch size, slot policy, whether the model can shift, whether the cache can
    erase partially / resume, the EOS token and the sliding window (None: plain causal cache; Some w:
    kvcache.NewSWACache w); [parallel] is the number of slots.  All of these are universally quantified.

    Hypotheses of the theorems over histories:
    - [1 <= numCtx cfg] (NewInputCache refuses less);
    - [win_ok cfg]: a window size is >= 1;
    - [Forall (op_guard cfg) ops]: on a sliding-window cache every request has keep = 0 (or the cache refuses
      partial erasure).  This is the guard that excludes the known finding C07-swa-middle-remove-* (a context shift
      that keeps a prefix reaches back into evicted cells); without it the statement is false
      ([C07_model_sees_effective_input_refuted]).  Without a window both conditions are vacuous ([no_window_ok]).
    Cache capacity: [cacheCells cfg] (negative = unbounded); a batch that does not fit ends the history with [RCacheFull]
    (state unchanged), see [C07_no_cache_full_refuted].

    Atomicity (a hypothesis built into the transition system): [Submit] is ONE transition - the first free entry of
    s.seqs is chosen, LoadCacheSlot selects the slot, marks it InUse and trims the cache, and the sequence is inserted,
    with no other request and no batch in between - and [Step] (processBatch) is one transition.  In the code this is
    the s.mu critical section of Server.completion and the lock processBatch holds from start to end
    ("Operations on InputCacheSlot (including finding one through LoadCacheSlot) require a lock ... that serializes
    these operations with each other and processBatch", cache.go).  [C07_no_double_use] is about LoadCacheSlot alone;
    [C07_no_double_use_reachable] and every other theorem over histories hold for interleavings of whole transitions
    only.  The concurrent stage of the check (the real completion handler called from several goroutines against
    the real run loop, props/c07.py conc_stage) is what ties this hypothesis to the code. *)
From Coq Require Import List ZArith Bool Arith Lia.
From V Require Import Slots.Model Slots.ProofsKv Slots.ProofsWin Slots.WSlots Slots.WBatch Slots.WRef Slots.WNoFail Slots.WTerm Slots.WCap Slots.Llama Slots.LlamaProofs Slots.Wrap Slots.WWrap.
Import ListNotations.
Open Scope Z_scope.

Lemma no_window_ok cfg ops : window cfg = None -> win_ok cfg /\ Forall (op_guard cfg) ops.
Proof.
  intro H. split; [intros w Hw; congruence|]. apply Forall_forall. intros o _. destruct o; cbn; [left; exact H|exact I].
Qed.

(** After any history, for every slot, the sequence of that slot holds in the cache exactly the recorded inputs from
    some position [lo] on ([wenum lo inputs] = the pairs (p, inputs[p]) for p >= lo):
    - without a sliding window [lo <= 0]: everything;
    - a slot in use holds nothing else, and [lo <= wlo cfg n] = max 0 (n - w): the whole window before its next
      position n is stored;
    - an idle slot may also keep entries at positions >= n after a stop sequence shortened the record (LoadCacheSlot
      erases from numPast <= n on reuse), and on a window cache any suffix (CanResume decides at reuse). *)
Theorem C07_slot_matches_cache :
  forall (F : list (Z * tok) -> tok) cfg parallel ops,
    1 <= numCtx cfg -> win_ok cfg -> Forall (op_guard cfg) ops ->
    let st := run F cfg (init parallel) ops in
    forall i, (i < length (slots st))%nat ->
      let s := nth_slot (slots st) i in
      exists lo, (window cfg = None -> lo <= 0) /\
        filter (fun e => fst e <? zlen (s_inputs s)) (view (kv st) i) = wenum lo (s_inputs s) /\
        (s_inuse s = true -> view (kv st) i = wenum lo (s_inputs s) /\ lo <= wlo cfg (zlen (s_inputs s))).
Proof.
  intros F cfg parallel ops Hc Hw Hg st i Hi. destruct (reachable_inv F cfg parallel ops Hc Hw Hg) as [Hm _].
  exact (inv_slots_ok _ _ _ _ _ Hm i Hi).
Qed.
Print Assumptions C07_slot_matches_cache.

(** the same without a window, in the plain form: exactly the enumeration of the inputs *)
Corollary C07_slot_matches_cache_nowindow :
  forall (F : list (Z * tok) -> tok) cfg parallel ops,
    1 <= numCtx cfg -> window cfg = None ->
    let st := run F cfg (init parallel) ops in
    forall i, (i < length (slots st))%nat ->
      let s := nth_slot (slots st) i in
      filter (fun e => fst e <? zlen (s_inputs s)) (view (kv st) i) = enumerate 0 (s_inputs s) /\
      (s_inuse s = true -> view (kv st) i = enumerate 0 (s_inputs s)).
Proof.
  intros F cfg parallel ops Hc Hn st i Hi s. destruct (no_window_ok cfg ops Hn) as [Hw Hg].
  destruct (C07_slot_matches_cache F cfg parallel ops Hc Hw Hg i Hi) as (lo & Hlo & H1 & H2).
  fold st s in H1, H2. rewrite (wenum_le0 lo) in * by auto. split; [exact H1|]. intro Hu. apply (H2 Hu).
Qed.
Print Assumptions C07_slot_matches_cache_nowindow.

(** LoadCacheSlot never returns a slot whose InUse flag is set — whatever the slots, cache (window or not) and prompt. *)
Theorem C07_no_double_use :
  forall cfg clk sl kv0 prompt sl' kv' i rest,
    load_cache_slot cfg clk sl kv0 prompt = Ok (sl', kv', i, rest) ->
    (i < length sl)%nat /\ s_inuse (nth_slot sl i) = false.
Proof. exact load_cache_slot_not_inuse. Qed.
Print Assumptions C07_no_double_use.

(** ... and the flag is truthful: after any history, live sequences hold pairwise different slots, each marked in
    use, and a request accepted next gets a slot that no live sequence holds. *)
Theorem C07_no_double_use_reachable :
  forall (F : list (Z * tok) -> tok) cfg parallel ops,
    1 <= numCtx cfg -> win_ok cfg -> Forall (op_guard cfg) ops ->
    let st := run F cfg (init parallel) ops in
    (forall i1 i2 q1 q2, nth i1 (seqs st) None = Some q1 -> nth i2 (seqs st) None = Some q2 -> q_slot q1 = q_slot q2 -> i1 = i2) /\
    (forall i q, nth i (seqs st) None = Some q -> s_inuse (nth_slot (slots st) (q_slot q)) = true) /\
    (forall prompt np keep stops idx,
        snd (submit cfg st prompt np keep stops) = RSubmitted idx ->
        exists q, nth idx (seqs (fst (submit cfg st prompt np keep stops))) None = Some q /\
                  forall j q2, nth j (seqs st) None = Some q2 -> q_slot q2 <> q_slot q).
Proof.
  intros F cfg parallel ops Hc Hw Hg st. pose proof (reachable_inv F cfg parallel ops Hc Hw Hg) as Hinv. fold st in Hinv.
  destruct Hinv as [Hm Hin]. split; [|split].
  - exact (mo_inj _ _ _ _ _ Hm).
  - intros i q E. exact (lo_inuse _ _ _ _ _ (mo_live _ _ _ _ _ Hm i q E)).
  - intros prompt np keep stops idx H.
    destruct (submit_fresh_slot cfg st prompt np keep stops idx (conj Hm Hin) H) as (q & E & _ & Hfresh). eauto.
Qed.
Print Assumptions C07_no_double_use_reachable.

(** The effective input of a request is a function of the request alone: [ref_win F cfg keep W0 j] is the list of
    inputs from which its j-th token is sampled, where W0 = prompt after truncation, keep = normalised keep count
    (both computed by NewSequence from prompt, keep and the context size: [C07_submit_records_request]); feeding a
    token into a full context first discards [shift_discard] inputs after the first [keep].  What the network is shown
    of it is [ref_vis cfg W]: every position with its input, restricted to the last w+1 positions on a window cache.
    After any history, for every token sampled for any request, the history the cache exposed to the batch entry that
    produced the logits is exactly that - nothing foreign, nothing missing, every position right - and the token is
    the network's answer to it. *)
Theorem C07_model_sees_effective_input :
  forall (F : list (Z * tok) -> tok) cfg parallel ops,
    1 <= numCtx cfg -> win_ok cfg -> Forall (op_guard cfg) ops ->
    let st := run F cfg (init parallel) ops in
    forall r W0 keep np stops, In (EvSubmit r W0 keep np stops) (log st) ->
      forall j t vis, nth_error (samples_of r (log st)) j = Some (t, vis) ->
        vis = ref_vis cfg (ref_win F cfg keep W0 j) /\ t = F vis.
Proof.
  intros F cfg parallel ops Hc Hw Hg st. destruct (reachable_inv2 F cfg Hw parallel ops Hc Hg) as (_ & Hlok & _). exact Hlok.
Qed.
Print Assumptions C07_model_sees_effective_input.

(** The statement without the guard on window caches is false: with window 3, context 6 and keep 2 the fifth token of
    a lone request is computed without position 1, which lies in its window (the kept prefix was evicted before the
    shift moved the recent entries down).  This is the known finding C07-swa-middle-remove-* / C06-swa-middle-remove. *)
Definition C07_model_sees_effective_input_full : Prop :=
  forall (F : list (Z * tok) -> tok) cfg parallel ops,
    1 <= numCtx cfg -> win_ok cfg ->
    let st := run F cfg (init parallel) ops in
    forall r W0 keep np stops, In (EvSubmit r W0 keep np stops) (log st) ->
      forall j t vis, nth_error (samples_of r (log st)) j = Some (t, vis) ->
        vis = ref_vis cfg (ref_win F cfg keep W0 j) /\ t = F vis.
Definition mid_cfg : config := mkCfg 6 8 false true true true (-1) (Some 3) (-1).
Definition mid_ops : list op := Submit [1;2;3] 8 2 [] :: repeat Step 8.
Theorem C07_model_sees_effective_input_refuted : ~ C07_model_sees_effective_input_full.
Proof.
  intro H.
  assert (Hw : win_ok mid_cfg) by (intros w E; injection E as <-; lia).
  assert (Hc : 1 <= numCtx mid_cfg) by (cbn; lia).
  pose proof (H (hash_vis 6) mid_cfg 1%nat mid_ops Hc Hw) as H1. cbn zeta in H1.
  assert (Hin : In (EvSubmit 0 [1;2;3] 2 8 []) (log (run (hash_vis 6) mid_cfg (init 1) mid_ops))) by (vm_compute; left; reflexivity).
  assert (Hn : nth_error (samples_of 0 (log (run (hash_vis 6) mid_cfg (init 1) mid_ops))) 4 = Some (5, [(2,2);(3,1);(4,3)])) by (vm_compute; reflexivity).
  pose proof (H1 0%nat [1;2;3] 2 8 [] Hin 4%nat 5 [(2,2);(3,1);(4,3)] Hn) as H2.
  destruct H2 as [H2 _]. vm_compute in H2. discriminate.
Qed.
Print Assumptions C07_model_sees_effective_input_refuted.
(** [C07_model_sees_effective_input] above is the partial statement: its guard [Forall (op_guard cfg) ops] excludes
    exactly that class ([C07_guard_satisfiable_window] below shows it is satisfiable on a window cache). *)

Theorem C07_submit_records_request :
  forall cfg st prompt np keep stops idx,
    snd (submit cfg st prompt np keep stops) = RSubmitted idx ->
    exists inputs keep', new_sequence cfg prompt keep = Ok (inputs, keep') /\
      log (fst (submit cfg st prompt np keep stops)) = log st ++ [EvSubmit (nreq st) inputs keep' np stops].
Proof. exact submit_logs. Qed.
Print Assumptions C07_submit_records_request.

(** Same as a fresh runner: two requests with the same effective input (same prompt after truncation, same keep), in
    ANY two histories - in particular one of them alone on a fresh server with an empty cache, with any number of
    slots - are given the same tokens, position by position, from the same visible histories. *)
Theorem C07_same_as_fresh :
  forall (F : list (Z * tok) -> tok) cfg, 1 <= numCtx cfg -> win_ok cfg ->
    forall parallel ops parallel' ops' r r' W0 keep np stops np' stops',
      Forall (op_guard cfg) ops -> Forall (op_guard cfg) ops' ->
      let st := run F cfg (init parallel) ops in
      let st' := run F cfg (init parallel') ops' in
      In (EvSubmit r W0 keep np stops) (log st) -> In (EvSubmit r' W0 keep np' stops') (log st') ->
      forall j t vis t' vis',
        nth_error (samples_of r (log st)) j = Some (t, vis) ->
        nth_error (samples_of r' (log st')) j = Some (t', vis') ->
        t = t' /\ vis = vis'.
Proof.
  intros F cfg Hc Hw parallel ops parallel' ops' r r' W0 keep np stops np' stops' Hg Hg' st st' H1 H2 j t vis t' vis' E1 E2.
  destruct (C07_model_sees_effective_input F cfg parallel ops Hc Hw Hg r W0 keep np stops H1 j t vis E1) as [A1 A2].
  destruct (C07_model_sees_effective_input F cfg parallel' ops' Hc Hw Hg' r' W0 keep np' stops' H2 j t' vis' E2) as [B1 B2].
  subst. auto.
Qed.
Print Assumptions C07_same_as_fresh.

(** ... and they end at the same point: if a request has finished in one history (EOS, stop sequence or numPredict)
    after n tokens, the same request (same effective input, numPredict and stop sequences) in any other history -
    e.g. alone on a fresh runner - never gets more than n tokens, and if it has finished there too it got exactly n
    and finished for the same reason.  ([nsamples r l] = number of tokens sampled for request r in log l.) *)
Theorem C07_same_length_as_fresh :
  forall (F : list (Z * tok) -> tok) cfg, 1 <= numCtx cfg -> win_ok cfg ->
    forall parallel ops parallel' ops' r r' W0 keep np stops rs,
      Forall (op_guard cfg) ops -> Forall (op_guard cfg) ops' ->
      let st := run F cfg (init parallel) ops in
      let st' := run F cfg (init parallel') ops' in
      In (EvSubmit r W0 keep np stops) (log st) -> In (EvSubmit r' W0 keep np stops) (log st') ->
      In (EvDone r rs) (log st) ->
      (nsamples r' (log st') <= nsamples r (log st))%nat /\
      (forall rs', In (EvDone r' rs') (log st') -> nsamples r' (log st') = nsamples r (log st) /\ rs' = rs).
Proof.
  intros F cfg Hc Hw parallel ops parallel' ops' r r' W0 keep np stops rs Hg Hg' st st' H1 H2 Hd.
  destruct (reachable_inv2 F cfg Hw parallel ops Hc Hg) as (_ & _ & I1 & _).
  destruct (reachable_inv2 F cfg Hw parallel' ops' Hc Hg') as (_ & _ & I2 & _).
  eapply (same_end F cfg st st'); eauto; apply reachable_inv3; auto.
Qed.
Print Assumptions C07_same_length_as_fresh.

(** non-vacuity: the history that exposes the pinned defect (fork a prefix into the second slot, overflow the fork so
    that the shift fails on shared cells and the inputs are reprocessed), with the harness's network: request 1 is
    accepted, six tokens are sampled for it, and alone on a fresh one-slot server it is given the same six. *)
Definition ex_cfg : config := mkCfg 8 8 true true true true (-1) None (-1).
Definition ex_ops : list op :=
  [Submit [1;2;3;4;5;0] 1 0 []; Step; Step; Submit [1;2;3;4;5;1] 6 0 []] ++ repeat Step 9.
Definition ex_fresh : list op := Submit [1;2;3;4;5;1] 6 0 [] :: repeat Step 9.
Example C07_example_fork_overflow :
  In (EvSubmit 1 [1;2;3;4;5;1] 0 6 []) (log (run (hash_vis 6) ex_cfg (init 2) ex_ops)) /\
  In (EvSubmit 0 [1;2;3;4;5;1] 0 6 []) (log (run (hash_vis 6) ex_cfg (init 1) ex_fresh)) /\
  map fst (samples_of 1 (log (run (hash_vis 6) ex_cfg (init 2) ex_ops))) = [3;1;3;5;4;1] /\
  map fst (samples_of 0 (log (run (hash_vis 6) ex_cfg (init 1) ex_fresh))) = [3;1;3;5;4;1] /\
  In (EvDone 1 DoneLength) (log (run (hash_vis 6) ex_cfg (init 2) ex_ops)) /\
  In (EvDone 0 DoneLength) (log (run (hash_vis 6) ex_cfg (init 1) ex_fresh)) /\
  (* the fork's shift failed: its inputs were emptied and reprocessed *)
  s_inputs (nth_slot (slots (run (hash_vis 6) ex_cfg (init 2) (firstn 8 ex_ops))) 1) = [].
Proof. vm_compute. repeat split; auto; repeat (try (left; reflexivity); right). Qed.

(** non-vacuity of the two slot theorems: with slot 0 in use, the multi-user policy forks its prefix into slot 1; and
    in the middle of the history above (request 0 finished, its slot idle) a second request is accepted. *)
Example C07_example_load :
  exists sl' kv', load_cache_slot ex_cfg 1 [mkSlot [1;2;3] true 1; mkSlot [] false 0]
                                  [mkCell 0 1 [0%nat]; mkCell 1 2 [0%nat]; mkCell 2 3 [0%nat]] [1;2;9]
                  = Ok (sl', kv', 1%nat, [9]) /\ view kv' 1 = [(0,1);(1,2)].
Proof. eexists. eexists. vm_compute. split; reflexivity. Qed.
Example C07_example_submit :
  snd (submit ex_cfg (run (hash_vis 6) ex_cfg (init 2) (firstn 3 ex_ops)) [1;2;3;4;5;1] 6 0 []) = RSubmitted 0.
Proof. vm_compute. reflexivity. Qed.

(** Sliding-window caches: this example pins what the model says about the position LoadCacheSlot asks CanResume
    about: window 5, a 7-token prompt evaluated in batches of 2, two
    tokens generated, the same prompt again.  The slot records 8 inputs, the cache still holds positions 2..7;
    resuming at 7 (= len(prompt)) would be possible, but one input must be left to sample, so the slot is resumed at
    6, whose window needs position 1: the model (as the code) asks about 6, gets "no" and reloads from scratch. *)
Definition swa_cfg : config := mkCfg 11 2 false true true true (-1) (Some 5) (-1).
Definition swa_ops : list op := Submit [2;0;0;1;0;1;0] 2 0 [] :: repeat Step 6.
Example C07_example_swa_resume_position :
  let st := run (hash_vis 3) swa_cfg (init 2) swa_ops in
  map fst (view (kv st) 0) = [2;3;4;5;6;7] /\
  can_resume swa_cfg (kv st) 0 7 = true /\ can_resume swa_cfg (kv st) 0 6 = false /\
  s_inputs (nth_slot (slots (fst (submit swa_cfg st [2;0;0;1;0;1;0] 1 0 []))) 0) = [].
Proof. vm_compute. repeat split; reflexivity. Qed.

(** what the repair changed: on the same cache state the pinned reset Remove(seq, 0, -1) leaves the fork's sequence
    populated (its first cell is shared, so the scan stops at once) while slot.Inputs is emptied; the repaired reset
    Remove(seq, 0, math.MaxInt32) empties it. *)
Example C07_pinned_reset_leaves_cells :
  let st := run (hash_vis 6) ex_cfg (init 2) (firstn 7 ex_ops) in
  kv_remove_range ex_cfg (kv st) 1 0 4 = None /\
  view (kv_reset_pinned (kv st) 1) 1 = [(0,1);(1,2);(2,3);(3,4);(4,5);(5,1);(6,3);(7,1)] /\
  view (kv_trunc (kv st) 1 0) 1 = [].
Proof. vm_compute. repeat split; auto. Qed.

(** the guard is satisfiable on a window cache: the history of the previous example (keep = 0) *)
Example C07_guard_satisfiable_window : win_ok swa_cfg /\ Forall (op_guard swa_cfg) swa_ops.
Proof.
  split; [intros w E; injection E as <-; lia|].
  apply Forall_forall. intros o Ho. destruct o; cbn; [|exact I].
  destruct Ho as [Ho|Ho]; [injection Ho as _ _ <- _; right; left; reflexivity|].
  apply repeat_spec in Ho. discriminate.
Qed.

(** After any history, neither accepting a request nor a batch fails: LoadCacheSlot finds a slot whenever a sequence
    entry is free (no "no available cache slots", no nil dereference in findBestCacheSlot), ShiftCacheSlot's
    "keep exceeds context" is unreachable, and the stop handling never slices with a negative bound (this last part
    is what fixes/C07-stop-trim-negative.patch repairs; a panic in processBatch kills every in-flight request).
    ([RCacheFull] is a separate outcome: see [C07_no_cache_full_refuted].) *)
Theorem C07_no_runner_failure :
  forall (F : list (Z * tok) -> tok) cfg parallel ops o,
    1 <= numCtx cfg -> win_ok cfg -> Forall (op_guard cfg) ops ->
    match snd (step_op F cfg (run F cfg (init parallel) ops) o) with
    | RPanic | RFatal | RLoadErr => False
    | _ => True
    end.
Proof. intros F cfg parallel ops o Hc Hw Hg. apply step_op_no_failure; auto. apply reachable_inv; auto. Qed.
Print Assumptions C07_no_runner_failure.

(** Capacity.  [cacheCells cfg] is what Causal.Init allocated; a batch whose entries do not fit next to the cells still
    referenced by some sequence makes Forward fail with ErrKvCacheFull ([RCacheFull]; processBatch returns the error
    and the run loop panics).  "It never happens" is false for the allocation of a sliding-window cache
    (maxSequences*window + maxBatch): eviction only touches the sequences of the current batch, so every slot can hold
    window + its last batch.  Witness = known finding C07-swa-capacity: 3 slots, context 6, batch 1, window 3,
    10 cells; four requests, and the 16th operation finds the cache full with every slot record still matching it. *)
Definition C07_no_cache_full_full : Prop :=
  forall (F : list (Z * tok) -> tok) cfg parallel ops o,
    1 <= numCtx cfg -> win_ok cfg -> Forall (op_guard cfg) ops ->
    snd (step_op F cfg (run F cfg (init parallel) ops) o) <> RCacheFull.
Definition cap_cfg : config := mkCfg 6 1 true false true true (-1) (Some 3) 10.
Definition cap_ops : list op :=
  [Submit [4] 3 0 []; Step; Step; Step; Step; Submit [4;2] 3 0 []; Step; Step; Submit [4;2;4;2] 6 0 []; Step; Step;
   Submit [4;2;4;2] 3 0 []; Step; Step; Step].
Theorem C07_no_cache_full_refuted : ~ C07_no_cache_full_full.
Proof.
  intro H.
  assert (Hw : win_ok cap_cfg) by (intros w E; injection E as <-; lia).
  assert (Hc : 1 <= numCtx cap_cfg) by (cbn; lia).
  assert (Hg : Forall (op_guard cap_cfg) cap_ops).
  { apply Forall_forall. intros o Ho. destruct o as [p np k st|]; cbn; [|exact I].
    repeat (destruct Ho as [Ho|Ho]; [try discriminate; injection Ho as _ _ <- _; right; left; reflexivity|]). destruct Ho. }
  apply (H (hash_vis 6) cap_cfg 3%nat cap_ops Step Hc Hw Hg). vm_compute. reflexivity.
Qed.
Print Assumptions C07_no_cache_full_refuted.

(** With an allocation of at least slots x context cells (what Causal.Init gives a cache without window, and what the
    window cache lacks) it never happens: every cell belongs to slot sequences only and no sequence holds more
    cells than the context ([WCap.v]). *)
Theorem C07_no_cache_full_partial :
  forall (F : list (Z * tok) -> tok) cfg parallel ops o,
    1 <= numCtx cfg -> win_ok cfg -> Forall (op_guard cfg) ops ->
    (cacheCells cfg < 0 \/ Z.of_nat parallel * numCtx cfg <= cacheCells cfg) ->
    snd (step_op F cfg (run F cfg (init parallel) ops) o) <> RCacheFull.
Proof. exact step_not_full. Qed.
Print Assumptions C07_no_cache_full_partial.

(** the capacity hypothesis holds for the cache of the first example (2 slots x context 8 = 16 cells) *)
Example C07_capacity_satisfiable : Z.of_nat 2 * numCtx (mkCfg 8 8 true true true true (-1) None 16) <= cacheCells (mkCfg 8 8 true true true true (-1) None 16).
Proof. vm_compute. discriminate. Qed.

(** a full context always frees at least one entry, and never more than what is not kept *)
Theorem C07_shift_discard_bounds :
  forall cfg inputLen numKeep,
    0 <= numKeep < numCtx cfg -> numCtx cfg <= inputLen ->
    1 <= shift_discard cfg inputLen numKeep /\ numKeep + shift_discard cfg inputLen numKeep <= inputLen.
Proof. exact shift_discard_bounds. Qed.
Print Assumptions C07_shift_discard_bounds.

(** * runner/llamarunner/cache.go (Slots/Llama.v: its LoadCacheSlot / findBestCacheSlot fork / ShiftCacheSlot over the
    llama.cpp cache calls, as a transition system of load / decode / shift / stop-trim / release)

    The slot = cache statement for every history of the llamarunner input cache: *)
Definition C07_llama_slot_matches_cache_full : Prop :=
  forall cfg parallel ops, 1 <= numCtx cfg -> window cfg = None ->
    let st := lrun cfg (linit parallel) ops in
    forall i, (i < length (l_slots st))%nat ->
      let s := nth_slot (l_slots st) i in
      filter (fun e => fst e <? zlen (s_inputs s)) (view (l_kv st) i) = enumerate 0 (s_inputs s) /\
      (s_inuse s = true -> view (l_kv st) i = enumerate 0 (s_inputs s)).

(** It is false with the multi-user policy: findBestCacheSlot forks with KvCacheSeqCp, which SHARES the cells between
    the two sequences, and ShiftCacheSlot's KvCacheSeqAdd moves every cell that carries the shifted sequence - also for
    the other sequence (llama_kv_cache_unified::seq_add).  Witness: context 8; [1..6] evaluated in slot 0 and
    released; [1,2,3,4,5,9] forks 5 cells into slot 1 and grows to 8 inputs; the shift (keep 0, discard 4) moves the
    shared cell at position 4 to position 0: slot 0 still records [1..6] but its sequence now has two cells at
    position 0 and none at 4.  (ollamarunner's Go cache refuses such a shift and the inputs are reprocessed.)
    Found by reading + this model; llama.cpp cannot be run here (no model file), so it is not confirmed by execution. *)
Definition ll_cfg : config := mkCfg 8 8 true true true true (-1) None (-1).
Definition ll_ops : list lop :=
  [LLoad [1;2;3;4;5;6] true; LDecode 0 [1;2;3;4;5;6]; LRelease 0; LLoad [1;2;3;4;5;9] true; LDecode 1 [9;7;8]; LShift 1 0].
Theorem C07_llama_slot_matches_cache_refuted : ~ C07_llama_slot_matches_cache_full.
Proof.
  intro H. assert (Hc : 1 <= numCtx ll_cfg) by (cbn; lia).
  pose proof (H ll_cfg 2%nat ll_ops Hc eq_refl 0%nat) as H0. cbn zeta in H0.
  assert (Hlen : (0 < length (l_slots (lrun ll_cfg (linit 2) ll_ops)))%nat) by (vm_compute; lia).
  destruct (H0 Hlen) as [H1 _]. vm_compute in H1. discriminate.
Qed.
Print Assumptions C07_llama_slot_matches_cache_refuted.

(** With the single-user policy (the default: no fork, no shared cell) it holds for every history, context size, keep
    count, with or without shift support / partial erasure. *)
Theorem C07_llama_slot_matches_cache_partial :
  forall cfg parallel ops, window cfg = None -> multiUser cfg = false ->
    let st := lrun cfg (linit parallel) ops in
    forall i, (i < length (l_slots st))%nat ->
      let s := nth_slot (l_slots st) i in
      filter (fun e => fst e <? zlen (s_inputs s)) (view (l_kv st) i) = enumerate 0 (s_inputs s) /\
      (s_inuse s = true -> view (l_kv st) i = enumerate 0 (s_inputs s)).
Proof.
  intros cfg parallel ops Hn Hs st i Hi. destruct (lrun_inv cfg (linit parallel) ops Hn Hs (linit_inv parallel)) as [_ H].
  exact (H i Hi).
Qed.
Print Assumptions C07_llama_slot_matches_cache_partial.

(** non-vacuity: a single-user history with a successful shift *)
Example C07_llama_example :
  let cfg := mkCfg 4 8 false true true true (-1) None (-1) in
  let st := lrun cfg (linit 1) [LLoad [1;2] true; LDecode 0 [1;2]; LDecode 0 [3;4]; LShift 0 1; LDecode 0 [5]] in
  map (fun s => (s_inputs s, s_inuse s)) (l_slots st) = [([1;3;4;5], true)] /\ view (l_kv st) 0 = [(0,1);(1,3);(2,4);(3,5)].
Proof. vm_compute. split; reflexivity. Qed.

(** * A wrapper of caches behind the runner (kvcache/wrapper.go; gemma2/gemma3: sliding-window cache for the local layers +
    causal cache for the global layers)

    Model: Slots/Wrap.v.  [w_run F (w_init cfgs parallel) ops] is the state after a history: one (configuration, single-cache
    state) per wrapped cache; [cfgs] gives every wrapped cache its own window (None: causal) and capacity; the joint
    decisions are WrapperCache.CanResume = conjunction of all answers, a partial Remove succeeds only if it succeeds in
    every cache, StartForward fails if any cache is full; the network [F] is a function of the histories ALL caches expose.

    After any history EVERY wrapped cache holds, for every slot, exactly the recorded inputs from some position [lo] on,
    and for a slot in use nothing else and at least the window before its next position - i.e. exactly what evaluating
    the recorded inputs on a fresh runner leaves in that cache within the window the next token attends to.  In
    particular after a slot is reused (LoadCacheSlot after CanResume = true, on the same slot or on a forked one).
    Hypotheses as for [C07_slot_matches_cache], per wrapped cache.  (That all components carry the same slot records and
    sequences is not part of this statement; it is compared on every run, Slots/Wrap.v [chk_from_w].) *)
Theorem C07_wrapper_slot_matches_every_cache :
  forall (F : list (Z * tok) -> tok) cfgs parallel ops,
    Forall (fun cfg => 1 <= numCtx cfg /\ win_ok cfg) cfgs ->
    Forall (fun o => Forall (fun cfg => op_guard cfg o) cfgs) ops ->
    let cs := w_run F (w_init cfgs parallel) ops in
    map fst cs = cfgs /\
    forall cfg st, In (cfg, st) cs ->
      forall i, (i < length (slots st))%nat ->
        let s := nth_slot (slots st) i in
        exists lo, (window cfg = None -> lo <= 0) /\
          filter (fun e => fst e <? zlen (s_inputs s)) (view (kv st) i) = wenum lo (s_inputs s) /\
          (s_inuse s = true -> view (kv st) i = wenum lo (s_inputs s) /\ lo <= wlo cfg (zlen (s_inputs s))).
Proof.
  intros F cfgs parallel ops Hc Hg cs.
  destruct (w_run_ok F ops (w_init cfgs parallel)) as [Hi He].
  - unfold wcfg_ok, w_init. apply Forall_map. cbn [fst]. exact Hc.
  - rewrite Forall_forall in *. intros o Ho. unfold wguard, w_init. apply Forall_map. cbn [fst]. apply Hg. exact Ho.
  - apply w_init_inv.
  - fold cs in Hi, He. rewrite w_init_cfgs in He. split; [exact He|].
    intros cfg st Hin i Hlt. unfold winv in Hi. rewrite Forall_forall in Hi. destruct (Hi _ Hin) as [Hm _]. cbn [fst snd] in Hm.
    exact (inv_slots_ok _ _ _ _ _ Hm i Hlt).
Qed.
Print Assumptions C07_wrapper_slot_matches_every_cache.

(** The conjunction matters: if a wrapped cache is made to resume whenever SOME wrapped cache says yes ([w_submit_any]:
    "any" instead of "all" in WrapperCache.CanResume), the statement is false.  Witness: window 2 + causal, one slot; a
    request [1;2;3] generates 6 tokens (the window cache then holds positions 6..8 only); a second request shares the
    prefix [1;2;3]: the causal cache says it can resume at 3, the slot records [1;2;3] as cached, Remove(3, end) empties
    the window cache: the local layers see none of the reused prefix. *)
Definition C07_wrapper_resume_any_full : Prop :=
  forall (F : list (Z * tok) -> tok) cfgs parallel ops prompt np keep stops,
    Forall (fun cfg => 1 <= numCtx cfg /\ win_ok cfg) cfgs ->
    Forall (fun o => Forall (fun cfg => op_guard cfg o) cfgs) ops ->
    Forall (fun cfg => shift_guard cfg keep) cfgs ->
    let cs := fst (w_submit_any (w_run F (w_init cfgs parallel) ops) prompt np keep stops) in
    forall cfg st, In (cfg, st) cs -> slots_ok cfg (kv st) (slots st).

Definition wrap_cfgs : list config :=
  [mkCfg 16 4 false true true true (-1) (Some 2) (-1); mkCfg 16 4 false true true true (-1) None (-1)].
Definition wrap_ops : list op := Submit [1; 2; 3] 6 0 [] :: repeat Step 8.

Theorem C07_wrapper_resume_any_refuted : ~ C07_wrapper_resume_any_full.
Proof.
  intro H. pose proof (H (hash_vis 6) wrap_cfgs 1%nat wrap_ops [1; 2; 3; 0] 2 0 []) as H1. clear H.
  assert (Hc : Forall (fun cfg => 1 <= numCtx cfg /\ win_ok cfg) wrap_cfgs).
  { repeat constructor; cbn; try lia; intros w Hw; inversion Hw; lia. }
  assert (G0 : forall cfg, shift_guard cfg 0) by (intro; right; left; reflexivity).
  assert (Hg : Forall (fun o => Forall (fun cfg => op_guard cfg o) wrap_cfgs) wrap_ops).
  { apply Forall_forall. intros o Ho. destruct Ho as [<-|Ho]; [|apply repeat_spec in Ho; subst o];
      apply Forall_forall; intros cfg _; cbn [op_guard]; [apply G0|exact I]. }
  assert (Hk : Forall (fun cfg => shift_guard cfg 0) wrap_cfgs) by (apply Forall_forall; intros; apply G0).
  specialize (H1 Hc Hg Hk). cbv zeta in H1.
  assert (Hf : exists cfg st r,
             fst (w_submit_any (w_run (hash_vis 6) (w_init wrap_cfgs 1) wrap_ops) [1; 2; 3; 0] 2 0 []) = (cfg, st) :: r /\
             window cfg = Some 2 /\ length (slots st) = 1%nat /\ s_inuse (nth_slot (slots st) 0) = true /\
             s_inputs (nth_slot (slots st) 0) = [1; 2; 3] /\ view (kv st) 0 = []).
  { vm_compute. do 3 eexists. split; [reflexivity|]. vm_compute. repeat split; reflexivity. }
  destruct Hf as (cfg & st & r & E & Hw & Hl & Hu & Hin & Hv).
  destruct (H1 cfg st ltac:(rewrite E; left; reflexivity) 0%nat ltac:(lia)) as (lo & _ & _ & Huse).
  destruct (Huse Hu) as [Hview Hlo]. rewrite Hv, Hin in Hview. rewrite Hin in Hlo. unfold wlo in Hlo. rewrite Hw in Hlo.
  change (lo <= Z.max 0 (3 - 2)) in Hlo.
  assert (Hmem : In (2, 3) (wenum lo [1; 2; 3])).
  { unfold wenum. apply filter_In. split; [cbn; auto|]. cbn [fst]. apply Z.leb_le. lia. }
  rewrite <- Hview in Hmem. exact Hmem.
Qed.
Print Assumptions C07_wrapper_resume_any_refuted.

(** with the conjunction the same history is fine: the window cache refuses, the whole prompt is evaluated again *)
Example wrapper_resume_all_reprocesses :
  match fst (w_submit (w_run (hash_vis 6) (w_init wrap_cfgs 1) wrap_ops) [1; 2; 3; 0] 2 0 []) with
  | (_, st) :: _ => s_inputs (nth_slot (slots st) 0) = [] /\ view (kv st) 0 = []
  | [] => False
  end.
Proof. vm_compute. split; reflexivity. Qed.
