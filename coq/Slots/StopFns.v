(** C07 — the helpers of runner/common/stop.go that the stop handling of processBatch uses to decide when a sequence
    ends and how many pending pieces survive (FindStop as repaired by the C14 fix commit: earliest occurrence,
    ContainsStopSuffix, TruncateStop, IncompleteUnicode).  Own copy of the definitions (same text as the C14 model
    coq/Runner/Stop.v, which is tied to the code by C14's differential run); here they are tied again through the
    pendingResponses / slot records compared after every operation by Slots/Corr.v.  Definitions only. *)
From Coq Require Import List NArith Bool Arith.
From V Require Import Common.Bytes.
Import ListNotations.

(** FindStop: the stop whose first occurrence is earliest in [seq]; on equal indices the one listed first. *)
Fixpoint find_stop_best (seq : str) (stops : list str) (best : option (nat * str)) : option (nat * str) :=
  match stops with
  | [] => best
  | s :: rest =>
      let best' :=
        match index_of seq s with
        | Some i => match best with
                    | Some (j, _) => if i <? j then Some (i, s) else best
                    | None => Some (i, s)
                    end
        | None => best
        end in
      find_stop_best seq rest best'
  end.
Definition find_stop (seq : str) (stops : list str) : option str :=
  option_map snd (find_stop_best seq stops None).

(** ContainsStopSuffix: some non-empty prefix of some stop is a suffix of [seq] *)
Fixpoint nonempty_prefixes_aux (acc : str) (s : str) : list str :=
  match s with
  | [] => []
  | c :: s' => (acc ++ [c]) :: nonempty_prefixes_aux (acc ++ [c]) s'
  end.
Definition nonempty_prefixes (s : str) : list str := nonempty_prefixes_aux [] s.
Definition contains_stop_suffix (seq : str) (stops : list str) : bool :=
  existsb (fun stop => existsb (fun p => suffixb p seq) (nonempty_prefixes stop)) stops.

(** TruncateStop *)
Fixpoint resplit (pieces : list str) (rem : str) : list str * bool :=
  match pieces with
  | [] => ([], false)
  | p :: ps =>
      match rem with
      | [] => ([], false)
      | _ :: _ =>
          if length p <=? length rem
          then let '(r, t) := resplit ps (skipn (length p) rem) in (firstn (length p) rem :: r, t)
          else ([rem], true)
      end
  end.
Definition truncate_stop (pieces : list str) (stop : str) : list str * bool :=
  match index_of (concat pieces) stop with
  | None => (pieces, false)
  | Some i => resplit pieces (firstn i (concat pieces))
  end.

(** IncompleteUnicode *)
Fixpoint incomplete_aux (rv : str) (i fuel : nat) : bool :=
  match fuel with
  | 0 => false
  | S f =>
      match rv with
      | [] => false
      | c :: r =>
          if N.eqb (N.land c 192) 128 then incomplete_aux r (S i) f
          else if N.eqb (N.land c 224) 192 then i <? 2
          else if N.eqb (N.land c 240) 224 then i <? 3
          else if N.eqb (N.land c 248) 240 then i <? 4
          else false
      end
  end.
Definition incomplete_unicode (s : str) : bool := incomplete_aux (rev s) 1 4.

