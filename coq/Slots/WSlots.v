(** C07 — the input cache functions (slot choice, LoadCacheSlot, ShiftCacheSlot) preserve the correspondence
    between a slot's recorded inputs and the cache contents of its sequence. *)
From Coq Require Import List ZArith NArith Bool Arith Lia ZifyBool ZifyNat.
From V Require Import Slots.Model Slots.ProofsKv Slots.ProofsWin.
Import ListNotations.
Open Scope Z_scope.

(** * The per-slot correspondence
    A sequence holds the enumeration of its slot's recorded inputs from some position [lo] on ([wenum lo inputs]).
    Without a sliding window [lo <= 0]: everything.  With a window, a slot in use holds at least the window before
    its next position ([lo <= wlo cfg n]); an idle slot holds some suffix (CanResume decides at reuse).  An idle slot
    may also hold cells at positions >= n (the stop handling of processBatch shortens the record without touching the
    cache; LoadCacheSlot erases from numPast <= n before the slot is used again). *)
Definition view_lt (kv0 : kvcache) (i : nat) (n : Z) : list (Z * tok) := filter (fun e => fst e <? n) (view kv0 i).
Definition slot_ok (cfg : config) (kv0 : kvcache) (i : nat) (s : slot) : Prop :=
  exists lo, (window cfg = None -> lo <= 0) /\
    view_lt kv0 i (zlen (s_inputs s)) = wenum lo (s_inputs s) /\
    (s_inuse s = true -> view kv0 i = wenum lo (s_inputs s) /\ lo <= wlo cfg (zlen (s_inputs s))).
Definition slots_ok (cfg : config) (kv0 : kvcache) (sl : list slot) : Prop :=
  forall i, (i < length sl)%nat -> slot_ok cfg kv0 i (nth_slot sl i).

(** window sizes are positive *)
Definition win_ok (cfg : config) : Prop := forall w, window cfg = Some w -> 1 <= w.

Lemma wlo_none cfg n : window cfg = None -> wlo cfg n = 0.
Proof. intro H. unfold wlo. rewrite H. reflexivity. Qed.
Lemma wlo_nonneg cfg n : 0 <= wlo cfg n.
Proof. unfold wlo. destruct (window cfg); lia. Qed.
Lemma wlo_le cfg n : win_ok cfg -> 0 <= n -> wlo cfg n <= n.
Proof. intros Hw Hn. unfold wlo. destruct (window cfg) as [w|] eqn:E; [specialize (Hw w E)|]; lia. Qed.
Lemma wlo_mono cfg n m : n <= m -> wlo cfg n <= wlo cfg m.
Proof. intro H. unfold wlo. destruct (window cfg); lia. Qed.
Lemma lo_none cfg lo n : window cfg = None -> lo <= wlo cfg n -> lo <= 0.
Proof. intros H Hl. rewrite wlo_none in Hl by auto. exact Hl. Qed.

Lemma exact_view_lt kv0 i lo l : view kv0 i = wenum lo l -> view_lt kv0 i (zlen l) = wenum lo l.
Proof.
  intro H. unfold view_lt. rewrite H, filter_lt_wenum by apply zlen_nonneg.
  rewrite firstn_all2; [reflexivity|]. unfold zlen. lia.
Qed.

Lemma exact_slot_ok cfg kv0 i s lo :
  view kv0 i = wenum lo (s_inputs s) -> lo <= wlo cfg (zlen (s_inputs s)) -> slot_ok cfg kv0 i s.
Proof.
  intros H Hl. exists lo. split; [intro Hn; eapply lo_none; eauto|]. split; [apply exact_view_lt; auto|auto].
Qed.

(** a prefix of an idle (or live) slot's record is exactly what the cache holds below its length *)
Lemma view_lt_prefix kv0 i lo l k :
  view_lt kv0 i (zlen l) = wenum lo l -> 0 <= k <= zlen l ->
  filter (fun e => fst e <? k) (view kv0 i) = wenum lo (firstn (Z.to_nat k) l).
Proof.
  intros H Hk. rewrite <- filter_lt_wenum by lia. rewrite <- H. unfold view_lt.
  rewrite filter_filter. apply filter_ext. intros [q t]. cbn [fst]. lia.
Qed.

(** * list plumbing *)
Lemma set_nth_length {A} (l : list A) i x : length (set_nth l i x) = length l.
Proof. revert i. induction l; intros [|i]; cbn; auto. Qed.
Lemma nth_set_nth_same {A} (l : list A) i x d : (i < length l)%nat -> nth i (set_nth l i x) d = x.
Proof. revert i. induction l; intros [|i] H; cbn in *; try lia; auto. apply IHl. lia. Qed.
Lemma nth_set_nth_other {A} (l : list A) i j x d : i <> j -> nth j (set_nth l i x) d = nth j l d.
Proof. revert i j. induction l; intros [|i] [|j] H; cbn; auto; try lia. Qed.
Lemma nth_slot_set_same sl i x : (i < length sl)%nat -> nth_slot (set_nth sl i x) i = x.
Proof. apply nth_set_nth_same. Qed.
Lemma nth_slot_set_other sl i j x : i <> j -> nth_slot (set_nth sl i x) j = nth_slot sl j.
Proof. apply nth_set_nth_other. Qed.

(** * common prefix *)
Lemma common_prefix_spec a b :
  let c := common_prefix a b in (c <= length a)%nat /\ (c <= length b)%nat /\ firstn c a = firstn c b.
Proof.
  revert b. induction a as [|x a IH]; intros [|y b]; cbn; try (repeat split; lia).
  destruct (x =? y) eqn:E; cbn; [|repeat split; lia].
  destruct (IH b) as (H1 & H2 & H3). apply Z.eqb_eq in E. subst. repeat split; try lia. f_equal. auto.
Qed.

(** * slot choice *)
Lemma find_longest_aux_spec sl i0 prompt best i c :
  find_longest_aux sl i0 prompt best = Some (i, c) ->
  best = Some (i, c) \/
  ((i0 <= i < i0 + length sl)%nat /\ s_inuse (nth (i - i0) sl (mkSlot [] false O)) = false /\
   c = common_prefix (s_inputs (nth (i - i0) sl (mkSlot [] false O))) prompt).
Proof.
  revert i0 best. induction sl as [|s sl IH]; intros i0 best H; cbn [find_longest_aux] in H; [auto|].
  apply IH in H. destruct H as [H|(H1 & H2 & H3)].
  - destruct (s_inuse s) eqn:Hu; [auto|].
    assert (Hhere : (i0 <= i0 < i0 + length (s :: sl))%nat /\ s_inuse (nth (i0 - i0) (s :: sl) (mkSlot [] false O)) = false /\
                    common_prefix (s_inputs s) prompt = common_prefix (s_inputs (nth (i0 - i0) (s :: sl) (mkSlot [] false O))) prompt).
    { rewrite Nat.sub_diag. cbn. repeat split; auto; lia. }
    destruct best as [[bi bl]|].
    + destruct (bl <? common_prefix (s_inputs s) prompt)%nat; [|auto].
      inversion H; subst. right. destruct Hhere as (A & B & C). repeat split; auto; lia.
    + inversion H; subst. right. destruct Hhere as (A & B & C). repeat split; auto; lia.
  - right. cbn [length]. replace (i - i0)%nat with (S (i - S i0)) by lia. cbn [nth]. repeat split; auto; lia.
Qed.

Lemma best_longest_aux_spec sl i0 prompt best i c :
  best_longest_aux sl i0 prompt best = Some (i, c) ->
  best = Some (i, c) \/
  ((i0 <= i < i0 + length sl)%nat /\ c = common_prefix (s_inputs (nth (i - i0) sl (mkSlot [] false O))) prompt).
Proof.
  revert i0 best. induction sl as [|s sl IH]; intros i0 best H; cbn [best_longest_aux] in H; [auto|].
  apply IH in H. destruct H as [H|(H1 & H2)].
  - assert (Hhere : common_prefix (s_inputs s) prompt = common_prefix (s_inputs (nth (i0 - i0) (s :: sl) (mkSlot [] false O))) prompt)
      by (rewrite Nat.sub_diag; reflexivity).
    destruct best as [[bi bl]|].
    + destruct (bl <? common_prefix (s_inputs s) prompt)%nat; [|auto].
      inversion H; subst. right. cbn [length]. split; [lia|auto].
    + inversion H; subst. right. cbn [length]. split; [lia|auto].
  - right. cbn [length]. replace (i - i0)%nat with (S (i - S i0)) by lia. cbn [nth]. split; [lia|auto].
Qed.

Lemma best_oldest_aux_spec sl i0 best i o :
  best_oldest_aux sl i0 best = Some (i, o) ->
  best = Some (i, o) \/ ((i0 <= i < i0 + length sl)%nat /\ s_inuse (nth (i - i0) sl (mkSlot [] false O)) = false).
Proof.
  revert i0 best. induction sl as [|s sl IH]; intros i0 best H; cbn [best_oldest_aux] in H; [auto|].
  apply IH in H. destruct H as [H|(H1 & H2)].
  - destruct (s_inuse s) eqn:Hu; [auto|].
    assert (Hhere : s_inuse (nth (i0 - i0) (s :: sl) (mkSlot [] false O)) = false) by (rewrite Nat.sub_diag; auto).
    destruct best as [[bi bo]|].
    + destruct (s_last s <? bo)%nat; [|auto]. inversion H; subst. right. cbn [length]. split; [lia|auto].
    + inversion H; subst. right. cbn [length]. split; [lia|auto].
  - right. cbn [length]. replace (i - i0)%nat with (S (i - S i0)) by lia. cbn [nth]. split; [lia|auto].
Qed.

(** an idle slot exists => the oldest scan finds one *)
Lemma best_oldest_aux_some sl i0 best :
  (best <> None \/ exists j, (j < length sl)%nat /\ s_inuse (nth j sl (mkSlot [] false O)) = false) ->
  best_oldest_aux sl i0 best <> None.
Proof.
  revert i0 best. induction sl as [|s sl IH]; intros i0 best H; cbn [best_oldest_aux].
  - destruct H as [H|(j & Hj & _)]; [auto|cbn in Hj; lia].
  - apply IH. destruct H as [H|(j & Hj & Hu)].
    + left. destruct (s_inuse s); [auto|]. destruct best as [[bi bo]|]; [|discriminate].
      destruct (s_last s <? bo)%nat; discriminate.
    + destruct j as [|j]; cbn [nth] in Hu.
      * left. rewrite Hu. destruct best as [[bi bo]|]; [|discriminate]. destruct (s_last s <? bo)%nat; discriminate.
      * right. exists j. cbn in Hj. split; [lia|auto].
Qed.

(** * findBestCacheSlot / findLongestCacheSlot + LoadCacheSlot *)
Definition found_ok (cfg : config) (sl : list slot) (kv0 : kvcache) (prompt : list tok) (sl1 : list slot) (kv1 : kvcache) (i n : nat) : Prop :=
  length sl1 = length sl /\ (i < length sl)%nat /\ s_inuse (nth_slot sl i) = false /\ s_inuse (nth_slot sl1 i) = false /\
  (forall j, j <> i -> nth_slot sl1 j = nth_slot sl j) /\
  (n <= length (s_inputs (nth_slot sl1 i)))%nat /\ (n <= length prompt)%nat /\
  firstn n (s_inputs (nth_slot sl1 i)) = firstn n prompt /\
  (forall j, j <> i -> view kv1 j = view kv0 j) /\
  slot_ok cfg kv1 i (nth_slot sl1 i).

Lemma find_longest_ok cfg sl kv0 prompt i n :
  slots_ok cfg kv0 sl -> find_longest sl prompt = Ok (i, n) -> found_ok cfg sl kv0 prompt sl kv0 i n.
Proof.
  intros Hok H. unfold find_longest in H.
  destruct (find_longest_aux sl 0 prompt None) as [[i' n']|] eqn:E; [|discriminate]. injection H as -> ->.
  apply find_longest_aux_spec in E. destruct E as [E|(H1 & H2 & H3)]; [discriminate|].
  rewrite Nat.sub_0_r in *. fold (nth_slot sl i) in *.
  destruct (common_prefix_spec (s_inputs (nth_slot sl i)) prompt) as (A & B & C). rewrite <- H3 in *.
  unfold found_ok. repeat split; auto; try lia. apply Hok; lia.
Qed.

Lemma find_best_ok cfg sl kv0 prompt sl1 kv1 i n :
  slots_ok cfg kv0 sl -> find_best sl kv0 prompt = Ok (sl1, kv1, i, n) -> found_ok cfg sl kv0 prompt sl1 kv1 i n.
Proof.
  intros Hok H. unfold find_best in H.
  destruct (best_longest_aux sl 0 prompt None) as [[li longest]|] eqn:EL; [|discriminate].
  apply best_longest_aux_spec in EL. destruct EL as [EL|(L1 & L2)]; [discriminate|].
  rewrite Nat.sub_0_r in L2. fold (nth_slot sl li) in L2.
  destruct (common_prefix_spec (s_inputs (nth_slot sl li)) prompt) as (A & B & C). rewrite <- L2 in A, B, C. clear L2.
  destruct ((longest =? length (s_inputs (nth_slot sl li)))%nat && negb (s_inuse (nth_slot sl li))) eqn:Efull.
  - injection H as <- <- <- <-. apply andb_true_iff in Efull as [_ Hu]. apply negb_true_iff in Hu.
    unfold found_ok. repeat split; auto; try lia. apply Hok; lia.
  - destruct (best_oldest_aux sl 0 None) as [[oi olast]|] eqn:EO; [|discriminate].
    apply best_oldest_aux_spec in EO. destruct EO as [EO|(O1 & O2)]; [discriminate|].
    rewrite Nat.sub_0_r in O2. fold (nth_slot sl oi) in O2.
    destruct ((0 <? longest)%nat && negb (li =? oi)%nat) eqn:Efork.
    + (* fork the prefix of the longest slot into the oldest *)
      injection H as <- <- <- <-. apply andb_true_iff in Efork as [Hpos Hne]. apply negb_true_iff, Nat.eqb_neq in Hne.
      destruct (Hok li ltac:(lia)) as (lo & Hlo0 & Hlt & _).
      assert (Hview : view (kv_copy_prefix kv0 li oi (Z.of_nat longest)) oi = wenum lo (firstn longest (s_inputs (nth_slot sl li)))).
      { rewrite view_copy_dst by auto.
        rewrite (view_lt_prefix kv0 li lo (s_inputs (nth_slot sl li)) (Z.of_nat longest) Hlt) by (unfold zlen; lia).
        rewrite Nat2Z.id. reflexivity. }
      unfold found_ok. rewrite set_nth_length, nth_slot_set_same by lia. cbn [s_inputs s_inuse].
      split; [auto|]. split; [lia|]. split; [auto|]. split; [auto|]. split; [|split; [|split; [|split; [|split]]]].
      * intros j Hj. apply nth_slot_set_other. auto.
      * rewrite firstn_length. lia.
      * lia.
      * rewrite firstn_firstn, Nat.min_id. auto.
      * intros j Hj. apply view_copy_other. auto.
      * exists lo. split; [auto|]. cbn [s_inputs s_inuse]. split; [apply exact_view_lt; auto|]. rewrite O2. discriminate.
    + injection H as <- <- <- <-.
      assert (Hc : (longest = 0)%nat \/ li = oi).
      { apply andb_false_iff in Efork as [E|E]; [left; lia|right]. apply negb_false_iff, Nat.eqb_eq in E. auto. }
      unfold found_ok. repeat split; auto; try lia.
      * destruct Hc as [->|<-]; lia.
      * destruct Hc as [->|<-]; [reflexivity|auto].
      * apply Hok; lia.
Qed.

Definition loaded_ok (cfg : config) (sl : list slot) (kv0 : kvcache) (prompt : list tok) (sl' : list slot) (kv' : kvcache) (i : nat) (rest : list tok) : Prop :=
  length sl' = length sl /\ (i < length sl)%nat /\ s_inuse (nth_slot sl i) = false /\ s_inuse (nth_slot sl' i) = true /\
  (forall j, j <> i -> nth_slot sl' j = nth_slot sl j) /\
  s_inputs (nth_slot sl' i) ++ rest = prompt /\ rest <> [] /\
  (forall j, j <> i -> view kv' j = view kv0 j) /\
  exists lo, lo <= wlo cfg (zlen (s_inputs (nth_slot sl' i))) /\ view kv' i = wenum lo (s_inputs (nth_slot sl' i)).

Lemma load_cache_slot_ok cfg clk sl kv0 prompt sl' kv' i rest :
  win_ok cfg -> prompt <> [] -> slots_ok cfg kv0 sl ->
  load_cache_slot cfg clk sl kv0 prompt = Ok (sl', kv', i, rest) -> loaded_ok cfg sl kv0 prompt sl' kv' i rest.
Proof.
  intros Hwin Hne Hok H. unfold load_cache_slot in H.
  set (found := if multiUser cfg then find_best sl kv0 prompt
                else match find_longest sl prompt with Ok (i, n) => Ok (sl, kv0, i, n) | Err => Err | Panic => Panic end) in H.
  destruct found as [[[[sl1 kv1] i1] n]| |] eqn:EF; try discriminate.
  assert (Hf : found_ok cfg sl kv0 prompt sl1 kv1 i1 n).
  { subst found. destruct (multiUser cfg).
    - eapply find_best_ok; eauto.
    - destruct (find_longest sl prompt) as [[i2 n2]| |] eqn:E2; try discriminate. inversion EF; subst.
      eapply find_longest_ok; eauto. }
  clear EF found. destruct Hf as (F1 & F2 & F3 & F4 & F5 & F6 & F7 & F8 & F9 & (lo & Hlo0 & Hlt & _)).
  set (n1 := if (n =? length prompt)%nat then Nat.pred n else n) in H.
  set (n2 := if (0 <? n1)%nat && negb (can_resume cfg kv1 i1 (Z.of_nat n1)) then 0%nat else n1) in H.
  assert (Hn1 : (n1 <= n)%nat /\ (n1 < length prompt)%nat).
  { subst n1. destruct prompt; [congruence|]. cbn [length] in *. destruct (n =? S (length prompt))%nat eqn:E; lia. }
  assert (Hn2 : (n2 <= n1)%nat /\ ((0 < n2)%nat -> n2 = n1 /\ can_resume cfg kv1 i1 (Z.of_nat n1) = true)).
  { subst n2. destruct ((0 <? n1)%nat && negb (can_resume cfg kv1 i1 (Z.of_nat n1))) eqn:E; [split; [lia|intro; lia]|].
    split; [lia|]. intro Hpos. split; [reflexivity|]. apply andb_false_iff in E as [E|E]; [lia|]. apply negb_false_iff in E. exact E. }
  destruct Hn2 as [Hn2 Hres].
  destruct (match kv_remove_tail cfg kv1 i1 (Z.of_nat n2) with Some kv'0 => (kv'0, n2) | None => (kv_trunc kv1 i1 0, 0%nat) end)
    as [kv2 n3] eqn:ER.
  inversion H; subst sl' kv' i rest. clear H.
  assert (Hn3 : (n3 <= n2)%nat /\ (n3 = n2 \/ n3 = 0%nat) /\ kv2 = kv_trunc kv1 i1 (Z.of_nat n3)).
  { unfold kv_remove_tail in ER. destruct (negb (canPartial cfg) && negb (Z.of_nat n2 =? 0)); inversion ER; subst; repeat split; auto; lia. }
  destruct Hn3 as (Hn3 & Hn3' & ->).
  unfold loaded_ok. rewrite set_nth_length, nth_slot_set_same by lia. cbn [s_inputs s_inuse].
  assert (Hpre : firstn n3 (s_inputs (nth_slot sl1 i1)) = firstn n3 prompt).
  { replace n3 with (Nat.min n3 n) by lia. rewrite <- !firstn_firstn. f_equal. auto. }
  assert (Hview : view (kv_trunc kv1 i1 (Z.of_nat n3)) i1 = wenum lo (firstn n3 (s_inputs (nth_slot sl1 i1)))).
  { rewrite view_trunc_same. rewrite (view_lt_prefix kv1 i1 lo _ (Z.of_nat n3) Hlt) by (unfold zlen; lia). rewrite Nat2Z.id. reflexivity. }
  split; [auto|]. split; [lia|]. split; [auto|]. split; [auto|]. split; [|split; [|split; [|split]]].
  - intros j Hj. rewrite nth_slot_set_other by auto. auto.
  - rewrite Hpre. apply firstn_skipn.
  - intro E. apply (f_equal (@length tok)) in E. rewrite skipn_length in E. cbn in E. lia.
  - intros j Hj. rewrite view_trunc_other by auto. auto.
  - (* the window before the resume position is stored: that is what CanResume answered *)
    destruct (Nat.eq_dec n3 0) as [->|Hpos].
    + exists 0. split; [apply wlo_nonneg|]. rewrite Hview. cbn [firstn]. reflexivity.
    + exists lo. split; [|exact Hview].
      assert (Hzl : zlen (firstn n3 (s_inputs (nth_slot sl1 i1))) = Z.of_nat n3) by (rewrite zlen_firstn; unfold zlen; lia).
      rewrite Hzl. unfold wlo. destruct (window cfg) as [w|] eqn:Ew; [|apply Hlo0; reflexivity].
      destruct Hn3' as [->|]; [|lia]. destruct (Hres ltac:(lia)) as [E2 Hcr]. rewrite E2 in *.
      unfold can_resume in Hcr. rewrite Ew in Hcr. apply andb_true_iff in Hcr as [_ Hcr].
      eapply (swa_can_resume_lo w kv1 i1 (Z.of_nat n1) lo (s_inputs (nth_slot sl1 i1)) (zlen (s_inputs (nth_slot sl1 i1)))); eauto; unfold zlen; lia.
Qed.

(** LoadCacheSlot never hands out a slot that is in use, whatever the state *)
Lemma load_cache_slot_not_inuse cfg clk sl kv0 prompt sl' kv' i rest :
  load_cache_slot cfg clk sl kv0 prompt = Ok (sl', kv', i, rest) -> (i < length sl)%nat /\ s_inuse (nth_slot sl i) = false.
Proof.
  intro H. unfold load_cache_slot in H.
  destruct (multiUser cfg).
  - destruct (find_best sl kv0 prompt) as [[[[sl1 kv1] i1] n]| |] eqn:EF; try discriminate.
    assert (i1 = i).
    { destruct (match kv_remove_tail cfg kv1 i1 _ with Some kv'0 => _ | None => _ end). inversion H. auto. }
    subst i1. clear H. unfold find_best in EF.
    destruct (best_longest_aux sl 0 prompt None) as [[li longest]|] eqn:EL; [|discriminate].
    apply best_longest_aux_spec in EL. destruct EL as [EL|(L1 & L2)]; [discriminate|].
    destruct ((longest =? length (s_inputs (nth_slot sl li)))%nat && negb (s_inuse (nth_slot sl li))) eqn:Efull.
    + injection EF as <- <- <- <-. apply andb_true_iff in Efull as [_ Hu]. apply negb_true_iff in Hu. split; [lia|auto].
    + destruct (best_oldest_aux sl 0 None) as [[oi olast]|] eqn:EO; [|discriminate].
      apply best_oldest_aux_spec in EO. destruct EO as [EO|(O1 & O2)]; [discriminate|].
      rewrite Nat.sub_0_r in O2.
      destruct ((0 <? longest)%nat && negb (li =? oi)%nat); injection EF as <- <- <- <-; (split; [lia|auto]).
  - destruct (find_longest sl prompt) as [[i2 n2]| |] eqn:E2; try discriminate.
    assert (i2 = i).
    { destruct (match kv_remove_tail cfg kv0 i2 _ with Some kv'0 => _ | None => _ end). inversion H. auto. }
    subst i2. unfold find_longest in E2.
    destruct (find_longest_aux sl 0 prompt None) as [[i' n']|] eqn:E; [|discriminate]. inversion E2; subst.
    apply find_longest_aux_spec in E. destruct E as [E|(H1 & H2 & H3)]; [discriminate|].
    rewrite Nat.sub_0_r in *. split; [lia|auto].
Qed.


(** * ShiftDiscard / ShiftCacheSlot *)
Lemma shift_discard_bounds cfg inputLen numKeep :
  0 <= numKeep < numCtx cfg -> numCtx cfg <= inputLen ->
  1 <= shift_discard cfg inputLen numKeep /\ numKeep + shift_discard cfg inputLen numKeep <= inputLen.
Proof.
  intros Hk Hl. unfold shift_discard.
  assert (H: (numCtx cfg - numKeep) / 2 <= numCtx cfg - numKeep) by (apply Z.div_le_upper_bound; lia).
  lia.
Qed.

Lemma shifted_length l keep d : 0 <= keep -> 0 <= d -> keep + d <= zlen l -> zlen (shifted l keep d) = zlen l - d.
Proof. intros. unfold shifted. rewrite zlen_app, zlen_firstn, zlen_skipn. lia. Qed.

(** the guard under which a context shift is harmless on a sliding-window cache: nothing is kept before the discarded
    block (or the cache refuses partial erasure, so the sequence is reloaded).  Without a window: no condition. *)
Definition shift_guard (cfg : config) (keep : Z) : Prop :=
  window cfg = None \/ keep = 0 \/ canPartial cfg = false.

Lemma shift_cache_slot_ok cfg kv0 id C keep lo :
  win_ok cfg -> shift_guard cfg keep ->
  0 <= keep < numCtx cfg -> numCtx cfg <= zlen C -> view kv0 id = wenum lo C -> lo <= wlo cfg (zlen C) ->
  let d := shift_discard cfg (zlen C) keep in
  match shift_cache_slot cfg kv0 id C keep with
  | ShOk C' kv' => C' = shifted C keep d /\ (exists lo', lo' <= wlo cfg (zlen C') /\ view kv' id = wenum lo' C') /\
                   (forall j, j <> id -> view kv' j = view kv0 j)
  | ShReprocess re kv' => re = shifted C keep d /\ view kv' id = [] /\ (forall j, j <> id -> view kv' j = view kv0 j)
  | ShNone | ShErr => False
  end.
Proof.
  intros Hwin Hg Hk Hl Hv Hlo d. destruct (shift_discard_bounds cfg (zlen C) keep Hk Hl) as [Hd1 Hd2]. fold d in Hd1, Hd2.
  unfold shift_cache_slot. replace (numCtx cfg <=? keep) with false by lia. fold d.
  replace (d <=? 0) with false by lia.
  destruct (kv_remove_range cfg kv0 id keep (keep + d)) as [kv'|] eqn:ER.
  - unfold kv_remove_range in ER. destruct (canPartial cfg) eqn:Ecp; cbn [negb] in ER; [|discriminate].
    destruct (kv_range_blocked kv0 id (keep + d)) eqn:EB; [discriminate|].
    destruct (existsb (has id) (kv_range kv0 id keep (keep + d)) && negb (canShift cfg)); [discriminate|].
    injection ER as <-. split; [reflexivity|]. split; [|intros j Hj; apply view_range_other; auto].
    rewrite view_range_same, Hv.
    destruct (window cfg) as [w|] eqn:Ew.
    + (* sliding window: only a shift that keeps nothing *)
      destruct Hg as [Hg|[Hg|Hg]]; [congruence| |congruence]. subst keep. cbn [Z.add] in *.
      exists (lo - d). split.
      * unfold shifted. cbn [Z.to_nat firstn app]. rewrite zlen_skipn. unfold wlo in *. rewrite Ew in *. lia.
      * unfold shifted. cbn [Z.to_nat firstn app]. apply range0_wenum. lia.
    + exists 0. split; [apply wlo_nonneg|]. rewrite (wenum_le0 lo C) by (eapply lo_none; eauto). rewrite wenum_le0 by lia.
      apply range_enumerate; lia.
  - split; [reflexivity|]. split.
    + rewrite view_trunc_same. apply filter_none. intros [q t] Hin. rewrite Hv in Hin. apply wenum_In in Hin. cbn [fst]. lia.
    + intros j Hj. apply view_trunc_other. auto.
Qed.
