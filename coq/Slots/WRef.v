(** C07 — the single-sequence reference ("a fresh runner with an empty cache, for the same effective input") and
    the refinement invariant: after any history, every token sampled for a request was computed from exactly the
    reference window of that request. *)
From Coq Require Import List ZArith NArith Bool Arith Lia ZifyBool ZifyNat.
From V Require Import Common.Bytes Slots.StopFns Slots.Model Slots.ProofsKv Slots.ProofsWin Slots.WSlots Slots.WBatch.
Import ListNotations.
Open Scope Z_scope.

Section Ref.
  Variable F : list (Z * tok) -> tok.
  Variable cfg : config.
  (** window sizes are positive *)
  Hypothesis Hwin : win_ok cfg.

  (** * The reference: a function of the request alone
      [W] is the list of inputs the model has been fed for the request (positions 0..|W|-1).  Feeding one more
      token first discards half of the non-kept history when the context is full. *)
  Definition feed (keep : Z) (W : list tok) (t : tok) : list tok :=
    (if numCtx cfg <? zlen W + 1 then shifted W keep (shift_discard cfg (zlen W) keep) else W) ++ [t].
  (** the window from which the n-th token (n = 0, 1, ...) is sampled; W0 = the prompt after truncation *)
  Fixpoint ref_win (keep : Z) (W : list tok) (n : nat) : list tok :=
    match n with
    | O => W
    | S k => ref_win keep (feed keep W (F (ref_vis cfg W))) k
    end.
  Definition ref_tok (keep : Z) (W0 : list tok) (n : nat) : tok := F (ref_vis cfg (ref_win keep W0 n)).

  Lemma ref_win_S keep W n :
    ref_win keep W (S n) = feed keep (ref_win keep W n) (F (ref_vis cfg (ref_win keep W n))).
  Proof. revert W. induction n as [|n IH]; intro W; [reflexivity|]. cbn [ref_win] in *. rewrite IH. reflexivity. Qed.

  Lemma feed_len keep W t :
    0 <= keep < numCtx cfg -> zlen W <= numCtx cfg -> zlen (feed keep W t) <= numCtx cfg /\ 1 <= zlen (feed keep W t).
  Proof.
    intros Hk Hl. unfold feed. rewrite zlen_app. change (zlen [t]) with 1.
    destruct (numCtx cfg <? zlen W + 1) eqn:E.
    - destruct (shift_discard_bounds cfg (zlen W) keep Hk ltac:(lia)) as [D1 D2].
      rewrite shifted_length by lia. lia.
    - pose proof (zlen_nonneg W). lia.
  Qed.

  Lemma ref_win_len keep W0 n :
    0 <= keep < numCtx cfg -> zlen W0 <= numCtx cfg -> zlen (ref_win keep W0 n) <= numCtx cfg.
  Proof.
    intros Hk. revert W0. induction n as [|n IH]; intros W0 Hl; cbn [ref_win]; [auto|].
    apply IH. apply feed_len; auto.
  Qed.

  (** * projections of the ghost log *)
  Definition req_of (e : event) : nat :=
    match e with EvSubmit r _ _ _ _ => r | EvSample r _ _ => r | EvDone r _ => r end.
  Fixpoint samples_of (r : nat) (l : list event) : list (tok * list (Z * tok)) :=
    match l with
    | [] => []
    | EvSample r' t vis :: l' => if Nat.eqb r r' then (t, vis) :: samples_of r l' else samples_of r l'
    | _ :: l' => samples_of r l'
    end.
  Lemma samples_of_app r l1 l2 : samples_of r (l1 ++ l2) = samples_of r l1 ++ samples_of r l2.
  Proof.
    induction l1 as [|e l1 IH]; [reflexivity|]. cbn [app samples_of]. destruct e; auto.
    destruct (Nat.eqb r req); cbn [app]; rewrite IH; reflexivity.
  Qed.
  Lemma samples_of_other r l : (forall e, In e l -> req_of e <> r) -> samples_of r l = [].
  Proof.
    induction l as [|e l IH]; intro H; [reflexivity|]. cbn [samples_of].
    assert (IH' : samples_of r l = []) by (apply IH; intros; apply H; right; auto).
    destruct e; auto. specialize (H _ (or_introl eq_refl)). cbn in H.
    replace (Nat.eqb r req) with false; [auto|]. symmetry. apply Nat.eqb_neq. auto.
  Qed.

  (** every sample recorded for a submitted request is the reference's *)
  Definition log_ok (l : list event) : Prop :=
    forall r W0 keep np sp, In (EvSubmit r W0 keep np sp) l ->
      forall j t vis, nth_error (samples_of r l) j = Some (t, vis) ->
        vis = ref_vis cfg (ref_win keep W0 j) /\ t = F vis.
  (** request ids are unique and below the counter *)
  Definition log_ids (l : list event) (n : nat) : Prop :=
    (forall e, In e l -> (req_of e < n)%nat) /\
    (forall r W0 keep np sp W0' keep' np' sp', In (EvSubmit r W0 keep np sp) l -> In (EvSubmit r W0' keep' np' sp') l ->
       W0 = W0' /\ keep = keep' /\ np = np' /\ sp = sp').

  (** * the refinement relation of one live sequence *)
  Definition nsamples (r : nat) (l : list event) : nat := length (samples_of r l).

  Definition seq_ref_w (l : list event) (C : list tok) (q : seqst) (W0 : list tok) : Prop :=
    In (EvSubmit (q_req q) W0 (q_keep q) (q_npredict q) (q_stops q)) l /\ zlen W0 <= numCtx cfg /\
      let W := ref_win (q_keep q) W0 (nsamples (q_req q) l) in
      (C ++ q_pending q ++ q_inputs q = W \/
       (q_pending q = [] /\ exists t, q_inputs q = [t] /\ numCtx cfg < zlen C + 1 /\
        W = shifted C (q_keep q) (shift_discard cfg (zlen C) (q_keep q)) ++ [t])).
  Definition seq_ref (l : list event) (C : list tok) (q : seqst) : Prop := exists W0, seq_ref_w l C q W0.

  (** the batch entry from which a sequence that has consumed all its inputs will be sampled *)
  Definition out_entry (b : list entry) (C : list tok) (q : seqst) : Prop :=
    q_inputs q = [] ->
    exists e, nth_error (outputs_of b) (q_ibatch q) = Some e /\ e_seq e = q_slot q /\ e_pos e = zlen C + zlen (q_pending q) - 1.

  Record mid2 (sl : list slot) (qs : list (option seqst)) (b : list entry) (nout : nat) (l : list event) : Prop := mkMid2 {
    m2_nout : nout = length (outputs_of b);
    m2_live : forall idx q, get_seq qs idx = Some q ->
              seq_ref l (s_inputs (nth_slot sl (q_slot q))) q /\ out_entry b (s_inputs (nth_slot sl (q_slot q))) q;
    m2_req : forall i1 i2 q1 q2, get_seq qs i1 = Some q1 -> get_seq qs i2 = Some q2 -> q_req q1 = q_req q2 -> i1 = i2
  }.

  Definition inv2 (st : state) : Prop :=
    mid2 (slots st) (seqs st) [] 0 (log st) /\ log_ok (log st) /\ log_ids (log st) (nreq st) /\
    (forall idx q, get_seq (seqs st) idx = Some q -> (q_req q < nreq st)%nat).

  Lemma outputs_of_app b1 b2 : outputs_of (b1 ++ b2) = outputs_of b1 ++ outputs_of b2.
  Proof. unfold outputs_of. apply filter_app. Qed.

  (** * the inner loop when no shift is due: a prefix of seq.inputs moves into the batch *)
  Lemma skipn_cons_nth {A} i (l : list A) x r : skipn i l = x :: r -> skipn (S i) l = r /\ (i < length l)%nat.
  Proof.
    revert l. induction i as [|i IH]; intros l H.
    - cbn in H. subst. cbn. split; [auto|lia].
    - destruct l as [|y l]; [discriminate|]. cbn [skipn] in H. apply IH in H. cbn [skipn length]. split; [apply H|lia].
  Qed.
  Lemma firstn_S_skipn {A} i (l : list A) x r : skipn i l = x :: r -> firstn (S i) l = firstn i l ++ [x].
  Proof.
    revert l. induction i as [|i IH]; intros l H.
    - cbn in H. subst. reflexivity.
    - destruct l as [|y l]; [discriminate|]. cbn [skipn] in H. rewrite !firstn_cons, (IH l H). reflexivity.
  Qed.

  Lemma build_seq_plain seqIdx slotId keep I : forall rng i b,
    b_inputs b = I -> b_pending b = firstn i I -> rng = skipn i I -> (i <= length I)%nat ->
    zlen (b_C b) + zlen I <= numCtx cfg -> b_nout b = length (outputs_of (b_batch b)) ->
    exists m b', build_seq cfg seqIdx slotId keep rng i b = BOk b' /\ (i <= m <= length I)%nat /\
      b_C b' = b_C b /\ b_kv b' = b_kv b /\ b_inputs b' = I /\ b_pending b' = firstn m I /\
      b_nout b' = length (outputs_of (b_batch b')) /\
      (exists ext, b_batch b' = b_batch b ++ ext) /\
      (m = length I -> (i < length I)%nat ->
       exists e, nth_error (outputs_of (b_batch b')) (b_ibatch b') = Some e /\ e_seq e = slotId /\
                 e_pos e = zlen (b_C b) + Z.of_nat m - 1).
  Proof.
    induction rng as [|inp rest IH]; intros i b HI HP Hr Hile Hfit Hn; cbn [build_seq].
    - exists i, b. split; [reflexivity|].
      assert (Hi : (length I <= i)%nat).
      { destruct (Nat.le_gt_cases (length I) i); auto. exfalso.
        assert (length (skipn i I) = 0%nat) by (rewrite <- Hr; reflexivity). rewrite skipn_length in H0. lia. }
      repeat split; auto; try lia.
      exists []. rewrite app_nil_r. reflexivity.
    - symmetry in Hr. destruct (skipn_cons_nth _ _ _ _ Hr) as [Hr' Hlt].
      destruct (batchSize cfg <? zlen (b_batch b) + 1).
      { destruct (set_resume_same seqIdx b) as (E1 & E2 & E3 & E4 & E5 & E6).
        exists i, (set_resume seqIdx b). split; [reflexivity|]. rewrite E1, E2, E3, E4, E5, E6.
        repeat split; auto; try lia.
        exists []. rewrite app_nil_r. reflexivity. }
      assert (Hpl : zlen (b_pending b) = Z.of_nat i) by (rewrite HP, zlen_firstn; unfold zlen; lia).
      assert (Hno : (numCtx cfg <? zlen (b_C b) + zlen (b_pending b) + 1) = false).
      { unfold zlen in *. lia. }
      rewrite Hno.
      set (b1 := add_input slotId i inp b).
      destruct (IH (S i) b1) as (m & b' & E & Hm & R1 & R2 & R3 & R4 & R5 & (ext & R6) & R7).
      + unfold b1, add_input. cbn [b_inputs]. auto.
      + unfold b1, add_input. cbn [b_pending]. rewrite HP. symmetry. eapply firstn_S_skipn. eauto.
      + auto.
      + lia.
      + unfold b1, add_input. cbn [b_C]. auto.
      + unfold b1, add_input. cbn [b_nout b_batch]. rewrite outputs_of_app, app_length, <- Hn.
        destruct (S i =? length (b_inputs b))%nat; cbn; lia.
      + exists m, b'. split; [exact E|]. unfold b1, add_input in R1, R2, R6. cbn [b_C b_kv b_batch] in R1, R2, R6.
        repeat split; auto; try lia.
        * exists ([mkEntry inp (zlen (b_C b) + zlen (b_pending b)) slotId (S i =? length (b_inputs b))%nat] ++ ext).
          rewrite R6, <- app_assoc. reflexivity.
        * intros Hml _. destruct (Nat.eq_dec (S i) (length I)) as [Hlast|Hnl].
          -- (* this was the last input: it is the output, and the loop is over *)
             assert (Hrest : rest = []).
             { assert (length rest = 0%nat) by (rewrite <- Hr', skipn_length; lia). destruct rest; [auto|discriminate]. }
             rewrite Hrest in E. cbn [build_seq] in E. injection E as <-.
             unfold b1, add_input. cbn [b_batch b_ibatch b_C].
             rewrite HI. replace (S i =? length I)%nat with true by (symmetry; apply Nat.eqb_eq; auto).
             eexists. split.
             ++ rewrite outputs_of_app, nth_error_app2 by lia. rewrite Hn, Nat.sub_diag. unfold outputs_of. cbn. reflexivity.
             ++ cbn [e_seq e_pos]. split; [reflexivity|]. lia.
          -- apply R7; auto. lia.
  Qed.

  (** * the inner loop when a shift is due: the sequence holds exactly one generated token *)
  Lemma build_seq_shift seqIdx slotId keep t b :
    0 <= keep < numCtx cfg -> b_pending b = [] -> b_inputs b = [t] ->
    numCtx cfg < zlen (b_C b) + 1 -> zlen (b_C b) <= numCtx cfg ->
    shift_guard cfg keep ->
    (exists lo, lo <= wlo cfg (zlen (b_C b)) /\ view (b_kv b) slotId = wenum lo (b_C b)) -> b_nout b = length (outputs_of (b_batch b)) ->
    let W := shifted (b_C b) keep (shift_discard cfg (zlen (b_C b)) keep) in
    exists b', build_seq cfg seqIdx slotId keep [t] 0 b = BOk b' /\
      b_nout b' = length (outputs_of (b_batch b')) /\ (exists ext, b_batch b' = b_batch b ++ ext) /\
      ((b_C b' = b_C b /\ b_pending b' = [] /\ b_inputs b' = [t] /\ b_batch b' = b_batch b) \/
       (b_C b' = W /\ b_pending b' = [t] /\ b_inputs b' = [t] /\
        exists e, nth_error (outputs_of (b_batch b')) (b_ibatch b') = Some e /\ e_seq e = slotId /\ e_pos e = zlen W) \/
       (b_C b' = [] /\ b_pending b' = [] /\ b_inputs b' = W ++ [t] /\ b_batch b' = b_batch b)).
  Proof.
    intros Hk HP HI Hdue Hle Hg (lo & Hlo & Hv) Hn W. cbn [build_seq].
    destruct (batchSize cfg <? zlen (b_batch b) + 1).
    { destruct (set_resume_same seqIdx b) as (E1 & E2 & E3 & E4 & E5 & E6).
      exists (set_resume seqIdx b). split; [reflexivity|]. rewrite E5, E6. split; [auto|]. split; [exists []; rewrite app_nil_r; reflexivity|].
      left. rewrite E1, E3, E4. auto. }
    rewrite HP. replace (numCtx cfg <? zlen (b_C b) + zlen (@nil tok) + 1) with true by (rewrite zlen_nil; lia).
    pose proof (shift_cache_slot_ok cfg (b_kv b) slotId (b_C b) keep lo Hwin Hg Hk ltac:(lia) Hv Hlo) as Hs. cbn zeta in Hs. fold W in Hs.
    destruct (shift_cache_slot cfg (b_kv b) slotId (b_C b) keep) as [|C' kv'|re kv'|]; try contradiction.
    - destruct Hs as (-> & _ & _). eexists. split; [reflexivity|].
      unfold add_input. cbn [b_nout b_batch b_C b_pending b_inputs b_ibatch]. rewrite HI. cbn [length Nat.eqb].
      split; [rewrite outputs_of_app, app_length, Hn; cbn; lia|]. split; [eexists; reflexivity|].
      right. left. repeat split; auto. eexists. split.
      + rewrite outputs_of_app, nth_error_app2 by lia. rewrite Hn, Nat.sub_diag. unfold outputs_of. cbn. reflexivity.
      + cbn [e_seq e_pos]. split; [reflexivity|lia].
    - destruct Hs as (-> & _ & _). eexists. split; [reflexivity|]. cbn [b_nout b_batch b_C b_pending b_inputs].
      split; [auto|]. split; [exists []; rewrite app_nil_r; reflexivity|]. right. right. rewrite HI. auto.
  Qed.

  (** * one sequence of the outer loop *)
  Definition only_done (qs : list (option seqst)) (ext : list event) : Prop :=
    forall e, In e ext -> exists k q rs, get_seq qs k = Some q /\ e = EvDone (q_req q) rs.

  Lemma only_done_samples qs ext r : only_done qs ext -> samples_of r ext = [].
  Proof.
    induction ext as [|e ext IH]; intro H; [reflexivity|]. cbn [samples_of].
    assert (IH' : samples_of r ext = []) by (apply IH; intros e' He'; apply H; right; auto).
    destruct (H e (or_introl eq_refl)) as (k & q & rs & _ & ->). auto.
  Qed.

  Lemma seq_ref_w_ext l ext C q W0 : samples_of (q_req q) ext = [] -> seq_ref_w l C q W0 -> seq_ref_w (l ++ ext) C q W0.
  Proof.
    intros Hd (Hin & Hl & Hw). split; [apply in_or_app; auto|]. split; [auto|].
    unfold nsamples in *. rewrite samples_of_app, Hd, app_nil_r. exact Hw.
  Qed.
  Lemma seq_ref_ext qs l ext C q : only_done qs ext -> seq_ref l C q -> seq_ref (l ++ ext) C q.
  Proof. intros Hd (W0 & H). exists W0. apply seq_ref_w_ext; auto. eapply only_done_samples; eauto. Qed.

  Lemma out_entry_ext b ext C q : out_entry b C q -> out_entry (b ++ ext) C q.
  Proof.
    intros H Hi. destruct (H Hi) as (e & E1 & E2 & E3). exists e. split; [|auto].
    rewrite outputs_of_app, nth_error_app1; [auto|]. apply nth_error_Some. congruence.
  Qed.

  Lemma build_one2 p idx :
    mid_ok cfg (p_slots p) (p_kv p) (p_seqs p) (p_batch p) -> unprocessed (p_seqs p) idx ->
    mid2 (p_slots p) (p_seqs p) (p_batch p) (p_nout p) (p_log p) ->
    exists p', build_one cfg p idx = POk p' /\
      mid2 (p_slots p') (p_seqs p') (p_batch p') (p_nout p') (p_log p') /\
      (exists ext, p_log p' = p_log p ++ ext /\ only_done (p_seqs p) ext) /\
      (forall k q', get_seq (p_seqs p') k = Some q' -> exists q, get_seq (p_seqs p) k = Some q /\ q_req q' = q_req q).
  Proof.
    intros Hm Hun H2. unfold build_one. fold (get_seq (p_seqs p) idx).
    destruct (get_seq (p_seqs p) idx) as [q|] eqn:Eq.
    2:{ exists p. split; [reflexivity|]. split; [exact H2|]. split; [exists []; rewrite app_nil_r; split; [auto|intros e []]|eauto]. }
    destruct (Hun q Eq) as [Hpend Hinp].
    pose proof (mo_live _ _ _ _ _ Hm idx q Eq) as Hq.
    pose proof (get_seq_lt _ _ _ Eq) as Hidx.
    pose proof (lo_slot _ _ _ _ _ Hq) as Hslot.
    assert (Hother : forall j q2, j <> idx -> get_seq (p_seqs p) j = Some q2 -> q_slot q2 <> q_slot q).
    { intros j q2 Hj E2 Hs. apply Hj. eapply (mo_inj _ _ _ _ _ Hm); eauto. }
    destruct (m2_live _ _ _ _ _ H2 idx q Eq) as [Href Hout].
    destruct (at_limit q).
    - (* removeSequence *)
      eexists. split; [reflexivity|]. cbn [p_slots p_kv p_seqs p_batch p_nout p_log].
      assert (Hd : only_done (p_seqs p) [EvDone (q_req q) DoneLength]).
      { intros e [<-|[]]. exists idx, q, DoneLength. auto. }
      split; [|split; [eauto|]].
      + constructor.
        * apply (m2_nout _ _ _ _ _ H2).
        * intros j q2 E2. destruct (Nat.eq_dec idx j) as [->|Hj]; [rewrite get_seq_set_same in E2 by auto; discriminate|].
          rewrite get_seq_set_other in E2 by auto. destruct (m2_live _ _ _ _ _ H2 j q2 E2) as [R1 R2].
          rewrite release_other by (intro E; eapply Hother; [| exact E2 | symmetry; exact E]; auto).
          split; [eapply seq_ref_ext; eauto|auto].
        * intros i1 i2 q1 q2 E1 E2 Hs.
          destruct (Nat.eq_dec idx i1) as [->|H1]; [rewrite get_seq_set_same in E1 by auto; discriminate|].
          destruct (Nat.eq_dec idx i2) as [->|H2']; [rewrite get_seq_set_same in E2 by auto; discriminate|].
          rewrite get_seq_set_other in E1, E2 by auto. eapply (m2_req _ _ _ _ _ H2); eauto.
      + intros k q' E'. destruct (Nat.eq_dec idx k) as [->|Hk]; [rewrite get_seq_set_same in E' by auto; discriminate|].
        rewrite get_seq_set_other in E' by auto. eauto.
    - (* the inner loop *)
      set (C := s_inputs (nth_slot (p_slots p) (q_slot q))) in *.
      set (b0 := mkB C (p_kv p) (q_pending q) (q_inputs q) (p_batch p) (p_nout p) (q_ibatch q) (p_resume p)).
      assert (Hn0 : b_nout b0 = length (outputs_of (b_batch b0))) by (apply (m2_nout _ _ _ _ _ H2)).
      assert (Hres : exists b', build_seq cfg idx (q_slot q) (q_keep q) (q_inputs q) 0 b0 = BOk b' /\
                 b_nout b' = length (outputs_of (b_batch b')) /\ (exists ext, b_batch b' = p_batch p ++ ext) /\
                 let q' := mkSeq (skipn (length (b_pending b')) (b_inputs b')) (b_pending b') (q_slot q) (q_npredict q) (q_npredicted q)
                                 (q_keep q) (q_pend q) (q_stops q) (b_ibatch b') (q_req q) in
                 seq_ref (p_log p) (b_C b') q' /\ out_entry (b_batch b') (b_C b') q').
      { destruct Href as (W0 & Hsub & HW0 & Hw). rewrite Hpend in Hw. cbn [app] in Hw.
        pose proof (ref_win_len (q_keep q) W0 (nsamples (q_req q) (p_log p)) (lo_keep _ _ _ _ _ Hq) HW0) as HWl.
        destruct Hw as [Hw|(_ & t & HIt & Hdue & Hw)].
        - (* no shift can be due *)
          destruct (build_seq_plain idx (q_slot q) (q_keep q) (q_inputs q) (q_inputs q) 0 b0) as (m & b' & E & Hmle & R1 & R2 & R3 & R4 & R5 & R6 & R7); auto.
          + lia.
          + unfold b0. cbn [b_C]. rewrite <- Hw, zlen_app in HWl. exact HWl.
          + exists b'. split; [exact E|]. split; [exact R5|]. split; [exact R6|]. cbn zeta.
            rewrite R1, R3, R4. unfold b0. cbn [b_C]. rewrite firstn_length, Nat.min_l by lia. split.
            * exists W0. split; [exact Hsub|]. split; [exact HW0|]. cbn [q_req q_keep q_pending q_inputs]. left.
              rewrite firstn_skipn. exact Hw.
            * intro Hnil. cbn [q_inputs q_ibatch q_slot q_pending] in *.
              assert (Hm' : m = length (q_inputs q)).
              { apply (f_equal (@length tok)) in Hnil. rewrite skipn_length in Hnil. cbn in Hnil. lia. }
              destruct (R7 Hm') as (e & X1 & X2 & X3).
              -- destruct (q_inputs q); [congruence|cbn; lia].
              -- exists e. split; [exact X1|]. split; [exact X2|]. rewrite X3. unfold b0. cbn [b_C].
                 rewrite zlen_firstn. unfold zlen. lia.
        - (* a shift is due *)
          destruct (build_seq_shift idx (q_slot q) (q_keep q) t b0 (lo_keep _ _ _ _ _ Hq)) as (b' & E & R1 & R2 & R3); auto.
          + unfold b0. cbn [b_C]. pose proof (lo_fit _ _ _ _ _ Hq) as Hf. fold C in Hf. pose proof (zlen_nonneg (q_pending q)). lia.
          + apply (lo_guard _ _ _ _ _ Hq).
          + apply (lo_view _ _ _ _ _ Hq).
          + rewrite HIt. exists b'. split; [exact E|]. split; [exact R1|]. split; [exact R2|]. cbn zeta. unfold b0 in R3. cbn [b_C b_batch] in R3.
            destruct R3 as [(X1 & X2 & X3 & X4)|[(X1 & X2 & X3 & e & X4 & X5 & X6)|(X1 & X2 & X3 & X4)]]; rewrite X1, X2, X3; cbn [length skipn].
            * split.
              -- exists W0. split; [exact Hsub|]. split; [exact HW0|]. cbn [q_req q_keep q_pending q_inputs]. right. split; [auto|]. exists t. auto.
              -- intro Hnil. discriminate.
            * split.
              -- exists W0. split; [exact Hsub|]. split; [exact HW0|]. cbn [q_req q_keep q_pending q_inputs]. left.
                 rewrite app_nil_r. symmetry. exact Hw.
              -- intros _. exists e. cbn [q_ibatch q_slot q_pending]. split; [exact X4|]. split; [exact X5|]. rewrite X6. change (zlen [t]) with 1. lia.
            * split.
              -- exists W0. split; [exact Hsub|]. split; [exact HW0|]. cbn [q_req q_keep q_pending q_inputs]. left. symmetry. exact Hw.
              -- intro Hnil. cbn [q_inputs] in Hnil. apply app_eq_nil in Hnil as [_ Hnil]. discriminate. }
      destruct Hres as (b' & E & R1 & (ext & R2) & Hq').
      rewrite E. eexists. split; [reflexivity|]. cbn [p_slots p_kv p_seqs p_batch p_nout p_log]. cbn zeta in Hq'.
      set (q' := mkSeq (skipn (length (b_pending b')) (b_inputs b')) (b_pending b') (q_slot q) (q_npredict q) (q_npredicted q)
                       (q_keep q) (q_pend q) (q_stops q) (b_ibatch b') (q_req q)) in *.
      split; [|split].
      + constructor.
        * exact R1.
        * intros j q2 E2. destruct (Nat.eq_dec idx j) as [<-|Hj].
          -- rewrite get_seq_set_same in E2 by auto. injection E2 as <-.
             change (q_slot q') with (q_slot q). rewrite set_slot_inputs_same by auto. cbn [s_inputs]. exact Hq'.
          -- rewrite get_seq_set_other in E2 by auto. destruct (m2_live _ _ _ _ _ H2 j q2 E2) as [X1 X2].
             rewrite set_slot_inputs_other by (intro Es; eapply Hother; [| exact E2 | symmetry; exact Es]; auto).
             split; [exact X1|]. rewrite R2. apply out_entry_ext. exact X2.
        * intros i1 i2 q1 q2 E1 E2 Hs.
          assert (G : forall i0 q0, get_seq (set_nth (p_seqs p) idx (Some q')) i0 = Some q0 ->
                                     exists q00, get_seq (p_seqs p) i0 = Some q00 /\ q_req q00 = q_req q0).
          { intros i0 q0 E0. destruct (Nat.eq_dec idx i0) as [<-|H0].
            - rewrite get_seq_set_same in E0 by auto. injection E0 as <-. exists q. auto.
            - rewrite get_seq_set_other in E0 by auto. exists q0. auto. }
          destruct (G _ _ E1) as (q10 & E10 & S1), (G _ _ E2) as (q20 & E20 & S2).
          eapply (m2_req _ _ _ _ _ H2); eauto. congruence.
      + exists []. rewrite app_nil_r. split; [reflexivity|intros e []].
      + intros k q2 E2. destruct (Nat.eq_dec idx k) as [<-|Hk].
        * rewrite get_seq_set_same in E2 by auto. injection E2 as <-. exists q. auto.
        * rewrite get_seq_set_other in E2 by auto. eauto.
  Qed.

  Lemma build_all2 order : forall p,
    NoDup order -> mid_ok cfg (p_slots p) (p_kv p) (p_seqs p) (p_batch p) ->
    (forall idx, In idx order -> unprocessed (p_seqs p) idx) ->
    mid2 (p_slots p) (p_seqs p) (p_batch p) (p_nout p) (p_log p) ->
    exists p', build_all cfg p order = POk p' /\
      mid_ok cfg (p_slots p') (p_kv p') (p_seqs p') (p_batch p') /\
      mid2 (p_slots p') (p_seqs p') (p_batch p') (p_nout p') (p_log p') /\
      (exists ext, p_log p' = p_log p ++ ext /\ only_done (p_seqs p) ext) /\
      (forall k q', get_seq (p_seqs p') k = Some q' -> exists q, get_seq (p_seqs p) k = Some q /\ q_req q' = q_req q).
  Proof.
    induction order as [|idx order IH]; intros p Hnd Hm Hun H2; cbn [build_all].
    - exists p. split; [reflexivity|]. split; [auto|]. split; [auto|]. split; [exists []; rewrite app_nil_r; split; [auto|intros e []]|eauto].
    - inversion Hnd as [|x l Hnotin Hnd']; subst.
      destruct (build_one_ok cfg p idx Hwin Hm (Hun idx (or_introl eq_refl))) as (p1 & E & Hm1 & Hsame & Hlen).
      destruct (build_one2 p idx Hm (Hun idx (or_introl eq_refl)) H2) as (p1' & E' & H21 & (ext1 & L1 & D1) & Q1).
      rewrite E in E'. injection E' as <-. rewrite E.
      destruct (IH p1 Hnd' Hm1) as (p' & E2 & Hm' & H2' & (ext2 & L2 & D2) & Q2); auto.
      + intros j Hj q Hq. rewrite Hsame in Hq by (intros ->; auto). apply (Hun j (or_intror Hj) q Hq).
      + exists p'. split; [exact E2|]. split; [exact Hm'|]. split; [exact H2'|]. split.
        * exists (ext1 ++ ext2). split; [rewrite L2, L1, app_assoc; reflexivity|].
          intros e He. apply in_app_or in He as [He|He]; [apply D1; auto|].
          destruct (D2 e He) as (k & q1 & rs & G1 & ->). destruct (Q1 k q1 G1) as (q0 & G0 & Hr). exists k, q0, rs. rewrite Hr. auto.
        * intros k q' G'. destruct (Q2 k q' G') as (q1 & G1 & R1). destruct (Q1 k q1 G1) as (q0 & G0 & R0). exists q0. split; [auto|congruence].
  Qed.

  (** * after Forward *)
  (** what the cache holds for a live sequence when Forward runs: its recorded inputs and pending inputs from some
      position on, with the whole window before the next position (and before the last pending one) stored *)
  Definition fwd_view (kv' : kvcache) (q : seqst) (C : list tok) : Prop :=
    exists lo, lo <= wlo cfg (zlen (C ++ q_pending q)) /\
               (q_pending q <> [] -> lo <= wlo cfg (zlen (C ++ q_pending q) - 1)) /\
               view kv' (q_slot q) = wenum lo (C ++ q_pending q).

  Definition no_submit (ev : list event) : Prop := forall e, In e ev -> match e with EvSubmit _ _ _ _ _ => False | _ => True end.

  Lemma post_one2 kv' b s q l W0 :
    fwd_view kv' q (s_inputs s) -> (q_inputs q = [] -> q_pending q <> []) ->
    0 <= q_keep q < numCtx cfg ->
    seq_ref_w l (s_inputs s) q W0 -> out_entry b (s_inputs s) q ->
    match post_one F cfg kv' b s q with
    | QPanic => True
    | QOk s' q' ev =>
        (forall e, In e ev -> req_of e = q_req q) /\ no_submit ev /\
        (samples_of (q_req q) ev = [] \/
         exists t vis, samples_of (q_req q) ev = [(t, vis)] /\
                       vis = ref_vis cfg (ref_win (q_keep q) W0 (nsamples (q_req q) l)) /\ t = F vis) /\
        (forall q1, q' = Some q1 ->
           q_req q1 = q_req q /\
           forall l', (forall e, In e l -> In e l') ->
                      samples_of (q_req q) l' = samples_of (q_req q) l ++ samples_of (q_req q) ev ->
                      seq_ref_w l' (s_inputs s') q1 W0)
    end.
  Proof.
    intros (lo & Hlo & Hlo1 & Hv) Hne Hk (Hsub & HW0 & Hw) Hout. unfold post_one.
    set (C := s_inputs s ++ q_pending q) in *.
    set (s1 := match q_pending q with [] => s | _ => with_inputs s C end).
    assert (Hs1 : s_inputs s1 = C).
    { subst s1 C. destruct (q_pending q); [rewrite app_nil_r; auto|cbn; auto]. }
    set (r := q_req q) in *. set (n := nsamples r l) in *.
    destruct (q_inputs q) as [|x rest] eqn:Ei.
    2:{ (* still evaluating inputs: nothing sampled *)
      split; [intros e []|]. split; [intros e []|]. split; [left; reflexivity|].
      intros q1 E1. injection E1 as <-. cbn [q_req]. split; [reflexivity|]. intros l' Hin Hs.
      cbn [samples_of] in Hs. rewrite app_nil_r in Hs.
      split; [apply Hin; exact Hsub|]. split; [exact HW0|]. cbn [q_req q_keep q_pending q_inputs].
      unfold nsamples. fold r. rewrite Hs. fold (nsamples r l). fold n. rewrite Hs1.
      destruct Hw as [Hw|(Hp & t & Ht & Hdue & Hw)].
      - left. subst C. rewrite <- app_assoc. exact Hw.
      - right. subst C. rewrite Hp, app_nil_r in *. split; [auto|]. exists t. auto. }
    (* all inputs consumed: sample *)
    assert (HCW : C = ref_win (q_keep q) W0 n).
    { destruct Hw as [Hw|(_ & t & Ht & _)]; [|discriminate]. subst C. rewrite app_nil_r in Hw. exact Hw. }
    destruct (Hout Ei) as (e & E1 & E2 & E3).
    assert (Hsample : sample_at F cfg kv' b (q_ibatch q) = (F (ref_vis cfg C), ref_vis cfg C)).
    { unfold sample_at. rewrite E1, E2, E3.
      replace (zlen (s_inputs s) + zlen (q_pending q) - 1) with (zlen C - 1) by (subst C; rewrite zlen_app; lia).
      rewrite (visible_c_wenum cfg kv' (q_slot q) lo C Hv (Hlo1 (Hne eq_refl))), sort_vis_ref_vis. reflexivity. }
    rewrite Hsample. set (t := F (ref_vis cfg C)).
    assert (Hsam : exists t0 vis, [(t, ref_vis cfg C)] = [(t0, vis)] /\ vis = ref_vis cfg (ref_win (q_keep q) W0 n) /\ t0 = F vis).
    { exists t, (ref_vis cfg C). split; [reflexivity|]. split; [rewrite HCW; reflexivity|reflexivity]. }
    assert (Hreq2 : forall rs e0, In e0 [EvSample r t (ref_vis cfg C); EvDone r rs] -> req_of e0 = r).
    { intros rs e0 [<-|[<-|[]]]; reflexivity. }
    assert (Hns2 : forall rs, no_submit [EvSample r t (ref_vis cfg C); EvDone r rs]).
    { intros rs e0 [<-|[<-|[]]]; exact I. }
    destruct ((0 <=? eosTok cfg) && (t =? eosTok cfg)).
    { split; [apply Hreq2|]. split; [apply Hns2|]. split; [right; cbn [samples_of]; rewrite Nat.eqb_refl; exact Hsam|]. intros q1 E. discriminate. }
    destruct (find_stop (concat (q_pend q ++ [piece_of t])) (q_stops q)).
    - destruct (truncate_stop (q_pend q ++ [piece_of t]) s0) as [pend' trunc].
      split; [apply Hreq2|]. split; [apply Hns2|]. split; [right; cbn [samples_of]; rewrite Nat.eqb_refl; exact Hsam|]. intros q1 E. discriminate.
    - split; [intros e0 [<-|[]]; reflexivity|]. split; [intros e0 [<-|[]]; exact I|].
      split; [right; cbn [samples_of]; rewrite Nat.eqb_refl; exact Hsam|].
      intros q1 E. injection E as <-. cbn [q_req]. split; [reflexivity|]. intros l' Hin Hs.
      split; [apply Hin; exact Hsub|]. split; [exact HW0|]. cbn [q_req q_keep q_pending q_inputs].
      unfold nsamples. fold r. rewrite Hs. cbn [samples_of]. rewrite Nat.eqb_refl, app_length. cbn [length].
      fold (nsamples r l). fold n. replace (n + 1)%nat with (S n) by lia. rewrite ref_win_S, <- HCW. fold t. rewrite Hs1.
      unfold feed. destruct (numCtx cfg <? zlen C + 1) eqn:Edue.
      + right. split; [reflexivity|]. exists t. split; [reflexivity|]. split; [lia|reflexivity].
      + left. reflexivity.
  Qed.

  Lemma post_one_events kv' b s q s' q' ev :
    post_one F cfg kv' b s q = QOk s' q' ev -> (forall e, In e ev -> req_of e = q_req q) /\ no_submit ev.
  Proof.
    unfold post_one. destruct (q_inputs q).
    2:{ intro H. injection H as <- <- <-. split; intros e []. }
    destruct (sample_at F cfg kv' b (q_ibatch q)) as [t vis].
    destruct ((0 <=? eosTok cfg) && (t =? eosTok cfg)).
    { intro H. injection H as <- <- <-. split; intros e [<-|[<-|[]]]; cbn; auto. }
    destruct (find_stop _ _).
    - destruct (truncate_stop _ _) as [pend' trunc].
      intro H. injection H as <- <- <-. split; intros e [<-|[<-|[]]]; cbn; auto.
    - intro H. injection H as <- <- <-. split; intros e [<-|[]]; cbn; auto.
  Qed.

  Lemma samples_of_in r ev x : In x (samples_of r ev) -> exists e, In e ev /\ req_of e = r.
  Proof.
    induction ev as [|e ev IH]; [intros []|]. cbn [samples_of]. intro H.
    assert (G : In x (samples_of r ev) -> exists e0, In e0 (e :: ev) /\ req_of e0 = r).
    { intro H'. destruct (IH H') as (e0 & A & B). exists e0. split; [right; auto|auto]. }
    destruct e; auto. destruct (Nat.eqb r req) eqn:E; auto.
    destruct H as [_|H]; auto. apply Nat.eqb_eq in E. subst. eexists. split; [left; reflexivity|reflexivity].
  Qed.

  Lemma post_all_events kv' b qs : forall sl sl' qs' ev,
    post_all F cfg kv' b sl qs = Some (sl', qs', ev) ->
    (forall e, In e ev -> (exists k q, get_seq qs k = Some q /\ req_of e = q_req q)) /\ no_submit ev /\
    (forall k q, get_seq qs k = Some q ->
       (forall k2 q2, get_seq qs k2 = Some q2 -> q_slot q2 = q_slot q -> k2 = k) ->
       (forall k2 q2, get_seq qs k2 = Some q2 -> q_req q2 = q_req q -> k2 = k) -> (q_slot q < length sl)%nat ->
       exists s' ev1, post_one F cfg kv' b (nth_slot sl (q_slot q)) q = QOk s' (get_seq qs' k) ev1 /\
                      samples_of (q_req q) ev = samples_of (q_req q) ev1).
  Proof.
    induction qs as [|o r IH]; intros sl sl' qs' ev H; cbn [post_all] in H.
    - injection H as <- <- <-. split; [intros e []|]. split; [intros e []|]. intros k q E. destruct k; discriminate.
    - destruct o as [q0|].
      + destruct (post_one F cfg kv' b (nth_slot sl (q_slot q0)) q0) as [s1 q0' ev1|] eqn:E1; [|discriminate].
        destruct (post_all F cfg kv' b (set_nth sl (q_slot q0) s1) r) as [[[sl2 r'] ev2]|] eqn:E2; [|discriminate].
        injection H as <- <- <-. destruct (IH _ _ _ _ E2) as (Hreq & Hns & Hown).
        destruct (post_one_events _ _ _ _ _ _ _ E1) as [Hreq1 Hns1].
        split; [|split].
        * intros e He. apply in_app_or in He as [He|He].
          -- exists 0%nat, q0. split; [reflexivity|apply Hreq1; auto].
          -- destruct (Hreq e He) as (k & q & G & R). exists (S k), q. auto.
        * intros e He. apply in_app_or in He as [He|He]; [apply Hns1; auto|apply Hns; auto].
        * intros [|k] q E Huniq Hureq Hlt.
          -- cbn in E. injection E as <-. exists s1, ev1. split; [exact E1|].
             rewrite samples_of_app. rewrite (samples_of_other (q_req q0) ev2), app_nil_r; [reflexivity|].
             intros e He Hr. destruct (Hreq e He) as (k & q & G & R). specialize (Hureq (S k) q G ltac:(congruence)). discriminate.
          -- change (get_seq r k = Some q) in E.
             assert (Hne : q_slot q0 <> q_slot q) by (intro Hs; specialize (Huniq 0%nat q0 eq_refl Hs); discriminate).
             assert (Hner : q_req q0 <> q_req q) by (intro Hs; specialize (Hureq 0%nat q0 eq_refl Hs); discriminate).
             destruct (Hown k q E) as (s' & ev' & P1 & P2).
             ++ intros k2 q2 E2' Hs. specialize (Huniq (S k2) q2 E2' Hs). lia.
             ++ intros k2 q2 E2' Hs. specialize (Hureq (S k2) q2 E2' Hs). lia.
             ++ rewrite set_nth_length. auto.
             ++ rewrite nth_slot_set_other in P1 by auto. exists s', ev'. split; [exact P1|].
                rewrite samples_of_app, (samples_of_other (q_req q) ev1), P2; [reflexivity|].
                intros e He. rewrite (Hreq1 e He). auto.
      + destruct (post_all F cfg kv' b sl r) as [[[sl2 r'] ev2]|] eqn:E2; [|discriminate].
        injection H as <- <- <-. destruct (IH _ _ _ _ E2) as (Hreq & Hns & Hown).
        split; [|split; [exact Hns|]].
        * intros e He. destruct (Hreq e He) as (k & q & G & R). exists (S k), q. auto.
        * intros [|k] q E Huniq Hureq Hlt; [discriminate|]. change (get_seq r k = Some q) in E.
          apply Hown; auto.
          -- intros k2 q2 E2' Hs. specialize (Huniq (S k2) q2 E2' Hs). lia.
          -- intros k2 q2 E2' Hs. specialize (Hureq (S k2) q2 E2' Hs). lia.
  Qed.

  (** * the log invariants under extension *)
  Lemma log_ok_ext l ext :
    log_ok l -> (forall r, samples_of r ext = []) -> no_submit ext -> log_ok (l ++ ext).
  Proof.
    intros Hok Hs Hn r W0 keep np sp Hin j t vis Hj.
    apply in_app_or in Hin as [Hin|Hin]; [|exfalso; apply (Hn _ Hin)].
    rewrite samples_of_app, Hs, app_nil_r in Hj. eapply Hok; eauto.
  Qed.

  Lemma log_ids_ext l ext n :
    log_ids l n -> (forall e, In e ext -> (req_of e < n)%nat) -> no_submit ext -> log_ids (l ++ ext) n.
  Proof.
    intros [H1 H2] Hr Hn. split.
    - intros e He. apply in_app_or in He as [He|He]; auto.
    - intros r W0 keep np sp W0' keep' np' sp' A B.
      apply in_app_or in A as [A|A]; [|exfalso; apply (Hn _ A)].
      apply in_app_or in B as [B|B]; [|exfalso; apply (Hn _ B)]. eapply H2; eauto.
  Qed.

  Lemma only_done_no_submit qs ext : only_done qs ext -> no_submit ext.
  Proof. intros H e He. destruct (H e He) as (k & q & rs & _ & ->). exact I. Qed.

  (** * processBatch preserves the refinement invariant *)
  Lemma process_batch_inv2 st : inv cfg st -> inv2 st -> inv2 (fst (process_batch F cfg st)).
  Proof.
    intros [Hm Hin] (H2 & Hlok & Hlid & Hrlt). unfold process_batch.
    destruct (all_nil (seqs st)); [exact (conj H2 (conj Hlok (conj Hlid Hrlt)))|].
    set (p0 := mkP (slots st) (kv st) (seqs st) [] 0 None (log st)).
    destruct (build_all2 (visit_order (length (seqs st)) (nextSeq st)) p0) as (p & E & Hmp & H2p & (ext & Lext & Dext) & Qreq).
    { apply visit_order_nodup. }
    { exact Hm. }
    { intros i0 _ q Hq. split; [eapply live_pending_nil; eapply (mo_live _ _ _ _ _ Hm); eauto|eapply Hin; eauto]. }
    { exact H2. }
    cbn [p_log p_seqs p0] in Lext, Dext, Qreq.
    assert (Hreqlt : forall k q, get_seq (p_seqs p) k = Some q -> (q_req q < nreq st)%nat).
    { intros k q G. destruct (Qreq k q G) as (q0 & G0 & ->). eapply Hrlt; eauto. }
    assert (Hextreq : forall e, In e ext -> (req_of e < nreq st)%nat).
    { intros e He. destruct (Dext e He) as (k & q & rs & G & ->). cbn. eapply Hrlt; eauto. }
    assert (Hlokp : log_ok (p_log p)).
    { rewrite Lext. apply log_ok_ext; auto; [intro r; eapply only_done_samples; eauto|eapply only_done_no_submit; eauto]. }
    assert (Hlidp : log_ids (p_log p) (nreq st)).
    { rewrite Lext. apply log_ids_ext; auto. eapply only_done_no_submit; eauto. }
    rewrite E. destruct (p_batch p) as [|e0 b0] eqn:Eb.
    - cbn [fst]. unfold inv2. cbn [slots seqs log nreq]. split; [|split; [exact Hlokp|split; [exact Hlidp|exact Hreqlt]]].
      pose proof (m2_nout _ _ _ _ _ H2p) as Hn. cbn in Hn. rewrite <- Hn. exact H2p.
    - rewrite <- Eb in Hmp, H2p |- *.
      destruct (kv_full cfg (kv_evict cfg (p_kv p) (p_batch p)) (p_batch p)); [exact (conj H2 (conj Hlok (conj Hlid Hrlt)))|].
      set (kv' := kv_forward (kv_evict cfg (p_kv p) (p_batch p)) (p_batch p)).
      destruct (post_all F cfg kv' (p_batch p) (p_slots p) (p_seqs p)) as [[[sl' qs'] ev]|] eqn:EP; [|exact (conj H2 (conj Hlok (conj Hlid Hrlt)))].
      cbn [fst]. destruct (post_all_spec F _ _ _ _ _ _ _ _ EP) as (L1 & L2 & Hfr & Hown & Hnone).
      destruct (post_all_events _ _ _ _ _ _ _ EP) as (Hevreq & Hevns & Hevown).
      assert (Huslot : forall k q, get_seq (p_seqs p) k = Some q -> forall k2 q2, get_seq (p_seqs p) k2 = Some q2 -> q_slot q2 = q_slot q -> k2 = k).
      { intros k q G k2 q2 G2 Hs. eapply (mo_inj _ _ _ _ _ Hmp); eauto. }
      assert (Hureq : forall k q, get_seq (p_seqs p) k = Some q -> forall k2 q2, get_seq (p_seqs p) k2 = Some q2 -> q_req q2 = q_req q -> k2 = k).
      { intros k q G k2 q2 G2 Hs. eapply (m2_req _ _ _ _ _ H2p); eauto. }
      assert (Hview : forall k q, get_seq (p_seqs p) k = Some q -> fwd_view kv' q (s_inputs (nth_slot (p_slots p) (q_slot q)))).
      { intros k q G. exact (forward_view_live cfg _ _ _ q Hwin (mo_live _ _ _ _ _ Hmp k q G)). }
      assert (Hne : forall k q, get_seq (p_seqs p) k = Some q -> q_inputs q = [] -> q_pending q <> []).
      { intros k q G. apply (lo_nonempty _ _ _ _ _ (mo_live _ _ _ _ _ Hmp k q G)). }
      (* what post_one did for every live sequence *)
      assert (Hpo : forall k q, get_seq (p_seqs p) k = Some q ->
                exists W0 s' ev1, seq_ref_w (p_log p) (s_inputs (nth_slot (p_slots p) (q_slot q))) q W0 /\
                  post_one F cfg kv' (p_batch p) (nth_slot (p_slots p) (q_slot q)) q = QOk s' (get_seq qs' k) ev1 /\
                  nth_slot sl' (q_slot q) = s' /\ samples_of (q_req q) ev = samples_of (q_req q) ev1).
      { intros k q G. pose proof (mo_live _ _ _ _ _ Hmp k q G) as Hl.
        destruct (m2_live _ _ _ _ _ H2p k q G) as [(W0 & Hw) Ho].
        destruct (Hown k q G (Huslot k q G) (lo_slot _ _ _ _ _ Hl)) as (s' & ev1 & P1 & P2).
        destruct (Hevown k q G (Huslot k q G) (Hureq k q G) (lo_slot _ _ _ _ _ Hl)) as (s'' & ev1' & P1' & P3).
        rewrite P1 in P1'. injection P1' as <- <-. exists W0, s', ev1. auto. }
      assert (Hback : forall k q1, get_seq qs' k = Some q1 -> exists q, get_seq (p_seqs p) k = Some q).
      { intros k q1 E1. destruct (get_seq (p_seqs p) k) as [q|] eqn:Eq; [eauto|]. rewrite (Hnone k Eq) in E1. discriminate. }
      unfold inv2. cbn [slots seqs log nreq].
      assert (Hin_ext : forall e, In e (p_log p) -> In e (p_log p ++ ev)) by (intros; apply in_or_app; auto).
      split; [|split; [|split]].
      + constructor.
        * reflexivity.
        * intros k q1 E1. destruct (Hback k q1 E1) as (q & G).
          destruct (Hpo k q G) as (W0 & s' & ev1 & Hw & P1 & P2 & P3).
          pose proof (mo_live _ _ _ _ _ Hmp k q G) as Hl.
          destruct (m2_live _ _ _ _ _ H2p k q G) as [_ Ho].
          pose proof (post_one2 kv' (p_batch p) _ q (p_log p) W0 (Hview k q G) (Hne k q G) (lo_keep _ _ _ _ _ Hl) Hw Ho) as X.
          destruct (Hview k q G) as (lo & _ & _ & Hvq).
          pose proof (post_one_ok F cfg kv' (p_batch p) (nth_slot (p_slots p) (q_slot q)) q (q_slot q) lo
                                  (lo_inuse _ _ _ _ _ Hl) Hvq (lo_fit _ _ _ _ _ Hl)) as Y.
          rewrite P1, E1 in X, Y. destruct X as (_ & _ & _ & X). destruct (X q1 eq_refl) as [Xr Xw].
          destruct Y as (_ & _ & _ & _ & _ & Yne & Yslot & _).
          rewrite Yslot, P2. split.
          -- exists W0. apply Xw; auto. rewrite samples_of_app, P3. reflexivity.
          -- intro Hnil. contradiction.
        * intros k1 k2 q1 q2 E1 E2 Hs. destruct (Hback k1 q1 E1) as (q10 & G1), (Hback k2 q2 E2) as (q20 & G2).
          destruct (Hpo k1 q10 G1) as (W1 & s1 & ev1 & Hw1 & P1 & _), (Hpo k2 q20 G2) as (W2 & s2 & ev2 & Hw2 & P2 & _).
          pose proof (mo_live _ _ _ _ _ Hmp k1 q10 G1) as Hl1. pose proof (mo_live _ _ _ _ _ Hmp k2 q20 G2) as Hl2.
          destruct (m2_live _ _ _ _ _ H2p k1 q10 G1) as [_ Ho1]. destruct (m2_live _ _ _ _ _ H2p k2 q20 G2) as [_ Ho2].
          pose proof (post_one2 kv' (p_batch p) _ q10 (p_log p) W1 (Hview k1 q10 G1) (Hne k1 q10 G1) (lo_keep _ _ _ _ _ Hl1) Hw1 Ho1) as X1.
          pose proof (post_one2 kv' (p_batch p) _ q20 (p_log p) W2 (Hview k2 q20 G2) (Hne k2 q20 G2) (lo_keep _ _ _ _ _ Hl2) Hw2 Ho2) as X2.
          rewrite P1, E1 in X1. rewrite P2, E2 in X2.
          destruct X1 as (_ & _ & _ & X1), X2 as (_ & _ & _ & X2). destruct (X1 q1 eq_refl) as [R1 _], (X2 q2 eq_refl) as [R2 _].
          eapply Hureq; eauto. congruence.
      + (* every recorded sample is the reference's *)
        intros r W0 keep np0 sp0 Hsub j t vis Hj.
        apply in_app_or in Hsub as [Hsub|Hsub]; [|exfalso; apply (Hevns _ Hsub)].
        rewrite samples_of_app in Hj.
        destruct (Nat.lt_ge_cases j (length (samples_of r (p_log p)))) as [Hlt|Hge].
        * rewrite nth_error_app1 in Hj by auto. eapply Hlokp; eauto.
        * rewrite nth_error_app2 in Hj by auto.
          assert (Hx : In (t, vis) (samples_of r ev)) by (eapply nth_error_In; eauto).
          destruct (samples_of_in _ _ _ Hx) as (e & He & Hre). destruct (Hevreq e He) as (k & q & G & Hrq). assert (Hr : r = q_req q) by congruence. clear Hre Hrq He. subst r.
          destruct (Hpo k q G) as (W0q & s' & ev1 & Hw & P1 & P2 & P3).
          pose proof (mo_live _ _ _ _ _ Hmp k q G) as Hl. destruct (m2_live _ _ _ _ _ H2p k q G) as [_ Ho].
          pose proof (post_one2 kv' (p_batch p) _ q (p_log p) W0q (Hview k q G) (Hne k q G) (lo_keep _ _ _ _ _ Hl) Hw Ho) as X.
          rewrite P1 in X. destruct X as (_ & _ & Xs & _). rewrite P3 in Hj.
          destruct Xs as [Xs|(t0 & vis0 & Xs & Xv & Xt)]; rewrite Xs in Hj.
          -- destruct (j - length (samples_of (q_req q) (p_log p)))%nat; discriminate.
          -- destruct (j - length (samples_of (q_req q) (p_log p)))%nat as [|d] eqn:Ed; [|destruct d; discriminate].
             cbn in Hj. injection Hj as <- <-.
             destruct Hw as (Hsubq & _ & _). destruct Hlidp as [_ Huniq]. destruct (Huniq _ _ _ _ _ _ _ _ _ Hsub Hsubq) as (-> & -> & _ & _).
             replace j with (nsamples (q_req q) (p_log p)) by (unfold nsamples; lia). auto.
      + apply log_ids_ext; auto.
        intros e He. destruct (Hevreq e He) as (k & q & G & ->). eapply Hreqlt; eauto.
      + intros k q1 E1. destruct (Hback k q1 E1) as (q & G).
        destruct (Hpo k q G) as (W0 & s' & ev1 & Hw & P1 & P2 & P3).
        pose proof (mo_live _ _ _ _ _ Hmp k q G) as Hl. destruct (m2_live _ _ _ _ _ H2p k q G) as [_ Ho].
        pose proof (post_one2 kv' (p_batch p) _ q (p_log p) W0 (Hview k q G) (Hne k q G) (lo_keep _ _ _ _ _ Hl) Hw Ho) as X.
        rewrite P1, E1 in X. destruct X as (_ & _ & _ & X). destruct (X q1 eq_refl) as [-> _]. eapply Hreqlt; eauto.
  Qed.

  (** * accepting a request preserves the refinement invariant *)
  Lemma samples_of_fresh l n r : (forall e, In e l -> (req_of e < n)%nat) -> (n <= r)%nat -> samples_of r l = [].
  Proof. intros H Hr. apply samples_of_other. intros e He. specialize (H e He). lia. Qed.

  Lemma submit_inv2 st prompt np keep stops :
    1 <= numCtx cfg -> inv cfg st -> inv2 st -> inv2 (fst (submit cfg st prompt np keep stops)).
  Proof.
    intros Hc [Hm Hin] (H2 & Hlok & Hlid & Hrlt). pose proof (conj H2 (conj Hlok (conj Hlid Hrlt))) as Hall. unfold submit.
    destruct (new_sequence cfg prompt keep) as [[inputs keep']| |] eqn:EN; try exact Hall.
    destruct (new_sequence_ok _ _ _ _ _ Hc EN) as (N1 & N2 & N3).
    destruct (first_free (seqs st) 0) as [idx|] eqn:EF; [|exact Hall].
    apply first_free_spec in EF. rewrite Nat.sub_0_r in EF. destruct EF as [Hidx Hfree]. fold (get_seq (seqs st) idx) in Hfree.
    destruct (load_cache_slot cfg (clock st) (slots st) (kv st) inputs) as [[[[sl kv'] si] rest]| |] eqn:EL; try exact Hall.
    destruct (load_cache_slot_ok _ _ _ _ _ _ _ _ _ Hwin N1 (inv_slots_ok _ _ _ _ _ Hm) EL) as (L1 & L2 & L3 & L4 & L5 & L6 & L7 & L8 & L9).
    unfold inv2. cbn [fst slots seqs log nreq].
    set (qn := mkSeq rest [] si np 0 keep' [] stops 0 (nreq st)).
    set (ext := [EvSubmit (nreq st) inputs keep' np stops]).
    destruct Hlid as [Hlt Huniq].
    assert (Hold : forall j q2, get_seq (seqs st) j = Some q2 -> q_slot q2 <> si).
    { intros j q2 E2 Hs. rewrite <- Hs in L3. rewrite (lo_inuse _ _ _ _ _ (mo_live _ _ _ _ _ Hm j q2 E2)) in L3. discriminate. }
    assert (Hext : forall r, samples_of r ext = []) by (intro r; reflexivity).
    split; [|split; [|split]].
    - constructor.
      + reflexivity.
      + intros j q2 E2. destruct (Nat.eq_dec idx j) as [<-|Hj].
        * rewrite get_seq_set_same in E2 by lia. injection E2 as <-. split.
          -- exists inputs. unfold qn. split; [cbn [q_req q_keep]; apply in_or_app; right; left; reflexivity|]. split; [exact N3|].
             cbn [q_req q_keep q_pending q_inputs q_slot]. left. unfold nsamples.
             rewrite samples_of_app, (samples_of_fresh (log st) (nreq st)) by auto. cbn [app samples_of length ref_win]. exact L6.
          -- intro Hnil. unfold qn in Hnil. cbn in Hnil. contradiction.
        * rewrite get_seq_set_other in E2 by auto. destruct (m2_live _ _ _ _ _ H2 j q2 E2) as [(W0 & Hw) Ho].
          rewrite L5 by (eapply Hold; eauto). split; [|exact Ho]. exists W0. apply seq_ref_w_ext; auto.
      + intros i1 i2 q1 q2 E1 E2 Hs.
        destruct (Nat.eq_dec idx i1) as [<-|H1], (Nat.eq_dec idx i2) as [<-|H2']; auto.
        * rewrite get_seq_set_same in E1 by lia. rewrite get_seq_set_other in E2 by auto. injection E1 as <-.
          specialize (Hrlt _ _ E2). unfold qn in Hs. cbn in Hs. lia.
        * rewrite get_seq_set_same in E2 by lia. rewrite get_seq_set_other in E1 by auto. injection E2 as <-.
          specialize (Hrlt _ _ E1). unfold qn in Hs. cbn in Hs. lia.
        * rewrite get_seq_set_other in E1, E2 by auto. eapply (m2_req _ _ _ _ _ H2); eauto.
    - intros r W0 kp np0 sp0 Hsub j t vis Hj. rewrite samples_of_app, Hext, app_nil_r in Hj.
      apply in_app_or in Hsub as [Hsub|[Hsub|[]]]; [eapply Hlok; eauto|].
      injection Hsub as <- <- <- <- <-. rewrite (samples_of_fresh (log st) (nreq st)) in Hj by auto. destruct j; discriminate.
    - split.
      + intros e He. apply in_app_or in He as [He|[<-|[]]]; [specialize (Hlt e He); lia|cbn; lia].
      + intros r W0 kp np0 sp0 W0' kp' np0' sp0' A B.
        apply in_app_or in A as [A|[A|[]]]; apply in_app_or in B as [B|[B|[]]].
        * eapply Huniq; eauto.
        * injection B as <- <- <- <- <-. specialize (Hlt _ A). cbn in Hlt. lia.
        * injection A as <- <- <- <- <-. specialize (Hlt _ B). cbn in Hlt. lia.
        * injection A as <- <- <- <- <-. injection B as <- <- <- <-. auto.
    - intros j q2 E2. destruct (Nat.eq_dec idx j) as [<-|Hj].
      + rewrite get_seq_set_same in E2 by lia. injection E2 as <-. cbn. lia.
      + rewrite get_seq_set_other in E2 by auto. specialize (Hrlt _ _ E2). lia.
  Qed.

  Lemma init_inv2 parallel : inv2 (init parallel).
  Proof.
    assert (Hnone : forall idx q, get_seq (repeat None parallel) idx = Some q -> False).
    { intros idx q H. unfold get_seq in H. destruct (Nat.lt_ge_cases idx parallel).
      - rewrite nth_repeat_any in H by auto. discriminate.
      - rewrite nth_overflow in H by (rewrite repeat_length; lia). discriminate. }
    unfold inv2, init. cbn [slots seqs log nreq]. split; [|split; [|split]].
    - constructor; [reflexivity| |]; intros; exfalso; eapply Hnone; eauto.
    - intros r W0 keep np sp [].
    - split; [intros e []|intros r W0 keep np sp W0' keep' np' sp' []].
    - intros idx q H. exfalso; eapply Hnone; eauto.
  Qed.

  Lemma run_inv2 st ops : 1 <= numCtx cfg -> Forall (op_guard cfg) ops -> inv cfg st -> inv2 st -> inv2 (run F cfg st ops).
  Proof.
    intro Hc. revert st. induction ops as [|o ops IH]; intros st Hg Hi H2; cbn [run fold_left]; [auto|].
    inversion Hg; subst. apply IH; [auto|apply step_op_inv; auto|].
    destruct o; cbn [step_op]; [apply submit_inv2; auto|apply process_batch_inv2; auto].
  Qed.

  Lemma reachable_inv2 parallel ops : 1 <= numCtx cfg -> Forall (op_guard cfg) ops -> inv2 (run F cfg (init parallel) ops).
  Proof. intros Hc Hg. apply run_inv2; auto; [apply init_inv|apply init_inv2]. Qed.

  (** what a Submit records: the inputs after truncation and the normalised keep count, i.e. a function of the
      request (prompt, keep) and the context size alone *)
  Lemma submit_logs st prompt np keep stops idx :
    snd (submit cfg st prompt np keep stops) = RSubmitted idx ->
    exists inputs keep', new_sequence cfg prompt keep = Ok (inputs, keep') /\
      log (fst (submit cfg st prompt np keep stops)) = log st ++ [EvSubmit (nreq st) inputs keep' np stops].
  Proof.
    unfold submit. destruct (new_sequence cfg prompt keep) as [[inputs keep']| |]; try discriminate.
    destruct (first_free (seqs st) 0); [|discriminate].
    destruct (load_cache_slot cfg (clock st) (slots st) (kv st) inputs) as [[[[sl kv'] si] rest]| |]; try discriminate.
    intros _. eauto.
  Qed.
End Ref.
