(** C07 — lemmas for sliding-window caches: what a sequence holds is the enumeration of its recorded inputs
    restricted to the positions from some [lo] on ([wenum lo l]); eviction, the window in the mask, CanResume. *)
From Coq Require Import List ZArith NArith Bool Arith Lia ZifyBool ZifyNat.
From V Require Import Slots.Model Slots.ProofsKv.
Import ListNotations.
Open Scope Z_scope.

Definition wenum (lo : Z) (l : list tok) : list (Z * tok) := filter (fun e => lo <=? fst e) (enumerate 0 l).

(** the lowest position the next token at position [n] attends to *)
Definition wlo (cfg : config) (n : Z) : Z := match window cfg with None => 0 | Some w => Z.max 0 (n - w) end.

Lemma enumerate_ge p l e : In e (enumerate p l) -> p <= fst e < p + zlen l.
Proof. destruct e as [q t]. intro H. apply enumerate_In in H. exact H. Qed.

Lemma wenum_le0 lo l : lo <= 0 -> wenum lo l = enumerate 0 l.
Proof. intro H. unfold wenum. apply filter_all. intros e He. apply enumerate_ge in He. lia. Qed.

Lemma wenum_nil lo : wenum lo [] = []. Proof. reflexivity. Qed.

Lemma wenum_high lo l : zlen l <= lo -> wenum lo l = [].
Proof. intro H. unfold wenum. apply filter_none. intros e He. apply enumerate_ge in He. lia. Qed.

Lemma filter_comm {A} (f g : A -> bool) l : filter f (filter g l) = filter g (filter f l).
Proof. rewrite !filter_filter. apply filter_ext. intro. apply andb_comm. Qed.

Lemma filter_lt_wenum lo l k : 0 <= k -> filter (fun e => fst e <? k) (wenum lo l) = wenum lo (firstn (Z.to_nat k) l).
Proof. intro Hk. unfold wenum. rewrite filter_comm, filter_lt_enumerate0 by auto. reflexivity. Qed.

Lemma wenum_raise lo lo2 l : filter (fun e => lo2 <=? fst e) (wenum lo l) = wenum (Z.max lo lo2) l.
Proof. unfold wenum. rewrite filter_filter. apply filter_ext. intros [p t]. cbn [fst]. lia. Qed.

Lemma wenum_app lo a b : lo <= zlen a -> wenum lo (a ++ b) = wenum lo a ++ enumerate (zlen a) b.
Proof.
  intro H. unfold wenum. rewrite enumerate_app, filter_app. f_equal. cbn [Z.add].
  apply filter_all. intros e He. apply enumerate_ge in He. lia.
Qed.

Lemma wenum_In lo l q t : In (q, t) (wenum lo l) -> lo <= q /\ 0 <= q < zlen l.
Proof. unfold wenum. intro H. apply filter_In in H as [H1 H2]. apply enumerate_In in H1. cbn [fst] in H2. lia. Qed.

(** as an enumeration of a suffix: sorted, so sorting does nothing *)
Lemma filter_ge_enumerate s lo l :
  s <= lo -> filter (fun e => lo <=? fst e) (enumerate s l) = enumerate lo (skipn (Z.to_nat (lo - s)) l).
Proof.
  revert s. induction l as [|x l IH]; intros s H; cbn [enumerate filter].
  - rewrite skipn_nil. reflexivity.
  - cbn [fst]. destruct (Z.eq_dec s lo) as [->|Hne].
    + replace (lo <=? lo) with true by lia. rewrite Z.sub_diag. cbn [Z.to_nat skipn enumerate]. f_equal.
      apply filter_all. intros e He. apply enumerate_ge in He. lia.
    + replace (lo <=? s) with false by lia. rewrite (IH (s + 1)) by lia.
      replace (Z.to_nat (lo - s)) with (S (Z.to_nat (lo - (s + 1)))) by lia. reflexivity.
Qed.
Lemma wenum_suffix lo l : 0 <= lo -> wenum lo l = enumerate lo (skipn (Z.to_nat lo) l).
Proof. intro H. unfold wenum. rewrite filter_ge_enumerate by auto. rewrite Z.sub_0_r. reflexivity. Qed.
Lemma sort_vis_wenum lo l : sort_vis (wenum lo l) = wenum lo l.
Proof.
  destruct (Z.le_gt_cases lo 0).
  - rewrite wenum_le0 by auto. apply sort_vis_enumerate.
  - rewrite wenum_suffix by lia. apply sort_vis_enumerate.
Qed.

(** ** counting, for CanResume *)
Lemma count_range_enumerate a b s l :
  zlen (filter (fun e => (a <=? fst e) && (fst e <? b)) (enumerate s l)) = Z.max 0 (Z.min b (s + zlen l) - Z.max a s).
Proof.
  revert s. induction l as [|x l IH]; intro s; cbn [enumerate filter].
  - unfold zlen. cbn [length]. lia.
  - cbn [fst]. rewrite zlen_cons. pose proof (zlen_nonneg l).
    destruct ((a <=? s) && (s <? b)) eqn:E; [rewrite zlen_cons|]; rewrite IH; lia.
Qed.

Lemma count_range_wenum a b lo l :
  zlen (filter (fun e => (a <=? fst e) && (fst e <? b)) (wenum lo l)) = Z.max 0 (Z.min b (zlen l) - Z.max (Z.max a lo) 0).
Proof.
  unfold wenum. rewrite filter_filter.
  rewrite (filter_ext _ (fun e => (Z.max a lo <=? fst e) && (fst e <? b))) by (intros [p t]; cbn [fst]; lia).
  rewrite count_range_enumerate. lia.
Qed.

(** CanResume(seq, pos) = true on a sequence whose entries below [n] are [wenum lo l] (pos <= n) means the whole
    window before [pos] is there *)
Lemma swa_can_resume_lo w kv0 s pos lo l n :
  1 <= w -> 1 <= pos <= n -> n <= zlen l ->
  filter (fun e => fst e <? n) (view kv0 s) = wenum lo l ->
  swa_can_resume w kv0 s pos = true -> lo <= Z.max 0 (pos - w).
Proof.
  intros Hw Hpos Hn Hv H. unfold swa_can_resume in H.
  destruct (view kv0 s) as [|e0 v0] eqn:Ev; [discriminate|]. rewrite <- Ev in *. clear Ev e0 v0.
  destruct (Z.max 0 (pos - w) <? _); [discriminate|].
  apply Z.eqb_eq in H.
  assert (Hf : filter (fun e => (Z.max 0 (pos - w) <=? fst e) && (fst e <? pos)) (view kv0 s)
               = filter (fun e => (Z.max 0 (pos - w) <=? fst e) && (fst e <? pos)) (wenum lo l)).
  { rewrite <- Hv, filter_filter. apply filter_ext. intros [p t]. cbn [fst]. lia. }
  rewrite Hf, count_range_wenum in H. lia.
Qed.

(** ** eviction in StartForward *)
Lemma low_pos_none b s : slot_entries b s = [] -> low_pos b s = None.
Proof.
  induction b as [|e b IH]; [reflexivity|]. unfold slot_entries. cbn [filter low_pos].
  destruct (Nat.eqb s (e_seq e)); cbn [map]; [discriminate|]. exact IH.
Qed.
Lemma low_pos_enumerate b s p l :
  slot_entries b s = enumerate p l -> l <> [] -> low_pos b s = Some p.
Proof.
  revert p l. induction b as [|e b IH]; intros p l H Hl.
  - cbn in H. destruct l; [congruence|discriminate].
  - unfold slot_entries in *. cbn [filter low_pos] in *. destruct (Nat.eqb s (e_seq e)).
    + cbn [map] in H. destruct l as [|x l]; [congruence|]. cbn [enumerate] in H. injection H as Hp Ht Hr.
      destruct l as [|y l].
      * cbn in Hr. rewrite (low_pos_none b s) by exact Hr. rewrite Hp. reflexivity.
      * rewrite (IH (p + 1) (y :: l) Hr) by discriminate. rewrite Hp. f_equal. lia.
    + eapply IH; eauto.
Qed.

Lemma view_evict_none cfg kv0 b s : low_pos b s = None -> view (kv_evict cfg kv0 b) s = view kv0 s.
Proof.
  intro Hl. unfold kv_evict. destruct (window cfg) as [w|]; [|reflexivity].
  induction kv0 as [|c kv0 IH]; [reflexivity|]. cbn [map]. rewrite !view_cons, IH. f_equal.
  unfold has. cbn [cseqs cpos ctok].
  replace (existsb (Nat.eqb s) (filter _ (cseqs c))) with (existsb (Nat.eqb s) (cseqs c)); [reflexivity|].
  induction (cseqs c) as [|x l IHl]; [reflexivity|]. cbn [filter existsb].
  destruct (Nat.eqb s x) eqn:E.
  - apply Nat.eqb_eq in E. subst x. rewrite Hl. cbn [existsb]. rewrite Nat.eqb_refl. reflexivity.
  - cbn [orb]. destruct (match low_pos b x with Some p => _ | None => true end); cbn [existsb]; rewrite ?E; auto.
Qed.

Lemma view_evict_some cfg kv0 b s p w :
  window cfg = Some w -> low_pos b s = Some p ->
  view (kv_evict cfg kv0 b) s = filter (fun e => p - w <=? fst e) (view kv0 s).
Proof.
  intros Hw Hl. unfold kv_evict. rewrite Hw.
  induction kv0 as [|c kv0 IH]; [reflexivity|]. cbn [map]. rewrite !view_cons, filter_app, IH. f_equal.
  unfold has at 1. cbn [cseqs cpos ctok].
  assert (G : existsb (Nat.eqb s) (filter (fun s0 => match low_pos b s0 with Some p0 => negb (cpos c <? p0 - w) | None => true end) (cseqs c))
              = has s c && negb (cpos c <? p - w)).
  { unfold has. induction (cseqs c) as [|x l IHl]; [reflexivity|]. cbn [filter existsb].
    destruct (Nat.eqb s x) eqn:E.
    - apply Nat.eqb_eq in E. subst x. rewrite Hl. destruct (negb (cpos c <? p - w)); cbn [existsb orb andb].
      + rewrite Nat.eqb_refl. reflexivity.
      + rewrite IHl. apply andb_false_r.
    - cbn [orb]. destruct (match low_pos b x with Some p0 => _ | None => true end); cbn [existsb]; rewrite ?E; auto. }
  rewrite G. destruct (has s c); cbn [andb filter]; [|reflexivity].
  cbn [fst]. replace (p - w <=? cpos c) with (negb (cpos c <? p - w)) by lia. destruct (negb (cpos c <? p - w)); reflexivity.
Qed.

(** without a window nothing is evicted *)
Lemma view_evict_nowin cfg kv0 b s : window cfg = None -> view (kv_evict cfg kv0 b) s = view kv0 s.
Proof. intro H. rewrite kv_evict_none by auto. reflexivity. Qed.

(** ** a shift that keeps nothing: Remove(seq, 0, d) *)
Lemma range0_enumerate_hi lo d s l :
  d <= s ->
  map (range_map 0 d) (filter (fun e => lo <=? fst e) (enumerate s l)) = filter (fun e => lo - d <=? fst e) (enumerate (s - d) l).
Proof.
  revert s. induction l as [|x l IH]; intros s Hs; [reflexivity|]. cbn [enumerate filter fst].
  replace (lo - d <=? s - d) with (lo <=? s) by lia.
  destruct (lo <=? s); cbn [map]; rewrite (IH (s + 1)) by lia; replace (s + 1 - d) with (s - d + 1) by lia; [|reflexivity].
  f_equal. unfold range_map. cbn [fst snd]. replace (d <=? s) with true by lia. f_equal; lia.
Qed.

Lemma range0_wenum lo l d :
  0 <= d <= zlen l ->
  map (range_map 0 d) (filter (fun x => negb ((0 <=? fst x) && (fst x <? d))) (wenum lo l)) = wenum (lo - d) (skipn (Z.to_nat d) l).
Proof.
  intros Hd. unfold wenum. rewrite <- (firstn_skipn (Z.to_nat d) l) at 1.
  set (A := firstn (Z.to_nat d) l). set (D := skipn (Z.to_nat d) l).
  assert (HA : zlen A = d) by (subst A; rewrite zlen_firstn; lia).
  rewrite enumerate_app, !filter_app, map_app, HA. cbn [Z.add].
  rewrite (filter_none _ (filter _ (enumerate 0 A))).
  - cbn [map app]. rewrite (filter_all _ (filter _ (enumerate d D))).
    + rewrite range0_enumerate_hi by lia. rewrite Z.sub_diag. reflexivity.
    + intros e He. apply filter_In in He as [He _]. apply enumerate_ge in He. lia.
  - intros e He. apply filter_In in He as [He _]. apply enumerate_ge in He. lia.
Qed.

(** ** the window in the mask *)
Definition ref_vis (cfg : config) (W : list tok) : list (Z * tok) :=
  match window cfg with
  | None => enumerate 0 W
  | Some w => wenum (zlen W - 1 - w) W
  end.

Lemma visible_c_wenum cfg kv0 s lo X :
  view kv0 s = wenum lo X -> lo <= wlo cfg (zlen X - 1) ->
  visible_c cfg kv0 s (zlen X - 1) = ref_vis cfg X.
Proof.
  intros Hv Hlo. unfold visible_c, visible, ref_vis, wlo in *. rewrite Hv.
  assert (Hall : filter (fun e => fst e <=? zlen X - 1) (wenum lo X) = wenum lo X).
  { apply filter_all. intros [q t] Hin. apply wenum_In in Hin. cbn [fst]. lia. }
  rewrite Hall. destruct (window cfg) as [w|].
  - rewrite wenum_raise. unfold wenum. apply filter_ext_in. intros [q t] Hin. apply enumerate_In in Hin. cbn [fst]. lia.
  - apply wenum_le0. lia.
Qed.

Lemma sort_vis_ref_vis cfg W : sort_vis (ref_vis cfg W) = ref_vis cfg W.
Proof. unfold ref_vis. destruct (window cfg); [apply sort_vis_wenum|apply sort_vis_enumerate]. Qed.
