(** C07 — the encoder cache of a cross-attention model (kvcache/encoder.go behind kvcache/wrapper.go, the way
    model/models/mllama builds its cache: WrapperCache(EncoderCache, Causal)), on top of Slots/ModelMM.v.
    Executable definitions only; compared with the implementation on every run, no theorems.

    The encoder cache holds the cross-attention input of at most one image together with the sequence position of the
    input that carried it; it supports one sequence only, so the runner has one slot.  "What the model sees" is now the
    visible history of the causal cache plus that cross-attention input (given to the network as the pair (-1, code) in
    front of the history).

    - Forward (the model's cross-attention layer): if the batch contains image inputs, the last one is stored with its
      sequence position (StartForward: batch.Positions[batch.Multimodal[last].Index]; Put).
    - Remove(seq, b, e): the stored image is dropped if b <= position < e; if e is not "to the end" and e <= position
      the position moves down by e - b (context shift).
    LoadCacheSlot erases [numPast, end); ShiftCacheSlot erases [keep, keep+discard) and, if that fails, everything. *)
From Coq Require Import List ZArith NArith Bool Arith.
From V Require Import Common.Bytes Slots.StopFns Slots.Model Slots.ModelMM Slots.Corr.
Import ListNotations.
Open Scope Z_scope.

Definition encst := option (Z * tok).

Definition enc_remove (e : encst) (b en : Z) (toEnd : bool) : encst :=
  match e with
  | None => None
  | Some (p, c) =>
      if toEnd then (if b <=? p then None else e)
      else if (b <=? p) && (p <? en) then None
      else if en <=? p then Some (p - (en - b), c)
      else e
  end.

(** the context shift processBatch performs for the (only) sequence before it adds the first input of the batch *)
Definition enc_shift (cfg : config) (st : state) (e : encst) : encst :=
  match nth O (seqs st) None with
  | None => e
  | Some q =>
      if at_limit q then e
      else match q_pending q, q_inputs q with
           | [], inp :: _ =>
               let C := s_inputs (nth_slot (slots st) (q_slot q)) in
               if numCtx cfg <? zlen C + (1 + sb_of inp) then
                 match shift_cache_slot cfg (kv st) (q_slot q) C (q_keep q) with
                 | ShOk C' _ => enc_remove e (q_keep q) (q_keep q + (zlen C - zlen C')) false
                 | ShReprocess _ _ => None
                 | _ => e
                 end
               else e
           | _, _ => e
           end
  end.

Definition enc_put (b : list entry) (e : encst) : encst :=
  fold_left (fun acc x => if 1000 <=? e_tok x then Some (e_pos x, e_tok x) else acc) b e.

Definition crossF (F : list (Z * tok) -> tok) (e : encst) : list (Z * tok) -> tok :=
  fun vis => match e with Some (_, c) => F ((-1, c) :: vis) | None => F vis end.

Definition step_op_enc (F : list (Z * tok) -> tok) (cfg : config) (se : state * encst) (o : op) : (state * encst) * ores :=
  let '(st, e) := se in
  match o with
  | Submit _ _ _ _ =>
      let '(st', r) := step_op_mm F cfg st o in
      match r with
      | RSubmitted idx =>
          match nth idx (seqs st') None with
          | Some q => ((st', enc_remove e (zlen (s_inputs (nth_slot (slots st') (q_slot q)))) 0 true), r)
          | None => ((st', e), r)
          end
      | _ => ((st', e), r)
      end
  | Step =>
      let e1 := enc_shift cfg st e in
      match step_op_mm F cfg st Step with
      | (_, RStepped b _) =>
          let e2 := enc_put b e1 in
          let '(st', r) := step_op_mm (crossF F e2) cfg st Step in ((st', e2), r)
      | (st', r) => ((st', e), r)
      end
  end.

Definition enc_eqb (e : encst) (o : option Z) : bool :=
  match e, o with
  | None, None => true
  | Some (p, _), Some p' => p =? p'
  | _, _ => false
  end.

Fixpoint chk_from_enc (F : list (Z * tok) -> tok) (cfg : config) (se : state * encst) (tr : list (op * obs * option Z)) (i : nat) : option nat :=
  match tr with
  | [] => None
  | (o, ob, oe) :: r =>
      let '(se', res) := step_op_enc F cfg se o in
      if negb (res_eqb res (o_res ob)) then Some i
      else if terminal res then None
      else if state_eqb (fst se') ob && enc_eqb (snd se') oe then chk_from_enc F cfg se' r (S i) else Some i
  end.

Definition chk_trace_enc (vocab : Z) (cfg : config) (tr : list (op * obs * option Z)) : bool :=
  match chk_from_enc (hash_vis vocab) cfg (init 1, None) tr O with None => true | Some _ => false end.

Definition model_trace_enc (vocab : Z) (cfg : config) (ops : list op)
  : list (ores * list (list tok * bool) * list (option (list tok * list tok * nat * Z * list str)) * list (list (Z * tok)) * encst) :=
  snd (fold_left (fun acc o =>
                    let '(se, out) := acc in
                    let '(se', r) := step_op_enc (hash_vis vocab) cfg se o in
                    let st' := fst se' in
                    (se', out ++ [(r, map (fun s => (s_inputs s, s_inuse s)) (slots st'), map (option_map seq_proj) (seqs st'),
                                   map (fun i => sort_vis (view (kv st') i)) (seq O (length (slots st'))), snd se')]))
                 ops ((init 1, None), [])).

(** Known finding C07-encoder-earlier-image-lost, on the model: two images in one conversation (two chat turns with one
    image each); the next request keeps the first image and replaces what follows.  LoadCacheSlot erases from the
    common prefix on, the encoder cache drops the (second) image it held -- and the first image, still part of the
    recorded inputs and of the causal cache, has no cross-attention input any more: the request is evaluated
    without the image a fresh runner would give it. *)
Definition enc_cfg : config := mkCfg 8 4 false true true true (-1) None (-1).
Definition enc_ops : list op :=
  [Submit [1000; 0; 1001; 1] 1 0 []; Step; Step; Submit [1000; 0; 2] 1 0 []; Step].

Example enc_earlier_image_lost :
  let run ops := fold_left (fun se o => fst (step_op_enc (hash_vis 4) enc_cfg se o)) ops (init 1, None) in
  snd (run enc_ops) = None
  /\ map s_inputs (slots (fst (run enc_ops))) = [[1000; 0; 2]]
  /\ snd (run [Submit [1000; 0; 2] 1 0 []; Step]) = Some (0, 1000).
Proof. vm_compute. repeat split; reflexivity. Qed.
