(** C07 — a wrapper of caches behind the runner: every wrapped cache keeps the correspondence between the slots' recorded
    inputs and its own contents (the invariant of Slots/WBatch.v, per component), after any history. *)
From Coq Require Import List ZArith NArith Bool Arith Lia ZifyBool ZifyNat.
From V Require Import Common.Bytes Slots.StopFns Slots.Model Slots.ProofsKv Slots.ProofsWin Slots.WSlots Slots.WBatch Slots.Wrap.
Import ListNotations.
Open Scope Z_scope.

(** * the joint decisions do not touch what the invariant speaks about *)
Lemma win_ok_flags cfg a b : win_ok cfg -> win_ok (with_flags cfg a b).
Proof. intros H w Hw. apply H. exact Hw. Qed.

Lemma guard_in cfg a b k : shift_guard cfg k -> shift_guard (with_flags cfg a b) k.
Proof.
  unfold shift_guard. cbn [with_flags window canPartial]. intros [H|[H|H]]; [left|right; left|right; right]; auto.
  rewrite H. reflexivity.
Qed.
Lemma guard_out_true cfg b k : shift_guard (with_flags cfg true b) k -> shift_guard cfg k.
Proof. unfold shift_guard. cbn [with_flags window canPartial]. rewrite andb_true_r. auto. Qed.

Lemma live_ok_in cfg a b sl kv0 bt q : live_ok cfg sl kv0 bt q -> live_ok (with_flags cfg a b) sl kv0 bt q.
Proof. intros [A1 A2 A3 A4 A5 A6 A7 A8]. constructor; auto. apply guard_in. exact A7. Qed.
Lemma live_ok_out cfg a b sl kv0 bt q :
  live_ok (with_flags cfg a b) sl kv0 bt q -> shift_guard cfg (q_keep q) -> live_ok cfg sl kv0 bt q.
Proof. intros [A1 A2 A3 A4 A5 A6 A7 A8] Hg. constructor; auto. Qed.

Definition guards (cfg : config) (qs : list (option seqst)) : Prop :=
  forall k q, get_seq qs k = Some q -> shift_guard cfg (q_keep q).

Lemma mid_ok_in cfg a b sl kv0 qs bt : mid_ok cfg sl kv0 qs bt -> mid_ok (with_flags cfg a b) sl kv0 qs bt.
Proof. intros [B1 B2 B3 B4 B5]. constructor; auto. intros idx q Hq. apply live_ok_in. eauto. Qed.
Lemma mid_ok_out cfg a b sl kv0 qs bt : mid_ok (with_flags cfg a b) sl kv0 qs bt -> guards cfg qs -> mid_ok cfg sl kv0 qs bt.
Proof. intros [B1 B2 B3 B4 B5] Hg. constructor; auto. intros idx q Hq. eapply live_ok_out; eauto. Qed.
Lemma mid_ok_guards cfg sl kv0 qs bt : mid_ok cfg sl kv0 qs bt -> guards cfg qs.
Proof. intros Hm k q Hq. apply (lo_guard _ _ _ _ _ (mo_live _ _ _ _ _ Hm k q Hq)). Qed.

Lemma inv_in cfg a b st : inv cfg st -> inv (with_flags cfg a b) st.
Proof. intros [Hm Hin]. split; [apply mid_ok_in; exact Hm|exact Hin]. Qed.
Lemma inv_out_true cfg b st : inv (with_flags cfg true b) st -> inv cfg st.
Proof.
  intros [Hm Hin]. split; [|exact Hin]. eapply mid_ok_out; [exact Hm|].
  intros k q Hq. apply (guard_out_true cfg b). apply (lo_guard _ _ _ _ _ (mo_live _ _ _ _ _ Hm k q Hq)).
Qed.

(** * lists of optional results *)
Lemma all_some_map {A B} (f : A -> option B) (Q : A -> B -> Prop) (R : A -> Prop) l :
  Forall R l -> (forall x, R x -> exists y, f x = Some y /\ Q x y) ->
  exists l', all_some (map f l) = Some l' /\ Forall2 Q l l'.
Proof.
  intros H Hf. induction H as [|x l Hx Hl IH]; cbn [map all_some].
  - exists []. split; [reflexivity|constructor].
  - destruct (Hf x Hx) as (y & E & Hq). rewrite E. destruct IH as (l' & E' & H2). rewrite E'.
    exists (y :: l'). split; [reflexivity|constructor; auto].
Qed.

Lemma all_some_inv {A B} (f : A -> option B) l : forall l', all_some (map f l) = Some l' -> Forall2 (fun x y => f x = Some y) l l'.
Proof.
  induction l as [|x l IH]; intros l' H; cbn [map all_some] in H.
  - injection H as <-. constructor.
  - destruct (f x) as [y|] eqn:E; [|discriminate]. destruct (all_some (map f l)) as [r|]; [|discriminate].
    injection H as <-. constructor; auto.
Qed.

Lemma Forall2_Forall_r {A B} (Q : A -> B -> Prop) (R : A -> Prop) (P : B -> Prop) l l' :
  Forall2 Q l l' -> Forall R l -> (forall x y, R x -> Q x y -> P y) -> Forall P l'.
Proof. intros H2 HR Hp. induction H2; inversion HR; subst; constructor; eauto. Qed.

(** * accepting a request *)
Definition winv (cs : wstate) : Prop := Forall (fun c => inv (fst c) (snd c)) cs.
Definition wcfg_ok (cs : wstate) : Prop := Forall (fun c => 1 <= numCtx (fst c) /\ win_ok (fst c)) cs.

Lemma w_submit_cfgs cs prompt np keep stops : map fst (fst (w_submit cs prompt np keep stops)) = map fst cs.
Proof. unfold w_submit. cbn [fst]. rewrite !map_map. cbn [fst]. reflexivity. Qed.

Lemma w_submit_inv cs prompt np keep stops :
  wcfg_ok cs -> Forall (fun c => shift_guard (fst c) keep) cs -> winv cs -> winv (fst (w_submit cs prompt np keep stops)).
Proof.
  intros Hc Hg Hi. unfold w_submit, winv, wcfg_ok in *. cbn [fst]. rewrite map_map. apply Forall_map. cbn [fst snd].
  rewrite Forall_forall in *. intros c Hin. destruct (Hc c Hin) as [H1 H2].
  eapply inv_out_true. apply submit_inv; [exact H1|apply win_ok_flags; exact H2|apply guard_in; apply Hg; exact Hin|apply inv_in; apply Hi; exact Hin].
Qed.

(** * processBatch, first half *)
Lemma build_one_keeps cfg p i p' :
  build_one cfg p i = POk p' ->
  forall k q', get_seq (p_seqs p') k = Some q' -> exists q, get_seq (p_seqs p) k = Some q /\ q_keep q' = q_keep q.
Proof.
  unfold build_one. fold (get_seq (p_seqs p) i). destruct (get_seq (p_seqs p) i) as [q|] eqn:Eq.
  2:{ intro H. injection H as <-. intros k q' Hq. eauto. }
  destruct (at_limit q).
  - intro H. injection H as <-. cbn [p_seqs]. intros k q' Hq. destruct (Nat.eq_dec i k) as [->|Hne].
    + rewrite get_seq_set_same in Hq by (eapply get_seq_lt; eauto). discriminate.
    + rewrite get_seq_set_other in Hq by auto. eauto.
  - destruct (build_seq cfg i (q_slot q) (q_keep q) (q_inputs q) 0 _) as [b|]; [|discriminate].
    intro H. injection H as <-. cbn [p_seqs]. intros k q' Hq. destruct (Nat.eq_dec i k) as [->|Hne].
    + rewrite get_seq_set_same in Hq by (eapply get_seq_lt; eauto). injection Hq as <-. exists q. split; [exact Eq|reflexivity].
    + rewrite get_seq_set_other in Hq by auto. eauto.
Qed.

Definition item_ok (order : list nat) (x : witem) : Prop :=
  win_ok (it_cfg x) /\
  mid_ok (it_cfg x) (p_slots (it_p x)) (p_kv (it_p x)) (p_seqs (it_p x)) (p_batch (it_p x)) /\
  (forall idx, In idx order -> unprocessed (p_seqs (it_p x)) idx).

Definition item_same (x y : witem) : Prop := it_cfg y = it_cfg x /\ it_st y = it_st x.

Lemma build_item_ok part i order x :
  ~ In i order -> item_ok (i :: order) x -> exists y, build_item part i x = Some y /\ (item_ok order y /\ item_same x y).
Proof.
  intros Hni (Hw & Hm & Hun). unfold build_item.
  destruct (build_one_ok (with_flags (it_cfg x) part true) (it_p x) i (win_ok_flags _ _ _ Hw) (mid_ok_in _ _ _ _ _ _ _ Hm)
                         (Hun i (or_introl eq_refl))) as (p' & E & Hm' & Hsame & Hlen).
  rewrite E. eexists. split; [reflexivity|]. unfold item_ok, item_same, it_cfg, it_st, it_p. cbn [fst snd]. split; [|auto].
  split; [exact Hw|]. split.
  - eapply mid_ok_out; [exact Hm'|]. intros k q' Hq.
    destruct (build_one_keeps _ _ _ _ E k q' Hq) as (q & Eq & ->). apply (mid_ok_guards _ _ _ _ _ Hm k q Eq).
  - intros j Hj q Hq. rewrite Hsame in Hq by (intros ->; auto). apply (Hun j (or_intror Hj) q Hq).
Qed.

Lemma w_build_all_ok order : forall items,
  NoDup order -> Forall (item_ok order) items ->
  exists items', w_build_all items order = Some items' /\ Forall (item_ok []) items' /\ Forall2 item_same items items'.
Proof.
  induction order as [|i order IH]; intros items Hnd Hok; cbn [w_build_all].
  - exists items. split; [reflexivity|]. split; [exact Hok|]. clear. induction items; constructor; auto. split; reflexivity.
  - inversion Hnd as [|x l Hni Hnd']; subst.
    set (part := negb (existsb (fun x => shift_fails (it_cfg x) (it_p x) i) items)).
    destruct (all_some_map (build_item part i) (fun x y => item_ok order y /\ item_same x y) (item_ok (i :: order)) items Hok)
      as (items1 & E1 & H2).
    { intros x Hx. apply build_item_ok; auto. }
    rewrite E1.
    destruct (IH items1 Hnd') as (items' & E' & Hok' & Hs').
    { eapply Forall2_Forall_r; [exact H2|exact Hok|]. intros x y _ [Hy _]. exact Hy. }
    exists items'. split; [exact E'|]. split; [exact Hok'|].
    clear - H2 Hs'. revert items' Hs'. induction H2 as [|x y l l1 [_ [A1 A2]] H2 IH2]; intros items' Hs'; inversion Hs' as [|y' z l1' l2 [B1 B2] Hs2]; subst; constructor.
    + split; congruence.
    + apply IH2. exact Hs2.
Qed.

(** * processBatch, second half *)
Lemma post_all_v_spec G cfg kv' b qs : forall sl sl' qs' ev,
  post_all_v G cfg kv' b sl qs = Some (sl', qs', ev) ->
  length qs' = length qs /\ length sl' = length sl /\
  (forall i, (forall k q, get_seq qs k = Some q -> q_slot q <> i) -> nth_slot sl' i = nth_slot sl i) /\
  (forall k q, get_seq qs k = Some q ->
     (forall k2 q2, get_seq qs k2 = Some q2 -> q_slot q2 = q_slot q -> k2 = k) -> (q_slot q < length sl)%nat ->
     exists s' ev1, post_one (G q) cfg kv' b (nth_slot sl (q_slot q)) q = QOk s' (get_seq qs' k) ev1 /\ nth_slot sl' (q_slot q) = s') /\
  (forall k, get_seq qs k = None -> get_seq qs' k = None).
Proof.
  induction qs as [|o r IH]; intros sl sl' qs' ev H; cbn [post_all_v] in H.
  - injection H as <- <- <-. repeat split; auto. intros k q E. destruct k; discriminate.
  - destruct o as [q0|].
    + destruct (post_one (G q0) cfg kv' b (nth_slot sl (q_slot q0)) q0) as [s1 q0' ev1|] eqn:E1; [|discriminate].
      destruct (post_all_v G cfg kv' b (set_nth sl (q_slot q0) s1) r) as [[[sl2 r'] ev2]|] eqn:E2; [|discriminate].
      injection H as <- <- <-. destruct (IH _ _ _ _ E2) as (L1 & L2 & Hfr & Hown & Hnone).
      rewrite set_nth_length in L2. split; [cbn; lia|]. split; [auto|]. split; [|split].
      * intros i Hi. rewrite Hfr.
        -- apply nth_slot_set_other. apply (Hi 0%nat q0 eq_refl).
        -- intros k q E. apply (Hi (S k) q E).
      * intros [|k] q E Huniq Hlt.
        -- cbn in E. injection E as <-. exists s1, ev1. split; [exact E1|].
           rewrite Hfr; [apply nth_slot_set_same; auto|].
           intros k q E Hs. specialize (Huniq (S k) q E Hs). discriminate.
        -- change (get_seq r k = Some q) in E.
           assert (Hne : q_slot q0 <> q_slot q) by (intro Hs; specialize (Huniq 0%nat q0 eq_refl Hs); discriminate).
           destruct (Hown k q E) as (s' & ev' & P1 & P2).
           ++ intros k2 q2 E2' Hs. specialize (Huniq (S k2) q2 E2' Hs). lia.
           ++ rewrite set_nth_length. auto.
           ++ rewrite nth_slot_set_other in P1 by auto. exists s', ev'. auto.
      * intros [|k] E; [discriminate|]. apply (Hnone k E).
    + destruct (post_all_v G cfg kv' b sl r) as [[[sl2 r'] ev2]|] eqn:E2; [|discriminate].
      injection H as <- <- <-. destruct (IH _ _ _ _ E2) as (L1 & L2 & Hfr & Hown & Hnone).
      split; [cbn; lia|]. split; [auto|]. split; [|split].
      * intros i Hi. apply Hfr. intros k q E. apply (Hi (S k) q E).
      * intros [|k] q E Huniq Hlt; [discriminate|]. change (get_seq r k = Some q) in E.
        destruct (Hown k q E) as (s' & ev' & P1 & P2); auto.
        -- intros k2 q2 E2' Hs. specialize (Huniq (S k2) q2 E2' Hs). lia.
        -- exists s', ev'. auto.
      * intros [|k] E; [reflexivity|]. apply (Hnone k E).
Qed.

Lemma finish_item_inv G next x c :
  item_ok [] x -> finish_item G next x = Some c -> fst c = it_cfg x /\ inv (it_cfg x) (snd c).
Proof.
  intros (Hwin & Hmp & _). unfold finish_item, fwd_kv, it_b.
  set (cfg := it_cfg x) in *. set (p := it_p x) in *.
  destruct (p_batch p) as [|e0 b0] eqn:Eb.
  - intro H. injection H as <-. cbn [fst snd]. split; [reflexivity|]. split; cbn [slots kv seqs]; [exact Hmp|].
    intros idx q Hq Hnil. pose proof (mo_live _ _ _ _ _ Hmp idx q Hq) as Hl.
    apply (lo_nonempty _ _ _ _ _ Hl Hnil). eapply live_pending_nil; eauto.
  - rewrite <- Eb in *.
    set (kv' := kv_forward (kv_evict cfg (p_kv p) (p_batch p)) (p_batch p)).
    destruct (post_all_v G cfg kv' (p_batch p) (p_slots p) (p_seqs p)) as [[[sl' qs'] ev]|] eqn:EP; [|discriminate].
    intro H. injection H as <-. cbn [fst snd]. split; [reflexivity|].
    destruct (post_all_v_spec _ _ _ _ _ _ _ _ _ EP) as (L1 & L2 & Hfr & Hown & Hnone).
    assert (Hpost : forall k q, get_seq (p_seqs p) k = Some q ->
              exists s' ev1, post_one (G q) cfg kv' (p_batch p) (nth_slot (p_slots p) (q_slot q)) q = QOk s' (get_seq qs' k) ev1 /\
                             nth_slot sl' (q_slot q) = s').
    { intros k q Hq. apply Hown; auto.
      - intros k2 q2 E2 Hs. eapply (mo_inj _ _ _ _ _ Hmp); eauto.
      - apply (lo_slot _ _ _ _ _ (mo_live _ _ _ _ _ Hmp k q Hq)). }
    assert (Hpo : forall k q, get_seq (p_seqs p) k = Some q ->
              exists lo, lo <= wlo cfg (zlen (s_inputs (nth_slot (p_slots p) (q_slot q)) ++ q_pending q)) /\
              match post_one (G q) cfg kv' (p_batch p) (nth_slot (p_slots p) (q_slot q)) q with
              | QPanic => True
              | QOk s' (Some q1) _ =>
                  s_inuse s' = true /\ view kv' (q_slot q) = wenum lo (s_inputs s') /\ zlen (s_inputs s') <= numCtx cfg /\
                  s_inputs s' = s_inputs (nth_slot (p_slots p) (q_slot q)) ++ q_pending q /\
                  q_pending q1 = [] /\ q_inputs q1 <> [] /\ q_slot q1 = q_slot q /\ q_keep q1 = q_keep q
              | QOk s' None _ => s_inuse s' = false /\ view_lt kv' (q_slot q) (zlen (s_inputs s')) = wenum lo (s_inputs s')
              end).
    { intros k q Hq. pose proof (mo_live _ _ _ _ _ Hmp k q Hq) as Hl.
      destruct (forward_view_live cfg _ _ _ q Hwin Hl) as (lo & Hlo & _ & Hv). exists lo. split; [exact Hlo|].
      apply post_one_ok; [apply (lo_inuse _ _ _ _ _ Hl)|exact Hv|apply (lo_fit _ _ _ _ _ Hl)]. }
    assert (Hback : forall k q1, get_seq qs' k = Some q1 -> exists q, get_seq (p_seqs p) k = Some q).
    { intros k q1 E1. destruct (get_seq (p_seqs p) k) as [q|] eqn:Eq; [eauto|]. rewrite (Hnone k Eq) in E1. discriminate. }
    split; cbn [slots kv seqs].
    * constructor.
      -- rewrite L1, L2. apply (mo_len _ _ _ _ _ Hmp).
      -- intros k q1 E1. destruct (Hback k q1 E1) as (q & Eq).
         destruct (Hpost k q Eq) as (s' & ev1 & P1 & P2). destruct (Hpo k q Eq) as (lo & Hlo & Hpo'). rewrite P1, E1 in Hpo'.
         destruct Hpo' as (B1 & B2 & B3 & B3' & B4 & B5 & B6 & B7).
         pose proof (mo_live _ _ _ _ _ Hmp k q Eq) as Hl.
         constructor; rewrite ?B6, ?P2, ?B4, ?B7; auto.
         ++ rewrite L2. apply (lo_slot _ _ _ _ _ Hl).
         ++ exists lo. split; [rewrite B3'; exact Hlo|exact B2].
         ++ rewrite zlen_nil. lia.
         ++ apply (lo_keep _ _ _ _ _ Hl).
         ++ apply (lo_guard _ _ _ _ _ Hl).
      -- intros k1 k2 q1 q2 E1 E2 Hs. destruct (Hback k1 q1 E1) as (q10 & Eq1), (Hback k2 q2 E2) as (q20 & Eq2).
         destruct (Hpost k1 q10 Eq1) as (s1 & ev1 & P1 & _), (Hpost k2 q20 Eq2) as (s2 & ev2 & P2 & _).
         destruct (Hpo k1 q10 Eq1) as (lo1 & _ & Q1). destruct (Hpo k2 q20 Eq2) as (lo2 & _ & Q2). rewrite P1, E1 in Q1. rewrite P2, E2 in Q2.
         eapply (mo_inj _ _ _ _ _ Hmp); eauto. destruct Q1 as (_ & _ & _ & _ & _ & _ & S1 & _), Q2 as (_ & _ & _ & _ & _ & _ & S2 & _). congruence.
      -- intros i Hi Hu. rewrite L2 in Hi. split; [|reflexivity].
         destruct (s_inuse (nth_slot (p_slots p) i)) eqn:Hold.
         ++ destruct (mo_used _ _ _ _ _ Hmp i Hi Hold) as (k & q & Eq & <-).
            destruct (Hpost k q Eq) as (s' & ev1 & P1 & P2). destruct (Hpo k q Eq) as (lo & Hlo & Hpo'). rewrite P1 in Hpo'. rewrite P2 in *.
            destruct (get_seq qs' k); [destruct Hpo' as (B1 & _); congruence|].
            exists lo. split; [intro Hn; eapply lo_none; eauto|apply Hpo'].
         ++ rewrite Hfr.
            ** destruct (mo_idle _ _ _ _ _ Hmp i Hi Hold) as [I1 I2]. unfold view_lt, kv'. rewrite (forward_view_idle cfg _ _ i I2). exact I1.
            ** intros k q Eq <-. rewrite (lo_inuse _ _ _ _ _ (mo_live _ _ _ _ _ Hmp k q Eq)) in Hold. discriminate.
      -- intros i Hi Hu. rewrite L2 in Hi.
         destruct (s_inuse (nth_slot (p_slots p) i)) eqn:Hold.
         ++ destruct (mo_used _ _ _ _ _ Hmp i Hi Hold) as (k & q & Eq & <-).
            destruct (Hpost k q Eq) as (s' & ev1 & P1 & P2). destruct (Hpo k q Eq) as (lo & Hlo & Hpo'). rewrite P1 in Hpo'. rewrite P2 in *.
            destruct (get_seq qs' k) as [q1|] eqn:E1; [|destruct Hpo' as (B1 & _); congruence].
            exists k, q1. split; [auto|]. apply Hpo'.
         ++ rewrite Hfr in Hu; [congruence|].
            intros k q Eq <-. rewrite (lo_inuse _ _ _ _ _ (mo_live _ _ _ _ _ Hmp k q Eq)) in Hold. discriminate.
    * intros k q1 E1. destruct (Hback k q1 E1) as (q & Eq).
      destruct (Hpost k q Eq) as (s' & ev1 & P1 & P2). destruct (Hpo k q Eq) as (lo & _ & Hpo'). rewrite P1, E1 in Hpo'. apply Hpo'.
Qed.

Lemma Forall2_impl_l {A B} (Q Q' : A -> B -> Prop) (R : A -> Prop) l l' :
  Forall2 Q l l' -> Forall R l -> (forall x y, R x -> Q x y -> Q' x y) -> Forall2 Q' l l'.
Proof. intros H2 HR Hp. induction H2; inversion HR; subst; constructor; eauto. Qed.

Lemma Forall2_map_eq {A B C} (f : A -> C) (g : B -> C) l l' : Forall2 (fun x y => g y = f x) l l' -> map g l' = map f l.
Proof. induction 1; cbn; congruence. Qed.

Lemma Forall2_trans_map {A B C} (Q : A -> B -> Prop) (Q' : B -> C -> Prop) (Q'' : A -> C -> Prop) l1 l2 l3 :
  Forall2 Q l1 l2 -> Forall2 Q' l2 l3 -> (forall x y z, Q x y -> Q' y z -> Q'' x z) -> Forall2 Q'' l1 l3.
Proof.
  intros H1. revert l3. induction H1; intros l3 H2 Ht; inversion H2; subst; constructor; eauto.
Qed.

Lemma start_item_ok order c : win_ok (fst c) -> inv (fst c) (snd c) -> item_ok order (start_item c).
Proof.
  intros Hw [Hm Hin]. unfold item_ok, start_item, it_cfg, it_p. cbn [fst snd p_slots p_kv p_seqs p_batch].
  split; [exact Hw|]. split; [exact Hm|].
  intros idx _ q Hq. split; [eapply live_pending_nil; eapply (mo_live _ _ _ _ _ Hm); eauto|eapply Hin; eauto].
Qed.

Lemma start_items_cfg l l' : forall cs,
  l = map start_item cs -> Forall2 item_same l l' -> Forall2 (fun c0 x => it_cfg x = fst c0) cs l'.
Proof.
  intros cs El Hs. revert cs El.
  induction Hs as [|x y l l' [A _] Hs IH]; intros cs El; destruct cs as [|c cs1]; try discriminate; constructor.
  - cbn in El. injection El as -> _. rewrite A. reflexivity.
  - apply IH. cbn in El. injection El as _ ->. reflexivity.
Qed.

Lemma w_process_batch_ok F cs :
  wcfg_ok cs -> winv cs -> winv (fst (w_process_batch F cs)) /\ map fst (fst (w_process_batch F cs)) = map fst cs.
Proof.
  intros Hc Hi. unfold w_process_batch. destruct cs as [|[cfg0 st0] cs']; [split; auto|].
  destruct (all_nil (seqs st0)); [split; auto|].
  set (cs := (cfg0, st0) :: cs') in *.
  set (order := visit_order (length (seqs st0)) (nextSeq st0)).
  destruct (w_build_all_ok order (map start_item cs)) as (items & E & Hok & Hs).
  { apply visit_order_nodup. }
  { apply Forall_map. unfold wcfg_ok, winv in *. rewrite Forall_forall in *. intros c Hin.
    apply start_item_ok; [apply (Hc c Hin)|apply (Hi c Hin)]. }
  rewrite E. destruct items as [|x0 items']; [split; auto|].
  destruct (existsb item_full (x0 :: items')); [split; auto|].
  match goal with |- context [all_some (map (finish_item ?G ?n) ?l)] => destruct (all_some (map (finish_item G n) l)) as [cs2|] eqn:EF end; [|split; auto].
  cbn [fst]. apply all_some_inv in EF.
  assert (H2 : Forall2 (fun x c => fst c = it_cfg x /\ inv (fst c) (snd c)) (x0 :: items') cs2).
  { eapply Forall2_impl_l; [exact EF|exact Hok|]. intros x c Hx Hf. destruct (finish_item_inv _ _ _ _ Hx Hf) as [A B]. rewrite A. auto. }
  split.
  - unfold winv. eapply Forall2_Forall_r; [exact H2|exact Hok|]. intros x c _ [_ B]. exact B.
  - assert (H3 : Forall2 (fun c0 c => fst c = fst c0) cs cs2).
    { eapply Forall2_trans_map; [|exact H2|].
      - apply (start_items_cfg (map start_item cs) (x0 :: items') cs eq_refl Hs).
      - intros c0 x c A [B _]. cbn beta in *. congruence. }
    apply (Forall2_map_eq fst fst). exact H3.
Qed.

(** * histories *)
Definition wguard (cs : wstate) (o : op) : Prop := Forall (fun c => op_guard (fst c) o) cs.

Lemma wcfg_ok_ext cs cs' : map fst cs' = map fst cs -> wcfg_ok cs -> wcfg_ok cs'.
Proof.
  unfold wcfg_ok. intros E H.
  assert (H' : Forall (fun cfg => 1 <= numCtx cfg /\ win_ok cfg) (map fst cs)) by (apply Forall_map; exact H).
  rewrite <- E in H'. rewrite Forall_map in H'. exact H'.
Qed.
Lemma wguard_ext cs cs' o : map fst cs' = map fst cs -> wguard cs o -> wguard cs' o.
Proof.
  unfold wguard. intros E H.
  assert (H' : Forall (fun cfg => op_guard cfg o) (map fst cs)) by (apply Forall_map; exact H).
  rewrite <- E in H'. rewrite Forall_map in H'. exact H'.
Qed.

Section Reach.
  Variable F : list (Z * tok) -> tok.

  Lemma w_step_op_ok cs o :
    wcfg_ok cs -> wguard cs o -> winv cs -> winv (fst (w_step_op F cs o)) /\ map fst (fst (w_step_op F cs o)) = map fst cs.
  Proof.
    intros Hc Hg Hi. destruct o as [prompt np keep stops|]; cbn [w_step_op].
    - split; [apply w_submit_inv; auto|apply w_submit_cfgs].
    - apply w_process_batch_ok; auto.
  Qed.

  Lemma w_run_ok ops : forall cs,
    wcfg_ok cs -> Forall (wguard cs) ops -> winv cs -> winv (w_run F cs ops) /\ map fst (w_run F cs ops) = map fst cs.
  Proof.
    induction ops as [|o ops IH]; intros cs Hc Hg Hi; cbn [w_run fold_left]; [auto|].
    inversion Hg as [|o' l Ho Hg']; subst.
    destruct (w_step_op_ok cs o Hc Ho Hi) as [Hi1 Hc1].
    destruct (IH (fst (w_step_op F cs o))) as [Hi2 Hc2].
    - eapply wcfg_ok_ext; eauto.
    - rewrite Forall_forall in *. intros o2 Hin. eapply wguard_ext; [exact Hc1|]. apply Hg'. exact Hin.
    - exact Hi1.
    - split; [exact Hi2|]. unfold w_run in Hc2. congruence.
  Qed.
End Reach.

Lemma w_init_inv cfgs parallel : winv (w_init cfgs parallel).
Proof. unfold winv, w_init. apply Forall_map. cbn [fst snd]. apply Forall_forall. intros cfg _. apply init_inv. Qed.
Lemma w_init_cfgs cfgs parallel : map fst (w_init cfgs parallel) = cfgs.
Proof. unfold w_init. rewrite map_map. cbn [fst]. apply map_id. Qed.
