(** C07 — the single-sequence reference ("a fresh runner with an empty cache, for the same effective input") and
    the refinement invariant: after any history, every token sampled for a request was computed from exactly the
    reference window of that request. *)
From Coq Require Import List ZArith NArith Bool Arith Lia ZifyBool ZifyNat.
From V Require Import Common.Bytes Runner.Stop Slots.Model Slots.ProofsKv Slots.ProofsSlots Slots.ProofsBatch.
Import ListNotations.
Open Scope Z_scope.

Section Ref.
  Variable F : list (Z * tok) -> tok.
  Variable cfg : config.

  (** * The reference: a function of the request alone
      [W] is the list of inputs the model has been fed for the request (positions 0..|W|-1).  Feeding one more
      token first discards half of the non-kept history when the context is full. *)
  Definition feed (keep : Z) (W : list tok) (t : tok) : list tok :=
    (if numCtx cfg <? zlen W + 1 then shifted W keep (shift_discard cfg (zlen W) keep) else W) ++ [t].
  (** the window from which the n-th token (n = 0, 1, ...) is sampled; W0 = the prompt after truncation *)
  Fixpoint ref_win (keep : Z) (W : list tok) (n : nat) : list tok :=
    match n with
    | O => W
    | S k => ref_win keep (feed keep W (F (enumerate 0 W))) k
    end.
  Definition ref_tok (keep : Z) (W0 : list tok) (n : nat) : tok := F (enumerate 0 (ref_win keep W0 n)).

  Lemma ref_win_S keep W n :
    ref_win keep W (S n) = feed keep (ref_win keep W n) (F (enumerate 0 (ref_win keep W n))).
  Proof. revert W. induction n as [|n IH]; intro W; [reflexivity|]. cbn [ref_win] in *. rewrite IH. reflexivity. Qed.

  Lemma feed_len keep W t :
    0 <= keep < numCtx cfg -> zlen W <= numCtx cfg -> zlen (feed keep W t) <= numCtx cfg /\ 1 <= zlen (feed keep W t).
  Proof.
    intros Hk Hl. unfold feed. rewrite zlen_app. change (zlen [t]) with 1.
    destruct (numCtx cfg <? zlen W + 1) eqn:E.
    - destruct (shift_discard_bounds cfg (zlen W) keep Hk ltac:(lia)) as [D1 D2].
      rewrite shifted_length by lia. lia.
    - pose proof (zlen_nonneg W). lia.
  Qed.

  Lemma ref_win_len keep W0 n :
    0 <= keep < numCtx cfg -> zlen W0 <= numCtx cfg -> zlen (ref_win keep W0 n) <= numCtx cfg.
  Proof.
    intros Hk. revert W0. induction n as [|n IH]; intros W0 Hl; cbn [ref_win]; [auto|].
    apply IH. apply feed_len; auto.
  Qed.

  (** * projections of the ghost log *)
  Definition req_of (e : event) : nat :=
    match e with EvSubmit r _ _ => r | EvSample r _ _ => r | EvDone r _ => r end.
  Fixpoint samples_of (r : nat) (l : list event) : list (tok * list (Z * tok)) :=
    match l with
    | [] => []
    | EvSample r' t vis :: l' => if Nat.eqb r r' then (t, vis) :: samples_of r l' else samples_of r l'
    | _ :: l' => samples_of r l'
    end.
  Lemma samples_of_app r l1 l2 : samples_of r (l1 ++ l2) = samples_of r l1 ++ samples_of r l2.
  Proof.
    induction l1 as [|e l1 IH]; [reflexivity|]. cbn [app samples_of]. destruct e; auto.
    destruct (Nat.eqb r req); cbn [app]; rewrite IH; reflexivity.
  Qed.
  Lemma samples_of_other r l : (forall e, In e l -> req_of e <> r) -> samples_of r l = [].
  Proof.
    induction l as [|e l IH]; intro H; [reflexivity|]. cbn [samples_of].
    assert (IH' : samples_of r l = []) by (apply IH; intros; apply H; right; auto).
    destruct e; auto. specialize (H _ (or_introl eq_refl)). cbn in H.
    replace (Nat.eqb r req) with false; [auto|]. symmetry. apply Nat.eqb_neq. auto.
  Qed.

  (** every sample recorded for a submitted request is the reference's *)
  Definition log_ok (l : list event) : Prop :=
    forall r W0 keep, In (EvSubmit r W0 keep) l ->
      forall j t vis, nth_error (samples_of r l) j = Some (t, vis) ->
        vis = enumerate 0 (ref_win keep W0 j) /\ t = F vis.
  (** request ids are unique and below the counter *)
  Definition log_ids (l : list event) (n : nat) : Prop :=
    (forall e, In e l -> (req_of e < n)%nat) /\
    (forall r W0 keep W0' keep', In (EvSubmit r W0 keep) l -> In (EvSubmit r W0' keep') l -> W0 = W0' /\ keep = keep').

  (** * the refinement relation of one live sequence *)
  Definition nsamples (r : nat) (l : list event) : nat := length (samples_of r l).

  Definition seq_ref (l : list event) (C : list tok) (q : seqst) : Prop :=
    exists W0, In (EvSubmit (q_req q) W0 (q_keep q)) l /\ zlen W0 <= numCtx cfg /\
      let W := ref_win (q_keep q) W0 (nsamples (q_req q) l) in
      (C ++ q_pending q ++ q_inputs q = W \/
       (q_pending q = [] /\ exists t, q_inputs q = [t] /\ numCtx cfg < zlen C + 1 /\
        W = shifted C (q_keep q) (shift_discard cfg (zlen C) (q_keep q)) ++ [t])).

  (** the batch entry from which a sequence that has consumed all its inputs will be sampled *)
  Definition out_entry (b : list entry) (C : list tok) (q : seqst) : Prop :=
    q_inputs q = [] ->
    exists e, nth_error (outputs_of b) (q_ibatch q) = Some e /\ e_seq e = q_slot q /\ e_pos e = zlen C + zlen (q_pending q) - 1.

  Record mid2 (sl : list slot) (qs : list (option seqst)) (b : list entry) (nout : nat) (l : list event) : Prop := mkMid2 {
    m2_nout : nout = length (outputs_of b);
    m2_live : forall idx q, get_seq qs idx = Some q ->
              seq_ref l (s_inputs (nth_slot sl (q_slot q))) q /\ out_entry b (s_inputs (nth_slot sl (q_slot q))) q;
    m2_req : forall i1 i2 q1 q2, get_seq qs i1 = Some q1 -> get_seq qs i2 = Some q2 -> q_req q1 = q_req q2 -> i1 = i2
  }.

  Definition inv2 (st : state) : Prop :=
    mid2 (slots st) (seqs st) [] 0 (log st) /\ log_ok (log st) /\ log_ids (log st) (nreq st) /\
    (forall idx q, get_seq (seqs st) idx = Some q -> (q_req q < nreq st)%nat).

  Lemma outputs_of_app b1 b2 : outputs_of (b1 ++ b2) = outputs_of b1 ++ outputs_of b2.
  Proof. unfold outputs_of. apply filter_app. Qed.

  (** * the inner loop when no shift is due: a prefix of seq.inputs moves into the batch *)
  Lemma skipn_cons_nth {A} i (l : list A) x r : skipn i l = x :: r -> skipn (S i) l = r /\ (i < length l)%nat.
  Proof.
    revert l. induction i as [|i IH]; intros l H.
    - cbn in H. subst. cbn. split; [auto|lia].
    - destruct l as [|y l]; [discriminate|]. cbn [skipn] in H. apply IH in H. cbn [skipn length]. split; [apply H|lia].
  Qed.
  Lemma firstn_S_skipn {A} i (l : list A) x r : skipn i l = x :: r -> firstn (S i) l = firstn i l ++ [x].
  Proof.
    revert l. induction i as [|i IH]; intros l H.
    - cbn in H. subst. reflexivity.
    - destruct l as [|y l]; [discriminate|]. cbn [skipn] in H. rewrite !firstn_cons, (IH l H). reflexivity.
  Qed.

  Lemma build_seq_plain seqIdx slotId keep I : forall rng i b,
    b_inputs b = I -> b_pending b = firstn i I -> rng = skipn i I -> (i <= length I)%nat ->
    zlen (b_C b) + zlen I <= numCtx cfg -> b_nout b = length (outputs_of (b_batch b)) ->
    exists m b', build_seq cfg seqIdx slotId keep rng i b = BOk b' /\ (i <= m <= length I)%nat /\
      b_C b' = b_C b /\ b_kv b' = b_kv b /\ b_inputs b' = I /\ b_pending b' = firstn m I /\
      b_nout b' = length (outputs_of (b_batch b')) /\
      (exists ext, b_batch b' = b_batch b ++ ext) /\
      (m = length I -> (i < length I)%nat ->
       exists e, nth_error (outputs_of (b_batch b')) (b_ibatch b') = Some e /\ e_seq e = slotId /\
                 e_pos e = zlen (b_C b) + Z.of_nat m - 1).
  Proof.
    induction rng as [|inp rest IH]; intros i b HI HP Hr Hile Hfit Hn; cbn [build_seq].
    - exists i, b. split; [reflexivity|].
      assert (Hi : (length I <= i)%nat).
      { destruct (Nat.le_gt_cases (length I) i); auto. exfalso.
        assert (length (skipn i I) = 0%nat) by (rewrite <- Hr; reflexivity). rewrite skipn_length in H0. lia. }
      repeat split; auto; try lia.
      exists []. rewrite app_nil_r. reflexivity.
    - symmetry in Hr. destruct (skipn_cons_nth _ _ _ _ Hr) as [Hr' Hlt].
      destruct (batchSize cfg <? zlen (b_batch b) + 1).
      { destruct (set_resume_same seqIdx b) as (E1 & E2 & E3 & E4 & E5 & E6).
        exists i, (set_resume seqIdx b). split; [reflexivity|]. rewrite E1, E2, E3, E4, E5, E6.
        repeat split; auto; try lia.
        exists []. rewrite app_nil_r. reflexivity. }
      assert (Hpl : zlen (b_pending b) = Z.of_nat i) by (rewrite HP, zlen_firstn; unfold zlen; lia).
      assert (Hno : (numCtx cfg <? zlen (b_C b) + zlen (b_pending b) + 1) = false).
      { unfold zlen in *. lia. }
      rewrite Hno.
      set (b1 := add_input slotId i inp b).
      destruct (IH (S i) b1) as (m & b' & E & Hm & R1 & R2 & R3 & R4 & R5 & (ext & R6) & R7).
      + unfold b1, add_input. cbn [b_inputs]. auto.
      + unfold b1, add_input. cbn [b_pending]. rewrite HP. symmetry. eapply firstn_S_skipn. eauto.
      + auto.
      + lia.
      + unfold b1, add_input. cbn [b_C]. auto.
      + unfold b1, add_input. cbn [b_nout b_batch]. rewrite outputs_of_app, app_length, <- Hn.
        destruct (S i =? length (b_inputs b))%nat; cbn; lia.
      + exists m, b'. split; [exact E|]. unfold b1, add_input in R1, R2, R6. cbn [b_C b_kv b_batch] in R1, R2, R6.
        repeat split; auto; try lia.
        * exists ([mkEntry inp (zlen (b_C b) + zlen (b_pending b)) slotId (S i =? length (b_inputs b))%nat] ++ ext).
          rewrite R6, <- app_assoc. reflexivity.
        * intros Hml _. destruct (Nat.eq_dec (S i) (length I)) as [Hlast|Hnl].
          -- (* this was the last input: it is the output, and the loop is over *)
             assert (Hrest : rest = []).
             { assert (length rest = 0%nat) by (rewrite <- Hr', skipn_length; lia). destruct rest; [auto|discriminate]. }
             rewrite Hrest in E. cbn [build_seq] in E. injection E as <-.
             unfold b1, add_input. cbn [b_batch b_ibatch b_C].
             rewrite HI. replace (S i =? length I)%nat with true by (symmetry; apply Nat.eqb_eq; auto).
             eexists. split.
             ++ rewrite outputs_of_app, nth_error_app2 by lia. rewrite Hn, Nat.sub_diag. unfold outputs_of. cbn. reflexivity.
             ++ cbn [e_seq e_pos]. split; [reflexivity|]. lia.
          -- apply R7; auto. lia.
  Qed.

  (** * the inner loop when a shift is due: the sequence holds exactly one generated token *)
  Lemma build_seq_shift seqIdx slotId keep t b :
    0 <= keep < numCtx cfg -> b_pending b = [] -> b_inputs b = [t] ->
    numCtx cfg < zlen (b_C b) + 1 -> zlen (b_C b) <= numCtx cfg ->
    view (b_kv b) slotId = enumerate 0 (b_C b) -> b_nout b = length (outputs_of (b_batch b)) ->
    let W := shifted (b_C b) keep (shift_discard cfg (zlen (b_C b)) keep) in
    exists b', build_seq cfg seqIdx slotId keep [t] 0 b = BOk b' /\
      b_nout b' = length (outputs_of (b_batch b')) /\ (exists ext, b_batch b' = b_batch b ++ ext) /\
      ((b_C b' = b_C b /\ b_pending b' = [] /\ b_inputs b' = [t] /\ b_batch b' = b_batch b) \/
       (b_C b' = W /\ b_pending b' = [t] /\ b_inputs b' = [t] /\
        exists e, nth_error (outputs_of (b_batch b')) (b_ibatch b') = Some e /\ e_seq e = slotId /\ e_pos e = zlen W) \/
       (b_C b' = [] /\ b_pending b' = [] /\ b_inputs b' = W ++ [t] /\ b_batch b' = b_batch b)).
  Proof.
    intros Hk HP HI Hdue Hle Hv Hn W. cbn [build_seq].
    destruct (batchSize cfg <? zlen (b_batch b) + 1).
    { destruct (set_resume_same seqIdx b) as (E1 & E2 & E3 & E4 & E5 & E6).
      exists (set_resume seqIdx b). split; [reflexivity|]. rewrite E5, E6. split; [auto|]. split; [exists []; rewrite app_nil_r; reflexivity|].
      left. rewrite E1, E3, E4. auto. }
    rewrite HP. replace (numCtx cfg <? zlen (b_C b) + zlen (@nil tok) + 1) with true by (rewrite zlen_nil; lia).
    pose proof (shift_cache_slot_ok cfg (b_kv b) slotId (b_C b) keep Hk ltac:(lia) Hv) as Hs. cbn zeta in Hs. fold W in Hs.
    destruct (shift_cache_slot cfg (b_kv b) slotId (b_C b) keep) as [|C' kv'|re kv'|]; try contradiction.
    - destruct Hs as (-> & _ & _). eexists. split; [reflexivity|].
      unfold add_input. cbn [b_nout b_batch b_C b_pending b_inputs b_ibatch]. rewrite HI. cbn [length Nat.eqb].
      split; [rewrite outputs_of_app, app_length, Hn; cbn; lia|]. split; [eexists; reflexivity|].
      right. left. repeat split; auto. eexists. split.
      + rewrite outputs_of_app, nth_error_app2 by lia. rewrite Hn, Nat.sub_diag. unfold outputs_of. cbn. reflexivity.
      + cbn [e_seq e_pos]. split; [reflexivity|lia].
    - destruct Hs as (-> & _ & _). eexists. split; [reflexivity|]. cbn [b_nout b_batch b_C b_pending b_inputs].
      split; [auto|]. split; [exists []; rewrite app_nil_r; reflexivity|]. right. right. rewrite HI. auto.
  Qed.

  (** * one sequence of the outer loop *)
  Definition only_done (qs : list (option seqst)) (ext : list event) : Prop :=
    forall e, In e ext -> exists k q rs, get_seq qs k = Some q /\ e = EvDone (q_req q) rs.

  Lemma only_done_samples qs ext r : only_done qs ext -> samples_of r ext = [].
  Proof.
    induction ext as [|e ext IH]; intro H; [reflexivity|]. cbn [samples_of].
    assert (IH' : samples_of r ext = []) by (apply IH; intros e' He'; apply H; right; auto).
    destruct (H e (or_introl eq_refl)) as (k & q & rs & _ & ->). auto.
  Qed.

  Lemma seq_ref_ext qs l ext C q : only_done qs ext -> seq_ref l C q -> seq_ref (l ++ ext) C q.
  Proof.
    intros Hd (W0 & Hin & Hl & Hw). exists W0. split; [apply in_or_app; auto|]. split; [auto|].
    unfold nsamples in *. rewrite samples_of_app, (only_done_samples qs ext _ Hd), app_nil_r. exact Hw.
  Qed.

  Lemma out_entry_ext b ext C q : out_entry b C q -> out_entry (b ++ ext) C q.
  Proof.
    intros H Hi. destruct (H Hi) as (e & E1 & E2 & E3). exists e. split; [|auto].
    rewrite outputs_of_app, nth_error_app1; [auto|]. apply nth_error_Some. congruence.
  Qed.

  Lemma build_one2 p idx :
    mid_ok cfg (p_slots p) (p_kv p) (p_seqs p) (p_batch p) -> unprocessed (p_seqs p) idx ->
    mid2 (p_slots p) (p_seqs p) (p_batch p) (p_nout p) (p_log p) ->
    exists p', build_one cfg p idx = POk p' /\
      mid2 (p_slots p') (p_seqs p') (p_batch p') (p_nout p') (p_log p') /\
      (exists ext, p_log p' = p_log p ++ ext /\ only_done (p_seqs p) ext) /\
      (forall k q', get_seq (p_seqs p') k = Some q' -> exists q, get_seq (p_seqs p) k = Some q /\ q_req q' = q_req q).
  Proof.
    intros Hm Hun H2. unfold build_one. fold (get_seq (p_seqs p) idx).
    destruct (get_seq (p_seqs p) idx) as [q|] eqn:Eq.
    2:{ exists p. split; [reflexivity|]. split; [exact H2|]. split; [exists []; rewrite app_nil_r; split; [auto|intros e []]|eauto]. }
    destruct (Hun q Eq) as [Hpend Hinp].
    pose proof (mo_live _ _ _ _ _ Hm idx q Eq) as Hq.
    pose proof (get_seq_lt _ _ _ Eq) as Hidx.
    pose proof (lo_slot _ _ _ _ _ Hq) as Hslot.
    assert (Hother : forall j q2, j <> idx -> get_seq (p_seqs p) j = Some q2 -> q_slot q2 <> q_slot q).
    { intros j q2 Hj E2 Hs. apply Hj. eapply (mo_inj _ _ _ _ _ Hm); eauto. }
    destruct (m2_live _ _ _ _ _ H2 idx q Eq) as [Href Hout].
    destruct (at_limit q).
    - (* removeSequence *)
      eexists. split; [reflexivity|]. cbn [p_slots p_kv p_seqs p_batch p_nout p_log].
      assert (Hd : only_done (p_seqs p) [EvDone (q_req q) DoneLength]).
      { intros e [<-|[]]. exists idx, q, DoneLength. auto. }
      split; [|split; [eauto|]].
      + constructor.
        * apply (m2_nout _ _ _ _ _ H2).
        * intros j q2 E2. destruct (Nat.eq_dec idx j) as [->|Hj]; [rewrite get_seq_set_same in E2 by auto; discriminate|].
          rewrite get_seq_set_other in E2 by auto. destruct (m2_live _ _ _ _ _ H2 j q2 E2) as [R1 R2].
          rewrite release_other by (intro E; eapply Hother; [| exact E2 | symmetry; exact E]; auto).
          split; [eapply seq_ref_ext; eauto|auto].
        * intros i1 i2 q1 q2 E1 E2 Hs.
          destruct (Nat.eq_dec idx i1) as [->|H1]; [rewrite get_seq_set_same in E1 by auto; discriminate|].
          destruct (Nat.eq_dec idx i2) as [->|H2']; [rewrite get_seq_set_same in E2 by auto; discriminate|].
          rewrite get_seq_set_other in E1, E2 by auto. eapply (m2_req _ _ _ _ _ H2); eauto.
      + intros k q' E'. destruct (Nat.eq_dec idx k) as [->|Hk]; [rewrite get_seq_set_same in E' by auto; discriminate|].
        rewrite get_seq_set_other in E' by auto. eauto.
    - (* the inner loop *)
      set (C := s_inputs (nth_slot (p_slots p) (q_slot q))) in *.
      set (b0 := mkB C (p_kv p) (q_pending q) (q_inputs q) (p_batch p) (p_nout p) (q_ibatch q) (p_resume p)).
      assert (Hn0 : b_nout b0 = length (outputs_of (b_batch b0))) by (apply (m2_nout _ _ _ _ _ H2)).
      assert (Hres : exists b', build_seq cfg idx (q_slot q) (q_keep q) (q_inputs q) 0 b0 = BOk b' /\
                 b_nout b' = length (outputs_of (b_batch b')) /\ (exists ext, b_batch b' = p_batch p ++ ext) /\
                 let q' := mkSeq (skipn (length (b_pending b')) (b_inputs b')) (b_pending b') (q_slot q) (q_npredict q) (q_npredicted q)
                                 (q_keep q) (q_pend q) (q_stops q) (b_ibatch b') (q_req q) in
                 seq_ref (p_log p) (b_C b') q' /\ out_entry (b_batch b') (b_C b') q').
      { destruct Href as (W0 & Hsub & HW0 & Hw). rewrite Hpend in Hw. cbn [app] in Hw.
        pose proof (ref_win_len (q_keep q) W0 (nsamples (q_req q) (p_log p)) (lo_keep _ _ _ _ _ Hq) HW0) as HWl.
        destruct Hw as [Hw|(_ & t & HIt & Hdue & Hw)].
        - (* no shift can be due *)
          destruct (build_seq_plain idx (q_slot q) (q_keep q) (q_inputs q) (q_inputs q) 0 b0) as (m & b' & E & Hmle & R1 & R2 & R3 & R4 & R5 & R6 & R7); auto.
          + unfold b0. cbn [b_pending]. rewrite Hpend. reflexivity.
          + lia.
          + unfold b0. cbn [b_C]. rewrite <- Hw, zlen_app in HWl. exact HWl.
          + exists b'. split; [exact E|]. split; [exact R5|]. split; [exact R6|]. cbn zeta.
            rewrite R1, R3, R4. unfold b0. cbn [b_C]. rewrite firstn_length, Nat.min_l by lia. split.
            * exists W0. split; [exact Hsub|]. split; [exact HW0|]. cbn [q_req q_keep q_pending q_inputs]. left.
              rewrite firstn_skipn. exact Hw.
            * intro Hnil. cbn [q_inputs q_ibatch q_slot q_pending] in *.
              assert (Hm' : m = length (q_inputs q)).
              { apply (f_equal (@length tok)) in Hnil. rewrite skipn_length in Hnil. cbn in Hnil. lia. }
              destruct (R7 Hm') as (e & X1 & X2 & X3).
              -- destruct (q_inputs q); [congruence|cbn; lia].
              -- exists e. split; [exact X1|]. split; [exact X2|]. rewrite X3. unfold b0. cbn [b_C].
                 rewrite zlen_firstn. unfold zlen. lia.
        - (* a shift is due *)
          destruct (build_seq_shift idx (q_slot q) (q_keep q) t b0 (lo_keep _ _ _ _ _ Hq)) as (b' & E & R1 & R2 & R3); auto.
          + unfold b0. cbn [b_C]. pose proof (lo_fit _ _ _ _ _ Hq) as Hf. fold C in Hf. pose proof (zlen_nonneg (q_pending q)). lia.
          + apply (lo_view _ _ _ _ _ Hq).
          + rewrite HIt. exists b'. split; [exact E|]. split; [exact R1|]. split; [exact R2|]. cbn zeta. unfold b0 in R3. cbn [b_C b_batch] in R3.
            destruct R3 as [(X1 & X2 & X3 & X4)|[(X1 & X2 & X3 & e & X4 & X5 & X6)|(X1 & X2 & X3 & X4)]]; rewrite X1, X2, X3; cbn [length skipn].
            * split.
              -- exists W0. split; [exact Hsub|]. split; [exact HW0|]. cbn [q_req q_keep q_pending q_inputs]. right. split; [auto|]. exists t. auto.
              -- intro Hnil. discriminate.
            * split.
              -- exists W0. split; [exact Hsub|]. split; [exact HW0|]. cbn [q_req q_keep q_pending q_inputs]. left.
                 rewrite app_nil_r. symmetry. exact Hw.
              -- intros _. exists e. cbn [q_ibatch q_slot q_pending]. split; [exact X4|]. split; [exact X5|]. rewrite X6. change (zlen [t]) with 1. lia.
            * split.
              -- exists W0. split; [exact Hsub|]. split; [exact HW0|]. cbn [q_req q_keep q_pending q_inputs]. left. symmetry. exact Hw.
              -- intro Hnil. cbn [q_inputs] in Hnil. apply app_eq_nil in Hnil as [_ Hnil]. discriminate. }
      destruct Hres as (b' & E & R1 & (ext & R2) & Hq').
      rewrite E. eexists. split; [reflexivity|]. cbn [p_slots p_kv p_seqs p_batch p_nout p_log]. cbn zeta in Hq'.
      set (q' := mkSeq (skipn (length (b_pending b')) (b_inputs b')) (b_pending b') (q_slot q) (q_npredict q) (q_npredicted q)
                       (q_keep q) (q_pend q) (q_stops q) (b_ibatch b') (q_req q)) in *.
      split; [|split].
      + constructor.
        * exact R1.
        * intros j q2 E2. destruct (Nat.eq_dec idx j) as [<-|Hj].
          -- rewrite get_seq_set_same in E2 by auto. injection E2 as <-.
             change (q_slot q') with (q_slot q). rewrite set_slot_inputs_same by auto. cbn [s_inputs]. exact Hq'.
          -- rewrite get_seq_set_other in E2 by auto. destruct (m2_live _ _ _ _ _ H2 j q2 E2) as [X1 X2].
             rewrite set_slot_inputs_other by (intro Es; eapply Hother; [| exact E2 | symmetry; exact Es]; auto).
             split; [exact X1|]. rewrite R2. apply out_entry_ext. exact X2.
        * intros i1 i2 q1 q2 E1 E2 Hs.
          assert (G : forall i0 q0, get_seq (set_nth (p_seqs p) idx (Some q')) i0 = Some q0 ->
                                     exists q00, get_seq (p_seqs p) i0 = Some q00 /\ q_req q00 = q_req q0).
          { intros i0 q0 E0. destruct (Nat.eq_dec idx i0) as [<-|H0].
            - rewrite get_seq_set_same in E0 by auto. injection E0 as <-. exists q. auto.
            - rewrite get_seq_set_other in E0 by auto. exists q0. auto. }
          destruct (G _ _ E1) as (q10 & E10 & S1), (G _ _ E2) as (q20 & E20 & S2).
          eapply (m2_req _ _ _ _ _ H2); eauto. congruence.
      + exists []. rewrite app_nil_r. split; [reflexivity|intros e []].
      + intros k q2 E2. destruct (Nat.eq_dec idx k) as [<-|Hk].
        * rewrite get_seq_set_same in E2 by auto. injection E2 as <-. exists q. auto.
        * rewrite get_seq_set_other in E2 by auto. eauto.
  Qed.
End Ref.
