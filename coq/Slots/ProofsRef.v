(** C07 — the single-sequence reference ("a fresh runner with an empty cache, for the same effective input") and
    the refinement invariant: after any history, every token sampled for a request was computed from exactly the
    reference window of that request. *)
From Coq Require Import List ZArith NArith Bool Arith Lia ZifyBool ZifyNat.
From V Require Import Common.Bytes Runner.Stop Slots.Model Slots.ProofsKv Slots.ProofsSlots Slots.ProofsBatch.
Import ListNotations.
Open Scope Z_scope.

Section Ref.
  Variable F : list (Z * tok) -> tok.
  Variable cfg : config.

  (** * The reference: a function of the request alone
      [W] is the list of inputs the model has been fed for the request (positions 0..|W|-1).  Feeding one more
      token first discards half of the non-kept history when the context is full. *)
  Definition feed (keep : Z) (W : list tok) (t : tok) : list tok :=
    (if numCtx cfg <? zlen W + 1 then shifted W keep (shift_discard cfg (zlen W) keep) else W) ++ [t].
  (** the window from which the n-th token (n = 0, 1, ...) is sampled; W0 = the prompt after truncation *)
  Fixpoint ref_win (keep : Z) (W : list tok) (n : nat) : list tok :=
    match n with
    | O => W
    | S k => ref_win keep (feed keep W (F (enumerate 0 W))) k
    end.
  Definition ref_tok (keep : Z) (W0 : list tok) (n : nat) : tok := F (enumerate 0 (ref_win keep W0 n)).

  Lemma ref_win_S keep W n :
    ref_win keep W (S n) = feed keep (ref_win keep W n) (F (enumerate 0 (ref_win keep W n))).
  Proof. revert W. induction n as [|n IH]; intro W; [reflexivity|]. cbn [ref_win] in *. rewrite IH. reflexivity. Qed.

  Lemma feed_len keep W t :
    0 <= keep < numCtx cfg -> zlen W <= numCtx cfg -> zlen (feed keep W t) <= numCtx cfg /\ 1 <= zlen (feed keep W t).
  Proof.
    intros Hk Hl. unfold feed. rewrite zlen_app. change (zlen [t]) with 1.
    destruct (numCtx cfg <? zlen W + 1) eqn:E.
    - destruct (shift_discard_bounds cfg (zlen W) keep Hk ltac:(lia)) as [D1 D2].
      rewrite shifted_length by lia. lia.
    - pose proof (zlen_nonneg W). lia.
  Qed.

  Lemma ref_win_len keep W0 n :
    0 <= keep < numCtx cfg -> zlen W0 <= numCtx cfg -> zlen (ref_win keep W0 n) <= numCtx cfg.
  Proof.
    intros Hk. revert W0. induction n as [|n IH]; intros W0 Hl; cbn [ref_win]; [auto|].
    apply IH. apply feed_len; auto.
  Qed.

  (** * projections of the ghost log *)
  Definition req_of (e : event) : nat :=
    match e with EvSubmit r _ _ => r | EvSample r _ _ => r | EvDone r _ => r end.
  Fixpoint samples_of (r : nat) (l : list event) : list (tok * list (Z * tok)) :=
    match l with
    | [] => []
    | EvSample r' t vis :: l' => if Nat.eqb r r' then (t, vis) :: samples_of r l' else samples_of r l'
    | _ :: l' => samples_of r l'
    end.
  Lemma samples_of_app r l1 l2 : samples_of r (l1 ++ l2) = samples_of r l1 ++ samples_of r l2.
  Proof.
    induction l1 as [|e l1 IH]; [reflexivity|]. cbn [app samples_of]. destruct e; auto.
    destruct (Nat.eqb r req); cbn [app]; rewrite IH; reflexivity.
  Qed.
  Lemma samples_of_other r l : (forall e, In e l -> req_of e <> r) -> samples_of r l = [].
  Proof.
    induction l as [|e l IH]; intro H; [reflexivity|]. cbn [samples_of].
    assert (IH' : samples_of r l = []) by (apply IH; intros; apply H; right; auto).
    destruct e; auto. specialize (H _ (or_introl eq_refl)). cbn in H.
    replace (Nat.eqb r req) with false; [auto|]. symmetry. apply Nat.eqb_neq. auto.
  Qed.

  (** every sample recorded for a submitted request is the reference's *)
  Definition log_ok (l : list event) : Prop :=
    forall r W0 keep, In (EvSubmit r W0 keep) l ->
      forall j t vis, nth_error (samples_of r l) j = Some (t, vis) ->
        vis = enumerate 0 (ref_win keep W0 j) /\ t = F vis.
  (** request ids are unique and below the counter *)
  Definition log_ids (l : list event) (n : nat) : Prop :=
    (forall e, In e l -> (req_of e < n)%nat) /\
    (forall r W0 keep W0' keep', In (EvSubmit r W0 keep) l -> In (EvSubmit r W0' keep') l -> W0 = W0' /\ keep = keep').

  (** * the refinement relation of one live sequence *)
  Definition nsamples (r : nat) (l : list event) : nat := length (samples_of r l).

  Definition seq_ref (l : list event) (C : list tok) (q : seqst) : Prop :=
    exists W0, In (EvSubmit (q_req q) W0 (q_keep q)) l /\ zlen W0 <= numCtx cfg /\
      let W := ref_win (q_keep q) W0 (nsamples (q_req q) l) in
      (C ++ q_pending q ++ q_inputs q = W \/
       (q_pending q = [] /\ exists t, q_inputs q = [t] /\ numCtx cfg < zlen C + 1 /\
        W = shifted C (q_keep q) (shift_discard cfg (zlen C) (q_keep q)) ++ [t])).

  (** the batch entry from which a sequence that has consumed all its inputs will be sampled *)
  Definition out_entry (b : list entry) (C : list tok) (q : seqst) : Prop :=
    q_inputs q = [] ->
    exists e, nth_error (outputs_of b) (q_ibatch q) = Some e /\ e_seq e = q_slot q /\ e_pos e = zlen C + zlen (q_pending q) - 1.

  Record mid2 (sl : list slot) (qs : list (option seqst)) (b : list entry) (nout : nat) (l : list event) : Prop := mkMid2 {
    m2_nout : nout = length (outputs_of b);
    m2_live : forall idx q, get_seq qs idx = Some q ->
              seq_ref l (s_inputs (nth_slot sl (q_slot q))) q /\ out_entry b (s_inputs (nth_slot sl (q_slot q))) q;
    m2_req : forall i1 i2 q1 q2, get_seq qs i1 = Some q1 -> get_seq qs i2 = Some q2 -> q_req q1 = q_req q2 -> i1 = i2
  }.

  Definition inv2 (st : state) : Prop :=
    mid2 (slots st) (seqs st) [] 0 (log st) /\ log_ok (log st) /\ log_ids (log st) (nreq st) /\
    (forall idx q, get_seq (seqs st) idx = Some q -> (q_req q < nreq st)%nat).

  Lemma outputs_of_app b1 b2 : outputs_of (b1 ++ b2) = outputs_of b1 ++ outputs_of b2.
  Proof. unfold outputs_of. apply filter_app. Qed.

  (** * the inner loop when no shift is due: a prefix of seq.inputs moves into the batch *)
  Lemma skipn_cons_nth {A} i (l : list A) x r : skipn i l = x :: r -> skipn (S i) l = r /\ (i < length l)%nat.
  Proof.
    revert l. induction i as [|i IH]; intros l H.
    - cbn in H. subst. cbn. split; [auto|lia].
    - destruct l as [|y l]; [discriminate|]. cbn [skipn] in H. apply IH in H. cbn [skipn length]. split; [apply H|lia].
  Qed.
  Lemma firstn_S_skipn {A} i (l : list A) x r : skipn i l = x :: r -> firstn (S i) l = firstn i l ++ [x].
  Proof.
    revert l. induction i as [|i IH]; intros l H.
    - cbn in H. subst. reflexivity.
    - destruct l as [|y l]; [discriminate|]. cbn [skipn] in H. rewrite !firstn_cons, (IH l H). reflexivity.
  Qed.

  Lemma build_seq_plain seqIdx slotId keep I : forall rng i b,
    b_inputs b = I -> b_pending b = firstn i I -> rng = skipn i I -> (i <= length I)%nat ->
    zlen (b_C b) + zlen I <= numCtx cfg -> b_nout b = length (outputs_of (b_batch b)) ->
    exists m b', build_seq cfg seqIdx slotId keep rng i b = BOk b' /\ (i <= m <= length I)%nat /\
      b_C b' = b_C b /\ b_kv b' = b_kv b /\ b_inputs b' = I /\ b_pending b' = firstn m I /\
      b_nout b' = length (outputs_of (b_batch b')) /\
      (exists ext, b_batch b' = b_batch b ++ ext) /\
      (m = length I -> (i < length I)%nat ->
       exists e, nth_error (outputs_of (b_batch b')) (b_ibatch b') = Some e /\ e_seq e = slotId /\
                 e_pos e = zlen (b_C b) + Z.of_nat m - 1).
  Proof.
    induction rng as [|inp rest IH]; intros i b HI HP Hr Hile Hfit Hn; cbn [build_seq].
    - exists i, b. split; [reflexivity|].
      assert (Hi : (length I <= i)%nat).
      { destruct (Nat.le_gt_cases (length I) i); auto. exfalso.
        assert (length (skipn i I) = 0%nat) by (rewrite <- Hr; reflexivity). rewrite skipn_length in H0. lia. }
      repeat split; auto; try lia.
      exists []. rewrite app_nil_r. reflexivity.
    - symmetry in Hr. destruct (skipn_cons_nth _ _ _ _ Hr) as [Hr' Hlt].
      destruct (batchSize cfg <? zlen (b_batch b) + 1).
      { destruct (set_resume_same seqIdx b) as (E1 & E2 & E3 & E4 & E5 & E6).
        exists i, (set_resume seqIdx b). split; [reflexivity|]. rewrite E1, E2, E3, E4, E5, E6.
        repeat split; auto; try lia.
        exists []. rewrite app_nil_r. reflexivity. }
      assert (Hpl : zlen (b_pending b) = Z.of_nat i) by (rewrite HP, zlen_firstn; unfold zlen; lia).
      assert (Hno : (numCtx cfg <? zlen (b_C b) + zlen (b_pending b) + 1) = false).
      { unfold zlen in *. lia. }
      rewrite Hno.
      set (b1 := add_input slotId i inp b).
      destruct (IH (S i) b1) as (m & b' & E & Hm & R1 & R2 & R3 & R4 & R5 & (ext & R6) & R7).
      + unfold b1, add_input. cbn [b_inputs]. auto.
      + unfold b1, add_input. cbn [b_pending]. rewrite HP. symmetry. eapply firstn_S_skipn. eauto.
      + auto.
      + lia.
      + unfold b1, add_input. cbn [b_C]. auto.
      + unfold b1, add_input. cbn [b_nout b_batch]. rewrite outputs_of_app, app_length, <- Hn.
        destruct (S i =? length (b_inputs b))%nat; cbn; lia.
      + exists m, b'. split; [exact E|]. unfold b1, add_input in R1, R2, R6. cbn [b_C b_kv b_batch] in R1, R2, R6.
        repeat split; auto; try lia.
        * exists ([mkEntry inp (zlen (b_C b) + zlen (b_pending b)) slotId (S i =? length (b_inputs b))%nat] ++ ext).
          rewrite R6, <- app_assoc. reflexivity.
        * intros Hml _. destruct (Nat.eq_dec (S i) (length I)) as [Hlast|Hnl].
          -- (* this was the last input: it is the output, and the loop is over *)
             assert (Hrest : rest = []).
             { assert (length rest = 0%nat) by (rewrite <- Hr', skipn_length; lia). destruct rest; [auto|discriminate]. }
             rewrite Hrest in E. cbn [build_seq] in E. injection E as <-.
             unfold b1, add_input. cbn [b_batch b_ibatch b_C].
             rewrite HI. replace (S i =? length I)%nat with true by (symmetry; apply Nat.eqb_eq; auto).
             eexists. split.
             ++ rewrite outputs_of_app, nth_error_app2 by lia. rewrite Hn, Nat.sub_diag. unfold outputs_of. cbn. reflexivity.
             ++ cbn [e_seq e_pos]. split; [reflexivity|]. lia.
          -- apply R7; auto. lia.
  Qed.

  (** * the inner loop when a shift is due: the sequence holds exactly one generated token *)
  Lemma build_seq_shift seqIdx slotId keep t b :
    0 <= keep < numCtx cfg -> b_pending b = [] -> b_inputs b = [t] ->
    numCtx cfg < zlen (b_C b) + 1 -> zlen (b_C b) <= numCtx cfg ->
    view (b_kv b) slotId = enumerate 0 (b_C b) -> b_nout b = length (outputs_of (b_batch b)) ->
    let W := shifted (b_C b) keep (shift_discard cfg (zlen (b_C b)) keep) in
    exists b', build_seq cfg seqIdx slotId keep [t] 0 b = BOk b' /\
      b_nout b' = length (outputs_of (b_batch b')) /\ (exists ext, b_batch b' = b_batch b ++ ext) /\
      ((b_C b' = b_C b /\ b_pending b' = [] /\ b_inputs b' = [t] /\ b_batch b' = b_batch b) \/
       (b_C b' = W /\ b_pending b' = [t] /\ b_inputs b' = [t] /\
        exists e, nth_error (outputs_of (b_batch b')) (b_ibatch b') = Some e /\ e_seq e = slotId /\ e_pos e = zlen W) \/
       (b_C b' = [] /\ b_pending b' = [] /\ b_inputs b' = W ++ [t] /\ b_batch b' = b_batch b)).
  Proof.
    intros Hk HP HI Hdue Hle Hv Hn W. cbn [build_seq].
    destruct (batchSize cfg <? zlen (b_batch b) + 1).
    { destruct (set_resume_same seqIdx b) as (E1 & E2 & E3 & E4 & E5 & E6).
      exists (set_resume seqIdx b). split; [reflexivity|]. rewrite E5, E6. split; [auto|]. split; [exists []; rewrite app_nil_r; reflexivity|].
      left. rewrite E1, E3, E4. auto. }
    rewrite HP. replace (numCtx cfg <? zlen (b_C b) + zlen (@nil tok) + 1) with true by (rewrite zlen_nil; lia).
    pose proof (shift_cache_slot_ok cfg (b_kv b) slotId (b_C b) keep Hk ltac:(lia) Hv) as Hs. cbn zeta in Hs. fold W in Hs.
    destruct (shift_cache_slot cfg (b_kv b) slotId (b_C b) keep) as [|C' kv'|re kv'|]; try contradiction.
    - destruct Hs as (-> & _ & _). eexists. split; [reflexivity|].
      unfold add_input. cbn [b_nout b_batch b_C b_pending b_inputs b_ibatch]. rewrite HI. cbn [length Nat.eqb].
      split; [rewrite outputs_of_app, app_length, Hn; cbn; lia|]. split; [eexists; reflexivity|].
      right. left. repeat split; auto. eexists. split.
      + rewrite outputs_of_app, nth_error_app2 by lia. rewrite Hn, Nat.sub_diag. unfold outputs_of. cbn. reflexivity.
      + cbn [e_seq e_pos]. split; [reflexivity|lia].
    - destruct Hs as (-> & _ & _). eexists. split; [reflexivity|]. cbn [b_nout b_batch b_C b_pending b_inputs].
      split; [auto|]. split; [exists []; rewrite app_nil_r; reflexivity|]. right. right. rewrite HI. auto.
  Qed.
End Ref.
