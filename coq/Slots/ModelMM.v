(** C07 — multimodal inputs and SameBatch groups: the parts of runner/ollamarunner/runner.go that Slots/Model.v
    leaves out for text inputs (NewSequence's unbreakable-batch loop when truncating, the minimum batch size /
    batch-size extension and the context check with the whole group in processBatch).  Executable definitions only;
    compared with the implementation on every run (Slots/CorrMM.v), no theorems.

    An input is still one integer: a text token is < 1000; 1000 + 100*sb + v is a multimodal input with content v whose
    following sb inputs (placeholder tokens) must be evaluated in the same batch.  The scripted model of the harness
    stores exactly this code in the cache, so the cache model, slot choice (countCommonPrefix compares Token and
    MultimodalHash, i.e. the code), LoadCacheSlot, ShiftCacheSlot and the post-Forward half are those of Model.v. *)
From Coq Require Import List ZArith NArith Bool Arith.
From V Require Import Common.Bytes Slots.StopFns Slots.Model.
Import ListNotations.
Open Scope Z_scope.

Definition sb_of (x : tok) : Z := if x <? 1000 then 0 else (x - 1000) / 100.

(** NewSequence: the scan that moves promptStart past an unbreakable group.  State: index, remaining group, promptStart.
    Result: promptStart, or Err when a group starts inside numKeep. *)
Fixpoint trunc_scan (inputs : list tok) (i sameBatch promptStart keep : Z) : res Z :=
  match inputs with
  | [] => Ok promptStart
  | inp :: rest =>
      let go (sb ps : Z) :=
        if negb (sb_of inp =? 0) then
          if i <? keep then Err else trunc_scan rest (i + 1) (sb_of inp) ps keep
        else trunc_scan rest (i + 1) sb ps keep in
      if 0 <? sameBatch then go (sameBatch - 1) (if promptStart =? i then promptStart + 1 else promptStart)
      else if promptStart =? i then Ok promptStart
      else go sameBatch promptStart
  end.

Definition new_sequence_mm (cfg : config) (prompt : list tok) (numKeep : Z) : res (list tok * Z) :=
  match prompt with
  | [] => Err
  | _ =>
    let keep0 := if numKeep <? 0 then zlen prompt else numKeep in
    let keep := Z.min keep0 (numCtx cfg - 1) in
    if numCtx cfg <? zlen prompt then
      let discard := zlen prompt - numCtx cfg in
      match trunc_scan prompt 0 0 (keep + discard) keep with
      | Err => Err | Panic => Panic
      | Ok promptStart =>
          if zlen prompt <=? promptStart then Err
          else if keep <? 0 then Panic
          else Ok (firstn (Z.to_nat keep) prompt ++ skipn (Z.to_nat promptStart) prompt, keep)
      end
    else Ok (prompt, keep)
  end.

(** processBatch's inner loop with the minimum batch size; [bs] is the (per sequence, only growing) batch size *)
Fixpoint build_seq_mm (cfg : config) (seqIdx slotId : nat) (keep : Z) (rng : list tok) (i : nat) (bs : Z) (b : bstate) : bres :=
  match rng with
  | [] => BOk b
  | inp :: rest =>
      let minBatch := 1 + sb_of inp in
      let bs' := Z.max bs minBatch in
      if bs' <? zlen (b_batch b) + minBatch then BOk (set_resume seqIdx b)
      else if numCtx cfg <? zlen (b_C b) + zlen (b_pending b) + minBatch then
        match b_pending b with
        | _ :: _ => BOk b
        | [] =>
            match shift_cache_slot cfg (b_kv b) slotId (b_C b) keep with
            | ShErr => BFatal
            | ShNone => build_seq_mm cfg seqIdx slotId keep rest (S i) bs' (add_input slotId i inp b)
            | ShOk C' kv' =>
                build_seq_mm cfg seqIdx slotId keep rest (S i) bs'
                             (add_input slotId i inp (mkB C' kv' (b_pending b) (b_inputs b) (b_batch b) (b_nout b) (b_ibatch b) (b_resume b)))
            | ShReprocess re kv' =>
                build_seq_mm cfg seqIdx slotId keep rest (S i) bs'
                             (mkB [] kv' (b_pending b) (re ++ b_inputs b) (b_batch b) (b_nout b) (b_ibatch b) (b_resume b))
            end
        end
      else build_seq_mm cfg seqIdx slotId keep rest (S i) bs' (add_input slotId i inp b)
  end.

Definition build_one_mm (cfg : config) (p : pstate) (seqIdx : nat) : pres :=
  match nth seqIdx (p_seqs p) None with
  | None => POk p
  | Some q =>
      if at_limit q then
        POk (mkP (release (p_slots p) (q_slot q)) (p_kv p) (set_nth (p_seqs p) seqIdx None) (p_batch p) (p_nout p) (p_resume p)
                 (p_log p ++ [EvDone (q_req q) DoneLength]))
      else
        let b0 := mkB (s_inputs (nth_slot (p_slots p) (q_slot q))) (p_kv p) (q_pending q) (q_inputs q) (p_batch p) (p_nout p)
                      (q_ibatch q) (p_resume p) in
        match build_seq_mm cfg seqIdx (q_slot q) (q_keep q) (q_inputs q) O (batchSize cfg) b0 with
        | BFatal => PFatal
        | BOk b =>
            let q' := mkSeq (skipn (length (b_pending b)) (b_inputs b)) (b_pending b) (q_slot q) (q_npredict q) (q_npredicted q)
                            (q_keep q) (q_pend q) (q_stops q) (b_ibatch b) (q_req q) in
            POk (mkP (set_slot_inputs (p_slots p) (q_slot q) (b_C b)) (b_kv b) (set_nth (p_seqs p) seqIdx (Some q'))
                     (b_batch b) (b_nout b) (b_resume b) (p_log p))
        end
  end.

Fixpoint build_all_mm (cfg : config) (p : pstate) (order : list nat) : pres :=
  match order with
  | [] => POk p
  | i :: r => match build_one_mm cfg p i with
              | PFatal => PFatal
              | POk p' => build_all_mm cfg p' r
              end
  end.

Section WithNetwork.
  Variable F : list (Z * tok) -> tok.

  Definition process_batch_mm (cfg : config) (st : state) : state * ores :=
    if all_nil (seqs st) then (st, RIdle)
    else
      let n := length (seqs st) in
      match build_all_mm cfg (mkP (slots st) (kv st) (seqs st) [] O None (log st)) (visit_order n (nextSeq st)) with
      | PFatal => (st, RFatal)
      | POk p =>
          let next := match p_resume p with
                      | Some r => r
                      | None => S (Nat.modulo (nextSeq st + (n - 1)) n)
                      end in
          match p_batch p with
          | [] => (mkSt (p_slots p) (p_kv p) (p_seqs p) next (clock st) (nreq st) (p_log p), RStepped [] [])
          | _ =>
              if kv_full cfg (kv_evict cfg (p_kv p) (p_batch p)) (p_batch p) then (st, RCacheFull) else
              let kv' := kv_forward (kv_evict cfg (p_kv p) (p_batch p)) (p_batch p) in
              match post_all F cfg kv' (p_batch p) (p_slots p) (p_seqs p) with
              | None => (st, RPanic)
              | Some (sl, qs, ev) =>
                  (mkSt sl kv' qs next (clock st) (nreq st) (p_log p ++ ev), RStepped (p_batch p) (chosen_of F cfg kv' (p_batch p)))
              end
          end
      end.

  Definition submit_mm (cfg : config) (st : state) (prompt : list tok) (npredict keep : Z) (stops : list str) : state * ores :=
    match new_sequence_mm cfg prompt keep with
    | Err => (st, RNewSeqErr)
    | Panic => (st, RPanic)
    | Ok (inputs, keep') =>
        match first_free (seqs st) O with
        | None => (st, RBusy)
        | Some idx =>
            match load_cache_slot cfg (clock st) (slots st) (kv st) inputs with
            | Err => (st, RLoadErr)
            | Panic => (st, RPanic)
            | Ok (sl, kv', si, rest) =>
                (mkSt sl kv' (set_nth (seqs st) idx (Some (mkSeq rest [] si npredict 0 keep' [] stops O (nreq st))))
                      (nextSeq st) (S (clock st)) (S (nreq st)) (log st ++ [EvSubmit (nreq st) inputs keep' npredict stops]),
                 RSubmitted idx)
            end
        end
    end.

  Definition step_op_mm (cfg : config) (st : state) (o : op) : state * ores :=
    match o with
    | Submit prompt npredict keep stops => submit_mm cfg st prompt npredict keep stops
    | Step => process_batch_mm cfg st
    end.
End WithNetwork.
