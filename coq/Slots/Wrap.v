(** C07 — a wrapper of several caches behind the runner (kvcache/wrapper.go; gemma2/gemma3: a sliding-window cache for the
    local layers and a causal cache for the global layers, NewWrapperCache(NewSWACache(w, shift), NewCausalCache(shift))).

    Every wrapped cache sees every operation.  What couples them:
    - CanResume(seq, pos) is the CONJUNCTION of the answers of all wrapped caches;
    - Remove(seq, b, e) stops at the first cache that fails and reports the failure; the runner then clears the
      sequence in every cache (Remove(seq, 0, MaxInt32)), so a context shift succeeds only if it succeeds everywhere;
    - StartForward fails if any cache is full;
    - every layer type reads its own cache: the network is a function of the histories all caches expose.

    The product is built from the single-cache model (Slots/Model.v) itself: component j runs the single-cache functions
    under its own configuration (window, capacity) in which the two coupling decisions are fixed to the joint answer
    ([with_flags]: CanResume may only be "yes" if everybody says yes; a partial erase may only succeed if it succeeds
    everywhere).  The state is one single-cache state per component; slots and sequences are the same in all of them.
    [w_submit] is the code (conjunction); [w_submit_any] is the seeded variant, refuted in Properties_C07.v. *)
From Coq Require Import List ZArith NArith Bool Arith.
From V Require Import Common.Bytes Slots.StopFns Slots.Model Slots.Corr.
Import ListNotations.
Open Scope Z_scope.

Definition with_flags (cfg : config) (part res : bool) : config :=
  mkCfg (numCtx cfg) (batchSize cfg) (multiUser cfg) (canShift cfg) (canPartial cfg && part) (canResume cfg && res)
        (eosTok cfg) (window cfg) (cacheCells cfg).

(** the slot LoadCacheSlot is going to use, the cache after the slot choice (a prefix may have been forked into it) and the
    position it will ask CanResume about *)
Definition load_probe (cfg : config) (sl : list slot) (kv0 : kvcache) (prompt : list tok) : option (kvcache * nat * nat) :=
  let found := if multiUser cfg then find_best sl kv0 prompt
               else match find_longest sl prompt with
                    | Ok (i, n) => Ok (sl, kv0, i, n) | Err => Err | Panic => Panic end in
  match found with
  | Ok (_, kv1, i, n) => Some (kv1, i, if (n =? length prompt)%nat then Nat.pred n else n)
  | _ => None
  end.

Definition wstate := list (config * state).     (* one (configuration, single-cache state) per wrapped cache *)

Definition resume_answer (cfg : config) (st : state) (inputs : list tok) : bool :=
  match load_probe cfg (slots st) (kv st) inputs with
  | Some (kv1, i, n1) => negb (0 <? n1)%nat || can_resume cfg kv1 i (Z.of_nat n1)
  | None => true
  end.

(** the inputs NewSequence makes of the prompt (the same for every component) *)
Definition inputs_of (cs : wstate) (prompt : list tok) (keep : Z) : option (list tok) :=
  match cs with
  | (cfg, _) :: _ => match new_sequence cfg prompt keep with Ok (inputs, _) => Some inputs | _ => None end
  | [] => None
  end.

(** WrapperCache.CanResume: every wrapped cache must agree *)
Definition resume_all (cs : wstate) (prompt : list tok) (keep : Z) : bool :=
  match inputs_of cs prompt keep with
  | Some inputs => forallb (fun c => resume_answer (fst c) (snd c) inputs) cs
  | None => true
  end.

Definition first_res (rs : list (config * (state * ores))) : ores :=
  match rs with x :: _ => snd (snd x) | [] => RPanic end.

Definition w_submit (cs : wstate) (prompt : list tok) (npredict keep : Z) (stops : list str) : wstate * ores :=
  let r := resume_all cs prompt keep in
  let rs := map (fun c => (fst c, submit (with_flags (fst c) true r) (snd c) prompt npredict keep stops)) cs in
  (map (fun x => (fst x, fst (snd x))) rs, first_res rs).

(** the seeded variant ("any" instead of "all"), for the refutation below: a component is made to resume whenever SOME
    component says yes.  [force]: the component's own CanResume is not asked (a cache without window always says yes). *)
Definition force (cfg : config) : config :=
  mkCfg (numCtx cfg) (batchSize cfg) (multiUser cfg) (canShift cfg) (canPartial cfg) true (eosTok cfg) None (cacheCells cfg).
Definition resume_any (cs : wstate) (prompt : list tok) (keep : Z) : bool :=
  match inputs_of cs prompt keep with
  | Some inputs => existsb (fun c => resume_answer (fst c) (snd c) inputs) cs
  | None => true
  end.
Definition w_submit_any (cs : wstate) (prompt : list tok) (npredict keep : Z) (stops : list str) : wstate * ores :=
  let r := resume_any cs prompt keep in
  let rs := map (fun c => (fst c, submit (if r then force (fst c) else with_flags (fst c) true false) (snd c) prompt npredict keep stops)) cs in
  (map (fun x => (fst x, fst (snd x))) rs, first_res rs).

(** a context shift of this sequence would fail in this cache *)
Definition shift_fails (cfg : config) (p : pstate) (seqIdx : nat) : bool :=
  match nth seqIdx (p_seqs p) None with
  | Some q => match shift_cache_slot cfg (p_kv p) (q_slot q) (s_inputs (nth_slot (p_slots p) (q_slot q))) (q_keep q) with
              | ShReprocess _ _ => true
              | _ => false
              end
  | None => false
  end.

(** the working items of processBatch: configuration, state before, batch state *)
Definition witem := (config * (state * pstate))%type.
Definition it_cfg (x : witem) : config := fst x.
Definition it_st (x : witem) : state := fst (snd x).
Definition it_p (x : witem) : pstate := snd (snd x).

Definition build_item (part : bool) (i : nat) (x : witem) : option witem :=
  match build_one (with_flags (it_cfg x) part true) (it_p x) i with
  | POk p' => Some (it_cfg x, (it_st x, p'))
  | PFatal => None
  end.

Fixpoint all_some {A} (l : list (option A)) : option (list A) :=
  match l with
  | [] => Some []
  | None :: _ => None
  | Some x :: r => match all_some r with Some r' => Some (x :: r') | None => None end
  end.

Fixpoint w_build_all (items : list witem) (order : list nat) : option (list witem) :=
  match order with
  | [] => Some items
  | i :: r =>
      let part := negb (existsb (fun x => shift_fails (it_cfg x) (it_p x) i) items) in
      match all_some (map (build_item part i) items) with
      | None => None
      | Some items' => w_build_all items' r
      end
  end.

(** post_all of Model.v where the token of every sequence is given from outside ([G q] is a constant function: the token
    the network selected for [q]'s output from the histories of ALL layer types); everything else, including the history
    recorded in the ghost log, is post_one itself *)
Fixpoint post_all_v (G : seqst -> list (Z * tok) -> tok) (cfg : config) (kv' : kvcache) (b : list entry) (sl : list slot) (qs : list (option seqst))
  : option (list slot * list (option seqst) * list event) :=
  match qs with
  | [] => Some (sl, [], [])
  | None :: r =>
      match post_all_v G cfg kv' b sl r with
      | Some (sl', r', ev) => Some (sl', None :: r', ev)
      | None => None
      end
  | Some q :: r =>
      match post_one (G q) cfg kv' b (nth_slot sl (q_slot q)) q with
      | QPanic => None
      | QOk s1 q' ev1 =>
          match post_all_v G cfg kv' b (set_nth sl (q_slot q) s1) r with
          | Some (sl', r', ev) => Some (sl', q' :: r', ev1 ++ ev)
          | None => None
          end
      end
  end.

(** what the network is given for one batch entry: per layer type (= wrapped cache) the marker (-2, type) followed by the
    history that cache exposes *)
Definition w_join (l : list (list (Z * tok))) : list (Z * tok) :=
  concat (map (fun jv => (-2, Z.of_nat (fst jv)) :: snd jv) (combine (seq O (length l)) l)).

(** every component carries the batch it built; they are all the same batch (the decisions that shape it are joint) *)
Definition it_b (x : witem) : list entry := p_batch (it_p x).
Definition fwd_kv (x : witem) : kvcache := kv_forward (kv_evict (it_cfg x) (p_kv (it_p x)) (it_b x)) (it_b x).
Definition w_vis (items : list witem) (e : entry) : list (list (Z * tok)) :=
  map (fun x => sort_vis (visible_c (it_cfg x) (fwd_kv x) (e_seq e) (e_pos e))) items.

Definition next_of (st0 : state) (p0 : pstate) : nat :=
  match p_resume p0 with
  | Some r => r
  | None => S (Nat.modulo (nextSeq st0 + (length (seqs st0) - 1)) (length (seqs st0)))
  end.

Definition finish_item (G : seqst -> list (Z * tok) -> tok) (next : nat) (x : witem) : option (config * state) :=
  match it_b x with
  | [] => Some (it_cfg x, mkSt (p_slots (it_p x)) (p_kv (it_p x)) (p_seqs (it_p x)) next (clock (it_st x)) (nreq (it_st x)) (p_log (it_p x)))
  | _ =>
      match post_all_v G (it_cfg x) (fwd_kv x) (it_b x) (p_slots (it_p x)) (p_seqs (it_p x)) with
      | Some (sl, qs, ev) => Some (it_cfg x, mkSt sl (fwd_kv x) qs next (clock (it_st x)) (nreq (it_st x)) (p_log (it_p x) ++ ev))
      | None => None
      end
  end.

Definition item_full (x : witem) : bool :=
  match it_b x with
  | [] => false
  | _ => kv_full (it_cfg x) (kv_evict (it_cfg x) (p_kv (it_p x)) (it_b x)) (it_b x)
  end.

Definition start_item (c : config * state) : witem :=
  (fst c, (snd c, mkP (slots (snd c)) (kv (snd c)) (seqs (snd c)) [] O None (log (snd c)))).

Definition w_process_batch (F : list (Z * tok) -> tok) (cs : wstate) : wstate * ores :=
  match cs with
  | [] => (cs, RPanic)
  | (_, st0) :: _ =>
    if all_nil (seqs st0) then (cs, RIdle)
    else
      match w_build_all (map start_item cs) (visit_order (length (seqs st0)) (nextSeq st0)) with
      | None => (cs, RFatal)
      | Some items =>
          match items with
          | [] => (cs, RPanic)
          | x0 :: _ =>
              if existsb item_full items then (cs, RCacheFull)
              else
                let toks := map (fun e => F (w_join (w_vis items e))) (outputs_of (it_b x0)) in
                let G := fun (q : seqst) (_ : list (Z * tok)) => nth (q_ibatch q) toks 0 in
                match all_some (map (finish_item G (next_of st0 (it_p x0))) items) with
                | Some cs' => (cs', RStepped (it_b x0) toks)
                | None => (cs, RPanic)
                end
          end
      end
  end.

Definition w_step_op (F : list (Z * tok) -> tok) (cs : wstate) (o : op) : wstate * ores :=
  match o with
  | Submit prompt npredict keep stops => w_submit cs prompt npredict keep stops
  | Step => w_process_batch F cs
  end.

Definition w_run (F : list (Z * tok) -> tok) (cs : wstate) (ops : list op) : wstate :=
  fold_left (fun s o => fst (w_step_op F s o)) ops cs.

Definition w_init (cfgs : list config) (parallel : nat) : wstate := map (fun cfg => (cfg, init parallel)) cfgs.

(** * comparison with an observed run: result + state projection of the first component + the cells of every component *)
Definition cells_of (st : state) : list (list (Z * tok)) := map (fun i => sort_vis (view (kv st) i)) (seq O (length (slots st))).

(** all components carry the same slot records and sequences (the runner has only one copy of them) *)
Definition sync_eqb (a b : state) : bool :=
  list_eqb (pair_eqb (list_eqb Z.eqb) Bool.eqb) (map (fun s => (s_inputs s, s_inuse s)) (slots a)) (map (fun s => (s_inputs s, s_inuse s)) (slots b))
  && list_eqb Nat.eqb (lru_order (slots a)) (lru_order (slots b))
  && list_eqb (opt_eqb seq_proj_eqb) (map (option_map seq_proj) (seqs a)) (map (option_map seq_proj) (seqs b))
  && (nextSeq a =? nextSeq b)%nat.

Fixpoint chk_from_w (F : list (Z * tok) -> tok) (cs : wstate)
         (tr : list (op * obs * list (list (list (Z * tok))))) (i : nat) : option nat :=
  match tr with
  | [] => None
  | (o, ob, cells) :: r =>
      let '(cs', res) := w_step_op F cs o in
      if negb (res_eqb res (o_res ob)) then Some i
      else if terminal res then None
      else if match cs' with c0 :: _ => state_eqb (snd c0) ob && forallb (fun c => sync_eqb (snd c0) (snd c)) cs' | [] => false end
              && list_eqb (list_eqb (list_eqb (pair_eqb Z.eqb Z.eqb))) (map (fun c => cells_of (snd c)) cs') cells
           then chk_from_w F cs' r (S i) else Some i
  end.

Definition chk_trace_w (vocab : Z) (cfgs : list config) (parallel : nat) (tr : list (op * obs * list (list (list (Z * tok))))) : bool :=
  match chk_from_w (hash_vis vocab) (w_init cfgs parallel) tr O with None => true | Some _ => false end.

Definition model_trace_w (vocab : Z) (cfgs : list config) (parallel : nat) (ops : list op)
  : list (ores * list (list tok * bool) * list (option (list tok * list tok * nat * Z * list str)) * list (list (list (Z * tok)))) :=
  snd (fold_left (fun acc o =>
                    let '(cs, out) := acc in
                    let '(cs', r) := w_step_op (hash_vis vocab) cs o in
                    (cs', out ++ [(r, match cs' with c :: _ => map (fun s => (s_inputs s, s_inuse s)) (slots (snd c)) | [] => [] end,
                                   match cs' with c :: _ => map (option_map seq_proj) (seqs (snd c)) | [] => [] end,
                                   map (fun c => cells_of (snd c)) cs')]))
                 ops (w_init cfgs parallel, [])).
