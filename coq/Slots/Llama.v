(** C07 — runner/llamarunner/cache.go as a second instance of the slot model, over a cell-level description of the
    llama.cpp KV cache calls it makes (llama/llama.go KvCacheSeqRm / KvCacheSeqCp / KvCacheSeqAdd / KvCacheCanShift,
    llama.cpp src/llama-kv-cache.cpp llama_kv_cache_unified::seq_rm / seq_cp / seq_add).  Definitions only.

    Differences from ollamarunner/cache.go that matter here:
    - the end of a range is written -1 ("to the end"), and for the unified (transformer) cache seq_rm never fails;
      a recurrent model refuses partial erasure ([canPartial cfg = false]);
    - findBestCacheSlot forks with KvCacheSeqRm(dst, 0, -1) + KvCacheSeqCp(src, dst, 0, longest): the cells are
      SHARED between the two sequences (one position per cell);
    - ShiftCacheSlot asks KvCacheCanShift, erases [keep, keep+discard) with KvCacheSeqRm and then moves the rest with
      KvCacheSeqAdd(seq, keep+discard, inputLen, -discard); seq_add changes the position of every cell that carries
      the sequence in that range - also of cells shared with another sequence;
    - LoadCacheSlot has a cachePrompt flag and no CanResume question.
    The slot records, slot choice and ShiftDiscard are the definitions of Slots/Model.v (tied to both runners by the
    pure differential of props/c07.py).  [lc *llama.Context] is a concrete struct around a C pointer, so the cache
    calls cannot be faked add-only; this instance is tied on its pure parts only. *)
From Coq Require Import List ZArith NArith Bool Arith.
From V Require Import Common.Bytes Slots.StopFns Slots.Model.
Import ListNotations.
Open Scope Z_scope.

(** llama_kv_cache_unified::seq_rm(seq, p0, -1) / seq_rm(seq, p0, p1) *)
Definition ll_seq_rm_tail (kv : kvcache) (s : nat) (p0 : Z) : kvcache := kv_trunc kv s p0.
Definition ll_seq_rm_range (kv : kvcache) (s : nat) (p0 p1 : Z) : kvcache :=
  map (fun c => if has s c && (p0 <=? cpos c) && (cpos c <? p1) then del_seq s c else c) kv.
(** seq_cp(src, dst, 0, len): dst is added to the cells of src below len *)
Definition ll_seq_cp (kv : kvcache) (src dst : nat) (len : Z) : kvcache :=
  map (fun c => if has src c && (cpos c <? len) then mkCell (cpos c) (ctok c) (cseqs c ++ [dst]) else c) kv.
(** seq_add(seq, p0, p1, delta): every cell carrying seq in [p0,p1) moves - for all its sequences *)
Definition ll_seq_add (kv : kvcache) (s : nat) (p0 p1 delta : Z) : kvcache :=
  map (fun c => if has s c && (p0 <=? cpos c) && (cpos c <? p1) then mkCell (cpos c + delta) (ctok c) (cseqs c) else c) kv.

(** findBestCacheSlot's fork *)
Definition ll_fork (kv : kvcache) (src dst : nat) (len : Z) : kvcache := ll_seq_cp (ll_seq_rm_tail kv dst 0) src dst len.

Definition ll_find_best (sl : list slot) (kv : kvcache) (prompt : list tok) : res (list slot * kvcache * nat * nat) :=
  match best_longest_aux sl O prompt None with
  | None => Panic
  | Some (li, longest) =>
      let ls := nth_slot sl li in
      if (longest =? length (s_inputs ls))%nat && negb (s_inuse ls) then Ok (sl, kv, li, longest)
      else match best_oldest_aux sl O None with
           | None => Panic
           | Some (oi, _) =>
               if (0 <? longest)%nat && negb (li =? oi)%nat then
                 let os := nth_slot sl oi in
                 Ok (set_nth sl oi (mkSlot (firstn longest (s_inputs ls)) (s_inuse os) (s_last os)),
                     ll_fork kv li oi (Z.of_nat longest), oi, longest)
               else Ok (sl, kv, oi, longest)
           end
  end.

(** LoadCacheSlot(prompt, cachePrompt) *)
Definition ll_load_cache_slot (cfg : config) (clock : nat) (sl : list slot) (kv : kvcache) (prompt : list tok) (cachePrompt : bool)
  : res (list slot * kvcache * nat * list tok) :=
  let found := if multiUser cfg then ll_find_best sl kv prompt
               else match find_longest sl prompt with
                    | Ok (i, n) => Ok (sl, kv, i, n) | Err => Err | Panic => Panic end in
  match found with
  | Err => Err | Panic => Panic
  | Ok (sl1, kv1, i, n) =>
      let n0 := if cachePrompt then n else O in
      let n1 := if (n0 =? length prompt)%nat then Nat.pred n0 else n0 in
      (* KvCacheSeqRm(slot.Id, numPast, -1) fails only for a model that cannot erase partially *)
      let n2 := if negb (canPartial cfg) && negb (n1 =? 0)%nat then O else n1 in
      let s := nth_slot sl1 i in
      Ok (set_nth sl1 i (mkSlot (firstn n2 (s_inputs s)) true (S clock)), ll_seq_rm_tail kv1 i (Z.of_nat n2), i, skipn n2 prompt)
  end.

(** ShiftCacheSlot *)
Definition ll_shift_cache_slot (cfg : config) (kv : kvcache) (id : nat) (inputs : list tok) (numKeep : Z) : shift_res :=
  if numCtx cfg <=? numKeep then ShErr
  else let discard := shift_discard cfg (zlen inputs) numKeep in
       if discard <=? 0 then ShNone
       else if canShift cfg && canPartial cfg
            then ShOk (shifted inputs numKeep discard)
                      (ll_seq_add (ll_seq_rm_range kv id numKeep (numKeep + discard)) id (numKeep + discard) (zlen inputs) (- discard))
            else ShReprocess (shifted inputs numKeep discard) (ll_seq_rm_tail kv id 0).

(** * the input cache as a transition system
    What the runner does with a slot between LoadCacheSlot and removeSequence: decode a batch (the evaluated inputs are
    appended to slot.Inputs, the cache receives them at the next positions), shift when the context is full, shorten
    the record on a stop sequence, release. *)
Fixpoint ll_entries (i : nat) (p : Z) (toks : list tok) : list entry :=
  match toks with
  | [] => []
  | t :: r => mkEntry t p i false :: ll_entries i (p + 1) r
  end.

Record lstate := mkL { l_slots : list slot; l_kv : kvcache; l_clock : nat }.

Inductive lop :=
| LLoad (prompt : list tok) (cachePrompt : bool)
| LDecode (slot : nat) (toks : list tok)
| LShift (slot : nat) (keep : Z)
| LTrim (slot : nat) (n : nat)        (* stop handling: cache.Inputs = cache.Inputs[:n], then removeSequence *)
| LRelease (slot : nat).

Definition linit (parallel : nat) : lstate := mkL (repeat (mkSlot [] false O) parallel) [] O.

Definition lstep (cfg : config) (st : lstate) (o : lop) : lstate :=
  match o with
  | LLoad prompt cp =>
      match prompt with
      | [] => st
      | _ => match ll_load_cache_slot cfg (l_clock st) (l_slots st) (l_kv st) prompt cp with
             | Ok (sl, kv', _, _) => mkL sl kv' (S (l_clock st))
             | _ => st
             end
      end
  | LDecode i toks =>
      let s := nth_slot (l_slots st) i in
      if (i <? length (l_slots st))%nat && s_inuse s && (zlen (s_inputs s) + zlen toks <=? numCtx cfg) then
        mkL (set_nth (l_slots st) i (mkSlot (s_inputs s ++ toks) true (s_last s)))
            (kv_forward (l_kv st) (ll_entries i (zlen (s_inputs s)) toks))
            (l_clock st)
      else st
  | LShift i keep =>
      let s := nth_slot (l_slots st) i in
      if (i <? length (l_slots st))%nat && s_inuse s && (0 <=? keep) && (numCtx cfg <=? zlen (s_inputs s)) then
        match ll_shift_cache_slot cfg (l_kv st) i (s_inputs s) keep with
        | ShOk C' kv' => mkL (set_nth (l_slots st) i (mkSlot C' true (s_last s))) kv' (l_clock st)
        | ShReprocess _ kv' => mkL (set_nth (l_slots st) i (mkSlot [] true (s_last s))) kv' (l_clock st)
        | _ => st
        end
      else st
  | LTrim i n =>
      let s := nth_slot (l_slots st) i in
      if (i <? length (l_slots st))%nat && s_inuse s then
        mkL (set_nth (l_slots st) i (mkSlot (firstn n (s_inputs s)) false (s_last s))) (l_kv st) (l_clock st)
      else st
  | LRelease i =>
      let s := nth_slot (l_slots st) i in
      if (i <? length (l_slots st))%nat && s_inuse s then
        mkL (set_nth (l_slots st) i (mkSlot (s_inputs s) false (s_last s))) (l_kv st) (l_clock st)
      else st
  end.

Definition lrun (cfg : config) (st : lstate) (ops : list lop) : lstate := fold_left (lstep cfg) ops st.
