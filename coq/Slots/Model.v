(** C07 — executable model of runner/ollamarunner/cache.go (InputCache: slots, slot choice, LoadCacheSlot,
    ShiftDiscard/ShiftCacheSlot) and of the text path of runner/ollamarunner/runner.go (NewSequence truncation,
    the slot-assignment block of completion, processBatch, removeSequence), on top of a small cell-level
    description of the KV cache interface (kvcache.Cache as implemented by kvcache.Causal without window:
    StartForward/Put, Remove, CopyPrefix, CanResume).  Definitions only; proofs are in Proofs*.v.

    The model describes the code WITH fixes/C07-shift-reset.patch (ShiftCacheSlot clears the sequence with
    Remove(seq, 0, math.MaxInt32) when the shift fails) and fixes/C07-stop-trim-negative.patch (the stop handling
    of processBatch clamps the trimmed length at 0) applied.  [shift_cache_slot_pinned] keeps the pinned
    behaviour, to state what the repair changed. *)
From Coq Require Import List ZArith NArith Bool Arith.
From V Require Import Common.Bytes Slots.StopFns.
Import ListNotations.
Open Scope Z_scope.

Definition tok := Z.
Definition zlen {A} (l : list A) : Z := Z.of_nat (length l).

(** * 1. The KV cache as the runner sees it

    One [cell] per stored token: position, content, the set of sequences that reference it (a fork shares
    cells).  Locations, capacity, defragmentation and the mask layout are the business of C06; here only what
    the interface promises is kept.  [view] is what a sequence holds; [visible] is what the mask lets a batch
    entry of that sequence at position [p] attend to. *)
Record cell := mkCell { cpos : Z; ctok : tok; cseqs : list nat }.
Definition kvcache := list cell.

Definition has (s : nat) (c : cell) : bool := existsb (Nat.eqb s) (cseqs c).
Definition shared (s : nat) (c : cell) : bool := existsb (fun x => negb (Nat.eqb s x)) (cseqs c).
Definition del_seq (s : nat) (c : cell) : cell :=
  mkCell (cpos c) (ctok c) (filter (fun x => negb (Nat.eqb s x)) (cseqs c)).

Definition view (kv : kvcache) (s : nat) : list (Z * tok) :=
  map (fun c => (cpos c, ctok c)) (filter (has s) kv).
Definition visible (kv : kvcache) (s : nat) (p : Z) : list (Z * tok) :=
  filter (fun e => fst e <=? p) (view kv s).

(** Remove(seq, b, math.MaxInt32): never fails, no shift *)
Definition kv_trunc (kv : kvcache) (s : nat) (b : Z) : kvcache :=
  map (fun c => if has s c && (b <=? cpos c) then del_seq s c else c) kv.

(** Remove(seq, b, e) with a finite [e]: cells in [b,e) leave the sequence, later cells move down by e-b.
    Fails when a later cell is shared with another sequence, or when something remains and the model has
    no shift function. *)
Definition kv_range_blocked (kv : kvcache) (s : nat) (e : Z) : bool :=
  existsb (fun c => has s c && (e <=? cpos c) && shared s c) kv.
Definition kv_range (kv : kvcache) (s : nat) (b e : Z) : kvcache :=
  map (fun c => if has s c
                then if (b <=? cpos c) && (cpos c <? e) then del_seq s c
                     else if e <=? cpos c then mkCell (cpos c + (b - e)) (ctok c) (cseqs c) else c
                else c) kv.

(** CopyPrefix(src, dst, len) *)
Definition kv_copy_prefix (kv : kvcache) (src dst : nat) (len : Z) : kvcache :=
  map (fun c => let c' := del_seq dst c in
                if has src c' && (cpos c' <? len) then mkCell (cpos c') (ctok c') (cseqs c' ++ [dst]) else c') kv.

(** one batch entry as handed to Forward *)
Record entry := mkEntry { e_tok : tok; e_pos : Z; e_seq : nat; e_out : bool }.
Definition kv_forward (kv : kvcache) (b : list entry) : kvcache :=
  kv ++ map (fun e => mkCell (e_pos e) (e_tok e) [e_seq e]) b.

(** * 2. Configuration *)
Record config := mkCfg {
  numCtx : Z;          (* kvSize / numSlots *)
  batchSize : Z;
  multiUser : bool;
  canShift : bool;     (* the model supplies a shift function *)
  canPartial : bool;   (* the cache can erase part of a sequence *)
  canResume : bool;    (* false: a cache front that never lets a sequence be resumed *)
  eosTok : Z;          (* -1: none *)
  window : option Z;   (* Some w: sliding-window cache (kvcache.NewSWACache w); None: plain causal cache *)
  cacheCells : Z       (* number of cells Causal.Init allocated (maxSequences*capacity, or maxSequences*window+maxBatch
                          for a window below the capacity, rounded up to the cache padding); negative: unbounded *)
}.

Definition kv_remove_range (cfg : config) (kv : kvcache) (s : nat) (b e : Z) : option kvcache :=
  if negb (canPartial cfg) then None
  else if kv_range_blocked kv s e then None
  else let kv' := kv_range kv s b e in
       if existsb (has s) kv' && negb (canShift cfg) then None else Some kv'.

(** Remove(seq, b, MaxInt32) through the same front: a cache that cannot erase partially refuses b > 0 *)
Definition kv_remove_tail (cfg : config) (kv : kvcache) (s : nat) (b : Z) : option kvcache :=
  if negb (canPartial cfg) && negb (b =? 0) then None else Some (kv_trunc kv s b).


(** ** sliding window (kvcache.NewSWACache): what changes
    - StartForward first evicts, for every sequence of the batch, the cells more than [w] positions before the
      lowest position the batch holds for that sequence (updateSlidingWindow);
    - the mask additionally hides cells more than [w] positions before the entry (buildMask);
    - CanResume(seq, pos) answers whether the [w] positions before [pos] are all still stored and [pos] does not
      reach back before the window of the latest stored position. *)
Fixpoint low_pos (b : list entry) (s : nat) : option Z :=
  match b with
  | [] => None
  | e :: r => if Nat.eqb s (e_seq e)
              then match low_pos r s with Some p => Some (Z.min (e_pos e) p) | None => Some (e_pos e) end
              else low_pos r s
  end.
Definition kv_evict (cfg : config) (kv : kvcache) (b : list entry) : kvcache :=
  match window cfg with
  | None => kv
  | Some w =>
      map (fun c => mkCell (cpos c) (ctok c)
                      (filter (fun s => match low_pos b s with Some p => negb (cpos c <? p - w) | None => true end) (cseqs c))) kv
  end.
Definition visible_c (cfg : config) (kv : kvcache) (s : nat) (p : Z) : list (Z * tok) :=
  match window cfg with
  | None => visible kv s p
  | Some w => filter (fun e => p - w <=? fst e) (visible kv s p)
  end.
Definition swa_can_resume (w : Z) (kv : kvcache) (s : nat) (pos : Z) : bool :=
  match view kv s with
  | [] => false
  | v =>
      let last := fold_left (fun m e => Z.max m (fst e)) v (-1) in
      let pws := Z.max 0 (pos - w) in
      let lws := Z.max 0 (last - w) in
      if pws <? lws then false
      else zlen (filter (fun e => (pws <=? fst e) && (fst e <? pos)) v) =? pos - pws
  end.
Definition can_resume (cfg : config) (kv : kvcache) (s : nat) (pos : Z) : bool :=
  canResume cfg && match window cfg with None => true | Some w => swa_can_resume w kv s pos end.

(** ** capacity: StartForward needs a contiguous block of len(batch) free cells and defragments once before giving up,
    so (after the window eviction) it fails exactly when the cells still referenced by some sequence plus the batch
    exceed the allocation: ErrKvCacheFull, which processBatch returns and the run loop panics on *)
Definition live_cells (kv : kvcache) : Z :=
  zlen (filter (fun c => match cseqs c with [] => false | _ => true end) kv).
Definition kv_full (cfg : config) (kv : kvcache) (b : list entry) : bool :=
  (0 <=? cacheCells cfg) && (cacheCells cfg <? live_cells kv + zlen b).

(** * 3. InputCache *)
Record slot := mkSlot { s_inputs : list tok; s_inuse : bool; s_last : nat (* 0: zero time *) }.

Fixpoint common_prefix (a b : list tok) : nat :=
  match a, b with
  | x :: a', y :: b' => if x =? y then S (common_prefix a' b') else O
  | _, _ => O
  end.

Inductive res (A : Type) := Ok (a : A) | Err | Panic.
Arguments Ok {A} a. Arguments Err {A}. Arguments Panic {A}.

(** findLongestCacheSlot: first slot not in use with the strictly longest common prefix *)
Fixpoint find_longest_aux (sl : list slot) (i : nat) (prompt : list tok) (best : option (nat * nat)) : option (nat * nat) :=
  match sl with
  | [] => best
  | s :: r =>
      let best' :=
        if s_inuse s then best
        else let c := common_prefix (s_inputs s) prompt in
             match best with
             | None => Some (i, c)
             | Some (_, l) => if (l <? c)%nat then Some (i, c) else best
             end in
      find_longest_aux r (S i) prompt best'
  end.
Definition find_longest (sl : list slot) (prompt : list tok) : res (nat * nat) :=
  match find_longest_aux sl O prompt None with Some r => Ok r | None => Err end.

(** the two scans of findBestCacheSlot *)
Fixpoint best_longest_aux (sl : list slot) (i : nat) (prompt : list tok) (best : option (nat * nat)) : option (nat * nat) :=
  match sl with
  | [] => best
  | s :: r =>
      let c := common_prefix (s_inputs s) prompt in
      let best' := match best with
                   | None => Some (i, c)
                   | Some (_, l) => if (l <? c)%nat then Some (i, c) else best
                   end in
      best_longest_aux r (S i) prompt best'
  end.
Fixpoint best_oldest_aux (sl : list slot) (i : nat) (best : option (nat * nat)) : option (nat * nat) :=
  match sl with
  | [] => best
  | s :: r =>
      let best' :=
        if s_inuse s then best
        else match best with
             | None => Some (i, s_last s)          (* every lastUsed is before time.Now() *)
             | Some (_, o) => if (s_last s <? o)%nat then Some (i, s_last s) else best
             end in
      best_oldest_aux r (S i) best'
  end.

Definition nth_slot (sl : list slot) (i : nat) : slot := nth i sl (mkSlot [] false O).
Fixpoint set_nth {A} (l : list A) (i : nat) (x : A) : list A :=
  match l, i with
  | [], _ => []
  | _ :: r, O => x :: r
  | y :: r, S j => y :: set_nth r j x
  end.

(** findBestCacheSlot: (slots', kv', chosen slot, numPast) *)
Definition find_best (sl : list slot) (kv : kvcache) (prompt : list tok) : res (list slot * kvcache * nat * nat) :=
  match best_longest_aux sl O prompt None with
  | None => Panic                                          (* no slots at all: nil dereference *)
  | Some (li, longest) =>
      let ls := nth_slot sl li in
      if (longest =? length (s_inputs ls))%nat && negb (s_inuse ls) then Ok (sl, kv, li, longest)
      else match best_oldest_aux sl O None with
           | None => Panic                                 (* oldestSlot == nil: oldestSlot.InUse dereferences nil *)
           | Some (oi, _) =>
               if (0 <? longest)%nat && negb (li =? oi)%nat then
                 let os := nth_slot sl oi in
                 Ok (set_nth sl oi (mkSlot (firstn longest (s_inputs ls)) (s_inuse os) (s_last os)),
                     kv_copy_prefix kv li oi (Z.of_nat longest), oi, longest)
               else Ok (sl, kv, oi, longest)
           end
  end.

(** LoadCacheSlot: (slots', kv', slot index, remaining prompt) *)
Definition load_cache_slot (cfg : config) (clock : nat) (sl : list slot) (kv : kvcache) (prompt : list tok)
  : res (list slot * kvcache * nat * list tok) :=
  let found := if multiUser cfg then find_best sl kv prompt
               else match find_longest sl prompt with
                    | Ok (i, n) => Ok (sl, kv, i, n) | Err => Err | Panic => Panic end in
  match found with
  | Err => Err | Panic => Panic
  | Ok (sl1, kv1, i, n) =>
      let n1 := if (n =? length prompt)%nat then Nat.pred n else n in   (* prompt is never empty here *)
      let n2 := if (0 <? n1)%nat && negb (can_resume cfg kv1 i (Z.of_nat n1)) then O else n1 in   (* asked AFTER the decrement *)
      let '(kv2, n3) := match kv_remove_tail cfg kv1 i (Z.of_nat n2) with
                        | Some kv' => (kv', n2)
                        | None => (kv_trunc kv1 i 0, O)    (* Remove(0, MaxInt32) does not fail *)
                        end in
      let s := nth_slot sl1 i in
      Ok (set_nth sl1 i (mkSlot (firstn n3 (s_inputs s)) true (S clock)), kv2, i, skipn n3 prompt)
  end.

(** ShiftDiscard *)
Definition shift_discard (cfg : config) (inputLen numKeep : Z) : Z :=
  let targetFree := Z.max ((numCtx cfg - numKeep) / 2) 1 in
  let currentFree := numCtx cfg - inputLen in
  Z.max (targetFree - currentFree) 0.

(** the inputs that survive a shift: the first numKeep and everything after the discarded block *)
Definition shifted (inputs : list tok) (numKeep discard : Z) : list tok :=
  firstn (Z.to_nat numKeep) inputs ++ skipn (Z.to_nat (numKeep + discard)) inputs.

Inductive shift_res :=
| ShNone                                                   (* nothing to discard *)
| ShOk (inputs : list tok) (kv : kvcache)
| ShReprocess (reprocess : list tok) (kv : kvcache)        (* slot.Inputs is emptied *)
| ShErr.                                                   (* keep exceeds context *)

(** ShiftCacheSlot (repaired): on a failed Remove the sequence is cleared with Remove(seq, 0, MaxInt32) *)
Definition shift_cache_slot (cfg : config) (kv : kvcache) (id : nat) (inputs : list tok) (numKeep : Z) : shift_res :=
  if numCtx cfg <=? numKeep then ShErr
  else let discard := shift_discard cfg (zlen inputs) numKeep in
       if discard <=? 0 then ShNone
       else match kv_remove_range cfg kv id numKeep (numKeep + discard) with
            | Some kv' => ShOk (shifted inputs numKeep discard) kv'
            | None => ShReprocess (shifted inputs numKeep discard) (kv_trunc kv id 0)
            end.

(** the pinned code's reset was Remove(seq, 0, -1): nothing is in [0,-1), every cell of the sequence has
    pos >= -1 and is moved up by one unless the scan stops at a shared cell; the result was ignored.
    Kept only as a definition (what the repair changed); cells before the first shared one are moved. *)
Fixpoint kv_reset_pinned (kv : kvcache) (s : nat) : kvcache :=
  match kv with
  | [] => []
  | c :: r => if has s c
              then if shared s c then c :: r
                   else mkCell (cpos c + 1) (ctok c) (cseqs c) :: kv_reset_pinned r s
              else c :: kv_reset_pinned r s
  end.

(** * 4. Sequences and the server *)
Record seqst := mkSeq {
  q_inputs : list tok;        (* prompt inputs left to evaluate *)
  q_pending : list tok;       (* added to a batch, not yet submitted to Forward *)
  q_slot : nat;
  q_npredict : Z;
  q_npredicted : Z;
  q_keep : Z;
  q_pend : list str;          (* pendingResponses *)
  q_stops : list str;
  q_ibatch : nat;
  q_req : nat                 (* ghost: which request this is *)
}.

Inductive reason := DoneStop | DoneLength.
(** ghost event log: a request is accepted with its inputs after truncation, its normalised keep count, its numPredict
    and stop sequences; a token
    is sampled for it from the history [vis] the cache exposed to the batch entry that produced the logits *)
Inductive event :=
| EvSubmit (req : nat) (w0 : list tok) (keep : Z) (npredict : Z) (stops : list str)
| EvSample (req : nat) (t : tok) (vis : list (Z * tok))
| EvDone (req : nat) (r : reason).

Record state := mkSt {
  slots : list slot;
  kv : kvcache;
  seqs : list (option seqst);
  nextSeq : nat;
  clock : nat;
  nreq : nat;                 (* ghost: requests submitted so far *)
  log : list event            (* ghost, newest last *)
}.

Definition init (parallel : nat) : state :=
  mkSt (repeat (mkSlot [] false O) parallel) [] (repeat None parallel) O O O [].

(** NewSequence (text inputs): numKeep normalisation and prompt truncation *)
Definition new_sequence (cfg : config) (prompt : list tok) (numKeep : Z) : res (list tok * Z) :=
  match prompt with
  | [] => Err                                             (* "no input provided" *)
  | _ =>
    let keep0 := if numKeep <? 0 then zlen prompt else numKeep in
    let keep := Z.min keep0 (numCtx cfg - 1) in
    if numCtx cfg <? zlen prompt then
      let discard := zlen prompt - numCtx cfg in
      let promptStart := keep + discard in
      if zlen prompt <=? promptStart then Err               (* "entire prompt removed by truncation" *)
      else if keep <? 0 then Panic                          (* inputs[:numKeep] with a negative bound *)
      else Ok (firstn (Z.to_nat keep) prompt ++ skipn (Z.to_nat promptStart) prompt, keep)
    else Ok (prompt, keep)
  end.

Fixpoint first_free (l : list (option seqst)) (i : nat) : option nat :=
  match l with
  | [] => None
  | None :: _ => Some i
  | Some _ :: r => first_free r (S i)
  end.

Inductive ores :=
| RSubmitted (idx : nat)
| RNewSeqErr | RBusy | RLoadErr
| RIdle
| RStepped (batch : list entry) (chosen : list tok)
| RFatal | RPanic
| RCacheFull.                 (* Forward failed with ErrKvCacheFull: the runner panics *)

Inductive op :=
| Submit (prompt : list tok) (npredict keep : Z) (stops : list str)
| Step.

Definition submit (cfg : config) (st : state) (prompt : list tok) (npredict keep : Z) (stops : list str) : state * ores :=
  match new_sequence cfg prompt keep with
  | Err => (st, RNewSeqErr)
  | Panic => (st, RPanic)
  | Ok (inputs, keep') =>
      match first_free (seqs st) O with
      | None => (st, RBusy)
      | Some idx =>
          match load_cache_slot cfg (clock st) (slots st) (kv st) inputs with
          | Err => (st, RLoadErr)
          | Panic => (st, RPanic)
          | Ok (sl, kv', si, rest) =>
              (mkSt sl kv' (set_nth (seqs st) idx (Some (mkSeq rest [] si npredict 0 keep' [] stops O (nreq st))))
                    (nextSeq st) (S (clock st)) (S (nreq st)) (log st ++ [EvSubmit (nreq st) inputs keep' npredict stops]),
               RSubmitted idx)
          end
      end
  end.

(** removeSequence: the slot is released, its Inputs stay *)
Definition release (sl : list slot) (i : nat) : list slot :=
  let s := nth_slot sl i in set_nth sl i (mkSlot (s_inputs s) false (s_last s)).

(** ** processBatch, first half: build the batch *)

(** working state of the inner loop over one sequence's inputs.  [rng] is the slice the Go range statement
    captured; [b_inputs] is the field seq.inputs (which the reprocess path replaces while the range goes on). *)
Record bstate := mkB {
  b_C : list tok;            (* seq.cache.Inputs *)
  b_kv : kvcache;
  b_pending : list tok;
  b_inputs : list tok;
  b_batch : list entry;      (* batch so far, all sequences *)
  b_nout : nat;              (* len(batch.Outputs) *)
  b_ibatch : nat;
  b_resume : option nat
}.

Inductive bres := BOk (b : bstate) | BFatal.

(** one input goes into the batch: position = cached + pending; it is an output iff it is the last of seq.inputs *)
Definition add_input (slotId i : nat) (inp : tok) (b : bstate) : bstate :=
  let last := (S i =? length (b_inputs b))%nat in
  mkB (b_C b) (b_kv b) (b_pending b ++ [inp]) (b_inputs b)
      (b_batch b ++ [mkEntry inp (zlen (b_C b) + zlen (b_pending b)) slotId last])
      (if last then S (b_nout b) else b_nout b) (b_nout b) (b_resume b).

Definition set_resume (seqIdx : nat) (b : bstate) : bstate :=
  match b_pending b, b_resume b with
  | [], None => mkB (b_C b) (b_kv b) (b_pending b) (b_inputs b) (b_batch b) (b_nout b) (b_ibatch b) (Some seqIdx)
  | _, _ => b
  end.

Fixpoint build_seq (cfg : config) (seqIdx slotId : nat) (keep : Z) (rng : list tok) (i : nat) (b : bstate) : bres :=
  match rng with
  | [] => BOk b
  | inp :: rest =>
      if batchSize cfg <? zlen (b_batch b) + 1 then BOk (set_resume seqIdx b)
      else if numCtx cfg <? zlen (b_C b) + zlen (b_pending b) + 1 then
        match b_pending b with
        | _ :: _ => BOk b
        | [] =>
            match shift_cache_slot cfg (b_kv b) slotId (b_C b) keep with
            | ShErr => BFatal
            | ShNone => build_seq cfg seqIdx slotId keep rest (S i) (add_input slotId i inp b)
            | ShOk C' kv' =>
                build_seq cfg seqIdx slotId keep rest (S i)
                          (add_input slotId i inp (mkB C' kv' (b_pending b) (b_inputs b) (b_batch b) (b_nout b) (b_ibatch b) (b_resume b)))
            | ShReprocess re kv' =>
                build_seq cfg seqIdx slotId keep rest (S i)
                          (mkB [] kv' (b_pending b) (re ++ b_inputs b) (b_batch b) (b_nout b) (b_ibatch b) (b_resume b))
            end
        end
      else build_seq cfg seqIdx slotId keep rest (S i) (add_input slotId i inp b)
  end.

(** the part of the server state the outer loop threads *)
Record pstate := mkP {
  p_slots : list slot;
  p_kv : kvcache;
  p_seqs : list (option seqst);
  p_batch : list entry;
  p_nout : nat;
  p_resume : option nat;
  p_log : list event
}.

Definition at_limit (q : seqst) : bool := (0 <? q_npredict q) && (q_npredict q <=? q_npredicted q).

Definition set_slot_inputs (sl : list slot) (i : nat) (C : list tok) : list slot :=
  let s := nth_slot sl i in set_nth sl i (mkSlot C (s_inuse s) (s_last s)).

Inductive pres := POk (p : pstate) | PFatal.

Definition build_one (cfg : config) (p : pstate) (seqIdx : nat) : pres :=
  match nth seqIdx (p_seqs p) None with
  | None => POk p
  | Some q =>
      if at_limit q then
        POk (mkP (release (p_slots p) (q_slot q)) (p_kv p) (set_nth (p_seqs p) seqIdx None) (p_batch p) (p_nout p) (p_resume p)
                 (p_log p ++ [EvDone (q_req q) DoneLength]))
      else
        let b0 := mkB (s_inputs (nth_slot (p_slots p) (q_slot q))) (p_kv p) (q_pending q) (q_inputs q) (p_batch p) (p_nout p)
                      (q_ibatch q) (p_resume p) in
        match build_seq cfg seqIdx (q_slot q) (q_keep q) (q_inputs q) O b0 with
        | BFatal => PFatal
        | BOk b =>
            let q' := mkSeq (skipn (length (b_pending b)) (b_inputs b)) (b_pending b) (q_slot q) (q_npredict q) (q_npredicted q)
                            (q_keep q) (q_pend q) (q_stops q) (b_ibatch b) (q_req q) in
            POk (mkP (set_slot_inputs (p_slots p) (q_slot q) (b_C b)) (b_kv b) (set_nth (p_seqs p) seqIdx (Some q'))
                     (b_batch b) (b_nout b) (b_resume b) (p_log p))
        end
  end.

Fixpoint build_all (cfg : config) (p : pstate) (order : list nat) : pres :=
  match order with
  | [] => POk p
  | i :: r => match build_one cfg p i with
              | PFatal => PFatal
              | POk p' => build_all cfg p' r
              end
  end.

(** seqIdx := nextSeq-1; n times: seqIdx = (seqIdx+1) % n *)
Definition visit_order (n next : nat) : list nat := map (fun k => Nat.modulo (next + k) n) (seq O n).

(** ** processBatch, second half: after Forward *)
(** the scripted vocabulary: even tokens decode to one letter, odd tokens to two (so that a stop sequence can
    end inside a token's text) *)
Definition piece_of (t : tok) : str :=
  let c := Z.to_N (Z.modulo t 26) in
  if Z.even t then [N.add 97 c] else [N.add 97 c; N.add 65 c].

Fixpoint insert_vis (x : Z * tok) (l : list (Z * tok)) : list (Z * tok) :=
  match l with
  | [] => [x]
  | y :: r => if (fst x <? fst y) || ((fst x =? fst y) && (snd x <=? snd y)) then x :: l else y :: insert_vis x r
  end.
Definition sort_vis (l : list (Z * tok)) : list (Z * tok) := fold_right insert_vis [] l.

Section WithNetwork.
  (** the network + greedy sampler: the token selected for a batch entry is a function of the history the cache
      exposes to that entry (sorted by position) *)
  Variable F : list (Z * tok) -> tok.

  Definition outputs_of (b : list entry) : list entry := filter e_out b.
  Definition sample_at (cfg : config) (kv' : kvcache) (b : list entry) (ib : nat) : tok * list (Z * tok) :=
    match nth_error (outputs_of b) ib with
    | Some e => let vis := sort_vis (visible_c cfg kv' (e_seq e) (e_pos e)) in (F vis, vis)
    | None => (0, [])                                      (* out-of-range slice: not reachable, see proofs *)
    end.

  Inductive qres := QOk (s : slot) (q : option seqst) (ev : list event) | QPanic.

  Definition with_inputs (s : slot) (C : list tok) : slot := mkSlot C (s_inuse s) (s_last s).
  Definition released (s : slot) : slot := mkSlot (s_inputs s) false (s_last s).

  (** the body of the post-Forward loop for one live sequence; [s] is its cache slot *)
  Definition post_one (cfg : config) (kv' : kvcache) (b : list entry) (s : slot) (q : seqst) : qres :=
    let C := s_inputs s ++ q_pending q in
    let s1 := match q_pending q with [] => s | _ => with_inputs s C end in
    let q1 := mkSeq (q_inputs q) [] (q_slot q) (q_npredict q) (q_npredicted q) (q_keep q) (q_pend q) (q_stops q) (q_ibatch q) (q_req q) in
    match q_inputs q with
    | _ :: _ => QOk s1 (Some q1) []
    | [] =>
        let '(t, vis) := sample_at cfg kv' b (q_ibatch q) in
        let np := q_npredicted q + 1 in
        if (0 <=? eosTok cfg) && (t =? eosTok cfg) then
          QOk (released s1) None [EvSample (q_req q) t vis; EvDone (q_req q) DoneStop]
        else
          let pend := q_pend q ++ [piece_of t] in
          let sq := concat pend in
          match find_stop sq (q_stops q) with
          | Some stop =>
              let '(pend', trunc) := truncate_stop pend stop in
              let origLen := zlen pend in
              let newLen := zlen pend' in
              (* clamped at 0 by fixes/C07-stop-trim-negative.patch: after a context shift the stop sequence can span
                 more tokens than the cache record holds (the pinned code panics on the negative slice bound) *)
              let tokenLen := Z.max 0 (zlen C + 1 - (origLen - newLen) - (if trunc || (origLen =? newLen) then 1 else 0)) in
              QOk (released (with_inputs s1 (firstn (Z.to_nat tokenLen) C))) None
                  [EvSample (q_req q) t vis; EvDone (q_req q) DoneStop]
          | None =>
              let keep_pending := contains_stop_suffix sq (q_stops q) || incomplete_unicode sq in
              QOk s1 (Some (mkSeq [t] [] (q_slot q) (q_npredict q) np (q_keep q) (if keep_pending then pend else []) (q_stops q)
                                  (q_ibatch q) (q_req q)))
                  [EvSample (q_req q) t vis]
          end
    end.

  Fixpoint post_all (cfg : config) (kv' : kvcache) (b : list entry) (sl : list slot) (qs : list (option seqst))
    : option (list slot * list (option seqst) * list event) :=
    match qs with
    | [] => Some (sl, [], [])
    | None :: r =>
        match post_all cfg kv' b sl r with
        | Some (sl', r', ev) => Some (sl', None :: r', ev)
        | None => None
        end
    | Some q :: r =>
        match post_one cfg kv' b (nth_slot sl (q_slot q)) q with
        | QPanic => None
        | QOk s1 q' ev1 =>
            match post_all cfg kv' b (set_nth sl (q_slot q) s1) r with
            | Some (sl', r', ev) => Some (sl', q' :: r', ev1 ++ ev)
            | None => None
            end
        end
    end.

  Definition all_nil (qs : list (option seqst)) : bool := forallb (fun q => match q with None => true | _ => false end) qs.

  Definition chosen_of (cfg : config) (kv' : kvcache) (b : list entry) : list tok :=
    map (fun e => F (sort_vis (visible_c cfg kv' (e_seq e) (e_pos e)))) (outputs_of b).

  Definition process_batch (cfg : config) (st : state) : state * ores :=
    if all_nil (seqs st) then (st, RIdle)
    else
      let n := length (seqs st) in
      match build_all cfg (mkP (slots st) (kv st) (seqs st) [] O None (log st)) (visit_order n (nextSeq st)) with
      | PFatal => (st, RFatal)
      | POk p =>
          let next := match p_resume p with
                      | Some r => r
                      | None => S (Nat.modulo (nextSeq st + (n - 1)) n)
                      end in
          match p_batch p with
          | [] => (mkSt (p_slots p) (p_kv p) (p_seqs p) next (clock st) (nreq st) (p_log p), RStepped [] [])
          | _ =>
              if kv_full cfg (kv_evict cfg (p_kv p) (p_batch p)) (p_batch p) then (st, RCacheFull) else
              let kv' := kv_forward (kv_evict cfg (p_kv p) (p_batch p)) (p_batch p) in
              match post_all cfg kv' (p_batch p) (p_slots p) (p_seqs p) with
              | None => (st, RPanic)
              | Some (sl, qs, ev) =>
                  (mkSt sl kv' qs next (clock st) (nreq st) (p_log p ++ ev), RStepped (p_batch p) (chosen_of cfg kv' (p_batch p)))
              end
          end
      end.

  Definition step_op (cfg : config) (st : state) (o : op) : state * ores :=
    match o with
    | Submit prompt npredict keep stops => submit cfg st prompt npredict keep stops
    | Step => process_batch cfg st
    end.

  Definition run (cfg : config) (st : state) (ops : list op) : state :=
    fold_left (fun s o => fst (step_op cfg s o)) ops st.
End WithNetwork.

(** the scripted network of the harness (harness/cmd/c07/model.go hashVis) *)
Definition hash_vis (vocab : Z) (vis : list (Z * tok)) : tok :=
  Z.modulo (fold_left (fun h e => Z.modulo (h * 31 + fst e * 7 + snd e * 13 + 5) 1000003) vis 17) vocab.
