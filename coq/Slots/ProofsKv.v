(** C07 — lemmas about lists, [enumerate] and the cell-level cache operations. *)
From Coq Require Import List ZArith NArith Bool Arith Lia ZifyBool ZifyNat.
From V Require Import Slots.Model.
Import ListNotations.
Open Scope Z_scope.

(** [enumerate p l] = [(p, l0); (p+1, l1); ...]: what a cache holds for a sequence whose recorded inputs are [l] *)
Fixpoint enumerate (p : Z) (l : list tok) : list (Z * tok) :=
  match l with
  | [] => []
  | t :: r => (p, t) :: enumerate (p + 1) r
  end.

Lemma zlen_nil {A} : zlen (@nil A) = 0. Proof. reflexivity. Qed.
Lemma zlen_cons {A} (x : A) l : zlen (x :: l) = 1 + zlen l. Proof. unfold zlen. cbn [length]. lia. Qed.
Lemma zlen_app {A} (a b : list A) : zlen (a ++ b) = zlen a + zlen b.
Proof. unfold zlen. rewrite app_length. lia. Qed.
Lemma zlen_nonneg {A} (l : list A) : 0 <= zlen l. Proof. unfold zlen. lia. Qed.
Lemma zlen_firstn {A} n (l : list A) : zlen (firstn n l) = Z.min (Z.of_nat n) (zlen l).
Proof. unfold zlen. rewrite firstn_length. lia. Qed.
Lemma zlen_skipn {A} n (l : list A) : zlen (skipn n l) = Z.max 0 (zlen l - Z.of_nat n).
Proof. unfold zlen. rewrite skipn_length. lia. Qed.

Lemma enumerate_app p a b : enumerate p (a ++ b) = enumerate p a ++ enumerate (p + zlen a) b.
Proof.
  revert p. induction a as [|x a IH]; intro p; cbn [app enumerate].
  - rewrite zlen_nil. f_equal. lia.
  - rewrite IH, zlen_cons. do 3 f_equal. lia.
Qed.

Lemma enumerate_length p l : length (enumerate p l) = length l.
Proof. revert p. induction l; intro; cbn; auto. Qed.

Lemma enumerate_In p l q t : In (q, t) (enumerate p l) -> p <= q < p + zlen l.
Proof.
  revert p. induction l as [|x l IH]; intro p; cbn [enumerate In]; [tauto|].
  rewrite zlen_cons. intros [E|H]; [inversion E; subst; pose proof (zlen_nonneg l); lia|].
  apply IH in H. lia.
Qed.

Lemma enumerate_snd p l : map snd (enumerate p l) = l.
Proof. revert p. induction l; intro; cbn; f_equal; auto. Qed.

Lemma enumerate_inj p a b : enumerate p a = enumerate p b -> a = b.
Proof. intro H. rewrite <- (enumerate_snd p a), <- (enumerate_snd p b), H. reflexivity. Qed.

Lemma filter_all {A} (f : A -> bool) l : (forall x, In x l -> f x = true) -> filter f l = l.
Proof.
  induction l as [|x l IH]; intro H; cbn; auto.
  rewrite (H x (or_introl eq_refl)). f_equal. apply IH. intros; apply H; right; auto.
Qed.
Lemma filter_none {A} (f : A -> bool) l : (forall x, In x l -> f x = false) -> filter f l = [].
Proof.
  induction l as [|x l IH]; intro H; cbn; auto.
  rewrite (H x (or_introl eq_refl)). apply IH. intros; apply H; right; auto.
Qed.
Lemma filter_filter {A} (f g : A -> bool) l : filter f (filter g l) = filter (fun x => g x && f x) l.
Proof. induction l as [|x l IH]; cbn; auto. destruct (g x); cbn; [destruct (f x)|]; rewrite ?IH; auto. Qed.
Lemma filter_ext_in' {A} (f g : A -> bool) l : (forall x, In x l -> f x = g x) -> filter f l = filter g l.
Proof. apply filter_ext_in. Qed.

(** entries below a bound *)
Lemma filter_lt_enumerate p l k :
  0 <= k -> filter (fun e => fst e <? p + k) (enumerate p l) = enumerate p (firstn (Z.to_nat k) l).
Proof.
  revert p k. induction l as [|x l IH]; intros p k Hk; cbn [enumerate filter].
  - rewrite firstn_nil. reflexivity.
  - cbn [fst]. destruct (Z.eq_dec k 0) as [->|Hne].
    + replace (p <? p + 0) with false by lia. cbn [Z.to_nat firstn enumerate].
      apply filter_none. intros [q t] Hin. apply enumerate_In in Hin. cbn [fst]. lia.
    + replace (p <? p + k) with true by lia.
      replace (Z.to_nat k) with (S (Z.to_nat (k - 1))) by lia. cbn [firstn enumerate]. f_equal.
      replace (p + k) with (p + 1 + (k - 1)) by lia. apply IH. lia.
Qed.

Lemma filter_lt_enumerate0 l k :
  0 <= k -> filter (fun e => fst e <? k) (enumerate 0 l) = enumerate 0 (firstn (Z.to_nat k) l).
Proof. intro H. rewrite <- (filter_lt_enumerate 0 l k H). apply filter_ext. intro. f_equal. Qed.

Lemma filter_le_enumerate0 l q :
  -1 <= q -> filter (fun e => fst e <=? q) (enumerate 0 l) = enumerate 0 (firstn (Z.to_nat (q + 1)) l).
Proof.
  intro H. rewrite <- (filter_lt_enumerate0 l (q + 1)) by lia. apply filter_ext. intros [a b]. cbn [fst]. lia.
Qed.

Lemma firstn_all' {A} n (l : list A) : (length l <= n)%nat -> firstn n l = l.
Proof. apply firstn_all2. Qed.

(** ** sorting an enumeration does nothing *)
Lemma insert_vis_head x l :
  (forall y, In y l -> fst x < fst y) -> insert_vis x l = x :: l.
Proof.
  destruct l as [|y l]; cbn [insert_vis]; auto. intro H.
  specialize (H y (or_introl eq_refl)). replace (fst x <? fst y) with true by lia. reflexivity.
Qed.
Lemma sort_vis_enumerate p l : sort_vis (enumerate p l) = enumerate p l.
Proof.
  revert p. induction l as [|x l IH]; intro p; cbn [enumerate]; [reflexivity|].
  unfold sort_vis in *. cbn [fold_right]. rewrite IH. apply insert_vis_head.
  intros [q t] Hin. apply enumerate_In in Hin. cbn [fst]. lia.
Qed.

(** ** has / shared / del_seq *)
Lemma has_del_seq s s' c : has s (del_seq s' c) = has s c && negb (Nat.eqb s' s).
Proof.
  unfold has, del_seq. cbn [cseqs]. induction (cseqs c) as [|x l IH]; cbn [filter existsb]; [reflexivity|].
  destruct (Nat.eqb s' x) eqn:E1; cbn [negb]; cbn [existsb]; rewrite IH.
  - apply Nat.eqb_eq in E1. subst. destruct (Nat.eqb s x) eqn:E2; cbn [orb]; auto.
    apply Nat.eqb_eq in E2. subst. rewrite Nat.eqb_refl. cbn. rewrite andb_false_r. reflexivity.
  - destruct (Nat.eqb s x) eqn:E2; cbn [orb]; auto.
    apply Nat.eqb_eq in E2. subst. rewrite E1. reflexivity.
Qed.
Lemma has_del_same s c : has s (del_seq s c) = false.
Proof. rewrite has_del_seq, Nat.eqb_refl. apply andb_false_r. Qed.
Lemma has_del_other s s' c : s <> s' -> has s (del_seq s' c) = has s c.
Proof. intro H. rewrite has_del_seq. replace (Nat.eqb s' s) with false; [apply andb_true_r|]. symmetry. apply Nat.eqb_neq. auto. Qed.

Lemma has_app_single s p t c d : has s (mkCell p t (cseqs c ++ [d])) = has s c || Nat.eqb s d.
Proof. unfold has. cbn [cseqs]. rewrite existsb_app. cbn. rewrite orb_false_r. reflexivity. Qed.

Lemma shared_false_has s s' c : shared s c = false -> s' <> s -> has s' c = false.
Proof.
  unfold shared, has. induction (cseqs c) as [|x l IH]; cbn [existsb]; auto.
  intros H Hne. apply orb_false_iff in H as [H1 H2]. rewrite (IH H2 Hne), orb_false_r.
  apply negb_false_iff, Nat.eqb_eq in H1. subst. apply Nat.eqb_neq. auto.
Qed.

(** ** views *)
Lemma view_nil s : view [] s = []. Proof. reflexivity. Qed.
Lemma view_app kv1 kv2 s : view (kv1 ++ kv2) s = view kv1 s ++ view kv2 s.
Proof. unfold view. rewrite filter_app, map_app. reflexivity. Qed.
Lemma view_cons c kv1 s : view (c :: kv1) s = (if has s c then [(cpos c, ctok c)] else []) ++ view kv1 s.
Proof. unfold view. cbn [filter]. destruct (has s c); reflexivity. Qed.

(** Remove(seq, b, MaxInt32) *)
Lemma view_trunc_same kv0 s b : view (kv_trunc kv0 s b) s = filter (fun e => fst e <? b) (view kv0 s).
Proof.
  induction kv0 as [|c kv0 IH]; [reflexivity|].
  unfold kv_trunc in *. cbn [map]. rewrite !view_cons, filter_app, IH. f_equal.
  destruct (has s c) eqn:Hh; cbn [andb].
  - destruct (b <=? cpos c) eqn:Hb.
    + rewrite has_del_same. cbn [filter fst]. replace (cpos c <? b) with false by lia. reflexivity.
    + rewrite Hh. cbn [filter fst]. replace (cpos c <? b) with true by lia. reflexivity.
  - rewrite Hh. reflexivity.
Qed.
Lemma view_trunc_other kv0 s s' b : s' <> s -> view (kv_trunc kv0 s b) s' = view kv0 s'.
Proof.
  intro Hne. induction kv0 as [|c kv0 IH]; [reflexivity|].
  unfold kv_trunc in *. cbn [map]. rewrite !view_cons, IH. f_equal.
  destruct (has s c && (b <=? cpos c)); [|reflexivity].
  rewrite has_del_other by auto. reflexivity.
Qed.

(** CopyPrefix *)
Lemma view_copy_dst kv0 src dst len :
  src <> dst -> view (kv_copy_prefix kv0 src dst len) dst = filter (fun e => fst e <? len) (view kv0 src).
Proof.
  intro Hne. induction kv0 as [|c kv0 IH]; [reflexivity|].
  unfold kv_copy_prefix in *. cbn [map]. rewrite !view_cons, filter_app, IH. f_equal.
  rewrite has_del_other by auto. change (cpos (del_seq dst c)) with (cpos c). change (ctok (del_seq dst c)) with (ctok c).
  destruct (has src c) eqn:Hs; cbn [andb].
  - destruct (cpos c <? len) eqn:Hl.
    + rewrite (has_app_single dst _ _ (del_seq dst c) dst), Nat.eqb_refl, orb_true_r. cbn [cpos ctok filter fst].
      rewrite Hl. reflexivity.
    + rewrite has_del_same. cbn [filter fst]. rewrite Hl. reflexivity.
  - rewrite has_del_same. reflexivity.
Qed.
Lemma view_copy_other kv0 src dst len s :
  s <> dst -> view (kv_copy_prefix kv0 src dst len) s = view kv0 s.
Proof.
  intro Hne. induction kv0 as [|c kv0 IH]; [reflexivity|].
  unfold kv_copy_prefix in *. cbn [map]. rewrite !view_cons, IH. f_equal.
  destruct (has src (del_seq dst c) && (cpos (del_seq dst c) <? len)).
  - rewrite (has_app_single s _ _ (del_seq dst c) dst), has_del_other by auto.
    replace (Nat.eqb s dst) with false by (symmetry; apply Nat.eqb_neq; auto). rewrite orb_false_r. reflexivity.
  - rewrite has_del_other by auto. reflexivity.
Qed.

(** Remove(seq, b, e), e finite *)
Definition range_map (b e : Z) (x : Z * tok) : Z * tok := if e <=? fst x then (fst x + (b - e), snd x) else x.
Lemma view_range_same kv0 s b e :
  view (kv_range kv0 s b e) s =
  map (range_map b e) (filter (fun x => negb ((b <=? fst x) && (fst x <? e))) (view kv0 s)).
Proof.
  induction kv0 as [|c kv0 IH]; [reflexivity|].
  unfold kv_range in *. cbn [map]. rewrite !view_cons, filter_app, map_app, IH. f_equal.
  destruct (has s c) eqn:Hh; [|rewrite Hh; reflexivity].
  destruct ((b <=? cpos c) && (cpos c <? e)) eqn:Hin.
  - rewrite has_del_same. cbn [filter fst]. rewrite Hin. reflexivity.
  - cbn [filter fst]. rewrite Hin. cbn [negb map]. unfold range_map. cbn [fst snd].
    destruct (e <=? cpos c); unfold has in *; cbn [cseqs cpos ctok]; rewrite Hh; reflexivity.
Qed.
Lemma view_range_other kv0 s s' b e :
  s' <> s -> kv_range_blocked kv0 s e = false -> view (kv_range kv0 s b e) s' = view kv0 s'.
Proof.
  intros Hne. induction kv0 as [|c kv0 IH]; [reflexivity|].
  unfold kv_range_blocked. cbn [existsb]. intro Hb. apply orb_false_iff in Hb as [Hb1 Hb2].
  unfold kv_range in *. cbn [map]. rewrite !view_cons, (IH Hb2). f_equal.
  destruct (has s c) eqn:Hh; [|reflexivity].
  destruct ((b <=? cpos c) && (cpos c <? e)).
  - rewrite has_del_other by auto. reflexivity.
  - destruct (e <=? cpos c) eqn:He; [|reflexivity].
    cbn [andb] in Hb1. rewrite (shared_false_has s s' c Hb1 Hne).
    unfold has. cbn [cseqs]. fold (has s' c). rewrite (shared_false_has s s' c Hb1 Hne). reflexivity.
Qed.

Lemma skipn_skipn' {A} x y (l : list A) : skipn x (skipn y l) = skipn (x + y) l.
Proof.
  revert l. induction y as [|y IH]; intro l; [rewrite Nat.add_0_r; reflexivity|].
  rewrite Nat.add_succ_r. destruct l; [rewrite !skipn_nil; reflexivity|]. cbn [skipn]. apply IH.
Qed.

(** the effect of a successful shift on an exactly enumerated sequence *)
Lemma range_map_enumerate_hi b e p D :
  e <= p -> map (range_map b e) (enumerate p D) = enumerate (p + (b - e)) D.
Proof.
  revert p. induction D as [|x D IH]; intros p Hp; [reflexivity|]. cbn [enumerate map].
  rewrite IH by lia. unfold range_map at 1. cbn [fst snd]. replace (e <=? p) with true by lia.
  do 2 f_equal. lia.
Qed.

Lemma range_enumerate l keep discard :
  0 <= keep -> 0 <= discard -> keep + discard <= zlen l ->
  map (range_map keep (keep + discard))
      (filter (fun x => negb ((keep <=? fst x) && (fst x <? keep + discard))) (enumerate 0 l))
  = enumerate 0 (shifted l keep discard).
Proof.
  intros Hk Hd Hl. unfold shifted.
  rewrite <- (firstn_skipn (Z.to_nat keep) l) at 1.
  rewrite <- (firstn_skipn (Z.to_nat discard) (skipn (Z.to_nat keep) l)) at 1.
  rewrite skipn_skipn'. replace (Z.to_nat discard + Z.to_nat keep)%nat with (Z.to_nat (keep + discard)) by lia.
  set (A := firstn (Z.to_nat keep) l). set (B := firstn (Z.to_nat discard) (skipn (Z.to_nat keep) l)).
  set (D := skipn (Z.to_nat (keep + discard)) l).
  assert (HA : zlen A = keep) by (subst A; rewrite zlen_firstn; lia).
  assert (HB : zlen B = discard) by (subst B; rewrite zlen_firstn, zlen_skipn; lia).
  rewrite !enumerate_app, !filter_app, !map_app, HA, HB. cbn [Z.add].
  rewrite (filter_all _ (enumerate 0 A)), (filter_none _ (enumerate keep B)), (filter_all _ (enumerate (keep + discard) D)).
  - cbn [map app]. f_equal.
    + rewrite <- (map_id (enumerate 0 A)) at 2. apply map_ext_in. intros [q t] Hin. apply enumerate_In in Hin.
      unfold range_map. cbn [fst]. replace (keep + discard <=? q) with false by lia. reflexivity.
    + rewrite range_map_enumerate_hi by lia. f_equal. lia.
  - intros [q t] Hin. apply enumerate_In in Hin. cbn [fst]. lia.
  - intros [q t] Hin. apply enumerate_In in Hin. cbn [fst]. lia.
  - intros [q t] Hin. apply enumerate_In in Hin. cbn [fst]. lia.
Qed.

(** Forward *)
Definition slot_entries (b : list entry) (s : nat) : list (Z * tok) :=
  map (fun e => (e_pos e, e_tok e)) (filter (fun e => Nat.eqb s (e_seq e)) b).
Lemma view_forward kv0 b s : view (kv_forward kv0 b) s = view kv0 s ++ slot_entries b s.
Proof.
  unfold kv_forward. rewrite view_app. f_equal. unfold view, slot_entries.
  induction b as [|e b IH]; [reflexivity|]. cbn [map filter]. unfold has at 1. cbn [cseqs existsb]. rewrite orb_false_r.
  destruct (Nat.eqb s (e_seq e)); cbn [map cpos ctok]; rewrite IH; reflexivity.
Qed.
Lemma slot_entries_app b1 b2 s : slot_entries (b1 ++ b2) s = slot_entries b1 s ++ slot_entries b2 s.
Proof. unfold slot_entries. rewrite filter_app, map_app. reflexivity. Qed.

(** without a sliding window the windowed operations are the plain ones *)
Lemma kv_evict_none cfg kv0 b : window cfg = None -> kv_evict cfg kv0 b = kv0.
Proof. intro H. unfold kv_evict. rewrite H. reflexivity. Qed.
Lemma visible_c_none cfg kv0 s p : window cfg = None -> visible_c cfg kv0 s p = visible kv0 s p.
Proof. intro H. unfold visible_c. rewrite H. reflexivity. Qed.
