(** C07 — in reachable states neither the slot assignment nor processBatch fails: no "no available cache slots",
    no nil dereference in findBestCacheSlot, no shift error, no negative slice bound (with the two C07 patches). *)
From Coq Require Import List ZArith NArith Bool Arith Lia ZifyBool ZifyNat.
From V Require Import Common.Bytes Slots.StopFns Slots.Model Slots.ProofsKv Slots.ProofsWin Slots.WSlots Slots.WBatch.
Import ListNotations.
Open Scope Z_scope.

(** * a free sequence entry implies an idle slot (pigeonhole) *)
Lemma owners_list cfg sl kv0 qs b :
  mid_ok cfg sl kv0 qs b ->
  forall m, (m <= length sl)%nat -> (forall j, (j < m)%nat -> s_inuse (nth_slot sl j) = true) ->
  exists ks, length ks = m /\ NoDup ks /\
             forall k, In k ks -> exists q, get_seq qs k = Some q /\ (q_slot q < m)%nat.
Proof.
  intros Hm. induction m as [|m IH]; intros Hle Hall.
  - exists []. repeat split; [constructor|intros k []].
  - destruct IH as (ks & Hlen & Hnd & Hks); [lia|intros; apply Hall; lia|].
    destruct (mo_used _ _ _ _ _ Hm m ltac:(lia) (Hall m ltac:(lia))) as (k & q & Hq & Hs).
    exists (k :: ks). split; [cbn; lia|]. split.
    + constructor; [|auto]. intro Hin. destruct (Hks k Hin) as (q' & Hq' & Hlt). rewrite Hq in Hq'. injection Hq' as <-. lia.
    + intros k' [<-|Hin].
      * exists q. split; [auto|lia].
      * destruct (Hks k' Hin) as (q' & Hq' & Hlt). exists q'. split; [auto|lia].
Qed.

Lemma idle_slot_exists cfg sl kv0 qs b idx :
  mid_ok cfg sl kv0 qs b -> (idx < length qs)%nat -> get_seq qs idx = None ->
  exists j, (j < length sl)%nat /\ s_inuse (nth_slot sl j) = false.
Proof.
  intros Hm Hidx Hfree.
  (* search for an idle slot; if there is none, count *)
  assert (Hdec : forall m, (m <= length sl)%nat ->
            (exists j, (j < m)%nat /\ s_inuse (nth_slot sl j) = false) \/ (forall j, (j < m)%nat -> s_inuse (nth_slot sl j) = true)).
  { induction m as [|m IHm]; intro Hle; [right; intros; lia|].
    destruct IHm as [(j & Hj & Hu)|Hall]; [lia|left; exists j; split; [lia|auto]|].
    destruct (s_inuse (nth_slot sl m)) eqn:Eu.
    - right. intros j Hj. destruct (Nat.eq_dec j m) as [->|]; [auto|apply Hall; lia].
    - left. exists m. split; [lia|auto]. }
  destruct (Hdec (length sl) (le_n _)) as [(j & Hj & Hu)|Hall]; [eauto|]. exfalso.
  destruct (owners_list cfg sl kv0 qs b Hm (length sl) (le_n _) Hall) as (ks & Hlen & Hnd & Hks).
  assert (Hnd' : NoDup (idx :: ks)).
  { constructor; [|auto]. intro Hin. destruct (Hks idx Hin) as (q & Hq & _). congruence. }
  assert (Hincl : incl (idx :: ks) (seq 0 (length qs))).
  { intros k [<-|Hin]; apply in_seq; [lia|]. destruct (Hks k Hin) as (q & Hq & _). apply get_seq_lt in Hq. lia. }
  pose proof (NoDup_incl_length Hnd' Hincl) as Hlen'. cbn [length] in Hlen'. rewrite seq_length, Hlen, (mo_len _ _ _ _ _ Hm) in Hlen'. lia.
Qed.

(** * LoadCacheSlot succeeds when a slot is idle *)
Lemma find_longest_aux_some sl i0 prompt best :
  (best <> None \/ exists j, (j < length sl)%nat /\ s_inuse (nth j sl (mkSlot [] false O)) = false) ->
  find_longest_aux sl i0 prompt best <> None.
Proof.
  revert i0 best. induction sl as [|s sl IH]; intros i0 best H; cbn [find_longest_aux].
  - destruct H as [H|(j & Hj & _)]; [auto|cbn in Hj; lia].
  - apply IH. destruct H as [H|(j & Hj & Hu)].
    + left. destruct (s_inuse s); [auto|]. destruct best as [[bi bl]|]; [|discriminate].
      destruct (bl <? common_prefix (s_inputs s) prompt)%nat; discriminate.
    + destruct j as [|j]; cbn [nth] in Hu.
      * left. rewrite Hu. destruct best as [[bi bl]|]; [|discriminate]. destruct (bl <? common_prefix (s_inputs s) prompt)%nat; discriminate.
      * right. exists j. cbn in Hj. split; [lia|auto].
Qed.

Lemma best_longest_aux_some sl i0 prompt best :
  (best <> None \/ sl <> []) -> best_longest_aux sl i0 prompt best <> None.
Proof.
  revert i0 best. induction sl as [|s sl IH]; intros i0 best H; cbn [best_longest_aux].
  - destruct H as [H|H]; [auto|congruence].
  - apply IH. left. destruct best as [[bi bl]|]; [|discriminate].
    destruct (bl <? common_prefix (s_inputs s) prompt)%nat; discriminate.
Qed.

Lemma load_cache_slot_succeeds cfg clk sl kv0 prompt :
  (exists j, (j < length sl)%nat /\ s_inuse (nth_slot sl j) = false) ->
  exists r, load_cache_slot cfg clk sl kv0 prompt = Ok r.
Proof.
  intros (j & Hj & Hu). unfold load_cache_slot.
  assert (HF : exists sl1 kv1 i n, (if multiUser cfg then find_best sl kv0 prompt
                else match find_longest sl prompt with Ok (i, n) => Ok (sl, kv0, i, n) | Err => Err | Panic => Panic end) = Ok (sl1, kv1, i, n)).
  { destruct (multiUser cfg).
    - unfold find_best.
      destruct (best_longest_aux sl 0 prompt None) as [[li longest]|] eqn:EL.
      + destruct ((longest =? length (s_inputs (nth_slot sl li)))%nat && negb (s_inuse (nth_slot sl li))); [eauto|].
        destruct (best_oldest_aux sl 0 None) as [[oi olast]|] eqn:EO.
        * destruct ((0 <? longest)%nat && negb (li =? oi)%nat); eauto.
        * exfalso. revert EO. apply best_oldest_aux_some. right. exists j. auto.
      + exfalso. revert EL. apply best_longest_aux_some. right. intros ->. cbn in Hj. lia.
    - unfold find_longest. destruct (find_longest_aux sl 0 prompt None) as [[i n]|] eqn:E; [eauto|].
      exfalso. revert E. apply find_longest_aux_some. right. exists j. auto. }
  destruct HF as (sl1 & kv1 & i & n & ->).
  destruct (match kv_remove_tail cfg kv1 i _ with Some kv'0 => _ | None => _ end). eauto.
Qed.

Lemma new_sequence_no_panic cfg prompt keep : 1 <= numCtx cfg -> new_sequence cfg prompt keep <> Panic.
Proof.
  intro Hc. unfold new_sequence. destruct prompt as [|x prompt]; [discriminate|].
  remember (x :: prompt) as P. destruct (numCtx cfg <? zlen P); [|discriminate].
  destruct (zlen P <=? _); [discriminate|].
  match goal with |- context [if ?c <? 0 then _ else _] => destruct (c <? 0) eqn:E; [|discriminate] end.
  exfalso. pose proof (zlen_nonneg P). destruct (keep <? 0) eqn:Ek; lia.
Qed.

Lemma first_free_lt l i0 idx : first_free l i0 = Some idx -> (idx - i0 < length l)%nat.
Proof. intro H. apply first_free_spec in H. lia. Qed.

Lemma submit_no_failure cfg st prompt np keep stops :
  1 <= numCtx cfg -> inv cfg st ->
  match snd (submit cfg st prompt np keep stops) with RPanic | RFatal | RLoadErr => False | _ => True end.
Proof.
  intros Hc [Hm _]. unfold submit.
  destruct (new_sequence cfg prompt keep) as [[inputs keep']| |] eqn:EN; [|exact I|exfalso; eapply new_sequence_no_panic; eauto].
  destruct (first_free (seqs st) 0) as [idx|] eqn:EF; [|exact I].
  apply first_free_spec in EF. rewrite Nat.sub_0_r in EF. destruct EF as [Hidx Hfree].
  destruct (idle_slot_exists _ _ _ _ _ idx Hm ltac:(lia) Hfree) as (j & Hj & Hu).
  destruct (load_cache_slot_succeeds cfg (clock st) (slots st) (kv st) inputs) as ([[[sl kv'] si] rest] & ->); [eauto|exact I].
Qed.

(** * processBatch does not fail *)
Section NoFail.
  Variable F : list (Z * tok) -> tok.

  Lemma post_one_total cfg kv' b s q : post_one F cfg kv' b s q <> QPanic.
  Proof.
    unfold post_one. destruct (q_inputs q); [|discriminate].
    destruct (sample_at F cfg kv' b (q_ibatch q)) as [t vis].
    destruct ((0 <=? eosTok cfg) && (t =? eosTok cfg)); [discriminate|].
    destruct (find_stop _ _); [|discriminate]. destruct (truncate_stop _ _). discriminate.
  Qed.

  Lemma post_all_total cfg kv' b qs : forall sl, post_all F cfg kv' b sl qs <> None.
  Proof.
    induction qs as [|o r IH]; intro sl; cbn [post_all]; [discriminate|].
    destruct o as [q|].
    - destruct (post_one F cfg kv' b (nth_slot sl (q_slot q)) q) as [s1 q' ev1|] eqn:E; [|exfalso; eapply post_one_total; eauto].
      destruct (post_all F cfg kv' b (set_nth sl (q_slot q) s1) r) as [[[sl' r'] ev]|] eqn:E2; [discriminate|].
      exfalso. eapply IH; eauto.
    - destruct (post_all F cfg kv' b sl r) as [[[sl' r'] ev]|] eqn:E2; [discriminate|]. exfalso. eapply IH; eauto.
  Qed.

  Lemma process_batch_no_failure cfg st :
    win_ok cfg -> inv cfg st -> match snd (process_batch F cfg st) with RPanic | RFatal | RLoadErr => False | _ => True end.
  Proof.
    intros Hwin [Hm Hin]. unfold process_batch.
    destruct (all_nil (seqs st)); [exact I|].
    set (p0 := mkP (slots st) (kv st) (seqs st) [] 0 None (log st)).
    destruct (build_all_ok cfg (visit_order (length (seqs st)) (nextSeq st)) p0 Hwin) as (p & E & Hmp & Hlen).
    - apply visit_order_nodup.
    - exact Hm.
    - intros i0 _ q Hq. split; [eapply live_pending_nil; eapply (mo_live _ _ _ _ _ Hm); eauto|eapply Hin; eauto].
    - rewrite E. destruct (p_batch p); [exact I|].
      destruct (kv_full cfg _ _); [exact I|].
      destruct (post_all F cfg _ _ (p_slots p) (p_seqs p)) as [[[sl' qs'] ev]|] eqn:EP; [exact I|].
      exfalso. eapply post_all_total; eauto.
  Qed.

  Lemma step_op_no_failure cfg st o :
    1 <= numCtx cfg -> win_ok cfg -> inv cfg st ->
    match snd (step_op F cfg st o) with RPanic | RFatal | RLoadErr => False | _ => True end.
  Proof.
    intros Hc Hwin Hi. destruct o; cbn [step_op]; [apply submit_no_failure; auto|apply process_batch_no_failure; auto].
  Qed.
End NoFail.
