(** C07 — executable comparison of the model with an observed run of the implementation.
    [chk_trace] replays a history on the model and compares, after EVERY operation, the result of the operation
    (which sequence entry / error class / the batch handed to Forward and the tokens the sampler picked) and a
    projection of the whole state (slots: Inputs, InUse, LRU order; live sequences: inputs, pendingInputs, slot,
    numPredicted, pendingResponses; nextSeq; the cache contents per slot as sorted (position, token) lists). *)
From Coq Require Import List ZArith NArith Bool Arith.
From V Require Import Common.Bytes Slots.StopFns Slots.Model.
Import ListNotations.
Open Scope Z_scope.

Fixpoint list_eqb {A} (eqb : A -> A -> bool) (a b : list A) : bool :=
  match a, b with
  | [], [] => true
  | x :: a', y :: b' => eqb x y && list_eqb eqb a' b'
  | _, _ => false
  end.
Definition opt_eqb {A} (eqb : A -> A -> bool) (a b : option A) : bool :=
  match a, b with
  | None, None => true
  | Some x, Some y => eqb x y
  | _, _ => false
  end.
Definition pair_eqb {A B} (ea : A -> A -> bool) (eb : B -> B -> bool) (a b : A * B) : bool :=
  ea (fst a) (fst b) && eb (snd a) (snd b).

(** observed result of one operation *)
Inductive obs_res :=
| OSubmitted (idx : nat) | ONewSeqErr | OBusy | OLoadErr | OIdle
| OStepped (batch : list (tok * Z * nat * bool)) (chosen : list tok)
| OStepErr
| OCacheFull.

Record obs := mkObs {
  o_res : obs_res;
  o_slots : list (list tok * bool);
  o_lru : list nat;
  o_seqs : list (option (list tok * list tok * nat * Z * list str));
  o_next : nat;
  o_cells : list (list (Z * tok))
}.

(** stable insertion sort of the slot indices by lastUsed *)
Fixpoint insert_by (key : nat -> nat) (x : nat) (l : list nat) : list nat :=
  match l with
  | [] => [x]
  | y :: r => if (key x <? key y)%nat then x :: l else y :: insert_by key x r
  end.
Definition lru_order (sl : list slot) : list nat :=
  let key i := s_last (nth_slot sl i) in
  fold_left (fun acc i => insert_by key i acc) (seq O (length sl)) [].

Definition proj_entry (e : entry) : tok * Z * nat * bool := (e_tok e, e_pos e, e_seq e, e_out e).
Definition entry_eqb (a b : tok * Z * nat * bool) : bool :=
  let '(t1, p1, s1, o1) := a in let '(t2, p2, s2, o2) := b in
  (t1 =? t2) && (p1 =? p2) && (s1 =? s2)%nat && Bool.eqb o1 o2.

Definition res_eqb (m : ores) (o : obs_res) : bool :=
  match m, o with
  | RSubmitted i, OSubmitted j => (i =? j)%nat
  | RNewSeqErr, ONewSeqErr => true
  | RBusy, OBusy => true
  | RLoadErr, OLoadErr => true
  | RIdle, OIdle => true
  | RStepped b c, OStepped b' c' => list_eqb entry_eqb (map proj_entry b) b' && list_eqb Z.eqb c c'
  | RFatal, OStepErr => true
  | RCacheFull, OCacheFull => true
  | _, _ => false
  end.

Definition seq_proj (q : seqst) : list tok * list tok * nat * Z * list str :=
  (q_inputs q, q_pending q, q_slot q, q_npredicted q, q_pend q).
Definition seq_proj_eqb (a b : list tok * list tok * nat * Z * list str) : bool :=
  let '(i1, p1, s1, n1, r1) := a in let '(i2, p2, s2, n2, r2) := b in
  list_eqb Z.eqb i1 i2 && list_eqb Z.eqb p1 p2 && (s1 =? s2)%nat && (n1 =? n2) && list_eqb eqb_str r1 r2.

Definition state_eqb (st : state) (o : obs) : bool :=
  list_eqb (pair_eqb (list_eqb Z.eqb) Bool.eqb) (map (fun s => (s_inputs s, s_inuse s)) (slots st)) (o_slots o)
  && list_eqb Nat.eqb (lru_order (slots st)) (o_lru o)
  && list_eqb (opt_eqb seq_proj_eqb) (map (option_map seq_proj) (seqs st)) (o_seqs o)
  && (nextSeq st =? o_next o)%nat
  && list_eqb (list_eqb (pair_eqb Z.eqb Z.eqb))
              (map (fun i => sort_vis (view (kv st) i)) (seq O (length (slots st)))) (o_cells o).

Definition terminal (r : ores) : bool := match r with RFatal | RPanic | RCacheFull => true | _ => false end.

(** index of the first disagreeing operation, or None *)
Fixpoint chk_from (F : list (Z * tok) -> tok) (cfg : config) (st : state) (tr : list (op * obs)) (i : nat) : option nat :=
  match tr with
  | [] => None
  | (o, ob) :: r =>
      let '(st', res) := step_op F cfg st o in
      if negb (res_eqb res (o_res ob)) then Some i
      else if terminal res then None
      else if state_eqb st' ob then chk_from F cfg st' r (S i) else Some i
  end.

Definition chk_trace (vocab : Z) (cfg : config) (parallel : nat) (tr : list (op * obs)) : bool :=
  match chk_from (hash_vis vocab) cfg (init parallel) tr O with None => true | Some _ => false end.

(** for replays: the model's own account of the run *)
Definition model_trace (vocab : Z) (cfg : config) (parallel : nat) (ops : list op)
  : list (ores * list (list tok * bool) * list (option (list tok * list tok * nat * Z * list str)) * list (list (Z * tok))) :=
  snd (fold_left (fun acc o =>
                    let '(st, out) := acc in
                    let '(st', r) := step_op (hash_vis vocab) cfg st o in
                    (st', out ++ [(r, map (fun s => (s_inputs s, s_inuse s)) (slots st'), map (option_map seq_proj) (seqs st'),
                                   map (fun i => sort_vis (view (kv st') i)) (seq O (length (slots st'))))]))
                 ops (init parallel, [])).

(** pure parts, also used for llamarunner's copy of the same functions *)
Definition chk_shift_discard (nctx inputLen numKeep r : Z) : bool :=
  shift_discard (mkCfg nctx 1 false true true true (-1) None (-1)) inputLen numKeep =? r.
Definition chk_common_prefix (a b : list tok) (r : nat) : bool := (common_prefix a b =? r)%nat.

(** slot choice on a hand-made InputCache without a KV cache (as the packages' own tests do):
    result = Some (slot, numPast, inputs of every slot afterwards) or None for "no available cache slots" *)
Definition chk_find (multi : bool) (sl : list (list tok * bool * nat)) (prompt : list tok)
           (r : option (nat * nat * list (list tok))) : bool :=
  let slots := map (fun x => let '(i, u, l) := x in mkSlot i u l) sl in
  let m := if multi then match find_best slots [] prompt with
                         | Ok (sl', _, i, n) => Some (i, n, map s_inputs sl')
                         | _ => None end
           else match find_longest slots prompt with
                | Ok (i, n) => Some (i, n, map s_inputs slots)
                | _ => None end in
  opt_eqb (fun a b => let '(i1, n1, l1) := a in let '(i2, n2, l2) := b in
                      (i1 =? i2)%nat && (n1 =? n2)%nat && list_eqb (list_eqb Z.eqb) l1 l2) m r.
