(** C07 — llamarunner's input cache (Slots/Llama.v): with the single-user slot policy (no fork, hence no cell shared
    between two sequences) every history keeps each slot's recorded inputs equal to the cache contents of its
    sequence; with the multi-user policy this is false (Properties_C07.v). *)
From Coq Require Import List ZArith NArith Bool Arith Lia ZifyBool ZifyNat.
From V Require Import Slots.Model Slots.ProofsKv Slots.ProofsWin Slots.WSlots Slots.Llama.
Import ListNotations.
Open Scope Z_scope.

(** the plain (window-free) form of the per-slot correspondence *)
Definition pslot_ok (kv0 : kvcache) (i : nat) (s : slot) : Prop :=
  view_lt kv0 i (zlen (s_inputs s)) = enumerate 0 (s_inputs s) /\
  (s_inuse s = true -> view kv0 i = enumerate 0 (s_inputs s)).

Lemma pslot_of_slot cfg kv0 i s : window cfg = None -> slot_ok cfg kv0 i s -> pslot_ok kv0 i s.
Proof.
  intros Hn (lo & Hlo & H1 & H2). rewrite (wenum_le0 lo) in * by auto. split; [exact H1|]. intro Hu. apply (H2 Hu).
Qed.
Lemma slot_of_pslot cfg kv0 i s : pslot_ok kv0 i s -> slot_ok cfg kv0 i s.
Proof.
  intros [H1 H2]. exists 0. split; [lia|]. rewrite wenum_le0 by lia. split; [exact H1|].
  intro Hu. split; [apply (H2 Hu)|apply wlo_nonneg].
Qed.

(** no cell is shared between two sequences *)
Definition unshared (kv0 : kvcache) : Prop := forall c, In c kv0 -> (length (cseqs c) <= 1)%nat.

Lemma unshared_has kv0 c s s' : unshared kv0 -> In c kv0 -> has s c = true -> has s' c = true -> s = s'.
Proof.
  intros Hu Hin H1 H2. specialize (Hu c Hin). unfold has in *.
  destruct (cseqs c) as [|x [|y l]]; cbn in *; try discriminate; [|lia].
  rewrite orb_false_r in *. apply Nat.eqb_eq in H1, H2. congruence.
Qed.

Lemma unshared_map kv0 f : unshared kv0 -> (forall c, (length (cseqs (f c)) <= length (cseqs c))%nat) -> unshared (map f kv0).
Proof.
  intros Hu Hf c Hin. apply in_map_iff in Hin as (c0 & <- & Hin0). specialize (Hu c0 Hin0). specialize (Hf c0). lia.
Qed.

Lemma filter_len_le {A} (f : A -> bool) l : (length (filter f l) <= length l)%nat.
Proof. induction l as [|x l IH]; cbn; [lia|]. destruct (f x); cbn; lia. Qed.
Lemma del_seq_length s c : (length (cseqs (del_seq s c)) <= length (cseqs c))%nat.
Proof. unfold del_seq. cbn [cseqs]. apply filter_len_le. Qed.

Lemma unshared_trunc kv0 s b : unshared kv0 -> unshared (kv_trunc kv0 s b).
Proof.
  intro Hu. apply unshared_map; auto. intro c. destruct (has s c && (b <=? cpos c)); [apply del_seq_length|lia].
Qed.
Lemma unshared_rm_range kv0 s b e : unshared kv0 -> unshared (ll_seq_rm_range kv0 s b e).
Proof.
  intro Hu. apply unshared_map; auto. intro c. destruct (has s c && (b <=? cpos c) && (cpos c <? e)); [apply del_seq_length|lia].
Qed.
Lemma unshared_add kv0 s p0 p1 d : unshared kv0 -> unshared (ll_seq_add kv0 s p0 p1 d).
Proof.
  intro Hu. apply unshared_map; auto. intro c. destruct (has s c && (p0 <=? cpos c) && (cpos c <? p1)); cbn [cseqs]; lia.
Qed.
Lemma unshared_forward kv0 i p toks : unshared kv0 -> unshared (kv_forward kv0 (ll_entries i p toks)).
Proof.
  intros Hu c Hin. unfold kv_forward in Hin. apply in_app_or in Hin as [Hin|Hin]; [auto|].
  apply in_map_iff in Hin as (e & <- & _). cbn. lia.
Qed.

(** ** views under the llama.cpp calls *)
Lemma view_rm_range_same kv0 s b e :
  view (ll_seq_rm_range kv0 s b e) s = filter (fun x => negb ((b <=? fst x) && (fst x <? e))) (view kv0 s).
Proof.
  induction kv0 as [|c kv0 IH]; [reflexivity|].
  unfold ll_seq_rm_range in *. cbn [map]. rewrite !view_cons, filter_app, IH. f_equal.
  destruct (has s c) eqn:Hh; cbn [andb]; [|rewrite Hh; reflexivity].
  destruct ((b <=? cpos c) && (cpos c <? e)) eqn:Hin.
  - rewrite has_del_same. cbn [filter fst]. rewrite Hin. reflexivity.
  - rewrite Hh. cbn [filter fst]. rewrite Hin. reflexivity.
Qed.
Lemma view_rm_range_other kv0 s s' b e : s' <> s -> view (ll_seq_rm_range kv0 s b e) s' = view kv0 s'.
Proof.
  intro Hne. induction kv0 as [|c kv0 IH]; [reflexivity|].
  unfold ll_seq_rm_range in *. cbn [map]. rewrite !view_cons, IH. f_equal.
  destruct (has s c && (b <=? cpos c) && (cpos c <? e)); [|reflexivity]. rewrite has_del_other by auto. reflexivity.
Qed.

Lemma view_add_same kv0 s p0 p1 d :
  view (ll_seq_add kv0 s p0 p1 d) s =
  map (fun x => if (p0 <=? fst x) && (fst x <? p1) then (fst x + d, snd x) else x) (view kv0 s).
Proof.
  induction kv0 as [|c kv0 IH]; [reflexivity|].
  unfold ll_seq_add in *. cbn [map]. rewrite !view_cons, map_app, IH. f_equal.
  destruct (has s c) eqn:Hh; cbn [andb].
  - destruct ((p0 <=? cpos c) && (cpos c <? p1)) eqn:Hin; unfold has in *; cbn [cseqs cpos ctok map fst snd]; rewrite Hh, ?Hin; reflexivity.
  - rewrite Hh. reflexivity.
Qed.
Lemma view_add_other kv0 s s' p0 p1 d : unshared kv0 -> s' <> s -> view (ll_seq_add kv0 s p0 p1 d) s' = view kv0 s'.
Proof.
  intros Hu Hne. induction kv0 as [|c kv0 IH]; [reflexivity|].
  assert (Hu' : unshared kv0) by (intros c0 H0; apply Hu; right; auto).
  unfold ll_seq_add in *. cbn [map]. rewrite !view_cons, (IH Hu'). f_equal.
  destruct (has s c && (p0 <=? cpos c) && (cpos c <? p1)) eqn:E; [|reflexivity].
  apply andb_true_iff in E as [E _]. apply andb_true_iff in E as [Hs _].
  destruct (has s' c) eqn:Hs'.
  - exfalso. apply Hne. symmetry. eapply (unshared_has (c :: kv0)); eauto. left. reflexivity.
  - unfold has in *. cbn [cseqs]. rewrite Hs'. reflexivity.
Qed.

(** the shift: erase [keep, keep+d), move [keep+d, len) down by d *)
Lemma shift_map_eq keep d L v :
  (forall x, In x v -> fst x < L) ->
  map (fun x => if (keep + d <=? fst x) && (fst x <? L) then (fst x + - d, snd x) else x) v = map (range_map keep (keep + d)) v.
Proof.
  intro H. apply map_ext_in. intros x Hx. specialize (H x Hx). unfold range_map.
  destruct (keep + d <=? fst x) eqn:E; cbn [andb].
  - replace (fst x <? L) with true by lia. f_equal. lia.
  - reflexivity.
Qed.

Lemma ll_shift_view kv0 s C keep d :
  0 <= keep -> 0 <= d -> keep + d <= zlen C -> view kv0 s = enumerate 0 C ->
  view (ll_seq_add (ll_seq_rm_range kv0 s keep (keep + d)) s (keep + d) (zlen C) (- d)) s = enumerate 0 (shifted C keep d).
Proof.
  intros Hk Hd Hl Hv. rewrite view_add_same, view_rm_range_same, Hv.
  rewrite shift_map_eq.
  - apply range_enumerate; auto.
  - intros [q t] Hin. apply filter_In in Hin as [Hin _]. apply enumerate_In in Hin. cbn [fst]. lia.
Qed.

Lemma slot_entries_ll i p toks : slot_entries (ll_entries i p toks) i = enumerate p toks.
Proof.
  revert p. induction toks as [|t r IH]; intro p; [reflexivity|].
  unfold slot_entries in *. cbn [ll_entries filter e_seq]. rewrite Nat.eqb_refl. cbn [map e_pos e_tok enumerate]. f_equal. apply IH.
Qed.
Lemma slot_entries_ll_other i j p toks : j <> i -> slot_entries (ll_entries i p toks) j = [].
Proof.
  intro Hne. revert p. induction toks as [|t r IH]; intro p; [reflexivity|].
  unfold slot_entries in *. cbn [ll_entries filter e_seq].
  replace (Nat.eqb j i) with false by (symmetry; apply Nat.eqb_neq; auto). apply IH.
Qed.

(** * the invariant and its preservation (single-user policy) *)
Definition linv (st : lstate) : Prop :=
  unshared (l_kv st) /\ forall i, (i < length (l_slots st))%nat -> pslot_ok (l_kv st) i (nth_slot (l_slots st) i).

Lemma pslot_frame kv0 kv1 i s : view kv1 i = view kv0 i -> pslot_ok kv0 i s -> pslot_ok kv1 i s.
Proof. intros Hv [H1 H2]. unfold pslot_ok, view_lt in *. rewrite Hv. auto. Qed.

Lemma exact_pslot kv0 i s : view kv0 i = enumerate 0 (s_inputs s) -> pslot_ok kv0 i s.
Proof.
  intro H. split; [|auto]. unfold view_lt. rewrite H, filter_lt_enumerate0 by apply zlen_nonneg.
  rewrite firstn_all2; [reflexivity|]. unfold zlen. lia.
Qed.

Lemma lstep_inv cfg st o :
  window cfg = None -> multiUser cfg = false -> linv st -> linv (lstep cfg st o).
Proof.
  intros Hnw Hsu [Hu Hs]. destruct o as [prompt cp|i toks|i keep|i n|i]; cbn [lstep].
  - (* LoadCacheSlot *)
    destruct prompt as [|p0 pr] eqn:Ep; [split; auto|]. rewrite <- Ep. assert (Hne : prompt <> []) by (rewrite Ep; discriminate). clear Ep.
    unfold ll_load_cache_slot. rewrite Hsu.
    destruct (find_longest (l_slots st) prompt) as [[i n]| |] eqn:EF; try (split; auto; fail).
    assert (Hok : slots_ok cfg (l_kv st) (l_slots st)) by (intros j Hj; apply slot_of_pslot; auto).
    destruct (find_longest_ok cfg (l_slots st) (l_kv st) prompt i n Hok EF) as (F1 & F2 & F3 & F4 & F5 & F6 & F7 & F8 & F9 & F10).
    apply (pslot_of_slot cfg (l_kv st) i _ Hnw) in F10. destruct F10 as [Hlt _].
    set (n0 := if cp then n else 0%nat). set (n1 := if (n0 =? length prompt)%nat then Nat.pred n0 else n0).
    set (n2 := if negb (canPartial cfg) && negb (n1 =? 0)%nat then 0%nat else n1).
    assert (Hn2 : (n2 <= n)%nat).
    { assert (n0 <= n)%nat by (subst n0; destruct cp; lia).
      assert (n1 <= n0)%nat by (subst n1; destruct (n0 =? length prompt)%nat; lia).
      subst n2. destruct (negb (canPartial cfg) && negb (n1 =? 0)%nat); lia. }
    unfold linv. cbn [l_slots l_kv]. split; [apply unshared_trunc; auto|].
    intros j Hj. rewrite set_nth_length in Hj. destruct (Nat.eq_dec i j) as [<-|Hij].
    + rewrite nth_slot_set_same by auto. apply exact_pslot. cbn [s_inputs]. unfold ll_seq_rm_tail. rewrite view_trunc_same.
      replace (firstn n2 (s_inputs (nth_slot (l_slots st) i))) with (firstn (Z.to_nat (Z.of_nat n2)) (s_inputs (nth_slot (l_slots st) i))) by (rewrite Nat2Z.id; reflexivity).
      rewrite <- filter_lt_enumerate0 by lia. rewrite <- Hlt. unfold view_lt. rewrite filter_filter.
      apply filter_ext. intros [q t]. cbn [fst]. unfold zlen. lia.
    + rewrite nth_slot_set_other by auto. eapply pslot_frame; [|apply Hs; auto]. unfold ll_seq_rm_tail. apply view_trunc_other. auto.
  - (* decode *)
    destruct ((i <? length (l_slots st))%nat && s_inuse (nth_slot (l_slots st) i) && (zlen (s_inputs (nth_slot (l_slots st) i)) + zlen toks <=? numCtx cfg)) eqn:E; [|split; auto].
    apply andb_true_iff in E as [E _]. apply andb_true_iff in E as [Hi Hin]. apply Nat.ltb_lt in Hi.
    unfold linv. cbn [l_slots l_kv]. split; [apply unshared_forward; auto|].
    intros j Hj. rewrite set_nth_length in Hj. destruct (Nat.eq_dec i j) as [<-|Hij].
    + rewrite nth_slot_set_same by auto. apply exact_pslot. cbn [s_inputs].
      destruct (Hs i Hi) as [_ Hex]. rewrite view_forward, (Hex Hin), slot_entries_ll, enumerate_app. reflexivity.
    + rewrite nth_slot_set_other by auto. eapply pslot_frame; [|apply Hs; auto].
      rewrite view_forward, slot_entries_ll_other by auto. apply app_nil_r.
  - (* ShiftCacheSlot *)
    destruct ((i <? length (l_slots st))%nat && s_inuse (nth_slot (l_slots st) i) && (0 <=? keep) && (numCtx cfg <=? zlen (s_inputs (nth_slot (l_slots st) i)))) eqn:E; [|split; auto].
    apply andb_true_iff in E as [E Hfull]. apply andb_true_iff in E as [E Hk0]. apply andb_true_iff in E as [Hi Hin]. apply Nat.ltb_lt in Hi.
    set (s := nth_slot (l_slots st) i) in *. set (C := s_inputs s) in *.
    destruct (Hs i Hi) as [_ Hex]. specialize (Hex Hin). fold s C in Hex.
    unfold ll_shift_cache_slot. fold C.
    destruct (numCtx cfg <=? keep) eqn:Ek; [split; auto|].
    destruct (shift_discard_bounds cfg (zlen C) keep ltac:(lia) ltac:(lia)) as [Hd1 Hd2].
    set (d := shift_discard cfg (zlen C) keep) in *. replace (d <=? 0) with false by lia.
    destruct (canShift cfg && canPartial cfg).
    + unfold linv. cbn [l_slots l_kv]. split; [apply unshared_add; apply unshared_rm_range; auto|].
      intros j Hj. rewrite set_nth_length in Hj. destruct (Nat.eq_dec i j) as [<-|Hij].
      * rewrite nth_slot_set_same by auto. apply exact_pslot. cbn [s_inputs]. apply ll_shift_view; auto; lia.
      * rewrite nth_slot_set_other by auto. eapply pslot_frame; [|apply Hs; auto].
        rewrite view_add_other by (auto; apply unshared_rm_range; auto). apply view_rm_range_other. auto.
    + unfold linv. cbn [l_slots l_kv]. split; [apply unshared_trunc; auto|].
      intros j Hj. rewrite set_nth_length in Hj. destruct (Nat.eq_dec i j) as [<-|Hij].
      * rewrite nth_slot_set_same by auto. apply exact_pslot. cbn [s_inputs enumerate]. unfold ll_seq_rm_tail. rewrite view_trunc_same.
        apply filter_none. intros [q t] Hq. rewrite Hex in Hq. apply enumerate_In in Hq. cbn [fst]. lia.
      * rewrite nth_slot_set_other by auto. eapply pslot_frame; [|apply Hs; auto]. unfold ll_seq_rm_tail. apply view_trunc_other. auto.
  - (* stop trim + release *)
    destruct ((i <? length (l_slots st))%nat && s_inuse (nth_slot (l_slots st) i)) eqn:E; [|split; auto].
    apply andb_true_iff in E as [Hi Hin]. apply Nat.ltb_lt in Hi. unfold linv. cbn [l_slots l_kv]. split; [auto|].
    intros j Hj. rewrite set_nth_length in Hj. destruct (Nat.eq_dec i j) as [<-|Hij].
    + rewrite nth_slot_set_same by auto. destruct (Hs i Hi) as [_ Hex]. specialize (Hex Hin).
      split; [|cbn; discriminate]. cbn [s_inputs]. unfold view_lt. rewrite Hex, filter_lt_enumerate0 by apply zlen_nonneg. f_equal.
      rewrite zlen_firstn. set (C := s_inputs (nth_slot (l_slots st) i)).
      destruct (Z.le_ge_cases (Z.of_nat n) (zlen C)).
      * rewrite Z.min_l by auto. rewrite Nat2Z.id. reflexivity.
      * rewrite Z.min_r by auto. rewrite !firstn_all2; auto; unfold zlen in *; lia.
    + rewrite nth_slot_set_other by auto. apply Hs; auto.
  - (* release *)
    destruct ((i <? length (l_slots st))%nat && s_inuse (nth_slot (l_slots st) i)) eqn:E; [|split; auto].
    apply andb_true_iff in E as [Hi Hin]. apply Nat.ltb_lt in Hi. unfold linv. cbn [l_slots l_kv]. split; [auto|].
    intros j Hj. rewrite set_nth_length in Hj. destruct (Nat.eq_dec i j) as [<-|Hij].
    + rewrite nth_slot_set_same by auto. destruct (Hs i Hi) as [Hlt _]. split; [exact Hlt|cbn; discriminate].
    + rewrite nth_slot_set_other by auto. apply Hs; auto.
Qed.

Lemma linit_inv parallel : linv (linit parallel).
Proof.
  split; [intros c []|]. intros i Hi. unfold linit in *. cbn [l_slots l_kv] in *. rewrite repeat_length in Hi.
  unfold nth_slot. replace (nth i (repeat (mkSlot [] false 0) parallel) (mkSlot [] false 0)) with (mkSlot [] false 0).
  - split; [reflexivity|cbn; discriminate].
  - clear. revert i. induction parallel; intros [|i]; cbn; auto.
Qed.

Lemma lrun_inv cfg st ops : window cfg = None -> multiUser cfg = false -> linv st -> linv (lrun cfg st ops).
Proof.
  intros Hnw Hsu. revert st. induction ops as [|o ops IH]; intros st H; cbn [lrun fold_left]; [auto|].
  apply IH. apply lstep_inv; auto.
Qed.
