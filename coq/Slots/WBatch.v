(** C07 — the structural invariant of the runner (slots <-> cache <-> live sequences) and its preservation by
    the slot-assignment block of completion and by processBatch. *)
From Coq Require Import List ZArith NArith Bool Arith Lia ZifyBool ZifyNat.
From V Require Import Common.Bytes Slots.StopFns Slots.Model Slots.ProofsKv Slots.ProofsWin Slots.WSlots.
Import ListNotations.
Open Scope Z_scope.

Definition get_seq (qs : list (option seqst)) (idx : nat) : option seqst := nth idx qs None.

(** what must hold of a live sequence [q], given the slots, the cache and the batch under construction *)
Record live_ok (cfg : config) (sl : list slot) (kv0 : kvcache) (b : list entry) (q : seqst) : Prop := mkLiveOk {
  lo_slot : (q_slot q < length sl)%nat;
  lo_inuse : s_inuse (nth_slot sl (q_slot q)) = true;
  lo_view : exists lo, lo <= wlo cfg (zlen (s_inputs (nth_slot sl (q_slot q)))) /\
                       view kv0 (q_slot q) = wenum lo (s_inputs (nth_slot sl (q_slot q)));
  lo_entries : slot_entries b (q_slot q) = enumerate (zlen (s_inputs (nth_slot sl (q_slot q)))) (q_pending q);
  lo_fit : zlen (s_inputs (nth_slot sl (q_slot q))) + zlen (q_pending q) <= numCtx cfg;
  lo_keep : 0 <= q_keep q < numCtx cfg;
  lo_guard : shift_guard cfg (q_keep q);
  lo_nonempty : q_inputs q = [] -> q_pending q <> []
}.

Record mid_ok (cfg : config) (sl : list slot) (kv0 : kvcache) (qs : list (option seqst)) (b : list entry) : Prop := mkMidOk {
  mo_len : length sl = length qs;
  mo_live : forall idx q, get_seq qs idx = Some q -> live_ok cfg sl kv0 b q;
  mo_inj : forall i1 i2 q1 q2, get_seq qs i1 = Some q1 -> get_seq qs i2 = Some q2 -> q_slot q1 = q_slot q2 -> i1 = i2;
  mo_idle : forall i, (i < length sl)%nat -> s_inuse (nth_slot sl i) = false ->
            (exists lo, (window cfg = None -> lo <= 0) /\
                        view_lt kv0 i (zlen (s_inputs (nth_slot sl i))) = wenum lo (s_inputs (nth_slot sl i))) /\
            slot_entries b i = [];
  mo_used : forall i, (i < length sl)%nat -> s_inuse (nth_slot sl i) = true -> exists idx q, get_seq qs idx = Some q /\ q_slot q = i
}.

(** the invariant at operation boundaries: nothing pending, every live sequence has something left to evaluate *)
Definition inv (cfg : config) (st : state) : Prop :=
  mid_ok cfg (slots st) (kv st) (seqs st) [] /\
  forall idx q, get_seq (seqs st) idx = Some q -> q_inputs q <> [].

Lemma get_seq_set_same qs i x : (i < length qs)%nat -> get_seq (set_nth qs i x) i = x.
Proof. apply nth_set_nth_same. Qed.
Lemma get_seq_set_other qs i j x : i <> j -> get_seq (set_nth qs i x) j = get_seq qs j.
Proof. apply nth_set_nth_other. Qed.
Lemma get_seq_lt qs i q : get_seq qs i = Some q -> (i < length qs)%nat.
Proof.
  unfold get_seq. intro H. destruct (Nat.lt_ge_cases i (length qs)); auto.
  rewrite nth_overflow in H by lia. discriminate.
Qed.

Lemma enumerate_nil_inv p l : enumerate p l = [] -> l = [].
Proof. destruct l; cbn; [auto|discriminate]. Qed.

Lemma live_pending_nil cfg sl kv0 q : live_ok cfg sl kv0 [] q -> q_pending q = [].
Proof. intros [_ _ _ He _ _ _ _]. cbn in He. symmetry in He. apply enumerate_nil_inv in He. auto. Qed.

(** * the inner loop of processBatch over one sequence *)
Definition b_ok (cfg : config) (slotId : nat) (b : bstate) : Prop :=
  (exists lo, lo <= wlo cfg (zlen (b_C b)) /\ view (b_kv b) slotId = wenum lo (b_C b)) /\
  slot_entries (b_batch b) slotId = enumerate (zlen (b_C b)) (b_pending b) /\
  zlen (b_C b) + zlen (b_pending b) <= numCtx cfg /\
  b_inputs b <> [].
Definition b_frame (slotId : nat) (b b' : bstate) : Prop :=
  forall j, j <> slotId -> view (b_kv b') j = view (b_kv b) j /\ slot_entries (b_batch b') j = slot_entries (b_batch b) j.

Lemma b_frame_refl s b : b_frame s b b. Proof. intros j _. auto. Qed.
Lemma b_frame_trans s b1 b2 b3 : b_frame s b1 b2 -> b_frame s b2 b3 -> b_frame s b1 b3.
Proof. intros H1 H2 j Hj. destruct (H1 j Hj) as [A B], (H2 j Hj) as [C D]. split; congruence. Qed.

Lemma slot_entries_single_same e s : e_seq e = s -> slot_entries [e] s = [(e_pos e, e_tok e)].
Proof. intro H. unfold slot_entries. cbn. rewrite H, Nat.eqb_refl. reflexivity. Qed.
Lemma slot_entries_single_other e s : e_seq e <> s -> slot_entries [e] s = [].
Proof. intro H. unfold slot_entries. cbn. replace (Nat.eqb s (e_seq e)) with false; [reflexivity|]. symmetry. apply Nat.eqb_neq. auto. Qed.

Lemma add_input_ok cfg slotId i inp b :
  b_ok cfg slotId b -> zlen (b_C b) + zlen (b_pending b) + 1 <= numCtx cfg ->
  b_ok cfg slotId (add_input slotId i inp b) /\ b_frame slotId b (add_input slotId i inp b).
Proof.
  intros (H1 & H2 & H3 & H4) Hfit. split.
  - unfold b_ok, add_input. cbn [b_kv b_C b_batch b_pending b_inputs]. split; [auto|]. split; [|split; [|auto]].
    + rewrite slot_entries_app, H2, enumerate_app, slot_entries_single_same by reflexivity. reflexivity.
    + rewrite zlen_app. unfold zlen at 3. cbn [length]. lia.
  - intros j Hj. unfold add_input. cbn [b_kv b_batch]. split; [reflexivity|].
    rewrite slot_entries_app, slot_entries_single_other by (cbn; auto). apply app_nil_r.
Qed.

Lemma set_resume_same seqIdx b :
  b_C (set_resume seqIdx b) = b_C b /\ b_kv (set_resume seqIdx b) = b_kv b /\ b_pending (set_resume seqIdx b) = b_pending b /\
  b_inputs (set_resume seqIdx b) = b_inputs b /\ b_batch (set_resume seqIdx b) = b_batch b /\ b_nout (set_resume seqIdx b) = b_nout b.
Proof. unfold set_resume. destruct (b_pending b) eqn:E1, (b_resume b) eqn:E2; cbn; rewrite ?E1; repeat split; reflexivity. Qed.

Lemma build_seq_ok cfg seqIdx slotId keep rng i b :
  win_ok cfg -> shift_guard cfg keep ->
  0 <= keep < numCtx cfg -> b_ok cfg slotId b ->
  exists b', build_seq cfg seqIdx slotId keep rng i b = BOk b' /\ b_ok cfg slotId b' /\ b_frame slotId b b'.
Proof.
  intros Hwin Hg Hk. revert i b. induction rng as [|inp rest IH]; intros i b Hb; cbn [build_seq].
  - exists b. split; [reflexivity|]. split; [auto|apply b_frame_refl].
  - destruct (batchSize cfg <? zlen (b_batch b) + 1).
    { exists (set_resume seqIdx b). split; [reflexivity|].
      destruct (set_resume_same seqIdx b) as (E1 & E2 & E3 & E4 & E5 & E6).
      unfold b_ok, b_frame. rewrite E1, E2, E3, E4, E5. split; [exact Hb|]. intros j _. auto. }
    destruct (numCtx cfg <? zlen (b_C b) + zlen (b_pending b) + 1) eqn:Eover.
    + destruct (b_pending b) as [|p0 pr] eqn:Ep.
      * destruct Hb as ((lo & Hlo & H1) & H2 & H3 & H4). rewrite Ep in *. rewrite zlen_nil in *.
        pose proof (shift_cache_slot_ok cfg (b_kv b) slotId (b_C b) keep lo Hwin Hg Hk ltac:(lia) H1 Hlo) as Hs. cbn zeta in Hs.
        destruct (shift_discard_bounds cfg (zlen (b_C b)) keep Hk ltac:(lia)) as [Hd1 Hd2].
        destruct (shift_cache_slot cfg (b_kv b) slotId (b_C b) keep) as [|C' kv'|re kv'|]; try contradiction.
        -- destruct Hs as (HC & Hv & Hfr).
           set (b1 := mkB C' kv' [] (b_inputs b) (b_batch b) (b_nout b) (b_ibatch b) (b_resume b)).
           assert (Hb1 : b_ok cfg slotId b1).
           { unfold b_ok, b1. cbn [b_kv b_C b_batch b_pending b_inputs]. split; [exact Hv|]. split; [|split; [|exact H4]].
             - rewrite H2. reflexivity.
             - rewrite zlen_nil. subst C'. rewrite shifted_length by lia. lia. }
           assert (Hfit : zlen (b_C b1) + zlen (b_pending b1) + 1 <= numCtx cfg).
           { unfold b1. cbn [b_C b_pending]. rewrite zlen_nil. subst C'. rewrite shifted_length by lia. lia. }
           destruct (add_input_ok cfg slotId i inp b1 Hb1 Hfit) as [Hb2 Hf2].
           destruct (IH (S i) _ Hb2) as (b' & E & Hb' & Hf').
           exists b'. split; [exact E|]. split; [exact Hb'|].
           eapply b_frame_trans; [|exact Hf']. eapply b_frame_trans; [|exact Hf2].
           intros j Hj. unfold b1. cbn [b_kv b_batch]. split; [apply Hfr; auto|reflexivity].
        -- destruct Hs as (HC & Hv & Hfr).
           set (b1 := mkB [] kv' [] (re ++ b_inputs b) (b_batch b) (b_nout b) (b_ibatch b) (b_resume b)).
           assert (Hb1 : b_ok cfg slotId b1).
           { unfold b_ok, b1. cbn [b_kv b_C b_batch b_pending b_inputs].
             split; [exists 0; split; [apply wlo_nonneg|rewrite Hv; reflexivity]|]. split; [|split].
             - rewrite H2. reflexivity.
             - unfold zlen. cbn [length]. lia.
             - intro E. apply app_eq_nil in E as [_ E]. auto. }
           destruct (IH (S i) _ Hb1) as (b' & E & Hb' & Hf').
           exists b'. split; [exact E|]. split; [exact Hb'|].
           eapply b_frame_trans; [|exact Hf'].
           intros j Hj. unfold b1. cbn [b_kv b_batch]. split; [apply Hfr; auto|reflexivity].
      * exists b. split; [reflexivity|]. split; [auto|apply b_frame_refl].
    + destruct (add_input_ok cfg slotId i inp b Hb ltac:(lia)) as [Hb2 Hf2].
      destruct (IH (S i) _ Hb2) as (b' & E & Hb' & Hf').
      exists b'. split; [exact E|]. split; [exact Hb'|]. eapply b_frame_trans; eauto.
Qed.

(** * one sequence of the outer loop *)
Lemma live_ok_transfer cfg sl kv0 b sl' kv' b' q :
  live_ok cfg sl kv0 b q -> length sl' = length sl -> nth_slot sl' (q_slot q) = nth_slot sl (q_slot q) ->
  view kv' (q_slot q) = view kv0 (q_slot q) -> slot_entries b' (q_slot q) = slot_entries b (q_slot q) ->
  live_ok cfg sl' kv' b' q.
Proof.
  intros [A1 A2 A3 A4 A5 A6 A6' A7] Hl Hs Hv He. constructor; rewrite ?Hl, ?Hs, ?Hv, ?He; auto.
Qed.

Lemma release_length sl i : length (release sl i) = length sl.
Proof. unfold release. apply set_nth_length. Qed.
Lemma release_other sl i j : i <> j -> nth_slot (release sl i) j = nth_slot sl j.
Proof. unfold release. apply nth_slot_set_other. Qed.
Lemma release_same sl i : (i < length sl)%nat -> nth_slot (release sl i) i = mkSlot (s_inputs (nth_slot sl i)) false (s_last (nth_slot sl i)).
Proof. unfold release. apply nth_slot_set_same. Qed.
Lemma set_slot_inputs_length sl i C : length (set_slot_inputs sl i C) = length sl.
Proof. unfold set_slot_inputs. apply set_nth_length. Qed.
Lemma set_slot_inputs_other sl i j C : i <> j -> nth_slot (set_slot_inputs sl i C) j = nth_slot sl j.
Proof. unfold set_slot_inputs. apply nth_slot_set_other. Qed.
Lemma set_slot_inputs_same sl i C : (i < length sl)%nat ->
  nth_slot (set_slot_inputs sl i C) i = mkSlot C (s_inuse (nth_slot sl i)) (s_last (nth_slot sl i)).
Proof. unfold set_slot_inputs. apply nth_slot_set_same. Qed.

Definition unprocessed (qs : list (option seqst)) (idx : nat) : Prop :=
  forall q, get_seq qs idx = Some q -> q_pending q = [] /\ q_inputs q <> [].

Lemma build_one_ok cfg p idx :
  win_ok cfg -> mid_ok cfg (p_slots p) (p_kv p) (p_seqs p) (p_batch p) -> unprocessed (p_seqs p) idx ->
  exists p', build_one cfg p idx = POk p' /\ mid_ok cfg (p_slots p') (p_kv p') (p_seqs p') (p_batch p') /\
    (forall j, j <> idx -> get_seq (p_seqs p') j = get_seq (p_seqs p) j) /\ length (p_seqs p') = length (p_seqs p).
Proof.
  intros Hwin Hm Hun. unfold build_one. fold (get_seq (p_seqs p) idx).
  destruct (get_seq (p_seqs p) idx) as [q|] eqn:Eq.
  2:{ exists p. split; [reflexivity|]. split; [exact Hm|]. split; auto. }
  destruct (Hun q Eq) as [Hpend Hinp].
  pose proof (mo_live _ _ _ _ _ Hm idx q Eq) as Hq.
  pose proof (get_seq_lt _ _ _ Eq) as Hidx.
  assert (Hother : forall j q2, j <> idx -> get_seq (p_seqs p) j = Some q2 -> q_slot q2 <> q_slot q).
  { intros j q2 Hj E2 Hs. apply Hj. eapply (mo_inj _ _ _ _ _ Hm); eauto. }
  destruct (at_limit q).
  - (* numPredict reached: removeSequence *)
    eexists. split; [reflexivity|]. cbn [p_slots p_kv p_seqs p_batch]. split; [|split].
    + constructor.
      * rewrite release_length, set_nth_length. apply (mo_len _ _ _ _ _ Hm).
      * intros j q2 E2. destruct (Nat.eq_dec idx j) as [->|Hj]; [rewrite get_seq_set_same in E2 by auto; discriminate|].
        rewrite get_seq_set_other in E2 by auto.
        eapply live_ok_transfer; [eapply (mo_live _ _ _ _ _ Hm); eauto|apply release_length| |reflexivity|reflexivity].
        apply release_other. intro E. eapply Hother; [| exact E2 | symmetry; exact E]. auto.
      * intros i1 i2 q1 q2 E1 E2 Hs.
        destruct (Nat.eq_dec idx i1) as [->|H1]; [rewrite get_seq_set_same in E1 by auto; discriminate|].
        destruct (Nat.eq_dec idx i2) as [->|H2]; [rewrite get_seq_set_same in E2 by auto; discriminate|].
        rewrite get_seq_set_other in E1, E2 by auto. eapply (mo_inj _ _ _ _ _ Hm); eauto.
      * intros i Hi Hu. rewrite release_length in Hi.
        destruct (Nat.eq_dec (q_slot q) i) as [<-|Hne].
        -- rewrite release_same by auto. cbn [s_inputs]. split.
           ++ destruct (lo_view _ _ _ _ _ Hq) as (lo & Hlo & Hv). exists lo. split; [intro Hn; eapply lo_none; eauto|].
              apply exact_view_lt. exact Hv.
           ++ rewrite (lo_entries _ _ _ _ _ Hq), Hpend. reflexivity.
        -- rewrite release_other in * by auto. apply (mo_idle _ _ _ _ _ Hm); auto.
      * intros i Hi Hu. rewrite release_length in Hi.
        destruct (Nat.eq_dec (q_slot q) i) as [<-|Hne]; [rewrite release_same in Hu by auto; discriminate|].
        rewrite release_other in Hu by auto.
        destruct (mo_used _ _ _ _ _ Hm i Hi Hu) as (j & q2 & E2 & Hs).
        exists j, q2. split; [|auto]. rewrite get_seq_set_other; auto. intros ->. rewrite Eq in E2. injection E2 as <-. auto.
    + intros j Hj. apply get_seq_set_other. auto.
    + apply set_nth_length.
  - (* the inner loop *)
    set (sl := p_slots p) in *. set (C := s_inputs (nth_slot sl (q_slot q))).
    set (b0 := mkB C (p_kv p) (q_pending q) (q_inputs q) (p_batch p) (p_nout p) (q_ibatch q) (p_resume p)).
    assert (Hb0 : b_ok cfg (q_slot q) b0).
    { unfold b_ok, b0. cbn [b_kv b_C b_batch b_pending b_inputs]. destruct Hq as [A1 A2 A3 A4 A5 A6 A6' A7]. auto. }
    destruct (build_seq_ok cfg idx (q_slot q) (q_keep q) (q_inputs q) 0 b0 Hwin (lo_guard _ _ _ _ _ Hq) (lo_keep _ _ _ _ _ Hq) Hb0) as (b' & E & (B1 & B2 & B3 & B4) & Hf).
    rewrite E. eexists. split; [reflexivity|]. cbn [p_slots p_kv p_seqs p_batch].
    pose proof (lo_slot _ _ _ _ _ Hq) as Hslot.
    set (q' := mkSeq (skipn (length (b_pending b')) (b_inputs b')) (b_pending b') (q_slot q) (q_npredict q) (q_npredicted q)
                     (q_keep q) (q_pend q) (q_stops q) (b_ibatch b') (q_req q)).
    split; [|split].
    + constructor.
      * rewrite set_slot_inputs_length, set_nth_length. apply (mo_len _ _ _ _ _ Hm).
      * intros j q2 E2. destruct (Nat.eq_dec idx j) as [<-|Hj].
        -- rewrite get_seq_set_same in E2 by auto. injection E2 as <-.
           constructor; unfold q'; cbn [q_slot q_pending q_inputs q_keep]; rewrite ?set_slot_inputs_length, ?set_slot_inputs_same by auto; cbn [s_inputs s_inuse]; auto.
           ++ apply (lo_inuse _ _ _ _ _ Hq).
           ++ apply (lo_keep _ _ _ _ _ Hq).
           ++ apply (lo_guard _ _ _ _ _ Hq).
           ++ intros Hnil Hp. rewrite Hp in Hnil. cbn in Hnil. auto.
        -- rewrite get_seq_set_other in E2 by auto.
           assert (Hs : q_slot q2 <> q_slot q) by (eapply Hother; eauto).
           destruct (Hf (q_slot q2) Hs) as [F1 F2].
           eapply live_ok_transfer; [eapply (mo_live _ _ _ _ _ Hm); eauto|apply set_slot_inputs_length| |exact F1|exact F2].
           apply set_slot_inputs_other. auto.
      * intros i1 i2 q1 q2 E1 E2 Hs.
        assert (G : forall i0 q0, get_seq (set_nth (p_seqs p) idx (Some q')) i0 = Some q0 ->
                                   exists q00, get_seq (p_seqs p) i0 = Some q00 /\ q_slot q00 = q_slot q0).
        { intros i0 q0 E0. destruct (Nat.eq_dec idx i0) as [<-|H0].
          - rewrite get_seq_set_same in E0 by auto. injection E0 as <-. exists q. auto.
          - rewrite get_seq_set_other in E0 by auto. exists q0. auto. }
        destruct (G _ _ E1) as (q10 & E10 & S1), (G _ _ E2) as (q20 & E20 & S2).
        eapply (mo_inj _ _ _ _ _ Hm); eauto. congruence.
      * intros i Hi Hu. rewrite set_slot_inputs_length in Hi.
        destruct (Nat.eq_dec (q_slot q) i) as [<-|Hne].
        -- rewrite set_slot_inputs_same in Hu by auto. cbn [s_inuse] in Hu. rewrite (lo_inuse _ _ _ _ _ Hq) in Hu. discriminate.
        -- rewrite set_slot_inputs_other in * by auto. destruct (Hf i ltac:(auto)) as [F1 F2].
           unfold view_lt. rewrite F1, F2. apply (mo_idle _ _ _ _ _ Hm); auto.
      * intros i Hi Hu. rewrite set_slot_inputs_length in Hi.
        destruct (Nat.eq_dec (q_slot q) i) as [<-|Hne].
        -- exists idx, q'. split; [apply get_seq_set_same; auto|reflexivity].
        -- rewrite set_slot_inputs_other in Hu by auto.
           destruct (mo_used _ _ _ _ _ Hm i Hi Hu) as (j & q2 & E2 & Hs).
           exists j, q2. split; [|auto]. rewrite get_seq_set_other; auto. intros ->. rewrite Eq in E2. injection E2 as <-. auto.
    + intros j Hj. apply get_seq_set_other. auto.
    + apply set_nth_length.
Qed.

(** * the whole first half *)
Lemma build_all_ok cfg order p :
  win_ok cfg -> NoDup order -> mid_ok cfg (p_slots p) (p_kv p) (p_seqs p) (p_batch p) ->
  (forall idx, In idx order -> unprocessed (p_seqs p) idx) ->
  exists p', build_all cfg p order = POk p' /\ mid_ok cfg (p_slots p') (p_kv p') (p_seqs p') (p_batch p') /\
             length (p_seqs p') = length (p_seqs p).
Proof.
  intro Hwin. revert p. induction order as [|idx order IH]; intros p Hnd Hm Hun; cbn [build_all].
  - exists p. auto.
  - inversion Hnd as [|x l Hnotin Hnd']; subst.
    destruct (build_one_ok cfg p idx Hwin Hm (Hun idx (or_introl eq_refl))) as (p1 & E & Hm1 & Hsame & Hlen).
    rewrite E. destruct (IH p1 Hnd' Hm1) as (p' & E' & Hm' & Hlen').
    + intros j Hj q Hq. rewrite Hsame in Hq by (intros ->; auto). apply (Hun j (or_intror Hj) q Hq).
    + exists p'. split; [exact E'|]. split; [exact Hm'|]. congruence.
Qed.

Lemma mod_inj n a k1 k2 : (k1 < n)%nat -> (k2 < n)%nat -> ((a + k1) mod n = (a + k2) mod n)%nat -> k1 = k2.
Proof.
  intros H1 H2 H.
  pose proof (Nat.div_mod (a + k1) n ltac:(lia)) as E1.
  pose proof (Nat.div_mod (a + k2) n ltac:(lia)) as E2.
  rewrite H in E1.
  assert (Hlt : ((a + k2) mod n < n)%nat) by (apply Nat.mod_upper_bound; lia).
  set (d1 := ((a + k1) / n)%nat) in *. set (d2 := ((a + k2) / n)%nat) in *. set (r := ((a + k2) mod n)%nat) in *.
  assert (d1 = d2) by nia. subst. lia.
Qed.

Lemma NoDup_map_in {A B} (f : A -> B) l :
  (forall x y, In x l -> In y l -> f x = f y -> x = y) -> NoDup l -> NoDup (map f l).
Proof.
  induction l as [|a l IH]; intros Hinj Hnd; cbn; [constructor|].
  inversion Hnd; subst. constructor.
  - intro Hin. apply in_map_iff in Hin as (y & Hy & Hiny).
    assert (y = a) by (apply Hinj; cbn; auto). subst. auto.
  - apply IH; auto. intros x y Hx Hy. apply Hinj; cbn; auto.
Qed.

Lemma visit_order_nodup n next : NoDup (visit_order n next).
Proof.
  unfold visit_order. apply NoDup_map_in; [|apply seq_NoDup].
  intros x y Hx Hy. apply in_seq in Hx, Hy. apply mod_inj; lia.
Qed.

(** * the second half: after Forward *)
Section Post.
  Variable F : list (Z * tok) -> tok.

  Lemma post_one_ok cfg kv' b s q i lo :
    s_inuse s = true -> view kv' i = wenum lo (s_inputs s ++ q_pending q) ->
    zlen (s_inputs s) + zlen (q_pending q) <= numCtx cfg ->
    match post_one F cfg kv' b s q with
    | QPanic => True
    | QOk s' (Some q1) ev =>
        s_inuse s' = true /\ view kv' i = wenum lo (s_inputs s') /\ zlen (s_inputs s') <= numCtx cfg /\
        s_inputs s' = s_inputs s ++ q_pending q /\
        q_pending q1 = [] /\ q_inputs q1 <> [] /\ q_slot q1 = q_slot q /\ q_keep q1 = q_keep q
    | QOk s' None ev => s_inuse s' = false /\ view_lt kv' i (zlen (s_inputs s')) = wenum lo (s_inputs s')
    end.
  Proof.
    intros Hu Hv Hfit. unfold post_one.
    set (C := s_inputs s ++ q_pending q) in *.
    set (s1 := match q_pending q with [] => s | _ => with_inputs s C end).
    assert (Hs1 : s_inputs s1 = C /\ s_inuse s1 = true).
    { subst s1 C. destruct (q_pending q); [rewrite app_nil_r; auto|cbn; auto]. }
    destruct Hs1 as [Hs1 Hu1].
    assert (HlenC : zlen C <= numCtx cfg) by (subst C; rewrite zlen_app; lia).
    destruct (q_inputs q) as [|x r] eqn:Ei.
    2:{ cbn [q_pending q_inputs q_slot q_keep]. rewrite Hs1. repeat split; auto. discriminate. }
    destruct (sample_at F cfg kv' b (q_ibatch q)) as [t vis].
    destruct ((0 <=? eosTok cfg) && (t =? eosTok cfg)).
    { cbn [released s_inuse s_inputs]. rewrite Hs1. split; [reflexivity|]. apply exact_view_lt. auto. }
    destruct (find_stop (concat (q_pend q ++ [piece_of t])) (q_stops q)).
    - destruct (truncate_stop (q_pend q ++ [piece_of t]) s0) as [pend' trunc].
      match goal with |- context [Z.to_nat (Z.max 0 ?c)] => set (tl := Z.max 0 c) in * end.
      cbn [released with_inputs s_inuse s_inputs]. split; [reflexivity|].
      unfold view_lt. rewrite Hv, filter_lt_wenum by apply zlen_nonneg. f_equal.
      rewrite zlen_firstn.
      destruct (Z.le_ge_cases (Z.of_nat (Z.to_nat tl)) (zlen C)) as [Hle|Hge].
      + rewrite Z.min_l by auto. rewrite Nat2Z.id. reflexivity.
      + rewrite Z.min_r by auto. rewrite !firstn_all2; auto; unfold zlen in *; lia.
    - cbn [q_pending q_inputs q_slot q_keep]. rewrite Hs1. repeat split; auto. discriminate.
  Qed.
End Post.

Section PostAll.
  Variable F : list (Z * tok) -> tok.

  Lemma post_all_spec cfg kv' b qs : forall sl sl' qs' ev,
    post_all F cfg kv' b sl qs = Some (sl', qs', ev) ->
    length qs' = length qs /\ length sl' = length sl /\
    (forall i, (forall k q, get_seq qs k = Some q -> q_slot q <> i) -> nth_slot sl' i = nth_slot sl i) /\
    (forall k q, get_seq qs k = Some q ->
       (forall k2 q2, get_seq qs k2 = Some q2 -> q_slot q2 = q_slot q -> k2 = k) -> (q_slot q < length sl)%nat ->
       exists s' ev1, post_one F cfg kv' b (nth_slot sl (q_slot q)) q = QOk s' (get_seq qs' k) ev1 /\ nth_slot sl' (q_slot q) = s') /\
    (forall k, get_seq qs k = None -> get_seq qs' k = None).
  Proof.
    induction qs as [|o r IH]; intros sl sl' qs' ev H; cbn [post_all] in H.
    - injection H as <- <- <-. repeat split; auto. intros k q E. destruct k; discriminate.
    - destruct o as [q0|].
      + destruct (post_one F cfg kv' b (nth_slot sl (q_slot q0)) q0) as [s1 q0' ev1|] eqn:E1; [|discriminate].
        destruct (post_all F cfg kv' b (set_nth sl (q_slot q0) s1) r) as [[[sl2 r'] ev2]|] eqn:E2; [|discriminate].
        injection H as <- <- <-. destruct (IH _ _ _ _ E2) as (L1 & L2 & Hfr & Hown & Hnone).
        rewrite set_nth_length in L2. split; [cbn; lia|]. split; [auto|]. split; [|split].
        * intros i Hi. rewrite Hfr.
          -- apply nth_slot_set_other. apply (Hi 0%nat q0 eq_refl).
          -- intros k q E. apply (Hi (S k) q E).
        * intros [|k] q E Huniq Hlt.
          -- cbn in E. injection E as <-. exists s1, ev1. split; [exact E1|].
             rewrite Hfr; [apply nth_slot_set_same; auto|].
             intros k q E Hs. specialize (Huniq (S k) q E Hs). discriminate.
          -- change (get_seq r k = Some q) in E.
             assert (Hne : q_slot q0 <> q_slot q) by (intro Hs; specialize (Huniq 0%nat q0 eq_refl Hs); discriminate).
             destruct (Hown k q E) as (s' & ev' & P1 & P2).
             ++ intros k2 q2 E2' Hs. specialize (Huniq (S k2) q2 E2' Hs). lia.
             ++ rewrite set_nth_length. auto.
             ++ rewrite nth_slot_set_other in P1 by auto. exists s', ev'. auto.
        * intros [|k] E; [discriminate|]. apply (Hnone k E).
      + destruct (post_all F cfg kv' b sl r) as [[[sl2 r'] ev2]|] eqn:E2; [|discriminate].
        injection H as <- <- <-. destruct (IH _ _ _ _ E2) as (L1 & L2 & Hfr & Hown & Hnone).
        split; [cbn; lia|]. split; [auto|]. split; [|split].
        * intros i Hi. apply Hfr. intros k q E. apply (Hi (S k) q E).
        * intros [|k] q E Huniq Hlt; [discriminate|]. change (get_seq r k = Some q) in E.
          destruct (Hown k q E) as (s' & ev' & P1 & P2); auto.
          -- intros k2 q2 E2' Hs. specialize (Huniq (S k2) q2 E2' Hs). lia.
          -- exists s', ev'. auto.
        * intros [|k] E; [reflexivity|]. apply (Hnone k E).
  Qed.

  (** * processBatch preserves the invariant *)
  (** what Forward (eviction + the batch's own entries) leaves in the cache for a live sequence *)
  Lemma forward_view_live cfg sl kv0 b q :
    win_ok cfg -> live_ok cfg sl kv0 b q ->
    let X := s_inputs (nth_slot sl (q_slot q)) ++ q_pending q in
    exists lo, lo <= wlo cfg (zlen X) /\ (q_pending q <> [] -> lo <= wlo cfg (zlen X - 1)) /\
               view (kv_forward (kv_evict cfg kv0 b) b) (q_slot q) = wenum lo X.
  Proof.
    intros Hwin [A1 A2 (lo & Hlo & A3) A4 A5 A6 A6' A7] X. subst X.
    set (C := s_inputs (nth_slot sl (q_slot q))) in *. set (P := q_pending q) in *.
    assert (HloC : lo <= zlen C) by (pose proof (wlo_le cfg (zlen C) Hwin (zlen_nonneg C)); lia).
    rewrite view_forward, A4. destruct P as [|x P'] eqn:EP.
    - rewrite app_nil_r. cbn [enumerate]. rewrite app_nil_r.
      rewrite view_evict_none by (apply low_pos_none; rewrite A4; reflexivity).
      exists lo. split; [exact Hlo|]. split; [congruence|exact A3].
    - rewrite <- EP in *.
      assert (HP : 1 <= zlen P) by (rewrite EP, zlen_cons; pose proof (zlen_nonneg P'); lia).
      assert (Hlow : low_pos b (q_slot q) = Some (zlen C)) by (eapply low_pos_enumerate; eauto; rewrite EP; discriminate).
      destruct (window cfg) as [w|] eqn:Ew.
      + rewrite (view_evict_some cfg kv0 b (q_slot q) (zlen C) w Ew Hlow), A3, wenum_raise.
        exists (Z.max lo (zlen C - w)). specialize (Hwin w Ew).
        unfold wlo in *. rewrite Ew in *. rewrite zlen_app.
        split; [lia|]. split; [intros _; lia|]. rewrite wenum_app by lia. reflexivity.
      + rewrite view_evict_nowin by auto. rewrite A3. exists lo.
        unfold wlo in *. rewrite Ew in *. split; [lia|]. split; [intros _; lia|]. rewrite wenum_app by lia. reflexivity.
  Qed.

  Lemma forward_view_idle cfg kv0 b i :
    slot_entries b i = [] -> view (kv_forward (kv_evict cfg kv0 b) b) i = view kv0 i.
  Proof. intro H. rewrite view_forward, H, app_nil_r. apply view_evict_none. apply low_pos_none. exact H. Qed.

  Lemma process_batch_inv cfg st : win_ok cfg -> inv cfg st -> inv cfg (fst (process_batch F cfg st)).
  Proof.
    intros Hwin [Hm Hin]. unfold process_batch.
    destruct (all_nil (seqs st)); [split; auto|].
    set (p0 := mkP (slots st) (kv st) (seqs st) [] 0 None (log st)).
    destruct (build_all_ok cfg (visit_order (length (seqs st)) (nextSeq st)) p0 Hwin) as (p & E & Hmp & Hlen).
    - apply visit_order_nodup.
    - exact Hm.
    - intros idx _ q Hq. split; [eapply live_pending_nil; eapply (mo_live _ _ _ _ _ Hm); eauto|eapply Hin; eauto].
    - rewrite E. destruct (p_batch p) as [|e0 b0] eqn:Eb.
      + cbn [fst]. split; cbn [slots kv seqs]; [exact Hmp|].
        intros idx q Hq Hnil. pose proof (mo_live _ _ _ _ _ Hmp idx q Hq) as Hl.
        apply (lo_nonempty _ _ _ _ _ Hl Hnil). eapply live_pending_nil; eauto.
      + rewrite <- Eb in Hmp |- *. destruct (kv_full cfg (kv_evict cfg (p_kv p) (p_batch p)) (p_batch p)); [split; auto|].
        set (kv' := kv_forward (kv_evict cfg (p_kv p) (p_batch p)) (p_batch p)).
        destruct (post_all F cfg kv' (p_batch p) (p_slots p) (p_seqs p)) as [[[sl' qs'] ev]|] eqn:EP; [|split; auto].
        cbn [fst]. destruct (post_all_spec _ _ _ _ _ _ _ _ EP) as (L1 & L2 & Hfr & Hown & Hnone).
        assert (Hpost : forall k q, get_seq (p_seqs p) k = Some q ->
                  exists s' ev1, post_one F cfg kv' (p_batch p) (nth_slot (p_slots p) (q_slot q)) q = QOk s' (get_seq qs' k) ev1 /\
                                 nth_slot sl' (q_slot q) = s').
        { intros k q Hq. apply Hown; auto.
          - intros k2 q2 E2 Hs. eapply (mo_inj _ _ _ _ _ Hmp); eauto.
          - apply (lo_slot _ _ _ _ _ (mo_live _ _ _ _ _ Hmp k q Hq)). }
        assert (Hpo : forall k q, get_seq (p_seqs p) k = Some q ->
                  exists lo, lo <= wlo cfg (zlen (s_inputs (nth_slot (p_slots p) (q_slot q)) ++ q_pending q)) /\
                  match post_one F cfg kv' (p_batch p) (nth_slot (p_slots p) (q_slot q)) q with
                  | QPanic => True
                  | QOk s' (Some q1) _ =>
                      s_inuse s' = true /\ view kv' (q_slot q) = wenum lo (s_inputs s') /\ zlen (s_inputs s') <= numCtx cfg /\
                      s_inputs s' = s_inputs (nth_slot (p_slots p) (q_slot q)) ++ q_pending q /\
                      q_pending q1 = [] /\ q_inputs q1 <> [] /\ q_slot q1 = q_slot q /\ q_keep q1 = q_keep q
                  | QOk s' None _ => s_inuse s' = false /\ view_lt kv' (q_slot q) (zlen (s_inputs s')) = wenum lo (s_inputs s')
                  end).
        { intros k q Hq. pose proof (mo_live _ _ _ _ _ Hmp k q Hq) as Hl.
          destruct (forward_view_live cfg _ _ _ q Hwin Hl) as (lo & Hlo & _ & Hv). exists lo. split; [exact Hlo|].
          apply post_one_ok; [apply (lo_inuse _ _ _ _ _ Hl)|exact Hv|apply (lo_fit _ _ _ _ _ Hl)]. }
        assert (Hback : forall k q1, get_seq qs' k = Some q1 -> exists q, get_seq (p_seqs p) k = Some q).
        { intros k q1 E1. destruct (get_seq (p_seqs p) k) as [q|] eqn:Eq; [eauto|]. rewrite (Hnone k Eq) in E1. discriminate. }
        split; cbn [slots kv seqs].
        * constructor.
          -- rewrite L1, L2. apply (mo_len _ _ _ _ _ Hmp).
          -- intros k q1 E1. destruct (Hback k q1 E1) as (q & Eq).
             destruct (Hpost k q Eq) as (s' & ev1 & P1 & P2). destruct (Hpo k q Eq) as (lo & Hlo & Hpo'). rewrite P1, E1 in Hpo'.
             destruct Hpo' as (B1 & B2 & B3 & B3' & B4 & B5 & B6 & B7).
             pose proof (mo_live _ _ _ _ _ Hmp k q Eq) as Hl.
             constructor; rewrite ?B6, ?P2, ?B4, ?B7; auto.
             ++ rewrite L2. apply (lo_slot _ _ _ _ _ Hl).
             ++ exists lo. split; [rewrite B3'; exact Hlo|exact B2].
             ++ rewrite zlen_nil. lia.
             ++ apply (lo_keep _ _ _ _ _ Hl).
             ++ apply (lo_guard _ _ _ _ _ Hl).
          -- intros k1 k2 q1 q2 E1 E2 Hs. destruct (Hback k1 q1 E1) as (q10 & Eq1), (Hback k2 q2 E2) as (q20 & Eq2).
             destruct (Hpost k1 q10 Eq1) as (s1 & ev1 & P1 & _), (Hpost k2 q20 Eq2) as (s2 & ev2 & P2 & _).
             destruct (Hpo k1 q10 Eq1) as (lo1 & _ & Q1). destruct (Hpo k2 q20 Eq2) as (lo2 & _ & Q2). rewrite P1, E1 in Q1. rewrite P2, E2 in Q2.
             eapply (mo_inj _ _ _ _ _ Hmp); eauto. destruct Q1 as (_ & _ & _ & _ & _ & _ & S1 & _), Q2 as (_ & _ & _ & _ & _ & _ & S2 & _). congruence.
          -- intros i Hi Hu. rewrite L2 in Hi. split; [|reflexivity].
             destruct (s_inuse (nth_slot (p_slots p) i)) eqn:Hold.
             ++ destruct (mo_used _ _ _ _ _ Hmp i Hi Hold) as (k & q & Eq & <-).
                destruct (Hpost k q Eq) as (s' & ev1 & P1 & P2). destruct (Hpo k q Eq) as (lo & Hlo & Hpo'). rewrite P1 in Hpo'. rewrite P2 in *.
                destruct (get_seq qs' k); [destruct Hpo' as (B1 & _); congruence|].
                exists lo. split; [intro Hn; eapply lo_none; eauto|apply Hpo'].
             ++ rewrite Hfr.
                ** destruct (mo_idle _ _ _ _ _ Hmp i Hi Hold) as [I1 I2]. unfold view_lt, kv'. rewrite (forward_view_idle cfg _ _ i I2). exact I1.
                ** intros k q Eq <-. rewrite (lo_inuse _ _ _ _ _ (mo_live _ _ _ _ _ Hmp k q Eq)) in Hold. discriminate.
          -- intros i Hi Hu. rewrite L2 in Hi.
             destruct (s_inuse (nth_slot (p_slots p) i)) eqn:Hold.
             ++ destruct (mo_used _ _ _ _ _ Hmp i Hi Hold) as (k & q & Eq & <-).
                destruct (Hpost k q Eq) as (s' & ev1 & P1 & P2). destruct (Hpo k q Eq) as (lo & Hlo & Hpo'). rewrite P1 in Hpo'. rewrite P2 in *.
                destruct (get_seq qs' k) as [q1|] eqn:E1; [|destruct Hpo' as (B1 & _); congruence].
                exists k, q1. split; [auto|]. apply Hpo'.
             ++ rewrite Hfr in Hu; [congruence|].
                intros k q Eq <-. rewrite (lo_inuse _ _ _ _ _ (mo_live _ _ _ _ _ Hmp k q Eq)) in Hold. discriminate.
        * intros k q1 E1. destruct (Hback k q1 E1) as (q & Eq).
          destruct (Hpost k q Eq) as (s' & ev1 & P1 & P2). destruct (Hpo k q Eq) as (lo & _ & Hpo'). rewrite P1, E1 in Hpo'. apply Hpo'.
  Qed.
End PostAll.

(** * accepting a request preserves the invariant *)
Lemma new_sequence_ok cfg prompt keep inputs keep' :
  1 <= numCtx cfg -> new_sequence cfg prompt keep = Ok (inputs, keep') ->
  inputs <> [] /\ 0 <= keep' < numCtx cfg /\ zlen inputs <= numCtx cfg.
Proof.
  intros Hc H. unfold new_sequence in H. destruct prompt as [|x prompt]; [discriminate|].
  assert (HP : 1 <= zlen (x :: prompt)) by (rewrite zlen_cons; pose proof (zlen_nonneg prompt); lia).
  assert (HPne : x :: prompt <> []) by discriminate.
  remember (x :: prompt) as P eqn:EP. clear EP.
  set (keep0 := if keep <? 0 then zlen P else keep) in *.
  assert (Hk0 : 0 <= keep0) by (subst keep0; destruct (keep <? 0) eqn:E; lia).
  set (k := Z.min keep0 (numCtx cfg - 1)) in *.
  destruct (numCtx cfg <? zlen P) eqn:Elong.
  - destruct (zlen P <=? k + (zlen P - numCtx cfg)) eqn:E1; [discriminate|]. destruct (k <? 0) eqn:E2; [discriminate|].
    injection H as <- <-. split; [|split; [lia|]].
    + intro E. apply (f_equal (@zlen tok)) in E. rewrite zlen_app, zlen_firstn, zlen_skipn in E. change (zlen (@nil tok)) with 0 in E. lia.
    + rewrite zlen_app, zlen_firstn, zlen_skipn. lia.
  - injection H as <- <-. split; [auto|]. split; lia.
Qed.

Lemma first_free_spec l i0 idx : first_free l i0 = Some idx -> (i0 <= idx < i0 + length l)%nat /\ nth (idx - i0) l None = None.
Proof.
  revert i0. induction l as [|o l IH]; intros i0 H; cbn [first_free] in H; [discriminate|].
  destruct o.
  - apply IH in H. destruct H as [H1 H2]. cbn [length]. split; [lia|]. replace (idx - i0)%nat with (S (idx - S i0)) by lia. exact H2.
  - injection H as <-. cbn [length]. split; [lia|]. rewrite Nat.sub_diag. reflexivity.
Qed.

Lemma inv_slots_ok cfg sl kv0 qs b : mid_ok cfg sl kv0 qs b -> slots_ok cfg kv0 sl.
Proof.
  intros Hm i Hi. destruct (s_inuse (nth_slot sl i)) eqn:Hu.
  - destruct (mo_used _ _ _ _ _ Hm i Hi Hu) as (k & q & Eq & <-).
    destruct (lo_view _ _ _ _ _ (mo_live _ _ _ _ _ Hm k q Eq)) as (lo & Hlo & Hv). eapply exact_slot_ok; eauto.
  - destruct (mo_idle _ _ _ _ _ Hm i Hi Hu) as [(lo & Hl0 & Hv) _]. exists lo. split; [auto|]. split; [auto|congruence].
Qed.

Lemma new_sequence_keep0 cfg prompt inputs keep' :
  1 <= numCtx cfg -> new_sequence cfg prompt 0 = Ok (inputs, keep') -> keep' = 0.
Proof.
  intros Hc H. unfold new_sequence in H. destruct prompt as [|x prompt]; [discriminate|].
  remember (x :: prompt) as P. cbn [Z.ltb Z.compare] in H.
  destruct (numCtx cfg <? zlen P).
  - destruct (zlen P <=? _); [discriminate|]. destruct (_ <? 0); [discriminate|]. injection H as _ <-. lia.
  - injection H as _ <-. lia.
Qed.

Lemma shift_guard_new cfg prompt keep inputs keep' :
  1 <= numCtx cfg -> shift_guard cfg keep -> new_sequence cfg prompt keep = Ok (inputs, keep') -> shift_guard cfg keep'.
Proof.
  intros Hc [Hg|[Hg|Hg]] H; [left; auto| |right; right; auto].
  subst keep. right. left. eapply new_sequence_keep0; eauto.
Qed.

Lemma submit_inv cfg st prompt np keep stops :
  1 <= numCtx cfg -> win_ok cfg -> shift_guard cfg keep -> inv cfg st -> inv cfg (fst (submit cfg st prompt np keep stops)).
Proof.
  intros Hc Hwin Hg [Hm Hin]. unfold submit.
  destruct (new_sequence cfg prompt keep) as [[inputs keep']| |] eqn:EN; try (split; auto; fail).
  destruct (new_sequence_ok _ _ _ _ _ Hc EN) as (N1 & N2 & N3).
  destruct (first_free (seqs st) 0) as [idx|] eqn:EF; [|split; auto].
  apply first_free_spec in EF. rewrite Nat.sub_0_r in EF. destruct EF as [Hidx Hfree]. fold (get_seq (seqs st) idx) in Hfree.
  destruct (load_cache_slot cfg (clock st) (slots st) (kv st) inputs) as [[[[sl kv'] si] rest]| |] eqn:EL; try (split; auto; fail).
  destruct (load_cache_slot_ok _ _ _ _ _ _ _ _ _ Hwin N1 (inv_slots_ok _ _ _ _ _ Hm) EL) as (L1 & L2 & L3 & L4 & L5 & L6 & L7 & L8 & L9).
  pose proof (shift_guard_new _ _ _ _ _ Hc Hg EN) as Hg'.
  unfold inv. cbn [fst slots kv seqs].
  set (qn := mkSeq rest [] si np 0 keep' [] stops 0 (nreq st)).
  assert (Hold : forall j q2, get_seq (seqs st) j = Some q2 -> q_slot q2 <> si).
  { intros j q2 E2 Hs. rewrite <- Hs in L3. rewrite (lo_inuse _ _ _ _ _ (mo_live _ _ _ _ _ Hm j q2 E2)) in L3. discriminate. }
  split.
  - constructor.
    + rewrite L1, set_nth_length. apply (mo_len _ _ _ _ _ Hm).
    + intros j q2 E2. destruct (Nat.eq_dec idx j) as [<-|Hj].
      * rewrite get_seq_set_same in E2 by lia. injection E2 as <-. unfold qn.
        constructor; cbn [q_slot q_pending q_inputs q_keep]; auto; try lia.
        rewrite zlen_nil. rewrite <- L6, zlen_app in N3. pose proof (zlen_nonneg rest). lia.
      * rewrite get_seq_set_other in E2 by auto.
        eapply live_ok_transfer; [eapply (mo_live _ _ _ _ _ Hm); eauto|auto| |apply L8|reflexivity]; [apply L5|]; eapply Hold; eauto.
    + intros i1 i2 q1 q2 E1 E2 Hs.
      destruct (Nat.eq_dec idx i1) as [<-|H1], (Nat.eq_dec idx i2) as [<-|H2]; auto.
      * rewrite get_seq_set_same in E1 by lia. rewrite get_seq_set_other in E2 by auto. injection E1 as <-.
        exfalso. eapply Hold; eauto.
      * rewrite get_seq_set_same in E2 by lia. rewrite get_seq_set_other in E1 by auto. injection E2 as <-.
        exfalso. eapply Hold; eauto.
      * rewrite get_seq_set_other in E1, E2 by auto. eapply (mo_inj _ _ _ _ _ Hm); eauto.
    + intros i Hi Hu. rewrite L1 in Hi. destruct (Nat.eq_dec i si) as [->|Hne]; [congruence|].
      rewrite L5 in * by auto. split; [|reflexivity]. unfold view_lt. rewrite L8 by auto. apply (mo_idle _ _ _ _ _ Hm i Hi Hu).
    + intros i Hi Hu. rewrite L1 in Hi. destruct (Nat.eq_dec i si) as [->|Hne].
      * exists idx, qn. split; [apply get_seq_set_same; lia|reflexivity].
      * rewrite L5 in Hu by auto. destruct (mo_used _ _ _ _ _ Hm i Hi Hu) as (j & q2 & E2 & Hs).
        exists j, q2. split; [|auto]. rewrite get_seq_set_other; auto. intros ->. congruence.
  - intros j q2 E2. destruct (Nat.eq_dec idx j) as [<-|Hj].
    + rewrite get_seq_set_same in E2 by lia. injection E2 as <-. exact L7.
    + rewrite get_seq_set_other in E2 by auto. eapply Hin; eauto.
Qed.

(** * every reachable state satisfies the invariant *)
Lemma nth_repeat_any {A} (x d : A) n i : (i < n)%nat -> nth i (repeat x n) d = x.
Proof. revert i. induction n; intros [|i] H; cbn; try lia; auto. apply IHn. lia. Qed.

Lemma init_inv cfg parallel : inv cfg (init parallel).
Proof.
  unfold init. split; cbn [slots kv seqs].
  - constructor.
    + rewrite !repeat_length. reflexivity.
    + intros idx q H. unfold get_seq in H. destruct (Nat.lt_ge_cases idx parallel).
      * rewrite nth_repeat_any in H by auto. discriminate.
      * rewrite nth_overflow in H by (rewrite repeat_length; lia). discriminate.
    + intros i1 i2 q1 q2 H. unfold get_seq in H. destruct (Nat.lt_ge_cases i1 parallel).
      * rewrite nth_repeat_any in H by auto. discriminate.
      * rewrite nth_overflow in H by (rewrite repeat_length; lia). discriminate.
    + intros i Hi _. rewrite repeat_length in Hi. unfold nth_slot. rewrite nth_repeat_any by auto. cbn. split; [exists 0; split; [lia|reflexivity]|reflexivity].
    + intros i Hi Hu. rewrite repeat_length in Hi. unfold nth_slot in Hu. rewrite nth_repeat_any in Hu by auto. discriminate.
  - intros idx q H. unfold get_seq in H. destruct (Nat.lt_ge_cases idx parallel).
    + rewrite nth_repeat_any in H by auto. discriminate.
    + rewrite nth_overflow in H by (rewrite repeat_length; lia). discriminate.
Qed.

Definition op_guard (cfg : config) (o : op) : Prop :=
  match o with Submit _ _ keep _ => shift_guard cfg keep | Step => True end.

Section Reach.
  Variable F : list (Z * tok) -> tok.

  Lemma step_op_inv cfg st o : 1 <= numCtx cfg -> win_ok cfg -> op_guard cfg o -> inv cfg st -> inv cfg (fst (step_op F cfg st o)).
  Proof. intros Hc Hwin Hg Hi. destruct o; cbn [step_op]; [apply submit_inv; auto|apply process_batch_inv; auto]. Qed.

  Lemma run_inv cfg st ops : 1 <= numCtx cfg -> win_ok cfg -> Forall (op_guard cfg) ops -> inv cfg st -> inv cfg (run F cfg st ops).
  Proof.
    intros Hc Hwin. revert st. induction ops as [|o ops IH]; intros st Hg Hi; cbn [run fold_left]; [auto|].
    inversion Hg; subst. apply IH; auto. apply step_op_inv; auto.
  Qed.

  Lemma reachable_inv cfg parallel ops :
    1 <= numCtx cfg -> win_ok cfg -> Forall (op_guard cfg) ops -> inv cfg (run F cfg (init parallel) ops).
  Proof. intros Hc Hwin Hg. apply run_inv; auto. apply init_inv. Qed.
End Reach.
(** an accepted request gets a slot that no live sequence holds *)
Lemma submit_fresh_slot cfg st prompt np keep stops idx :
  inv cfg st -> snd (submit cfg st prompt np keep stops) = RSubmitted idx ->
  exists q, get_seq (seqs (fst (submit cfg st prompt np keep stops))) idx = Some q /\
            s_inuse (nth_slot (slots st) (q_slot q)) = false /\
            forall j q2, get_seq (seqs st) j = Some q2 -> q_slot q2 <> q_slot q.
Proof.
  intros [Hm Hin]. unfold submit.
  destruct (new_sequence cfg prompt keep) as [[inputs keep']| |] eqn:EN; try discriminate.
  destruct (first_free (seqs st) 0) as [idx'|] eqn:EF; [|discriminate].
  apply first_free_spec in EF. rewrite Nat.sub_0_r in EF. destruct EF as [Hidx Hfree].
  destruct (load_cache_slot cfg (clock st) (slots st) (kv st) inputs) as [[[[sl kv'] si] rest]| |] eqn:EL; try discriminate.
  cbn [fst snd seqs]. intro H. injection H as <-.
  destruct (load_cache_slot_not_inuse _ _ _ _ _ _ _ _ _ EL) as [L1 L2].
  eexists. split; [apply get_seq_set_same; lia|]. cbn [q_slot]. split; [auto|].
  intros j q2 E2 Hs. rewrite <- Hs in L2. rewrite (lo_inuse _ _ _ _ _ (mo_live _ _ _ _ _ Hm j q2 E2)) in L2. discriminate.
Qed.
