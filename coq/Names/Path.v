(** C13 - executable model of Go's path/filepath on unix (GOOS=linux: Separator = '/', no volume names):
    [filepath.Clean], [filepath.Join], [filepath.IsAbs], [filepath.Abs] (with the working directory as a parameter).

    Clean is modelled at the level of path elements: the byte loop of path/filepath/path.go keeps a write index [w]
    and a barrier [dotdot]; "remove to last separator" pops one element, "cannot backtrack, but not rooted" pushes
    a ".." element, which moves the barrier.  Hence the buffer is always [..]* followed by real elements, and
    "out.w > dotdot" holds iff the last element written is not "..".  [cs_stack] is that buffer as a list of
    elements, last written first.  The model is tied to the real filepath.Clean/Join by the differential run
    (exhaustive over short strings on the alphabet {'/', '.', 'a'} + random).  Definitions only. *)
From Coq Require Import List NArith Bool Arith.
From V Require Import Common.Bytes.
Import ListNotations.
Open Scope N_scope.

Definition c_slash : N := 47.   (* '/' *)
Definition c_dot : N := 46.     (* '.' *)
Definition s_dot : str := [46].
Definition s_dotdot : str := [46; 46].

Definition nonempty (s : str) : bool := match s with [] => false | _ => true end.

(** strings.Split(s, string(c)): always at least one element *)
Fixpoint split_on (c : N) (s : str) : list str :=
  match s with
  | [] => [[]]
  | x :: s' =>
      if x =? c then [] :: split_on c s'
      else match split_on c s' with
           | [] => [[x]]   (* unreachable: split_on never returns [] *)
           | h :: t => (x :: h) :: t
           end
  end.

(** strings.Join(l, sep) *)
Fixpoint intercalate (sep : str) (l : list str) : str :=
  match l with
  | [] => []
  | [x] => x
  | x :: t => x ++ sep ++ intercalate sep t
  end.

(** state of the Clean loop *)
Record cstate := MkCS { cs_rooted : bool; cs_stack : list str }.

(** one path element (the text between two separators) *)
Definition clean_step (st : cstate) (c : str) : cstate :=
  if eqb_str c [] || eqb_str c s_dot then st                       (* empty element, "." element *)
  else if eqb_str c s_dotdot then                                  (* ".." element *)
    match cs_stack st with
    | top :: r =>
        if eqb_str top s_dotdot
        then MkCS (cs_rooted st) (s_dotdot :: cs_stack st)          (* w = dotdot, not rooted: append ".." *)
        else MkCS (cs_rooted st) r                                  (* w > dotdot: backtrack *)
    | [] => if cs_rooted st then st else MkCS false [s_dotdot]
    end
  else MkCS (cs_rooted st) (c :: cs_stack st).                     (* real element *)

Definition fp_is_abs (p : str) : bool := match p with c :: _ => c =? c_slash | [] => false end.

Definition clean_state (path : str) : cstate :=
  fold_left clean_step (split_on c_slash path) (MkCS (fp_is_abs path) []).

Definition clean_render (st : cstate) : str :=
  if cs_rooted st then c_slash :: intercalate [c_slash] (rev (cs_stack st))
  else match cs_stack st with
       | [] => s_dot
       | _ => intercalate [c_slash] (rev (cs_stack st))
       end.

(** filepath.Clean *)
Definition fp_clean (path : str) : str := clean_render (clean_state path).

Fixpoint drop_empty_prefix (l : list str) : list str :=
  match l with
  | [] :: t => drop_empty_prefix t
  | _ => l
  end.

(** filepath.Join: from the first non-empty element on, everything is joined with '/' and cleaned *)
Definition fp_join (elems : list str) : str :=
  match drop_empty_prefix elems with
  | [] => []
  | l => fp_clean (intercalate [c_slash] l)
  end.

(** filepath.Abs with os.Getwd() = cwd *)
Definition fp_abs (cwd p : str) : str := if fp_is_abs p then fp_clean p else fp_join [cwd; p].

(** [base] extended by the elements [comps] (what "inside base, at depth |comps|" means in the theorems):
    base/c1/.../cn, without doubling the separator of "/" and without the "./" of the empty relative path *)
Definition path_append (base : str) (comps : list str) : str :=
  if eqb_str base [c_slash] then c_slash :: intercalate [c_slash] comps
  else if eqb_str base s_dot then intercalate [c_slash] comps
  else base ++ c_slash :: intercalate [c_slash] comps.
