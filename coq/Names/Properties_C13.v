(** C13 - Model names and digests cannot address anything outside the model store.

    Theorems only (proofs are in PathProofs.v, Proofs.v, Confine.v, Fold.v).  Vocabulary:
    - [str] = list of bytes; every theorem quantifies over all byte strings / all values of the Go structs;
    - [part_ok k s]    : s is a valid part of kind k (length 1..350 for a host, 1..80 otherwise; first byte
                         alphanumeric or '_'; every byte allowed by the per-kind rule) - lemma [m_valid_part_ok] shows
                         that this is exactly isValidPart;
    - [fq_parts h n m t] : the four parts are valid for host/namespace/model/tag;
    - [safe_comp c]    : c is a path element that cannot move: not empty, not ".", not "..", no '/';
    - [fp_clean], [fp_join], [fp_abs] : filepath.Clean / Join / Abs (model in Path.v, tied to the real library);
    - [path_append base [c1..cn]] : base/c1/../cn - "inside base at depth n";
    - [cv a b]         : a and b differ only in the case of ASCII letters. *)
From Coq Require Import List NArith Bool.
From V Require Import Common.Bytes Names.Path Names.Model Names.PathProofs Names.Proofs Names.Confine Names.Fold Names.Fold2 Names.Existing Names.Hist Names.HistProofs Names.Main.
Import ListNotations.
Open Scope N_scope.

(** * 1. confinement *)

(** valid parts are path elements that cannot traverse *)
Theorem C13_parts_are_safe : forall h n m t, fq_parts h n m t -> Forall safe_comp [h; n; m; t].
Proof. exact fq_parts_safe. Qed.
Print Assumptions C13_parts_are_safe.

(** ModelPath.GetManifestPath, for every root directory and every ModelPath (hence for every name string given to
    ParseModelPath): an error, or exactly Clean(root)/manifests/host/namespace/model/tag; never a panic *)
Theorem C13_confined : forall root mp,
  (mp_manifest_path root mp = Err ENotExist /\ m_is_fq (mp_name mp) = false) \/
  (fq_parts (mpRegistry mp) (mpNamespace mp) (mpRepository mp) (mpTag mp) /\
   mp_manifest_path root mp =
   Ok (path_append (fp_clean root) [s_manifests; mpRegistry mp; mpNamespace mp; mpRepository mp; mpTag mp])).
Proof. exact mp_manifest_path_cases. Qed.
Print Assumptions C13_confined.

Example C13_confined_nonvacuous :
  mp_manifest_path [47; 109] (mp_parse [104; 58; 56; 47; 110; 47; 109; 58; 116])      (* root "/m", name "h:8/n/m:t" *)
  = Ok [47; 109; 47; 109; 97; 110; 105; 102; 101; 115; 116; 115; 47; 104; 58; 56; 47; 110; 47; 109; 47; 116].
Proof. vm_compute. reflexivity. Qed.                                                 (* "/m/manifests/h:8/n/m/t" *)

(** Name.Filepath refuses a name that is not fully qualified, and is host/namespace/model/tag otherwise;
    manifest.go joins it below <root>/manifests *)
Theorem C13_filepath : forall root n,
  (m_is_fq n = false /\ m_filepath n = Panic) \/
  (fq_parts (mH n) (mN n) (mM n) (mT n) /\
   exists fp, m_filepath n = Ok fp /\ fp = intercalate [c_slash] [mH n; mN n; mM n; mT n] /\
              fp_join [root; s_manifests; fp] = path_append (fp_clean root) [s_manifests; mH n; mN n; mM n; mT n]).
Proof. exact main_C13_filepath. Qed.
Print Assumptions C13_filepath.

(** GetBlobsPath, for every root and every digest string: rejected, or the blobs directory itself (empty string, by
    design), or Clean(root)/blobs/sha256-<the 64 hex digits of the input> *)
Theorem C13_confined_digest : forall root d,
  (get_blobs_path root d = Err EInvalidDigest /\ d <> [] /\ digest_re_match d = false) \/
  (d = [] /\ get_blobs_path root d = Ok (path_append (fp_clean root) [s_blobs])) \/
  (exists hexs, digest_shape d hexs /\ safe_comp (s_sha256 ++ c_dash :: hexs) /\
                get_blobs_path root d = Ok (path_append (fp_clean root) [s_blobs; s_sha256 ++ c_dash :: hexs])).
Proof. exact main_C13_confined_digest. Qed.
Print Assumptions C13_confined_digest.

(** the two digest gates accept the same language: ^sha256[:-][0-9a-fA-F]{64}$ *)
Theorem C13_digest_gates_agree : forall s, digest_re_match s = true <-> exists sum, b_parse_digest s = Ok sum.
Proof. exact digest_gates_agree. Qed.
Print Assumptions C13_digest_gates_agree.

(** blob.ParseDigest + DiskCache.GetFile (cache directory absolute): <dir>/blobs/sha256-<lower-case hex of the input> *)
Theorem C13_confined_cache_blob : forall cwd dir s sum,
  fp_is_abs dir = true -> b_parse_digest s = Ok sum ->
  exists hexs, digest_shape s hexs /\ safe_comp (s_sha256 ++ c_dash :: map fold_byte hexs) /\
               b_get_file cwd dir sum = path_append (fp_clean dir) [s_blobs; s_sha256 ++ c_dash :: map fold_byte hexs].
Proof. exact main_C13_confined_cache_blob. Qed.
Print Assumptions C13_confined_cache_blob.

Example C13_confined_cache_blob_nonvacuous :
  exists sum, b_parse_digest (s_sha256 ++ c_colon :: repeat 65 64) = Ok sum /\ fp_is_abs [47; 99] = true.
Proof. eexists. split; vm_compute; reflexivity. Qed.

(** blob.nameToPath / DiskCache.manifestPath, for every cache directory, every name string and every set of links on
    disk: rejected, or <dir>/manifests/a/b/c/d with four elements that cannot traverse.  Hypothesis: c.links() yields
    only paths "manifests/a/b/c/d" of directory entries (what fs.Glob("manifests/*/*/*/*") returns). *)
Theorem C13_confined_cache_manifest : forall dir links name,
  Forall link_wf links ->
  b_manifest_path dir links name = Err EInvalidName \/
  exists a b c d, Forall safe_comp [a; b; c; d] /\
                  b_manifest_path dir links name = Ok (path_append (fp_clean dir) [s_manifests; a; b; c; d]).
Proof. exact b_manifest_path_cases. Qed.
Print Assumptions C13_confined_cache_manifest.

Example C13_confined_cache_manifest_nonvacuous :
  link_wf [109; 97; 110; 105; 102; 101; 115; 116; 115; 47; 72; 47; 110; 47; 109; 47; 116] /\       (* "manifests/H/n/m/t" *)
  b_manifest_path [47; 99] [[109; 97; 110; 105; 102; 101; 115; 116; 115; 47; 72; 47; 110; 47; 109; 47; 116]] [104; 47; 110; 47; 109; 58; 116]
  = Ok [47; 99; 47; 109; 97; 110; 105; 102; 101; 115; 116; 115; 47; 72; 47; 110; 47; 109; 47; 116].   (* "h/n/m:t" -> "/c/manifests/H/n/m/t" *)
Proof.
  split; [|vm_compute; reflexivity].
  exists [72], [110], [109], [116]. split; [|reflexivity].
  repeat constructor; try discriminate; intros [H|[]]; discriminate.
Qed.

(** a name relative path (ParseNameFromFilepath), for every string: rejected (the zero Name), or exactly four valid
    parts joined by '/', nothing else *)
Theorem C13_confined_relpath : forall s,
  m_parse_from_filepath s = m_empty \/
  exists h n m t, fq_parts h n m t /\ m_parse_from_filepath s = MkM h n m t /\ s = intercalate [c_slash] [h; n; m; t].
Proof. exact m_parse_from_filepath_cases. Qed.
Print Assumptions C13_confined_relpath.

(** every byte string, through every entry point: rejected or confined (nothing else can happen) *)
Theorem C13_reject_or_confined : forall (root s : str),
  (* as a name: ParseModelPath + GetManifestPath *)
  ((exists e, mp_manifest_path root (mp_parse s) = Err e) \/
   exists h n m t, fq_parts h n m t /\ Forall safe_comp [s_manifests; h; n; m; t] /\
                   mp_manifest_path root (mp_parse s) = Ok (path_append (fp_clean root) [s_manifests; h; n; m; t])) /\
  (* as a name: model.ParseName + IsValid + Filepath *)
  ((m_is_valid (m_parse s) = false /\ m_filepath (m_parse s) = Panic) \/
   exists h n m t, fq_parts h n m t /\ m_parse s = MkM h n m t /\
                   m_filepath (m_parse s) = Ok (intercalate [c_slash] [h; n; m; t])) /\
  (* as a name: names.Parse + nameToPath + manifestPath of the blob cache *)
  (forall links, Forall link_wf links ->
     b_manifest_path root links s = Err EInvalidName \/
     exists a b c d, Forall safe_comp [s_manifests; a; b; c; d] /\
                     b_manifest_path root links s = Ok (path_append (fp_clean root) [s_manifests; a; b; c; d])) /\
  (* as a name relative path *)
  (m_parse_from_filepath s = m_empty \/
   exists h n m t, fq_parts h n m t /\ m_parse_from_filepath s = MkM h n m t /\ s = intercalate [c_slash] [h; n; m; t]) /\
  (* as a digest: GetBlobsPath *)
  ((exists e, get_blobs_path root s = Err e) \/
   (s = [] /\ get_blobs_path root s = Ok (path_append (fp_clean root) [s_blobs])) \/
   exists file, safe_comp file /\ get_blobs_path root s = Ok (path_append (fp_clean root) [s_blobs; file])) /\
  (* as a digest: blob.ParseDigest + GetFile *)
  ((exists e, b_parse_digest s = Err e) \/
   exists sum, b_parse_digest s = Ok sum /\
               (fp_is_abs root = true -> forall cwd, exists file, safe_comp file /\
                                                                  b_get_file cwd root sum = path_append (fp_clean root) [s_blobs; file])).
Proof. exact main_C13_reject_or_confined. Qed.
Print Assumptions C13_reject_or_confined.

(** * 2. print / parse round trips *)
Theorem C13_roundtrip_model : forall n, m_is_valid n = true -> m_parse (m_string n) = n.
Proof. exact m_roundtrip. Qed.
Print Assumptions C13_roundtrip_model.

Example C13_roundtrip_model_nonvacuous : m_is_valid (m_parse [104; 58; 56; 47; 110; 47; 109; 58; 116]) = true.
Proof. vm_compute. reflexivity. Qed.

(** package names, with IsValid as repaired by fixes/C13-names-host-without-namespace.patch *)
Theorem C13_roundtrip_names : forall n, n_is_valid n = true -> n_parse (n_string n) = n.
Proof. exact n_roundtrip. Qed.
Print Assumptions C13_roundtrip_names.

Example C13_roundtrip_names_nonvacuous :
  n_is_valid (n_parse [110; 47; 109]) = true /\ n_is_fq (n_parse [110; 47; 109]) = false.   (* "n/m": valid, not fully qualified *)
Proof. vm_compute. split; reflexivity. Qed.

(** the unchanged tree: the full statement is false, exactly for a host without a namespace *)
Definition C13_roundtrip_names_unrepaired_full : Prop :=
  forall n, n_is_valid_unrepaired n = true -> n_parse (n_string n) = n.

Theorem C13_roundtrip_names_unrepaired_refuted : ~ C13_roundtrip_names_unrepaired_full.
Proof. exact main_C13_roundtrip_names_unrepaired_refuted. Qed.
Print Assumptions C13_roundtrip_names_unrepaired_refuted.

Theorem C13_roundtrip_names_unrepaired_partial : forall n,
  n_is_valid_unrepaired n = true -> nonempty (nH n) && negb (nonempty (nN n)) = false -> n_parse (n_string n) = n.
Proof. exact main_C13_roundtrip_names_unrepaired_partial. Qed.
Print Assumptions C13_roundtrip_names_unrepaired_partial.

Example C13_roundtrip_names_unrepaired_partial_nonvacuous :
  let n := n_parse [104; 47; 110; 47; 109; 58; 116] in
  n_is_valid_unrepaired n = true /\ nonempty (nH n) && negb (nonempty (nN n)) = false.
Proof. vm_compute. split; reflexivity. Qed.

(** the relative path form: ParseNameFromFilepath(n.Filepath()) = n *)
Theorem C13_roundtrip_relpath : forall h n m t,
  fq_parts h n m t -> m_parse_from_filepath (intercalate [c_slash] [h; n; m; t]) = MkM h n m t.
Proof. exact m_parse_from_filepath_roundtrip. Qed.
Print Assumptions C13_roundtrip_relpath.

(** the extended names of the registry client (scheme://name@digest): accepted means supported scheme and a fully
    qualified name (to which the confinement and round-trip theorems apply) or a digest alone *)
Theorem C13_extended_name : forall mask s scheme n d,
  r_parse_name_extended mask s = Ok (scheme, n, d) ->
  r_supported_scheme scheme = true /\ ((n = n_empty /\ d <> None) \/ n_is_fq n = true).
Proof. exact main_C13_extended_name. Qed.
Print Assumptions C13_extended_name.

Example C13_extended_name_nonvacuous :
  exists n, r_parse_name_extended n_default_mask [104; 116; 116; 112; 58; 47; 47; 104; 47; 110; 47; 109] = Ok (s_http, n, None).   (* "http://h/n/m" *)
Proof. eexists. vm_compute. reflexivity. Qed.

(** names.Parse is total: its loop never exhausts the fuel [S (length s)] of the model *)
Theorem C13_names_parse_total : forall s acc, n_parse_loop (S (length s)) s acc <> None.
Proof. exact main_C13_names_parse_total. Qed.
Print Assumptions C13_names_parse_total.

(** * 3. the two parsers agree on fully qualified names, in both directions *)
Theorem C13_cross_parser : forall h n m t,
  m_is_fq (MkM h n m t) = n_is_fq (MkN h n m t) /\
  (m_is_fq (MkM h n m t) = true ->
     n_parse (m_string (MkM h n m t)) = MkN h n m t /\ m_parse (n_string (MkN h n m t)) = MkM h n m t).
Proof. exact main_C13_cross_parser. Qed.
Print Assumptions C13_cross_parser.

Example C13_cross_parser_nonvacuous : m_is_fq (MkM [104; 58; 56] [110] [109; 46; 49] [116]) = true.
Proof. vm_compute. reflexivity. Qed.

(** isValidPart is exactly [part_ok] (first byte, per-kind byte rule, length), although the loop ranges over runes *)
Theorem C13_valid_part_spec : forall k s, m_valid_part k s = true <-> part_ok k s.
Proof. exact m_valid_part_ok. Qed.
Print Assumptions C13_valid_part_spec.

(** * 4. letter case *)

(** case variants are accepted alike by both packages, and model.Name.EqualFold relates exactly the case variants *)
Theorem C13_casefold_accepted_alike : forall a b,
  cv_m a b -> m_is_valid a = m_is_valid b /\ (m_is_valid b = true -> m_equal_fold a b = true).
Proof. exact main_C13_casefold_accepted_alike. Qed.
Print Assumptions C13_casefold_accepted_alike.

(** blob cache: two name strings that differ only in letter case are rejected alike, or resolve to the same stored
    link, or (nothing stored under any case variant) to their own not-yet-existing paths *)
Theorem C13_casefold_same_model : forall dir links s1 s2,
  cv s1 s2 ->
  (b_manifest_path dir links s1 = Err EInvalidName /\ b_manifest_path dir links s2 = Err EInvalidName) \/
  (exists l, In l links /\ b_manifest_path dir links s1 = Ok (fp_join [dir; l]) /\
             b_manifest_path dir links s2 = Ok (fp_join [dir; l])) \/
  (exists h1 n1 m1 t1 h2 n2 m2 t2,
      fq_parts h1 n1 m1 t1 /\ fq_parts h2 n2 m2 t2 /\ cv_parts h1 n1 m1 t1 h2 n2 m2 t2 /\
      link_lookup links h1 n1 m1 t1 = None /\ link_lookup links h2 n2 m2 t2 = None /\
      b_manifest_path dir links s1 = Ok (fp_join [dir; intercalate [c_slash] [s_manifests; h1; n1; m1; t1]]) /\
      b_manifest_path dir links s2 = Ok (fp_join [dir; intercalate [c_slash] [s_manifests; h2; n2; m2; t2]])).
Proof. exact b_manifest_path_cv. Qed.
Print Assumptions C13_casefold_same_model.

Example C13_casefold_same_model_nonvacuous :
  cv [72; 47; 110; 47; 77; 58; 116] [104; 47; 78; 47; 109; 58; 84] /\                                (* "H/n/M:t" ~ "h/N/m:T" *)
  b_manifest_path [47; 99] [[109; 97; 110; 105; 102; 101; 115; 116; 115; 47; 72; 47; 110; 47; 109; 47; 116]] [72; 47; 110; 47; 77; 58; 116]
  = b_manifest_path [47; 99] [[109; 97; 110; 105; 102; 101; 115; 116; 115; 47; 72; 47; 110; 47; 109; 47; 116]] [104; 47; 78; 47; 109; 58; 84].
Proof. split; vm_compute; reflexivity. Qed.

(** names.Parse commutes with case folding *)
Theorem C13_casefold_parse : forall s1 s2,
  cv s1 s2 -> cv_n (n_parse s1) (n_parse s2) /\ n_is_fq (n_parse s1) = n_is_fq (n_parse s2) /\
              n_is_valid (n_parse s1) = n_is_valid (n_parse s2).
Proof. exact cv_n_parse. Qed.
Print Assumptions C13_casefold_parse.

(** model.ParseName on two strings that differ only in letter case: the names are case variants of each other, valid
    alike, and EqualFold when valid *)
Theorem C13_casefold_parse_model : forall s1 s2,
  cv s1 s2 -> cv_m (m_parse s1) (m_parse s2) /\ m_is_valid (m_parse s1) = m_is_valid (m_parse s2) /\
              (m_is_valid (m_parse s2) = true -> m_equal_fold (m_parse s1) (m_parse s2) = true).
Proof. intros s1 s2 H. split; [exact (m_parse_cv s1 s2 H)|exact (m_parse_cv_valid s1 s2 H)]. Qed.
Print Assumptions C13_casefold_parse_model.

(** DisplayShortest (used to hand a name to PullModel/PushModel) prints a string that parses back to a fully
    qualified case variant of the name with the same model and tag *)
Theorem C13_display_shortest : forall h n m t,
  fq_parts h n m t ->
  let n' := m_parse (m_display_shortest (MkM h n m t)) in
  m_is_fq n' = true /\ cv_m n' (MkM h n m t) /\ mM n' = m /\ mT n' = t.
Proof. exact m_display_shortest_parse. Qed.
Print Assumptions C13_display_shortest.

(** * 5. the legacy case-insensitive lookup (server/routes.go getExistingName) *)

(** as repaired by fixes/C04-getExistingName.patch (owned by C04): the lookup never changes a name into one that is
    not EqualFold to it ... *)
Theorem C13_lookup_equalfold : forall existing n, m_is_fq n = true -> cv_m (get_existing_name existing n) n.
Proof. exact get_existing_cv. Qed.
Print Assumptions C13_lookup_equalfold.

(** ... and case variants of a stored name are canonicalised to one and the same stored name, for every order (and
    multiplicity) in which the map of stored names is visited: [l1], [l2] are any two enumerations of the store *)
Theorem C13_casefold_legacy_lookup : forall l1 l2 n1 n2,
  (forall e, In e l1 <-> In e l2) -> Forall (fun e => m_is_fq e = true) l1 ->
  m_is_fq n1 = true -> cv_m n1 n2 ->
  (exists e, In e l1 /\ m_equal_fold e n1 = true) ->
  let r := get_existing_name l1 n1 in
  r = get_existing_name l2 n2 /\ In r l1 /\ m_equal_fold r n1 = true.
Proof. exact get_existing_same. Qed.
Print Assumptions C13_casefold_legacy_lookup.

Example C13_casefold_legacy_lookup_nonvacuous :
  let a := MkM [104] [110] [77] [116] in let b := MkM [104] [120] [109] [117] in
  get_existing_name [a; b] (MkM [72] [110] [109] [116]) = a /\ get_existing_name [b; a] (MkM [104] [78] [109] [84]) = a.
Proof. vm_compute. split; reflexivity. Qed.

(** the unchanged tree (no patch): a stored name, looked up by its exact spelling, can be rewritten to a name that
    is not stored, depending on the order of the map iteration *)
Definition C13_casefold_legacy_unrepaired_full : Prop :=
  forall existing n, Forall (fun e => m_is_fq e = true) existing -> m_is_fq n = true ->
    (exists e, In e existing /\ m_equal_fold e n = true) -> In (get_existing_name_legacy existing n) existing.

Theorem C13_casefold_legacy_unrepaired_refuted : ~ C13_casefold_legacy_unrepaired_full.
Proof. exact main_C13_casefold_legacy_unrepaired_refuted. Qed.
Print Assumptions C13_casefold_legacy_unrepaired_refuted.

(** what does hold on the unchanged tree: if no other stored name spells a matching part differently from the stored
    case variant [estar] (decidable guard [legacy_guard]), the lookup returns [estar], for every order *)
Theorem C13_casefold_legacy_unrepaired_partial : forall existing n estar,
  m_is_fq n = true -> m_is_fq estar = true -> In estar existing -> legacy_guard existing n estar = true ->
  get_existing_name_legacy existing n = estar.
Proof. exact legacy_partial. Qed.
Print Assumptions C13_casefold_legacy_unrepaired_partial.

Example C13_casefold_legacy_unrepaired_partial_nonvacuous :
  let a := MkM [104] [110] [77] [116] in let b := MkM [104] [120] [122] [117] in
  legacy_guard [a; b] (MkM [72] [110] [109] [116]) a = true /\ m_is_fq a = true.
Proof. vm_compute. split; reflexivity. Qed.

(** * 6. histories *)

(** one long-lived blob.DiskCache whose models directory is also written by others (legacy store code, other
    processes).  [cstate] is the set of manifest files on disk in c.links() order; at every state - hence after every
    history of Link / Resolve / Unlink and foreign Plant / Remove - Resolve answers alike for all case variants *)
Theorem C13_cache_history_casefold : forall (ops : list cop) s1 s2,
  cv s1 s2 -> snd (c_step (c_run [] ops) (CResolve s1)) = snd (c_step (c_run [] ops) (CResolve s2)).
Proof. intros ops s1 s2. apply c_resolve_cv. Qed.
Print Assumptions C13_cache_history_casefold.

(** after Link(s1, d) on any state, Resolve of every case variant of s1 yields d *)
Theorem C13_cache_link_then_resolve : forall st s1 s2 d l,
  cv s1 s2 -> c_target st s1 = Ok l -> snd (c_step (fst (c_step st (CLink s1 d))) (CResolve s2)) = (0, d).
Proof. exact c_link_resolve. Qed.
Print Assumptions C13_cache_link_then_resolve.

Example C13_cache_link_then_resolve_nonvacuous :
  exists l, c_target [([109; 97; 110; 105; 102; 101; 115; 116; 115; 47; 72; 47; 110; 47; 109; 47; 116], 5)] [104; 47; 110; 47; 109; 58; 116] = Ok l.
Proof. eexists. vm_compute. reflexivity. Qed.

(** the cache's own operations never write a second manifest that differs only in letter case *)
Theorem C13_cache_history_no_twin : forall ops st,
  forallb is_cache_op ops = true -> no_twin (paths st) -> no_twin (paths (c_run st ops)).
Proof. exact c_run_no_twin. Qed.
Print Assumptions C13_cache_history_no_twin.

Example C13_cache_history_no_twin_nonvacuous : no_twin (paths []) /\ forallb is_cache_op [CLink [104; 47; 110; 47; 109; 58; 116] 1; CResolve [72; 47; 110; 47; 109; 58; 116]] = true.
Proof. split; [intros p q []|reflexivity]. Qed.

(** the legacy handlers (show, delete, copy, create-from): every history keeps the store valid and free of names that
    differ only in case ... *)
Theorem C13_handlers_history : forall ops st, h_inv st -> h_inv (h_run st ops).
Proof. exact h_run_inv. Qed.
Print Assumptions C13_handlers_history.

Example C13_handlers_history_nonvacuous : h_inv [(MkM [104] [110] [77] [116], 1)].
Proof.
  split; [repeat constructor|]. intros a b [<-|[]] [<-|[]] _. reflexivity.
Qed.

(** ... and in such a store a request that spells a stored name in any letter case addresses exactly that model *)
Theorem C13_handlers_address : forall st s1 s2,
  h_inv st -> In (m_parse s1) (names st) -> cv s1 s2 ->
  h_step st (HShow s2) = h_step st (HShow s1) /\ h_step st (HDelete s2) = h_step st (HDelete s1) /\
  exists d, h_step st (HShow s1) = (st, (true, d)).
Proof. exact h_show_cv. Qed.
Print Assumptions C13_handlers_address.

(** * 7. clean-up paths: digests taken from stored manifests *)

(** whatever strings a stored manifest holds as layer / config digests, the files that deleteUnusedLayers, Layer.Remove
    and PruneLayers can remove are the blobs directory entry <root>/blobs/<file> (or, for the empty string, the blobs
    directory itself, which os.Remove leaves alone unless it is empty); a non-empty string outside the grammar names no file *)
Theorem C13_cleanup_confined : forall root refs ds d p,
  (In p (cleanup_targets root ds) \/ In p (layer_remove_targets root refs d) \/ In p (delete_unused_targets root refs ds)) ->
  p = path_append (fp_clean root) [s_blobs] \/
  exists file, safe_comp file /\ p = path_append (fp_clean root) [s_blobs; file].
Proof.
  intros root refs ds d p [H|[H|H]];
    [exact (cleanup_targets_confined root ds p H)|exact (layer_remove_confined root refs d p H)|exact (delete_unused_confined root refs ds p H)].
Qed.
Print Assumptions C13_cleanup_confined.

Theorem C13_cleanup_rejects : forall root d, d <> [] -> digest_re_match d = false -> cleanup_targets root [d] = [].
Proof. exact cleanup_rejects. Qed.
Print Assumptions C13_cleanup_rejects.

Example C13_cleanup_rejects_nonvacuous :
  digest_re_match [46; 46; 47; 105; 100] = false /\ cleanup_targets [47; 109] [[46; 46; 47; 105; 100]] = [].   (* "../id" *)
Proof. vm_compute. split; reflexivity. Qed.
