(** C13 - theorems (work in progress: the full list is being moved in from Proofs.v) *)
From Coq Require Import List NArith Bool.
From V Require Import Common.Bytes Names.Path Names.Model.
Import ListNotations.
Open Scope N_scope.

Theorem C13_digest_grammar_nonempty : digest_re_match [] = false.
Proof. reflexivity. Qed.
Print Assumptions C13_digest_grammar_nonempty.
