(** C13 - state machines for histories (definitions only).

    1. One long-lived blob.DiskCache whose models directory is also written by others (the legacy store code, other
       processes): the state is the set of manifest files manifests/a/b/c/d on disk with their content, in the order
       in which c.links() (fs.Glob) lists them; cache operations Link / Resolve / Unlink and foreign writes Plant /
       Remove.  The unchanged code lists the directory at every lookup, so the cache has no state of its own.
    2. The legacy HTTP handlers of package server that take a model name (show, delete, copy, create-from): every one
       canonicalises the name with getExistingName against the stored names before it touches the store. *)
From Coq Require Import List NArith Bool Arith.
From V Require Import Common.Bytes Names.Path Names.Model.
Import ListNotations.
Open Scope N_scope.

(** * 1. the blob cache *)

(** order of fs.Glob("manifests/*/*/*/*"): directory by directory, entries sorted by name - i.e. the element lists
    compared lexicographically with the byte order on elements (not the byte order of the joined strings) *)
Fixpoint comps_cmp (a b : list str) : comparison :=
  match a, b with
  | [], [] => Eq
  | [], _ => Lt
  | _, [] => Gt
  | x :: a', y :: b' => match str_cmp x y with Eq => comps_cmp a' b' | c => c end
  end.
Definition path_ltb (p q : str) : bool :=
  match comps_cmp (split_on c_slash p) (split_on c_slash q) with Lt => true | _ => false end.

Definition cstate := list (str * N).       (* link path (relative to the cache dir) |-> content id *)

(** a file is written: an existing path keeps its place in the listing, a new one is inserted where Glob lists it *)
Fixpoint insert_path (p : str) (d : N) (st : cstate) : cstate :=
  match st with
  | [] => [(p, d)]
  | (q, e) :: r => if path_ltb p q then (p, d) :: (q, e) :: r else (q, e) :: insert_path p d r
  end.
Definition has_path (p : str) (st : cstate) : bool := existsb (fun x => eqb_str p (fst x)) st.
Definition upsert (p : str) (d : N) (st : cstate) : cstate :=
  if has_path p st then map (fun x => if eqb_str p (fst x) then (fst x, d) else x) st
  else insert_path p d st.
Fixpoint remove_path (p : str) (st : cstate) : cstate :=
  match st with
  | [] => []
  | (q, e) :: r => if eqb_str p q then remove_path p r else (q, e) :: remove_path p r
  end.
Fixpoint lookup_path (p : str) (st : cstate) : option N :=
  match st with
  | [] => None
  | (q, e) :: r => if eqb_str p q then Some e else lookup_path p r
  end.

Inductive cop :=
| CLink (name : str) (d : N)
| CResolve (name : str)
| CUnlink (name : str)
| CPlant (path : str) (d : N)
| CRemove (path : str).

(** manifestPath relative to the cache directory *)
Definition c_target (st : cstate) (name : str) : res str :=
  match b_name_to_path name with
  | Ok np =>
      let maybe := fp_join [s_manifests; np] in
      match find (fun l => equal_fold_au maybe l) (map fst st) with
      | Some l => Ok l
      | None => Ok maybe
      end
  | Err e => Err e
  | Panic => Panic
  end.

(** result: (code, value); code 0 ok / 1 not found / 3 invalid name; value = content id (Resolve), 1/0 (Unlink) *)
Definition c_step (st : cstate) (op : cop) : cstate * (N * N) :=
  match op with
  | CLink name d =>
      match c_target st name with
      | Ok l => (upsert l d st, (0, 0))
      | _ => (st, (3, 0))
      end
  | CResolve name =>
      match c_target st name with
      | Ok l => match lookup_path l st with Some d => (st, (0, d)) | None => (st, (1, 0)) end
      | _ => (st, (3, 0))
      end
  | CUnlink name =>
      match c_target st name with
      | Ok l => match lookup_path l st with Some _ => (remove_path l st, (0, 1)) | None => (st, (0, 0)) end
      | _ => (st, (3, 0))
      end
  | CPlant p d => (upsert p d st, (0, 0))
  | CRemove p => (remove_path p st, (0, 0))
  end.

Fixpoint c_run (st : cstate) (ops : list cop) : cstate :=
  match ops with
  | [] => st
  | op :: r => c_run (fst (c_step st op)) r
  end.

Definition is_cache_op (op : cop) : bool :=
  match op with CLink _ _ | CResolve _ | CUnlink _ => true | _ => false end.

(** * 2. the legacy handlers *)
Definition hstate := list (mname * N).    (* stored name |-> identity of the model (its system prompt) *)

Fixpoint h_lookup (n : mname) (st : hstate) : option N :=
  match st with
  | [] => None
  | (e, d) :: r => if m_eqb n e then Some d else h_lookup n r
  end.
Fixpoint h_remove (n : mname) (st : hstate) : hstate :=
  match st with
  | [] => []
  | (e, d) :: r => if m_eqb n e then h_remove n r else (e, d) :: h_remove n r
  end.
Fixpoint h_set (n : mname) (d : N) (st : hstate) : hstate :=
  match st with
  | [] => [(n, d)]
  | (e, x) :: r => if m_eqb n e then (e, d) :: r else (e, x) :: h_set n d r
  end.

(** model.ParseName + IsValid + getExistingName *)
Definition h_canon (st : hstate) (s : str) : option mname :=
  let n := m_parse s in
  if m_is_valid n then Some (get_existing_name (map fst st) n) else None.

Inductive hop :=
| HShow (name : str)
| HDelete (name : str)
| HCopy (src dst : str)
| HCreate (name from : str) (d : N)
| HList.

(** result: (ok, value) - value = identity of the addressed model for show *)
Definition h_step (st : hstate) (op : hop) : hstate * (bool * N) :=
  match op with
  | HShow s =>
      match h_canon st s with
      | Some c => match h_lookup c st with Some d => (st, (true, d)) | None => (st, (false, 0)) end
      | None => (st, (false, 0))
      end
  | HDelete s =>
      match h_canon st s with
      | Some c => match h_lookup c st with Some _ => (h_remove c st, (true, 0)) | None => (st, (false, 0)) end
      | None => (st, (false, 0))
      end
  | HCopy src dst =>
      match h_canon st src, h_canon st dst with
      | Some s, Some d =>
          if m_eqb s d then (st, (true, 0))                     (* same file: CopyModel returns nil *)
          else match h_lookup s st with
               | Some x => (h_set d x st, (true, 0))
               | None => (st, (false, 0))
               end
      | _, _ => (st, (false, 0))
      end
  | HCreate name from d =>
      (* the name being created is canonicalised; FROM is looked up as typed (parseFromModel) *)
      match h_canon st name with
      | Some c =>
          let f := m_parse from in
          if m_is_valid f then
            match h_lookup f st with
            | Some _ => (h_set c d st, (true, 0))
            | None => (st, (false, 0))
            end
          else (st, (false, 0))
      | None => (st, (false, 0))
      end
  | HList => (st, (true, N.of_nat (length st)))            (* /api/tags: every stored model once *)
  end.

Fixpoint h_run (st : hstate) (ops : list hop) : hstate :=
  match ops with
  | [] => st
  | op :: r => h_run (fst (h_step st op)) r
  end.

(** * 3. clean-up paths: digest strings taken from STORED manifests (deleteUnusedLayers, Layer.Remove, PruneLayers)
    every one of them turns a digest into a file name through GetBlobsPath and removes nothing otherwise *)
Definition cleanup_targets (root : str) (ds : list str) : list str :=
  flat_map (fun d => match get_blobs_path root d with Ok p => [p] | _ => [] end) ds.
Definition referenced (refs : list str) (d : str) : bool := existsb (eqb_str d) refs.
(** Layer.Remove: nothing for the empty digest or a digest some manifest still uses *)
Definition layer_remove_targets (root : str) (refs : list str) (d : str) : list str :=
  if nonempty d && negb (referenced refs d) then cleanup_targets root [d] else [].
(** deleteUnusedLayers(deleteMap) *)
Definition delete_unused_targets (root : str) (refs dm : list str) : list str :=
  cleanup_targets root (filter (fun k => negb (referenced refs k)) dm).
