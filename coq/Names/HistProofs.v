(** C13 - histories: at every point of every history, case variants of a name address the same manifest; neither
    the blob cache nor the legacy handlers ever write a second manifest that differs only in letter case. *)
From Coq Require Import List NArith ZArith Bool Arith Lia ZifyBool ZifyNat ZifyN.
From V Require Import Common.Bytes Names.Path Names.Model Names.PathProofs Names.Proofs Names.Confine Names.Fold Names.Fold2
  Names.Existing Names.Hist.
Import ListNotations.
Open Scope N_scope.

(** * 1. the blob cache *)
Definition paths (st : cstate) : list str := map fst st.

Lemma c_target_invalid st name : n_is_fq (n_parse name) = false -> c_target st name = Err EInvalidName.
Proof. intro H. unfold c_target, b_name_to_path. cbv zeta. rewrite H. reflexivity. Qed.

Lemma c_target_lookup st name h n m t :
  n_parse name = MkN h n m t -> fq_parts h n m t ->
  c_target st name = Ok (match link_lookup (paths st) h n m t with
                         | Some l => l
                         | None => intercalate [c_slash] [s_manifests; h; n; m; t]
                         end).
Proof.
  intros Hp Hfq. unfold c_target, b_name_to_path. cbv zeta. rewrite Hp.
  rewrite (proj2 (n_is_fq_parts h n m t) Hfq). cbn [nH nN nM nT].
  pose proof (fq_parts_safe _ _ _ _ Hfq) as Hs.
  rewrite (fp_join_safe [h; n; m; t]) by (try assumption; discriminate).
  rewrite (fp_join_head s_manifests [h; n; m; t]) by (try discriminate; try assumption; exact manifests_safe).
  unfold link_lookup, paths. destruct (find _ (map fst st)); reflexivity.
Qed.

Lemma manifests_ascii : Forall (fun c => c < 128) s_manifests.
Proof. unfold s_manifests. repeat constructor. Qed.

Lemma maybe_ascii h n m t : fq_parts h n m t -> Forall (fun c => c < 128) (intercalate [c_slash] [s_manifests; h; n; m; t]).
Proof.
  intros (Hh & Hn & Hm & Ht). cbn [intercalate].
  repeat (apply Forall_app; split); try (repeat constructor; fail);
    try exact manifests_ascii; eapply part_ok_ascii; eassumption.
Qed.

Lemma efa_refl a : Forall (fun c => c < 128) a -> equal_fold_au a a = true.
Proof. intro H. apply (equal_fold_au_ascii a a H). apply cv_refl. Qed.

Lemma fold_high c : 128 <= c -> fold_byte c = c.
Proof. intro H. unfold fold_byte, is_upper. destruct ((65 <=? c) && (c <=? 90)) eqn:E; [lia|reflexivity]. Qed.

Lemma fold_low c : c < 128 -> fold_byte c < 128.
Proof. intro H. unfold fold_byte, is_upper. destruct ((65 <=? c) && (c <=? 90)) eqn:E; lia. Qed.

(** a case variant of an ASCII string is ASCII *)
Lemma cv_ascii a p : Forall (fun c => c < 128) a -> cv a p -> Forall (fun c => c < 128) p.
Proof.
  revert p; induction a as [|x a IH]; intros [|y p] Ha H; try discriminate; [constructor|].
  inversion Ha as [|? ? Hx Ha']; subst. injection H as E1 E2. constructor; [|apply IH; assumption].
  destruct (N.lt_ge_cases y 128) as [Hy|Hy]; [exact Hy|]. rewrite (fold_high y Hy) in E1.
  pose proof (fold_low x Hx). lia.
Qed.

Lemma lookup_none_paths st h n m t :
  fq_parts h n m t -> link_lookup (paths st) h n m t = None ->
  forall p, In p (paths st) -> ~ cv (intercalate [c_slash] [s_manifests; h; n; m; t]) p.
Proof.
  intros Hfq Hl p Hin Hcv. unfold link_lookup in Hl.
  pose proof (find_none _ _ Hl p Hin) as Hf. cbv beta in Hf.
  pose proof (maybe_ascii _ _ _ _ Hfq) as Ha.
  rewrite (proj2 (equal_fold_au_ascii _ p (cv_ascii _ _ Ha Hcv)) Hcv) in Hf. discriminate.
Qed.

Lemma lookup_path_none p st : ~ In p (paths st) -> lookup_path p st = None.
Proof.
  induction st as [|[q e] r IH]; intro H; cbn; [reflexivity|].
  destruct (eqb_str p q) eqn:E; [apply eqb_str_spec in E; subst; exfalso; apply H; left; reflexivity|].
  apply IH. intro Hin. apply H. right. exact Hin.
Qed.

Lemma lookup_path_some p st : In p (paths st) -> exists d, lookup_path p st = Some d.
Proof.
  induction st as [|[q e] r IH]; intro H; cbn in *; [contradiction|].
  destruct (eqb_str p q) eqn:E; [eexists; reflexivity|].
  destruct H as [H|H]; [subst; rewrite eqb_str_refl in E; discriminate|apply IH; exact H].
Qed.

(** two names that differ only in letter case: rejected alike, or the same stored link, or both absent *)
Lemma c_target_cv st s1 s2 :
  cv s1 s2 ->
  (c_target st s1 = Err EInvalidName /\ c_target st s2 = Err EInvalidName) \/
  (exists l, In l (paths st) /\ c_target st s1 = Ok l /\ c_target st s2 = Ok l) \/
  (exists l1 l2, c_target st s1 = Ok l1 /\ c_target st s2 = Ok l2 /\ ~ In l1 (paths st) /\ ~ In l2 (paths st) /\ cv l1 l2 /\
                 Forall (fun c => c < 128) l1 /\ (forall p, In p (paths st) -> ~ cv l1 p)).
Proof.
  intro H. destruct (cv_n_parse s1 s2 H) as ((C1 & C2 & C3 & C4) & Hfq & _).
  destruct (n_parse s1) as [h1 n1 m1 t1] eqn:E1. destruct (n_parse s2) as [h2 n2 m2 t2] eqn:E2.
  cbn [nH nN nM nT] in C1, C2, C3, C4.
  destruct (n_is_fq (MkN h2 n2 m2 t2)) eqn:F2.
  - pose proof (proj1 (n_is_fq_parts _ _ _ _) Hfq) as P1. pose proof (proj1 (n_is_fq_parts _ _ _ _) F2) as P2.
    rewrite (c_target_lookup st s1 h1 n1 m1 t1 E1 P1), (c_target_lookup st s2 h2 n2 m2 t2 E2 P2).
    assert (Hcv : cv_parts h1 n1 m1 t1 h2 n2 m2 t2) by (repeat split; assumption).
    pose proof (link_lookup_cv (paths st) _ _ _ _ _ _ _ _ Hcv) as Hl.
    destruct (link_lookup (paths st) h2 n2 m2 t2) as [l|] eqn:El; rewrite Hl.
    + right; left. exists l. split; [|split; reflexivity]. unfold link_lookup in El. apply find_some in El as [Hin _]. exact Hin.
    + right; right. do 2 eexists. split; [reflexivity|]. split; [reflexivity|].
      pose proof (lookup_none_paths st _ _ _ _ P1 Hl) as N1. pose proof (lookup_none_paths st _ _ _ _ P2 El) as N2.
      split; [intro Hin; exact (N1 _ Hin (cv_refl _))|]. split; [intro Hin; exact (N2 _ Hin (cv_refl _))|].
      split; [apply cv_intercalate; repeat constructor; try assumption; apply cv_refl|].
      split; [apply maybe_ascii; exact P1|exact N1].
  - left. split; apply c_target_invalid; [rewrite E1|rewrite E2]; assumption.
Qed.

(** at every state - hence at every point of every history, foreign writes included - Resolve gives the same answer
    for all case variants of a name *)
Lemma c_resolve_cv st s1 s2 : cv s1 s2 -> snd (c_step st (CResolve s1)) = snd (c_step st (CResolve s2)).
Proof.
  intro H. cbn [c_step].
  destruct (c_target_cv st s1 s2 H) as [[-> ->]|[(l & _ & -> & ->)|(l1 & l2 & -> & -> & N1 & N2 & _)]]; try reflexivity.
  rewrite (lookup_path_none l1 st N1), (lookup_path_none l2 st N2). reflexivity.
Qed.

(** paths after a write *)
Lemma has_path_spec p st : has_path p st = true <-> In p (paths st).
Proof.
  unfold has_path, paths. rewrite existsb_exists. split.
  - intros ([q e] & Hin & He). apply eqb_str_spec in He. cbn in He. subst. apply in_map_iff. exists (q, e). split; [reflexivity|exact Hin].
  - intro H. apply in_map_iff in H as ([q e] & <- & Hin). exists (q, e). split; [exact Hin|apply eqb_str_refl].
Qed.

Lemma paths_insert p d st x : In x (paths (insert_path p d st)) <-> x = p \/ In x (paths st).
Proof.
  induction st as [|[q e] r IH]; cbn; [intuition|].
  destruct (path_ltb p q); cbn; [intuition|]. unfold paths in IH. rewrite IH. intuition.
Qed.

Lemma paths_upsert_in p d st : In p (paths st) -> paths (upsert p d st) = paths st.
Proof.
  intro H. unfold upsert. rewrite (proj2 (has_path_spec p st) H). unfold paths. rewrite map_map.
  apply map_ext. intros [q e]. cbn. destruct (eqb_str p q); reflexivity.
Qed.

Lemma paths_upsert p d st x : In x (paths (upsert p d st)) <-> x = p \/ In x (paths st).
Proof.
  destruct (has_path p st) eqn:E.
  - apply has_path_spec in E. rewrite (paths_upsert_in p d st E). split; [intro; right; assumption|intros [->|H]; assumption].
  - unfold upsert. rewrite E. apply paths_insert.
Qed.

Lemma lookup_insert p d st : ~ In p (paths st) -> lookup_path p (insert_path p d st) = Some d.
Proof.
  induction st as [|[q e] r IH]; intro H; cbn; [rewrite eqb_str_refl; reflexivity|].
  destruct (path_ltb p q); cbn; [rewrite eqb_str_refl; reflexivity|].
  destruct (eqb_str p q) eqn:E; [apply eqb_str_spec in E; subst; exfalso; apply H; left; reflexivity|].
  apply IH. intro Hin. apply H. right. exact Hin.
Qed.

Lemma lookup_upsert p d st : lookup_path p (upsert p d st) = Some d.
Proof.
  destruct (has_path p st) eqn:E; unfold upsert; rewrite E.
  - apply has_path_spec in E. induction st as [|[q e] r IH]; cbn in *; [contradiction|].
    destruct (eqb_str p q) eqn:Eq; cbn; rewrite Eq; [reflexivity|].
    apply IH. destruct E as [E|E]; [subst; rewrite eqb_str_refl in Eq; discriminate|exact E].
  - apply lookup_insert. intro H. apply has_path_spec in H. congruence.
Qed.

(** after Link(s1, d), Resolve of every case variant s2 of s1 yields d *)
Lemma c_link_resolve st s1 s2 d l :
  cv s1 s2 -> c_target st s1 = Ok l ->
  snd (c_step (fst (c_step st (CLink s1 d))) (CResolve s2)) = (0, d).
Proof.
  intros Hcv Ht. cbn [c_step]. rewrite Ht. cbn [fst].
  set (st' := upsert l d st).
  assert (Hl : In l (paths st')) by (apply paths_upsert; left; reflexivity).
  destruct (c_target_cv st' s1 s2 Hcv) as [[E1 _]|[(l' & Hin & E1 & E2)|(l1 & l2 & E1 & _ & N1 & _ & _ & A1 & Nall)]].
  - (* s1 is accepted in st, hence in st' *)
    exfalso. unfold c_target in Ht, E1. destruct (b_name_to_path s1); try discriminate.
    destruct (find _ (map fst st')); discriminate.
  - rewrite E2. (* the link found for s1 in st' is l *)
    assert (l' = l).
    { destruct (c_target_cv st s1 s1 (cv_refl _)) as [[E _]|[(k & Hk & E & _)|(k1 & k2 & E & _ & Nk & _ & _ & Ak & Nk')]];
        rewrite Ht in E; try discriminate; injection E as <-.
      - (* l was already stored: the listing is unchanged *)
        assert (Hp : paths st' = paths st) by (apply paths_upsert_in; exact Hk).
        unfold c_target in Ht, E1. destruct (b_name_to_path s1); try discriminate.
        fold (paths st') in E1. fold (paths st) in Ht. rewrite Hp in E1. rewrite Ht in E1. injection E1 as <-. reflexivity.
      - (* l is new: it is the only stored path that folds to it *)
        unfold c_target in Ht, E1. destruct (b_name_to_path s1) as [np| |]; try discriminate.
        fold (paths st') in E1. fold (paths st) in Ht.
        destruct (find (fun x => equal_fold_au (fp_join [s_manifests; np]) x) (paths st)) eqn:F; injection Ht as Ht.
        + exfalso. apply find_some in F as [Hf _]. subst. contradiction.
        + subst l. destruct (find (fun x => equal_fold_au (fp_join [s_manifests; np]) x) (paths st')) eqn:F'; injection E1 as <-; [|reflexivity].
          apply find_some in F' as [Hin' Heq]. apply paths_upsert in Hin' as [->|Hin']; [reflexivity|].
          exfalso. pose proof (find_none _ _ F _ Hin') as Hn. cbv beta in Hn. congruence. }
    subst l'. unfold st'. rewrite lookup_upsert. reflexivity.
  - exfalso. (* s1 resolves to an absent path in st', but its target l is present *)
    unfold c_target in Ht, E1. destruct (b_name_to_path s1) as [np| |]; try discriminate.
    fold (paths st') in E1. fold (paths st) in Ht.
    destruct (find (fun x => equal_fold_au (fp_join [s_manifests; np]) x) (paths st')) eqn:F'; injection E1 as <-.
    + apply find_some in F' as [Hin' _]. contradiction.
    + destruct (find (fun x => equal_fold_au (fp_join [s_manifests; np]) x) (paths st)) eqn:F; injection Ht as Ht.
      * subst. apply find_some in F as [_ Heq]. pose proof (find_none _ _ F' _ Hl) as Hn. cbv beta in Hn. congruence.
      * subst. contradiction.
Qed.

(** no cache operation ever writes a second manifest that differs only in case from a stored one *)
Definition no_twin (ps : list str) : Prop := forall p q, In p ps -> In q ps -> cv p q -> p = q.

Lemma paths_remove p st x : In x (paths (remove_path p st)) -> In x (paths st).
Proof.
  induction st as [|[q e] r IH]; cbn; [tauto|]. destruct (eqb_str p q); cbn; [intro H; right; apply IH; exact H|].
  intros [H|H]; [left; exact H|right; apply IH; exact H].
Qed.

Lemma c_step_no_twin st op : is_cache_op op = true -> no_twin (paths st) -> no_twin (paths (fst (c_step st op))).
Proof.
  intros Hop Hn. destruct op as [name d|name|name|p d|p]; try discriminate; cbn [c_step].
  - destruct (c_target_cv st name name (cv_refl _)) as [[E _]|[(l & Hin & E & _)|(l1 & l2 & E & _ & N1 & _ & _ & A1 & Nall)]]; rewrite E; cbn [fst].
    + exact Hn.
    + rewrite (paths_upsert_in l d st Hin). exact Hn.
    + intros p q Hp Hq Hcv. apply paths_upsert in Hp, Hq.
      destruct Hp as [->|Hp], Hq as [->|Hq]; [reflexivity| | |apply Hn; assumption].
      * exfalso. exact (Nall q Hq Hcv).
      * exfalso. exact (Nall p Hp (cv_sym _ _ Hcv)).
  - destruct (c_target st name); [destruct (lookup_path a st)|..]; exact Hn.
  - destruct (c_target st name) as [l| |]; [|exact Hn|exact Hn].
    destruct (lookup_path l st); [|exact Hn]. cbn [fst].
    intros p q Hp Hq. apply Hn; eapply paths_remove; eassumption.
Qed.

Lemma c_run_no_twin ops st : forallb is_cache_op ops = true -> no_twin (paths st) -> no_twin (paths (c_run st ops)).
Proof.
  revert st; induction ops as [|op r IH]; intros st Ho Hn; cbn [c_run]; [exact Hn|].
  cbn [forallb] in Ho. apply andb_true_iff in Ho as [H1 H2]. apply IH; [exact H2|]. apply c_step_no_twin; assumption.
Qed.

(** * 2. the legacy handlers *)
Definition names (st : hstate) : list mname := map fst st.
Definition h_inv (st : hstate) : Prop :=
  Forall (fun e => m_is_fq e = true) (names st) /\ (forall a b, In a (names st) -> In b (names st) -> cv_m a b -> a = b).

Lemma m_eqb_spec a b : m_eqb a b = true <-> a = b.
Proof.
  destruct a as [h1 n1 m1 t1], b as [h2 n2 m2 t2]. unfold m_eqb. cbn [mH mN mM mT]. rewrite !andb_true_iff, !eqb_str_spec. split.
  - intros (((-> & ->) & ->) & ->). reflexivity.
  - intros [= -> -> -> ->]. repeat split.
Qed.

Lemma cv_m_sym a b : cv_m a b -> cv_m b a.
Proof. intros (H1 & H2 & H3 & H4). repeat split; apply cv_sym; assumption. Qed.

Lemma cv_m_trans a b c : cv_m a b -> cv_m b c -> cv_m a c.
Proof. unfold cv_m, cv. intros (H1 & H2 & H3 & H4) (G1 & G2 & G3 & G4). repeat split; congruence. Qed.

(** the canonicalised name: valid, a case variant of the request, and either a stored name or a name of which no
    case variant is stored *)
Lemma h_canon_spec st s c :
  Forall (fun e => m_is_fq e = true) (names st) -> h_canon st s = Some c ->
  m_is_fq (m_parse s) = true /\ m_is_fq c = true /\ cv_m c (m_parse s) /\
  (In c (names st) \/ forall e, In e (names st) -> ~ cv_m e c).
Proof.
  intros Hv. unfold h_canon. cbv zeta. unfold m_is_valid. destruct (m_is_fq (m_parse s)) eqn:Ev; [|discriminate].
  intros [= <-]. fold (names st). set (n := m_parse s) in *.
  pose proof (get_existing_cv (names st) n Ev) as Hcv.
  split; [reflexivity|]. split; [rewrite (cv_m_fq _ _ Hcv); exact Ev|]. split; [exact Hcv|].
  destruct (existsb (fun e => m_equal_fold e n) (names st)) eqn:Ex.
  - left. apply existsb_exists in Ex as (e & Hin & He).
    destruct (get_existing_full (names st) n) as (R & _ & _); [exists e; split; assumption|exact R].
  - right. intros e Hin Hce.
    assert (m_equal_fold e n = true) by (apply cv_m_equal_fold; [exact Ev|eapply cv_m_trans; eassumption]).
    assert (existsb (fun e => m_equal_fold e n) (names st) = true) by (apply existsb_exists; exists e; split; assumption).
    congruence.
Qed.

Lemma names_h_set n d st : names (h_set n d st) = names st \/ (~ In n (names st) /\ names (h_set n d st) = names st ++ [n]).
Proof.
  induction st as [|[e x] r IH]; cbn; [right; split; [tauto|reflexivity]|].
  destruct (m_eqb n e) eqn:E; cbn; [left; reflexivity|].
  destruct IH as [IH|[IH1 IH2]]; [left; unfold names in *; rewrite IH; reflexivity|].
  right. split.
  - intros [H|H]; [subst; rewrite (proj2 (m_eqb_spec n n) eq_refl) in E; discriminate|contradiction].
  - unfold names in *. rewrite IH2. reflexivity.
Qed.

Lemma names_h_remove n st x : In x (names (h_remove n st)) -> In x (names st).
Proof.
  induction st as [|[e d] r IH]; cbn; [tauto|]. destruct (m_eqb n e); cbn; [intro H; right; apply IH; exact H|].
  intros [H|H]; [left; exact H|right; apply IH; exact H].
Qed.

Lemma h_inv_set st c d :
  h_inv st -> m_is_fq c = true -> (In c (names st) \/ forall e, In e (names st) -> ~ cv_m e c) -> h_inv (h_set c d st).
Proof.
  intros [Hv Hn] Hc Hor. destruct (names_h_set c d st) as [E|[Hni E]]; unfold h_inv; rewrite E; [split; assumption|].
  destruct Hor as [Hin|Hno]; [contradiction|]. split.
  - apply Forall_app. split; [exact Hv|constructor; [exact Hc|constructor]].
  - intros a b Ha Hb Hcv. apply in_app_or in Ha, Hb.
    destruct Ha as [Ha|[<-|[]]], Hb as [Hb|[<-|[]]]; [apply Hn; assumption| | |reflexivity].
    + exfalso. exact (Hno a Ha Hcv).
    + exfalso. exact (Hno b Hb (cv_m_sym _ _ Hcv)).
Qed.

Lemma h_inv_remove st c : h_inv st -> h_inv (h_remove c st).
Proof.
  intros [Hv Hn]. split.
  - apply Forall_forall. intros x Hx. rewrite Forall_forall in Hv. apply Hv. eapply names_h_remove; eassumption.
  - intros a b Ha Hb. apply Hn; eapply names_h_remove; eassumption.
Qed.

(** every handler keeps the store free of names that differ only in case *)
Lemma h_step_inv st op : h_inv st -> h_inv (fst (h_step st op)).
Proof.
  intro Hi. pose proof Hi as [Hv _]. destruct op as [s|s|src dst|name from d|]; cbn [h_step].
  - destruct (h_canon st s); [destruct (h_lookup m st)|]; exact Hi.
  - destruct (h_canon st s) as [c|]; [|exact Hi]. destruct (h_lookup c st); [|exact Hi]. apply h_inv_remove. exact Hi.
  - destruct (h_canon st src) as [s|] eqn:Es; [|exact Hi]. destruct (h_canon st dst) as [d|] eqn:Ed; [|exact Hi].
    destruct (m_eqb s d); [exact Hi|]. destruct (h_lookup s st); [|exact Hi]. cbn [fst].
    destruct (h_canon_spec st dst d Hv Ed) as (_ & Fd & _ & Hor). apply h_inv_set; assumption.
  - destruct (h_canon st name) as [c|] eqn:Ec; [|exact Hi]. cbv zeta.
    destruct (m_is_valid (m_parse from)); [|exact Hi]. destruct (h_lookup (m_parse from) st); [|exact Hi]. cbn [fst].
    destruct (h_canon_spec st name c Hv Ec) as (_ & Fc & _ & Hor). apply h_inv_set; assumption.
  - exact Hi.
Qed.

Lemma h_run_inv ops st : h_inv st -> h_inv (h_run st ops).
Proof. revert st; induction ops as [|op r IH]; intros st H; cbn [h_run]; [exact H|]. apply IH, h_step_inv, H. Qed.

(** a request that spells a stored name in any letter case addresses exactly that stored model *)
Lemma h_canon_addresses st s e :
  h_inv st -> In e (names st) -> m_is_valid (m_parse s) = true -> cv_m e (m_parse s) -> h_canon st s = Some e.
Proof.
  intros [Hv Hn] Hin Hval Hcv. unfold h_canon. cbv zeta. rewrite Hval. f_equal. fold (names st).
  unfold m_is_valid in Hval.
  assert (He : m_equal_fold e (m_parse s) = true) by (apply cv_m_equal_fold; assumption).
  destruct (get_existing_full (names st) (m_parse s)) as (R & Rf & _); [exists e; split; assumption|].
  apply Hn; [exact R|exact Hin|].
  eapply cv_m_trans; [apply (cv_m_equal_fold _ _ Hval); exact Rf|apply cv_m_sym; exact Hcv].
Qed.

Lemma h_lookup_in e st : In e (names st) -> exists d, h_lookup e st = Some d.
Proof.
  induction st as [|[x d] r IH]; cbn; [tauto|]. destruct (m_eqb e x) eqn:E; [eexists; reflexivity|].
  intros [H|H]; [subst; rewrite (proj2 (m_eqb_spec e e) eq_refl) in E; discriminate|apply IH; exact H].
Qed.

(** show / delete with any spelling [s2] of a stored name behave as with the stored spelling [s1] *)
Lemma h_show_cv st s1 s2 :
  h_inv st -> In (m_parse s1) (names st) -> cv s1 s2 ->
  h_step st (HShow s2) = h_step st (HShow s1) /\ h_step st (HDelete s2) = h_step st (HDelete s1) /\
  exists d, h_step st (HShow s1) = (st, (true, d)).
Proof.
  intros Hi Hin Hcv. pose proof Hi as [Hv _].
  assert (F1 : m_is_valid (m_parse s1) = true) by (rewrite Forall_forall in Hv; apply Hv; exact Hin).
  assert (C : cv_m (m_parse s1) (m_parse s2)) by (apply m_parse_cv; exact Hcv).
  assert (F2 : m_is_valid (m_parse s2) = true) by (unfold m_is_valid in *; rewrite <- (cv_m_fq _ _ C); exact F1).
  assert (E1 : h_canon st s1 = Some (m_parse s1)) by (apply h_canon_addresses; try assumption; repeat split; apply cv_refl).
  assert (E2 : h_canon st s2 = Some (m_parse s1)) by (apply h_canon_addresses; assumption).
  cbn [h_step]. rewrite E1, E2. destruct (h_lookup_in _ _ Hin) as [d Hd]. rewrite Hd.
  split; [reflexivity|]. split; [reflexivity|]. exists d. reflexivity.
Qed.

(** * 3. clean-up paths *)
Lemma cleanup_targets_confined root ds p :
  In p (cleanup_targets root ds) ->
  p = path_append (fp_clean root) [s_blobs] \/
  exists file, safe_comp file /\ p = path_append (fp_clean root) [s_blobs; file].
Proof.
  unfold cleanup_targets. intro H. apply in_flat_map in H as (d & _ & Hp).
  destruct (get_blobs_path_cases root d) as [[E _]|[[_ E]|(hexs & Hs & E)]]; rewrite E in Hp.
  - destruct Hp.
  - destruct Hp as [<-|[]]. left. reflexivity.
  - destruct Hp as [<-|[]]. right. eexists. split; [|reflexivity].
    destruct Hs as (_ & _ & _ & _ & Hh). apply blob_file_safe. exact Hh.
Qed.

Lemma cleanup_targets_incl root a b : incl a b -> incl (cleanup_targets root a) (cleanup_targets root b).
Proof.
  intros Hi p Hp. unfold cleanup_targets in *. apply in_flat_map in Hp as (d & Hd & Hp). apply in_flat_map. exists d. split; [apply Hi; exact Hd|exact Hp].
Qed.

Lemma layer_remove_confined root refs d p :
  In p (layer_remove_targets root refs d) ->
  p = path_append (fp_clean root) [s_blobs] \/ exists file, safe_comp file /\ p = path_append (fp_clean root) [s_blobs; file].
Proof.
  unfold layer_remove_targets. destruct (nonempty d && negb (referenced refs d)); [apply cleanup_targets_confined|intros []].
Qed.

Lemma delete_unused_confined root refs dm p :
  In p (delete_unused_targets root refs dm) ->
  p = path_append (fp_clean root) [s_blobs] \/ exists file, safe_comp file /\ p = path_append (fp_clean root) [s_blobs; file].
Proof. apply cleanup_targets_confined. Qed.

(** a string outside the digest grammar (and not empty) names no file at all *)
Lemma cleanup_rejects root d : d <> [] -> digest_re_match d = false -> cleanup_targets root [d] = [].
Proof.
  intros Hne Hm. unfold cleanup_targets. cbn [flat_map]. unfold get_blobs_path.
  destruct d; [congruence|]. cbn [nonempty andb]. rewrite Hm. reflexivity.
Qed.
