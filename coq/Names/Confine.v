(** C13 - confinement: every path derived from an accepted name / relative path / digest is the (cleaned) root
    extended by a fixed number of validated elements. *)
From Coq Require Import List NArith ZArith Bool Arith Lia ZifyBool ZifyNat ZifyN.
From V Require Import Common.Bytes Names.Path Names.Model Names.PathProofs Names.Proofs.
Import ListNotations.
Open Scope N_scope.

Ltac unf :=
  unfold m_char_ok, n_char_ok, ascii_fold_eq, fold_byte, is_alnum_us, is_hex, is_upper, is_lower, is_digit, is_slash_or_colon,
    is_colon_or_dash, pk_eqb, c_us, c_dash, c_dot, c_colon, c_slash, c_at in *.

Ltac not_in_lit := let H := fresh in intro H; cbn in H; repeat (destruct H as [H|H]; [discriminate H|]); exact H.

Lemma manifests_safe : safe_comp s_manifests.
Proof. unfold safe_comp, s_manifests, s_dot, s_dotdot. repeat split; try discriminate. not_in_lit. Qed.

Lemma blobs_safe : safe_comp s_blobs.
Proof. unfold safe_comp, s_blobs, s_dot, s_dotdot. repeat split; try discriminate. not_in_lit. Qed.

Lemma fq_parts_safe h n m t : fq_parts h n m t -> Forall safe_comp [h; n; m; t].
Proof. intros (Hh & Hn & Hm & Ht). repeat constructor; eapply part_ok_safe; eassumption. Qed.

(** * package model: Filepath, GetManifestPath *)
Lemma m_filepath_fq h n m t :
  fq_parts h n m t -> m_filepath (MkM h n m t) = Ok (intercalate [c_slash] [h; n; m; t]).
Proof.
  intro H. unfold m_filepath. rewrite (proj2 (m_is_fq_parts h n m t) H). cbn [mH mN mM mT].
  rewrite fp_join_safe; [reflexivity|apply fq_parts_safe; assumption|discriminate].
Qed.

Lemma m_filepath_refuses n : m_is_fq n = false -> m_filepath n = Panic.
Proof. intro H. unfold m_filepath. rewrite H. reflexivity. Qed.

(** ModelPath.GetManifestPath: for every root and every ModelPath value *)
Lemma mp_manifest_path_cases root mp :
  (mp_manifest_path root mp = Err ENotExist /\ m_is_fq (mp_name mp) = false) \/
  (fq_parts (mpRegistry mp) (mpNamespace mp) (mpRepository mp) (mpTag mp) /\
   mp_manifest_path root mp =
   Ok (path_append (fp_clean root) [s_manifests; mpRegistry mp; mpNamespace mp; mpRepository mp; mpTag mp])).
Proof.
  unfold mp_manifest_path, m_is_valid. destruct (m_is_fq (mp_name mp)) eqn:E; [right|left; split; reflexivity].
  unfold mp_name in *. apply m_is_fq_parts in E. split; [exact E|].
  rewrite m_filepath_fq by assumption.
  rewrite fp_join_under2; [reflexivity|exact manifests_safe|apply fq_parts_safe; assumption|discriminate].
Qed.

(** manifest.go / images.go: filepath.Join(manifests, n.Filepath()) for n := model.ParseName(s), checked by IsValid *)
Lemma m_name_manifest_path root n :
  m_is_fq n = true ->
  exists fp, m_filepath n = Ok fp /\
             fp_join [root; s_manifests; fp] = path_append (fp_clean root) [s_manifests; mH n; mN n; mM n; mT n].
Proof.
  destruct n as [h ns m t]. intro H. apply m_is_fq_parts in H. eexists. split; [apply m_filepath_fq; assumption|].
  cbn [mH mN mM mT]. apply fp_join_under2; [exact manifests_safe|apply fq_parts_safe; assumption|discriminate].
Qed.

(** * name relative paths: ParseNameFromFilepath *)
Lemma intercalate_split c s : intercalate [c] (split_on c s) = s.
Proof.
  induction s as [|x s IH]; [reflexivity|]. cbn [split_on].
  destruct (x =? c) eqn:E.
  - apply N.eqb_eq in E. subst x. destruct (split_on c s) as [|h t] eqn:Es; [exfalso; eapply split_on_nonnil; eassumption|].
    rewrite intercalate_cons2, IH. reflexivity.
  - destruct (split_on c s) as [|h t] eqn:Es; [exfalso; eapply split_on_nonnil; eassumption|].
    destruct t as [|y t'].
    + cbn in IH |- *. rewrite IH. reflexivity.
    + rewrite intercalate_cons2 in IH |- *. cbn [app] in IH |- *. rewrite IH. reflexivity.
Qed.

Lemma m_parse_from_filepath_cases s :
  m_parse_from_filepath s = m_empty \/
  exists h n m t, fq_parts h n m t /\ m_parse_from_filepath s = MkM h n m t /\ s = intercalate [c_slash] [h; n; m; t].
Proof.
  unfold m_parse_from_filepath. pose proof (intercalate_split c_slash s) as Hs.
  destruct (split_on c_slash s) as [|a [|b [|c [|d [|e l]]]]]; try (left; reflexivity).
  cbv zeta. destruct (m_is_fq (MkM a b c d)) eqn:E; [|left; reflexivity].
  right. exists a, b, c, d. apply m_is_fq_parts in E. split; [exact E|]. split; [reflexivity|].
  symmetry. exact Hs.
Qed.

Lemma m_parse_from_filepath_roundtrip h n m t :
  fq_parts h n m t -> m_parse_from_filepath (intercalate [c_slash] [h; n; m; t]) = MkM h n m t.
Proof.
  intro H. unfold m_parse_from_filepath.
  rewrite split_on_intercalate; [|discriminate|apply safe_no_slash, fq_parts_safe; assumption].
  rewrite (proj2 (m_is_fq_parts h n m t) H). reflexivity.
Qed.

(** * digests *)
Lemma list_ind2 {A} (P : list A -> Prop) :
  P [] -> (forall a, P [a]) -> (forall a b r, P r -> P (a :: b :: r)) -> forall l, P l.
Proof.
  intros H0 H1 H2. fix IH 1. intros [|a [|b r]]; [exact H0|apply H1|apply H2, IH].
Qed.

Lemma hex_val_some a x : hex_val a = Some x -> is_hex a = true /\ x < 16 /\ hex_digit x = fold_byte a.
Proof.
  unfold hex_val, hex_digit. intro H. unf.
  destruct ((48 <=? a) && (a <=? 57)) eqn:E1.
  - injection H as <-. repeat split; try lia. destruct (a - 48 <? 10) eqn:E; destruct ((65 <=? a) && (a <=? 90)) eqn:E2; lia.
  - destruct ((97 <=? a) && (a <=? 102)) eqn:E2.
    + injection H as <-. repeat split; try lia. destruct (a - 87 <? 10) eqn:E; destruct ((65 <=? a) && (a <=? 90)) eqn:E3; lia.
    + destruct ((65 <=? a) && (a <=? 70)) eqn:E3; [|discriminate].
      injection H as <-. repeat split; try lia. destruct (a - 55 <? 10) eqn:E; destruct ((65 <=? a) && (a <=? 90)) eqn:E4; lia.
Qed.

Lemma hex_val_total a : is_hex a = true -> exists x, hex_val a = Some x.
Proof.
  unfold hex_val. intro H. unf.
  destruct ((48 <=? a) && (a <=? 57)) eqn:E1; [eexists; reflexivity|].
  destruct ((97 <=? a) && (a <=? 102)) eqn:E2; [eexists; reflexivity|].
  destruct ((65 <=? a) && (a <=? 70)) eqn:E3; [eexists; reflexivity|]. lia.
Qed.

Lemma div16 x y : y < 16 -> (16 * x + y) / 16 = x /\ (16 * x + y) mod 16 = y.
Proof.
  intro H. split.
  - rewrite N.mul_comm, N.div_add_l by discriminate. rewrite N.div_small by assumption. lia.
  - rewrite N.add_comm, N.mul_comm, N.mod_add by discriminate. apply N.mod_small. assumption.
Qed.

Lemma hex_decode_cons2 a b r :
  hex_decode (a :: b :: r) =
  match hex_val a, hex_val b, hex_decode r with
  | Some x, Some y, Some t => Some ((16 * x + y) :: t)
  | _, _, _ => None
  end.
Proof. reflexivity. Qed.

Lemma hex_encode_cons x t : hex_encode (x :: t) = hex_digit (x / 16) :: hex_digit (x mod 16) :: hex_encode t.
Proof. reflexivity. Qed.

(** hex.Decode succeeds exactly on hex digits, and "%x" of the result is the input in lower case *)
Lemma hex_decode_some x d :
  hex_decode x = Some d -> forallb is_hex x = true /\ hex_encode d = map fold_byte x /\ length x = (2 * length d)%nat.
Proof.
  revert d. induction x as [| a | a b r IH] using list_ind2; intros d H.
  - injection H as <-. repeat split.
  - discriminate.
  - rewrite hex_decode_cons2 in H. destruct (hex_val a) as [xa|] eqn:Ea; [|discriminate]. destruct (hex_val b) as [xb|] eqn:Eb; [|discriminate].
    destruct (hex_decode r) as [t|] eqn:Er; [|discriminate].
    remember (16 * xa + xb) as z eqn:Ez. injection H as <-.
    destruct (IH t eq_refl) as (H1 & H2 & H3).
    apply hex_val_some in Ea as (Ha1 & Ha2 & Ha3). apply hex_val_some in Eb as (Hb1 & Hb2 & Hb3).
    destruct (div16 xa xb Hb2) as [D1 D2]. rewrite <- Ez in D1, D2.
    repeat split.
    + cbn [forallb]. rewrite Ha1, Hb1, H1. reflexivity.
    + rewrite hex_encode_cons, D1, D2, Ha3, Hb3. cbn [map]. f_equal. f_equal. exact H2.
    + cbn [length]. lia.
Qed.

Lemma hex_decode_total x : forallb is_hex x = true -> Nat.even (length x) = true -> exists d, hex_decode x = Some d.
Proof.
  induction x as [| a | a b r IH] using list_ind2; intros H He.
  - eexists; reflexivity.
  - discriminate.
  - cbn [forallb] in H. apply andb_true_iff in H as [Ha H]. apply andb_true_iff in H as [Hb H].
    destruct (hex_val_total a Ha) as [xa Ea]. destruct (hex_val_total b Hb) as [xb Eb].
    destruct (IH H He) as [t Et]. rewrite hex_decode_cons2, Ea, Eb, Et. eexists; reflexivity.
Qed.

(** the shape of an accepted digest string *)
Definition digest_shape (d : str) (hexs : str) : Prop :=
  exists sep, d = s_sha256 ++ sep :: hexs /\ (sep = c_colon \/ sep = c_dash) /\ length hexs = 64%nat /\ forallb is_hex hexs = true.

Lemma digest_re_shape d : digest_re_match d = true <-> exists hexs, digest_shape d hexs.
Proof.
  unfold digest_re_match, digest_shape. split.
  - intro H. apply andb_true_iff in H as [Hp H]. apply prefixb_spec in Hp as [r ->].
    change (skipn 6 (s_sha256 ++ r)) with r in H. destruct r as [|sep hexs]; [discriminate|].
    apply andb_true_iff in H as [H H3]. apply andb_true_iff in H as [H1 H2].
    exists hexs, sep. repeat split; [unf; lia|apply Nat.eqb_eq; assumption|assumption].
  - intros (hexs & sep & -> & Hsep & Hl & Hh).
    assert (Hp : prefixb s_sha256 (s_sha256 ++ sep :: hexs) = true) by (apply prefixb_spec; eexists; reflexivity).
    rewrite Hp. change (skipn 6 (s_sha256 ++ sep :: hexs)) with (sep :: hexs). cbn [andb].
    rewrite Hh, (proj2 (Nat.eqb_eq _ _) Hl). destruct Hsep as [-> | ->]; reflexivity.
Qed.

Lemma sha256_no_sep : none_sat is_colon_or_dash s_sha256.
Proof. unfold s_sha256. repeat constructor. Qed.

(** blob.ParseDigest accepts exactly the strings of the grammar ^sha256[:-][0-9a-fA-F]{64}$ ... *)
Lemma b_parse_digest_ok s sum :
  b_parse_digest s = Ok sum -> exists hexs, digest_shape s hexs /\ hex_encode sum = map fold_byte hexs /\ length sum = 32%nat.
Proof.
  unfold b_parse_digest. pose proof (cut_first_by_spec is_colon_or_dash s) as Hc.
  destruct (cut_first_by is_colon_or_dash s) as [[[prefix sep] hexs]|]; [|discriminate].
  destruct Hc as (-> & Hsep & _).
  destruct (eqb_str prefix s_sha256) eqn:Ep; [|discriminate]. apply eqb_str_spec in Ep. subst prefix. cbn [negb orb].
  destruct (length hexs =? 64)%nat eqn:El; [|discriminate]. apply Nat.eqb_eq in El. cbn [negb].
  destruct (hex_decode hexs) as [d|] eqn:Ed; [|discriminate]. intros [= <-].
  apply hex_decode_some in Ed as (H1 & H2 & H3).
  exists hexs. split; [|split; [exact H2|lia]].
  exists sep. repeat split; try assumption. unf. lia.
Qed.

(** ... and every such string *)
Lemma b_parse_digest_total s hexs : digest_shape s hexs -> exists sum, b_parse_digest s = Ok sum.
Proof.
  intros (sep & -> & Hsep & Hl & Hh). unfold b_parse_digest.
  rewrite cut_first_by_app; [|exact sha256_no_sep|destruct Hsep as [-> | ->]; reflexivity].
  rewrite eqb_str_refl. cbn [negb orb]. rewrite (proj2 (Nat.eqb_eq _ _) Hl). cbn [negb].
  destruct (hex_decode_total hexs Hh) as [d Hd]; [rewrite Hl; reflexivity|]. rewrite Hd. eexists; reflexivity.
Qed.

(** both digest gates (regular expression of GetBlobsPath, blob.ParseDigest) accept the same strings *)
Lemma digest_gates_agree s : digest_re_match s = true <-> exists sum, b_parse_digest s = Ok sum.
Proof.
  rewrite digest_re_shape. split.
  - intros [hexs H]. eapply b_parse_digest_total; eassumption.
  - intros [sum H]. apply b_parse_digest_ok in H as (hexs & H & _). exists hexs. exact H.
Qed.

Lemma is_hex_facts c : is_hex c = true -> c <> c_slash /\ c <> c_colon /\ c <> c_dot.
Proof. intro H. unf. lia. Qed.

(** the file name of a blob: "sha256-" followed by hex digits is a path element that Clean keeps *)
Lemma blob_file_safe hexs : forallb is_hex hexs = true -> safe_comp (s_sha256 ++ c_dash :: hexs).
Proof.
  intro H. unfold safe_comp, s_sha256, s_dot, s_dotdot. cbn [app]. repeat split; try discriminate.
  intro Hin. cbn in Hin. repeat (destruct Hin as [Hin|Hin]; [discriminate Hin|]).
  eapply forallb_forall in H; [|exact Hin]. apply is_hex_facts in H as [H _]. congruence.
Qed.

Lemma replace_colon_digest sep hexs :
  (sep = c_colon \/ sep = c_dash) -> forallb is_hex hexs = true ->
  replace_byte c_colon c_dash (s_sha256 ++ sep :: hexs) = s_sha256 ++ c_dash :: hexs.
Proof.
  intros Hsep Hh. unfold replace_byte. rewrite map_app. cbn [map]. f_equal.
  f_equal; [destruct Hsep as [-> | ->]; reflexivity|].
  induction hexs as [|c r IH]; [reflexivity|]. cbn [forallb] in Hh. apply andb_true_iff in Hh as [Hc Hr].
  cbn [map]. rewrite IH by assumption. apply is_hex_facts in Hc as (_ & Hc & _).
  destruct (c =? c_colon) eqn:E; [apply N.eqb_eq in E; congruence|reflexivity].
Qed.

(** filepath.Join(root, x, "") *)
Lemma fp_join_trailing_empty root x : safe_comp x -> fp_join [root; x; []] = path_append (fp_clean root) [x].
Proof.
  intro Hx. pose proof (safe_head_not_slash x Hx) as Hh. pose proof Hx as (Hne & _).
  assert (Hsplit : split_on c_slash (x ++ [c_slash]) = [x; []]).
  { rewrite split_on_app_sep, split_on_nosep by (destruct Hx as (_ & _ & _ & H); exact H). reflexivity. }
  assert (Hfold : forall st, fold_left clean_step [x; []] st = MkCS (cs_rooted st) (rev [x] ++ cs_stack st)).
  { intro st. cbn [fold_left]. rewrite (clean_step_safe st x) by assumption. reflexivity. }
  unfold fp_join. destruct root as [|c r]; cbn [drop_empty_prefix].
  - destruct x as [|a b]; [congruence|]. cbn [drop_empty_prefix].
    change (intercalate [c_slash] [a :: b; []]) with ((a :: b) ++ [c_slash]).
    unfold fp_clean at 1, clean_state. rewrite Hsplit, Hfold. cbn [cs_rooted cs_stack rev app].
    change (fp_is_abs (a :: b ++ [c_slash])) with (fp_is_abs (a :: b)). rewrite Hh. reflexivity.
  - change (intercalate [c_slash] [c :: r; x; []]) with ((c :: r) ++ c_slash :: (x ++ [c_slash])).
    unfold fp_clean at 1. rewrite clean_state_app by discriminate. rewrite Hsplit, Hfold.
    apply (render_push (clean_state (c :: r)) [x]); [apply clean_state_ok|discriminate].
Qed.

Lemma fp_join_under1 root x y :
  safe_comp x -> safe_comp y -> fp_join [root; x; y] = path_append (fp_clean root) [x; y].
Proof.
  intros Hx Hy. apply (fp_join_under2 root x [y]); [assumption|constructor; [assumption|constructor]|discriminate].
Qed.

(** GetBlobsPath, for every root and every digest string *)
Lemma get_blobs_path_cases root d :
  (get_blobs_path root d = Err EInvalidDigest /\ d <> [] /\ digest_re_match d = false) \/
  (d = [] /\ get_blobs_path root d = Ok (path_append (fp_clean root) [s_blobs])) \/
  (exists hexs, digest_shape d hexs /\
                get_blobs_path root d = Ok (path_append (fp_clean root) [s_blobs; s_sha256 ++ c_dash :: hexs])).
Proof.
  unfold get_blobs_path. destruct d as [|c r].
  - right; left. split; [reflexivity|]. cbn [nonempty andb replace_byte map]. rewrite fp_join_trailing_empty by exact blobs_safe. reflexivity.
  - cbn [nonempty andb]. destruct (digest_re_match (c :: r)) eqn:E; cbn [negb].
    + right; right. apply digest_re_shape in E as [hexs Hs]. exists hexs. split; [exact Hs|].
      destruct Hs as (sep & -> & Hsep & Hl & Hh). rewrite replace_colon_digest by assumption.
      rewrite fp_join_under1; [reflexivity|exact blobs_safe|apply blob_file_safe; assumption].
    + left. repeat split; discriminate.
Qed.

(** DiskCache.GetFile for an absolute cache directory *)
Lemma b_get_file_abs cwd dir s sum :
  fp_is_abs dir = true -> b_parse_digest s = Ok sum ->
  exists hexs, digest_shape s hexs /\
               b_get_file cwd dir sum = path_append (fp_clean dir) [s_blobs; s_sha256 ++ c_dash :: map fold_byte hexs].
Proof.
  intros Ha Hp. apply b_parse_digest_ok in Hp as (hexs & Hs & He & _). exists hexs. split; [exact Hs|].
  destruct Hs as (_ & _ & _ & _ & Hh).
  assert (Hh' : forallb is_hex (map fold_byte hexs) = true).
  { apply forallb_forall. intros c Hc. apply in_map_iff in Hc as (c0 & <- & Hc0). eapply forallb_forall in Hh; [|exact Hc0]. unf. brk; lia. }
  unfold b_get_file. cbn [app]. rewrite He.
  pose proof (blob_file_safe _ Hh') as Hsafe.
  rewrite fp_join_under1 by (try exact blobs_safe; assumption).
  destruct (fp_under_abs_clean dir (s_blobs :: [s_sha256 ++ c_dash :: map fold_byte hexs]) Ha) as [H1 H2];
    [constructor; [exact blobs_safe|constructor; [assumption|constructor]]|discriminate|].
  set (p := path_append (fp_clean dir) _) in *. unfold fp_abs. rewrite H1. exact H2.
Qed.

(** * the blob cache: nameToPath, manifestPath *)
Lemma n_is_fq_parts h n m t : n_is_fq (MkN h n m t) = true <-> fq_parts h n m t.
Proof. rewrite <- fq_same. apply m_is_fq_parts. Qed.

Lemma b_name_to_path_cases name :
  b_name_to_path name = Err EInvalidName \/
  exists h n m t, fq_parts h n m t /\ n_parse name = MkN h n m t /\
                  b_name_to_path name = Ok (intercalate [c_slash] [h; n; m; t]).
Proof.
  unfold b_name_to_path. cbv zeta. destruct (n_parse name) as [h n m t] eqn:En.
  destruct (n_is_fq (MkN h n m t)) eqn:E; [right|left; reflexivity].
  apply n_is_fq_parts in E. exists h, n, m, t. split; [exact E|]. split; [reflexivity|]. cbn [nH nN nM nT].
  rewrite fp_join_safe; [reflexivity|apply fq_parts_safe; assumption|discriminate].
Qed.

Lemma fp_join_head x comps :
  safe_comp x -> Forall safe_comp comps -> comps <> [] ->
  fp_join [x; intercalate [c_slash] comps] = intercalate [c_slash] (x :: comps).
Proof.
  intros Hx Hs Hne. pose proof Hx as (Hx0 & _). unfold fp_join. destruct x as [|a b]; [congruence|].
  cbn [drop_empty_prefix]. destruct comps as [|y t]; [congruence|].
  change (intercalate [c_slash] [a :: b; intercalate [c_slash] (y :: t)]) with (intercalate [c_slash] ((a :: b) :: y :: t)).
  apply fp_clean_safe; [constructor; assumption|discriminate].
Qed.

(** a link as yielded by c.links(): "manifests/a/b/c/d" with four directory entries *)
Definition link_wf (l : str) : Prop :=
  exists a b c d, Forall safe_comp [a; b; c; d] /\ l = intercalate [c_slash] [s_manifests; a; b; c; d].

Lemma b_manifest_path_cases dir links name :
  Forall link_wf links ->
  b_manifest_path dir links name = Err EInvalidName \/
  exists a b c d, Forall safe_comp [a; b; c; d] /\
                  b_manifest_path dir links name = Ok (path_append (fp_clean dir) [s_manifests; a; b; c; d]).
Proof.
  intro Hl. unfold b_manifest_path. destruct (b_name_to_path_cases name) as [E|(h & n & m & t & Hfq & _ & E)]; rewrite E; [left; reflexivity|].
  right. pose proof (fq_parts_safe _ _ _ _ Hfq) as Hs. cbv zeta.
  rewrite (fp_join_head s_manifests [h; n; m; t]) by (try discriminate; try assumption; exact manifests_safe).
  destruct (find _ links) as [l|] eqn:Ef.
  - apply find_some in Ef as [Hin _]. rewrite Forall_forall in Hl. destruct (Hl _ Hin) as (a & b & c & d & Hsafe & ->).
    exists a, b, c, d. split; [assumption|].
    rewrite (fp_join_under dir (s_manifests :: [a; b; c; d])); [reflexivity|constructor; [exact manifests_safe|assumption]|discriminate].
  - exists h, n, m, t. split; [assumption|].
    rewrite (fp_join_under dir (s_manifests :: [h; n; m; t])); [reflexivity|constructor; [exact manifests_safe|assumption]|discriminate].
Qed.
