(** C13 - model.ParseName on strings that differ only in letter case: the parsed names are case variants of each
    other (hence valid alike and EqualFold).  ParseNameBare does not literally commute with folding (the "!MISSING!"
    marker is inserted unfolded), so the statement is relational: [rel a a'] = "a' is a, or a' is a folded". *)
From Coq Require Import List NArith ZArith Bool Arith Lia ZifyBool ZifyNat ZifyN.
From V Require Import Common.Bytes Names.Path Names.Model Names.PathProofs Names.Proofs Names.Confine Names.Fold.
Import ListNotations.
Open Scope N_scope.

Definition rel (a a' : str) : Prop := a' = fold_str a \/ a' = a.

Lemma rel_cv a a' : rel a a' -> cv a' a.
Proof. intros [-> | ->]; [apply cv_fold|apply cv_refl]. Qed.

Lemma rel_refl a : rel a a.
Proof. right; reflexivity. Qed.

Lemma rel_length a a' : rel a a' -> length a' = length a.
Proof. intros [-> | ->]; [apply map_length|reflexivity]. Qed.

Lemma fold_eqb_colon x : N.eqb c_colon (fold_byte x) = N.eqb c_colon x.
Proof. rewrite (N.eqb_sym c_colon), (N.eqb_sym c_colon x). apply fold_sep_colon. Qed.

(** cutLast / cutPromised / LastIndex on the folded string *)
Lemma cut_last_fold c s :
  (forall x, N.eqb c (fold_byte x) = N.eqb c x) ->
  cut_last c (fold_str s) = let '(b, a, ok) := cut_last c s in (fold_str b, fold_str a, ok).
Proof.
  intro Hc. unfold cut_last. rewrite (cut_last_by_fold (N.eqb c) s Hc).
  destruct (cut_last_by (N.eqb c) s) as [[[b d] a]|]; reflexivity.
Qed.

Lemma last_index_fold c s : (forall x, N.eqb c (fold_byte x) = N.eqb c x) -> last_index c (fold_str s) = last_index c s.
Proof.
  intro Hc. unfold last_index. rewrite (cut_last_by_fold (N.eqb c) s Hc).
  destruct (cut_last_by (N.eqb c) s) as [[[b d] a]|]; [|reflexivity]. unfold fold_str. rewrite map_length. reflexivity.
Qed.

Lemma or_str_rel b : rel (or_str b s_missing) (or_str (fold_str b) s_missing).
Proof. destruct b as [|x r]; [right; reflexivity|left; reflexivity]. Qed.

Lemma cut_promised_rel c s s' :
  (forall x, N.eqb c (fold_byte x) = N.eqb c x) -> rel s s' ->
  let '(b, a, ok) := cut_promised c s in
  let '(b', a', ok') := cut_promised c s' in
  rel b b' /\ rel a a' /\ ok' = ok.
Proof.
  intros Hc [-> | ->].
  - unfold cut_promised. rewrite (cut_last_fold c s Hc). destruct (cut_last c s) as [[b a] ok].
    destruct ok.
    + repeat split; apply or_str_rel.
    + repeat split; left; reflexivity.
  - destruct (cut_promised c s) as [[b a] ok]. repeat split; apply rel_refl.
Qed.

Lemma fe58 x : (58 =? fold_byte x) = (58 =? x).
Proof. exact (fold_eqb_colon x). Qed.
Lemma fe47 x : (47 =? fold_byte x) = (47 =? x).
Proof. exact (fold_eqb_slash x). Qed.

(** strings.Cut(s, "://") *)
Lemma prefixb_sep_fold s : prefixb s_scheme_sep (fold_str s) = prefixb s_scheme_sep s.
Proof.
  unfold s_scheme_sep. destruct s as [|a [|b [|c r]]]; cbn [fold_str map prefixb]; try reflexivity.
  - rewrite (fe58 a). reflexivity.
  - rewrite (fe58 a), (fe47 b). reflexivity.
  - rewrite (fe58 a), (fe47 b), (fe47 c). reflexivity.
Qed.

Lemma index_from_fold i s : index_from i (fold_str s) s_scheme_sep = index_from i s s_scheme_sep.
Proof.
  revert i; induction s as [|x s IH]; intro i; [reflexivity|].
  cbn [index_from]. change (fold_str (x :: s)) with (fold_byte x :: fold_str s).
  cbn [index_from]. change (fold_byte x :: fold_str s) with (fold_str (x :: s)). rewrite prefixb_sep_fold.
  destruct (prefixb s_scheme_sep (x :: s)); [reflexivity|apply IH].
Qed.

Lemma host_rel s s' :
  rel s s' ->
  rel (match cut_sub s_scheme_sep s with Some (_, after) => after | None => s end)
      (match cut_sub s_scheme_sep s' with Some (_, after) => after | None => s' end).
Proof.
  intros [-> | ->]; [|apply rel_refl]. unfold cut_sub, index_of. rewrite index_from_fold.
  destruct (index_from 0 s s_scheme_sep) as [i|]; [|left; reflexivity].
  left. unfold fold_str. rewrite skipn_map. reflexivity.
Qed.

Definition rel_m (a a' : mname) : Prop := rel (mH a) (mH a') /\ rel (mN a) (mN a') /\ rel (mM a) (mM a') /\ rel (mT a) (mT a').

Lemma m_parse_bare_rel s : rel_m (m_parse_bare s) (m_parse_bare (fold_str s)).
Proof.
  unfold m_parse_bare.
  rewrite (last_index_fold c_colon s fold_eqb_colon), (last_index_fold c_slash s fold_eqb_slash).
  (* the tag *)
  assert (H1 : exists s1 t s1' t', rel s1 s1' /\ rel t t' /\
             (if (last_index c_colon s >? last_index c_slash s)%Z then let '(b, a, _) := cut_promised c_colon s in (b, a) else (s, [])) = (s1, t) /\
             (if (last_index c_colon s >? last_index c_slash s)%Z then let '(b, a, _) := cut_promised c_colon (fold_str s) in (b, a) else (fold_str s, [])) = (s1', t')).
  { destruct (last_index c_colon s >? last_index c_slash s)%Z.
    - pose proof (cut_promised_rel c_colon s (fold_str s) fold_eqb_colon (or_introl eq_refl)) as H.
      destruct (cut_promised c_colon s) as [[b a] ok]. destruct (cut_promised c_colon (fold_str s)) as [[b' a'] ok'].
      destruct H as (Hb & Ha & _). exists b, a, b', a'. repeat split; assumption.
    - exists s, [], (fold_str s), []. repeat split; [left; reflexivity|apply rel_refl]. }
  destruct H1 as (s1 & t & s1' & t' & R1 & Rt & -> & ->).
  (* the model *)
  pose proof (cut_promised_rel c_slash s1 s1' fold_eqb_slash R1) as H2.
  destruct (cut_promised c_slash s1) as [[s2 mdl] p1]. destruct (cut_promised c_slash s1') as [[s2' mdl'] p1'].
  destruct H2 as (R2 & Rm & ->).
  destruct p1; cbn [negb]; [|repeat split; cbn [mH mN mM mT]; try apply rel_refl; assumption].
  (* the namespace *)
  pose proof (cut_promised_rel c_slash s2 s2' fold_eqb_slash R2) as H3.
  destruct (cut_promised c_slash s2) as [[s3 ns] p2]. destruct (cut_promised c_slash s2') as [[s3' ns'] p2'].
  destruct H3 as (R3 & Rn & ->).
  destruct p2; cbn [negb]; [|repeat split; cbn [mH mN mM mT]; try apply rel_refl; assumption].
  (* the host *)
  repeat split; cbn [mH mN mM mT]; try assumption. apply host_rel. exact R3.
Qed.

Lemma or_str_cv a a' b : cv a' a -> cv (or_str a' b) (or_str a b).
Proof.
  intro H. pose proof (cv_length _ _ H) as Hl. destruct a, a'; cbn in Hl; try discriminate; [apply cv_refl|exact H].
Qed.

(** model.ParseName on case variants *)
Lemma m_parse_cv s1 s2 : cv s1 s2 -> cv_m (m_parse s1) (m_parse s2).
Proof.
  intro H.
  assert (Hb : forall s, cv_m (m_parse (fold_str s)) (m_parse s)).
  { intro s. destruct (m_parse_bare_rel s) as (R1 & R2 & R3 & R4). unfold m_parse, m_merge. cbn [mH mN mM mT].
    repeat split; cbn [mH mN mM mT]; try apply or_str_cv; apply rel_cv; assumption. }
  assert (E : m_parse (fold_str s1) = m_parse (fold_str s2)) by (unfold cv in H; rewrite H; reflexivity).
  destruct (Hb s1) as (A1 & A2 & A3 & A4). destruct (Hb s2) as (B1 & B2 & B3 & B4). rewrite E in A1, A2, A3, A4.
  unfold cv in *. repeat split; congruence.
Qed.

Lemma m_parse_cv_valid s1 s2 :
  cv s1 s2 -> m_is_valid (m_parse s1) = m_is_valid (m_parse s2) /\
              (m_is_valid (m_parse s2) = true -> m_equal_fold (m_parse s1) (m_parse s2) = true).
Proof.
  intro H. pose proof (m_parse_cv s1 s2 H) as Hcv. split; [apply cv_m_fq; exact Hcv|].
  intro Hv. apply cv_m_equal_fold; assumption.
Qed.
