(** C13 - the statements of Properties_C13.v that need more than a reference to one lemma are assembled here. *)
From Coq Require Import List NArith ZArith Bool Arith Lia ZifyBool ZifyNat ZifyN.
From V Require Import Common.Bytes Names.Path Names.Model Names.PathProofs Names.Proofs Names.Confine Names.Fold Names.Existing.
Import ListNotations.
Open Scope N_scope.

Lemma is_hex_fold c : is_hex c = true -> is_hex (fold_byte c) = true.
Proof. unfold is_hex, is_digit, fold_byte, is_upper. intro H. destruct ((65 <=? c) && (c <=? 90)) eqn:E; lia. Qed.

Lemma forallb_is_hex_fold hexs : forallb is_hex hexs = true -> forallb is_hex (map fold_byte hexs) = true.
Proof.
  intro Hh. apply forallb_forall. intros c Hc. apply in_map_iff in Hc as (c0 & <- & Hc0).
  eapply forallb_forall in Hh; [|exact Hc0]. apply is_hex_fold. exact Hh.
Qed.

Lemma b_parse_digest_no_panic s : b_parse_digest s <> Panic.
Proof.
  unfold b_parse_digest. destruct (cut_first_by is_colon_or_dash s) as [[[p x] y]|]; [|discriminate].
  destruct (negb (eqb_str p s_sha256) || negb (length y =? 64)%nat); [discriminate|]. destruct (hex_decode y); discriminate.
Qed.

Lemma main_C13_filepath : forall root n,
  (m_is_fq n = false /\ m_filepath n = Panic) \/
  (fq_parts (mH n) (mN n) (mM n) (mT n) /\
   exists fp, m_filepath n = Ok fp /\ fp = intercalate [c_slash] [mH n; mN n; mM n; mT n] /\
              fp_join [root; s_manifests; fp] = path_append (fp_clean root) [s_manifests; mH n; mN n; mM n; mT n]).
Proof.
  intros root n. destruct (m_is_fq n) eqn:E; [right|left; split; [reflexivity|apply m_filepath_refuses; assumption]].
  destruct n as [h ns m t]. pose proof (proj1 (m_is_fq_parts _ _ _ _) E) as P. split; [exact P|].
  eexists. split; [apply m_filepath_fq; exact P|]. split; [reflexivity|].
  apply fp_join_under2; [exact manifests_safe|apply fq_parts_safe; exact P|discriminate].
Qed.

Lemma main_C13_confined_digest : forall root d,
  (get_blobs_path root d = Err EInvalidDigest /\ d <> [] /\ digest_re_match d = false) \/
  (d = [] /\ get_blobs_path root d = Ok (path_append (fp_clean root) [s_blobs])) \/
  (exists hexs, digest_shape d hexs /\ safe_comp (s_sha256 ++ c_dash :: hexs) /\
                get_blobs_path root d = Ok (path_append (fp_clean root) [s_blobs; s_sha256 ++ c_dash :: hexs])).
Proof.
  intros root d. destruct (get_blobs_path_cases root d) as [H|[H|(hexs & Hs & H)]]; [left; exact H|right; left; exact H|].
  right; right. exists hexs. split; [exact Hs|]. split; [|exact H].
  destruct Hs as (_ & _ & _ & _ & Hh). apply blob_file_safe. exact Hh.
Qed.

Lemma main_C13_confined_cache_blob : forall cwd dir s sum,
  fp_is_abs dir = true -> b_parse_digest s = Ok sum ->
  exists hexs, digest_shape s hexs /\ safe_comp (s_sha256 ++ c_dash :: map fold_byte hexs) /\
               b_get_file cwd dir sum = path_append (fp_clean dir) [s_blobs; s_sha256 ++ c_dash :: map fold_byte hexs].
Proof.
  intros cwd dir s sum Ha Hp. destruct (b_get_file_abs cwd dir s sum Ha Hp) as (hexs & Hs & H).
  exists hexs. split; [exact Hs|]. split; [|exact H].
  destruct Hs as (_ & _ & _ & _ & Hh). apply blob_file_safe. apply forallb_is_hex_fold. exact Hh.
Qed.

Lemma main_C13_reject_or_confined : forall (root s : str),
  (* as a name: ParseModelPath + GetManifestPath *)
  ((exists e, mp_manifest_path root (mp_parse s) = Err e) \/
   exists h n m t, fq_parts h n m t /\ Forall safe_comp [s_manifests; h; n; m; t] /\
                   mp_manifest_path root (mp_parse s) = Ok (path_append (fp_clean root) [s_manifests; h; n; m; t])) /\
  (* as a name: model.ParseName + IsValid + Filepath *)
  ((m_is_valid (m_parse s) = false /\ m_filepath (m_parse s) = Panic) \/
   exists h n m t, fq_parts h n m t /\ m_parse s = MkM h n m t /\
                   m_filepath (m_parse s) = Ok (intercalate [c_slash] [h; n; m; t])) /\
  (* as a name: names.Parse + nameToPath + manifestPath of the blob cache *)
  (forall links, Forall link_wf links ->
     b_manifest_path root links s = Err EInvalidName \/
     exists a b c d, Forall safe_comp [s_manifests; a; b; c; d] /\
                     b_manifest_path root links s = Ok (path_append (fp_clean root) [s_manifests; a; b; c; d])) /\
  (* as a name relative path *)
  (m_parse_from_filepath s = m_empty \/
   exists h n m t, fq_parts h n m t /\ m_parse_from_filepath s = MkM h n m t /\ s = intercalate [c_slash] [h; n; m; t]) /\
  (* as a digest: GetBlobsPath *)
  ((exists e, get_blobs_path root s = Err e) \/
   (s = [] /\ get_blobs_path root s = Ok (path_append (fp_clean root) [s_blobs])) \/
   exists file, safe_comp file /\ get_blobs_path root s = Ok (path_append (fp_clean root) [s_blobs; file])) /\
  (* as a digest: blob.ParseDigest + GetFile *)
  ((exists e, b_parse_digest s = Err e) \/
   exists sum, b_parse_digest s = Ok sum /\
               (fp_is_abs root = true -> forall cwd, exists file, safe_comp file /\
                                                                  b_get_file cwd root sum = path_append (fp_clean root) [s_blobs; file])).
Proof.
  intros root s. repeat split.
  - destruct (mp_manifest_path_cases root (mp_parse s)) as [[H _]|[P H]]; [left; eexists; exact H|].
    right. do 4 eexists. split; [exact P|]. split; [|exact H].
    constructor; [exact manifests_safe|apply fq_parts_safe; exact P].
  - unfold m_is_valid. destruct (m_is_fq (m_parse s)) eqn:E; [right|left; split; [reflexivity|apply m_filepath_refuses; exact E]].
    destruct (m_parse s) as [h n m t]. apply m_is_fq_parts in E. exists h, n, m, t.
    split; [exact E|]. split; [reflexivity|apply m_filepath_fq; exact E].
  - intros links Hl. destruct (b_manifest_path_cases root links s Hl) as [H|(a & b & c & d & Hs & H)]; [left; exact H|].
    right. exists a, b, c, d. split; [constructor; [exact manifests_safe|exact Hs]|exact H].
  - exact (m_parse_from_filepath_cases s).
  - destruct (get_blobs_path_cases root s) as [[H _]|[H|(hexs & Hs & H)]]; [left; eexists; exact H|right; left; exact H|].
    right; right. eexists. split; [|exact H]. destruct Hs as (_ & _ & _ & _ & Hh). apply blob_file_safe. exact Hh.
  - destruct (b_parse_digest s) as [sum|e|] eqn:E; [right|left; eexists; reflexivity|exfalso; exact (b_parse_digest_no_panic s E)].
    exists sum. split; [reflexivity|]. intros Ha cwd.
    destruct (b_get_file_abs cwd root s sum Ha E) as (hexs & Hs & H). eexists. split; [|exact H].
    apply blob_file_safe. destruct Hs as (_ & _ & _ & _ & Hh). apply forallb_is_hex_fold. exact Hh.
Qed.

Lemma main_C13_roundtrip_names_unrepaired_refuted : ~ (forall n, n_is_valid_unrepaired n = true -> n_parse (n_string n) = n).
Proof.
  intro H. destruct n_roundtrip_unrepaired_witness as [Hv Hn]. apply Hn. apply H. exact Hv.
Qed.

Lemma main_C13_roundtrip_names_unrepaired_partial : forall n,
  n_is_valid_unrepaired n = true -> nonempty (nH n) && negb (nonempty (nN n)) = false -> n_parse (n_string n) = n.
Proof.
  intros n Hv Hg. apply n_roundtrip. rewrite n_is_valid_repair, Hg, Hv. reflexivity.
Qed.

Lemma main_C13_names_parse_total : forall s acc, n_parse_loop (S (length s)) s acc <> None.
Proof. intros s acc. apply n_parse_loop_total. apply Nat.lt_succ_diag_r. Qed.

Lemma main_C13_cross_parser : forall h n m t,
  m_is_fq (MkM h n m t) = n_is_fq (MkN h n m t) /\
  (m_is_fq (MkM h n m t) = true ->
     n_parse (m_string (MkM h n m t)) = MkN h n m t /\ m_parse (n_string (MkN h n m t)) = MkM h n m t).
Proof.
  intros h n m t. split; [apply fq_same|]. intro H. split; [apply cross_m_to_n; exact H|].
  apply cross_n_to_m. rewrite <- fq_same. exact H.
Qed.

Lemma main_C13_casefold_accepted_alike : forall a b,
  cv_m a b -> m_is_valid a = m_is_valid b /\ (m_is_valid b = true -> m_equal_fold a b = true).
Proof.
  intros a b H. split; [apply cv_m_fq; exact H|]. intro Hb. apply cv_m_equal_fold; assumption.
Qed.

Lemma main_C13_casefold_legacy_unrepaired_refuted :
  ~ (forall existing n, Forall (fun e => m_is_fq e = true) existing -> m_is_fq n = true ->
       (exists e, In e existing /\ m_equal_fold e n = true) -> In (get_existing_name_legacy existing n) existing).
Proof.
  intro H. destruct legacy_witness as (Fa & Fb & _ & Hn & _). apply Hn. apply H.
  - repeat constructor; assumption.
  - exact Fa.
  - eexists. split; [left; reflexivity|vm_compute; reflexivity].
Qed.

(** parseNameExtended: an accepted extended name has a supported scheme and is either digest-only (the zero Name)
    or fully qualified *)
Lemma main_C13_extended_name mask s scheme n d :
  r_parse_name_extended mask s = Ok (scheme, n, d) ->
  r_supported_scheme scheme = true /\ ((n = n_empty /\ d <> None) \/ n_is_fq n = true).
Proof.
  unfold r_parse_name_extended, r_parse_name. destruct (r_split_extended s) as [[sc name] digest].
  destruct (r_supported_scheme (or_str sc s_https)) eqn:Es; cbn [negb]; [|discriminate].
  destruct (nonempty digest).
  - destruct (b_parse_digest digest) as [sum|e|]; try discriminate.
    destruct (nonempty name).
    + destruct (n_is_fq (n_merge (n_parse name) mask)) eqn:Ef; [|discriminate].
      intros [= <- <- <-]. split; [exact Es|right; exact Ef].
    + intros [= <- <- <-]. split; [exact Es|left; split; [reflexivity|discriminate]].
  - destruct (n_is_fq (n_merge (n_parse name) mask)) eqn:Ef; [|discriminate].
    intros [= <- <- <-]. split; [exact Es|right; exact Ef].
Qed.
