(** C13 - lemmas about the path model: joining validated elements below any root is "root, then exactly those
    elements"; nothing is collapsed, nothing climbs. *)
From Coq Require Import List NArith Bool Arith Lia.
From V Require Import Common.Bytes Names.Path.
Import ListNotations.
Open Scope N_scope.

(** a path element that Clean keeps as it is *)
Definition safe_comp (c : str) : Prop := c <> [] /\ c <> s_dot /\ c <> s_dotdot /\ ~ In c_slash c.

Lemma eqb_str_false a b : a <> b -> eqb_str a b = false.
Proof.
  intro H. destruct (eqb_str a b) eqn:E; [|reflexivity]. apply eqb_str_spec in E. contradiction.
Qed.

Lemma eqb_str_refl a : eqb_str a a = true.
Proof. apply eqb_str_spec. reflexivity. Qed.

(** * strings.Split *)
Lemma split_on_nonnil c s : split_on c s <> [].
Proof.
  induction s as [|x s IH]; cbn; [discriminate|].
  destruct (x =? c); [discriminate|]. destruct (split_on c s); discriminate.
Qed.

Lemma split_on_app_sep c a b : split_on c (a ++ c :: b) = split_on c a ++ split_on c b.
Proof.
  induction a as [|x a IH]; cbn.
  - rewrite N.eqb_refl. reflexivity.
  - destruct (x =? c); [rewrite IH; reflexivity|].
    rewrite IH. destruct (split_on c a) as [|h t] eqn:E; [exfalso; eapply split_on_nonnil; eassumption|].
    reflexivity.
Qed.

Lemma split_on_nosep c s : ~ In c s -> split_on c s = [s].
Proof.
  induction s as [|x s IH]; intro H; cbn; [reflexivity|].
  destruct (x =? c) eqn:E.
  - apply N.eqb_eq in E. exfalso. apply H. left. exact E.
  - rewrite IH; [reflexivity|]. intro Hin. apply H. right. exact Hin.
Qed.

Lemma split_on_intercalate c comps :
  comps <> [] -> Forall (fun x => ~ In c x) comps -> split_on c (intercalate [c] comps) = comps.
Proof.
  induction comps as [|x t IH]; intros Hne Hall; [congruence|].
  inversion Hall as [|? ? Hx Ht]; subst.
  destruct t as [|y t'].
  - cbn. apply split_on_nosep. exact Hx.
  - change (intercalate [c] (x :: y :: t')) with (x ++ [c] ++ intercalate [c] (y :: t')).
    cbn [app]. rewrite split_on_app_sep, (split_on_nosep c x Hx), IH; [reflexivity|discriminate|exact Ht].
Qed.

Lemma split_on_no_sep c s : Forall (fun x => ~ In c x) (split_on c s).
Proof.
  induction s as [|x s IH]; cbn.
  - constructor; [intros []|constructor].
  - destruct (x =? c) eqn:E.
    + constructor; [intros []|exact IH].
    + destruct (split_on c s) as [|h t]; [constructor; [|constructor]|].
      * intros [H|[]]. subst. rewrite N.eqb_refl in E. discriminate.
      * inversion IH; subst. constructor; [|assumption].
        intros [H|H]; [subst; rewrite N.eqb_refl in E; discriminate|contradiction].
Qed.

Lemma intercalate_cons2 sep x y t : intercalate sep (x :: y :: t) = x ++ sep ++ intercalate sep (y :: t).
Proof. reflexivity. Qed.

Lemma intercalate_app sep l1 l2 :
  l1 <> [] -> l2 <> [] -> intercalate sep (l1 ++ l2) = intercalate sep l1 ++ sep ++ intercalate sep l2.
Proof.
  induction l1 as [|x t IH]; intros H1 H2; [congruence|].
  destruct t as [|y t'].
  - cbn [app]. destruct l2 as [|z l2']; [congruence|]. reflexivity.
  - change ((x :: y :: t') ++ l2) with (x :: y :: (t' ++ l2)).
    rewrite !intercalate_cons2. change (y :: t' ++ l2) with ((y :: t') ++ l2).
    rewrite IH; [|discriminate|exact H2]. rewrite <- !app_assoc. reflexivity.
Qed.

Lemma intercalate_nonempty sep l : l <> [] -> Forall (fun x => x <> []) l -> intercalate sep l <> [].
Proof.
  destruct l as [|x t]; intros Hne Hall; [congruence|].
  inversion Hall; subst. destruct t; cbn; [assumption|].
  destruct x; [congruence|discriminate].
Qed.

(** * Clean *)
Lemma safe_not_dot c : safe_comp c -> eqb_str c [] = false /\ eqb_str c s_dot = false /\ eqb_str c s_dotdot = false.
Proof. intros (H1 & H2 & H3 & _). repeat split; apply eqb_str_false; assumption. Qed.

Lemma clean_step_safe st c : safe_comp c -> clean_step st c = MkCS (cs_rooted st) (c :: cs_stack st).
Proof.
  intro H. apply safe_not_dot in H as (H1 & H2 & H3). unfold clean_step. rewrite H1, H2, H3. reflexivity.
Qed.

Lemma fold_clean_safe comps st :
  Forall safe_comp comps -> fold_left clean_step comps st = MkCS (cs_rooted st) (rev comps ++ cs_stack st).
Proof.
  revert st; induction comps as [|c t IH]; intros st H; cbn [fold_left rev app].
  - destruct st; reflexivity.
  - inversion H; subst. rewrite clean_step_safe by assumption. rewrite IH by assumption. cbn [cs_rooted cs_stack].
    rewrite <- app_assoc. reflexivity.
Qed.

(** invariant of the Clean loop *)
Definition comp_ok (c : str) : Prop := c <> [] /\ c <> s_dot /\ ~ In c_slash c.
Definition st_ok (st : cstate) : Prop :=
  Forall comp_ok (cs_stack st) /\ (cs_rooted st = true -> Forall safe_comp (cs_stack st)).

Lemma safe_comp_ok c : safe_comp c -> comp_ok c.
Proof. intros (H1 & H2 & _ & H4). repeat split; assumption. Qed.

Lemma clean_step_ok st c : ~ In c_slash c -> st_ok st -> st_ok (clean_step st c).
Proof.
  intros Hns [Hok Hr]. unfold clean_step.
  destruct (eqb_str c []) eqn:E1; [split; assumption|].
  destruct (eqb_str c s_dot) eqn:E2; [split; assumption|]. cbn [orb].
  assert (N1 : c <> []) by (intro; subst; discriminate).
  assert (N2 : c <> s_dot) by (intro; subst; discriminate).
  destruct (eqb_str c s_dotdot) eqn:E3.
  - destruct (cs_stack st) as [|top r] eqn:Es.
    + destruct (cs_rooted st) eqn:Er; [split; [rewrite Es; constructor|intros _; rewrite Es; constructor]|].
      split; cbn.
      * constructor; [|constructor]. repeat split; try discriminate. intros [H|[H|[]]]; discriminate.
      * discriminate.
    + destruct (eqb_str top s_dotdot) eqn:E4; cbn [cs_stack cs_rooted].
      * apply eqb_str_spec in E4. subst top. split.
        -- constructor; [|exact Hok]. repeat split; try discriminate. intros [H|[H|[]]]; discriminate.
        -- intro Ht. specialize (Hr Ht). inversion Hr as [|? ? (_ & _ & Hdd & _) _]. congruence.
      * split.
        -- inversion Hok; assumption.
        -- intro Ht. specialize (Hr Ht). inversion Hr; assumption.
  - cbn [cs_stack cs_rooted]. assert (N3 : c <> s_dotdot) by (intro; subst; rewrite eqb_str_refl in E3; discriminate).
    split.
    + constructor; [repeat split; assumption|exact Hok].
    + intro Ht. constructor; [repeat split; assumption|exact (Hr Ht)].
Qed.

Lemma fold_clean_ok comps st : Forall (fun x => ~ In c_slash x) comps -> st_ok st -> st_ok (fold_left clean_step comps st).
Proof.
  revert st; induction comps as [|c t IH]; intros st H Hok; cbn [fold_left]; [exact Hok|].
  inversion H; subst. apply IH; [assumption|]. apply clean_step_ok; assumption.
Qed.

Lemma clean_state_ok path : st_ok (clean_state path).
Proof.
  unfold clean_state. apply fold_clean_ok; [apply split_on_no_sep|].
  split; cbn; [constructor|intros _; constructor].
Qed.

(** the state reached after [root ++ "/" ++ rest] is the state after [root] continued with the elements of [rest] *)
Lemma clean_state_app root rest :
  root <> [] -> clean_state (root ++ c_slash :: rest) = fold_left clean_step (split_on c_slash rest) (clean_state root).
Proof.
  intro Hne. unfold clean_state. rewrite split_on_app_sep, fold_left_app.
  destruct root as [|c r]; [congruence|]. reflexivity.
Qed.

(** what the rendered state looks like *)
Lemma render_root st : st_ok st -> (clean_render st = [c_slash] <-> cs_rooted st = true /\ cs_stack st = []).
Proof.
  intros [Hok _]. unfold clean_render. destruct (cs_rooted st) eqn:Er.
  - destruct (cs_stack st) as [|x t] eqn:Es; [cbn; tauto|].
    split; [|intros [_ H]; discriminate].
    intro H. exfalso. injection H as H.
    eapply (intercalate_nonempty [c_slash] (rev (x :: t))); [| |exact H].
    + intro E. apply (f_equal (@length str)) in E. rewrite rev_length in E. discriminate.
    + apply Forall_rev. eapply Forall_impl; [|exact Hok]. intros a (Ha & _). exact Ha.
  - split; [|intros [H _]; discriminate].
    destruct (cs_stack st) as [|x t] eqn:Es; [discriminate|].
    intro H. exfalso.
    assert (Hs : Forall (fun a => ~ In c_slash a) (rev (x :: t))).
    { apply Forall_rev. eapply Forall_impl; [|exact Hok]. intros a (_ & _ & Ha). exact Ha. }
    assert (Hn : Forall (fun a => a <> []) (rev (x :: t))).
    { apply Forall_rev. eapply Forall_impl; [|exact Hok]. intros a (Ha & _). exact Ha. }
    destruct (rev (x :: t)) as [|y l] eqn:El.
    + apply (f_equal (@length str)) in El. rewrite rev_length in El. discriminate.
    + destruct l as [|z l'].
      * cbn in H. inversion Hs as [|? ? Hy _]; subst. apply Hy. left. reflexivity.
      * rewrite intercalate_cons2 in H. inversion Hn as [|? ? Hy Hn']; subst. inversion Hn' as [|? ? Hz _]; subst.
        apply (f_equal (@length N)) in H. rewrite !app_length in H. cbn in H.
        destruct y; [congruence|]. cbn in H.
        assert (intercalate [c_slash] (z :: l') <> []).
        { apply intercalate_nonempty; [discriminate|assumption]. }
        destruct (intercalate [c_slash] (z :: l')); [congruence|]. cbn in H. lia.
Qed.

Lemma render_dot st : st_ok st -> (clean_render st = s_dot <-> cs_rooted st = false /\ cs_stack st = []).
Proof.
  intros [Hok _]. unfold clean_render. destruct (cs_rooted st) eqn:Er.
  - split; [discriminate|intros [H _]; discriminate].
  - destruct (cs_stack st) as [|x t] eqn:Es; [tauto|].
    split; [|intros [_ H]; discriminate].
    intro H. exfalso.
    assert (Hd : Forall (fun a => a <> s_dot) (rev (x :: t))).
    { apply Forall_rev. eapply Forall_impl; [|exact Hok]. intros a (_ & Ha & _). exact Ha. }
    assert (Hn : Forall (fun a => a <> []) (rev (x :: t))).
    { apply Forall_rev. eapply Forall_impl; [|exact Hok]. intros a (Ha & _). exact Ha. }
    destruct (rev (x :: t)) as [|y l] eqn:El.
    + apply (f_equal (@length str)) in El. rewrite rev_length in El. discriminate.
    + destruct l as [|z l'].
      * cbn in H. inversion Hd; subst. congruence.
      * rewrite intercalate_cons2 in H. inversion Hn as [|? ? Hy Hn']; subst.
        apply (f_equal (@length N)) in H. rewrite !app_length in H. cbn in H.
        destruct y; [congruence|]. cbn in H. lia.
Qed.

(** pushing validated elements onto a state renders as the rendered state extended by these elements *)
Lemma render_push st comps :
  st_ok st -> comps <> [] ->
  clean_render (MkCS (cs_rooted st) (rev comps ++ cs_stack st)) = path_append (clean_render st) comps.
Proof.
  intros Hok Hne. unfold path_append.
  assert (Hrev : rev (rev comps ++ cs_stack st) = rev (cs_stack st) ++ comps) by (rewrite rev_app_distr, rev_involutive; reflexivity).
  assert (Hst : rev comps ++ cs_stack st <> []).
  { intro E. apply app_eq_nil in E as [E _]. apply (f_equal (@rev str)) in E. rewrite rev_involutive in E. cbn in E. congruence. }
  destruct (eqb_str (clean_render st) [c_slash]) eqn:E1.
  - apply eqb_str_spec, (render_root st Hok) in E1 as [Er Es].
    unfold clean_render. cbn [cs_rooted cs_stack]. rewrite Er, Hrev, Es. reflexivity.
  - destruct (eqb_str (clean_render st) s_dot) eqn:E2.
    + apply eqb_str_spec, (render_dot st Hok) in E2 as [Er Es].
      unfold clean_render. cbn [cs_rooted cs_stack]. rewrite Er, Hrev, Es.
      destruct (rev comps ++ []) eqn:E; [|reflexivity]. rewrite Es in Hst. contradiction.
    + assert (Hs : cs_stack st <> []).
      { intro Es. destruct (cs_rooted st) eqn:Er.
        - assert (clean_render st = [c_slash]) by (apply (render_root st Hok); split; assumption).
          rewrite H, eqb_str_refl in E1. discriminate.
        - assert (clean_render st = s_dot) by (apply (render_dot st Hok); split; assumption).
          rewrite H, eqb_str_refl in E2. discriminate. }
      assert (Hr : rev (cs_stack st) <> []).
      { intro E. apply (f_equal (@rev str)) in E. rewrite rev_involutive in E. cbn in E. contradiction. }
      unfold clean_render. cbn [cs_rooted cs_stack]. rewrite Hrev.
      destruct (cs_rooted st).
      * rewrite intercalate_app by assumption. reflexivity.
      * destruct (rev comps ++ cs_stack st) eqn:E; [contradiction|].
        destruct (cs_stack st) eqn:Es; [contradiction|].
        rewrite intercalate_app by assumption. reflexivity.
Qed.

Lemma safe_no_slash comps : Forall safe_comp comps -> Forall (fun x => ~ In c_slash x) comps.
Proof. intro H. eapply Forall_impl; [|exact H]. intros a (_ & _ & _ & Ha). exact Ha. Qed.

(** Clean(root ++ "/" ++ c1/.../cn) = Clean(root) extended by c1 .. cn, for every non-empty root *)
Lemma fp_clean_under root comps :
  root <> [] -> Forall safe_comp comps -> comps <> [] ->
  fp_clean (root ++ c_slash :: intercalate [c_slash] comps) = path_append (fp_clean root) comps.
Proof.
  intros Hr Hs Hne. unfold fp_clean. rewrite clean_state_app by assumption.
  rewrite split_on_intercalate by (try assumption; apply safe_no_slash; assumption).
  rewrite fold_clean_safe by assumption. apply render_push; [apply clean_state_ok|assumption].
Qed.

Lemma safe_head_not_slash c : safe_comp c -> fp_is_abs c = false.
Proof.
  intros (H1 & _ & _ & H4). destruct c as [|x r]; [congruence|]. cbn.
  destruct (x =? c_slash) eqn:E; [|reflexivity]. apply N.eqb_eq in E. exfalso. apply H4. left. exact E.
Qed.

Lemma fp_clean_safe comps :
  Forall safe_comp comps -> comps <> [] -> fp_clean (intercalate [c_slash] comps) = intercalate [c_slash] comps.
Proof.
  intros Hs Hne. unfold fp_clean, clean_state.
  rewrite split_on_intercalate by (try assumption; apply safe_no_slash; assumption).
  rewrite fold_clean_safe by assumption. cbn [cs_rooted cs_stack].
  assert (Ha : fp_is_abs (intercalate [c_slash] comps) = false).
  { destruct comps as [|c t]; [congruence|]. inversion Hs as [|? ? Hc _]; subst.
    pose proof (safe_head_not_slash c Hc) as Hh. destruct Hc as (Hc & _).
    destruct c as [|x r]; [congruence|]. destruct t; exact Hh. }
  rewrite Ha, app_nil_r. unfold clean_render. cbn [cs_rooted cs_stack]. rewrite rev_involutive.
  destruct (rev comps) eqn:E; [|reflexivity].
  apply (f_equal (@rev str)) in E. rewrite rev_involutive in E. cbn in E. contradiction.
Qed.

Lemma fp_clean_nil : fp_clean [] = s_dot.
Proof. reflexivity. Qed.

(** filepath.Join(root, c1/.../cn) for every root, the empty one included *)
Lemma fp_join_under root comps :
  Forall safe_comp comps -> comps <> [] ->
  fp_join [root; intercalate [c_slash] comps] = path_append (fp_clean root) comps.
Proof.
  intros Hs Hne.
  assert (Hi : intercalate [c_slash] comps <> []).
  { apply intercalate_nonempty; [assumption|]. eapply Forall_impl; [|exact Hs]. intros a (Ha & _). exact Ha. }
  unfold fp_join. destruct root as [|c r].
  - cbn [drop_empty_prefix]. destruct (intercalate [c_slash] comps) eqn:E; [congruence|].
    cbn [drop_empty_prefix intercalate]. rewrite <- E, fp_clean_safe by assumption. reflexivity.
  - cbn [drop_empty_prefix]. change (intercalate [c_slash] [c :: r; intercalate [c_slash] comps])
      with ((c :: r) ++ [c_slash] ++ intercalate [c_slash] comps).
    cbn [app]. apply (fp_clean_under (c :: r)); [discriminate|assumption|assumption].
Qed.

(** filepath.Join(root, x, c1/.../cn) where x is itself a validated element *)
Lemma fp_join_under2 root x comps :
  safe_comp x -> Forall safe_comp comps -> comps <> [] ->
  fp_join [root; x; intercalate [c_slash] comps] = path_append (fp_clean root) (x :: comps).
Proof.
  intros Hx Hs Hne. rewrite <- (fp_join_under root (x :: comps)); [|constructor; assumption|discriminate].
  unfold fp_join. destruct comps as [|y t]; [congruence|].
  destruct root as [|c r]; cbn [drop_empty_prefix].
  - destruct Hx as (Hx & _). destruct x as [|a b]; [congruence|]. reflexivity.
  - reflexivity.
Qed.

(** filepath.Join(c1, ..., cn) of validated elements *)
Lemma fp_join_safe comps : Forall safe_comp comps -> comps <> [] -> fp_join comps = intercalate [c_slash] comps.
Proof.
  intros Hs Hne. unfold fp_join. destruct comps as [|c t]; [congruence|].
  inversion Hs as [|? ? Hc _]; subst. destruct Hc as (Hc & _). destruct c as [|a b]; [congruence|].
  cbn [drop_empty_prefix]. apply fp_clean_safe; assumption.
Qed.

(** * absolute roots: the result is absolute and clean (Clean is the identity on it) *)
Lemma clean_render_rooted_fixed st :
  cs_rooted st = true -> Forall safe_comp (cs_stack st) -> fp_clean (clean_render st) = clean_render st.
Proof.
  intros Hr Hs. destruct st as [r stk]. cbn in Hr, Hs. subst r.
  unfold clean_render at 1. cbn [cs_rooted cs_stack].
  destruct stk as [|x t].
  - reflexivity.
  - unfold fp_clean, clean_state.
    change (c_slash :: intercalate [c_slash] (rev (x :: t))) with ([] ++ c_slash :: intercalate [c_slash] (rev (x :: t))).
    rewrite split_on_app_sep.
    assert (Hrs : Forall safe_comp (rev (x :: t))) by (apply Forall_rev; assumption).
    assert (Hne : rev (x :: t) <> []).
    { intro E. apply (f_equal (@length str)) in E. rewrite rev_length in E. discriminate. }
    rewrite split_on_intercalate by (try assumption; apply safe_no_slash; assumption).
    cbn [split_on app fold_left]. unfold clean_step at 2. cbn [eqb_str orb].
    rewrite fold_clean_safe by assumption. cbn [fp_is_abs cs_rooted cs_stack]. rewrite N.eqb_refl.
    rewrite rev_involutive, app_nil_r. reflexivity.
Qed.

Lemma fold_clean_rooted l st : cs_rooted (fold_left clean_step l st) = cs_rooted st.
Proof.
  revert st; induction l as [|c t IH]; intro st; cbn [fold_left]; [reflexivity|]. rewrite IH.
  unfold clean_step. destruct (eqb_str c [] || eqb_str c s_dot); [reflexivity|].
  destruct (eqb_str c s_dotdot); [|reflexivity].
  destruct (cs_stack st); [destruct (cs_rooted st) eqn:E; [exact E|reflexivity]|].
  destruct (eqb_str _ _); reflexivity.
Qed.

Lemma clean_state_rooted path : cs_rooted (clean_state path) = fp_is_abs path.
Proof. unfold clean_state. rewrite fold_clean_rooted. reflexivity. Qed.

(** for an absolute root, the joined path is absolute and already clean *)
Lemma fp_under_abs_clean root comps :
  fp_is_abs root = true -> Forall safe_comp comps -> comps <> [] ->
  let p := path_append (fp_clean root) comps in fp_is_abs p = true /\ fp_clean p = p.
Proof.
  intros Ha Hs Hne p. subst p.
  pose proof (clean_state_ok root) as Hok. pose proof (clean_state_rooted root) as Hr. rewrite Ha in Hr.
  set (st' := MkCS (cs_rooted (clean_state root)) (rev comps ++ cs_stack (clean_state root))).
  assert (Hp : path_append (fp_clean root) comps = clean_render st').
  { unfold fp_clean. symmetry. apply render_push; assumption. }
  rewrite Hp.
  assert (Hr' : cs_rooted st' = true) by exact Hr.
  assert (Hs' : Forall safe_comp (cs_stack st')).
  { cbn. apply Forall_app. split; [apply Forall_rev; assumption|]. destruct Hok as [_ H]. apply H. exact Hr. }
  split.
  - unfold clean_render. rewrite Hr'. reflexivity.
  - apply clean_render_rooted_fixed; assumption.
Qed.
