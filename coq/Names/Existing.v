(** C13 - the legacy case-insensitive lookup getExistingName (server/routes.go) as repaired by
    fixes/C04-getExistingName.patch: a case variant of a stored name is canonicalised to a stored name, the same
    one for every case variant and for every iteration order of the map. *)
From Coq Require Import List NArith ZArith Bool Arith Lia ZifyBool ZifyNat ZifyN.
From V Require Import Common.Bytes Names.Path Names.Model Names.PathProofs Names.Proofs Names.Confine Names.Fold.
Import ListNotations.
Open Scope N_scope.

(** * the string order *)
Lemma str_cmp_refl a : str_cmp a a = Eq.
Proof. induction a as [|x a IH]; cbn; [reflexivity|]. rewrite N.compare_refl. exact IH. Qed.

Lemma str_cmp_eq a b : str_cmp a b = Eq -> a = b.
Proof.
  revert b; induction a as [|x a IH]; intros [|y b] H; cbn in H; try discriminate; [reflexivity|].
  destruct (N.compare x y) eqn:E; try discriminate. apply N.compare_eq in E. subst. f_equal. apply IH. exact H.
Qed.

Lemma str_cmp_antisym a b : str_cmp a b = CompOpp (str_cmp b a).
Proof.
  revert b; induction a as [|x a IH]; intros [|y b]; cbn; try reflexivity.
  rewrite (N.compare_antisym y x). destruct (N.compare y x); cbn; [apply IH|reflexivity|reflexivity].
Qed.

Lemma str_cmp_lt_trans a b c : str_cmp a b = Lt -> str_cmp b c = Lt -> str_cmp a c = Lt.
Proof.
  revert b c; induction a as [|x a IH]; intros [|y b] [|z c] H1 H2; cbn in *; try discriminate; try reflexivity.
  destruct (N.compare x y) eqn:E1; try discriminate.
  - apply N.compare_eq in E1. subst y. destruct (N.compare x z) eqn:E2; try discriminate; [eapply IH; eassumption|reflexivity].
  - destruct (N.compare y z) eqn:E2; try discriminate.
    + apply N.compare_eq in E2. subst z. rewrite E1. reflexivity.
    + assert (E3 : N.compare x z = Lt) by (rewrite N.compare_lt_iff in E1, E2 |- *; eapply N.lt_trans; eassumption). rewrite E3. reflexivity.
Qed.

Lemma str_ltb_irrefl a : str_ltb a a = false.
Proof. unfold str_ltb. rewrite str_cmp_refl. reflexivity. Qed.

Lemma str_ltb_trans a b c : str_ltb a b = true -> str_ltb b c = true -> str_ltb a c = true.
Proof.
  unfold str_ltb. destruct (str_cmp a b) eqn:E1; try discriminate. destruct (str_cmp b c) eqn:E2; try discriminate.
  intros _ _. rewrite (str_cmp_lt_trans a b c E1 E2). reflexivity.
Qed.

Lemma str_ltb_total a b : str_ltb a b = false -> str_ltb b a = false -> a = b.
Proof.
  unfold str_ltb. rewrite (str_cmp_antisym b a). destruct (str_cmp a b) eqn:E; cbn; try discriminate.
  intros _ _. apply str_cmp_eq. exact E.
Qed.

(** * candidates *)
Definition kof (n e : mname) : nat := snd (gen_cand n e).
Definition cof (n e : mname) : mname := fst (gen_cand n e).

Lemma kof_le4 n e : (kof n e <= 4)%nat.
Proof. unfold kof, gen_cand. repeat (destruct (equal_fold_au _ _)); cbn; lia. Qed.

Lemma kof4 n e : kof n e = 4%nat -> cof n e = e /\ m_equal_fold e n = true.
Proof.
  unfold kof, cof, gen_cand, m_equal_fold.
  destruct (equal_fold_au (mH e) (mH n)); [|cbn; discriminate].
  destruct (equal_fold_au (mN e) (mN n)); [|cbn; discriminate].
  destruct (equal_fold_au (mM e) (mM n)); [|cbn; discriminate].
  destruct (equal_fold_au (mT e) (mT n)); [|cbn; discriminate].
  intros _. destruct e; split; reflexivity.
Qed.

Lemma kof4_intro n e : m_equal_fold e n = true -> kof n e = 4%nat.
Proof.
  unfold m_equal_fold, kof, gen_cand. rewrite !andb_true_iff. intros (((H1 & H2) & H3) & H4).
  rewrite H1, H2, H3, H4. reflexivity.
Qed.

(** every candidate is EqualFold to the input: the lookup never invents a different name *)
Lemma cof_cv n e : m_is_fq n = true -> cv_m (cof n e) n.
Proof.
  destruct n as [h ns m t]. intro H. apply m_is_fq_parts in H as (Hh & Hn & Hm & Ht).
  unfold cof, gen_cand. cbn [mH mN mM mT].
  destruct (equal_fold_au (mH e) h) eqn:E1; [|repeat split; apply cv_refl].
  apply (equal_fold_au_ascii _ _ (part_ok_ascii _ _ Hh)) in E1.
  destruct (equal_fold_au (mN e) ns) eqn:E2; [|repeat split; cbn; try apply cv_refl; assumption].
  apply (equal_fold_au_ascii _ _ (part_ok_ascii _ _ Hn)) in E2.
  destruct (equal_fold_au (mM e) m) eqn:E3; [|repeat split; cbn; try apply cv_refl; assumption].
  apply (equal_fold_au_ascii _ _ (part_ok_ascii _ _ Hm)) in E3.
  destruct (equal_fold_au (mT e) t) eqn:E4; [|repeat split; cbn; try apply cv_refl; assumption].
  apply (equal_fold_au_ascii _ _ (part_ok_ascii _ _ Ht)) in E4.
  repeat split; cbn; assumption.
Qed.

(** the candidate for a case variant of the input has the same length of match *)
Lemma efa_cv_r a u1 u2 :
  Forall (fun c => c < 128) u1 -> Forall (fun c => c < 128) u2 -> cv u1 u2 -> equal_fold_au a u1 = equal_fold_au a u2.
Proof.
  intros A1 A2 H. destruct (equal_fold_au a u1) eqn:E1; symmetry.
  - apply (equal_fold_au_ascii a u2 A2). apply (equal_fold_au_ascii a u1 A1) in E1. unfold cv in *. congruence.
  - destruct (equal_fold_au a u2) eqn:E2; [|reflexivity].
    apply (equal_fold_au_ascii a u2 A2) in E2. assert (E : cv a u1) by (unfold cv in *; congruence).
    apply (equal_fold_au_ascii a u1 A1) in E. congruence.
Qed.

Lemma kof_cv n1 n2 e : m_is_fq n1 = true -> m_is_fq n2 = true -> cv_m n1 n2 -> kof n1 e = kof n2 e.
Proof.
  destruct n1 as [h1 s1 m1 t1], n2 as [h2 s2 m2 t2]. intros F1 F2 (C1 & C2 & C3 & C4). cbn [mH mN mM mT] in *.
  apply m_is_fq_parts in F1 as (Hh1 & Hn1 & Hm1 & Ht1). apply m_is_fq_parts in F2 as (Hh2 & Hn2 & Hm2 & Ht2).
  unfold kof, gen_cand. cbn [mH mN mM mT].
  rewrite (efa_cv_r (mH e) h1 h2), (efa_cv_r (mN e) s1 s2), (efa_cv_r (mM e) m1 m2), (efa_cv_r (mT e) t1 t2)
    by (try assumption; eapply part_ok_ascii; eassumption).
  repeat (destruct (equal_fold_au _ _)); reflexivity.
Qed.

(** * the loop invariant *)
Definition pick_inv (n : mname) (seen : list mname) (acc : mname * nat) : Prop :=
  let '(best, bl) := acc in
  (forall e, In e seen -> (kof n e <= bl)%nat) /\
  (bl = 0%nat -> best = n) /\
  ((0 < bl)%nat -> exists e0, In e0 seen /\ gen_cand n e0 = (best, bl)) /\
  (forall e, In e seen -> kof n e = bl -> (0 < bl)%nat -> str_ltb (m_string (cof n e)) (m_string best) = false).

Lemma pick_inv_step n seen acc e : pick_inv n seen acc -> pick_inv n (seen ++ [e]) (gen_pick n acc e).
Proof.
  destruct acc as [best bl]. intros (I1 & I2 & I3 & I4). unfold gen_pick.
  destruct (gen_cand n e) as [c k] eqn:Ec.
  assert (Hk : kof n e = k) by (unfold kof; rewrite Ec; reflexivity).
  assert (Hc : cof n e = c) by (unfold cof; rewrite Ec; reflexivity).
  destruct ((bl <? k)%nat || ((k =? bl)%nat && (0 <? k)%nat && str_ltb (m_string c) (m_string best))) eqn:Ed.
  - (* the candidate replaces best *)
    assert (Hpos : (0 < k)%nat) by lia.
    assert (Hge : (bl <= k)%nat) by lia.
    repeat split.
    + intros e' Hin. apply in_app_or in Hin as [Hin|[<-|[]]]; [specialize (I1 e' Hin); lia|lia].
    + intro; lia.
    + intros _. exists e. split; [apply in_or_app; right; left; reflexivity|exact Ec].
    + intros e' Hin He' _. apply in_app_or in Hin as [Hin|[<-|[]]].
      * destruct (Nat.eq_dec k bl) as [->|Hne].
        -- assert (Hlt : str_ltb (m_string c) (m_string best) = true) by (destruct (str_ltb (m_string c) (m_string best)); [reflexivity|lia]).
           specialize (I4 e' Hin He' Hpos).
           destruct (str_ltb (m_string (cof n e')) (m_string c)) eqn:E; [|reflexivity].
           rewrite (str_ltb_trans _ _ _ E Hlt) in I4. discriminate.
        -- specialize (I1 e' Hin). lia.
      * rewrite Hc. apply str_ltb_irrefl.
  - (* best stays *)
    repeat split.
    + intros e' Hin. apply in_app_or in Hin as [Hin|[<-|[]]]; [apply I1; exact Hin|lia].
    + exact I2.
    + intro Hpos. destruct (I3 Hpos) as (e0 & Hin & H0). exists e0. split; [apply in_or_app; left; exact Hin|exact H0].
    + intros e' Hin He' Hpos. apply in_app_or in Hin as [Hin|[<-|[]]]; [apply I4; assumption|].
      rewrite Hc. destruct (str_ltb (m_string c) (m_string best)); [lia|reflexivity].
Qed.

Lemma pick_inv_fold n l seen acc : pick_inv n seen acc -> pick_inv n (seen ++ l) (fold_left (gen_pick n) l acc).
Proof.
  revert seen acc; induction l as [|e l IH]; intros seen acc H; cbn [fold_left].
  - rewrite app_nil_r. exact H.
  - replace (seen ++ e :: l) with ((seen ++ [e]) ++ l) by (rewrite <- app_assoc; reflexivity).
    apply IH. apply pick_inv_step. exact H.
Qed.

Lemma pick_inv_final n existing : pick_inv n existing (fold_left (gen_pick n) existing (n, 0%nat)).
Proof.
  apply (pick_inv_fold n existing [] (n, 0%nat)). repeat split; try (intros ? []); try reflexivity; intro; lia.
Qed.

(** the result is always EqualFold to the input *)
Lemma get_existing_cv existing n : m_is_fq n = true -> cv_m (get_existing_name existing n) n.
Proof.
  intro Hn. unfold get_existing_name. pose proof (pick_inv_final n existing) as H.
  destruct (fold_left (gen_pick n) existing (n, 0%nat)) as [best bl]. destruct H as (_ & I2 & I3 & _). cbn [fst].
  destruct bl as [|bl].
  - rewrite (I2 eq_refl). repeat split; apply cv_refl.
  - destruct (I3 (Nat.lt_0_succ bl)) as (e0 & _ & H0). replace best with (cof n e0) by (unfold cof; rewrite H0; reflexivity).
    apply cof_cv. exact Hn.
Qed.

(** with a stored case variant of the input: the result is a stored name, EqualFold to the input, and minimal *)
Lemma get_existing_full existing n :
  (exists e, In e existing /\ m_equal_fold e n = true) ->
  let r := get_existing_name existing n in
  In r existing /\ m_equal_fold r n = true /\
  (forall e, In e existing -> m_equal_fold e n = true -> str_ltb (m_string e) (m_string r) = false).
Proof.
  intros (e & Hin & He). cbv zeta. unfold get_existing_name. pose proof (pick_inv_final n existing) as H.
  destruct (fold_left (gen_pick n) existing (n, 0%nat)) as [best bl]. destruct H as (I1 & _ & I3 & I4). cbn [fst].
  pose proof (I1 e Hin) as Hle. rewrite (kof4_intro n e He) in Hle.
  assert (Hpos : (0 < bl)%nat) by lia. destruct (I3 Hpos) as (e0 & Hin0 & H0).
  assert (Hk0 : kof n e0 = bl) by (unfold kof; rewrite H0; reflexivity).
  pose proof (kof_le4 n e0) as H4. assert (Hb : bl = 4%nat) by lia. rewrite Hb in *. clear Hb.
  destruct (kof4 n e0 Hk0) as [Hc0 Hf0]. assert (best = e0) by (unfold cof in Hc0; rewrite H0 in Hc0; exact Hc0). subst best.
  repeat split; try assumption.
  intros e' Hin' He'. pose proof (kof4_intro n e' He') as Hk'. specialize (I4 e' Hin' Hk' Hpos).
  destruct (kof4 n e' Hk') as [Hc' _]. rewrite Hc' in I4. exact I4.
Qed.

Lemma m_string_inj a b : m_is_fq a = true -> m_is_fq b = true -> m_string a = m_string b -> a = b.
Proof. intros Ha Hb H. rewrite <- (m_roundtrip a Ha), <- (m_roundtrip b Hb), H. reflexivity. Qed.

Lemma m_equal_fold_cv e n1 n2 :
  m_is_fq n1 = true -> m_is_fq n2 = true -> cv_m n1 n2 -> m_equal_fold e n1 = m_equal_fold e n2.
Proof.
  destruct n1 as [h1 s1 m1 t1], n2 as [h2 s2 m2 t2]. intros F1 F2 (C1 & C2 & C3 & C4). cbn [mH mN mM mT] in *.
  apply m_is_fq_parts in F1 as (Hh1 & Hn1 & Hm1 & Ht1). apply m_is_fq_parts in F2 as (Hh2 & Hn2 & Hm2 & Ht2).
  unfold m_equal_fold. cbn [mH mN mM mT].
  rewrite (efa_cv_r (mH e) h1 h2), (efa_cv_r (mN e) s1 s2), (efa_cv_r (mM e) m1 m2), (efa_cv_r (mT e) t1 t2)
    by (try assumption; eapply part_ok_ascii; eassumption).
  reflexivity.
Qed.

(** case variants of a stored name resolve to the same stored name, whatever the order (and multiplicity) in which
    the stored names are visited *)
Lemma get_existing_same l1 l2 n1 n2 :
  (forall e, In e l1 <-> In e l2) -> Forall (fun e => m_is_fq e = true) l1 ->
  m_is_fq n1 = true -> cv_m n1 n2 ->
  (exists e, In e l1 /\ m_equal_fold e n1 = true) ->
  let r := get_existing_name l1 n1 in
  r = get_existing_name l2 n2 /\ In r l1 /\ m_equal_fold r n1 = true.
Proof.
  intros Hl Hfq F1 Hcv (e & Hin & He). cbv zeta.
  assert (F2 : m_is_fq n2 = true) by (rewrite <- (cv_m_fq n1 n2 Hcv); exact F1).
  assert (Hef : forall x, m_equal_fold x n1 = m_equal_fold x n2) by (intro x; apply m_equal_fold_cv; assumption).
  destruct (get_existing_full l1 n1) as (R1 & E1 & M1); [exists e; split; assumption|].
  destruct (get_existing_full l2 n2) as (R2 & E2 & M2); [exists e; split; [apply Hl; exact Hin|rewrite <- Hef; exact He]|].
  split; [|split; assumption].
  rewrite Forall_forall in Hfq.
  apply m_string_inj; [apply Hfq; exact R1|apply Hfq, Hl; exact R2|].
  apply str_ltb_total.
  - apply M2; [apply Hl; exact R1|rewrite <- Hef; exact E1].
  - apply M1; [apply Hl; exact R2|rewrite Hef; exact E2].
Qed.

(** * the unchanged tree: every part is taken from whichever stored name happens to be visited last *)
Lemma legacy_witness :
  let a := MkM [104] [110] [77] [116] in          (* h/n/M:t  *)
  let b := MkM [104] [120] [109] [117] in         (* h/x/m:u  *)
  m_is_fq a = true /\ m_is_fq b = true /\
  get_existing_name_legacy [a; b] a = MkM [104] [110] [109] [116] /\           (* h/n/m:t: not stored *)
  ~ In (get_existing_name_legacy [a; b] a) [a; b] /\
  get_existing_name_legacy [b; a] a = a.
Proof.
  cbv zeta. repeat split; try (vm_compute; reflexivity).
  vm_compute. intros [H|[H|[]]]; discriminate.
Qed.

(** the legacy loop does return the stored case variant [estar] (for every visiting order) when no other stored
    name spells a matching part differently: the guard excludes exactly the mixing of parts of different names *)
Definition part_agree (a_e a_n a_star : str) : bool := negb (equal_fold_au a_e a_n) || eqb_str a_e a_star.
Definition legacy_guard (existing : list mname) (n estar : mname) : bool :=
  m_equal_fold estar n &&
  forallb (fun e => part_agree (mH e) (mH n) (mH estar) && part_agree (mN e) (mN n) (mN estar) &&
                    part_agree (mM e) (mM n) (mM estar) && part_agree (mT e) (mT n) (mT estar)) existing.

Definition near (n estar acc : mname) : Prop :=
  (mH acc = mH n \/ mH acc = mH estar) /\ (mN acc = mN n \/ mN acc = mN estar) /\
  (mM acc = mM n \/ mM acc = mM estar) /\ (mT acc = mT n \/ mT acc = mT estar).

Lemma efa_near a pn ps pa :
  Forall (fun c => c < 128) pn -> Forall (fun c => c < 128) ps -> cv ps pn -> (pa = pn \/ pa = ps) ->
  equal_fold_au a pa = equal_fold_au a pn.
Proof. intros An As Hcv [->| ->]; [reflexivity|]. apply efa_cv_r; assumption. Qed.

Lemma part_step a_e pn ps pa :
  Forall (fun c => c < 128) pn -> Forall (fun c => c < 128) ps -> cv ps pn ->
  part_agree a_e pn ps = true -> (pa = pn \/ pa = ps) ->
  let pa' := if equal_fold_au a_e pa then a_e else pa in
  (pa' = pn \/ pa' = ps) /\ (pa = ps -> pa' = ps).
Proof.
  intros An As Hcv Hg Hpa. cbv zeta. rewrite (efa_near a_e pn ps pa An As Hcv Hpa).
  unfold part_agree in Hg. destruct (equal_fold_au a_e pn) eqn:E; cbn in Hg.
  - apply eqb_str_spec in Hg. subst a_e. split; [right; reflexivity|reflexivity].
  - split; [exact Hpa|intro H; exact H].
Qed.

Lemma legacy_partial_aux existing n estar :
  m_is_fq n = true -> m_is_fq estar = true -> legacy_guard existing n estar = true ->
  forall l acc, incl l existing -> near n estar acc ->
    near n estar (fold_left gen_step l acc) /\
    (acc = estar -> fold_left gen_step l acc = estar) /\
    (In estar l -> fold_left gen_step l acc = estar).
Proof.
  intros Fn Fs Hg. unfold legacy_guard in Hg. apply andb_true_iff in Hg as [Hef Hall].
  pose proof (proj1 (cv_m_equal_fold estar n Fn) Hef) as (C1 & C2 & C3 & C4).
  destruct n as [h ns m t], estar as [hs nss ms ts]. cbn [mH mN mM mT] in *.
  apply m_is_fq_parts in Fn as (Ph & Pn & Pm & Pt). apply m_is_fq_parts in Fs as (Qh & Qn & Qm & Qt).
  pose proof (part_ok_ascii _ _ Ph) as Ah. pose proof (part_ok_ascii _ _ Pn) as An. pose proof (part_ok_ascii _ _ Pm) as Am.
  pose proof (part_ok_ascii _ _ Pt) as At. pose proof (part_ok_ascii _ _ Qh) as Bh. pose proof (part_ok_ascii _ _ Qn) as Bn.
  pose proof (part_ok_ascii _ _ Qm) as Bm. pose proof (part_ok_ascii _ _ Qt) as Bt.
  rewrite forallb_forall in Hall.
  assert (Hstep : forall e acc, In e existing -> near (MkM h ns m t) (MkM hs nss ms ts) acc ->
            near (MkM h ns m t) (MkM hs nss ms ts) (gen_step acc e) /\
            (acc = MkM hs nss ms ts -> gen_step acc e = MkM hs nss ms ts) /\
            (e = MkM hs nss ms ts -> gen_step acc e = MkM hs nss ms ts)).
  { intros e acc Hin (N1 & N2 & N3 & N4). cbn [mH mN mM mT] in *.
    specialize (Hall e Hin). repeat (apply andb_true_iff in Hall as [Hall ?]).
    destruct (part_step (mH e) h hs (mH acc) Ah Bh C1 Hall N1) as [S1 T1].
    destruct (part_step (mN e) ns nss (mN acc) An Bn C2 H1 N2) as [S2 T2].
    destruct (part_step (mM e) m ms (mM acc) Am Bm C3 H0 N3) as [S3 T3].
    destruct (part_step (mT e) t ts (mT acc) At Bt C4 H N4) as [S4 T4].
    unfold gen_step. split; [repeat split; cbn [mH mN mM mT]; assumption|]. split.
    - intros ->. cbn [mH mN mM mT] in *. rewrite (T1 eq_refl), (T2 eq_refl), (T3 eq_refl), (T4 eq_refl). reflexivity.
    - intros ->. cbn [mH mN mM mT] in *.
      rewrite (efa_near hs h hs (mH acc) Ah Bh C1 N1), (efa_near nss ns nss (mN acc) An Bn C2 N2),
              (efa_near ms m ms (mM acc) Am Bm C3 N3), (efa_near ts t ts (mT acc) At Bt C4 N4).
      rewrite (proj2 (equal_fold_au_ascii hs h Ah) C1), (proj2 (equal_fold_au_ascii nss ns An) C2),
              (proj2 (equal_fold_au_ascii ms m Am) C3), (proj2 (equal_fold_au_ascii ts t At) C4). reflexivity. }
  induction l as [|e l IH]; intros acc Hincl Hnear; cbn [fold_left].
  - split; [exact Hnear|]. split; [intro H; exact H|intros []].
  - assert (Hin : In e existing) by (apply Hincl; left; reflexivity).
    assert (Hincl' : incl l existing) by (intros x Hx; apply Hincl; right; exact Hx).
    destruct (Hstep e acc Hin Hnear) as (Hn' & Hk & He).
    destruct (IH (gen_step acc e) Hincl' Hn') as (R1 & R2 & R3).
    split; [exact R1|]. split.
    + intro Ha. apply R2, Hk, Ha.
    + intros [Heq|Hl]; [apply R2, He; exact Heq|apply R3; exact Hl].
Qed.

Lemma legacy_partial existing n estar :
  m_is_fq n = true -> m_is_fq estar = true -> In estar existing -> legacy_guard existing n estar = true ->
  get_existing_name_legacy existing n = estar.
Proof.
  intros Fn Fs Hin Hg. unfold get_existing_name_legacy.
  destruct (legacy_partial_aux existing n estar Fn Fs Hg existing n) as (_ & _ & H).
  - intros x Hx; exact Hx.
  - repeat split; left; reflexivity.
  - apply H. exact Hin.
Qed.
