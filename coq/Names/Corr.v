(** C13 - correspondence functions: each [chk_*] compares the model with one observation of the real Go code
    (harness/cmd/c13).  props/c13.py renders every case as a closed [bool] term; [true] = model agrees. *)
From Coq Require Import List NArith Bool Arith.
From V Require Import Common.Bytes Names.Path Names.Model.
Import ListNotations.
Open Scope N_scope.

Definition kind_of (k : N) : pk :=
  match k with 0 => KHost | 1 => KNamespace | 2 => KModel | 3 => KTag | _ => KDigest end.

Definition eq4 (a b c d a' b' c' d' : str) : bool :=
  eqb_str a a' && eqb_str b b' && eqb_str c c' && eqb_str d d'.

(** result codes used by the harness: 0 ok, 1 not-exist, 2 invalid digest, 3 invalid name, 4 bad scheme, 9 panic *)
Definition res_code {A} (r : res A) : N :=
  match r with
  | Ok _ => 0
  | Err ENotExist => 1
  | Err EInvalidDigest => 2
  | Err EInvalidName => 3
  | Err EBadScheme => 4
  | Panic => 9
  end.
Definition res_str (r : res str) : str := match r with Ok s => s | _ => [] end.
Definition chk_res (r : res str) (code : N) (payload : str) : bool :=
  (res_code r =? code) && eqb_str (res_str r) payload.

(** isValidPart of both packages *)
Definition chk_mvalid (k : N) (s : str) (r : bool) : bool := Bool.eqb (m_valid_part (kind_of k) s) r.
Definition chk_nvalid (k : N) (s : str) (r : bool) : bool := Bool.eqb (n_valid_part (kind_of k) s) r.

(** the whole table of one kind: prefix ++ [b] for b = 0 .. 255 *)
Fixpoint eqb_bools (a b : list bool) : bool :=
  match a, b with
  | [], [] => true
  | x :: a', y :: b' => Bool.eqb x y && eqb_bools a' b'
  | _, _ => false
  end.
Definition all_bytes : list N := map N.of_nat (seq 0 256).
Definition chk_mvalid_tab (k : N) (prefix : str) (r : list bool) : bool :=
  eqb_bools (map (fun b => m_valid_part (kind_of k) (prefix ++ [b])) all_bytes) r.
Definition chk_nvalid_tab (k : N) (prefix : str) (r : list bool) : bool :=
  eqb_bools (map (fun b => n_valid_part (kind_of k) (prefix ++ [b])) all_bytes) r.

(** model.ParseNameBare / ParseName / IsValid / String / DisplayShortest / Filepath *)
Definition chk_mparse (s : str) (bh bn bm bt : str) (h n m t : str) (valid : bool) (str_ short : str)
           (fpcode : N) (fp : str) : bool :=
  let b := m_parse_bare s in
  let f := m_parse s in
  eq4 (mH b) (mN b) (mM b) (mT b) bh bn bm bt &&
  eq4 (mH f) (mN f) (mM f) (mT f) h n m t &&
  Bool.eqb (m_is_valid f) valid &&
  eqb_str (m_string f) str_ &&
  eqb_str (m_display_shortest f) short &&
  chk_res (m_filepath f) fpcode fp.

Definition chk_mfromfp (s : str) (h n m t : str) : bool :=
  let f := m_parse_from_filepath s in eq4 (mH f) (mN f) (mM f) (mT f) h n m t.

(** strings.EqualFold(a, u) for ASCII [a] *)
Definition chk_equalfold (a u : str) (r : bool) : bool := Bool.eqb (equal_fold_au a u) r.

(** names.Parse / IsValid / IsFullyQualified / String *)
Definition chk_nparse (s : str) (h n m t : str) (valid fq : bool) (str_ : str) : bool :=
  let f := n_parse s in
  eq4 (nH f) (nN f) (nM f) (nT f) h n m t &&
  Bool.eqb (n_is_valid f) valid && Bool.eqb (n_is_fq f) fq && eqb_str (n_string f) str_.

(** ParseModelPath + GetManifestPath with OLLAMA_MODELS = root *)
Definition chk_mp (root s : str) (scheme reg ns repo tag : str) (code : N) (path : str) : bool :=
  let mp := mp_parse s in
  eqb_str (mpScheme mp) scheme && eq4 (mpRegistry mp) (mpNamespace mp) (mpRepository mp) (mpTag mp) reg ns repo tag &&
  chk_res (mp_manifest_path root mp) code path.

Definition chk_blobspath (root d : str) (code : N) (path : str) : bool := chk_res (get_blobs_path root d) code path.

(** blob.ParseDigest (sum as 32 bytes) and DiskCache.GetFile *)
Definition chk_digest (cwd dir s : str) (code : N) (sum : list N) (file : str) : bool :=
  match b_parse_digest s with
  | Ok d => (code =? 0) && eqb_str d sum && eqb_str (b_get_file cwd dir d) file
  | r => (res_code r =? code)
  end.

Definition chk_nametopath (s : str) (code : N) (path : str) : bool := chk_res (b_name_to_path s) code path.

Definition chk_manifestpath (dir : str) (links : list str) (name : str) (code : N) (path : str) : bool :=
  chk_res (b_manifest_path dir links name) code path.

Definition chk_splitnd (s name digest : str) : bool :=
  let '(a, b) := b_split_name_digest s in eqb_str a name && eqb_str b digest.

(** registry.go: splitExtended, parseNameExtended (mask given as a string, "" = DefaultMask), CompleteName *)
Definition mask_of (mask : str) : nname := match mask with [] => n_default_mask | _ => n_parse mask end.
Definition chk_ext (mask s : str) (sp_scheme sp_name sp_digest : str)
           (code : N) (scheme h n m t : str) (sum : list N) (complete : str) : bool :=
  let '(a, b, c) := r_split_extended s in
  eqb_str a sp_scheme && eqb_str b sp_name && eqb_str c sp_digest &&
  eqb_str (r_complete_name s) complete &&
  match r_parse_name_extended (mask_of mask) s with
  | Ok (sc, nm, d) =>
      (code =? 0) && eqb_str sc scheme && eq4 (nH nm) (nN nm) (nM nm) (nT nm) h n m t &&
      (* the Go function returns a Digest value; "no digest" is the zero digest *)
      eqb_str (match d with Some x => x | None => repeat 0 32 end) sum
  | r => (res_code r =? code)
  end.

(** path/filepath *)
Definition chk_clean (p out : str) : bool := eqb_str (fp_clean p) out.
Definition chk_join (elems : list str) (out : str) : bool := eqb_str (fp_join elems) out.
Definition chk_abs (cwd p out : str) : bool := eqb_str (fp_abs cwd p) out.

(** getExistingName (repaired): [existing] = what Manifests() lists (any order), names as (host, namespace, model, tag) *)
Definition mk4 (x : str * str * str * str) : mname := let '(h, n, m, t) := x in MkM h n m t.
Definition chk_existing (existing : list (str * str * str * str)) (q r : str * str * str * str) : bool :=
  m_eqb (get_existing_name (map mk4 existing) (mk4 q)) (mk4 r).

(** two name strings through both parsers: validity, and Name.EqualFold (exact in the model when the first name is valid) *)
Definition chk_foldpair (s1 s2 : str) (v1 v2 ef nv1 nv2 nfq1 nfq2 : bool) : bool :=
  let m1 := m_parse s1 in let m2 := m_parse s2 in let n1 := n_parse s1 in let n2 := n_parse s2 in
  Bool.eqb (m_is_valid m1) v1 && Bool.eqb (m_is_valid m2) v2 &&
  (if v1 then Bool.eqb (m_equal_fold m1 m2) ef else true) &&
  Bool.eqb (n_is_valid n1) nv1 && Bool.eqb (n_is_valid n2) nv2 && Bool.eqb (n_is_fq n1) nfq1 && Bool.eqb (n_is_fq n2) nfq2.

(** * histories (Hist.v) *)
From V Require Import Names.Hist.

Fixpoint eqb_cstate (a b : cstate) : bool :=
  match a, b with
  | [], [] => true
  | (p, d) :: a', (q, e) :: b' => eqb_str p q && (d =? e) && eqb_cstate a' b'
  | _, _ => false
  end.

(** one DiskCache instance, the models directory also written directly: after every operation the result and the
    directory listing (in c.links() order, with content ids) must be the model's *)
Fixpoint chk_cachehist_from (st : cstate) (ops : list cop) (obs : list (N * N * cstate)) : bool :=
  match ops, obs with
  | [], [] => true
  | op :: ops', (code, v, listing) :: obs' =>
      let '(st', (c, x)) := c_step st op in
      (c =? code) && (x =? v) && eqb_cstate st' listing && chk_cachehist_from st' ops' obs'
  | _, _ => false
  end.
Definition chk_cachehist (ops : list cop) (obs : list (N * N * cstate)) : bool := chk_cachehist_from [] ops obs.

(** the legacy handlers on a seeded store: result and the set of stored names with the identity of each model *)
Definition hentry := (str * str * str * str * N)%type.
Definition h_of (l : list hentry) : hstate := map (fun x => let '(h, n, m, t, d) := x in (MkM h n m t, d)) l.
Definition h_same (st : hstate) (l : list hentry) : bool :=
  (length st =? length l)%nat &&
  forallb (fun x => let '(h, n, m, t, d) := x in match h_lookup (MkM h n m t) st with Some e => e =? d | None => false end) l.
Fixpoint chk_handlers_from (st : hstate) (ops : list hop) (obs : list (bool * N * list hentry)) : bool :=
  match ops, obs with
  | [], [] => true
  | op :: ops', (ok, v, listing) :: obs' =>
      let '(st', (o, x)) := h_step st op in
      Bool.eqb o ok && (if ok then x =? v else true) && h_same st' listing && chk_handlers_from st' ops' obs'
  | _, _ => false
  end.
Definition chk_handlers (seed : list hentry) (ops : list hop) (obs : list (bool * N * list hentry)) : bool :=
  chk_handlers_from (h_of seed) ops obs.

(** clean-up: every file that disappeared (other than the addressed manifest) is a target of one of the digests *)
Definition chk_cleanup (root : str) (ds : list str) (removed : list str) : bool :=
  forallb (fun p => existsb (eqb_str p) (cleanup_targets root ds)) removed.
